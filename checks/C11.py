"""C11 -- substitution preserves value and is cache-independent.
Model: coq/C11/SubsModel.v (XReplaceVisitor / SubsVisitor / MSubsVisitor / SSubsVisitor of subs.h with the cache
`visited` as explicit state, on top of the arithmetic model coq/Expr/Arith.v).  Theorems: coq/C11/P_*.v.
Tie: every xreplace / subs / msubs / ssubs call of generated cases is recomputed by the extracted model from the dumps
of the expression and of the map, once with and once without the cache (result tree and hash compared).
Oracles on the library's outputs (driver, independent of the model): cache on/off results eq; identity map and
absent symbols return an eq expression; exact evaluation of the result at rational points against evaluation of the
input under the valuation updated with the values of the replacements (FunctionSymbols as uninterpreted functions).
Guard of the tie: the model identifies the visitors' pointer tests `result == child` with structural equality; runs in which
the library rebuilt a structurally unchanged (b**-1)**q with pow() (which collapses it to b**(-q)) are not compared with the
model (see `pow_collapsed`, ctx.assumptions); the oracles report them under the keys C11/...:Pow-collapse."""
import vlib
from checks import arithcommon as A
from checks import expsubscommon as E

OBLIGATIONS = [
    "C11/P_subs_sound.v",
    "C11/P_guarded_refines.v",
    "C11/P_cache_irrelevant.v",
    "C11/P_visitor_kinds.v",
    "C11/P_nonvacuous.v",
]
REFUTATIONS = ["C11/P_refuted.v"]
PROOF_MODULES = ["C11/SubsSound2.vo", "C11/SubsProofs.vo", "C11/Examples.vo"]

BIG = 6000
KINDS = ["subs"] * 6 + ["xreplace"] * 2 + ["msubs", "ssubs"]

VALS = ["(i 0)", "(i 1)", "(i -1)", "(i 2)", "(i 3)", "(q 1 2)", "(q -2 3)", "I", "x", "y", "z", "w", "(add x (i 1))", "(mul (i 2) y)",
        "(pow y (i 2))", "(add y z)", "(mul x y)", "(pow x (i -1))", "(neg x)", "(sub y x)", "(fs f z)", "(q 3 2)", "(i 4)", "(pow z (q 1 2))"]
EXPR_KEYS = ["(add x y)", "(pow x (i 2))", "(mul (i 2) x)", "(mul x y)", "(pow x y)", "(f1 sin x)", "(fs f x)", "(add x (i 1))", "(pow x (i -1))",
             "(pow x (q 1 2))", "(mul (i 2) (pow x (i 2)))", "(i 2)", "(q 1 2)", "I", "(i -1)", "(i 1)", "(i 3)", "pi", "(pow y (i 3))", "(pow (i 2) x)",
             "(add (add x y) z)", "(mul (i 3) (mul x y))", "(pow (add x y) (i 2))"]


def subterms(t, out):
    if isinstance(t, str):
        out.append(t)
        return
    if t[0] in ("i", "q", "c", "s"):
        out.append(A.show_sexp(t))
        return
    out.append(A.show_sexp(t))
    for k in t[1:]:
        if t[0] in ("f1", "fs") and k is t[1]:
            continue
        subterms(k, out)


def gen_expr(rng):
    r = rng.random()
    if r < 0.45:
        return A.gen_tree(rng, rng.randint(1, 3), "exact")
    if r < 0.8:
        return E.gen_xexpr(rng, rng.randint(1, 3))
    if r < 0.9:
        return A.gen_cancel(rng, "exact")
    x = rng.choice(E.SYMS)
    return rng.choice([
        "(pow %s (i 4))" % x, "(pow %s (mul (i 2) y))" % x, "(mul (pow %s (i 4)) (pow y (i 2)))" % x, "(add (pow %s (i 6)) (pow %s (i 3)))" % (x, x),
        "(pow %s (q 3 2))" % x, "(pow %s (add y (i 2)))" % x, "(mul (i 2) (pow %s (i 2)))" % x, "(fs f %s (pow %s (i 2)))" % (x, x),
        "(add (mul (i 2) (add x y)) (sub z (add x y)))", "(f1 abs (add (mul (i 2) (add x y)) (sub z (add x y))))",
        "(mul (c 1 2 3 4) %s)" % x, "(add (c 1 1 1 1) %s)" % x, "(pow (add %s I) (i 2))" % x])


def gen_case(rng):
    kind = rng.choice(KINDS)
    e = gen_expr(rng)
    r = rng.random()
    n = rng.choice([1, 1, 1, 2, 2, 3])
    pairs = []
    if r < 0.5:          # symbol keys
        ks = rng.sample(E.SYMS + ["w"], n)
        pairs = [(k, rng.choice(VALS)) for k in ks]
    elif r < 0.6:        # identity map
        ks = rng.sample(E.SYMS + EXPR_KEYS[:12], n)
        pairs = [(k, k) for k in ks]
    elif r < 0.68:       # absent symbols
        ks = rng.sample(["w", "u", "v"], n)
        pairs = [(k, rng.choice(VALS)) for k in ks]
    elif r < 0.85:       # sub-expressions of e as keys
        st = []
        try:
            subterms(A.parse_sexp(e) if e.startswith("(") else e, st)
        except ValueError:
            st = [e]
        ks = rng.sample(st, min(n, len(st)))
        pairs = [(k, rng.choice(VALS)) for k in ks]
    else:                # fixed expression / number keys
        ks = rng.sample(EXPR_KEYS, n)
        pairs = [(k, rng.choice(VALS)) for k in ks]
    return kind, e, pairs


CORPUS = [
    ("subs", "(add x y)", [("x", "(i 3)")]), ("subs", "(add x y)", [("x", "y")]), ("subs", "(add x y)", [("x", "(neg y)")]),
    ("subs", "(mul x y)", [("x", "(pow y (i -1))")]), ("subs", "(mul (i 2) x)", [("(mul (i 2) x)", "y")]), ("subs", "(add (mul (i 2) x) y)", [("(mul (i 2) x)", "z")]),
    ("subs", "(add (mul (i 2) x) y)", [("(i 2)", "z")]), ("subs", "(add (add x y) (i 2))", [("(i 2)", "z")]), ("subs", "(mul (i 2) (mul x y))", [("(i 2)", "(i 3)")]),
    ("subs", "(pow x (i 4))", [("(pow x (i 2))", "y")]), ("xreplace", "(pow x (i 4))", [("(pow x (i 2))", "y")]), ("subs", "(pow x (i 3))", [("(pow x (i 2))", "y")]),
    ("subs", "(pow x (mul (i 2) y))", [("(pow x (i 2))", "z")]), ("subs", "(pow x (mul (i 2) y))", [("(pow x y)", "z")]), ("subs", "(pow x (add y (i 1)))", [("(pow x (add y (i 1)))", "z")]),
    ("subs", "(pow x (i 4))", [("(pow x (i 2))", "y"), ("z", "(i 1)")]), ("ssubs", "(pow x (i 4))", [("(pow x (i 2))", "y")]), ("msubs", "(pow x (i 4))", [("(pow x (i 2))", "y")]),
    ("subs", "(mul (pow x (i 2)) y)", [("(pow x (i 2))", "z")]), ("subs", "(mul (pow x (i 4)) y)", [("(pow x (i 2))", "z")]), ("subs", "(mul x y)", [("x", "(i 0)")]),
    ("subs", "(pow x (i -1))", [("x", "(i 0)")]), ("subs", "(mul y (pow x (i -1)))", [("x", "(i 0)")]), ("subs", "(pow x y)", [("x", "(i 0)"), ("y", "(i 0)")]),
    ("subs", "(add (mul (i 2) (add x y)) (sub z (add x y)))", [("w", "(i 5)")]), ("subs", "(f1 abs (add (mul (i 2) (add x y)) (sub z (add x y))))", [("w", "(i 5)")]),
    ("subs", "(add x (add y z))", [("(add x y)", "w")]), ("subs", "(add (add x y) z)", [("(add (add x y) z)", "w")]), ("subs", "(mul (add x y) z)", [("(add x y)", "w")]),
    ("subs", "(fs f x y)", [("x", "y"), ("y", "x")]), ("subs", "(fs f x (fs g x))", [("(fs g x)", "z")]), ("subs", "(fs f x (fs g x))", [("x", "(i 1)")]),
    ("subs", "(mul (fs f x) (pow (fs f x) (i -1)))", [("x", "y")]), ("subs", "(f1 sin x)", [("x", "x")]), ("subs", "(f1 sin x)", [("y", "(i 1)")]),
    ("subs", "(f1 sin x)", [("(f1 sin x)", "z")]), ("subs", "(add (f1 sin x) (f1 cos x))", [("(f1 sin x)", "z")]), ("subs", "(mul (i 2) (f1 sin x))", [("(f1 sin x)", "(q 1 2)")]),
    ("subs", "(mul (c 1 2 3 4) x)", [("I", "y")]), ("subs", "(add (c 1 2 3 4) x)", [("I", "(i 2)")]), ("subs", "(pow (add x I) (i 2))", [("I", "y")]),
    ("subs", "(mul I x)", [("I", "(neg I)")]), ("subs", "(c 1 2 3 4)", [("I", "x")]), ("subs", "(mul (q 1 2) x)", [("(q 1 2)", "y")]),
    ("subs", "(pow x (q 1 2))", [("(q 1 2)", "(i 2)")]), ("subs", "(pow x (q 1 2))", [("x", "(i 4)")]), ("subs", "(pow x (q 1 2))", [("x", "(i -4)")]),
    ("subs", "(mul (pow x (q 1 2)) (pow y (q 1 2)))", [("x", "y")]), ("subs", "(mul (pow x (i 2)) (pow y (i -2)))", [("x", "y")]),
    ("subs", "(add (pow x (i 2)) (mul (i -1) (pow y (i 2))))", [("x", "y")]), ("subs", "(mul (add x (i 1)) (pow (add y (i 1)) (i -1)))", [("x", "y")]),
    ("subs", "(pow (mul x y) (q 1 2))", [("x", "(i 4)")]), ("subs", "(pow (mul (i 2) x) y)", [("x", "(q 1 2)")]), ("subs", "(pow (i 2) x)", [("x", "(i 10)")]),
    ("subs", "(pow (i 2) x)", [("x", "(q 1 2)")]), ("subs", "(pow x x)", [("x", "(i 3)")]), ("subs", "(pow x x)", [("x", "(i 0)")]),
    ("subs", "(add x (mul (i 2) y))", [("x", "y"), ("y", "x")]), ("subs", "(mul (pow x (i 2)) (pow y (i 3)))", [("x", "y"), ("y", "x")]),
    ("subs", "(add (add x y) z)", [("x", "(i 1)"), ("y", "(i 2)"), ("z", "(i -3)")]), ("subs", "(mul (mul x y) z)", [("x", "(i 2)"), ("y", "(q 1 2)"), ("z", "w")]),
    ("xreplace", "(add x y)", [("x", "(i 3)")]), ("msubs", "(add x y)", [("x", "(i 3)")]), ("ssubs", "(mul x (pow y (i 2)))", [("y", "(add x (i 1))")]),
    ("subs", "(max x y)", [("z", "(i 1)")]), ("subs", "(lt x y)", [("z", "(i 1)")]), ("subs", "(and (lt x y) (lt y z))", [("w", "(i 1)")]),
    ("subs", "(f1 sin (add x y))", [("z", "(i 1)")]), ("subs", "(interval (i 0) (i 1) 0 0)", [("x", "(i 1)")]), ("subs", "(fset x y)", [("z", "(i 1)")]),
    ("subs", "(pw x (lt x y) y true)", [("z", "(i 1)")]), ("subs", "(contains x (interval (i 0) (i 1) 0 0))", [("z", "(i 1)")]),
    ("subs", "(add oo x)", [("x", "(i 1)")]), ("subs", "(mul x (d 4000000000000000))", [("x", "(i 3)")]), ("subs", "(pow E x)", [("x", "(i 2)")]),
    ("subs", "(pow E x)", [("E", "(i 2)")]), ("subs", "(mul pi x)", [("pi", "(i 3)")]), ("subs", "(dum a)", [("x", "(i 1)")]),
    # known findings C11/...:Pow-collapse: a structurally unchanged (z**-1)**q is rebuilt by pow() when the pointer test fails
    ("xreplace", "(pow (div (i 2) z) (q 1 4))", [("w", "(q 1 2)")]), ("subs", "(pow (div (i 3) z) (q 1 2))", [("x", "x")]),
    ("xreplace", "(pow (div (i 2) z) (q 1 2))", [("(pow z (i -1))", "(pow z (i -1))")]),
    ("subs", "(mul (add y x) (pow (div (q 7 3) E) (q 1 3)))", [("x", "(neg z)")]), ("xreplace", "(pow (div (i 2) z) (q 1 4))", [("z", "y")]),
]


def nested_add_key(dump):
    """does some Add of the dump have an Add as a key (DESIGN row 42)?"""
    try:
        t = A.parse_sexp(dump)
    except ValueError:
        return False
    hit = []

    def walk(u):
        if isinstance(u, str):
            return
        if u and u[0] == "Add":
            for ent in u[2:]:
                if isinstance(ent, list) and ent and isinstance(ent[0], list) and ent[0] and ent[0][0] == "Add":
                    hit.append(1)
        for k in u:
            walk(k)
    walk(t)
    return bool(hit)


POWCOLLAPSE = "Pow-collapse"


def collapse(dump):
    """(text of the dump after rewriting every (b**-1)**q, q a Rational -- a key Pow(b, -1) with exponent q of a Mul
    dictionary, as Mul::power_num builds it, or a node Pow(Pow(b, -1), q) -- to b**(-q), which is what the pow()
    constructor returns for it (pow.cpp, "Convert (x**-1)**b = x**(-b)"; root cause of the known finding
    C35/refine-value:Pow-collapse), with Add and Mul dictionaries sorted by text; number of rewritten nodes);
    (None, 0) when the rewriting would have to merge two dictionary entries"""
    hits = [0]

    def negq(ex):
        return ["Q", str(-int(ex[1])), ex[2]]

    def is_recip(b):
        return isinstance(b, list) and len(b) == 3 and b[0] == "Pow" and b[2] == ["I", "-1"]

    def isq(ex):
        return isinstance(ex, list) and len(ex) == 3 and ex[0] == "Q"

    def go(u):
        if isinstance(u, str) or not u:
            return u
        if u[0] == "Pow" and len(u) == 3 and is_recip(u[1]) and isq(u[2]):
            hits[0] += 1
            return ["Pow", go(u[1][1]), negq(u[2])]
        if u[0] == "Mul":
            ents = []
            for ent in u[2:]:
                if isinstance(ent, list) and len(ent) == 2 and is_recip(ent[0]) and isq(ent[1]):
                    hits[0] += 1
                    ents.append([go(ent[0][1]), negq(ent[1])])
                else:
                    ents.append(go(ent))
            bases = [A.show_sexp(e[0]) for e in ents if isinstance(e, list) and len(e) == 2]
            if len(set(bases)) != len(bases):
                raise ValueError("merge")
            return ["Mul", go(u[1])] + sorted(ents, key=A.show_sexp)
        return [go(k) for k in u]
    try:
        return A.show_sexp(A.canon_sexp(go(A.parse_sexp(dump)))), hits[0]
    except (ValueError, IndexError):
        return None, 0


def pow_collapsed(before, after):
    """does `after` differ from `before` exactly by Pow-collapses of `before` (see collapse)?"""
    if before.startswith("EXN") or after.startswith("EXN"):
        return False
    cb, nb = collapse(before)
    ca, na = collapse(after)
    return cb is not None and cb == ca and na < nb and E.canon_dump(before) != E.canon_dump(after)


def case_line(kind, e, pairs):
    return "S %s ;; %s%s" % (kind, e, "".join(" ;; %s ;; %s" % p for p in pairs))


def run(ctx):
    ctx.gate(["ExpSubs", "C11"])
    E.prove(ctx, PROOF_MODULES, OBLIGATIONS, REFUTATIONS)
    drv, model = E.build(ctx)
    q = ctx.tier == "quick"
    rng = ctx.rng
    cases = list(CORPUS) + [gen_case(rng) for _ in range(1400 if q else 40000)]
    stats = {}
    explore(ctx, drv, model, cases, stats)
    if ctx.broken and not ctx.violations:
        explore(ctx, drv, model, [gen_case(rng) for _ in range(6000)], stats, search=True)
    ctx.cov["distinct_nontrivial"] = len(stats.get("nontrivial", ()))
    ctx.cov["calls_outside_model_skipped"] = stats.get("skipped", 0)
    ctx.cov["pointer_identity_rebuilds_skipped"] = stats.get("ptr_skipped", 0)
    ctx.cov["value_points_evaluated"] = stats.get("points", 0)
    ctx.cov["cases_no_key_occurs"] = stats.get("absent", 0)
    ctx.cov["cases_keys_consistent"] = stats.get("consistent", 0)
    ctx.cov["cases_single_pow_key"] = stats.get("single_pow_key", 0)
    ctx.cov["cases_satisfying_subs_guard"] = stats.get("subs_guard", 0)
    ctx.cov["cases_by_kind"] = stats.get("kinds", {})
    ctx.cov["rule"] = ("cases (visitor kind, expression recipe, map of 1..3 pairs): a fixed corpus (every bvisit of XReplaceVisitor on the arithmetic "
                       "fragment, the Pow special case of SubsVisitor, complex numbers with I as a key, number keys, term keys `2*x`, swaps, the un-flattened "
                       "nested Add), random arithmetic trees of depth <= 3 (exact numbers, symbols, constants, powers incl. rational and symbolic "
                       "exponents, function applications, FunctionSymbols) with maps whose keys are symbols / absent symbols / identity pairs / random "
                       "sub-expressions of the expression / fixed expression and number keys; every case run with and without the cache; evaluations = "
                       "(case, cache mode) pairs compared with the model; a case is non-trivial when the result differs from the expression; distinct "
                       "= distinct (kind, expression dump, map dumps)")
    ctx.assumptions += [
        "pointer comparisons `result == x.get_arg()` are modelled by structural equality (the dumps do not record sharing).  GUARD of the "
        "correspondence: the library's pointer test also fails on a structurally unchanged child whose result is another object (the cache "
        "entry of an equal subterm visited elsewhere, or the value of an identity pair of the map); the node is then rebuilt by pow(), which "
        "returns an equal node except that it collapses (b**-1)**q to b**(-q).  A (case, cache mode) whose library result is the model's "
        "result with some of its (b**-1)**q collapsed (and nothing else changed) is outside the modelled fragment: counted in "
        "pointer_identity_rebuilds_skipped and not compared; its property violations are reported by the oracles (keys ...:Pow-collapse)",
        "function / relational / boolean / set constructors are outside the model: such a node is taken as unchanged when all its children are unchanged, "
        "and the call is skipped (UNMODELLED) otherwise; FunctionSymbol::create is modelled",
        "Derivative and Subs nodes are outside the model (there MSubsVisitor = XReplaceVisitor and SSubsVisitor = SubsVisitor by inheritance)",
        "std::map<RCPBasicKeyLess> is a list sorted by the modelled comparator, find = lower_bound + equivalence",
        "the arithmetic model of add / mul / pow (coq/Expr/Arith.v) is the one validated by C03 / C04 / C07; libm-dependent results are skipped",
    ]


def explore(ctx, drv, model, cases, stats, search=False):
    if drv is None or model is None:
        return
    lines = [case_line(*c) for c in cases]
    outs = ctx.run_lines(drv, lines, timeout=2400, shards=16)
    mq = []
    recs = []
    for (kind, e, pairs), line, out in zip(cases, lines, outs):
        rp = {"family": "expsubs", "case": line}
        bad = E.bad_line(out)
        if bad:
            if bad == "HANG":
                ctx.notes.append("substitution did not finish within 30 s (skipped): " + line[:200])
            else:
                ctx.violation("C11/crash", "%s ends with %s on %s" % (kind, out[-60:], line[:400]), rp)
            continue
        if out.startswith("RECIPE-"):
            continue
        main, oracles = E.split_oracle(out)
        try:
            n = int(main[1])
            kv = main[2:2 + 2 * n]
            r1, h1, r0, h0 = main[2 + 2 * n:6 + 2 * n]
            npts = main[6 + 2 * n]
        except (ValueError, IndexError):
            ctx.broken.append({"kind": "correspondence", "name": "expsubs_driver", "detail": "unparsable output for %s: %s" % (line, out[:300])})
            continue
        edump = main[0]
        stats.setdefault("kinds", {})
        stats["kinds"][kind] = stats["kinds"].get(kind, 0) + 1
        if npts.isdigit():
            stats["points"] = stats.get("points", 0) + int(npts)
        cls = "nested-add-key" if nested_add_key(edump) else POWCOLLAPSE if pow_collapsed(edump, r1) else "other"
        for o in oracles:
            what = o.split(" ;; ")[0].strip()
            if what == "cache":
                ctx.violation("C11/cache-dependent" + (":" + POWCOLLAPSE if pow_collapsed(r0, r1) else ""), "%s with and without the cache differ: %s -> %s vs %s" % (kind, line[2:300], r1[:300], r0[:300]), rp)
            elif what == "identity":
                ctx.violation("C11/identity-map-changes:" + cls, "%s with an identity map returns a different expression: %s -> %s" % (kind, line[2:300], r1[:300]), rp)
            elif what == "absent":
                ctx.violation("C11/absent-symbol-changes:" + cls, "%s of symbols that do not occur returns a different expression: %s: %s -> %s" % (
                    kind, line[2:300], edump[:300], r1[:300]), rp)
            elif what == "value":
                ctx.violation("C11/value-changed", "%s changed the value (%s): %s -> %s" % (kind, o[9:], line[2:300], r1[:300]), rp)
        if "Opaque" in out or len(out) > 4 * BIG:
            stats["skipped"] = stats.get("skipped", 0) + 2
            continue
        for cache, r, h in (("1", r1, h1), ("0", r0, h0)):
            mq.append("subs ;; %s ;; %s ;; %s%s" % (kind, cache, edump, "".join(" ;; " + x for x in kv)))
            recs.append((kind, line, edump, kv, cache, r, h))
    mouts = ctx.run_lines(model, mq, timeout=2400, shards=16)
    seen = set()
    fq = []
    for (kind, line, edump, kv, cache, r, h), mout in zip(recs, mouts):
        key = (kind, cache, edump, tuple(kv))
        if key in seen:
            continue
        seen.add(key)
        ctx.cov["evaluations"] += 1
        v = E.compare_result(r, h, mout)
        if v == "skip":
            stats["skipped"] = stats.get("skipped", 0) + 1
            continue
        if v != "ok" and v.startswith("result differs") and pow_collapsed(mout.partition(" ;; ")[0], r):
            # guard of the correspondence (pointer identity, see ctx.assumptions): the library rebuilt a structurally
            # unchanged node with pow(), which collapsed (b**-1)**q; the property violations that follow from it are
            # reported by the oracles above (known findings C11/...:Pow-collapse)
            stats["ptr_skipped"] = stats.get("ptr_skipped", 0) + 1
            continue
        ctx.cov["traces_validated_against_impl"] += 1
        if v != "ok":
            stats["ndis"] = stats.get("ndis", 0) + 1
            if stats["ndis"] <= 4:
                ctx.broken.append({"kind": "correspondence", "name": "C11 model vs library",
                                   "detail": "case %s (cache %s)\n%s" % (line[:600], cache, v[:900]), "case": line})
        else:
            if not E.is_exn(r) and E.canon_dump(r) != E.canon_dump(edump):
                stats.setdefault("nontrivial", set()).add((kind, edump, tuple(kv)))
            if cache == "1":
                fq.append("sflags ;; %s ;; %s%s" % (kind, edump, "".join(" ;; " + x for x in kv)))
            if not search and len(ctx.cov["samples"]) < 6 and len(r) < 300 and E.canon_dump(r) != E.canon_dump(edump):
                ctx.cov["samples"].append({"case": line, "cache": cache, "result": r, "model": mout[:300]})
    fo = ctx.run_lines(model, fq, timeout=2400, shards=16)
    for f in fo:
        if len(f) == 4:
            if f[0] == "0":
                stats["absent"] = stats.get("absent", 0) + 1
            if f[1] == "1":
                stats["consistent"] = stats.get("consistent", 0) + 1
            if f[2] == "1":
                stats["single_pow_key"] = stats.get("single_pow_key", 0) + 1
            if f[3] == "1":
                stats["subs_guard"] = stats.get("subs_guard", 0) + 1


def replay(ctx, rep):
    drv, model = E.build(ctx)
    line = rep["replay"]["case"]
    out = ctx.run_lines(drv, [line])[0]
    print("case  :", line)
    print("impl  :", out)
    main, oracles = E.split_oracle(out)
    try:
        kind = line[2:].split(" ;; ")[0].strip()
        n = int(main[1])
        kv = main[2:2 + 2 * n]
        for cache in ("1", "0"):
            mq = "subs ;; %s ;; %s ;; %s%s" % (kind, cache, main[0], "".join(" ;; " + x for x in kv))
            print("model (cache %s):" % cache, ctx.run_lines(model, [mq])[0])
    except (ValueError, IndexError):
        pass
    for o in oracles:
        print("oracle:", o)
