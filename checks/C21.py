"""C21 -- univariate polynomial arithmetic (UIntPoly / URatPoly; UExprPoly by round trip only).
Model: coq/C21/PolyModel.v (sorted-list std::map, ODictWrapper operations, Kronecker product with
its 32-bit counters, divides_upoly, eval, diff).  Theorems: coq/C21/P_*.v (schoolbook arithmetic on
coefficient lists).  Tie: every case line runs on the extracted model and on the library; the driver
also checks the library's answer against its own schoolbook arithmetic (#ORACLE)."""
from fractions import Fraction

import vlib

# Proof modules in dependency order (compiled by coqc directly until they are listed in coq/_CoqProject):
#   C21/PolyModel.v C21/PolySpec.v C21/PolyList.v C21/PolyDict.v C21/PolyKron.v C21/PolyProofs.v
#   C21/PolyFits.v C21/PolyProofs2.v C21/PolyFitsZ.v C21/PolyFitsZ2.v
PROOF_MODULES = ["C21/PolyProofs2.vo", "C21/PolyFitsZ2.vo", "C21/PolyRing.vo", "C21/PolyRingQ.vo"]
OBLIGATIONS = ["C21/P_%s.v" % n for n in (
    "repr_int", "repr_rat", "degree_lc_int", "degree_lc_rat", "add_sub_neg_int", "add_sub_neg_rat",
    "mul_generic_int", "mul_generic_rat", "kronecker_correct", "mul_upoly_int", "mul_upoly_rat",
    "pow_int", "pow_rat", "eval_diff_int", "eval_diff_rat", "divides_int", "divides_rat",
    "divides_complete_int", "divides_complete_rat", "pow_rat_simple", "divides_rat_simple",
    "pow_int_simple", "divides_int_simple", "mul_ring_laws_int", "mul_ring_laws_rat",
    "loops_terminate", "nonvacuous")]

W32 = 1 << 32


# ------------------------------------------------------------------ formatting
def hx(n):
    return ("-" if n < 0 else "") + format(abs(n), "x")


def fq(v):
    v = Fraction(v)
    return hx(v.numerator) if v.denominator == 1 else hx(v.numerator) + "/" + hx(v.denominator)


def fpoly(p):
    """p: dict key -> value (zeros allowed: the map constructor must drop them)"""
    if not p:
        return "-"
    return ",".join("%d:%s" % (k, fq(p[k])) for k in sorted(p))


def pmul(a, b):
    r = {}
    for i, x in a.items():
        for j, y in b.items():
            r[i + j] = r.get(i + j, 0) + x * y
    return {k: v for k, v in r.items() if v != 0}


def padd(a, b, s=1):
    r = dict(a)
    for k, v in b.items():
        r[k] = r.get(k, 0) + s * v
    return {k: v for k, v in r.items() if v != 0}


def deg(p):
    nz = [k for k, v in p.items() if v != 0]
    return max(nz) if nz else 0


def nterms(p):
    return sum(1 for v in p.values() if v != 0)


# ------------------------------------------------------------------ generators
def gen_coef(rng, fam, big=False):
    r = rng.random()
    if r < 0.10:
        c = 0
    elif r < 0.35:
        c = rng.choice([1, -1, 2, -2, 3, -3])
    elif r < 0.60:
        k = rng.choice([1, 2, 3, 4, 7, 8, 15, 16, 31, 32, 33, 63, 64, 65])
        c = rng.choice([(1 << k) - 1, 1 << k, (1 << k) + 1]) * rng.choice([1, -1])
    elif r < 0.9 or not big:
        c = rng.randint(-1000, 1000)
    else:
        c = rng.getrandbits(rng.choice([100, 200, 700])) * rng.choice([1, -1])
    if fam == "Q" and rng.random() < 0.6:
        d = rng.choice([2, 3, 4, 5, 6, 7, 12, 1 << 20, 1000003])
        return Fraction(c, d)
    return c


def gen_poly(rng, fam, maxlen=9, big=False):
    r = rng.random()
    if r < 0.06:
        return {}
    if r < 0.14:
        return {0: gen_coef(rng, fam, big) or 1}                      # a constant
    if r < 0.22:
        return {rng.choice([1, 2, 5, 17]): gen_coef(rng, fam, big) or 1}  # a single term
    if r < 0.45:                                                   # sparse with gaps
        n = rng.randint(1, 5)
        keys = rng.sample(range(0, 60), n)
        return {k: gen_coef(rng, fam, big) for k in keys}
    n = rng.randint(1, maxlen)
    return {k: gen_coef(rng, fam, big) for k in range(n)}


def gen_kron_pair(rng):
    """operands at the Kronecker bit budget: lengths 2^k-1, 2^k, coefficients 2^j-1, 2^j, signs
    equal or alternating, so that the product's coefficients come close to min(len)*A*B"""
    la = rng.choice([1, 2, 3, 4, 7, 8, 9, 15, 16])
    lb = rng.choice([1, 2, 3, 4, 7, 8, 9, 15, 16])
    ja = rng.choice([1, 2, 3, 4, 8, 31, 32, 64])
    jb = rng.choice([1, 2, 3, 4, 8, 31, 32, 64])
    ca = rng.choice([(1 << ja) - 1, 1 << ja])
    cb = rng.choice([(1 << jb) - 1, 1 << jb])
    sa = rng.choice(["+", "-", "alt"])
    sb = rng.choice(["+", "-", "alt"])

    def mk(n, c, s):
        p = {}
        for i in range(n):
            sign = 1 if s == "+" else -1 if s == "-" else (1 if i % 2 == 0 else -1)
            p[i] = sign * c
        if rng.random() < 0.3 and n > 2:
            p[rng.randrange(n)] = rng.choice([0, 1, -1])
        return p
    return mk(la, ca, sa), mk(lb, cb, sb)


def gen_div_pair(rng, fam):
    r = rng.random()
    a = gen_poly(rng, fam, 5)
    q = gen_poly(rng, fam, 5)
    if r < 0.45:                      # exact: b = a*q
        return a, pmul(a, q)
    if r < 0.60:                      # exact plus a small remainder
        b = padd(pmul(a, q), {rng.choice([0, 1, 2]): rng.choice([1, -1, 2])})
        return a, b
    if r < 0.70:                      # cyclotomic-like: few terms in b, many in a
        n = rng.choice([2, 3, 4, 5, 6])
        return {i: 1 for i in range(n)}, {0: -1, n: 1}
    if r < 0.80:                      # leading coefficients that do not divide
        return padd(a, {deg(a) + 1: rng.choice([2, 3, -2])}), padd(q, {deg(q) + deg(a) + 2: 1})
    return a, gen_poly(rng, fam, 7)


def gen_cases(rng, tier):
    cases = []
    n = 1 if tier == "quick" else 6
    for fam in ("I", "Q"):
        for _ in range(140 * n):
            a, b = gen_poly(rng, fam, big=True), gen_poly(rng, fam, big=True)
            op = rng.choice(["add", "sub", "mul", "gmul", "add", "sub"])
            if rng.random() < 0.15:
                b = dict(a) if rng.random() < 0.5 else {k: -v for k, v in a.items()}   # equal / opposite
            cases.append("%s %s %s %s" % (fam, op, fpoly(a), fpoly(b)))
        for _ in range(40 * n):
            a = gen_poly(rng, fam, big=True)
            cases.append("%s neg %s" % (fam, fpoly(a)))
            cases.append("%s diff %s" % (fam, fpoly(a)))
            cases.append("%s deg %s" % (fam, fpoly(a)))
            cases.append("%s lc %s" % (fam, fpoly(a)))
            k = rng.choice(sorted(a) + [0, 1, 61, 1000]) if a else rng.choice([0, 3])
            cases.append("%s coeff %s %d" % (fam, fpoly(a), k))
            x = gen_coef(rng, fam)
            small = {k: v for k, v in a.items() if k < 40}
            cases.append("%s eval %s %s" % (fam, fpoly(small), fq(x)))
            v = [gen_coef(rng, fam) for _ in range(rng.randint(0, 8))] + [0] * rng.choice([0, 0, 1, 3])
            cases.append("%s vec %s" % (fam, ",".join(fq(c) for c in v) if v else "-"))
        for _ in range(60 * n):
            a = gen_poly(rng, fam, 5)
            e = rng.choice([0, 0, 1, 1, 2, 3, 4, 5, 7, 8, 9])
            a = {k: v for k, v in a.items() if k < 20}
            cases.append("%s pow %s %d" % (fam, fpoly(a), e))
        for _ in range(140 * n):
            a, b = gen_div_pair(rng, fam)
            cases.append("%s div %s %s" % (fam, fpoly(a), fpoly(b)))
    for _ in range(300 * n):
        a, b = gen_kron_pair(rng)
        cases.append("I %s %s %s" % (rng.choice(["kmul", "mul", "kmul"]), fpoly(a), fpoly(b)))
    for _ in range(120 * n):
        a, b = gen_poly(rng, "I", big=True), gen_poly(rng, "I", big=True)
        cases.append("I kmul %s %s" % (fpoly(a), fpoly(b)))
    return cases


def gen_expr(rng, fam, depth=0):
    r = rng.random()
    if depth >= 2 or r < 0.25:
        n = rng.randint(1, 4)
        terms = []
        for i in range(n):
            c = rng.choice([1, -1, 2, 3, -5, 7, 12, 255, -256])
            if fam == "Q" and rng.random() < 0.4:
                c = "%d/%d" % (c, rng.choice([2, 3, 7]))
            terms.append("(%s)*x**%d" % (c, i))
        return "(" + " + ".join(terms) + ")"
    if r < 0.5:
        return "(%s)**%d" % (gen_expr(rng, fam, depth + 1), rng.choice([1, 2, 2, 3, 4]))
    if r < 0.75:
        return "(%s)*(%s)" % (gen_expr(rng, fam, depth + 1), gen_expr(rng, fam, depth + 1))
    return "(%s + %s)" % (gen_expr(rng, fam, depth + 1), gen_expr(rng, fam, depth + 1))


def gen_expr_cases(rng, n):
    """UExprPoly (driver only): coefficients are expressions in the symbol a"""
    coefs = ["1", "-1", "2", "a", "-a", "a+1", "2*a", "a**2", "a-3", "3", "-7", "0", "a*(a+1)", "1/2", "a/3"]

    def poly(maxn=4):
        if rng.random() < 0.08:
            return "-"
        keys = sorted(rng.sample(range(0, 7), rng.randint(1, maxn)))
        return ",".join("%d:%s" % (k, rng.choice(coefs)) for k in keys)
    out = []
    for _ in range(n):
        op = rng.choice(["add", "sub", "mul", "mul", "neg", "pow", "eval", "diff", "deg"])
        if op in ("add", "sub", "mul"):
            a = poly()
            b = a if rng.random() < 0.15 else poly()
            out.append("E %s %s %s" % (op, a, b))
        elif op == "pow":
            out.append("E pow %s %d" % (poly(3), rng.choice([0, 1, 2, 3, 4])))
        elif op == "eval":
            out.append("E eval %s %s" % (poly(), rng.choice(["0", "1", "-2", "a", "a-2", "1/3"])))
        else:
            out.append("E %s %s" % (op, poly()))
    return out


def small_universe():
    """every pair of polynomials of length <= 3 with coefficients in {-1,0,1,2}"""
    import itertools
    polys = []
    for ln in range(0, 4):
        for cs in itertools.product([-1, 0, 1, 2], repeat=ln):
            polys.append({i: c for i, c in enumerate(cs)})
    cases = []
    for a in polys:
        for b in polys:
            for op in ("sub", "kmul", "div"):
                cases.append("I %s %s %s" % (op, fpoly(a), fpoly(b)))
    return cases


SEVEN = ",".join("%d:7" % i for i in range(7))
CORPUS = [
    # the inputs of the five repaired defects (known_findings.txt `fixed:` lines)
    "I kmul %s %s" % (SEVEN, SEVEN),
    "I mul %s %s" % (SEVEN, SEVEN),
    "I pow 0:1,1:1 0", "Q pow 0:1,1:1 0", "I pow - 0",
    "I pow - 1", "I pow - 2", "I kmul - -", "I kmul - 0:1", "I eval - 3", "Q eval - 3",
    "I div 0:1,1:1,2:1 0:-1,3:1", "Q div 0:1,1:1,2:1 0:-1,3:1", "Q div 5:1 1:1", "I div 5:1 1:1",
    "I div 2:1 0:1,3:1", "I div - 0:1,1:1", "I div 0:1,1:1 -", "I div 0:2 1:1", "I div 0:2 0:-6,1:4",
    # negative product value, carries through several digits
    "I kmul 0:-1,1:-1 0:1,1:1", "I kmul 0:ff,1:-ff,2:ff 0:-ff,1:ff", "I kmul 0:-8,1:8 0:8,1:8",
    "I kmul 0:1,2:-1 0:1,2:1", "I kmul 5:3 7:-2", "I kmul 0:7fffffff,1:7fffffff 0:7fffffff,1:7fffffff",
    "I mul 0:3,3:5 0:-2", "I mul 0:3,3:5 1:1", "Q mul 0:3/2,3:5 0:-2/3",
    "I sub 0:1,1:1 0:1,1:1", "I add 0:1,1:1 0:-1,1:-1", "I sub - 0:1,1:1",
]
# the remaining representation limit: exponents are `unsigned int`
WRAP_CASE = "Q gmul 1:1,2147483648:1 1:1,2147483648:1"


def parse_poly(s):
    if s == "-":
        return {}
    r = {}
    for t in s.split(","):
        k, v = t.split(":")
        if "/" in v:
            nu, de = v.split("/")
            r[int(k)] = Fraction(int(nu, 16), int(de, 16))
        else:
            r[int(k)] = int(v, 16)
    return r


def nontrivial(c):
    """a case is non-trivial when every polynomial operand has at least two non-zero terms
    (for pow: exponent >= 2; for vec: at least two non-zero entries)"""
    t = c.split()
    if t[0] == "B":
        return c.count("x") >= 2
    if t[0] == "E":
        ps = [x for x in t[2:] if ":" in x]
        return bool(ps) and all(x.count(",") >= 1 for x in ps) and (t[1] != "pow" or int(t[3]) >= 2)
    if t[1] == "vec":
        return sum(1 for x in t[2].split(",") if x.strip("-0")) >= 2
    ps = [parse_poly(x) for x in t[2:] if ":" in x or x == "-"]
    if not ps or any(nterms(p) < 2 for p in ps):
        return False
    if t[1] == "pow":
        return int(t[3]) >= 2
    return True


def classify(c, what):
    t = c.split()
    if t[0] == "B":
        return "C21/roundtrip-differs-from-expand"
    if t[0] == "E":
        return "C21/uexprpoly-%s-wrong" % t[1]
    op = t[1]
    if op in ("mul", "gmul", "kmul"):
        a, b = parse_poly(t[2]), parse_poly(t[3])
        if a and b and deg(a) + deg(b) >= W32:
            return "C21/exponent-wrap-2^32"
        return "C21/%s-differs-from-schoolbook" % op
    return "C21/%s-wrong" % op


def run(ctx):
    ctx.gate(["Base", "C21"])
    ctx.prove(PROOF_MODULES, OBLIGATIONS)
    drv = ctx.build_driver("c21_driver")
    model = ctx.build_model("C21", "C21/Extract.v", "c21_main.ml", "poly_model")
    cases = list(CORPUS) + [WRAP_CASE] + gen_cases(ctx.rng, ctx.tier)
    nrt = 150 if ctx.tier == "quick" else 2500
    rts = ["B rt %s %s" % (f, gen_expr(ctx.rng, f)) for f in ("I", "Q", "E") for _ in range(nrt // 3)]
    rts.append("B rt I (7+7*x+7*x**2+7*x**3+7*x**4+7*x**5+7*x**6)**2")
    rts += ["E pow 0:a,1:1 0", "E pow - 2", "E eval - 3", "E mul - 0:a", "E sub 0:a,3:-2 0:a,3:-2", "E mul 0:a+1,2:3 0:2"]
    rts += gen_expr_cases(ctx.rng, 150 if ctx.tier == "quick" else 2500)
    if ctx.tier == "thorough":
        cases += small_universe()
    explore(ctx, drv, model, cases, rts)
    if ctx.broken and not ctx.violations:
        # a proof or the tie broke: search harder for a concrete failing input
        extra = small_universe() + gen_cases(ctx.rng, "thorough")
        explore(ctx, drv, model, extra, [], search=True)
    ctx.cov["rule"] = ("one polynomial operation per case (add sub neg mul kmul gmul pow div eval diff coeff deg lc vec, "
                       "integer and rational coefficients; round trips from_basic/as_symbolic); operands from one PRNG aimed at "
                       "the case splits of the proofs: zero polynomial, constants, single terms, equal/opposite operands, "
                       "gaps, coefficients 2^k-1/2^k/2^k+1 with lengths 2^k-1/2^k (Kronecker bit budget), negative products, "
                       "exact/inexact divisions incl. quotients with fewer terms than the divisor; non-trivial = every operand "
                       "has >= 2 non-zero terms (pow: exponent >= 2); distinct = distinct case lines")
    ctx.assumptions += [
        "exponents are `unsigned int`: theorems about products assume deg a + deg b < 2^32 (ODictWrapper::mul and "
        "UIntDict::mul wrap silently above; corpus case `%s` shows it, known finding C21/exponent-wrap-2^32)" % WRAP_CASE,
        "UIntDict::mul: the bit budget N is an `unsigned int`: bit_length(min(da,db)+1) + bit_length(max|a|) + "
        "bit_length(max|b|) + 1 < 2^32 is assumed (fits_u32); N*(last_deg - key) is computed in unsigned long and cannot wrap then",
        "GMP operations (mpz add/mul/shift/and/tdiv_qr, mpq arithmetic with canonical results) are their mathematical meaning "
        "(Z / Qc operations of the Coq standard library)",
        "std::map<unsigned, T> behaves as a strictly sorted association list (lower_bound/insert/erase/operator[])",
        "rational coefficients: pow needs n * deg a < 2^32 and divides deg b < 2^32 only (P_pow_rat_simple, P_divides_rat_simple); "
        "integer coefficients: pow / divides are stated under zpow_fits / zdivides_fits (every product formed satisfies fits_u32) "
        "and under explicit sufficient conditions (P_pow_int_simple: n*deg a < 2^32 and n*(bit_length(deg a + 1) + "
        "bit_length(max|a|)) + 36 < 2^32; P_divides_int_simple: deg b < 2^32 and (deg b + 1)*bit_length(max|a| + 1) + "
        "bit_length(max|a|) + bit_length(max|b|) + 36 < 2^32)",
        "UExprPoly (expression coefficients) instantiates the same ODictWrapper templates that the theorems cover at Z and Q; it is "
        "exercised on the library only, against the expanded symbolic result (driver family E); from_basic/as_symbolic are covered "
        "by the round-trip oracle on generated expressions only (family B), not by theorems",
    ]


def explore(ctx, drv, model, cases, rts, search=False):
    if drv is None or model is None:
        return
    impl = ctx.run_lines(drv, cases + rts, timeout=7200, shards=16)
    mod = ctx.run_lines(model, cases, timeout=7200, shards=16) + [None] * len(rts)
    # how many cases satisfy the hypotheses of the theorems (fits_u32 / pow_fits / divides_fits)
    hyp = []
    for c in cases:
        t = c.split()
        if t[0] == "I" and t[1] in ("mul", "kmul"):
            hyp.append("I fits %s %s" % (t[2], t[3]))
        elif t[1] == "pow":
            hyp.append("%s powfits %s %s" % (t[0], t[2], t[3]))
        elif t[1] == "div":
            hyp.append("%s divfits %s %s" % (t[0], t[2], t[3]))
    hv = ctx.run_lines(model, hyp, timeout=7200, shards=16)
    inside = sum(1 for x in hv if x == "1")
    ctx.notes.append("%d of %d mul/pow/div cases were checked against the theorems' representation-limit hypotheses "
                     "(fits_u32, pow_fits, divides_fits): %d satisfy them" % (len(hyp), len(hyp), inside))
    if any(x not in ("0", "1") for x in hv):
        ctx.broken.append({"kind": "correspondence", "name": "C21 hypothesis query",
                           "detail": "model did not answer a fits query: %s" % [x for x in hv if x not in ("0", "1")][:3]})
    allc = cases + rts
    ctx.cov["evaluations"] += len(allc)
    ctx.cov["distinct_nontrivial"] += len(set(c for c in allc if nontrivial(c)))
    ctx.cov["traces_validated_against_impl"] += len(cases)
    if not search:
        ctx.cov["samples"] += [{"case": c, "model": m, "impl": i} for c, m, i in list(zip(allc, mod, impl))[:8]]
    ndis = 0
    nout = 0
    for c, m, i in zip(allc, mod, impl):
        canon, _, oracle = i.partition("\t#ORACLE:")
        if oracle:
            ctx.violation(classify(c, oracle), "case `%s`: %s (library: %s)" % (c[:300], oracle.strip()[:200], canon[:120]),
                          {"family": "C21", "case": c, "impl": canon, "model": m})
        elif "NOOUTPUT" in canon:
            # the driver process itself died or its shard ran into the run_lines timeout: not a verdict on this case
            nout += 1
            if nout <= 1:
                ctx.broken.append({"kind": "correspondence", "name": "C21 driver output missing",
                                   "detail": "no output for case `%s` (%s): driver shard died or timed out" % (c[:200], canon)})
        elif "CRASH" in canon or "HANG" in canon or "UNCAUGHT" in canon or canon.startswith("EXN"):
            ctx.violation("C21/%s-%s" % (c.split()[1], "hang" if "HANG" in canon else "crash"),
                          "case `%s` ends with %s on the library (model: %s)" % (c[:300], canon[-40:], (m or "")[:80]),
                          {"family": "C21", "case": c, "impl": canon, "model": m})
        elif m is not None and canon != m:
            ndis += 1
            if ndis <= 3:
                ctx.broken.append({"kind": "correspondence", "name": "C21 " + " ".join(c.split()[:2]),
                                   "detail": "case `%s`\n model: %s\n impl:  %s" % (c[:400], m[:300], canon[:300])})
    return ndis


def replay(ctx, rep):
    drv = ctx.build_driver("c21_driver")
    model = ctx.build_model("C21", "C21/Extract.v", "c21_main.ml", "poly_model")
    c = rep["replay"]["case"]
    print("case :", c)
    print("impl :", ctx.run_lines(drv, [c])[0])
    if c[0] in "IQ":
        print("model:", ctx.run_lines(model, [c])[0])
