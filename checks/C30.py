"""C30 -- equation solving returns exactly the solution set.
Model: coq/C30/SolveModel.v (solve_poly_linear/quadratic/cubic/quartic as expression templates over
rational coefficients, solve_poly dispatch, solve_rational as set difference) and
coq/C30/LinsolveModel.v (linsolve on the DenseMatrix model of C24: submatrix_dense +
fraction_free_gauss_jordan_solve).  Theorems: coq/C30/P_*.v (factorisation / exact solution set
in any field of characteristic 0 with formal radicals; linsolve = unique solution or rank-deficiency).
Tie: (1) the model's templates are evaluated by the driver with the library's own arithmetic
(same sequence of add/mul/pow calls as solve.cpp) and the resulting set of trees must equal the
set solve_poly returned (one of the alternatives where the hash order of a std::set leaks);
(2) linsolve results are compared exactly; (3) the driver evaluates the property oracle on the
library's output: exact substitution / rational arithmetic where possible, eval_complex_double
residuals otherwise (testing), completeness by counting distinct roots (exact gcd computation)."""
from fractions import Fraction
import itertools

import vlib

# not yet in coq/_CoqProject: the .vo files are used as compiled (see the final report)
PROOF_MODULES = ["C30/SolveSpec.vo", "C30/LinsolveProofs.vo"]
OBLIGATIONS = [
    "C30/P_linear_sound_complete.v",
    "C30/P_quadratic_sound_complete.v",
    "C30/P_quadratic_multiplicity.v",
    "C30/P_cubic_roots_sound.v",
    "C30/P_quartic_roots_sound.v",
    "C30/P_solve_poly_exact.v",
    "C30/P_solve_rational_complete.v",
    "C30/P_solve_rational_poles.v",
    "C30/P_linsolve_unique_solution.v",
    "C30/P_nonvacuous.v",
]


def fr(x):
    x = Fraction(x)
    return str(x.numerator) if x.denominator == 1 else "%d/%d" % (x.numerator, x.denominator)


# ------------------------------------------------------------------ exact polynomials (python side)
def pmul(a, b):
    if not a or not b:
        return []
    r = [Fraction(0)] * (len(a) + len(b) - 1)
    for i, x in enumerate(a):
        for j, y in enumerate(b):
            r[i + j] += x * y
    return r


def padd(a, b):
    n = max(len(a), len(b))
    r = [(a[i] if i < len(a) else 0) + (b[i] if i < len(b) else 0) for i in range(n)]
    while r and r[-1] == 0:
        r.pop()
    return [Fraction(x) for x in r]


def pscale(a, c):
    return [Fraction(x) * c for x in a]


def from_roots(roots, lc=1):
    p = [Fraction(lc)]
    for r in roots:
        p = pmul(p, [-Fraction(r), Fraction(1)])
    return p


def shift(p, h):
    """p(x + h)"""
    r = []
    for i, c in enumerate(p):
        term = [Fraction(c)]
        for _ in range(i):
            term = pmul(term, [Fraction(h), Fraction(1)])
        r = padd(r, term)
    return r


def pline(kind, dom, p):
    return "%s %s %s" % (kind, dom, " ".join(fr(c) for c in p))


# ------------------------------------------------------------------ corpus (one per branch of solve.cpp)
CORPUS_POLY = [
    [5], [0], [3, 2], [0, 7], [Fraction(1, 2), Fraction(-3, 4)],
    # quadratic: c == 0; b == 0 (perfect square, negative, irrational); discriminant 0 / square / negative / irrational
    [0, 3, 1], [0, 0, 2], [-4, 0, 1], [4, 0, 1], [-2, 0, 1], [2, 0, 3], [1, 2, 1], [6, -5, 1], [1, 1, 1], [-1, 1, 1],
    [Fraction(1, 2), 0, Fraction(1, 3)], [2, -3, Fraction(9, 8)],
    # cubic: d == 0 (quadratic part with 2 / 1 members, containing 0), triple, double, general, Cexpr == 0 swap, casus irreducibilis
    [0, -1, 0, 1], [0, 1, 0, 1], [0, 0, 1, 1], [0, 0, 0, 1], [0, 1, 2, 1], [-1, 3, -3, 1], [4, 0, -3, 1], [-2, 3, 0, -1],
    [4, 6, 4, 1], [-8, 0, 0, 1], [8, 0, 0, 1], [-2, 0, 0, 1], [1, -3, 0, 1], [1, 1, 1, 1], [-6, 11, -6, 1], [5, 0, 0, 3],
    # quartic: d == 0; g == 0; ff == 0 (biquadratic, shifted); Euler (three / two / one resolvent roots)
    [0, 1, 1, 1, 1], [0, 0, 1, 0, 1], [0, 0, 0, 0, 1], [0, -1, 0, 0, 1], [0, 4, 6, 4, 1],
    [4, 0, -5, 0, 1], [1, 0, 0, 0, 1], [-1, 0, 0, 0, 1], [1, 0, 2, 0, 1], [-2, 0, 1, 0, 1],
    [1, 1, 1, 1, 1], [1, 2, -1, 1, 1], [-2, 1, 1, 1, 1], [24, -50, 35, -10, 1], [3, 2, -1, 2, 3],
    [1, 0, 0, 0, 0, 1], [0, 0, 0, 0, 0, 2], [1, 2, 3, 4, 5, 6, 7],
]


def corpus_cases():
    cases = []
    for p in CORPUS_POLY:
        cases.append(pline("P", "U", p))
    # shifted biquadratics / g == 0 / double roots in Euler's branch
    for p in ([4, 0, -5, 0, 1], [0, 3, 0, 1, 0][:4] + [1], [1, 0, -2, 0, 1]):
        cases.append(pline("P", "U", shift(p, 3)))
        cases.append(pline("P", "U", shift(p, Fraction(-1, 2))))
    cases.append(pline("P", "U", shift([0, 2, -3, 0, 1], 1)))            # depressed with g == 0
    cases.append(pline("P", "U", from_roots([1, 1, 2, -5])))               # double root, ff != 0
    cases.append(pline("P", "U", from_roots([1, 1, 1, -3])))               # triple root
    cases.append(pline("P", "U", from_roots([2, 2, 2, 2])))                # quadruple root
    cases.append(pline("P", "U", from_roots([1, 1, -1, -1])))
    cases.append(pline("P", "U", pmul(from_roots([1, 1]), [3, 2, 1])))     # double root + complex pair
    cases.append(pline("S", "U", [Fraction(1, 2), 0, Fraction(1, 3)]))
    cases.append(pline("S", "U", [5]))
    cases.append(pline("S", "U", [0, 0, 3]))
    cases += ["H", "H 1", "H 0", "H 1 2 3 4 5 6", "H 1 2", "H 1 0 1"]
    return cases


CORPUS_DOMAIN = [
    "P R 0 1 0 1", "P R 0 0 1 0 1", "P C:-3:0 40 84 49 12 1", "P C:-5:-1 0 4 6 4 1", "P R 4 0 -5 0 1",
    "P C:0:5 4 0 -5 0 1", "P C:1:5 0 -4 0 1", "P O:0:2 -2 0 1", "P R 1 0 1", "P C:0:1 1 1 1", "P R -2 0 0 1",
    "P C:0:5 0 -1 0 1", "S R 0 1 0 1", "P R -6 11 -6 1", "P O:1:3 -6 11 -6 1", "P C:1:3 -6 11 -6 1",
]


# ------------------------------------------------------------------ generators
def gen_poly_cases(rng, tier):
    cases = []
    # exhaustive small box
    box = 1 if tier == "quick" else 3
    rngs = range(-box, box + 1)
    for deg in range(1, 5):
        for t in itertools.product(rngs, repeat=deg + 1):
            if t[-1] == 0:
                continue
            if tier == "thorough" and deg == 4 and t[-1] < 0:
                continue          # p and -p have the same monic form
            cases.append(pline("P", "U", t))
    # random rationals
    n = 60 if tier == "quick" else 1500
    for _ in range(n):
        deg = rng.choice([1, 2, 2, 3, 3, 3, 4, 4, 4, 4])
        den = rng.choice([1, 1, 1, 2, 3, 4])
        p = [Fraction(rng.randint(-3, 3), rng.choice([1, den])) for _ in range(deg + 1)]
        if p[-1] == 0:
            p[-1] = Fraction(rng.choice([-2, -1, 1, 2, 3]))
        cases.append(pline(rng.choice(["P", "P", "S"]), "U", p))
    # aimed at the branch boundaries: prescribed root multisets (repeated, zero, opposite roots),
    # products with irreducible quadratics, shifted biquadratics and shifted y^4 + e y^2 + f y
    n = 50 if tier == "quick" else 1200
    pool = [0, 0, 1, -1, 2, -2, Fraction(1, 2), Fraction(-3, 2), 3]
    quads = [[1, 0, 1], [1, 1, 1], [-2, 0, 1], [2, -2, 1], [-1, -1, 1], [3, 0, 1]]
    for _ in range(n):
        r = rng.random()
        lc = rng.choice([1, 1, 2, -1, Fraction(1, 3)])
        if r < 0.4:
            k = rng.randint(1, 4)
            p = from_roots([rng.choice(pool) for _ in range(k)], lc)
        elif r < 0.6:
            k = rng.randint(0, 2)
            p = pmul(from_roots([rng.choice(pool) for _ in range(k)], lc), rng.choice(quads))
        elif r < 0.7:
            p = pmul(rng.choice(quads), rng.choice(quads))
        elif r < 0.85:
            e, g = rng.randint(-4, 4), rng.randint(-4, 4)
            p = shift([g, 0, e, 0, 1], rng.choice([0, 1, -1, Fraction(1, 2), 2]))
        else:
            e, f = rng.randint(-4, 4), rng.randint(-4, 4)
            p = shift([0, f, e, 0, 1], rng.choice([1, -1, Fraction(1, 2), 2, -3]))
        cases.append(pline("P", "U", pscale(p, 1)))
    return cases


def gen_domain_cases(rng, tier):
    cases = []
    n = 40 if tier == "quick" else 600
    pool = [0, 0, 1, -1, 2, -2, Fraction(1, 2), 3, -3]
    quads = [[1, 0, 1], [1, 1, 1], [-2, 0, 1], [2, -2, 1]]
    for _ in range(n):
        k = rng.randint(1, 4)
        if rng.random() < 0.6:
            p = from_roots([rng.choice(pool) for _ in range(k)])
        elif rng.random() < 0.5:
            p = pmul(from_roots([rng.choice(pool) for _ in range(rng.randint(0, 2))]), rng.choice(quads))
        else:
            p = [Fraction(rng.randint(-3, 3)) for _ in range(k)] + [Fraction(1)]
        if rng.random() < 0.3:
            p = shift(p, rng.choice([1, -1, 2]))
        a = rng.randint(-4, 2)
        dom = rng.choice(["R", "R", "C:%d:%d" % (a, a + rng.randint(1, 4)), "O:%d:%d" % (a, a + rng.randint(1, 4))])
        cases.append(pline(rng.choice(["P", "P", "S"]), dom, p))
    return cases


def rec_poly(p):
    """recipe (harness/recipe.h grammar) of the expanded polynomial"""
    terms = []
    for i, c in enumerate(p):
        c = Fraction(c)
        if c == 0:
            continue
        cs = "(q %d %d)" % (c.numerator, c.denominator)
        if i == 0:
            terms.append(cs)
        elif i == 1:
            terms.append("(mul %s (s x))" % cs)
        else:
            terms.append("(mul %s (pow (s x) (i %d)))" % (cs, i))
    if not terms:
        return "(i 0)"
    r = terms[0]
    for t in terms[1:]:
        r = "(add %s %s)" % (r, t)
    return r


FACTORS = [[-1, 1], [1, 1], [0, 1], [-2, 1], [2, 1], [-1, 2], [1, 0, 1], [-2, 0, 1], [1, 1, 1], [-1, 0, 1], [0, 1, 1], [2, -3, 1]]

CORPUS_RATIONAL = [
    # (P, Q) of f = P/Q -- common factors between numerator and denominator
    ([-1, 0, 1], [-1, 1]), ([-1, 1], [-1, 0, 1]), ([0, 1], [0, 1, 1]), ([2, -3, 1], [-1, 0, 1]),
    ([1, -2, 1], [-1, 0, 1]), ([1, 0, 1], [-1, 1]), ([-2, 0, 1], [2, -2, -1, 1]), ([0, 0, 1], [0, 1, 1]),
    ([1], [-1, 1]), ([0, -1, 0, 1], [-1, 0, 1]),
    ([-2, 0, 1], [2, -2, -1, 1]),          # the poles +-sqrt(2) come out of the cubic formula in another closed form
]


def gen_rational_cases(rng, tier):
    cases = []

    def one(P, Q, form):
        P = [Fraction(c) for c in P]
        Q = [Fraction(c) for c in Q]
        if form == 0:
            rec = "(div %s %s)" % (rec_poly(P), rec_poly(Q))
            N, D = P, Q
        elif form == 1:
            rec = "(mul %s (pow %s (i -1)))" % (rec_poly(P), rec_poly(Q))
            N, D = P, Q
        else:
            return None
        return "R U %s ;; %s ;; %s" % (rec, " ".join(fr(c) for c in N), " ".join(fr(c) for c in D))

    for P, Q in CORPUS_RATIONAL:
        cases.append(one(P, Q, 0))
    n = 40 if tier == "quick" else 800
    for _ in range(n):
        common = [rng.choice(FACTORS) for _ in range(rng.choice([0, 1, 1, 1, 2]))]
        pf = common + [rng.choice(FACTORS) for _ in range(rng.randint(0, 2))]
        qf = common + [rng.choice(FACTORS) for _ in range(rng.randint(0 if common else 1, 2))]
        P, Q = [Fraction(1)], [Fraction(1)]
        for f in pf:
            P = pmul(P, f)
        for f in qf:
            Q = pmul(Q, f)
        if len(P) > 5 or len(Q) > 5 or len(Q) < 2:
            continue
        if rng.random() < 0.3:
            P = pscale(P, rng.choice([2, -1, Fraction(1, 2)]))
        cases.append(one(P, Q, rng.choice([0, 0, 1])))
    # sums of two fractions  P1/Q1 + P2/Q2
    n = 15 if tier == "quick" else 300
    lin = [[-1, 1], [1, 1], [0, 1], [-2, 1], [1, 2], [1, 0, 1], [-1, 0, 1]]
    for _ in range(n):
        Q1, Q2 = rng.choice(lin), rng.choice(lin)
        P1 = [Fraction(rng.randint(-2, 2)) for _ in range(rng.randint(1, 2))]
        P2 = [Fraction(rng.randint(-2, 2)) for _ in range(rng.randint(1, 2))]
        if not any(P1) or not any(P2):
            continue
        N = padd(pmul(P1, Q2), pmul(P2, Q1))
        D = pmul(Q1, Q2)
        if not N:
            continue
        rec = "(add (div %s %s) (div %s %s))" % (rec_poly(P1), rec_poly(Q1), rec_poly(P2), rec_poly(Q2))
        cases.append("R U %s ;; %s ;; %s" % (rec, " ".join(fr(c) for c in N), " ".join(fr(c) for c in D)))
    return [c for c in cases if c]


CORPUS_LIN = [
    "L 1 2 6", "L 1 0 6", "L 2 1 2 3 4 5 6", "L 2 0 2 3 4 5 6", "L 2 1 2 3 2 4 6", "L 2 0 0 1 0 0 1",
    "L 3 0 1 1 2 1 0 1 3 1 1 0 4", "L 3 1 2 3 1 2 4 6 2 1 0 1 5", "L 3 0 0 1 1 0 1 0 2 1 0 0 3",
    "L 3 2 1 -1 8 -3 -1 2 -11 -2 1 2 -3", "M 2 1 2 3 4 5 6", "N 2 1 2 3 4 5 6", "N 2 0 2 3 4 5 6",
    "L 4 1 1 1 1 10 0 0 1 1 7 0 1 0 1 6 1 0 0 0 1",
    "L 3 1/2 1/3 1/4 1 1/3 1/4 1/5 0 1/4 1/5 1/6 2",
]


def gen_lin_cases(rng, tier):
    cases = []
    n = 60 if tier == "quick" else 1500
    for _ in range(n):
        k = rng.choice([1, 2, 2, 3, 3, 3, 4, 4, 5])
        style = rng.random()
        m = []
        for i in range(k):
            row = []
            for j in range(k + 1):
                if style < 0.35:
                    v = Fraction(rng.choice([0, 0, 0, 1, -1, 2]))          # many zero pivots
                elif style < 0.7:
                    v = Fraction(rng.randint(-3, 3))
                else:
                    v = Fraction(rng.randint(-5, 5), rng.choice([1, 2, 3]))
                row.append(v)
            m.append(row)
        if k >= 2 and rng.random() < 0.15:
            m[rng.randrange(k)] = [2 * v for v in m[rng.randrange(k)]]      # dependent rows
        kind = rng.choice(["L", "L", "L", "M", "N"])
        if kind != "L" and any(all(v == 0 for v in row[:k]) for row in m):
            kind = "L"
        cases.append("%s %d %s" % (kind, k, " ".join(fr(v) for row in m for v in row)))
    return cases


CORPUS_TRIG = [
    "T (f1 sin (s x))", "T (f1 cos (s x))", "T (sub (f1 cos (s x)) (i 1))", "T (add (f1 sin (s x)) (i 1))",
    "T (sub (f1 sin (s x)) (q 1 2))", "T (add (f1 sin (s x)) (f1 cos (s x)))", "T (sub (f1 tan (s x)) (i 1))",
    "T (sub (f1 cos (s x)) (q 1 2))", "T (add (f1 cos (s x)) (q 1 2))", "T (sub (f1 sin (s x)) (i 2))",
    "T (sub (mul (i 2) (f1 sin (s x))) (i 1))", "T (sub (f1 sin (s x)) (f1 cos (s x)))",
]


def gen_trig_cases(rng, tier):
    cases = []
    n = 10 if tier == "quick" else 150
    for _ in range(n):
        a, b = rng.randint(-2, 2), rng.randint(-2, 2)
        c = Fraction(rng.randint(-2, 2), rng.choice([1, 2]))
        if a == 0 and b == 0:
            continue
        cases.append("T (add (add (mul (i %d) (f1 sin (s x))) (mul (i %d) (f1 cos (s x)))) (q %d %d))"
                     % (a, b, c.numerator, c.denominator))
    return cases


# ------------------------------------------------------------------ running and comparing
def split_impl(line):
    canon, _, oracle = line.partition("\t#ORACLE:")
    fields = canon.split("\t")
    return fields[0], fields[1:], oracle.strip()


def is_crash(s):
    return "CRASH" in s or "HANG" in s or "UNCAUGHT" in s or s.startswith("NOOUTPUT") or "PIPEFAIL" in s


def key_for(case, oracle_class, crashed):
    k = case.split()[0]
    if k in ("P", "S", "H"):
        dom = case.split()[1] if k != "H" else "U"
        if dom != "U":
            return "C30/domain-nested-crash" if crashed else "C30/domain-wrong-set"
        return "C30/poly-crash" if crashed else "C30/poly-" + oracle_class
    if k == "R":
        return "C30/rational-crash" if crashed else "C30/rational-" + oracle_class
    if k in ("L", "M", "N"):
        return "C30/linsolve-crash" if crashed else "C30/" + oracle_class
    if k == "T":
        return "C30/trig-crash" if crashed else "C30/" + oracle_class
    return "C30/other"


def eval_alts(ctx, drv, alt_lists):
    """alt_lists: list of lists of template strings -> canonical FIN lines (via driver E mode)"""
    lines = ["E " + a for a in alt_lists]
    return ctx.run_lines(drv, lines, timeout=3000, shards=16)


def explore(ctx, drv, model, cases, what, search=False):
    if drv is None or model is None or not cases:
        return
    impl = ctx.run_lines(drv, cases, timeout=3000, shards=16)
    ctx.cov["evaluations"] += len(cases)
    # model lines.  An R case is solved by the library as set_complement(solve(num), solve(den)) with the
    # library's own numerator/denominator (printed by the driver); the model solves both polynomials,
    # the driver evaluates the templates, and the complement is taken here on the resulting trees (tree
    # equality is the library's business, C01/C02) -- one expected set per pair of alternatives.
    mcases = []
    den_line = {}         # case index -> index of the model line of the denominator
    extra_lines = []
    for idx, (c, i) in enumerate(zip(cases, impl)):
        k = c.split()[0]
        if k == "R":
            canon, extra, _ = split_impl(i)
            q = None
            for f in extra:
                if f.startswith("AND:"):
                    num, den, flags = f[4:].split(";")
                    # modelled path: numerator and denominator reach solve_poly (neither is a Mul)
                    if "?" not in num and "?" not in den and flags[1:] == "00" and den.count(",") >= 1:
                        q = "S U %s" % num.replace(",", " ")
                        den_line[idx] = len(cases) + len(extra_lines)
                        extra_lines.append("S U %s" % den.replace(",", " "))
            mcases.append(q or "SKIP")
        elif k == "T":
            mcases.append("SKIP")
        else:
            mcases.append(c)
    mod = ctx.run_lines(model, mcases + extra_lines, timeout=3000, shards=8)
    # evaluate the alternatives of the model with the library's arithmetic
    pending = []          # (model line index, [alternative template lists])
    for idx, m in enumerate(mod):
        if m.startswith("ALTS "):
            alts = [a.strip() for a in m.split(";")[1:]]
            pending.append((idx, alts))
    first = eval_alts(ctx, drv, [alts[0] for _, alts in pending])
    evaluated = {idx: [f] for (idx, _), f in zip(pending, first)}
    # second round, in one batch: the remaining alternatives of the cases whose first one differs
    # (all alternatives for the two polynomials of a rational case)
    def needs_more(idx):
        if idx >= len(cases) or idx in den_line:
            return True
        canon, _, oracle = split_impl(impl[idx])
        return evaluated[idx][0] != canon and not oracle and not is_crash(canon)
    todo = [(idx, alts) for idx, alts in pending if len(alts) > 1 and needs_more(idx)]
    flat = [(idx, a) for idx, alts in todo for a in alts[1:]]
    for (idx, _), r in zip(flat, eval_alts(ctx, drv, [a for _, a in flat]) if flat else []):
        evaluated[idx].append(r)

    def members(fin):
        # "FIN n d1|d2|..." -> set of dumps
        parts = fin.split(" ", 2)
        return set(parts[2].split("|")) if len(parts) == 3 and parts[2] else set()

    def fin_of(ms):
        ms = sorted(ms)
        return "FIN %d %s" % (len(ms), "|".join(ms)) if ms else "EMPTY"

    def expected_rational(idx):
        """the expected canonical results of an R case (one per pair of alternatives), or None"""
        mn, md = mod[idx], mod[den_line[idx]]
        if mn == "EMPTY":
            return ["EMPTY"]
        if not mn.startswith("ALTS "):
            return None
        nums = evaluated[idx]
        if md == "EMPTY":
            return nums
        if not md.startswith("ALTS "):
            return None
        dens = evaluated[den_line[idx]]
        if any(not x.startswith("FIN ") for x in nums + dens):
            return None
        return [fin_of(members(a) - members(b)) for a in nums for b in dens]

    nd = 0
    for idx, c in enumerate(cases):
        canon, extra, oracle = split_impl(impl[idx])
        crashed = is_crash(canon)
        k = c.split()[0]
        m = mod[idx]
        for f in extra:
            if f.startswith("EX:") and f[3:].isdigit():
                STATS["exact_members"] += int(f[3:])
        if canon.startswith("FIN "):
            STATS["members"] += int(canon.split()[1])
        if oracle or crashed:
            cls = oracle.split(":")[0] if oracle else "crash"
            ctx.violation(key_for(c, cls, crashed),
                          "%s: case `%s`: %s" % (what, c[:300], (oracle or canon)[:300]),
                          {"family": "C30", "case": c, "impl": impl[idx][:2000], "model": m[:2000]})
            continue
        if mcases[idx] == "SKIP" or m == "NOMODEL":
            continue
        ctx.cov["traces_validated_against_impl"] += 1
        ok = False
        if k == "R":
            exp = expected_rational(idx)
            if exp is None:
                ctx.cov["traces_validated_against_impl"] -= 1
                continue
            ok = canon in exp
            shown = " || ".join(exp)
        elif idx in evaluated:
            ok = canon in evaluated[idx]
            shown = " || ".join(evaluated[idx])
        elif k in ("L", "M", "N"):
            ok = (canon == m)
            shown = m
        else:
            ok = (canon == m)
            shown = m
        if not ok:
            nd += 1
            if nd <= 3:
                ctx.broken.append({"kind": "correspondence", "name": "C30 " + what,
                                   "detail": "case `%s`\n model: %s\n impl:  %s" % (c[:300], shown[:1500], canon[:1500])})
    if not search:
        ctx.cov["samples"] += [{"case": c[:200], "impl": i[:300], "model": m[:300]}
                               for c, i, m in list(zip(cases, impl, mod))[:3]]
    return nd


STATS = {"exact_members": 0, "members": 0}


def nontrivial(c):
    t = c.split()
    if t[0] in ("P", "S"):
        return len(t) >= 5          # degree >= 2
    if t[0] in ("L", "M", "N"):
        return int(t[1]) >= 2
    return t[0] in ("R", "T")


def run(ctx):
    ctx.gate(["C30"])
    ctx.prove(PROOF_MODULES, OBLIGATIONS)
    drv = ctx.build_driver("c30_driver")
    model = ctx.build_model("C30", "C30/Extract.v", "c30_main.ml", "solve_model")
    groups = [
        ("polynomial (universal domain)", corpus_cases() + gen_poly_cases(ctx.rng, ctx.tier)),
        ("polynomial (restricted domain)", CORPUS_DOMAIN + gen_domain_cases(ctx.rng, ctx.tier)),
        ("rational equation", gen_rational_cases(ctx.rng, ctx.tier)),
        ("linsolve", CORPUS_LIN + gen_lin_cases(ctx.rng, ctx.tier)),
        ("trigonometric equation", CORPUS_TRIG + gen_trig_cases(ctx.rng, ctx.tier)),
    ]
    seen = set()
    for what, cases in groups:
        cases = [c for c in dict.fromkeys(cases)]
        explore(ctx, drv, model, cases, what)
        seen.update(c for c in cases if nontrivial(c))
    ctx.cov["distinct_nontrivial"] = len(seen)
    ctx.notes.append("oracle: %d members of returned finite sets, %d of them decided exactly (rational arithmetic or "
                     "expand(p(root)) reducing to a number), the others by eval_complex_double residuals (testing)"
                     % (STATS["members"], STATS["exact_members"]))
    if ctx.broken and not ctx.violations:
        # a proof or the tie broke: search harder for a concrete failing input
        extra = gen_poly_cases(ctx.rng, "quick") + gen_rational_cases(ctx.rng, "thorough")[:300] + gen_lin_cases(ctx.rng, "thorough")[:300]
        explore(ctx, drv, model, [c for c in dict.fromkeys(extra)], "search", search=True)
    ctx.cov["rule"] = ("cases: polynomials of degree 0-5 over Q (exhaustive coefficient box |c|<=1 quick / |c|<=3 thorough, random "
                       "rationals, prescribed root multisets with repeated/zero roots, shifted biquadratics and shifted "
                       "y^4+ey^2+fy aimed at the d==0 / g==0 / ff==0 / delta==0 / delta0==0 / Cexpr==0 branch tests), the same over "
                       "restricted domains, rational functions with common factors, square linear systems with zero pivots and "
                       "dependent rows, a sin + b cos + c.  Non-trivial = degree >= 2, or n >= 2, or rational/trigonometric; "
                       "distinct = distinct case strings")
    ctx.assumptions += [
        "the theorems interpret templates in an arbitrary field of characteristic 0 (decidable equality) with arbitrary "
        "functions sqrt/cbrt and an element i; they ask sqrt(a)^2 = a, cbrt(a)^3 = a, i^2 = -1 only for the radicals the "
        "computation on the given polynomial relies on (rad_ok / solve_poly_radicals), or everywhere (radicals_total); which "
        "complex branch the library's pow denotes, and that its automatic rewrites of powers preserve that value, is covered "
        "by the numeric oracle only (testing)",
        "linsolve: the theorems of C24 about fraction_free_gauss_jordan_solve and submatrix_dense are used (coq/C24/Dense*.v)",
        "the library folds arithmetic on Integer/Rational arguments exactly and sqrt of a rational square to a rational "
        "(model: computations in Q, [sqrt_exact]); two members of one result set that denote different numbers are different trees",
        "templates are evaluated with the library's add/sub/mul/div/neg/sqrt/pow (trusted here, validated by C03/C04/C07)",
        "non-universal domains, products of factors, sums of fractions and trigonometric equations are covered by the oracle only",
    ]


def replay(ctx, rep):
    drv = ctx.build_driver("c30_driver")
    model = ctx.build_model("C30", "C30/Extract.v", "c30_main.ml", "solve_model")
    c = rep["replay"]["case"]
    print("case :", c)
    i = ctx.run_lines(drv, [c])[0]
    print("impl :", i[:3000])
    if c.split()[0] not in ("R", "T"):
        m = ctx.run_lines(model, [c])[0]
        print("model:", m[:3000])
        if m.startswith("ALTS "):
            for a in m.split(";")[1:]:
                print("model alternative evaluated by the library:", ctx.run_lines(drv, ["E " + a.strip()])[0][:3000])
