"""C05 -- exact number arithmetic (Integer, Rational, Complex) is correct and normalised.
Model: coq/Num/NumModel.v.  Theorems: coq/C05/P_*.v (arithmetic in Q(i) for all values,
normal forms, division by exact zero).  Tie: palette pairs exhaustively, random multi-limb
values, integer exponents of either sign; the driver recomputes every result in Q(i) with
raw GMP and checks the representation invariants of the returned object."""
import math

import vlib
from checks import numcommon as nc

PROOF_MODULES = ["Num/NumC05.vo", "Num/NumC05U.vo"]
OBLIGATIONS = [
    "C05/P_num_add_correct.v", "C05/P_num_sub_correct.v", "C05/P_num_mul_correct.v", "C05/P_num_div_correct.v",
    "C05/P_num_powint_correct.v", "C05/P_num_op_normalised.v", "C05/P_div_by_exact_zero.v",
    "C05/P_pow_number_loop.v", "C05/P_normal_form_unique.v", "C05/P_nonvacuous.v",
]
OPS = ["add", "sub", "mul", "div", "badd", "bmul"]
TAGS = ("value", "norm", "divzero")

CORPUS = [
    "pow I:0 I:-1", "div R:1/2 C:1,2", "pow C:1,2 I:-3", "pow C:0,1 I:18446744073709551615", "pow I:1 I:18446744073709551616",
    "pow I:-1 I:-18446744073709551615", "pow C:0,-1 I:-9223372036854775807", "div I:6 I:4", "div I:-6 I:-4", "mkrat I:6 I:-4",
    "mkrat I:0 I:0", "mkrat I:7 I:0", "div C:1,2 C:1,2", "sub C:1,2 C:0,2", "mul C:0,1 C:0,1", "pow R:-1/2 I:-3",
    "pow C:0,3/2 I:-3", "pow C:0,3/2 I:6", "div I:0 I:0", "div C:1,2 I:0", "div R:1/2 I:0", "pow I:2 I:64",
]
HUGE = [2 ** 64 - 1, 2 ** 64, -(2 ** 64) + 1, -(2 ** 64), 2 ** 63 - 1, 2 ** 63, -(2 ** 63) + 1, 2 ** 62 + 1, -(2 ** 62) - 3,
        2 ** 65 + 2, -(2 ** 65) - 1]
UNITS = ["I:0", "I:1", "I:-1", "C:0,1", "C:0,-1"]


def rnd_int(rng, bits):
    v = rng.getrandbits(bits) | (1 << (bits - 1))
    return v if rng.random() < 0.5 else -v


def rnd_q(rng, small):
    """(n, d) in lowest terms"""
    if small:
        n, d = rng.randint(-12, 12), rng.choice([1, 1, 2, 3, 4, 6, 7, 10])
    else:
        n = rnd_int(rng, rng.choice([64, 65, 128, 200, 512]))
        d = 1 if rng.random() < 0.3 else abs(rnd_int(rng, rng.choice([2, 64, 70, 130, 512])))
        if rng.random() < 0.3:          # force a common factor that must be cancelled by the operation
            d = abs(d) * rng.choice([2, 3, 6])
    g = math.gcd(n, d)
    return n // g, d // g


def show_q(n, d):
    return "%d" % n if d == 1 else "%d/%d" % (n, d)


def rnd_exact(rng, small):
    r = rng.random()
    if r < 0.35:
        n, d = rnd_q(rng, small)
        d = 1
        return "I:%d" % (rng.randint(-12, 12) if small else rnd_int(rng, rng.choice([64, 65, 128, 512])))
    if r < 0.7:
        n, d = rnd_q(rng, small)
        return "I:%d" % n if d == 1 else "R:%d/%d" % (n, d)
    rn, rd = rnd_q(rng, small)
    imn, imd = rnd_q(rng, small)
    if rng.random() < 0.25:
        rn, rd = 0, 1
    if imn == 0:
        imn = 1
    return "C:%s,%s" % (show_q(rn, rd), show_q(imn, imd))


def nontrivial(r):
    """the operation had to normalise: the result's kind is lower than an operand's, or an operand is multi-limb"""
    op, a, b = r[0].split()
    res = r[2]
    rank = {"I": 0, "R": 1, "C": 2}
    if len(a) > 24 or len(b) > 24:
        return True
    if res[:1] in rank and not res.startswith("CD") and (a[0] in rank and b[0] in rank):
        return rank[res[0]] < max(rank[a[0]], rank[b[0]])
    return res in ("NAN", "INF:0")


def gen_cases(ctx):
    rng = ctx.rng
    quick = ctx.tier == "quick"
    cases = list(CORPUS)
    # palette pairs, every operation
    cases += ["%s %s %s" % (o, a, b) for o in OPS for a in nc.EXACT for b in nc.EXACT]
    # integer exponents of either sign on the palette
    for a in nc.EXACT:
        big = len(a) > 20
        for e in range(-40, 41):
            if big and abs(e) > 6:
                continue
            cases.append("pow %s I:%d" % (a, e))
    # a few huge exponents (fits-ulong / fits-slong boundaries) on the units, and the rejection paths
    for a in UNITS:
        for e in HUGE:
            cases.append("pow %s I:%d" % (a, e))
    for a in ["I:2", "R:1/2", "C:1,2", "C:0,2"]:
        for e in [2 ** 64, -(2 ** 64), 2 ** 64 + 5, 2 ** 70]:
            cases.append("pow %s I:%d" % (a, e))
        for e in [2 ** 63, -(2 ** 63) - 1]:
            if a == "C:1,2":
                cases.append("pow %s I:%d" % (a, e))
    # random values: small ones (many cancellations) and multi-limb ones
    for _ in range(700 if quick else 12000):
        small = rng.random() < 0.5
        a, b = rnd_exact(rng, small), rnd_exact(rng, small)
        if rng.random() < 0.08:
            b = a
        if rng.random() < 0.05:
            b = "I:0"
        cases.append("%s %s %s" % (rng.choice(OPS + ["sub", "div", "mul"]), a, b))
    for _ in range(250 if quick else 4000):
        small = rng.random() < 0.6
        a = rnd_exact(rng, small)
        e = rng.randint(-40, 40) if small else rng.randint(-5, 5)
        cases.append("pow %s I:%d" % (a, e))
    # constructors and unary
    for _ in range(120 if quick else 1500):
        n = rng.choice([0, 1, -1, 6, -6, rnd_int(rng, 70)])
        d = rng.choice([0, 1, -1, 4, -4, 3, rnd_int(rng, 66)])
        cases.append("mkrat I:%d I:%d" % (n, d))
        cases.append("neg %s I:0" % rnd_exact(rng, rng.random() < 0.5))
        cases.append("pred %s I:0" % rnd_exact(rng, rng.random() < 0.5))
        cases.append("mkcplx %s %s" % (rnd_exact(rng, True), rnd_exact(rng, True)))
    return cases


def explore(ctx, drv, model, cases):
    res = nc.run_both(ctx, drv, model, cases)
    ncmp, nskip = nc.correspondence(ctx, "C05 exact arithmetic", res)
    ctx.cov["traces_validated_against_impl"] += ncmp
    nc.add_cov(ctx, res, nontrivial,
               "all ordered pairs of the 19 exact palette values x {add,sub,mul,div, Basic add/mul}; every palette base with every "
               "integer exponent in [-40,40] (|e|<=6 for multi-limb bases); huge exponents at the fits-ulong / fits-slong boundaries "
               "on 0, +-1, +-i; random small (cancellation-heavy) and multi-limb (64-512 bit) integers, rationals and Gaussian "
               "rationals; from_two_ints / from_two_nums / negation / predicates; a case is non-trivial when an operand is multi-limb "
               "or the result had to be demoted (Complex->Rational->Integer, zoo, nan); distinct = distinct case lines")
    nc.classify(ctx, "C05", model, res, TAGS, None)
    return res


def run(ctx):
    ctx.gate(["Base", "Num", "C05"])
    ctx.prove(PROOF_MODULES, OBLIGATIONS)
    drv, model = nc.build(ctx)
    explore(ctx, drv, model, gen_cases(ctx))
    if ctx.broken and not [v for v in ctx.violations if v["key"] not in vlib.load_known("C05")]:
        more = []
        for _ in range(6000):
            small = ctx.rng.random() < 0.6
            a, b = rnd_exact(ctx.rng, small), rnd_exact(ctx.rng, small)
            more.append("%s %s %s" % (ctx.rng.choice(["add", "sub", "mul", "div", "badd", "bmul"]), a, b))
            more.append("pow %s I:%d" % (a, ctx.rng.randint(-8, 8)))
        explore(ctx, drv, model, more)
    ctx.assumptions += nc.COMMON_ASSUMPTIONS + [
        "theorems are stated for operands satisfying the representation invariant num_wf (lowest terms, denominator > 1 for Rational, imaginary part nonzero for Complex); the constructors are proved to establish it",
        "exponents: the model rejects |e| >= 2^64 (Integer/Rational) and |e| >= 2^63 (Complex) exactly as the code does; e = -2^63 for a Complex base (signed overflow in the code) is excluded from the theorem",
    ]


def replay(ctx, rep):
    nc.replay(ctx, rep)
