"""C29 -- number comparisons (Lt, Le, Gt, Ge, Eq, Ne of logic.cpp on two numbers) agree with
the numeric order.  Model: coq/Num/NumModel.v (rel_lt ... rel_ne).  Theorems: coq/C29/P_*.v
(all real numbers of all kinds and values; doubles via Flocq).
Tie: all ordered pairs of the real-number palette x 6 relations; the driver compares every
answer with the exact rational order computed with GMP (doubles converted exactly) and checks
the dualities Le(a,b) = !Lt(b,a), Ge/Le, Gt/Lt, Eq symmetric, Ne = !Eq."""
import math

import vlib
from checks import numcommon as nc

PROOF_MODULES = ["Num/NumC29.vo", "Num/NumC29F.vo", "Num/NumC29P.vo", "Num/NumC29O.vo", "Num/NumC05U.vo"]
OBLIGATIONS = [
    "C29/P_Lt_correct.v", "C29/P_Le_correct.v", "C29/P_Le_not_Lt.v", "C29/P_Ge_Le.v", "C29/P_Gt_Lt.v",
    "C29/P_Eq_sym.v", "C29/P_Ne_negb_Eq.v", "C29/P_Lt_strict_order.v", "C29/P_Le_total_preorder.v", "C29/P_Eq_decides_value.v", "C29/P_nonvacuous.v",
]
RELS = ["lt", "le", "gt", "ge", "eq", "ne"]
TAGS = ("order", "dual")

CORPUS = [
    "le I:1 D:3ff0000000000000", "ge D:3ff0000000000000 I:1", "lt D:4340000000000000 I:9007199254740993",
    "lt D:7ff0000000000000 INF:1", "lt I:1 INF:1", "lt INF:-1 INF:1", "le INF:1 INF:1", "lt C:1,2 I:1", "lt NAN I:1",
    "lt INF:0 I:1", "eq NAN NAN", "ne NAN NAN", "eq D:0000000000000000 D:8000000000000000",
]


EDGE = ["I:%d" % (2 ** 1024), "I:%d" % (2 ** 1024 - 1), "I:%d" % -(2 ** 1100), "R:1/%d" % (2 ** 1074), "R:-1/%d" % (2 ** 1075),
        "R:%d/3" % (2 ** 1025), "R:-1/10", "D:8000000000000000", "D:0000000000000001", "D:7fefffffffffffff",
        "D:7ff0000000000000", "D:fff0000000000000", "D:" + nc.hexd(-0.1)]
CORPUS += ["%s %s %s" % (o, a, b) for o in ("lt", "le", "ge") for a in EDGE for b in EDGE]


def boundary_values(rng, n):
    """values around the case splits: integers near 2^53 (inexact conversion), doubles equal to /
    adjacent to exact values, rationals and their truncations, signed zeros, huge values"""
    out = []
    for _ in range(n):
        r = rng.random()
        if r < 0.25:
            k = rng.choice([52, 53, 54, 63, 64, 100])
            v = (1 << k) + rng.choice([-2, -1, 0, 1, 2, 3])
            v = v if rng.random() < 0.7 else -v
            out.append("I:%d" % v)
            out.append("D:" + nc.hexd(float(v)))
        elif r < 0.45:
            n_, d = rng.randint(-20, 20), rng.choice([2, 3, 4, 7, 8, 10, 16])
            g = math.gcd(n_, d)
            n_, d = n_ // g, d // g
            out.append("R:%d/%d" % (n_, d) if d != 1 else "I:%d" % n_)
            out.append("D:" + nc.hexd(n_ / d))
        elif r < 0.7:
            v = rng.choice([0.0, -0.0, 1.0, -1.0, 0.5, 1e-300, 1e300, 5e-324, float(rng.randint(-5, 5))])
            out.append("D:" + nc.hexd(v))
            if v == int(v) and abs(v) < 1e18:
                out.append("I:%d" % int(v))
        else:
            out.append("I:%d" % rng.randint(-5, 5))
    return out


def nontrivial(r):
    op, a, b = r[0].split()
    return nc.kind(a) != nc.kind(b)


def explore(ctx, drv, model, cases):
    res = nc.run_both(ctx, drv, model, cases)
    ncmp, nskip = nc.correspondence(ctx, "C29 relations", res)
    ctx.cov["traces_validated_against_impl"] += ncmp
    nc.add_cov(ctx, res, nontrivial,
               "all ordered pairs of the real-number palette (exact integers/rationals incl. multi-limb and 2^53+1, signed zeros, "
               "+-1, +-2, subnormal/huge/infinite doubles, doubles equal to exact palette values, +-oo) x {Lt,Le,Gt,Ge,Eq,Ne}; the "
               "throwing operands (Complex, ComplexDouble, zoo, NaN) against every palette value; random pairs around 2^53, "
               "rationals vs their truncated doubles, signed zeros; a case is non-trivial when the operands are of different kinds")
    nc.classify(ctx, "C29", model, res, TAGS, None)
    return res


def run(ctx):
    ctx.gate(["Base", "Num", "C29"])
    ctx.prove(PROOF_MODULES, OBLIGATIONS)
    drv, model = nc.build(ctx)
    pal = list(nc.REAL_PALETTE)
    cases = list(CORPUS)
    cases += ["%s %s %s" % (o, a, b) for o in RELS for a in pal for b in pal]
    for x in nc.NONREAL:
        for y in pal[::3] + nc.NONREAL:
            for o in RELS:
                cases.append("%s %s %s" % (o, x, y))
                cases.append("%s %s %s" % (o, y, x))
    # __eq__ on every pair of the full palette, compare() within a class (and Rational vs Integer)
    for a in nc.PALETTE:
        for b in nc.PALETTE:
            cases.append("eqb %s %s" % (a, b))
            ka, kb = a.split(":")[0], b.split(":")[0]
            if (ka == kb and ka != "NAN") or (ka == "R" and kb == "I"):
                if "7ff8000000000000" not in a + b:      # compare() on NaN doubles is not an order (C02)
                    cases.append("cmp %s %s" % (a, b))
    xs = boundary_values(ctx.rng, 60 if ctx.tier == "quick" else 400)
    for _ in range(1500 if ctx.tier == "quick" else 30000):
        a, b = ctx.rng.choice(xs), ctx.rng.choice(xs + pal)
        if ctx.rng.random() < 0.5:
            a, b = b, a
        cases.append("%s %s %s" % (ctx.rng.choice(RELS), a, b))
    explore(ctx, drv, model, cases)
    if ctx.broken and not [v for v in ctx.violations if v["key"] not in vlib.load_known("C29")]:
        xs = boundary_values(ctx.rng, 500)
        explore(ctx, drv, model, ["%s %s %s" % (ctx.rng.choice(RELS), ctx.rng.choice(xs), ctx.rng.choice(xs + pal)) for _ in range(8000)])
    ctx.assumptions += nc.COMMON_ASSUMPTIONS + [
        "real numbers = Integer, Rational, non-NaN RealDouble, +oo, -oo; the relations on symbolic arguments after substitution are not covered here (Relational objects are outside the number tower)",
    ]


def replay(ctx, rep):
    nc.replay(ctx, rep)
