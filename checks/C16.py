"""C16 -- printing is a function of the value, and parse(str(e)) == e.
Model: coq/Parse/PrintModel.v (StrPrinter on the expression AST: Precedence, parenthesizeLT/LE, Add term order by
PrinterBasicCmp, Mul numerator/denominator split, _print_pow, "%.15g" doubles, names_ table read from the source)
and the reference parser of C17 (coq/Parse/ParseModel.v).  Theorems: coq/C16/P_*.v.
Tie: expressions are built on the library from recipes; the driver prints dump(e), str(e), parse(str(e)) and
evaluates the oracle (eq(parse(str(e)), e); equal expressions print alike); the extracted model reads the dump,
prints its own string (compared byte for byte with str(e)) and parses that string with the reference parser into a
recipe, which the driver evaluates and compares with the library's parse(str(e))."""
from checks import parsecommon as pc
import vlib

# built by ctx.prove (make) once coq/Parse/*.v are listed in coq/_CoqProject; until then parsecommon.prepare
# compiles them directly with coqc (parsecommon.ORDER) and proof_modules() is empty
PROOF_MODULES = pc.PROOF_VO
OBLIGATIONS = ["C16/P_print_add_perm.v", "C16/P_print_add_perm_wf.v", "C16/P_print_respects_eq_refuted.v",
               "C16/P_parse_print_partial.v", "C16/P_nonvacuous.v"]

SYMS = ["x", "y", "z", "t", "ab", "x1", "_u", "alpha", "X", "q_2", "_", "__a", "x_", "é", "πr", "zü9",
        "e1", "E_", "pix", "Inf", "true", "ee", "I2", "oo_"]
INTS = ["0", "1", "-1", "2", "-2", "3", "-3", "7", "10", "-10", "12", "100", "-100", "9223372036854775807",
        "-9223372036854775808", "9223372036854775808", "18446744073709551616", "-340282366920938463463374607431768211457"]
RATS = ["(q 1 2)", "(q -1 2)", "(q 1 3)", "(q -2 3)", "(q 3 2)", "(q -3 2)", "(q 5 7)", "(q -7 5)",
        "(q 1 18446744073709551629)", "(q -123456789012345678901 2)"]
CPLX = ["I", "(c 0 1 -1 1)", "(c 0 1 2 1)", "(c 0 1 -2 1)", "(c 0 1 1 2)", "(c 0 1 -1 2)", "(c 1 1 1 1)", "(c 1 1 -1 1)",
        "(c -1 1 2 1)", "(c 1 2 -1 3)", "(c -3 2 5 7)", "(c 2 1 -3 1)"]
DBLS = ["3ff8000000000000", "bff8000000000000", "3fb999999999999a", "4415af1d78b58c40", "3ff0000000000000",
        "4000000000000000", "c000000000000000", "0000000000000000", "3fe0000000000000", "400921fb54442d18",
        "3e7ad7f29abcaf48", "3f1a36e2eb1c432d", "3f50624dd2f1a9fc", "42d6bcc41e900000", "430c6bf526340000",
        "4341c37937e08000", "bf1a36e2eb1c432d", "7fefffffffffffff", "0010000000000000", "0000000000000001",
        "40c3880000000000", "412e848000000000", "3ff0000000000001", "3fefffffffffffff", "4024000000000000",
        "c08f400000000000", "3fd5555555555555"]
CONSTS = ["pi", "E", "EulerGamma", "Catalan", "GoldenRatio"]
F1 = ["sin", "cos", "tan", "cot", "sec", "csc", "asin", "acos", "atan", "acot", "asec", "acsc", "sinh", "cosh", "tanh",
      "coth", "sech", "csch", "asinh", "acosh", "atanh", "acoth", "asech", "acsch", "log", "abs", "sign", "floor",
      "ceiling", "gamma", "loggamma", "erf", "erfc", "lambertw", "zeta", "dirichlet_eta"]
F2 = ["atan2", "beta", "polygamma", "lowergamma", "uppergamma", "kronecker_delta", "zeta", "log"]


def rnd_double(rng):
    r = rng.random()
    if r < 0.6:
        return rng.choice(DBLS)
    if r < 0.8:   # random finite bit pattern
        e = rng.choice([rng.randint(1, 2046), rng.randint(1000, 1080), 1023, 1022, 1075])
        return "%016x" % ((rng.randint(0, 1) << 63) | (e << 52) | rng.getrandbits(52))
    if r < 0.9:   # few significant digits
        import struct
        v = rng.choice([1, 2, 5, 12, 125, 33, 7]) * 10.0 ** rng.randint(-8, 22)
        if rng.random() < 0.3:
            v = -v
        return struct.pack(">d", v).hex()
    import struct
    v = rng.randint(1, 10 ** rng.randint(1, 17)) / 10 ** rng.randint(0, 6)
    return struct.pack(">d", v).hex()


def gen_num(rng, floats, small=False):
    r = rng.random()
    if r < 0.45:
        return "(i %s)" % rng.choice(INTS[:11] if small else INTS)
    if r < 0.65:
        return rng.choice(RATS)
    if r < 0.80:
        return rng.choice(CPLX)
    if floats and r < 0.95:
        return "(d %s)" % rnd_double(rng)
    if floats:
        return "(cd %s %s)" % (rnd_double(rng), rnd_double(rng))
    return rng.choice(["oo", "-oo", "zoo", "(i 5)", "(q 2 9)"])


def gen_leaf(rng, floats, small=False):
    r = rng.random()
    if r < 0.5:
        return "(s %s)" % rng.choice(SYMS)
    if r < 0.58:
        return rng.choice(CONSTS)
    return gen_num(rng, floats, small)


def gen_exponent(rng, floats, depth):
    r = rng.random()
    if r < 0.35:
        return "(i %s)" % rng.choice(["2", "-1", "3", "-2", "-3", "10", "1"])
    if r < 0.6:
        return rng.choice(["(q 1 2)", "(q -1 2)", "(q 1 3)", "(q -1 3)", "(q 3 2)", "(q -3 2)", "(q 2 3)"])
    if r < 0.68:
        return rng.choice(["I", "(c 0 1 -1 1)", "(c 1 1 1 1)", "(c 0 1 1 2)"])
    if r < 0.8:
        return "(neg (s %s))" % rng.choice(SYMS[:6])
    if floats and r < 0.86:
        return "(d %s)" % rng.choice(["3ff8000000000000", "bff8000000000000", "4000000000000000", "3fe0000000000000"])
    return gen_arith(rng, max(0, depth - 1), floats)


def gen_arith(rng, depth, floats, small=False):
    """small: no huge integers (arguments of library functions: gamma(2^63) etc. are not printer business)"""
    if depth <= 0 or rng.random() < 0.2:
        return gen_leaf(rng, floats, small)
    r = rng.random()
    a = gen_arith(rng, depth - 1, floats, small or r >= 0.80)
    if r < 0.22:
        return "(add %s %s)" % (a, gen_arith(rng, depth - 1, floats))
    if r < 0.30:
        return "(sub %s %s)" % (a, gen_arith(rng, depth - 1, floats))
    if r < 0.50:
        return "(mul %s %s)" % (a, gen_arith(rng, depth - 1, floats))
    if r < 0.58:
        return "(div %s %s)" % (a, gen_arith(rng, depth - 1, floats))
    if r < 0.62:
        return "(neg %s)" % a
    if r < 0.80:
        return "(pow %s %s)" % (a, gen_exponent(rng, floats, depth))
    if r < 0.90:
        return "(f1 %s %s)" % (rng.choice(F1), a)
    if r < 0.94:
        return "(f2 %s %s %s)" % (rng.choice(F2), a, gen_arith(rng, depth - 1, floats, True))
    if r < 0.97:
        return "(%s %s)" % (rng.choice(["max", "min"]), " ".join(gen_arith(rng, depth - 1, floats, True) for _ in range(rng.randint(2, 3))))
    return "(fs %s %s)" % (rng.choice(["f", "g", "F_1", "sinx"]), " ".join(gen_arith(rng, depth - 1, floats) for _ in range(rng.randint(1, 3))))


def gen_rel(rng, depth, floats):
    op = rng.choice(["eq", "ne", "lt", "le", "gt", "ge"])
    a = gen_arith(rng, depth, floats)
    c = gen_arith(rng, depth, floats)
    if rng.random() < 0.12:   # relational operands of relationals
        a = "(%s %s %s)" % (rng.choice(["eq", "lt", "le", "ne"]), "(s x)", gen_arith(rng, 1, False))
    if rng.random() < 0.08:
        c = "(%s %s %s)" % (rng.choice(["eq", "lt", "le", "ne"]), gen_arith(rng, 1, False), "(s y)")
    return "(%s %s %s)" % (op, a, c)


def gen_bool(rng, depth, floats):
    if depth <= 0 or rng.random() < 0.4:
        return gen_rel(rng, 1, floats) if rng.random() < 0.9 else rng.choice(["true", "false"])
    r = rng.random()
    if r < 0.35:
        return "(and %s %s)" % (gen_bool(rng, depth - 1, floats), gen_bool(rng, depth - 1, floats))
    if r < 0.7:
        return "(or %s %s)" % (gen_bool(rng, depth - 1, floats), gen_bool(rng, depth - 1, floats))
    if r < 0.85:
        return "(not %s)" % gen_bool(rng, depth - 1, floats)
    return "(xor %s %s)" % (gen_bool(rng, depth - 1, floats), gen_bool(rng, depth - 1, floats))


def gen_expr(rng, floats):
    r = rng.random()
    if r < 0.70:
        return gen_arith(rng, rng.choice([1, 2, 2, 3, 3, 4]), floats)
    if r < 0.82:
        return gen_rel(rng, rng.choice([1, 2]), floats)
    if r < 0.93:
        return gen_bool(rng, 2, floats)
    if r < 0.97:
        return "(pw %s %s %s true)" % (gen_arith(rng, 2, floats), gen_rel(rng, 1, floats), gen_arith(rng, 1, floats))
    return "(add %s (mul %s %s))" % (gen_arith(rng, 1, floats), gen_arith(rng, 1, floats), gen_rel(rng, 1, floats))


def gen_twins(rng, floats):
    """two construction paths of (supposedly) the same value"""
    import itertools
    terms = [gen_arith(rng, rng.choice([0, 1, 1, 2]), floats) for _ in range(rng.randint(2, 5))]
    op = rng.choice(["add", "mul"])
    p1 = list(terms)
    p2 = list(terms)
    rng.shuffle(p2)

    def chain(p, left):
        if left:
            acc = p[0]
            for t in p[1:]:
                acc = "(%s %s %s)" % (op, acc, t)
        else:
            acc = p[-1]
            for t in reversed(p[:-1]):
                acc = "(%s %s %s)" % (op, t, acc)
        return acc
    r = rng.random()
    if r < 0.4:
        return chain(p1, True), chain(p2, True)
    if r < 0.7:
        return chain(p1, True), chain(p2, False)
    return chain(p1, True), "(%sv %s)" % (op, " ".join(p2))


CORPUS = [
    # (recipe, recipe2 or None)
    ("(d 0000000000000000)", "(d 8000000000000000)"),                  # eq, printed 0.0 / -0.0
    ("(add (s x) (d 0000000000000000))", "(add (s x) (d 8000000000000000))"),
    ("(cd 0000000000000000 3ff0000000000000)", "(cd 8000000000000000 3ff0000000000000)"),
    ("(d 7ff0000000000000)", None), ("(d fff0000000000000)", None), ("(d 7ff8000000000000)", None),
    ("(mul (d 7ff0000000000000) (s x))", None),
    ("(fs f)", None),
    ("(s e)", None), ("(s E)", None), ("(s pi)", None), ("(s I)", None), ("(s oo)", None), ("(s True)", None),
    ("(s nan)", None), ("(s zoo)", None), ("(s inf)", None), ("(s False)", None), ("(s Catalan)", None),
    ("(pow (s e) (s x))", None),
    ("(f2 kronecker_delta (s x) (s y))", None), ("(levi (s x) (s y) (s z))", None),
    ("(lt (s x) (lt (s y) (s z)))", None), ("(lt (eq (s x) (s y)) (s z))", None), ("(eq (lt (s x) (s y)) (s z))", None),
    ("(lt (lt (s x) (s y)) (s z))", None), ("(ne (le (s x) (i 1)) (lt (s y) (i 2)))", None),
    ("(add (i 1) (lt (s x) (s y)))", None), ("(mul (i 2) (lt (s x) (s y)))", None), ("(pow (lt (s x) (s y)) (i 2))", None),
    ("(pow (i -2) (s x))", None), ("(pow (q 1 2) (s x))", None), ("(pow (q -1 2) (s x))", None), ("(pow I (s x))", None),
    ("(pow (c 0 1 -1 1) (s x))", None), ("(pow (c 1 1 2 1) (s x))", None), ("(pow (s x) (q -1 2))", None),
    ("(pow (s x) (neg (s y)))", None), ("(pow (pow (s x) (s y)) (s z))", None), ("(pow (s x) (pow (s y) (s z)))", None),
    ("(pow (s x) -oo)", None), ("(pow -oo (s x))", None), ("(mul (i 2) (pow -oo (s x)))", None), ("(pow oo (s x))", None),
    ("(pow (s x) (i -1))", None), ("(neg (pow (s x) (i -1)))", None),
    ("(div (q 2 3) (mul (s x) (s y)))", None), ("(div (mul (q -2 3) (s z)) (mul (s x) (pow (s y) (i 2))))", None),
    ("(mul (c 1 2 -1 3) (s x))", None), ("(add (c 1 2 -1 3) (s x))", None), ("(mul (q -1 2) (s x))", None),
    ("(sub (i 0) (add (s x) (s y)))", None), ("(mul (pow E (s x)) (pow E (neg (s y))))", None),
    ("(pow E (q 1 2))", None), ("(pow (i 2) (q 1 2))", None), ("(pow (mul (s x) (s y)) (q 1 2))", None),
    ("(pow (s x) (q 1 2))", None), ("(div (i 1) (pow (s x) (q 1 2)))", None), ("(pow (pow (s x) (i 2)) (q 1 2))", None),
    ("(d 3ff0000000000001)", None), ("(d 42d6bcc41e900000)", None), ("(d 430c6bf526340000)", None),
    ("(d c2d6bcc41e900000)", None), ("(d 4341c37937e08000)", None), ("(d 3f1a36e2eb1c432d)", None),
    ("(mul (d bff8000000000000) (s x))", None), ("(pow (d bff8000000000000) (s x))", None),
    ("(add (s x) (d bff8000000000000))", None), ("(cd 3ff8000000000000 bff8000000000000)", None),
    ("(and (lt (s x) (s y)) (gt (s x) (s z)))", None), ("(not (and (lt (s x) (s y)) (gt (s x) (s z))))", None),
    ("(xor (lt (s x) (s y)) (gt (s x) (s z)))", None), ("(pw (s x) (lt (s x) (i 1)) (s y) true)", None),
    ("(addv (s x) (s y) (s z) (s t))", "(addv (s t) (s z) (s y) (s x))"),
    ("(mulv (s x) (pow (s y) (i -1)) (pow (s z) (i -2)))", "(mulv (pow (s z) (i -2)) (s x) (pow (s y) (i -1)))"),
    ("(add (add (s x) (mul (i 2) (s y))) (mul (i -3) (s z)))", "(add (mul (i -3) (s z)) (add (mul (i 2) (s y)) (s x)))"),
]

CONST_NAMES = {"e", "E", "pi", "I", "oo", "inf", "zoo", "nan", "True", "False", "EulerGamma", "Catalan", "GoldenRatio"}


# ------------------------------------------------------------------ s-expressions of recipes
def sx_parse(s):
    pos = [0]

    def go():
        while pos[0] < len(s) and s[pos[0]].isspace():
            pos[0] += 1
        if s[pos[0]] == "(":
            pos[0] += 1
            items = []
            while True:
                while s[pos[0]].isspace():
                    pos[0] += 1
                if s[pos[0]] == ")":
                    pos[0] += 1
                    return items
                items.append(go())
        st = pos[0]
        while pos[0] < len(s) and not s[pos[0]].isspace() and s[pos[0]] not in "()":
            pos[0] += 1
        return s[st:pos[0]]
    return go()


def sx_str(t):
    return t if isinstance(t, str) else "(" + " ".join(sx_str(x) for x in t) + ")"


def sx_subs(t):
    out = [t]
    if isinstance(t, list):
        head = t[0] if t and isinstance(t[0], str) else ""
        if head in ("i", "q", "c", "d", "cd", "s", "dum"):
            return out
        start = 2 if head in ("f1", "f2", "fs") else 1
        for x in t[start:]:
            out += sx_subs(x)
    return out


def has_float(recipe):
    return "(d " in recipe or "(cd " in recipe


def nonfinite_in(dump):
    import re
    for h in re.findall(r"\((?:D|CD) ([0-9a-f ]+)\)", dump or ""):
        for w in h.split():
            if (int(w, 16) >> 52) & 2047 == 2047:
                return True
    return False


def classify(recipe, d=None):
    """class of a round-trip failure, from the smallest failing sub-recipe (and its dump / parse result)"""
    t = sx_parse(recipe)
    if d is not None and nonfinite_in(d.get("D")):
        return "C16/roundtrip:nonfinite-double"
    if d is not None and has_float(recipe) and not nonfinite_in(d.get("D")) and nonfinite_in(d.get("RT", "").replace("(G ", "(")):
        return "C16/roundtrip:double-rounds-to-infinity"
    if d is not None:
        import re
        m = re.match(r"^\(CD ([0-9a-f]{16}) ([0-9a-f]{16})\)$", d.get("D", ""))
        if m:
            zero = all(int(w, 16) & 0x7fffffffffffffff == 0 for w in m.groups())
            return "C16/roundtrip:complex-double-zero" if zero else "C16/roundtrip:complex-double"
        if re.match(r"^\(D [0-9a-f]{16}\)$", d.get("D", "")):
            return "C16/roundtrip:double"
    if isinstance(t, list) and t and t[0] == "s":
        nm = t[1] if len(t) > 1 else ""
        if nm in CONST_NAMES:
            return "C16/roundtrip:symbol-named-like-constant"
        return "C16/roundtrip:symbol-name"
    if isinstance(t, list) and t and t[0] == "d":
        e = (int(t[1], 16) >> 52) & 2047
        return "C16/roundtrip:nonfinite-double" if e == 2047 else "C16/roundtrip:double"
    if isinstance(t, list) and t and t[0] == "cd":
        return "C16/roundtrip:complex-double"
    if isinstance(t, list) and t and t[0] == "fs" and len(t) == 2:
        return "C16/roundtrip:funsym-no-args"
    if isinstance(t, list) and len(t) == 3 and t[0] == "pow" and t[1] == "-oo":
        return "C16/roundtrip:pow:negative-infinity-base"
    if isinstance(t, list) and t and t[0] in ("f1", "f2", "fs"):
        return "C16/roundtrip:%s:%s" % (t[0], t[1])
    if isinstance(t, list) and t:
        return "C16/roundtrip:" + str(t[0])
    return "C16/roundtrip:" + str(t)


def unsign_zero(t):
    """the text with the sign of every zero literal removed (-0.0 and 0.0 are eq)"""
    import re
    return re.sub(r"(?<![0-9])-(0\.0)(?![0-9])", r"\1", t)


def parse_S(raw):
    d = {"flag": "", "raw": raw}
    for f in raw.split("\t"):
        if f.startswith("#ORACLE:"):
            d["flag"] = f[8:]
        elif "=" in f:
            k, v = f.split("=", 1)
            d[k] = v
        elif f.startswith("SKIP"):
            d["skip"] = f
    return d


def run_S(ctx, drv, model, pairs):
    """pairs: (recipe, recipe2 or None) -> list of dicts (driver fields + model string(s) and parse outcome)"""
    lines = ["S " + r + ("\t" + r2 if r2 else "") for r, r2 in pairs]
    out = ctx.run_lines(drv, lines, timeout=3000, shards=16)
    res = [parse_S(o) for o in out]
    mlines, idx = [], []
    for i, d in enumerate(res):
        if "D" in d and "STR" in d:
            mlines.append("S " + d["D"])
            idx.append((i, "m1"))
        if "D2" in d:
            mlines.append("S " + d["D2"])
            idx.append((i, "m2"))
    mod = ctx.run_lines(model, mlines, timeout=1800)
    for (i, k), m in zip(idx, mod):
        res[i][k] = m
    # the model's parse of its own string, evaluated by the driver and compared with the library's parse(str(e))
    plines, pidx = [], []
    for i, d in enumerate(res):
        m = d.get("m1", "")
        if "\t" in m:
            ms, mo = m.split("\t", 1)
            if ms == d.get("STR"):
                plines.append("P 1 %s\t%s\t-" % (ms, mo))
                pidx.append(i)
    pout = ctx.run_lines(drv, plines, timeout=3000, shards=16)
    for i, o in zip(pidx, pout):
        for f in o.split("\t"):
            if f.startswith("I="):
                res[i]["PI"] = f[2:]
            elif f.startswith("M="):
                res[i]["PM"] = f[2:]
    return res


def nontrivial(recipe):
    return recipe.count("(add") + recipe.count("(mul") + recipe.count("(pow") + recipe.count("(sub") + recipe.count("(div") >= 2


def run(ctx):
    ctx.gate(["Parse", "C16"])
    drv, model = pc.prepare(ctx)
    ctx.prove(pc.proof_modules(), OBLIGATIONS)
    if drv is None or model is None:
        return
    quick = ctx.tier == "quick"
    rng = ctx.rng
    pairs = list(CORPUS)
    for _ in range(1500 if quick else 40000):
        pairs.append((gen_expr(rng, floats=rng.random() < 0.35), None))
    for _ in range(400 if quick else 10000):
        pairs.append(gen_twins(rng, floats=rng.random() < 0.3))
    explore(ctx, drv, model, pairs)
    if ctx.broken and not new_violation(ctx):
        extra = [(gen_expr(rng, floats=rng.random() < 0.3), None) for _ in range(6000)]
        extra += [gen_twins(rng, floats=False) for _ in range(1500)]
        explore(ctx, drv, model, extra, search=True)
    ctx.cov["rule"] = (
        "expressions built on the library from recipes: integers (negative, beyond 2^64), rationals, complex numbers, doubles "
        "(fixed boundary values for %.15g, random bit patterns), constants, symbols with unusual names (underscores, bytes >= 0x80, "
        "names that start like constants), + - * / neg, powers with negative / rational / complex / symbolic exponents and "
        "negative / rational / complex bases, every parser-known function, relationals (also nested), And/Or/Not/Xor, Piecewise; "
        "pairs of construction paths of one value (permuted Add/Mul operands); a fixed corpus.  non-trivial = at least two "
        "arithmetic constructors in the recipe; distinct = distinct recipes")
    ctx.assumptions += [
        "floats: the round trip is required up to the printed 15 significant digits (str(parse(str(e))) == str(e)); exact "
        "equality is required when the expression contains no double",
        "the reference parser is tied to the real one by correspondence (the model's parse of every printed string is evaluated "
        "and compared with the library's parse of it)",
        "glibc's printf(\"%.15g\") rounds the exact binary value half-to-even (the model computes with exact rationals)",
    ]


def new_violation(ctx):
    known = vlib.load_known(ctx.pid)
    return any(v["key"] not in known for v in ctx.violations)


def explore(ctx, drv, model, pairs, search=False):
    res = run_S(ctx, drv, model, pairs)
    ctx.cov["evaluations"] += len(pairs)
    ctx.cov["traces_validated_against_impl"] += sum(1 for d in res if "m1" in d)
    ctx.cov["distinct_nontrivial"] += len(set(r for r, _ in pairs if nontrivial(r)))
    if not search:
        ctx.cov["samples"] += [{"recipe": r, "str": bytes.fromhex(d.get("STR", "")).decode("latin-1"), "roundtrip": d.get("RT", "")[:120]}
                               for (r, _), d in list(zip(pairs, res))[90:96]]
    ndis = 0
    rt_fail = []
    for (r, r2), d in zip(pairs, res):
        if "skip" in d or "D" not in d:
            if "SKIP:constructor" in d["raw"]:
                if len(ctx.notes) < 5:
                    ctx.notes.append("building the expression crashes (not printer/parser business): %s -> %s" % (r[:160], d["raw"][-40:]))
            elif pc.is_crash(d["raw"]):
                # building or printing the expression died
                ctx.violation("C16/crash", "recipe %s: %s" % (r, d["raw"][-80:]), {"family": "C16", "recipe": r, "recipe2": r2})
            continue
        s = bytes.fromhex(d["STR"])
        rep = {"family": "C16", "recipe": r, "recipe2": r2}
        # ---- oracle 1: equal expressions print alike
        if d.get("EQ12") == "1" and d.get("STR2") != d["STR"]:
            zero = ("(d 0000000000000000)" in r or "(d 8000000000000000)" in r or "(cd 0000" in r or "(cd 8000" in r
                    or unsign_zero(s.decode("latin-1")) == unsign_zero(bytes.fromhex(d["STR2"]).decode("latin-1")))
            key = "C16/eq-print:signed-zero" if zero else "C16/eq-print:" + classify(r).split(":", 1)[1]
            ctx.violation(key, "eq expressions print differently: %s -> %s, %s -> %s" % (
                r, pc.show(s), r2, pc.show(bytes.fromhex(d["STR2"]))), rep)
        # ---- oracle 2: round trip
        rt_ok = d.get("EQ") == "1" or (d.get("EQ") == "2" and has_float(r))
        if not rt_ok and d.get("STABLE") == "0":
            # e is not eq to the expression rebuilt from its own tree with the public constructors (not canonical:
            # a C03/C04 matter, e.g. 10 + ceiling(GoldenRatio) with the ceiling left unevaluated): out of the fragment
            ctx.cov.setdefault("skipped_not_stable_under_own_constructors", 0)
            ctx.cov["skipped_not_stable_under_own_constructors"] += 1
            if ctx.cov["skipped_not_stable_under_own_constructors"] <= 3:
                ctx.notes.append("not stable under its own constructors (skipped): %s prints as %s" % (r[:200], pc.show(s)[:120]))
        elif not rt_ok:
            rt_fail.append((r, d))
        # ---- correspondence: the model's string and the model's parse of it
        for k, sk, rr in (("m1", "STR", r), ("m2", "STR2", r2)):
            m = d.get(k)
            if m is None or sk not in d:
                continue
            if m.startswith("UNSUPPORTED"):
                ctx.cov.setdefault("not_printable_by_model", 0)
                ctx.cov["not_printable_by_model"] += 1
                continue
            ms = m.split("\t")[0]
            if ms != d[sk]:
                ndis += 1
                if ndis <= 3:
                    ctx.broken.append({"kind": "correspondence", "name": "C16 str",
                                       "detail": "recipe %s\n dump  %s\n model: %s\n impl:  %s" % (
                                           rr, d.get("D" if k == "m1" else "D2", "")[:300],
                                           pc.show(bytes.fromhex(ms)) if all(c in "0123456789abcdef" for c in ms) else m[:200],
                                           pc.show(bytes.fromhex(d[sk])))})
        if "PI" in d and d["PI"] != d.get("PM"):
            if d.get("PM") == "EXN:4" and d["PI"].startswith("EXN:"):
                pass
            else:
                ndis += 1
                if ndis <= 3:
                    ctx.broken.append({"kind": "correspondence", "name": "C16 parse(str)",
                                       "detail": "parse(%s)\n model: %s\n impl:  %s" % (pc.show(s), d.get("PM", "")[:300], d["PI"][:300])})
    if rt_fail:
        report_roundtrip(ctx, drv, model, rt_fail)
    return ndis


def report_roundtrip(ctx, drv, model, fails):
    """name each round-trip failure by its smallest failing sub-recipe"""
    done = set()
    for r, d in fails[:60]:
        try:
            subs = sorted(set(sx_str(t) for t in sx_subs(sx_parse(r))), key=len)[:50]
        except (IndexError, ValueError):
            subs = [r]
        lines = ["S " + x for x in subs]
        out = [parse_S(o) for o in ctx.run_lines(drv, lines, timeout=600)]
        best = None
        for x, dd in zip(subs, out):
            if "D" in dd and dd.get("STABLE") != "0" and not (dd.get("EQ") == "1" or (dd.get("EQ") == "2" and has_float(x))):
                best = (x, dd)
                break
        if best is None:
            best = (r, d)
        x, dd = best
        key = classify(x, dd)
        if key in done:
            continue
        done.add(key)
        ctx.violation(key, "e = %s: str(e) = %s, parse(str(e)) = %s is not eq to e (found in %s)" % (
            x, pc.show(bytes.fromhex(dd.get("STR", ""))), dd.get("RT", "")[:200], r[:200]),
            {"family": "C16", "recipe": x, "recipe2": None})


def replay(ctx, rep):
    drv, model = pc.prepare(ctx)
    r = rep["replay"]
    d = run_S(ctx, drv, model, [(r["recipe"], r.get("recipe2"))])[0]
    print("recipe :", r["recipe"], "|", r.get("recipe2"))
    for k in ("D", "STR", "RT", "EQ", "D2", "STR2", "EQ12", "m1", "m2", "PI", "PM", "flag"):
        if k in d:
            v = d[k]
            if k in ("STR", "STR2"):
                v = pc.show(bytes.fromhex(v))
            print("%-6s : %s" % (k, v))
