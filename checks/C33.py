"""C33 -- the prime sieve yields exactly the primes after any call history.
Model: coq/C33/SieveModel.v (state machine, 32-bit arithmetic, observable OOB).
Theorems: coq/C33/P_*.v.  Tie: histories run on the extracted model and on the library."""
import vlib

PROOF_MODULES = ["C33/SieveProofs.vo"]
OBLIGATIONS = ["C33/P_extend_correct.v", "C33/P_history_correct.v", "C33/P_iterator_correct.v", "C33/P_nonvacuous.v"]

SMALL_PRIMES = [2, 3, 5, 7, 11, 13, 17, 19, 23, 29, 31, 37, 41, 43, 47, 53, 59, 61, 67, 71]


def boundary_limits(rng, size_kb, maxlim):
    """limits aimed at the case splits of the proof: segment ends start + 2*segment*j - 1 + {-2..3},
    squares of primes, the initial vector's end, tiny values"""
    seg2 = 2 * 8192 * size_kb
    cands = []
    for start in (30, 32, 38, 102, 170):
        j = 1
        while start + seg2 * j - 4 < maxlim:
            for d in (-3, -2, -1, 0, 1, 2, 3):
                cands.append(start + seg2 * j - 1 + d)
            j += 1
    for p in (5, 7, 11, 13, 31, 37, 101, 127, 181, 211):
        for d in (-1, 0, 1):
            cands.append(p * p + d)
    cands += [0, 1, 2, 3, 28, 29, 30, 31, 32, 100, 961, 1000]
    cands = [c for c in cands if 0 <= c <= maxlim]
    return cands


def gen_history(rng, tier):
    ops = []
    size = rng.choice([1, 1, 1, 2, 3]) if tier == "quick" else rng.choice([1, 1, 2, 3, 4, 5])
    maxlim = 60000 if tier == "quick" else 200000
    if rng.random() < 0.85:
        ops.append("S %d" % size)
    else:
        size = 32
        maxlim = 3000
    if rng.random() < 0.5:
        ops.append("F %d" % rng.randint(0, 1))
    cands = boundary_limits(rng, size, maxlim)
    live = []
    nid = 1
    n = rng.randint(2, 9)
    for _ in range(n):
        r = rng.random()
        if r < 0.45:
            lim = rng.choice(cands) if rng.random() < 0.7 else rng.randint(0, maxlim)
            ops.append("G %d" % lim)
        elif r < 0.55:
            ops.append("C")
        elif r < 0.62:
            ops.append("F %d" % rng.randint(0, 1))
        elif r < 0.68:
            size = rng.choice([1, 2, 3])
            ops.append("S %d" % size)
            cands = boundary_limits(rng, size, maxlim)
        elif r < 0.80 or not live:
            lim = rng.choice([0, 0, 10, 14, 29, 30, 31, 100, 541, rng.randint(2, 3000)])
            ops.append("N %d %d" % (nid, lim))
            live.append(nid)
            nid += 1
        elif r < 0.95:
            it = rng.choice(live)
            for _ in range(rng.choice([1, 3, 9, 12, 30])):
                ops.append("X %d" % it)
        else:
            it = rng.choice(live)
            live.remove(it)
            ops.append("D %d" % it)
    return " ".join(ops)


CORPUS = [
    # the boundary that the unfixed code got wrong (index `segment` of a segment-sized array)
    "S 1 G 100000",
    "S 1 F 0 G 16413 G 16414 G 16415 G 32797 G 32798 G 32799",
    "S 1 N 1 0 " + "X 1 " * 40,
    "S 1 N 1 14 " + "X 1 " * 14,
    "S 1 F 1 N 1 0 " + "X 1 " * 12 + "G 50 " + "X 1 " * 5 + "C " + "X 1 " * 5,
    "G 1000 G 5",
]


def nontrivial(h, size_default=32):
    """a history is non-trivial when some operation makes the sieve cross a segment end"""
    size = size_default
    for tok in h.split("S ")[1:]:
        size = int(tok.split()[0])
        break
    seg2 = 2 * 8192 * size
    toks = h.split()
    for i, t in enumerate(toks):
        if t == "G" and int(toks[i + 1]) > 30 + seg2:
            return True
    return False


def run(ctx):
    ctx.gate(["Base", "C33"])
    ctx.prove(PROOF_MODULES, OBLIGATIONS)
    drv = ctx.build_driver("c33_driver")
    model = ctx.build_model("C33", "C33/Extract.v", "c33_main.ml", "sieve_model")
    ncases = 160 if ctx.tier == "quick" else 1500
    cases = list(CORPUS) + [gen_history(ctx.rng, ctx.tier) for _ in range(ncases)]
    if ctx.tier == "thorough":
        cases += ["G 600000", "F 0 G 524318 G 524319 G 524320 G 524321 G 1048606 G 1048607 G 1048608"]
    explore(ctx, drv, model, cases)
    if ctx.broken and not ctx.violations:
        # a proof or the tie broke: search harder for a concrete failing history
        extra = [gen_history(ctx.rng, "thorough") for _ in range(600)]
        explore(ctx, drv, model, extra, search=True)
    ctx.cov["rule"] = ("histories of Sieve operations (set_sieve_size, set_clear, clear, generate_primes, iterator new/next/delete) "
                       "from one PRNG; limits aimed at segment ends start+2*segment*j-1+{-3..3}, prime squares and the initial vector's end; "
                       "a history is non-trivial when a generate_primes call crosses a segment end; distinct = distinct history strings")
    ctx.assumptions += [
        "std::floor(std::sqrt(double(limit))) equals the integer square root for 32-bit limits (modelled as N.sqrt)",
        "std::valarray slice assignment touches exactly the indices start + k*stride, k < count",
        "std::vector::erase keeps the storage behind end() (the iterator's `_primes[_index - 1]` reads it after clear(); formally UB, see DESIGN.md)",
        "theorems bound limits < 2^31 and sieve sizes 1..2^15 KB (no 32-bit wrap); unbounded iterators (limit 0) are covered by correspondence only",
    ]


def explore(ctx, drv, model, cases, search=False):
    if drv is None or model is None:
        return
    impl = ctx.run_lines(drv, cases, timeout=1800)
    mod = ctx.run_lines(model, cases, timeout=1800)
    ctx.cov["evaluations"] += len(cases)
    distinct = set(c for c in cases if nontrivial(c))
    ctx.cov["distinct_nontrivial"] += len(distinct)
    ctx.cov["traces_validated_against_impl"] += len(cases)
    if not search:
        ctx.cov["samples"] += [{"history": c, "model": m, "impl": i} for c, m, i in list(zip(cases, mod, impl))[:6]]
    ndis = 0
    for c, m, i in zip(cases, mod, impl):
        canon, _, oracle = i.partition("\t#ORACLE:")
        if oracle:
            ctx.violation("C33/wrong-output", "history `%s`: %s" % (c, oracle.strip()),
                          {"family": "C33", "case": c, "impl": canon, "model": m})
        elif "CRASH" in canon or "HANG" in canon or "UNCAUGHT" in canon:
            ctx.violation("C33/crash", "history `%s` ends with %s on the library (model: %s)" % (c, canon[-40:], m[-60:]),
                          {"family": "C33", "case": c, "impl": canon, "model": m})
        elif canon != m:
            ndis += 1
            if ndis <= 3:
                ctx.broken.append({"kind": "correspondence", "name": "C33 sieve history",
                                   "detail": "history `%s`\n model: %s\n impl:  %s" % (c, m, canon)})
    return ndis


def replay(ctx, rep):
    drv = ctx.build_driver("c33_driver")
    model = ctx.build_model("C33", "C33/Extract.v", "c33_main.ml", "sieve_model")
    c = rep["replay"]["case"]
    print("case :", c)
    print("impl :", ctx.run_lines(drv, [c])[0])
    print("model:", ctx.run_lines(model, [c])[0])
