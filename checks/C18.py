"""C18 -- parsing arbitrary input is safe, and parser reuse is stateless.
Model: coq/Parse/Lexer.v + ParseModel.v: the reference lexer/parser (total on every byte list) and the Parser
object as a state machine (inp, tokenizer cursor, res -- including what a failed parse leaves in res).
Theorems: coq/C18/P_*.v (parse_total, parser_stateless, lex_stops_at_nul).
Tie: histories of byte strings (grammar-generated strings, mutated by byte-level edits, token soup, raw bytes, NUL
and high bytes, deep nesting) are given to ONE Parser object and, each, to a fresh parser, in forked children; the
extracted state machine runs the same history and predicts, for every call, the result (a recipe evaluated by the
driver with the library's constructors, or ParseError) and the content of the public field `res`.
Oracle (on the library alone): no crash, no hang, only library exceptions; reused parser == fresh parser;
bytes after a NUL do not matter.  parse_sbml / SbmlParser: the same oracle, without a model."""
from checks import parsecommon as pc
import vlib

# built by ctx.prove (make) once coq/Parse/*.v are listed in coq/_CoqProject; until then parsecommon.prepare
# compiles them directly with coqc (parsecommon.ORDER) and proof_modules() is empty
PROOF_MODULES = pc.PROOF_VO
OBLIGATIONS = ["C18/P_parse_total.v", "C18/P_parser_stateless.v", "C18/P_lex_stops_at_nul.v", "C18/P_nonvacuous.v"]

ALPHABET = (list(b"+-*/^@(),.~<>=!&|#$%?:;'\"\\[]{}`") + list(b"0123456789") + list(b"exyzEIpi_") +
            [0, 0, 9, 10, 11, 12, 13, 32, 32, 127, 128, 0xC3, 0xA9, 0xFF, 0xFE, 1, 27])

BOOL_TEMPLATES = [
    "%s<%s", "%s <= %s", "%s==%s", "%s != %s", "%s>%s", "%s>=%s", "(%s<%s)&(%s>%s)", "(%s<%s)|(%s==%s)", "~(%s<%s)",
    "Eq(%s,%s)", "Ne(%s, %s)", "Lt(%s,%s)", "And(%s<%s, True)", "Or(%s<%s,%s>%s)", "Not(%s<%s)", "Xor(%s<%s, %s<%s)",
    "Piecewise((%s, %s<%s), (%s, True))", "%s<%s<%s", "%s==%s<%s", "~%s", "%s&%s", "%s|%s", "And(%s,%s)", "Not(%s)",
    "Piecewise((%s,%s))", "(%s<%s)^(%s<%s)", "Nand(%s<%s,%s<%s)", "Xnor(%s<%s, %s<%s)", "Equality(%s)",
]


def valid_string(rng):
    r = rng.random()
    rd = pc.Renderer(rng, pow_spelling=("**", "^", "@"), ws=rng.random() < 0.5, redundant=rng.choice([0.0, 0.15]))
    if r < 0.65:
        return rd.raw(pc.gen_ast(rng, rng.choice([1, 2, 2, 3])))
    t = rng.choice(BOOL_TEMPLATES)
    n = t.count("%s")
    return t % tuple(rd.raw(pc.gen_ast(rng, rng.choice([0, 0, 1]))) for _ in range(n))


def mutate(rng, s):
    b = bytearray(s.encode("latin-1"))
    for _ in range(rng.choice([1, 1, 1, 2, 2, 3, 5])):
        r = rng.random()
        if not b or r < 0.35:
            b.insert(rng.randint(0, len(b)), rng.choice(ALPHABET))
        elif r < 0.6:
            del b[rng.randrange(len(b))]
        elif r < 0.8:
            b[rng.randrange(len(b))] = rng.choice(ALPHABET)
        elif r < 0.9:
            i = rng.randrange(len(b))
            j = rng.randint(i, min(len(b), i + 6))
            b[i:i] = b[i:j]
        else:
            del b[rng.randrange(len(b)):]
    return bytes(b)


def raw_bytes(rng):
    n = rng.choice([0, 1, 1, 2, 3, 5, 8, 13, 40])
    if rng.random() < 0.5:
        return bytes(rng.choice(ALPHABET) for _ in range(n))
    return bytes(rng.randrange(256) for _ in range(n))


def deep(rng, n):
    k = rng.randrange(7)
    if k == 0:
        return ("(" * n + "x" + ")" * n).encode()
    if k == 1:
        return ("-" * n + "x").encode()
    if k == 2:
        return ("x" + "**x" * n).encode()
    if k == 3:
        return ("x" + "+y" * n).encode()
    if k == 4:
        return ("sin(" * n + "x" + ")" * n).encode()
    if k == 5:
        return ("(" * n + "x").encode()
    return ("f(" * n + "x" + "," * n).encode()


def tame_powers(b):
    """Replace a power operator by `*` when its exponent starts with a literal of more than two digits or is
    itself the base of another numeric power: 1844674407370@9551616 or 9**9**9 are hour-long integer
    computations, not parser business (they only produce time-outs on both sides)."""
    import re
    pat = re.compile(rb"(\*\*|\^|@)(?=[\s(+\-]*(\d{3,}|\d+[\s)]*(\*\*|\^|@)[\s(+\-]*\d))")
    prev = None
    while prev != b:
        prev = b
        b = pat.sub(b"*", b)
    return b


def gen_input(rng, tier):
    r = rng.random()
    if r < 0.30:
        return tame_powers(valid_string(rng).encode("latin-1"))
    if r < 0.75:
        return tame_powers(mutate(rng, valid_string(rng)))
    if r < 0.85:
        from checks import C17
        return tame_powers(C17.token_soup(rng).encode("latin-1"))
    if r < 0.97:
        return raw_bytes(rng)
    return deep(rng, rng.choice([50, 300] if tier == "quick" else [50, 300, 1500]))


CORPUS = [
    # (convert_xor, [inputs])
    (True, [b"~x", b"x & y", b"x | y", b"~1", b"x"]),                     # were SIGSEGV before e91788c
    (False, [b"x ^ y", b"(x<y)^(y<z)", b"x^y^z"]),
    (True, [b"a b", b"c #", b"d )", b"(e f", b"g + h i", b"j + k #", b"m", b"n +", b"o ** ", b"p, q", b"zz"]),
    (True, [b"(", b"", b"x", b"", b")", b"x"]),
    (True, [b"x+1\x00+(((", b"x+1", b"\x00", b"\x00x", b"x\x00\xff\xfe"]),
    (True, [b"1/acoth(0.0)"]),                                             # constructors abort (C06 finding)
    (True, [b"\xc3\xa9 + \xff_1", b"2\xc3\xa9", b"\x80", b"1e5\x80", b"x\x7fy"]),
    (True, [b"1e400", b"1e-400", b"0x10", b"1e", b"1.e5", b".", "1..2".encode(), b"1.2.3", b"..", b".e1", b"1e+", b"1e+x"]),
    (True, [b"sin()", b"sin(,)", b"sin(x,)", b"f(x)(y)", b"Piecewise", b"Piecewise()", b"Piecewise((x))", b"Piecewise((x,y))",
            b"Piecewise((x,y<1),)", b"Piecewisex", b"Piecewise1"]),
    (True, [b"x=y", b"x!y", b"x<>y", b"x=<y", b"x=>y", b"x===y", b"x!==y", b"x**", b"**x", b"x***y", b"x* *y", b"x@@y"]),
    (True, [b"And()", b"And(x<y)", b"And(x)", b"Not(x<y,y<z)", b"Eq()", b"Eq(x,y,z)", b"Xor(x<y)", b"max()", b"primepi(x)",
            b"zeta(1)", b"gamma(0)", b"log(0)", b"1/0", b"0/0", b"0**-1", b"oo-oo", b"zoo*0", b"nan<1", b"I<1", b"x<I"]),
]

SBML_TOKENS = ["x", "y", "t", "2", "3.5", "1e3", "+", "-", "*", "/", "%", "^", "(", ")", ",", "<", ">", "<=", ">=", "==", "!=",
               "&&", "||", "!", "pow", "sin", "exp", "ln", "log", "log10", "root", "sqrt", "piecewise", "true", "false", "pi",
               "exponentiale", "avogadro", "time", "inf", "nan", "and", "or", "not", "eq", "lt", "abs", "factorial", "f",
               " ", " ", "&", "|", "=", "#", "\x00", "\xe9",
               # SBML looks constants and functions up case-insensitively: the same spelling in different case in one history
               "X", "Y", "T", "S", "s", "Km", "km", "Vmax", "vmax", "Pi", "PI", "Sin", "TIME", "Time", "F", "True", "Inf"]
SBML_CORPUS = [
    [b"k1*S/(Km + S)", b"Vmax*S1*(", b"K1*s - 2", b"km + 1", b"piecewise(s, s > 1, vmax)", b"k1*S/(Km + S)"],
    [b"S + s", b"s + S", b"Pi + pi + PI", b"X*x", b"TIME + time + Time"],
    [b"!x", b"x && y", b"x || y", b"x"],
    [b"(x<y) && (y<z)", b"!(x<y)", b"x^y^z", b"x % y", b"pow(x,2)", b"f()", b"f(", b"", b"x y", b"x"],
    [b"piecewise(x, x<1, y)", b"piecewise(x, y, z)", b"piecewise()", b"log(2,x)", b"root(2,x)", b"and(x<y, y<z)",
     b"and(x,y)", b"not(x)", b"eq(x)", b"gt(1,2,3)"],
]


def gen_sbml(rng):
    n = rng.randint(1, 10)
    return "".join(rng.choice(SBML_TOKENS) for _ in range(n)).encode("latin-1")


def parse_fields(raw):
    d = {"flag": ""}
    for f in raw.split("\t"):
        if f.startswith("#ORACLE:"):
            d["flag"] = f[8:]
        elif "=" in f[:6]:
            k, v = f.split("=", 1)
            d[k] = v.split(";") if v != "" else []
    return d


def run_H(ctx, drv, model, hist):
    """hist: list of (conv, [bytes]) -> list of dicts R, RES, F, M, MRES (lists), flag"""
    l1 = ["H %d %s" % (1 if c else 0, ",".join(pc.hx(s) or "-" for s in ins)) for c, ins in hist]
    mod = ctx.run_lines(model, l1, timeout=1800)
    l2 = []
    for l, m in zip(l1, mod):
        parts = m.split("\t")
        if len(parts) != 2:
            parts = [m, m]
        l2.append("%s\t%s\t%s" % (l, parts[0], parts[1]))
    out = ctx.run_lines(drv, l2, timeout=3000, shards=16)
    res = []
    for o, m in zip(out, mod):
        d = parse_fields(o)
        d["raw"] = o
        d["model_raw"] = m
        res.append(d)
    return res


def nontrivial(ins):
    return len(ins) >= 2


def run(ctx):
    ctx.gate(["Parse", "C18"])
    drv, model = pc.prepare(ctx)
    ctx.prove(pc.proof_modules(), OBLIGATIONS)
    if drv is None or model is None:
        return
    quick = ctx.tier == "quick"
    rng = ctx.rng
    hist = list(CORPUS)
    for _ in range(500 if quick else 12000):
        n = rng.choice([1, 2, 3, 3, 4, 6])
        ins = [gen_input(rng, ctx.tier) for _ in range(n)]
        if rng.random() < 0.25:   # the same text again, followed by a NUL and garbage
            s = rng.choice(ins).split(b"\x00")[0]
            ins += [s, s + b"\x00" + raw_bytes(rng)]
        hist.append((rng.random() < 0.8, ins))
    explore(ctx, drv, model, hist)
    sb = list(SBML_CORPUS)
    for _ in range(150 if quick else 4000):
        sb.append([gen_sbml(rng) if rng.random() < 0.7 else mutate(rng, valid_string(rng)) for _ in range(rng.choice([1, 2, 4]))])
    explore_sbml(ctx, drv, sb)
    if ctx.broken and not new_violation(ctx):
        extra = [(rng.random() < 0.8, [gen_input(rng, "quick") for _ in range(rng.choice([1, 2, 3]))]) for _ in range(3000)]
        explore(ctx, drv, model, extra, search=True)
    ctx.cov["rule"] = (
        "histories of 1..8 byte strings given to one Parser object (and each to a fresh parser): strings rendered from random "
        "syntax trees (arithmetic, relational, logical, Piecewise), the same after 1..5 byte-level edits (insert / delete / "
        "replace / duplicate / truncate over an alphabet with operators, NUL, control and >= 0x80 bytes), token soup, raw bytes, "
        "deep nesting, and pairs s / s+NUL+garbage; SbmlParser histories over SBML token soup (oracle only).  non-trivial = a "
        "history with at least two inputs; distinct = distinct histories")
    ctx.assumptions += [
        "memory safety of the generated C++ (bison automaton, re2c DFA) cannot be exhibited by a model: crashes and hangs are "
        "observed per explored input in forked children of a -D_GLIBCXX_ASSERTIONS build; proved instead: totality of the "
        "reference lexer/parser, statelessness of the modelled Parser object, the NUL terminator property",
        "when the model reports a syntax error the library may report another library exception raised by a semantic action "
        "that ran before the offending token was reached (accepted, counted in action_exception_before_syntax_error)",
        "inputs are bounded to a few kilobytes (nesting depth <= 1500): stack exhaustion of recursive destructors / printers on "
        "inputs with 10^5..10^6 nested calls is outside this check",
    ]


def new_violation(ctx):
    known = vlib.load_known(ctx.pid)
    return any(v["key"] not in known for v in ctx.violations)


def explore(ctx, drv, model, hist, search=False):
    res = run_H(ctx, drv, model, hist)
    ctx.cov["evaluations"] += sum(len(ins) for _, ins in hist)
    ctx.cov["traces_validated_against_impl"] += len(hist)
    ctx.cov["distinct_nontrivial"] += len(set((c, tuple(ins)) for c, ins in hist if nontrivial(ins)))
    if not search:
        ctx.cov["samples"] += [{"convert_xor": c, "inputs": [pc.show(s) for s in ins], "reused": d.get("R"), "res_field": d.get("RES")}
                               for (c, ins), d in list(zip(hist, res))[30:34]]
    ndis = 0
    for (c, ins), d in zip(hist, res):
        rep = {"family": "C18", "conv": c, "inputs": [pc.hx(s) for s in ins]}
        R, F, M, RES, MRES = d.get("R", []), d.get("F", []), d.get("M", []), d.get("RES", []), d.get("MRES", [])
        n = len(ins)
        if len(M) != n:
            ctx.broken.append({"kind": "correspondence", "name": "C18 model output",
                               "detail": "history %s\n model: %s\n driver: %s" % ([pc.show(s) for s in ins], d["model_raw"][:300], d["raw"][:300])})
            continue
        # ---- oracle on the library alone
        for i in range(n):
            for which, lst in (("reused parser", R), ("fresh parser", F)):
                if i >= len(lst):
                    continue   # the reused parser's process died at an earlier input (reported there)
                r = lst[i]
                if pc.is_crash(r) or r.startswith("EXN:7") or r.startswith("EXN:8"):
                    same = i < len(M) and M[i] == r
                    if pc.is_crash(r):
                        key = "C18/crash:in-library-constructor" if same else "C18/crash:parser"
                    else:
                        key = "C18/non-library-exception"
                    ctx.violation(key, "parse(%s, convert_xor=%s) on a %s -> %s%s" % (
                        pc.show(ins[i]), c, which, r,
                        " (the calls the string denotes, made directly, end the same way)" if same else ""),
                        dict(rep, index=i))
        if d["flag"] or len(R) != n or R != F:
            if not any(pc.is_crash(x) for x in R + F):
                ctx.violation("C18/stateful-parser", "history %s (convert_xor=%s): reused parser %s, fresh parsers %s" % (
                    [pc.show(s) for s in ins], c, R, F), rep)
        # bytes after a NUL
        first = {}
        for i, s in enumerate(ins):
            k = s.split(b"\x00")[0]
            if k in first and i < len(F) and first[k] < len(F) and F[i] != F[first[k]]:
                ctx.violation("C18/nul-terminator", "parse(%s) = %s but parse(%s) = %s" % (
                    pc.show(ins[first[k]]), F[first[k]], pc.show(s), F[i]), rep)
            first.setdefault(k, i)
        # ---- model == implementation: results and the res field
        eff = "NULL"
        for i in range(min(n, len(R))):
            r, m = R[i], M[i]
            if pc.is_crash(r):
                break
            if m == "HANG":
                # the driver's evaluation of the model's recipe ran into its time limit (a huge power, say)
                # while the library's own parse finished in time: timing noise, not a disagreement
                ctx.cov.setdefault("model_recipe_timeouts", 0)
                ctx.cov["model_recipe_timeouts"] += 1
                break
            ok = (r == m) or (m == "EXN:4" and r.startswith("EXN:"))
            if m == "EXN:4" and r.startswith("EXN:") and r != "EXN:4":
                ctx.cov.setdefault("action_exception_before_syntax_error", 0)
                ctx.cov["action_exception_before_syntax_error"] += 1
            if i < len(MRES) and MRES[i].startswith("OK:"):
                eff = MRES[i]
            res_ok = i >= len(RES) or RES[i] == eff or not r.startswith(("OK", "EXN:4"))
            if not ok or not res_ok:
                ndis += 1
                if ndis <= 3:
                    ctx.notes.append("model != implementation: history %s (convert_xor=%s), call %d: model %s | res %s; impl %s | res %s" % (
                        [pc.show(s) for s in ins], c, i, m[:160], eff[:160], r[:160], RES[i][:160] if i < len(RES) else "?"))
                    ctx.broken.append({"kind": "correspondence", "name": "C18 history",
                                       "detail": "history %s (convert_xor=%s), call %d\n model: %s | res %s\n impl:  %s | res %s" % (
                                           [pc.show(s) for s in ins], c, i, m[:200], eff[:200], r[:200],
                                           RES[i][:200] if i < len(RES) else "?")})
                break
    return ndis


def explore_sbml(ctx, drv, hist):
    lines = ["B " + ",".join(pc.hx(s) or "-" for s in ins) for ins in hist]
    out = ctx.run_lines(drv, lines, timeout=3000, shards=16)
    ctx.cov["evaluations"] += sum(len(ins) for ins in hist)
    for ins, o in zip(hist, out):
        d = parse_fields(o)
        R, F = d.get("R", []), d.get("F", [])
        rep = {"family": "C18-sbml", "inputs": [pc.hx(s) for s in ins]}
        bad = False
        for i, r in enumerate(F):
            if pc.is_crash(r) or r.startswith("EXN:7") or r.startswith("EXN:8"):
                bad = True
                ctx.violation("C18/sbml:crash" if pc.is_crash(r) else "C18/sbml:non-library-exception",
                              "parse_sbml(%s) -> %s" % (pc.show(ins[i]) if i < len(ins) else "?", r), dict(rep, index=i))
        if not bad and (d["flag"] or R != F):
            if any(pc.is_crash(x) for x in R):
                ctx.violation("C18/sbml:crash", "SbmlParser history %s -> %s" % ([pc.show(s) for s in ins], R), rep)
            else:
                ctx.violation("C18/sbml:stateful-parser", "SbmlParser history %s: reused %s, fresh %s" % (
                    [pc.show(s) for s in ins], R, F), rep)


def replay(ctx, rep):
    drv, model = pc.prepare(ctx)
    r = rep["replay"]
    ins = [pc.unhx(h) for h in r["inputs"]]
    if r.get("family") == "C18-sbml":
        print(ctx.run_lines(drv, ["B " + ",".join(h or "-" for h in r["inputs"])])[0])
        return
    d = run_H(ctx, drv, model, [(r["conv"], ins)])[0]
    print("inputs :", [pc.show(s) for s in ins], "convert_xor =", r["conv"])
    for k in ("R", "RES", "F", "M", "MRES", "flag"):
        print("%-5s : %s" % (k, d.get(k)))
