#!/usr/bin/env python3
"""Regenerates coq/C15/GenCNames.v from the C code printers' sources:
  * symengine/printers/strprinter.cpp  init_str_printer_names()  (type code -> function name),
  * symengine/printers/codegen.cpp     the bvisit methods of CodePrinter / C99CodePrinter that print
    a one-argument call  print_math_function("<name>") << "(" << apply(x.get_arg()) << ")",
    the Max/Min reductions, the math functions used by the two _print_pow methods, the macros
    printed for Infty / NaN and the texts printed for the constants E and pi,
  * symengine/visitor.h                the classes RewriteTrigVisitor rewrites.
Writes the file only when its content changes.  Exit 1 if the source shape is not recognised."""
import os
import re
import sys

REPO = os.environ.get("VERIF_REPO", "/repo")
ROOT = os.path.dirname(os.path.dirname(os.path.abspath(__file__)))
OUT = os.path.join(ROOT, "coq", "C15", "GenCNames.v")


def bl(s):
    return "[" + "; ".join(str(b) for b in s.encode()) + "]"


def body_of(src, header_re):
    """text of the function body whose header matches"""
    m = re.search(header_re, src)
    if not m:
        return None
    i = src.index("{", m.end() - 1)
    depth = 0
    for j in range(i, len(src)):
        if src[j] == "{":
            depth += 1
        elif src[j] == "}":
            depth -= 1
            if depth == 0:
                return src[i + 1:j]
    return None


def main():
    enum2cls = {}
    for line in open(os.path.join(REPO, "symengine", "type_codes.inc")):
        m = re.match(r"^SYMENGINE_ENUM\(\s*([A-Z0-9_]+)\s*,\s*([A-Za-z0-9_]+)\s*\)$", line.strip())
        if m:
            enum2cls[m.group(1)] = m.group(2)
    sp = open(os.path.join(REPO, "symengine", "printers", "strprinter.cpp")).read()
    body = body_of(sp, r"std::vector<std::string>\s+init_str_printer_names\(\)\s*\{")
    if body is None:
        print("tr_ccode: init_str_printer_names not found")
        return 1
    names = {}
    order = []
    for m in re.finditer(r"names\[(SYMENGINE_[A-Z0-9_]+)\]\s*=\s*\"([^\"]*)\";", body):
        if m.group(1) not in enum2cls:
            print("tr_ccode: unknown enum %s" % m.group(1))
            return 1
        cls = enum2cls[m.group(1)]
        if cls not in names:
            order.append(cls)
        names[cls] = m.group(2)
    if len(order) < 40:
        print("tr_ccode: too few printer names")
        return 1
    cg = open(os.path.join(REPO, "symengine", "printers", "codegen.cpp")).read()
    one_arg = {"CodePrinter": [], "C99CodePrinter": []}
    for m in re.finditer(r"void (CodePrinter|C99CodePrinter)::bvisit\(const (\w+) &x\)\s*\{", cg):
        b = body_of(cg[m.start():], r"\{")
        mm = re.search(r"s << print_math_function\(\"(\w+)\"\) << \"\(\" << apply\(x\.get_arg\(\)\)\s*<< \"\)\";", b)
        if mm:
            one_arg[m.group(1)].append((m.group(2), mm.group(1)))
    red = {}
    for cls in ("Max", "Min"):
        b = body_of(cg, r"void CodePrinter::bvisit\(const %s &x\)\s*\{" % cls)
        mm = b and re.search(r"print_binary_reduction\(x\.get_args\(\), print_math_function\(\"(\w+)\"\)\)", b)
        if not mm:
            print("tr_ccode: %s reduction not recognised" % cls)
            return 1
        red[cls] = mm.group(1)
    pows = {}
    for pr in ("C89CodePrinter", "C99CodePrinter"):
        b = body_of(cg, r"void %s::_print_pow\(" % pr)
        if b is None:
            print("tr_ccode: %s::_print_pow not found" % pr)
            return 1
        pows[pr] = re.findall(r"print_math_function\(\"(\w+)\"\)", b)
    if pows["C89CodePrinter"] != ["exp", "sqrt", "pow"] or pows["C99CodePrinter"] != ["exp", "sqrt", "cbrt", "pow"]:
        print("tr_ccode: unexpected _print_pow shape %r" % pows)
        return 1
    inf = {}
    for pr in ("C89CodePrinter", "C99CodePrinter"):
        b = body_of(cg, r"void %s::bvisit\(const Infty &x\)\s*\{" % pr)
        mm = b and re.findall(r"s << \"(-?\w+)\";", b)
        if not mm or len(mm) != 2 or mm[0] != "-" + mm[1]:
            print("tr_ccode: %s Infty not recognised" % pr)
            return 1
        inf[pr] = mm[1]
    b = body_of(cg, r"void CodePrinter::bvisit\(const NaN &x\)\s*\{")
    mm = b and re.search(r"s << \"(\w+)\";", b)
    if not mm:
        print("tr_ccode: NaN not recognised")
        return 1
    nan = mm.group(1)
    b = body_of(cg, r"void CodePrinter::bvisit\(const Constant &x\)\s*\{")
    mm = b and re.findall(r"print_math_function\(\"(\w+)\"\)[^:]*:\s*\"(\w+)\((-?\d+)\)\"", b)
    if not mm or len(mm) != 2 or any(f != g for f, g, _ in mm):
        print("tr_ccode: Constant not recognised")
        return 1
    const_e, const_pi = mm[0], mm[1]
    vh = open(os.path.join(REPO, "symengine", "visitor.h")).read()
    i = vh.find("class RewriteTrigVisitor")
    j = vh.find("\n};", i)
    rewr = re.findall(r"void visit\(const (\w+) &x\) override", vh[i:j])
    if len(rewr) != 12:
        print("tr_ccode: RewriteTrigVisitor shape not recognised")
        return 1

    out = []
    out.append("(* GENERATED by translators/tr_ccode.py from symengine/printers/strprinter.cpp, codegen.cpp and")
    out.append("   visitor.h -- do not edit. *)")
    out.append("From SE Require Import Gen.TypeCodes.")
    out.append("From Coq Require Import List NArith ZArith.")
    out.append("Import ListNotations.")
    out.append("Local Open Scope N_scope.")
    out.append("")
    out.append("(* init_str_printer_names: type code -> name (bytes) *)")
    out.append("Definition str_names : list (N * list N) := [")
    out.append(";\n".join("  (TC_%s, %s)   (* %s *)" % (c, bl(names[c]), names[c]) for c in order).replace(")   (*", ")  (*"))
    out.append("].")
    out.append("")
    for pr, nm in (("CodePrinter", "code_one_arg"), ("C99CodePrinter", "c99_one_arg")):
        out.append("(* %s::bvisit methods printing  print_math_function(name)(arg) *)" % pr)
        out.append("Definition %s : list (N * list N) := [" % nm)
        out.append(";\n".join("  (TC_%s, %s)" % (c, bl(n)) for c, n in one_arg[pr]))
        out.append("].")
        out.append("")
    out.append("Definition name_fmax : list N := %s." % bl(red["Max"]))
    out.append("Definition name_fmin : list N := %s." % bl(red["Min"]))
    out.append("Definition name_exp : list N := %s." % bl("exp"))
    out.append("Definition name_sqrt : list N := %s." % bl("sqrt"))
    out.append("Definition name_cbrt : list N := %s." % bl("cbrt"))
    out.append("Definition name_pow : list N := %s." % bl("pow"))
    out.append("Definition name_inf_c89 : list N := %s.   (* %s *)" % (bl(inf["C89CodePrinter"]), inf["C89CodePrinter"]))
    out.append("Definition name_inf_c99 : list N := %s.   (* %s *)" % (bl(inf["C99CodePrinter"]), inf["C99CodePrinter"]))
    out.append("Definition name_nan : list N := %s.   (* %s *)" % (bl(nan), nan))
    out.append("(* Constant E: name(int) in double precision *)")
    out.append("Definition const_E_fn : list N := %s.  Definition const_E_arg : Z := %s%%Z." % (bl(const_e[0]), "(%s)" % const_e[2]))
    out.append("Definition const_pi_fn : list N := %s.  Definition const_pi_arg : Z := %s%%Z." % (bl(const_pi[0]), "(%s)" % const_pi[2]))
    out.append("")
    out.append("(* classes rewritten by RewriteTrigVisitor before printing *)")
    out.append("Definition rewrite_trig_codes : list N := [%s]." % "; ".join("TC_" + c for c in rewr))
    txt = "\n".join(out) + "\n"
    if not os.path.exists(OUT) or open(OUT).read() != txt:
        os.makedirs(os.path.dirname(OUT), exist_ok=True)
        open(OUT, "w").write(txt)
        print("tr_ccode: regenerated %s" % OUT)
    return 0


if __name__ == "__main__":
    sys.exit(main())
