#!/usr/bin/env python3
"""Regenerates coq/Parse/Gen_Prec.v and coq/Parse/Gen_Names.v from the parser and printer sources:

  symengine/parser/parser.yy      %left/%right/%nonassoc lines (precedence table, in order),
                                  %prec annotations of the unary rules, the list of `expr`
                                  productions (shape check) and the constructor each binary rule calls
  symengine/parser/tokenizer.re   the regex block (shape check) and the operator / whitespace classes
  symengine/parser/parser.cpp     the name tables of functionify / parse_identifier and the base
                                  argument of strtol in parse_numeric
  symengine/parser/sbml/sbml_parser.yy   precedence table of the SBML grammar
  symengine/printers/strprinter.cpp      names_[SYMENGINE_X] = "..." table
  symengine/printers/strprinter.h        enum class PrecedenceEnum
  symengine/type_codes.inc        SYMENGINE_X -> class name

Files are written only when their content changes.  Exit 1 (a broken tie) when a source no longer
has the recognised shape."""
import os
import re
import sys

REPO = os.environ.get("VERIF_REPO", "/repo")
ROOT = os.path.dirname(os.path.dirname(os.path.abspath(__file__)))
OUTDIR = os.path.join(ROOT, "coq", "Parse")


class Bad(Exception):
    pass


def read(rel):
    return open(os.path.join(REPO, rel), encoding="utf-8", errors="replace").read()


def strip_c_comments(s):
    s = re.sub(r"/\*.*?\*/", " ", s, flags=re.S)
    s = re.sub(r"//[^\n]*", " ", s)
    return s


TOKNAME = {
    "'|'": "K_OR", "'^'": "K_XOR", "'&'": "K_AND", "EQ": "K_EQ", "'>'": "K_GT", "'<'": "K_LT",
    "NE": "K_NE", "LE": "K_LE", "GE": "K_GE", "'-'": "K_MINUS", "'+'": "K_PLUS", "'*'": "K_STAR",
    "'/'": "K_SLASH", "UMINUS": "K_UMINUS", "UPLUS": "K_UPLUS", "POW": "K_POW", "NOT": "K_NOT",
    "'('": "K_LPAREN", "'%'": "K_PERCENT", "'!'": "K_BANG", "AND": "K_AND", "OR": "K_OR",
}
ASSOC = {"%left": "AssocLeft", "%right": "AssocRight", "%nonassoc": "AssocNon"}


def prec_lines(yy):
    rows = []
    head = yy.split("%%")[0]
    for line in strip_c_comments(head).splitlines():
        s = line.strip()
        m = re.match(r"^(%left|%right|%nonassoc)\s+(.*)$", s)
        if not m:
            continue
        toks = m.group(2).split()
        for t in toks:
            if t not in TOKNAME:
                raise Bad("parser.yy: unknown terminal %r in precedence line %r" % (t, s))
        rows.append((ASSOC[m.group(1)], [TOKNAME[t] for t in toks]))
    if len(rows) < 5:
        raise Bad("precedence declarations not found")
    return rows


# the `expr`/`leaf`/`func` productions the reference parser (Parse/ParseModel.v) implements
EXPECTED_RULES = [
    "expr '+' expr", "expr '-' expr", "expr '*' expr", "expr '/' expr", "IMPLICIT_MUL POW expr",
    "expr POW expr", "expr '<' expr", "expr '>' expr", "expr NE expr", "expr LE expr", "expr GE expr",
    "expr EQ expr", "expr '|' expr", "expr '&' expr", "expr '^' expr", "'(' expr ')'",
    "'-' expr %prec UMINUS", "'+' expr %prec UPLUS", "'~' expr %prec NOT", "leaf",
]
EXPECTED_OTHER = {
    "st_expr": ["expr"],
    "leaf": ["IDENTIFIER", "IMPLICIT_MUL", "NUMERIC", "func", "pwise"],
    "func": ["IDENTIFIER '(' expr_list ')'"],
    "epair": ["'(' expr ',' expr ')'"],
    "piecewise_list": ["piecewise_list ',' epair", "epair"],
    "pwise": ["PIECEWISE '(' piecewise_list ')'"],
    "expr_list": ["expr_list ',' expr", "expr"],
}


def split_rules(yy):
    """nonterminal -> list of (production text, action text)"""
    body = yy.split("%%")[1]
    body = strip_c_comments(body)
    # remove action blocks, remembering them
    rules = {}
    i = 0
    n = len(body)
    cur = None
    prod = ""
    actions = []

    def flush():
        nonlocal prod, actions
        if cur is not None:
            p = " ".join(prod.split())
            if p or actions:
                rules.setdefault(cur, []).append((p, " ".join(actions)))
        prod = ""
        actions = []

    while i < n:
        c = body[i]
        if c == "{":
            depth = 0
            j = i
            while j < n:
                if body[j] == "{":
                    depth += 1
                elif body[j] == "}":
                    depth -= 1
                    if depth == 0:
                        break
                elif body[j] == "'" and j + 2 < n and body[j + 2] == "'":
                    j += 2
                j += 1
            actions.append(" ".join(body[i:j + 1].split()))
            i = j + 1
        elif c == "'" and i + 2 < n and body[i + 2] == "'":
            prod += body[i:i + 3]
            i += 3
        elif c == "|":
            flush()
            i += 1
        elif c == ";":
            flush()
            cur = None
            i += 1
        elif c == ":" and cur is None:
            cur = prod.strip()
            prod = ""
            i += 1
        else:
            prod += c
            i += 1
    return rules


def grammar(yy):
    rules = split_rules(yy)
    got = [p for p, _ in rules.get("expr", [])]
    if got != EXPECTED_RULES:
        raise Bad("parser.yy: the productions of `expr` changed:\n  expected %r\n  found    %r" % (EXPECTED_RULES, got))
    for nt, exp in EXPECTED_OTHER.items():
        g = [p for p, _ in rules.get(nt, [])]
        if g != exp:
            raise Bad("parser.yy: the productions of `%s` changed: expected %r, found %r" % (nt, exp, g))
    acts = dict(rules["expr"])
    binact = []
    logical_checked = []
    simple = {
        "expr '+' expr": "BAdd", "expr '-' expr": "BSub", "expr '*' expr": "BMul", "expr '/' expr": "BDiv",
        "expr POW expr": "BPow", "expr '<' expr": "BLt", "expr '>' expr": "BGt", "expr NE expr": "BNe",
        "expr LE expr": "BLe", "expr GE expr": "BGe", "expr EQ expr": "BEq",
    }
    for p, bop in simple.items():
        a = acts[p]
        m = re.match(r"^\{ \$\$ = (?:rcp_static_cast<const Basic>\()?(\w+)\(\$1, \$3\)\)?; \}$", a)
        if not m:
            raise Bad("parser.yy: action of `%s` not recognised: %s" % (p, a))
        binact.append((bop, m.group(1)))
    for p, bop in (("expr '|' expr", "BOr"), ("expr '&' expr", "BAnd"), ("expr '^' expr", "BXor")):
        a = acts[p]
        m = re.search(r"\$\$ = rcp_static_cast<const Basic>\((logical_\w+)\(s\)\);", a)
        if not m or "$1" not in a or "$3" not in a or a.index("$1") > a.index("$3"):
            raise Bad("parser.yy: action of `%s` not recognised: %s" % (p, a))
        logical_checked.append("parser_boolean_operand" in a)
        binact.append((bop, m.group(1)))
    una = []
    a = acts["'-' expr %prec UMINUS"]
    if a != "{ $$ = neg($2); }":
        raise Bad("unary minus action: " + a)
    a = acts["'+' expr %prec UPLUS"]
    if a != "{ $$ = $2; }":
        raise Bad("unary plus action: " + a)
    a = acts["'~' expr %prec NOT"]
    if "logical_not(" not in a:
        raise Bad("not action: " + a)
    logical_checked.append("parser_boolean_operand" in a)
    if len(set(logical_checked)) != 1:
        raise Bad("parser.yy: some logical operators check their operands and some do not: %r" % logical_checked)
    a = acts["'(' expr ')'"]
    if a != "{ $$ = $2; }":
        raise Bad("paren action: " + a)
    a = acts["IMPLICIT_MUL POW expr"]
    want = ("{ auto tup = p.parse_implicit_mul($1); if (neq(*std::get<1>(tup), *one)) { $$ = mul(std::get<0>(tup), "
            "pow(std::get<1>(tup), $3)); } else { $$ = pow(std::get<0>(tup), $3); } }")
    if a != want:
        raise Bad("IMPLICIT_MUL POW action: " + a)
    leaf = dict(rules["leaf"])
    if "mul(std::get<0>(tup), std::get<1>(tup))" not in leaf["IMPLICIT_MUL"]:
        raise Bad("leaf IMPLICIT_MUL action: " + leaf["IMPLICIT_MUL"])
    ep = rules["epair"][0][1]
    if "is_a_Boolean(*logical_expr)" not in ep or "ParseError" not in ep:
        raise Bad("epair action: " + ep)
    st = rules["st_expr"][0][1]
    if st != "{ $$ = $1; p.res = $$; }":
        raise Bad("st_expr action: " + st)
    return binact, logical_checked[0]


EXPECTED_RE = """
end = "\\x00";
whitespace = [ \\t\\v\\n\\r]+;
dig = [0-9];
char = [\\x80-\\xff] | [a-zA-Z_];
operators = "-"|"+"|"/"|"("|")"|"*"|","|"^"|"~"|"<"|">"|"&"|"|";
pows = "**"|"@";
le = "<=";
ge = ">=";
ne = "!=";
eqs = "==";
ident = char (char | dig)*;
pwise = "Piecewise";
numeric = (dig*"."?dig+([eE][-+]?dig+)?) | (dig+".");
implicitmul = numeric ident;
* { throw SymEngine::ParseError("Unknown token: '"+token()+"'"); }
end { return yy::parser::token::yytokentype::END_OF_FILE; }
whitespace { continue; }
operators { return tok[0]; }
pows { return yy::parser::token::yytokentype::POW; }
le { return yy::parser::token::yytokentype::LE; }
ge { return yy::parser::token::yytokentype::GE; }
ne { return yy::parser::token::yytokentype::NE; }
eqs { return yy::parser::token::yytokentype::EQ; }
pwise { yylval->emplace<std::string>() = token(); return yy::parser::token::yytokentype::PIECEWISE; }
ident { yylval->emplace<std::string>() = token(); return yy::parser::token::yytokentype::IDENTIFIER; }
numeric { yylval->emplace<std::string>() = token(); return yy::parser::token::yytokentype::NUMERIC; }
implicitmul { yylval->emplace<std::string>() = token(); return yy::parser::token::yytokentype::IMPLICIT_MUL; }
"""


def norm_lines(s):
    out = []
    for line in s.splitlines():
        t = " ".join(line.split())
        if t and not t.startswith("//") and not t.startswith("re2c:"):
            out.append(t)
    return out


def tokenizer(re_src):
    m = re.search(r"/\*!re2c(.*?)\*/", re_src, re.S)
    if not m:
        raise Bad("tokenizer.re: re2c block not found")
    got = norm_lines(m.group(1))
    exp = norm_lines(EXPECTED_RE)
    if got != exp:
        diff = [(g, e) for g, e in zip(got, exp) if g != e][:3]
        raise Bad("tokenizer.re: the regex block changed (the lexer model in Parse/Lexer.v transcribes the known one): %r" % (diff or (len(got), len(exp))))
    ops = re.findall(r'"(.)"', [l for l in got if l.startswith("operators =")][0])
    ws = {"\\t": 9, "\\v": 11, "\\n": 10, "\\r": 13}
    wline = [l for l in got if l.startswith("whitespace =")][0]
    inner = wline[wline.index("[") + 1:wline.index("]")]
    wsl = []
    i = 0
    while i < len(inner):
        if inner[i] == "\\":
            wsl.append(ws[inner[i:i + 2]])
            i += 2
        else:
            wsl.append(ord(inner[i]))
            i += 1
    return [ord(c) for c in ops], wsl


def table(src, anchor, what):
    """entries {"name", [cast]func} of the initializer list that follows `anchor`"""
    i = src.find(anchor)
    if i < 0:
        raise Bad("parser.cpp: %s not found" % what)
    j = src.index("= {", i)
    depth = 0
    k = j + 2
    while True:
        if src[k] == "{":
            depth += 1
        elif src[k] == "}":
            depth -= 1
            if depth == 0:
                break
        k += 1
    body = src[j + 3:k]
    ents = re.findall(r'\{\s*"([^"]+)"\s*,\s*(?:\([A-Za-z_]+\)\s*)?([A-Za-z_0-9]+)\s*\}', body)
    rest = re.sub(r'\{\s*"([^"]+)"\s*,\s*(?:\([A-Za-z_]+\)\s*)?([A-Za-z_0-9]+)\s*\}', "", body)
    if rest.replace(",", "").strip():
        raise Bad("parser.cpp: %s has entries of unknown shape: %r" % (what, rest.strip()[:80]))
    if not ents:
        raise Bad("parser.cpp: %s is empty" % what)
    return ents


def coq_str(s):
    if '"' in s or "\\" in s:
        raise Bad("unexpected character in name %r" % s)
    return 'b "%s"' % s


def emit_table(name, ents, comment):
    rows = ";\n".join("  (%s, %s)" % (coq_str(a), coq_str(f)) for a, f in ents)
    return "(* %s *)\nDefinition %s : list (list N * list N) := Eval compute in [\n%s\n].\n" % (comment, name, rows)


def write_if_changed(path, txt):
    if not os.path.exists(path) or open(path).read() != txt:
        os.makedirs(os.path.dirname(path), exist_ok=True)
        open(path, "w").write(txt)
        print("tr_grammar: regenerated " + path)


def main():
    try:
        yy = read("symengine/parser/parser.yy")
        rows = prec_lines(yy)
        binact, not_checked = grammar(yy)
        ops, wsl = tokenizer(read("symengine/parser/tokenizer.re"))
        sb = prec_lines(read("symengine/parser/sbml/sbml_parser.yy"))
        cpp = strip_c_comments(read("symengine/parser/parser.cpp"))
        m = re.search(r"long\s+l\s*=\s*std::strtol\(\s*startptr\s*,\s*&lendptr\s*,\s*(\d+)\s*\)", cpp)
        if not m:
            raise Bad("parser.cpp: the strtol call of parse_numeric not found")
        base = int(m.group(1))
        pn = cpp[cpp.index("Parser::parse_numeric"):cpp.index("Parser::parse_implicit_mul")]
        for needle in ("expr.find_first_of('.') == std::string::npos", "lendptr == startptr + expr.length()",
                       "errno != ERANGE", "return integer(l);", "return integer(integer_class(expr));",
                       "fast_float::from_chars(startptr, startptr + expr.size(), d);", "return real_double(d);"):
            if needle not in pn:
                raise Bad("parser.cpp: parse_numeric no longer contains `%s`" % needle)
        t_single = table(cpp, "init_parser_single_arg_functions()\n{", "single-arg table")
        t_double = table(cpp, "double_arg_functions", "double-arg table")
        t_multi = table(cpp, "multi_arg_functions", "multi-arg table")
        t_sb = table(cpp, "single_arg_boolean_functions", "single-arg boolean table")
        t_sbb = table(cpp, "single_arg_boolean_boolean_functions", "single-arg boolean-boolean table")
        t_db = table(cpp, "double_arg_boolean_functions", "double-arg boolean table")
        t_mv = table(cpp, "multi_arg_vec_boolean_functions", "vec-boolean table")
        t_ms = table(cpp, "multi_arg_set_boolean_functions", "set-boolean table")
        t_const = table(cpp, "parser_constants", "constants table")
        # printer
        sp = strip_c_comments(read("symengine/printers/strprinter.cpp"))
        i0 = sp.index("init_str_printer_names()")
        i1 = sp.index("return names;", i0)
        pnames = re.findall(r'names\[(SYMENGINE_[A-Z0-9_]+)\]\s*=\s*"([^"]*)";', sp[i0:i1])
        if len(pnames) < 40:
            raise Bad("strprinter.cpp: names_ table not recognised")
        enum2cls = dict(re.findall(r"SYMENGINE_ENUM\(\s*([A-Z0-9_]+)\s*,\s*([A-Za-z0-9_]+)\s*\)", read("symengine/type_codes.inc")))
        relp = []
        for cls, op in (("Equality", "=="), ("Unequality", "!="), ("LessThan", "<="), ("StrictLessThan", "<")):
            mm = re.search(r"void StrPrinter::bvisit\(const %s &x\)\s*\{(.*?)\n\}" % cls, sp, re.S)
            if not mm:
                raise Bad("strprinter.cpp: bvisit(%s) not found" % cls)
            body = " ".join(mm.group(1).split())
            plain = 's << apply(x.get_arg1()) << " %s " << apply(x.get_arg2());' % op
            par = ('s << parenthesizeLE(x.get_arg1(), PrecedenceEnum::Relational) << " %s " '
                   '<< parenthesizeLE(x.get_arg2(), PrecedenceEnum::Relational);') % op
            if plain in body:
                relp.append(False)
            elif par in body:
                relp.append(True)
            else:
                raise Bad("strprinter.cpp: bvisit(%s) not recognised: %s" % (cls, body))
        if len(set(relp)) != 1:
            raise Bad("strprinter.cpp: relational printers differ in parenthesization")
        # Precedence of Infty: the default (Atom) unless there is a visitor for it
        mm = re.search(r"void Precedence::bvisit\(const Infty &x\)\s*\{(.*?)\n\}", sp, re.S)
        if mm is None:
            infty_by_sign = False
        else:
            body = " ".join(mm.group(1).split())
            want = ("if (x.is_negative_infinity()) { precedence = PrecedenceEnum::Mul; } else { "
                    "precedence = PrecedenceEnum::Atom; }")
            if body != want:
                raise Bad("strprinter.cpp: Precedence::bvisit(const Infty &) not recognised: " + body)
            infty_by_sign = True
        ph = read("symengine/printers/strprinter.h")
        m = re.search(r"enum class PrecedenceEnum \{([^}]*)\}", ph)
        if not m:
            raise Bad("strprinter.h: PrecedenceEnum not found")
        penum = [x.strip() for x in m.group(1).split(",") if x.strip()]
        if sorted(penum) != sorted(["Relational", "Add", "Mul", "Pow", "Atom"]):
            raise Bad("strprinter.h: PrecedenceEnum members changed: %r" % penum)
    except Bad as e:
        print("tr_grammar: " + str(e))
        return 1
    except (OSError, ValueError, KeyError, IndexError) as e:
        print("tr_grammar: source not readable in the expected shape: %r" % e)
        return 1

    out = []
    out.append("(* GENERATED by translators/tr_grammar.py from symengine/parser/parser.yy, tokenizer.re,")
    out.append("   sbml/sbml_parser.yy -- do not edit. *)")
    out.append("From SE Require Import Parse.Tokens.")
    out.append("Local Open Scope N_scope.")
    out.append("")
    out.append("(* the %left / %right / %nonassoc lines of parser.yy, lowest precedence first *)")
    out.append("Definition prec_table : list (assoc * list tk) := [")
    out.append(";\n".join("  (%s, [%s])" % (a, "; ".join(ts)) for a, ts in rows))
    out.append("].")
    out.append("")
    out.append("(* the same for sbml/sbml_parser.yy *)")
    out.append("Definition sbml_prec_table : list (assoc * list tk) := [")
    out.append(";\n".join("  (%s, [%s])" % (a, "; ".join(ts)) for a, ts in sb))
    out.append("].")
    out.append("")
    out.append("(* tokenizer.re: operators = ... and whitespace = [...]+ *)")
    out.append("Definition operator_bytes : list N := [%s]." % "; ".join(str(c) for c in ops))
    out.append("Definition whitespace_bytes : list N := [%s]." % "; ".join(str(c) for c in wsl))
    out.append("")
    out.append("(* the library function each binary production calls on ($1, $3) *)")
    out.append("Definition bin_action_table : list (list N * list N) := Eval compute in [")
    out.append(";\n".join("  (%s, %s)" % (coq_str(k), coq_str(f)) for k, f in binact))
    out.append("].")
    out.append("(* do the actions of | & ^ ~ test is_a_Boolean before casting their operands to Boolean? *)")
    out.append("Definition logical_operands_checked : bool := %s." % ("true" if not_checked else "false"))
    write_if_changed(os.path.join(OUTDIR, "Gen_Prec.v"), "\n".join(out) + "\n")

    out = []
    out.append("(* GENERATED by translators/tr_grammar.py from symengine/parser/parser.cpp,")
    out.append("   symengine/printers/strprinter.cpp/.h and symengine/type_codes.inc -- do not edit. *)")
    out.append("From SE Require Import Parse.Tokens Gen.TypeCodes.")
    out.append("Local Open Scope N_scope.")
    out.append("")
    out.append("(* Parser::parse_numeric: the base argument of std::strtol *)")
    out.append("Definition strtol_base : N := %d." % base)
    out.append("")
    out.append(emit_table("single_arg_functions", t_single, "name accepted by the parser |-> library function (one argument)"))
    out.append(emit_table("double_arg_functions", t_double, "two arguments"))
    out.append(emit_table("multi_arg_functions", t_multi, "any number of arguments"))
    out.append(emit_table("single_arg_boolean_functions", t_sb, "one argument, Boolean result"))
    out.append(emit_table("single_arg_boolean_boolean_functions", t_sbb, "one Boolean argument (checked)"))
    out.append(emit_table("double_arg_boolean_functions", t_db, "two arguments, Boolean result"))
    out.append(emit_table("multi_arg_vec_boolean_functions", t_mv, "vec_boolean argument (checked)"))
    out.append(emit_table("multi_arg_set_boolean_functions", t_ms, "set_boolean argument (checked)"))
    out.append(emit_table("parser_constants", t_const, "Parser::parse_identifier: identifier |-> library constant"))
    out.append("(* StrPrinter: names_[type code] for Function subclasses *)")
    out.append("Definition printer_names : list (N * list N) := Eval compute in [")
    prow = []
    seen = set()
    for enum, nm in pnames:
        if enum not in enum2cls:
            print("tr_grammar: strprinter.cpp names_ uses unknown type code " + enum)
            return 1
        if enum in seen:
            prow = [r for r in prow if not r.startswith("  (TC_%s," % enum2cls[enum])]
        seen.add(enum)
        prow.append("  (TC_%s, %s)" % (enum2cls[enum], coq_str(nm)))
    out.append(";\n".join(prow))
    out.append("].")
    out.append("")
    out.append("(* enum class PrecedenceEnum, in declaration order *)")
    for i, nm in enumerate(penum):
        out.append("Definition PREC_%s : N := %d." % (nm, i))
    out.append("")
    out.append("(* do the relational printers parenthesize operands of precedence <= Relational? *)")
    out.append("Definition relational_operands_parenthesized : bool := %s." % ("true" if relp[0] else "false"))
    out.append("")
    out.append("(* is there a Precedence visitor for Infty giving a negative infinity the precedence Mul? *)")
    out.append("Definition infty_precedence_by_sign : bool := %s." % ("true" if infty_by_sign else "false"))
    write_if_changed(os.path.join(OUTDIR, "Gen_Names.v"), "\n".join(out) + "\n")
    return 0


if __name__ == "__main__":
    sys.exit(main())
