#!/usr/bin/env python3
"""Regenerates coq/C42/Gen_CWrap.v from <repo>/symengine/cwrapper.cpp, <repo>/symengine/expression.h and
the hand-written C++-API mirror table of harness/c42_driver.cpp.

cwrapper.cpp.  Every function defined inside an `extern "C" { ... }` block becomes one `cfun` record:

  * the definitions of CWRAPPER_BEGIN / CWRAPPER_END are emitted as text (the model records the text it transcribes:
    SymEngineException -> e.error_code(), anything else -> SYMENGINE_RUNTIME_ERROR);
  * the IMPLEMENT_* function-generating macros are expanded with their definitions from the file (so a change to
    a macro body is a change to every function it generates); CWRAPPER_BEGIN / CWRAPPER_END stay tokens;
  * preprocessor conditionals are dropped and BOTH branches kept (the table covers every build configuration);
  * cf_wrap:   WFull  = the body is `<guards/asserts> CWRAPPER_BEGIN ... CWRAPPER_END` with nothing after it,
               WNull  = `try { ... } catch (SymEngineException &) { return nullptr; } catch (...) { return nullptr; }`,
               WNone  = no try block;
  * cf_guards: the `if (not is_a_X(p) [or not is_a_Y(q)]) return SYMENGINE_RUNTIME_ERROR;` statements in front of
    the try block; cf_asserts: the SYMENGINE_ASSERT(is_a...(p)) type preconditions (compiled out in release builds);
  * cf_zguards: `if (p == 0) { return SYMENGINE_X; }` tests of a scalar parameter at the head of the protected part;
  * cf_calls_out: every function / method / constructor named OUTSIDE the try block (for WNone: anywhere in the body),
    SYMENGINE_ASSERT arguments excluded -- these are the calls whose exceptions would leave the extern "C" function;
  * the forward shape: when the (protected part of the) body is ONE statement
        basic_rcp(out) = E;     out->m = E;     return E;    E;
    E is normalised (SymEngine:: / basic_rcp() / rcp_static_cast / down_cast / dereferences / `->m` / redundant
    parentheses removed), every occurrence of a parameter is replaced by `$` and the positions are recorded:
        basic_sub  ->  cf_out = OParam 0, cf_tmpl = "sub($,$)", cf_args = [1; 2]
    Bodies of any other shape get cf_tmpl = "" ;
  * cf_fp: sha1 of the body without comments and white space, for the bodies that coq/C42/CWrapModel.v transcribes by
    hand (the model records the fingerprints it was written against).

expression.h.  Every operator / named method of class Expression whose body is `return Expression(f(args));`,
`m_basic = f(args); return *this;`, `return f(args);` becomes a row (name, variant, template, argument order).

harness/c42_driver.cpp.  The lines `MIRROR("c_name", "template", {arg order}, ...)` of the driver's hand-written
C++-API mirror are the EXPECTED plumbing; they are emitted as `expected_table` so that the Coq theorem cwrap_agrees
compares the table read from the code with the table the independent mirror implements.

Exit 1 when a shape is not recognised.  The file is rewritten only when its content changes."""
import hashlib
import os
import re
import sys

REPO = os.environ.get("VERIF_REPO", "/repo")
ROOT = os.path.dirname(os.path.dirname(os.path.abspath(__file__)))
OUT = os.path.join(ROOT, "coq", "C42", "Gen_CWrap.v")
DRIVER = os.path.join(ROOT, "harness", "c42_driver.cpp")

KEYWORDS = {"if", "for", "while", "return", "sizeof", "switch", "catch", "not", "or", "and", "alignof",
            "static_cast", "reinterpret_cast", "const_cast", "dynamic_cast", "defined", "throw", "delete", "else"}
# wrappers that only adapt the representation of an argument (no C++-API semantics of their own)
ADAPTERS = ["rcp_static_cast", "down_cast", "numeric_cast", "static_cast"]


# symengine_exception.h
ERROR_CODES = {"SYMENGINE_NO_EXCEPTION": 0, "SYMENGINE_RUNTIME_ERROR": 1, "SYMENGINE_DIV_BY_ZERO": 2,
               "SYMENGINE_NOT_IMPLEMENTED": 3, "SYMENGINE_DOMAIN_ERROR": 4, "SYMENGINE_PARSE_ERROR": 5,
               "SYMENGINE_SERIALIZATION_ERROR": 6}


class Bad(Exception):
    pass


def strip_comments(s):
    out = []
    i, n = 0, len(s)
    while i < n:
        if s.startswith("//", i):
            j = s.find("\n", i)
            i = n if j < 0 else j
        elif s.startswith("/*", i):
            j = s.find("*/", i + 2)
            i = n if j < 0 else j + 2
        elif s[i] == '"':
            j = i + 1
            while j < n and s[j] != '"':
                j += 2 if s[j] == "\\" else 1
            out.append(s[i:j + 1])
            i = j + 1
        elif s[i] == "'":
            j = i + 1
            while j < n and s[j] != "'":
                j += 2 if s[j] == "\\" else 1
            out.append(s[i:j + 1])
            i = j + 1
        else:
            out.append(s[i])
            i += 1
    return "".join(out)


def match_paren(s, i, op="(", cl=")"):
    """index of the bracket closing the one at s[i]"""
    depth = 0
    n = len(s)
    j = i
    while j < n:
        c = s[j]
        if c == '"':
            j += 1
            while j < n and s[j] != '"':
                j += 2 if s[j] == "\\" else 1
        elif c == op:
            depth += 1
        elif c == cl:
            depth -= 1
            if depth == 0:
                return j
        j += 1
    raise Bad("unbalanced %s at %d: %r" % (op, i, s[i:i + 60]))


def split_top(s, sep=","):
    """split at top-level separators (outside (), {}, [], <> of templates is NOT tracked: callers strip templates first)"""
    parts, depth, cur = [], 0, []
    i, n = 0, len(s)
    while i < n:
        c = s[i]
        if c == '"':
            j = i + 1
            while j < n and s[j] != '"':
                j += 2 if s[j] == "\\" else 1
            cur.append(s[i:j + 1])
            i = j + 1
            continue
        if c in "({[":
            depth += 1
        elif c in ")}]":
            depth -= 1
        if c == sep and depth == 0:
            parts.append("".join(cur))
            cur = []
        else:
            cur.append(c)
        i += 1
    parts.append("".join(cur))
    return parts


# ------------------------------------------------------------------ preprocessing

def read_macros(src):
    """function-like macros whose name starts with IMPLEMENT_: name -> (params, body)"""
    macros = {}
    lines = src.split("\n")
    i = 0
    keep = []
    while i < len(lines):
        ln = lines[i]
        m = re.match(r"^\s*#\s*define\s+(\w+)(\(([^)]*)\))?(.*)$", ln)
        if m:
            body = m.group(4)
            while body.rstrip().endswith("\\"):
                body = body.rstrip()[:-1] + "\n"
                i += 1
                body += lines[i]
            name = m.group(1)
            if name in ("CWRAPPER_BEGIN", "CWRAPPER_END"):
                macros["#" + name] = ([], "".join(body.split()))
            if name.startswith("IMPLEMENT_"):
                if m.group(2) is None:
                    raise Bad("IMPLEMENT_ macro without parameters: " + name)
                macros[name] = ([p.strip() for p in m.group(3).split(",")], body)
            i += 1
            continue
        if re.match(r"^\s*#", ln):
            # other preprocessor lines (conditionals, includes, undef) are dropped: both branches stay
            while lines[i].rstrip().endswith("\\"):
                i += 1
            i += 1
            continue
        keep.append(ln)
        i += 1
    return macros, "\n".join(keep)


def expand_macros(txt, macros):
    for _ in range(4):
        changed = False
        for name, (params, body) in macros.items():
            if name.startswith("#"):
                continue
            pat = re.compile(r"\b" + name + r"\s*\(")
            pos = 0
            out = []
            while True:
                m = pat.search(txt, pos)
                if not m:
                    out.append(txt[pos:])
                    break
                end = match_paren(txt, m.end() - 1)
                args = [a.strip() for a in split_top(txt[m.end():end])]
                if len(args) != len(params):
                    raise Bad("macro %s called with %d arguments" % (name, len(args)))
                b = body
                for p, a in zip(params, args):
                    b = re.sub(r"\s*##\s*" + p + r"\b", a, b)
                    b = re.sub(r"\b" + p + r"\s*##\s*", a, b)
                    b = re.sub(r"\b" + p + r"\b", a, b)
                out.append(txt[pos:m.start()])
                out.append(b)
                pos = end + 1
                changed = True
            txt = "".join(out)
        if not changed:
            break
    return txt


# ------------------------------------------------------------------ function extraction

def extern_c_blocks(txt):
    blocks = []
    for m in re.finditer(r'extern\s+"C"\s*\{', txt):
        end = match_paren(txt, m.end() - 1, "{", "}")
        blocks.append(txt[m.end():end])
    return blocks


def functions_of_block(blk):
    """top-level function definitions of an extern "C" block: (header, body)"""
    res = []
    i, n = 0, len(blk)
    start = 0
    while i < n:
        c = blk[i]
        if c == '"':
            j = i + 1
            while j < n and blk[j] != '"':
                j += 2 if blk[j] == "\\" else 1
            i = j + 1
            continue
        if c == ";":
            start = i + 1
        elif c == "{":
            end = match_paren(blk, i, "{", "}")
            header = " ".join(blk[start:i].split())
            if re.match(r"^(typedef\s+)?(struct|enum|union)\b", header) or header.startswith('extern "C++"') \
                    or header.startswith("namespace") or header == "":
                pass
            else:
                m = re.match(r"^(.*?)\b(\w+)\s*\((.*)\)$", header)
                if not m:
                    raise Bad("unrecognised top-level block header: %r" % header)
                res.append((m.group(1).strip(), m.group(2), m.group(3).strip(), blk[i + 1:end]))
            i = end + 1
            start = i
            continue
        i += 1
    return res


def ret_kind(t):
    t = " ".join(t.replace("static", "").replace("inline", "").split())
    if t == "CWRAPPER_OUTPUT_TYPE":
        return "RCode"
    if t == "void":
        return "RVoid"
    if t in ("int", "signed long", "unsigned long", "long", "unsigned long int", "TypeID"):
        return "RInt"
    if t in ("char *", "const char *"):
        return "RStr"
    if t == "size_t":
        return "RSize"
    return "ROther"


def param_kind(t):
    t = " ".join(t.replace("const", " ").replace("*", " * ").split())
    if t == "basic":
        return "PBasic"
    if t == "basic_struct *":
        return "PBasic"
    if t == "CVecBasic *":
        return "PVec"
    if t == "CSetBasic *":
        return "PSet"
    if t == "CMapBasicBasic *":
        return "PMap"
    if t == "CDenseMatrix *":
        return "PMat"
    if t == "CSparseMatrix *":
        return "PSMat"
    if t in ("long", "signed long", "long int", "unsigned long", "unsigned long int", "int", "unsigned", "unsigned int",
             "size_t", "TypeID"):
        return "PInt"
    if t == "double":
        return "PDouble"
    if t == "char *":
        return "PStr"
    return "POther"


def parse_params(ps):
    if ps in ("", "void"):
        return []
    res = []
    for p in split_top(ps):
        p = " ".join(p.split())
        m = re.match(r"^(.*?)(\w+)(\[\d*\])?$", p)
        if not m:
            raise Bad("parameter not recognised: %r" % p)
        ty, nm = m.group(1).strip(), m.group(2)
        if ty == "":
            raise Bad("parameter without a name: %r" % p)
        res.append((nm, param_kind(ty)))
    return res


def remove_asserts(body):
    """(body without SYMENGINE_ASSERT(...) statements, [assert texts])"""
    asserts = []
    out = []
    pos = 0
    for m in re.finditer(r"\bSYMENGINE_ASSERT\s*\(", body):
        if m.start() < pos:
            continue
        end = match_paren(body, m.end() - 1)
        asserts.append("".join(body[m.end():end].split()))
        out.append(body[pos:m.start()])
        pos = end + 1
        k = pos
        while k < len(body) and body[k] in " \n\t":
            k += 1
        if k < len(body) and body[k] == ";":
            pos = k + 1
    out.append(body[pos:])
    return "".join(out), asserts


def strip_templates(e):
    """drop template argument lists of the known adapter / predicate names:  down_cast<const T &>(x) -> down_cast(x)"""
    for _ in range(6):
        e2 = re.sub(r"\b(rcp_static_cast|down_cast|numeric_cast|static_cast|is_a|atoms)\s*<[^<>()]*>", r"\1", e)
        if e2 == e:
            break
        e = e2
    return e


def calls_in(text):
    """names of the functions / methods / constructors invoked in a piece of C++ text"""
    t = strip_templates(text)
    t = re.sub(r'"(\\.|[^"\\])*"', '""', t)
    names = []
    for m in re.finditer(r"(->|\.|::)?\s*\b([A-Za-z_]\w*)\s*(\(|\{)", t):
        name = m.group(2)
        pre = m.group(1) or ""
        if name in KEYWORDS:
            continue
        if m.group(3) == "{":
            # `Type{...}` initialisers only when directly preceded by `new` or `(` : rare; skip plain blocks
            continue
        # qualified name: collect the SymEngine-relative path  A::B::name
        k = m.start()
        qual = ""
        mm = re.search(r"((?:[A-Za-z_]\w*::)+)$", t[:m.start(2)])
        if mm:
            qual = mm.group(1)
        qual = qual.replace("SymEngine::", "").replace("std::", "std::")
        if pre in ("->", "."):
            names.append("." + name)
        else:
            names.append(qual + name)
    # operator new / delete and container indexing are calls too
    if re.search(r"\bnew\b", t):
        names.append("new")
    if re.search(r"\bdelete\b", t):
        names.append("delete")
    if re.search(r"\]\s*=|\w\s*\[[^\]]+\]", t) and re.search(r"->m\s*\[|\bnames\s*\[|\)\s*\[", t):
        names.append("operator[]")
    seen = []
    for x in names:
        if x not in seen:
            seen.append(x)
    return seen


# ---- a small parser for the C++ expression sub-language of the wrapper bodies

TEMPLATE_NAMES = {"rcp_static_cast", "down_cast", "numeric_cast", "static_cast", "reinterpret_cast", "is_a", "atoms",
                  "const_cast"}
ADAPTER_CALLS = {"basic_rcp", "rcp_static_cast", "down_cast", "numeric_cast", "static_cast", "std::string"}
TOKEN = re.compile(r"""\s*(?:(?P<str>"(?:\\.|[^"\\])*")|(?P<num>\d+(?:\.\d+)?[uUlL]*)|(?P<id>~?[A-Za-z_]\w*(?:\s*::\s*~?[A-Za-z_]\w*)*)|"""
                   r"""(?P<op>->|==|!=|>=|<=|&&|\|\||[-+*/%&!?:.,()\[\]{}<>=~]))""")


def tokenize(e):
    toks = []
    pos = 0
    e = e.strip()
    while pos < len(e):
        m = TOKEN.match(e, pos)
        if not m or m.end() == pos:
            raise Bad("cannot tokenise %r" % e[pos:pos + 40])
        if m.group("str") is not None:
            toks.append(("str", m.group("str")))
        elif m.group("num") is not None:
            toks.append(("num", m.group("num")))
        elif m.group("id") is not None:
            toks.append(("id", "".join(m.group("id").split())))
        else:
            toks.append(("op", m.group("op")))
        pos = m.end()
    return toks


class P:
    """recursive descent; AST nodes are tuples"""

    def __init__(self, toks):
        self.t = toks
        self.i = 0

    def peek(self, k=0):
        return self.t[self.i + k] if self.i + k < len(self.t) else ("eof", "")

    def next(self):
        x = self.peek()
        self.i += 1
        return x

    def expect(self, v):
        x = self.next()
        if x[1] != v:
            raise Bad("expected %r, found %r" % (v, x[1]))

    def expr(self):
        c = self.binary()
        if self.peek() == ("op", "?"):
            self.next()
            a = self.expr()
            self.expect(":")
            b = self.expr()
            return ("tern", c, a, b)
        return c

    def binary(self):
        lhs = self.unary()
        while self.peek()[0] in ("op", "id") and self.peek()[1] in ("==", "!=", ">=", "<=", "<", ">", "+", "-", "&&", "||",
                                                                 "or", "and", "*", "/", "%"):
            op = self.next()[1]
            op = {"or": "||", "and": "&&"}.get(op, op)
            rhs = self.unary()
            lhs = ("bin", op, lhs, rhs)
        return lhs

    def is_cast(self):
        # ( type ) unary   with type = identifiers / const / * / &  only, followed by something that starts an operand
        if self.peek() != ("op", "("):
            return None
        j = self.i + 1
        ty = []
        while j < len(self.t) and (self.t[j][0] == "id" or self.t[j][1] in ("*", "&")):
            ty.append(self.t[j][1])
            j += 1
        if not ty or j >= len(self.t) or self.t[j] != ("op", ")"):
            return None
        if not all(x in ("bool", "int", "unsigned", "long", "double", "size_t", "const", "*", "&", "EvalfDomain",
                         "SymEngine::EvalfDomain", "CVectorInt", "CVecBasic") for x in ty):
            return None
        nxt = self.t[j + 1] if j + 1 < len(self.t) else ("eof", "")
        if nxt[0] in ("id", "num", "str") or nxt[1] in ("(", "*", "-", "!"):
            return j + 1, " ".join(ty)
        return None

    def unary(self):
        x = self.peek()
        c = self.is_cast()
        if c:
            self.i = c[0]
            return ("cast", c[1], self.unary())
        if x == ("op", "*"):
            self.next()
            return ("deref", self.unary())
        if x == ("op", "&"):
            self.next()
            return ("addr", self.unary())
        if x == ("op", "-"):
            self.next()
            return ("neg", self.unary())
        if x == ("op", "!") or x == ("id", "not"):
            self.next()
            return ("not", self.unary())
        return self.postfix()

    def args(self, close):
        res = []
        if self.peek() == ("op", close):
            self.next()
            return res
        while True:
            res.append(self.expr())
            x = self.next()
            if x == ("op", close):
                return res
            if x != ("op", ","):
                raise Bad("expected , or %s, found %r" % (close, x[1]))

    def template_args(self):
        # self.peek() is '<' : raw text up to the matching '>'
        depth = 0
        txt = []
        while True:
            x = self.next()
            if x[0] == "eof":
                raise Bad("unterminated template argument list")
            if x == ("op", "<"):
                depth += 1
                if depth == 1:
                    continue
            elif x == ("op", ">"):
                depth -= 1
                if depth == 0:
                    return "".join(txt)
            txt.append(x[1] if x[1] != "const" else "const ")

    def primary(self):
        x = self.next()
        if x[0] == "num":
            return ("num", x[1])
        if x[0] == "str":
            return ("str", x[1])
        if x == ("op", "("):
            e = self.expr()
            self.expect(")")
            return e
        if x == ("op", "{"):
            return ("init", self.args("}"))
        if x[0] == "id":
            if x[1] == "new":
                ty = self.next()
                if ty[0] != "id":
                    raise Bad("new without a type")
                a = []
                if self.peek() == ("op", "("):
                    self.next()
                    a = self.args(")")
                elif self.peek() == ("op", "["):
                    self.next()
                    a = [self.expr()]
                    self.expect("]")
                return ("new", ty[1], a)
            name = x[1].replace("SymEngine::", "")
            base = name.split("::")[-1]
            if self.peek() == ("op", "<") and base in TEMPLATE_NAMES:
                targ = self.template_args()
                if base in ("is_a", "atoms"):
                    targ = targ.replace("SymEngine::", "").replace("const ", "").replace("&", "")
                    name = "%s<%s>" % (name, targ)
            return ("name", name)
        raise Bad("unexpected token %r" % (x[1],))

    def postfix(self):
        e = self.primary()
        while True:
            x = self.peek()
            if x == ("op", "("):
                self.next()
                e = ("call", e, self.args(")"))
            elif x == ("op", "->") or x == ("op", "."):
                self.next()
                n = self.next()
                if n == ("op", "~"):
                    n2 = self.next()
                    n = ("id", "~" + n2[1])
                if n[0] != "id":
                    raise Bad("member name expected")
                e = ("mem", e, n[1], x[1])
            elif x == ("op", "["):
                self.next()
                i = self.expr()
                self.expect("]")
                e = ("idx", e, i)
            else:
                return e


def parse_expr(text):
    p = P(tokenize(text))
    e = p.expr()
    if p.peek()[0] != "eof":
        raise Bad("trailing tokens in %r" % text)
    return e


def norm(e, pnames, pkinds):
    """drop the representation adapters"""
    k = e[0]
    if k in ("num", "str"):
        return e
    if k == "name":
        return e
    if k == "call":
        f = norm(e[1], pnames, pkinds)
        a = [norm(x, pnames, pkinds) for x in e[2]]
        if f[0] == "name" and f[1] in ADAPTER_CALLS and len(a) == 1:
            return a[0]
        return ("call", f, a)
    if k == "mem":
        o = norm(e[1], pnames, pkinds)
        if e[2] == "m" and o[0] == "name" and o[1] in pnames and pkinds[pnames.index(o[1])] in (
                "PVec", "PSet", "PMap", "PMat", "PSMat", "POther"):
            return o
        return ("mem", o, e[2], ".")
    if k in ("deref", "cast", "addr"):
        return norm(e[-1], pnames, pkinds)
    if k in ("neg", "not"):
        return (k, norm(e[1], pnames, pkinds))
    if k == "idx":
        return ("idx", norm(e[1], pnames, pkinds), norm(e[2], pnames, pkinds))
    if k == "tern":
        return ("tern",) + tuple(norm(x, pnames, pkinds) for x in e[1:])
    if k == "bin":
        return ("bin", e[1], norm(e[2], pnames, pkinds), norm(e[3], pnames, pkinds))
    if k == "init":
        return ("init", [norm(x, pnames, pkinds) for x in e[1]])
    if k == "new":
        return ("new", e[1], [norm(x, pnames, pkinds) for x in e[2]])
    raise Bad("norm: " + k)


def show(e, pnames, order):
    k = e[0]
    if k == "num" or k == "str":
        return e[1]
    if k == "name":
        if e[1] in pnames:
            order.append(pnames.index(e[1]))
            return "$"
        return e[1]
    if k == "call":
        f = show(e[1], pnames, order)
        return f + "(" + ",".join(show(x, pnames, order) for x in e[2]) + ")"
    if k == "mem":
        o = show(e[1], pnames, order)
        if e[1][0] in ("bin", "tern", "neg", "not"):
            o = "(" + o + ")"
        return o + "." + e[2]
    if k == "neg":
        return "-" + show(e[1], pnames, order)
    if k == "not":
        return "!" + show(e[1], pnames, order)
    if k == "idx":
        o = show(e[1], pnames, order)
        return o + "[" + show(e[2], pnames, order) + "]"
    if k == "tern":
        c = show(e[1], pnames, order)
        a = show(e[2], pnames, order)
        b = show(e[3], pnames, order)
        return c + "?" + a + ":" + b
    if k == "bin":
        a = show(e[2], pnames, order)
        if e[2][0] in ("bin", "tern"):
            a = "(" + a + ")"
        b = show(e[3], pnames, order)
        if e[3][0] in ("bin", "tern"):
            b = "(" + b + ")"
        return a + e[1] + b
    if k == "init":
        return "{" + ",".join(show(x, pnames, order) for x in e[1]) + "}"
    if k == "new":
        return "new " + e[1] + "(" + ",".join(show(x, pnames, order) for x in e[2]) + ")"
    raise Bad("show: " + k)


def normalise_expr(text, params):
    """remove representation adapters; replace parameters by $ ; return (template, [param indices]);
    ("", []) when the text is outside the expression sub-language (the body is then of shape Other)"""
    pnames = [p[0] for p in params]
    pkinds = [p[1] for p in params]
    try:
        e = norm(parse_expr(text), pnames, pkinds)
    except Bad as ex:
        if os.environ.get("TR_CWRAPPER_VERBOSE"):
            print("  not a forward expression (%s): %r" % (ex, " ".join(text.split())[:100]))
        return "", []
    order = []
    tmpl = show(e, pnames, order)
    return tmpl, order


def analyse(ret, name, params_s, body):
    params = parse_params(params_s)
    rk = ret_kind(ret)
    body_nc = body
    fp = hashlib.sha1("".join(body_nc.split()).encode()).hexdigest()[:16]
    body_na, asserts = remove_asserts(body_nc)
    # ---- wrap kind
    nb = body_na.count("CWRAPPER_BEGIN")
    ne = body_na.count("CWRAPPER_END")
    pre, inner, wrap = "", body_na, "WNone"
    if nb or ne:
        if nb != 1 or ne != 1:
            raise Bad("%s: CWRAPPER_BEGIN/END not paired" % name)
        a = body_na.index("CWRAPPER_BEGIN")
        b = body_na.index("CWRAPPER_END")
        if b < a:
            raise Bad("%s: CWRAPPER_END before CWRAPPER_BEGIN" % name)
        pre = body_na[:a]
        inner = body_na[a + len("CWRAPPER_BEGIN"):b]
        post = body_na[b + len("CWRAPPER_END"):]
        if post.strip():
            raise Bad("%s: statements after CWRAPPER_END" % name)
        wrap = "WFull"
    else:
        m = re.search(r"\btry\s*\{", body_na)
        if m:
            end = match_paren(body_na, m.end() - 1, "{", "}")
            rest = body_na[end + 1:]
            # handlers: any number of `catch (T) { ...; return nullptr; }`, the last one being `catch (...)`
            pos_h = 0
            saw_all = False
            while True:
                h = re.match(r"\s*catch\s*\(([^)]*)\)\s*\{", rest[pos_h:])
                if not h:
                    break
                hb = match_paren(rest, pos_h + h.end() - 1, "{", "}")
                hbody = rest[pos_h + h.end():hb]
                if not re.search(r"return\s+nullptr\s*;\s*$", hbody.strip()):
                    raise Bad("%s: a catch handler does not end with `return nullptr`" % name)
                if calls_in(hbody):
                    raise Bad("%s: a catch handler calls functions" % name)
                saw_all = saw_all or h.group(1).strip() == "..."
                pos_h = hb + 1
            if not saw_all:
                raise Bad("%s: try block without a catch-all `return nullptr` handler" % name)

            class _C:
                def end(self_inner):
                    return pos_h
            c = _C()
            pre = body_na[:m.start()] + " " + rest[c.end():]
            inner = body_na[m.end():end]
            wrap = "WNull"
    # ---- guards in front of the try block
    guards = []
    pre_rest = pre
    if wrap == "WFull":
        for g in re.finditer(r"if\s*\(([^{};]*)\)\s*\{?\s*return\s+SYMENGINE_RUNTIME_ERROR\s*;\s*\}?", pre):
            cond = "".join(g.group(1).split())
            terms = re.split(r"\bor\b|\|\|", g.group(1))
            for t in terms:
                t = "".join(t.split())
                mm = re.match(r"^(?:not|!)(is_a_\w+)\((\w+)\)$", t)
                if not mm:
                    raise Bad("%s: guard not recognised: %r" % (name, cond))
                guards.append((mm.group(1), [p[0] for p in params].index(mm.group(2))))
            pre_rest = pre_rest.replace(g.group(0), " ")
        if pre_rest.strip():
            raise Bad("%s: statements other than guards in front of CWRAPPER_BEGIN: %r" % (name, pre_rest.strip()[:80]))
    elif wrap == "WNone":
        # rational_set style: guard followed by an unprotected body
        for g in re.finditer(r"if\s*\(([^{};]*)\)\s*\{\s*return\s+SYMENGINE_RUNTIME_ERROR\s*;\s*\}", inner):
            terms = re.split(r"\bor\b|\|\|", g.group(1))
            ok = True
            gs = []
            for t in terms:
                t = "".join(t.split())
                mm = re.match(r"^(?:not|!)(is_a_\w+)\((\w+)\)$", t)
                if not mm or mm.group(2) not in [p[0] for p in params]:
                    ok = False
                    break
                gs.append((mm.group(1), [p[0] for p in params].index(mm.group(2))))
            if ok:
                guards += gs
                inner = inner.replace(g.group(0), " ")
    # ---- asserts: the is_a type preconditions
    pasrt = []
    for a in asserts:
        for mm in re.finditer(r"(is_a_\w+|is_a<\w+>)\(\*\(?basic_rcp\((\w+)\)\)?\)", a):
            pn = mm.group(2)
            if pn in [p[0] for p in params]:
                pasrt.append((mm.group(1).replace("<", "_").replace(">", ""), [p[0] for p in params].index(pn)))
    # ---- unchecked casts of a parameter: implied type preconditions
    casts = []
    for mm in re.finditer(r"(?:rcp_static_cast|down_cast)\s*<\s*const\s+([\w:]+)\s*&?\s*>\s*\(\s*\*?\s*\(?\s*basic_rcp\((\w+)\)", body_na):
        pn = mm.group(2)
        ty = mm.group(1).replace("SymEngine::", "")
        if pn in [p[0] for p in params] and (ty, [p[0] for p in params].index(pn)) not in casts:
            casts.append((ty, [p[0] for p in params].index(pn)))
    # ---- calls outside the try block
    if wrap == "WNone":
        calls_out = calls_in(inner)
    elif wrap == "WFull":
        calls_out = calls_in(pre)
    else:
        calls_out = calls_in(pre)
    # ---- zero tests of a scalar parameter at the head of the protected part:  if (p == 0) { return SYMENGINE_X; }
    zguards = []
    if wrap == "WFull":
        while True:
            zg = re.match(r"^\s*if\s*\(\s*(\w+)\s*==\s*0\s*\)\s*\{\s*return\s+(SYMENGINE_\w+)\s*;\s*\}", inner)
            if not zg or zg.group(1) not in [p[0] for p in params] or zg.group(2) not in ERROR_CODES:
                break
            zguards.append(([p[0] for p in params].index(zg.group(1)), ERROR_CODES[zg.group(2)]))
            inner = inner[zg.end():]
    # ---- forward shape
    out, tmpl, order = "ONone", "", []
    stmts = [s.strip() for s in split_top(inner, ";") if s.strip()]
    if wrap == "WNull":
        # std::string str; try { str = F(*basic_rcp(s)); }  ... copy to a new char[]
        if len(stmts) == 1:
            mm = re.match(r"^str\s*=\s*(.*)$", stmts[0], re.S)
            if mm:
                tmpl, order = normalise_expr(mm.group(1), params)
                out = "ORet"
    elif len(stmts) == 2 and rk == "RCode" and re.match(r"^return\s+SYMENGINE_NO_EXCEPTION$", stmts[1]) is not None:
        stmts = stmts[:1]
    if wrap != "WNull" and len(stmts) == 1:
        s = stmts[0]
        names = [p[0] for p in params]
        mm = re.match(r"^basic_rcp\((\w+)\)\s*=\s*(.*)$", s, re.S)
        m2 = re.match(r"^\(?(\w+)->m\)?\s*=\s*(.*)$", s, re.S)
        m3 = re.match(r"^return\s+(.*)$", s, re.S)
        if mm and mm.group(1) in names:
            out = "OParam %d" % names.index(mm.group(1))
            tmpl, order = normalise_expr(mm.group(2), params)
        elif m2 and m2.group(1) in names:
            out = "OParam %d" % names.index(m2.group(1))
            tmpl, order = normalise_expr(m2.group(2), params)
        elif m3:
            out = "ORet"
            tmpl, order = normalise_expr(m3.group(1), params)
        elif "=" not in re.sub(r"==|!=|<=|>=", "", s) and not s.startswith("delete") and not s.startswith("new"):
            out = "ONone"
            tmpl, order = normalise_expr(s, params)
    return {
        "name": name, "ret": rk, "params": params, "guards": guards, "asserts": pasrt, "casts": casts, "zguards": zguards, "wrap": wrap,
        "out": out, "tmpl": tmpl, "args": order, "calls_out": calls_out, "fp": fp,
    }


# ------------------------------------------------------------------ expression.h

def expression_rows(src):
    src = strip_comments(src)
    m = re.search(r"\bclass\s+Expression\s*\{", src)
    if not m:
        raise Bad("class Expression not found")
    end = match_paren(src, m.end() - 1, "{", "}")
    cls = src[m.end():end]
    after = src[end:]
    rows = []

    def scan(text, inside):
        i, n = 0, len(text)
        start = 0
        depth = 0
        while i < n:
            c = text[i]
            if c == ";" and depth == 0:
                start = i + 1
            elif c == "{":
                e2 = match_paren(text, i, "{", "}")
                header = " ".join(text[start:i].split())
                body = " ".join(text[i + 1:e2].split())
                handle(header, body, inside)
                i = e2 + 1
                start = i
                continue
            i += 1

    def handle(header, body, inside):
        header = re.sub(r"^(public|private|protected)\s*:\s*", "", header)
        mo = re.match(r"^(?:friend\s+|inline\s+)*(?:Expression\s*&?|bool|int)\s*(operator\s*[-+*/=!]+|pow|expand|unified_eq|"
                      r"unified_compare|diff|subs)\s*\((.*)\)\s*(const)?$", header)
        if not mo:
            return
        op = "".join(mo.group(1).split())
        ps = mo.group(2).strip()
        plist = []
        if ps:
            for p in split_top(ps):
                p = " ".join(p.split())
                p = re.sub(r"\s*=\s*\w+$", "", p)
                mm = re.match(r"^(.*?)(\w+)$", p)
                ty = "".join(mm.group(1).split())
                kind = "E" if "Expression" in ty else ("B" if "RCP<constBasic>" in ty else ("S" if "Symbol" in ty else "O"))
                plist.append((mm.group(2), kind))
        member = inside and not header.startswith("friend")
        variant = ("M" if member else "F") + "".join(k for _, k in plist)
        # body shapes
        e = None
        mm = re.match(r"^return Expression\((.*)\);$", body)
        if mm:
            e = mm.group(1)
        mm = re.match(r"^m_basic = (.*); return \*this;$", body)
        if mm:
            e = mm.group(1)
        if e is None:
            mm = re.match(r"^return (.*);$", body)
            if mm:
                e = mm.group(1)
        if e is None:
            mm = re.match(r"^Expression retval\(\*this\); retval (\*=) (-?\d+); return retval;$", body)
            if mm:
                e = "mul(m_basic,%s)" % mm.group(2)
        if e is None:
            raise Bad("Expression::%s: body shape not recognised: %r" % (op, body))
        e = "".join(e.split()).replace("SymEngine::", "")
        names = [p[0] for p in plist]
        for nm in names:
            e = e.replace(nm + ".m_basic", nm).replace(nm + ".get_basic()", nm)
        e = e.replace("*m_basic", "m_basic").replace("get_basic()", "m_basic")
        for nm in names:
            e = re.sub(r"\*" + nm + r"\b", nm, e)
        order = []

        def sub(m2):
            w = m2.group(0)
            if w == "m_basic" or w == "this":
                order.append(0)
                return "$"
            if w in names:
                order.append(names.index(w) + (1 if member else 0))
                return "$"
            return w
        tmpl = re.sub(r"[A-Za-z_]\w*", sub, e)
        tmpl = tmpl.replace("*$", "$")
        rows.append((op, variant, tmpl, order))

    scan(cls, True)
    scan(after, False)
    return rows


# ------------------------------------------------------------------ mirror table of the driver

def mirror_rows():
    if not os.path.exists(DRIVER):
        return [], []
    src = strip_comments(open(DRIVER).read())
    # expand the two local helper macros M1(f) / M2(f) of the driver the way the preprocessor does
    def m1(m):
        return " ".join('MIRROR("basic_%s", "%s($)", (1), OUT(0), x)' % (f, f) for f in re.findall(r"M1\((\w+)\)", m.group(0)))
    def m2(m):
        return " ".join('MIRROR("basic_%s", "%s($,$)", (1, 2), OUT(0), x)' % (f, f) for f in re.findall(r"M2\((\w+)\)", m.group(0)))
    src = re.sub(r"#define M1\(f\).*", "", src)
    src = re.sub(r"#define M2\(f\).*", "", src)
    src = re.sub(r"(?:\bM1\(\w+\)\s*)+", m1, src)
    src = re.sub(r"(?:\bM2\(\w+\)\s*)+", m2, src)
    rows = []
    for m in re.finditer(r'\bMIRROR\s*\(\s*"(\w+)"\s*,\s*"([^"]*)"\s*,\s*\(([0-9,\s]*)\)\s*,\s*(OUT\((\d+)\)|RET|NOOUT)\s*,', src):
        order = [int(x) for x in m.group(3).replace(" ", "").split(",") if x != ""]
        out = "ORet" if m.group(4) == "RET" else ("ONone" if m.group(4) == "NOOUT" else "OParam %s%%nat" % m.group(5))
        rows.append((m.group(1), out, m.group(2), order))
    xrows = []
    for m in re.finditer(r'\bXMIRROR\s*\(\s*"([^"]+)"\s*,\s*"(\w+)"\s*,\s*"([^"]*)"\s*,\s*\(([0-9,\s]*)\)', src):
        order = [int(x) for x in m.group(4).replace(" ", "").split(",") if x != ""]
        xrows.append((m.group(1), m.group(2), m.group(3), order))
    if len(set(r[0] for r in rows)) != len(rows):
        raise Bad("duplicate MIRROR rows in the driver")
    return rows, xrows


# ------------------------------------------------------------------ output

def coq_str(s):
    return '"' + s.replace('"', '""') + '"'


def coq_list(items):
    return "[" + "; ".join(items) + "]"


def main():
    try:
        src = open(os.path.join(REPO, "symengine", "cwrapper.cpp")).read()
        src = strip_comments(src)
        macros, txt = read_macros(src)
        txt = expand_macros(txt, macros)
        funs = []
        for blk in extern_c_blocks(txt):
            for ret, name, ps, body in functions_of_block(blk):
                funs.append(analyse(ret, name, ps, body))
        names = [f["name"] for f in funs]
        if len(names) < 150:
            raise Bad("only %d extern \"C\" functions found" % len(names))
        dup = set(n for n in names if names.count(n) > 1)
        if dup:
            raise Bad("duplicate definitions (both branches of a conditional?): %s" % sorted(dup))
        xrows = expression_rows(open(os.path.join(REPO, "symengine", "expression.h")).read())
        mrows, xmrows = mirror_rows()
    except Bad as e:
        print("tr_cwrapper: " + str(e))
        return 1
    o = []
    o.append("(* GENERATED by translators/tr_cwrapper.py from symengine/cwrapper.cpp, symengine/expression.h and the")
    o.append("   MIRROR table of harness/c42_driver.cpp -- do not edit. *)")
    o.append("From Coq Require Import String List NArith.")
    o.append("From SE Require Import C42.CWrapDefs.")
    o.append("Import ListNotations.")
    o.append("Local Open Scope string_scope.")
    o.append("")
    o.append("Definition cwrap_table : list cfun := [")
    rows = []
    for f in funs:
        rows.append("  mk_cfun %s %s %s %s %s %s %s %s (%s) %s %s %s %s" % (
            coq_str(f["name"]), f["ret"], coq_list(k for _, k in f["params"]),
            coq_list("(%s, %d%%nat)" % (coq_str(g), i) for g, i in f["guards"]),
            coq_list("(%s, %d%%nat)" % (coq_str(g), i) for g, i in f["asserts"]),
            coq_list("(%s, %d%%nat)" % (coq_str(g), i) for g, i in f["casts"]),
            coq_list("(%d%%nat, %d%%N)" % (i, c) for i, c in f["zguards"]),
            f["wrap"], f["out"] if f["out"] == "ONone" or f["out"] == "ORet" else f["out"] + "%nat",
            coq_str(f["tmpl"]), coq_list("%d%%nat" % i for i in f["args"]),
            coq_list(coq_str(c) for c in f["calls_out"]), coq_str(f["fp"])))
    o.append(";\n".join(rows))
    o.append("].")
    o.append("")
    o.append("(* the text of the two protection macros (white space removed) *)")
    o.append("Definition cwrapper_begin_text : string := %s." % coq_str(macros.get("#CWRAPPER_BEGIN", ([], ""))[1]))
    o.append("Definition cwrapper_end_text : string := %s." % coq_str(macros.get("#CWRAPPER_END", ([], ""))[1]))
    o.append("")
    o.append("(* Expression operators / helpers read from expression.h: (name, variant, template, argument order);")
    o.append("   variant = M(ember)|F(ree) followed by one letter per parameter: E(xpression) B(asic RCP) S(ymbol RCP) O(ther);")
    o.append("   argument 0 of a member is the object itself *)")
    o.append("Definition expression_table : list xfun := [")
    o.append(";\n".join("  mk_xfun %s %s %s %s" % (coq_str(op), coq_str(v), coq_str(t), coq_list("%d%%nat" % i for i in a))
                        for op, v, t, a in xrows))
    o.append("].")
    o.append("")
    o.append("(* the plumbing implemented by the driver's hand-written C++-API mirror (harness/c42_driver.cpp) *)")
    o.append("Definition expected_table : list expected := [")
    o.append(";\n".join("  mk_expected %s (%s) %s %s" % (coq_str(n), ou, coq_str(t), coq_list("%d%%nat" % i for i in a))
                        for n, ou, t, a in mrows))
    o.append("].")
    o.append("Definition expected_expression_table : list xfun := [")
    o.append(";\n".join("  mk_xfun %s %s %s %s" % (coq_str(op), coq_str(v), coq_str(t), coq_list("%d%%nat" % i for i in a))
                        for op, v, t, a in xmrows))
    o.append("].")
    txt_out = "\n".join(o) + "\n"
    if not os.path.exists(OUT) or open(OUT).read() != txt_out:
        os.makedirs(os.path.dirname(OUT), exist_ok=True)
        open(OUT, "w").write(txt_out)
        print("tr_cwrapper: regenerated %s (%d functions, %d Expression rows, %d mirror rows)" % (
            OUT, len(funs), len(xrows), len(mrows)))
    return 0


if __name__ == "__main__":
    sys.exit(main())
