#!/usr/bin/env python3
"""Regenerates coq/C10/Gen_DiffRules.v from /repo/symengine/derivative.cpp.

Every `void DiffVisitor::bvisit(const F &self)` body and every `static bool fdiff(ret, const F &self,
index)` overload is read with a small recursive-descent parser for the C++ expression sub-language
these bodies use (calls f(a, b), self.get_arg(), self.rcp_from_this(), one / zero / minus_one / i2 /
integer(k) / pi, local `RCP<const T> v = <expr>;` bindings).  Recognised statement shapes:

  rule     apply(<inner>); result_ = mul(<outer>, result_);           (outer free of result_)
           apply(<inner>); result_ = neg(mul(<outer>, result_));
  pow      if (is_a_Number(*(self.get_exp()))) { rule } else { rule }
  symbol   if (<x is self>) { result_ = one; } else { result_ = zero; }
           with <x is self> = `x->get_name() == self.get_name()` (by name) or `eq(*x, self)` (by eq)
  zero     result_ = zero;
  fdiff    result_ = fdiff(self, x, *this);
  deriv    result_ = Derivative::create(self.rcp_from_this(), {x});                 (also macro DIFF0)
  derivdep apply(self.get_arg()); if (neq(*result_, *zero)) { result_ = Derivative::create(...); }
           (also macro DIFF_MINMAX: all arguments)
  throw    throw <Exn>("...");
  fdiff overload   if (index == k) { *ret = <expr>; return true; } else { return false; }

The bodies that are transcribed by hand in coq/C10/DiffModel.v (Add, Mul, Subs, Derivative, Abs, Beta,
Piecewise, the generic fdiff template, get_dummy, apply, diff, polynomial classes) are emitted as
fingerprints (sha1 of the body without comments and white space); coq/C10/DiffModel.v records the
fingerprints it was written against and an obligation compares the two lists.

Anything else: exit 1 (reported by the check as a broken tie).  The file is rewritten only when
its content changes."""
import hashlib
import os
import re
import sys

REPO = os.environ.get("VERIF_REPO", "/repo")
ROOT = os.path.dirname(os.path.dirname(os.path.abspath(__file__)))
OUT = os.path.join(ROOT, "coq", "C10", "Gen_DiffRules.v")


class Bad(Exception):
    pass


# ------------------------------------------------------------------ C++ expression sub-language
TOK = re.compile(r"\s*(->|==|::|[A-Za-z_][A-Za-z_0-9]*|\d+|[(){},.;*=<>!&\[\]\"])")


def tokenize(s):
    toks = []
    pos = 0
    s = s.strip()
    while pos < len(s):
        if s[pos] == '"':
            e = s.index('"', pos + 1)
            toks.append(s[pos:e + 1])
            pos = e + 1
            continue
        m = TOK.match(s, pos)
        if not m:
            if s[pos:].strip() == "":
                break
            raise Bad("cannot tokenize at %r" % s[pos:pos + 30])
        toks.append(m.group(1))
        pos = m.end()
    return toks


GETTERS = {"get_arg": 0, "get_base": 0, "get_exp": 1, "get_num": 0, "get_den": 1, "get_arg1": 0, "get_arg2": 1}
CONSTS = {"one": (1, 1), "zero": (0, 1), "minus_one": (-1, 1), "i2": (2, 1)}
ARITH = {"add": "RAdd", "sub": "RSub", "mul": "RMul", "div": "RDiv", "pow": "RPow"}
# library constructors that may appear in rules (all take `RCP<const Basic>` arguments)
FUNS1 = {"sin", "cos", "tan", "cot", "sec", "csc", "sinh", "cosh", "tanh", "coth", "sech", "csch", "sqrt", "exp",
         "log", "lambertw"}
FUNS2 = {"polygamma", "zeta"}


class P:
    """expression parser; produces tuples: ('arg', i) ('self',) ('res',) ('q', n, d) ('pi',)
    ('bin', RAdd.., a, b) ('neg', a) ('fun', name, [args])"""

    def __init__(self, toks, env):
        self.t = toks
        self.i = 0
        self.env = env

    def peek(self, k=0):
        return self.t[self.i + k] if self.i + k < len(self.t) else None

    def eat(self, x=None):
        tok = self.peek()
        if tok is None or (x is not None and tok != x):
            raise Bad("expected %r, found %r in %s" % (x, tok, " ".join(self.t)))
        self.i += 1
        return tok

    def args(self):
        self.eat("(")
        out = []
        if self.peek() == ")":
            self.eat(")")
            return out
        while True:
            out.append(self.expr())
            if self.peek() == ",":
                self.eat(",")
                continue
            self.eat(")")
            return out

    def expr(self):
        tok = self.eat()
        if tok == "self":
            self.eat(".")
            m = self.eat()
            self.eat("(")
            self.eat(")")
            if m in GETTERS:
                return ("arg", GETTERS[m])
            if m == "rcp_from_this":
                return ("self",)
            raise Bad("unknown accessor self.%s()" % m)
        if tok == "result_":
            return ("res",)
        if tok in CONSTS and self.peek() != "(":
            return ("q",) + CONSTS[tok]
        if tok == "pi" and self.peek() != "(":
            return ("pi",)
        if tok in self.env and self.peek() != "(":
            return self.env[tok]
        if tok == "integer":
            a = self.eat("(")
            k = self.eat()
            if not k.isdigit():
                raise Bad("integer(%s)" % k)
            self.eat(")")
            return ("q", int(k), 1)
        if tok in ARITH:
            a = self.args()
            if len(a) != 2:
                raise Bad("%s with %d arguments" % (tok, len(a)))
            return ("bin", ARITH[tok], a[0], a[1])
        if tok == "neg":
            a = self.args()
            if len(a) != 1:
                raise Bad("neg arity")
            return ("neg", a[0])
        if tok in FUNS1 or tok in FUNS2:
            a = self.args()
            if len(a) != (1 if tok in FUNS1 else 2):
                raise Bad("%s with %d arguments" % (tok, len(a)))
            return ("fun", tok, a)
        raise Bad("unrecognised expression head %r in %s" % (tok, " ".join(self.t)))


def parse_expr(s, env):
    p = P(tokenize(s), env)
    e = p.expr()
    if p.peek() is not None:
        raise Bad("trailing tokens in %r" % s)
    return e


def has_res(e):
    if e[0] == "res":
        return True
    if e[0] == "bin":
        return has_res(e[2]) or has_res(e[3])
    if e[0] == "neg":
        return has_res(e[1])
    if e[0] == "fun":
        return any(has_res(a) for a in e[2])
    return False


def coq(e):
    k = e[0]
    if k == "arg":
        return "(RArg %d)" % e[1]
    if k == "self":
        return "RSelf"
    if k == "pi":
        return "RPi"
    if k == "q":
        return "(RConst (%s) %d)" % (e[1], e[2])
    if k == "bin":
        return "(%s %s %s)" % (e[1], coq(e[2]), coq(e[3]))
    if k == "neg":
        return "(RNeg %s)" % coq(e[1])
    if k == "fun":
        return "(RFun F%s [%s])" % (e[1], "; ".join(coq(a) for a in e[2]))
    raise Bad("result_ inside an outer factor")


# ------------------------------------------------------------------ statements
def split_statements(body):
    """top-level statements of a brace-free body, separated by ';'"""
    out = []
    depth = 0
    cur = ""
    for ch in body:
        if ch in "({":
            depth += 1
        if ch in ")}":
            depth -= 1
        if ch == ";" and depth == 0:
            if cur.strip():
                out.append(cur.strip())
            cur = ""
        else:
            cur += ch
    if cur.strip():
        out.append(cur.strip())
    return out


def norm(s):
    return re.sub(r"\s+", "", s)


def parse_rule_block(body):
    """apply(<inner>); [locals;] result_ = mul(<outer>, result_);  ->  (inner, outer, negated)"""
    sts = split_statements(body)
    if len(sts) < 2:
        raise Bad("not a rule body")
    env = {}
    inner = None
    outer = None
    negated = False
    for st in sts:
        m = re.match(r"^apply\((.*)\)$", st, re.S)
        if m and inner is None and outer is None:
            inner = parse_expr(m.group(1), env)
            if has_res(inner):
                raise Bad("result_ in the argument of apply")
            continue
        m = re.match(r"^RCP<const\s+\w+>\s+(\w+)\s*=\s*(.*)$", st, re.S)
        if m and outer is None:
            env[m.group(1)] = parse_expr(m.group(2), env)
            if has_res(env[m.group(1)]):
                raise Bad("result_ in a local binding")
            continue
        m = re.match(r"^result_\s*=\s*(.*)$", st, re.S)
        if m and inner is not None and outer is None:
            e = parse_expr(m.group(1), env)
            if e[0] == "neg":
                negated = True
                e = e[1]
            if not (e[0] == "bin" and e[1] == "RMul" and e[3] == ("res",) and not has_res(e[2])):
                raise Bad("result_ is not of the form mul(<outer>, result_)")
            outer = e[2]
            continue
        raise Bad("unrecognised statement %r" % st)
    if inner is None or outer is None:
        raise Bad("incomplete rule body")
    return inner, outer, negated


def strip_braces(s):
    s = s.strip()
    if s.startswith("{") and s.endswith("}"):
        return s[1:-1]
    raise Bad("block expected: %r" % s[:40])


def split_if(body):
    """`if (c) {A} else {B}` -> (c, A, B) or None"""
    b = body.strip()
    if not b.startswith("if"):
        return None
    i = b.index("(")
    depth = 0
    for j in range(i, len(b)):
        if b[j] == "(":
            depth += 1
        if b[j] == ")":
            depth -= 1
            if depth == 0:
                break
    cond = b[i + 1:j]
    rest = b[j + 1:].strip()
    if not rest.startswith("{"):
        raise Bad("if without a block")
    depth = 0
    for k in range(len(rest)):
        if rest[k] == "{":
            depth += 1
        if rest[k] == "}":
            depth -= 1
            if depth == 0:
                break
    a = rest[1:k]
    rest2 = rest[k + 1:].strip()
    if not rest2.startswith("else"):
        raise Bad("if without else")
    bb = strip_braces(rest2[4:])
    return cond, a, bb


def rule_coq(r):
    inner, outer, negated = r
    return "{| r_inner := %s; r_outer := %s; r_neg := %s |}" % (coq(inner), coq(outer), "true" if negated else "false")


# classes whose bodies are transcribed by hand (fingerprinted)
HAND = ["Add", "Mul", "Subs", "Derivative", "Abs", "Beta", "Piecewise", "GaloisField", "UIntPoly", "URatPoly",
        "UExprPoly", "MIntPoly", "MExprPoly", "FunctionWrapper"]
SKIP_OPTIONAL = ["UIntPolyPiranha", "URatPolyPiranha", "UIntPolyFlint", "URatPolyFlint"]
EXN = {"NotImplementedError": 1, "DomainError": 2, "DivisionByZeroError": 3, "SymEngineException": 6}


def fingerprint(s):
    return hashlib.sha1(norm(s).encode()).hexdigest()[:16]


def main():
    path = os.path.join(REPO, "symengine", "derivative.cpp")
    src = open(path).read()
    hdr = open(os.path.join(REPO, "symengine", "derivative.h")).read()
    # comments
    src = re.sub(r"/\*.*?\*/", "", src, flags=re.S)
    src = re.sub(r"//[^\n]*", "", src)
    debug_methods = re.search(r"^\s*#define\s+debug_methods\b", re.sub(r"//[^\n]*", "", hdr), re.M) is not None
    # macros: DIFF0 = classes differentiated to an unevaluated Derivative; DIFF_MINMAX = zero when no
    # argument depends on x, else an unevaluated Derivative
    def take_macro(name, expected):
        nonlocal src
        m = re.search(r"#define %s\(CLASS\)\s*\\\n(.*?)\n\n" % name, src, re.S)
        if not m:
            return None
        body = norm(m.group(1).replace("\\", ""))
        if body != norm(expected):
            raise Bad("macro %s has an unrecognised body" % name)
        src = src[:m.start()] + src[m.end():]
        uses = re.findall(r"^%s\((\w+)\)\s*$" % name, src, re.M)
        src = re.sub(r"^%s\((\w+)\)\s*$" % name, "", src, flags=re.M)
        return uses

    diff0 = take_macro("DIFF0", "void DiffVisitor::bvisit(const CLASS &self) { result_ = Derivative::create(self.rcp_from_this(), {x}); }")
    if diff0 is None:
        raise Bad("DIFF0 macro not found")
    minmax = take_macro("DIFF_MINMAX", """void DiffVisitor::bvisit(const CLASS &self) { bool depends = false;
        for (const auto &a : self.get_args()) { apply(a); if (neq(*result_, *zero)) { depends = true; } }
        if (depends) { result_ = Derivative::create(self.rcp_from_this(), {x}); } else { result_ = zero; } }""") or []
    # conditional compilation: keep the branch the header selects for debug_methods; optional
    # back ends (piranha, flint) are not part of the verified configuration
    lines = src.split("\n")
    keep = []
    stack = []
    for ln in lines:
        s = ln.strip()
        if s.startswith("#ifndef debug_methods"):
            stack.append(not debug_methods)
            continue
        if s.startswith("#ifdef HAVE_SYMENGINE_"):
            stack.append(False)
            continue
        if s.startswith("#if"):
            raise Bad("unrecognised preprocessor conditional %r" % s)
        if s.startswith("#else"):
            stack[-1] = not stack[-1]
            continue
        if s.startswith("#endif"):
            stack.pop()
            continue
        if s.startswith("#"):
            continue
        if all(stack):
            keep.append(ln)
    src = "\n".join(keep)
    if not debug_methods:
        diff0 = []
        minmax = []

    def body_at(start):
        i = src.index("{", start)
        depth = 0
        for j in range(i, len(src)):
            if src[j] == "{":
                depth += 1
            if src[j] == "}":
                depth -= 1
                if depth == 0:
                    return src[i + 1:j]
        raise Bad("unbalanced braces")

    bodies = {}
    for m in re.finditer(r"void\s+DiffVisitor::bvisit\(const\s+(\w+)\s*&self\)", src):
        if m.group(1) in bodies:
            raise Bad("two bvisit bodies for " + m.group(1))
        bodies[m.group(1)] = body_at(m.end())
    if len(bodies) < 60:
        raise Bad("only %d bvisit bodies found" % len(bodies))

    rules = []       # (class, rule)
    zero = []
    fdiffc = []
    derivc = list(diff0)
    derivdep = list(minmax)      # zero when every argument has derivative 0, else Derivative(self, x)
    throws = []
    hand = []
    sym_mode = None
    pow_rules = None
    for cls, body in bodies.items():
        nb = norm(body)
        if cls in HAND:
            hand.append((cls, fingerprint(body)))
            continue
        if nb == "result_=zero;":
            zero.append(cls)
            continue
        if nb == norm("result_ = fdiff(self, x, *this);"):
            fdiffc.append(cls)
            continue
        if nb == norm("result_ = Derivative::create(self.rcp_from_this(), {x});"):
            derivc.append(cls)
            continue
        if nb == norm("apply(self.get_arg()); if (neq(*result_, *zero)) { result_ = Derivative::create(self.rcp_from_this(), {x}); }"):
            derivdep.append(cls)
            continue
        m = re.match(r'^throw(\w+)\("[^"]*"\);$', nb)
        if m:
            if m.group(1) not in EXN:
                raise Bad("unknown exception class " + m.group(1))
            throws.append((cls, EXN[m.group(1)]))
            continue
        if cls == "Symbol":
            c = split_if(body)
            if c is None:
                raise Bad("Symbol: if expected")
            cond, a, b = c
            if norm(a) != "result_=one;" or norm(b) != "result_=zero;":
                raise Bad("Symbol: unrecognised branches")
            if norm(cond) == norm("x->get_name() == self.get_name()"):
                sym_mode = "SymByName"
            elif norm(cond) in (norm("eq(*x, self)"), norm("eq(self, *x)"), norm("x->__eq__(self)"), norm("self.__eq__(*x)")):
                sym_mode = "SymByEq"
            else:
                raise Bad("Symbol: unrecognised test %r" % cond)
            continue
        if cls == "Pow":
            c = split_if(body)
            if c is None:
                raise Bad("Pow: if expected")
            cond, a, b = c
            if norm(cond) != norm("is_a_Number(*(self.get_exp()))"):
                raise Bad("Pow: unrecognised test %r" % cond)
            pow_rules = (parse_rule_block(a), parse_rule_block(b))
            continue
        try:
            rules.append((cls, parse_rule_block(body)))
        except Bad as e:
            raise Bad("bvisit(const %s&): %s" % (cls, e))
    if sym_mode is None or pow_rules is None:
        raise Bad("Symbol or Pow body missing")
    for c in HAND:
        if c not in dict(hand):
            raise Bad("hand-transcribed class %s has no bvisit body" % c)

    # fdiff overloads
    fd = []
    for m in re.finditer(r"static\s+bool\s+fdiff\(const\s+Ptr<RCP<const\s+Basic>>\s*&ret,\s*const\s+(\w+)\s*&self,\s*unsigned\s+index\)", src):
        cls = m.group(1)
        body = body_at(m.end())
        if cls == "Function":
            if norm(body) != "returnfalse;":
                raise Bad("fdiff(Function) is no longer `return false`")
            continue
        c = split_if(body)
        if c is None:
            raise Bad("fdiff(%s): if expected" % cls)
        cond, a, b = c
        mm = re.match(r"^index==(\d+)$", norm(cond))
        if not mm or norm(b) != "returnfalse;":
            raise Bad("fdiff(%s): unrecognised shape" % cls)
        sts = split_statements(a)
        if len(sts) != 2 or norm(sts[1]) != "returntrue" or not sts[0].lstrip().startswith("*ret"):
            raise Bad("fdiff(%s): unrecognised then-branch" % cls)
        e = parse_expr(sts[0].split("=", 1)[1], {})
        if has_res(e):
            raise Bad("fdiff(%s): result_ in rule" % cls)
        fd.append((cls, int(mm.group(1)), e))

    # other hand-transcribed functions: fingerprints
    others = []
    for name, pat in [("fdiff_template", r"static\s+inline\s+RCP<const\s+Basic>\s+fdiff\(const\s+T\s*&self"),
                      ("get_dummy", r"static\s+inline\s+RCP<const\s+Symbol>\s+get_dummy\("),
                      ("apply", r"DiffVisitor::apply\(const\s+RCP<const\s+Basic>\s*&b\)"),
                      ("diff", r"RCP<const\s+Basic>\s+diff\(const\s+RCP<const\s+Basic>\s*&arg"),
                      ("diff_upoly", r"static\s+inline\s+RCP<const\s+Basic>\s+diff_upoly\("),
                      ("diff_mpoly", r"static\s+RCP<const\s+Basic>\s+diff_mpoly\(")]:
        m = re.search(pat, src)
        if not m:
            raise Bad("function %s not found" % name)
        others.append((name, fingerprint(body_at(m.end()))))

    out = []
    out.append("(* GENERATED by translators/tr_diffrules.py from symengine/derivative.cpp -- do not edit. *)")
    out.append("From Coq Require Import List NArith ZArith String.")
    out.append("From SE Require Import Gen.TypeCodes C10.DiffRuleAst.")
    out.append("Import ListNotations.")
    out.append("Local Open Scope string_scope.")
    out.append("")
    out.append("(* bvisit bodies of the shape  apply(inner); result_ = [neg] mul(outer, result_)  *)")
    for cls, r in rules:
        out.append("Definition rule_%s : rule := %s." % (cls, rule_coq(r)))
    out.append("Definition rule_Pow_num : rule := %s." % rule_coq(pow_rules[0]))
    out.append("Definition rule_Pow_gen : rule := %s." % rule_coq(pow_rules[1]))
    out.append("")
    out.append("Definition diff_rules : list (N * rule) := [")
    out.append(";\n".join("  (TC_%s, rule_%s)" % (cls, cls) for cls, _ in rules))
    out.append("].")
    out.append("")
    out.append("(* fdiff overloads: class, argument index (0-based), partial derivative *)")
    out.append("Definition fdiff_rules : list (N * (N * rexp)) := [")
    out.append(";\n".join("  (TC_%s, (%d%%N, %s))" % (cls, k, coq(e)) for cls, k, e in fd))
    out.append("].")
    out.append("")
    out.append("(* bvisit(const Symbol&): how the differentiation variable is recognised *)")
    out.append("Definition sym_mode : symmode := %s." % sym_mode)
    out.append("")
    out.append("Definition zero_classes : list string := [%s]." % "; ".join('"%s"' % c for c in zero))
    out.append("Definition fdiff_classes : list string := [%s]." % "; ".join('"%s"' % c for c in fdiffc))
    out.append("Definition deriv_classes : list string := [%s]." % "; ".join('"%s"' % c for c in derivc))
    out.append("(* classes differentiated to an unevaluated Derivative(self, x) whatever the arguments *)")
    out.append("Definition deriv_codes : list N := [%s]." % "; ".join("TC_%s" % c for c in derivc))
    out.append("(* classes differentiated to 0 when every argument has derivative 0, else to Derivative(self, x) *)")
    out.append("Definition deriv_if_dep_codes : list N := [%s]." % "; ".join("TC_%s" % c for c in derivdep))
    out.append("Definition throw_classes : list (string * N) := [%s]." % "; ".join('("%s", %d%%N)' % c for c in throws))
    out.append("")
    out.append("(* fingerprints of the bodies transcribed by hand in DiffModel.v *)")
    out.append("Definition hand_fingerprints : list (string * string) := [")
    out.append(";\n".join('  ("%s", "%s")' % h for h in hand + others))
    out.append("].")
    txt = "\n".join(out) + "\n"
    if not os.path.exists(OUT) or open(OUT).read() != txt:
        os.makedirs(os.path.dirname(OUT), exist_ok=True)
        open(OUT, "w").write(txt)
        print("tr_diffrules: regenerated %s (%d rules, %d fdiff overloads)" % (OUT, len(rules) + 2, len(fd)))
    return 0


if __name__ == "__main__":
    try:
        sys.exit(main())
    except Bad as e:
        print("tr_diffrules: unrecognised shape: %s" % e)
        sys.exit(1)
    except (OSError, ValueError, IndexError) as e:
        print("tr_diffrules: %s: %s" % (type(e).__name__, e))
        sys.exit(1)
