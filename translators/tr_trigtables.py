#!/usr/bin/env python3
"""Regenerates coq/C08/TrigTables.v from /repo/symengine/functions.cpp and constants.cpp.

Read from the sources:
  * the global constants of constants.cpp (`DEFINE_CONSTANT(Type, name, expr)` inside the
    DEFINE_CONSTANTS macro): zero, one, minus_one, i2 ... im5, sq2, sq3, sq5, C0..C6, mC0..mC6;
  * `sin_table()`          -- the 24 entries of the static array;
  * `inverse_cst()`, `inverse_tct()` -- the (key, index) pairs of the two lookup tables.
Every entry is an expression in the small C++ sub-language  name | integer(k) | f(a, b) with
f in add sub mul div pow and sqrt / sqrt_ (one argument); names are expanded through their
definitions, so the emitted Coq terms (type `cexp` of coq/C08/TableDefs.v) are closed.
Anything else: exit 1 (reported by the check as a broken tie).  The file is rewritten only when
its content changes."""
import os
import re
import sys

REPO = os.environ.get("VERIF_REPO", "/repo")
ROOT = os.path.dirname(os.path.dirname(os.path.abspath(__file__)))
OUT = os.path.join(ROOT, "coq", "C08", "TrigTables.v")


class Bad(Exception):
    pass


def strip_comments(s):
    s = re.sub(r"/\*.*?\*/", "", s, flags=re.S)
    return re.sub(r"//[^\n]*", "", s)


# ------------------------------------------------------------------ expression parser
TOK = re.compile(r"\s*([A-Za-z_][A-Za-z_0-9]*|-?\d+|[(),{}])")


def tokenize(s):
    out, pos = [], 0
    s = s.strip()
    while pos < len(s):
        m = TOK.match(s, pos)
        if not m:
            raise Bad("cannot tokenize: " + s[pos:pos + 40])
        out.append(m.group(1))
        pos = m.end()
    return out


def parse_expr(toks, i):
    t = toks[i]
    if re.fullmatch(r"-?\d+", t):
        return ("int", int(t)), i + 1
    if not re.fullmatch(r"[A-Za-z_][A-Za-z_0-9]*", t):
        raise Bad("unexpected token " + t)
    if i + 1 < len(toks) and toks[i + 1] == "(":
        args, j = [], i + 2
        if toks[j] == ")":
            return ("call", t, args), j + 1
        while True:
            a, j = parse_expr(toks, j)
            args.append(a)
            if toks[j] == ",":
                j += 1
            elif toks[j] == ")":
                return ("call", t, args), j + 1
            else:
                raise Bad("expected , or ) near " + " ".join(toks[j:j + 5]))
    return ("name", t), i + 1


def parse_full(s):
    toks = tokenize(s)
    e, i = parse_expr(toks, 0)
    if i != len(toks):
        raise Bad("trailing tokens in " + s)
    return e


def parse_braced_list(s):
    """{ e, e, ... } or { {e, e}, {e, e}, ... } -> list of expressions / pairs"""
    toks = tokenize(s)
    if toks[0] != "{" or toks[-1] != "}":
        raise Bad("initializer list expected")
    items, i = [], 1
    while i < len(toks) - 1:
        if toks[i] == "{":
            a, i = parse_expr(toks, i + 1)
            if toks[i] != ",":
                raise Bad("pair expected")
            b, i = parse_expr(toks, i + 1)
            if toks[i] != "}":
                raise Bad("pair not closed")
            items.append((a, b))
            i += 1
        else:
            a, i = parse_expr(toks, i)
            items.append(a)
        if toks[i] == ",":
            i += 1
    return items


# ------------------------------------------------------------------ sources
def read_constants():
    src = strip_comments(open(os.path.join(REPO, "symengine", "constants.cpp")).read())
    src = src.replace("\\\n", " ")
    m = re.search(r"#define\s+DEFINE_CONSTANTS(.*?)\n", src)
    if not m:
        raise Bad("DEFINE_CONSTANTS not found")
    body = m.group(1)
    defs = {}
    for mm in re.finditer(r"DEFINE_CONSTANT\(\s*(\w+)\s*,\s*(\w+)\s*,\s*(.*?)\)\s*;", body):
        defs[mm.group(2)] = mm.group(3)
    # the local macro  #define sqrt_(arg) pow(arg, div(one, i2))
    if not re.search(r"#define\s+sqrt_\(arg\)\s+pow\(arg,\s*div\(one,\s*i2\)\)", src):
        raise Bad("sqrt_ macro changed")
    return defs


def function_body(src, header_re):
    m = re.search(header_re, src)
    if not m:
        raise Bad("not found: " + header_re)
    i = src.index("{", m.end() - 1)
    depth, j = 0, i
    while True:
        if src[j] == "{":
            depth += 1
        elif src[j] == "}":
            depth -= 1
            if depth == 0:
                return src[i:j + 1]
        j += 1


def read_tables():
    src = strip_comments(open(os.path.join(REPO, "symengine", "functions.cpp")).read())
    b = function_body(src, r"static\s+const\s+RCP<const\s+Basic>\s*\*\s*sin_table\s*\(\s*\)\s*\{")
    m = re.search(r"table\[\]\s*=\s*(\{.*?\})\s*;", b, re.S)
    if not m:
        raise Bad("sin_table initializer")
    sin_table = parse_braced_list(m.group(1))
    tabs = {}
    for name in ("inverse_cst", "inverse_tct"):
        b = function_body(src, r"static\s+const\s+umap_basic_basic\s*&\s*%s\s*\(\s*\)\s*\{" % name)
        m = re.search(r"%s_\s*=\s*(\{.*\})\s*;\s*return" % name, b, re.S)
        if not m:
            raise Bad(name + " initializer")
        tabs[name] = parse_braced_list(m.group(1))
    # sqrt(x) in functions.cpp is pow(x, 1/2)
    if not re.search(r"RCP<const Basic> sqrt\(RCP<const Basic> &arg\)\s*\{\s*return pow\(arg, div\(one, i2\)\);", src):
        raise Bad("sqrt() changed")
    return sin_table, tabs["inverse_cst"], tabs["inverse_tct"]


# ------------------------------------------------------------------ translation
def to_coq(e, defs, depth=0):
    if depth > 40:
        raise Bad("definition cycle")
    k = e[0]
    if k == "int":
        return "(CInt (%d))" % e[1]
    if k == "name":
        n = e[1]
        if n not in defs:
            raise Bad("unknown name " + n)
        return to_coq(parse_full(defs[n]), defs, depth + 1)
    f, args = e[1], e[2]
    if f == "integer" and len(args) == 1 and args[0][0] == "int":
        return "(CInt (%d))" % args[0][1]
    if f in ("sqrt", "sqrt_") and len(args) == 1:
        return "(CSqrt %s)" % to_coq(args[0], defs, depth + 1)
    binop = {"add": "CAdd", "sub": "CSub", "mul": "CMul", "div": "CDiv", "pow": "CPow"}
    if f in binop and len(args) == 2:
        return "(%s %s %s)" % (binop[f], to_coq(args[0], defs, depth + 1), to_coq(args[1], defs, depth + 1))
    raise Bad("unsupported call %s/%d" % (f, len(args)))


def main():
    defs = read_constants()
    sin_table, cst, tct = read_tables()
    if len(sin_table) != 24:
        raise Bad("sin_table has %d entries" % len(sin_table))
    lines = [
        "(* GENERATED by translators/tr_trigtables.py from symengine/functions.cpp and constants.cpp.",
        "   Do not edit: the check regenerates this file on every run. *)",
        "From Coq Require Import ZArith List.",
        "From SE Require Import C08.TableDefs.",
        "Import ListNotations.",
        "Local Open Scope Z_scope.",
        "",
        "(* sin_table(): entry n stands for sin(pi*n/12) *)",
        "Definition sin_table_src : list cexp := [",
    ]
    lines.append(";\n".join("  " + to_coq(e, defs) for e in sin_table))
    lines.append("].")
    for name, tab, what in (("inverse_cst_src", cst, "asin(key) = pi/index"), ("inverse_tct_src", tct, "atan(key) = pi/index")):
        lines.append("")
        lines.append("(* %s: (key, index) with %s *)" % (name[:-4], what))
        lines.append("Definition %s : list (cexp * cexp) := [" % name)
        lines.append(";\n".join("  (%s,\n   %s)" % (to_coq(a, defs), to_coq(b, defs)) for a, b in tab))
        lines.append("].")
    text = "\n".join(lines) + "\n"
    old = open(OUT).read() if os.path.exists(OUT) else None
    if old != text:
        with open(OUT, "w") as f:
            f.write(text)
        print("rewrote", OUT)


if __name__ == "__main__":
    try:
        main()
    except Bad as e:
        print("tr_trigtables: " + str(e))
        sys.exit(1)
