#!/usr/bin/env python3
"""Regenerates coq/Eval/Gen_EvalRules.v and coq/Eval/Gen_LambdaRules.v from
  symengine/eval_double.cpp   (EvalDoubleVisitor / EvalRealDoubleVisitor::bvisit bodies and the
                               single-dispatch table init_eval_double)
  symengine/lambda_double.h   (LambdaDoubleVisitor / LambdaRealDoubleVisitor::bvisit bodies)
Per TypeID (symengine/type_codes.inc) the bvisit overload C++ would select (nearest base class
with an overload; the class hierarchy is read from the headers) is translated into a `rule`
of coq/Eval/EvalTerm.v: a formula term over abstract libm symbols, or one of the structured
rules (folds, Pow with the E case, constants, Max/Min, Piecewise, ...).
Any body whose shape is not recognised makes the translator FAIL (exit 1): a broken tie.
Files are written only when their content changes."""
import glob
import os
import re
import struct
import sys

REPO = os.environ.get("VERIF_REPO", "/repo")
ROOT = os.path.dirname(os.path.dirname(os.path.abspath(__file__)))
OUTDIR = os.environ.get("EVALRULES_OUT", os.path.join(ROOT, "coq", "Eval"))


class TrError(Exception):
    pass


# ------------------------------------------------------------------ C++ expression sub-language
TOK = re.compile(r"\s*(?:(\d+\.\d*(?:[eE][-+]?\d+)?|\.\d+|\d+)|((?:::)?[A-Za-z_][A-Za-z0-9_]*(?:::[A-Za-z_][A-Za-z0-9_]*)*)"
                 r"|(==|!=|<=|>=|&&|\|\||[-+*/()<>?:,!]))")


def tokenize(s):
    s = s.replace("std::numeric_limits<double>::infinity()", "__INF__")
    s = s.replace("std::numeric_limits<double>::signaling_NaN()", "__SNAN__")
    out = []
    pos = 0
    s = s.strip()
    while pos < len(s):
        m = TOK.match(s, pos)
        if not m:
            raise TrError("expression: cannot tokenize %r at %r" % (s, s[pos:pos + 20]))
        if m.group(1) is not None:
            out.append(("num", m.group(1)))
        elif m.group(2) is not None:
            out.append(("id", m.group(2)))
        else:
            out.append(("op", m.group(3)))
        pos = m.end()
    return out


class Parser:
    def __init__(self, toks):
        self.t = toks
        self.i = 0

    def peek(self):
        return self.t[self.i] if self.i < len(self.t) else ("eof", "")

    def next(self):
        tk = self.peek()
        self.i += 1
        return tk

    def accept(self, v):
        if self.peek() == ("op", v):
            self.i += 1
            return True
        return False

    def expect(self, v):
        if not self.accept(v):
            raise TrError("expression: expected %r, got %r" % (v, self.peek()))

    def parse(self):
        e = self.ternary()
        if self.peek()[0] != "eof":
            raise TrError("expression: trailing tokens %r" % (self.t[self.i:],))
        return e

    def ternary(self):
        c = self.binlevel(0)
        if self.accept("?"):
            a = self.ternary()
            self.expect(":")
            b = self.ternary()
            return ("if", c, a, b)
        return c

    LEVELS = [["||"], ["&&"], ["==", "!="], ["<", "<=", ">", ">="], ["+", "-"], ["*", "/"]]

    def binlevel(self, k):
        if k == len(self.LEVELS):
            return self.unary()
        e = self.binlevel(k + 1)
        while self.peek()[0] == "op" and self.peek()[1] in self.LEVELS[k]:
            op = self.next()[1]
            r = self.binlevel(k + 1)
            e = ("bin", op, e, r)
        return e

    def unary(self):
        if self.accept("-"):
            return ("neg", self.unary())
        if self.accept("!"):
            return ("not", self.unary())
        if self.peek() == ("id", "not"):
            self.next()
            return ("not", self.unary())
        return self.postfix()

    def postfix(self):
        tk = self.next()
        if tk[0] == "num":
            return ("num", tk[1])
        if tk == ("op", "("):
            e = self.ternary()
            self.expect(")")
            return e
        if tk[0] == "id":
            if self.accept("("):
                args = []
                if not self.accept(")"):
                    while True:
                        args.append(self.ternary())
                        if self.accept(")"):
                            break
                        self.expect(",")
                return ("call", tk[1], args)
            return ("var", tk[1])
        raise TrError("expression: unexpected token %r" % (tk,))


UN = {"exp": "UExp", "log": "ULog", "sin": "USin", "cos": "UCos", "tan": "UTan", "asin": "UAsin",
      "acos": "UAcos", "atan": "UAtan", "sinh": "USinh", "cosh": "UCosh", "tanh": "UTanh",
      "asinh": "UAsinh", "acosh": "UAcosh", "atanh": "UAtanh", "abs": "UAbs", "fabs": "UAbs",
      "tgamma": "UGamma", "lgamma": "ULgamma", "erf": "UErf", "erfc": "UErfc", "floor": "UFloor",
      "ceil": "UCeil", "trunc": "UTrunc", "isnan": "UIsNan"}
BIN = {"pow": "BPow", "atan2": "BAtan2", "max": "BMax", "min": "BMin"}
OPS = {"+": "BAdd", "*": "BMul", "/": "BDiv", "==": "BEq", "!=": "BNe", "<=": "BLe", "<": "BLt",
       "&&": "BAndB", "||": "BOrB"}


def lit_of_number(txt, neg=False):
    v = float(txt)
    if neg:
        v = -v
    if v == 0.0 and not neg:
        return "FLit L0"
    if v == 1.0:
        return "FLit L1"
    if v == -1.0:
        return "FLit LM1"
    bits = struct.unpack("<Q", struct.pack("<d", v))[0]
    return "FLit (LBits %d)" % bits


def libname(name):
    if name.startswith("std::"):
        return name[5:]
    if name.startswith("::"):
        return name[2:]
    return name


def to_fterm(e, env, closure_arg=None):
    """env: variable name -> index of the bound value.  In a lambda closure the bound names are
    closures and occur as calls name(closure_arg)."""
    k = e[0]
    if k == "num":
        return lit_of_number(e[1])
    if k == "neg":
        if e[1][0] == "num":
            return lit_of_number(e[1][1], neg=True)
        if e[1] == ("var", "__INF__"):
            return "FLit LNegInf"
        raise TrError("expression: unary minus on a non-literal")
    if k == "var":
        if e[1] == "__INF__":
            return "FLit LInf"
        if e[1] == "__SNAN__":
            return "FLit LSNaN"
        if closure_arg is None and e[1] in env:
            return "FArg %d" % env[e[1]]
        raise TrError("expression: unknown variable %r" % e[1])
    if k == "call":
        name, args = e[1], e[2]
        if closure_arg is not None and name in env:
            if args != [("var", closure_arg)]:
                raise TrError("expression: closure %s called with %r" % (name, args))
            return "FArg %d" % env[name]
        nm = libname(name)
        if nm == "double" and len(args) == 1:
            return to_fterm(args[0], env, closure_arg)     # double(<0/1 value>)
        if nm in UN and len(args) == 1:
            return "FUn %s (%s)" % (UN[nm], to_fterm(args[0], env, closure_arg))
        if nm in BIN and len(args) == 2:
            return "FBin %s (%s) (%s)" % (BIN[nm], to_fterm(args[0], env, closure_arg), to_fterm(args[1], env, closure_arg))
        raise TrError("expression: unknown function %s/%d" % (name, len(args)))
    if k == "not":
        inner = e[1]
        if inner[0] == "call" and libname(inner[1]) == "bool" and len(inner[2]) == 1:
            inner = inner[2][0]
        return "FUn UNotB (%s)" % to_fterm(inner, env, closure_arg)
    if k == "bin":
        op = e[1]
        if op in (">", ">="):
            raise TrError("expression: operator %s not expected" % op)
        if op == "-":
            raise TrError("expression: binary minus not expected")
        return "FBin %s (%s) (%s)" % (OPS[op], to_fterm(e[2], env, closure_arg), to_fterm(e[3], env, closure_arg))
    if k == "if":
        return "FIf (%s) (%s) (%s)" % (to_fterm(e[1], env, closure_arg), to_fterm(e[2], env, closure_arg), to_fterm(e[3], env, closure_arg))
    raise TrError("expression: unknown node %r" % (e,))


def expr_to_fterm(src, env, closure_arg=None):
    return to_fterm(Parser(tokenize(src)).parse(), env, closure_arg)


# ------------------------------------------------------------------ source slicing
def strip_comments(s):
    s = re.sub(r"/\*.*?\*/", " ", s, flags=re.S)
    s = re.sub(r"//[^\n]*", " ", s)
    return s


def strip_optional(s):
    """remove the #ifdef HAVE_SYMENGINE_MPFR / MPC blocks (not part of the verified configuration)"""
    out = []
    skip = 0
    for line in s.splitlines():
        t = line.strip()
        if re.match(r"#\s*ifdef\s+HAVE_SYMENGINE_(MPFR|MPC)\b", t):
            skip += 1
            continue
        if skip and re.match(r"#\s*if", t):
            skip += 1
            continue
        if skip and re.match(r"#\s*endif", t):
            skip -= 1
            continue
        if skip and re.match(r"#\s*else", t):
            raise TrError("unexpected #else in an optional block")
        if not skip:
            out.append(line)
    return "\n".join(out)


def match_brace(s, i):
    """s[i] == '{' -> index after the matching '}'"""
    assert s[i] == "{"
    d = 0
    while i < len(s):
        if s[i] == "{":
            d += 1
        elif s[i] == "}":
            d -= 1
            if d == 0:
                return i + 1
        i += 1
    raise TrError("unbalanced braces")


def class_body(src, name):
    m = re.search(r"\bclass\s+" + name + r"\b[^;{]*\{", src)
    if not m:
        raise TrError("class %s not found" % name)
    st = m.end() - 1
    en = match_brace(src, st)
    return src[st + 1:en - 1]


def norm(s):
    return " ".join(s.split())


def bvisits(body):
    """[(class, parameter name, normalised body)] of the bvisit overloads of a class body"""
    res = []
    for m in re.finditer(r"void\s+bvisit\s*\(\s*const\s+([A-Za-z0-9_]+)\s*&\s*([A-Za-z0-9_]*)\s*\)\s*\{", body):
        st = m.end() - 1
        en = match_brace(body, st)
        res.append((m.group(1), m.group(2), norm(body[st + 1:en - 1])))
    return res


SEL = {"get_arg()": 0, "get_args()[0]": 0, "get_num()": 0, "get_den()": 1, "get_arg1()": 0,
       "get_arg2()": 1, "get_base()": 0, "get_exp()": 1}
EXN = {"NotImplementedError": 1, "DomainError": 2, "DivisionByZeroError": 3, "ParseError": 4,
       "SerializationError": 5, "SymEngineException": 6}

CONST_NAMES = ["pi", "E", "EulerGamma", "Catalan", "GoldenRatio"]


def bytes_list(s):
    return "[" + "; ".join(str(ord(c)) for c in s) + "]%N"


def check_constant_names():
    src = open(os.path.join(REPO, "symengine", "constants.cpp")).read()
    for n in CONST_NAMES:
        if not re.search(r"DEFINE_CONSTANT\(Constant,\s*%s,\s*constant\(\"%s\"\)\)" % (n, n), src):
            raise TrError("constants.cpp: constant %s is not defined with the name \"%s\"" % (n, n))


def constants_rule(body, assign):
    """if (eq(x, *pi)) { <assign> EXPR; } else if ... else { throw NotImplementedError(...); }"""
    items = []
    rest = body
    first = True
    while True:
        m = re.match((r"" if first else r"else ") + r"if \(eq\(x, \*([A-Za-z]+)\)\) \{ " + assign + r" (.*?); \} ", rest)
        if not m:
            break
        if m.group(1) not in CONST_NAMES:
            raise TrError("Constant: unknown constant %s" % m.group(1))
        items.append((m.group(1), expr_to_fterm(m.group(2), {})))
        rest = rest[m.end():]
        first = False
    if not items or not re.match(r"else \{ throw NotImplementedError\(.*\); \};?$", rest):
        raise TrError("Constant: unrecognised body %r" % body)
    return "RConstants [%s]" % "; ".join("(%s, %s)" % (bytes_list(n), t) for n, t in items)


# ------------------------------------------------------------------ eval visitor bodies
PW_EVAL = norm("""SYMENGINE_ASSERT_MSG( eq(*pw.get_vec().back().second, *boolTrue),
 "EvalDouble requires a (Expr, True) at the end of Piecewise");
 for (const auto &expr_pred : pw.get_vec()) { if (apply(*expr_pred.second) == 1.0) {
 result_ = apply(*expr_pred.first); return; } }
 throw SymEngineException( "Unexpectedly reached end of Piecewise function.");""")


def eval_rule(cls, body):
    b = body
    T = r"(?:T|double)"
    if re.fullmatch(T + r" tmp = mp_get_d\(x\.as_integer_class\(\)\); result_ = tmp;", b):
        return "RLeafInt"
    if re.fullmatch(T + r" tmp = mp_get_d\(x\.as_rational_class\(\)\); result_ = tmp;", b):
        return "RLeafRat"
    if re.fullmatch(T + r" tmp = x\.i; result_ = tmp;", b):
        return "RLeafDbl"
    m = re.fullmatch(T + r" tmp = (0|1); for \(const auto &p : x\.get_args\(\)\) tmp (\+|\*)= apply\(\*p\); result_ = tmp;", b)
    if m:
        return "RFoldArgs %s %s" % ("L0" if m.group(1) == "0" else "L1", "BAdd" if m.group(2) == "+" else "BMul")
    m = re.fullmatch(T + r" exp_ = apply\(\*\(x\.get_exp\(\)\)\); if \(eq\(\*\(x\.get_base\(\)\), \*E\)\) \{ result_ = (.*?); \} "
                     r"else \{ " + T + r" base_ = apply\(\*\(x\.get_base\(\)\)\); result_ = (.*?); \}", b)
    if m:
        return "RPow true (%s) (%s)" % (expr_to_fterm(m.group(1), {"exp_": 0}), expr_to_fterm(m.group(2), {"base_": 0, "exp_": 1}))
    m = re.fullmatch(r"throw ([A-Za-z]+)\(.*\);", b)
    if m:
        if m.group(1) not in EXN:
            raise TrError("%s: unknown exception %s" % (cls, m.group(1)))
        return "RThrow %d" % EXN[m.group(1)]
    if b.startswith("if (eq(x, *"):
        return constants_rule(b, r"result_ =")
    if re.fullmatch(r"apply\(\*\(x\.eval\(53\)\)\);", b):
        return "RWrapper"
    if re.fullmatch(r"apply\(\*x\.get_arg\(\)\);", b):
        return "RPass"
    m = re.fullmatch(r"auto d = x\.get_args\(\); auto p = d\.begin\(\); double result = apply\(\*\(\*p\)\); p\+\+; "
                     r"for \(; p != d\.end\(\); p\+\+\) \{ double tmp = apply\(\*\(\*p\)\); result = std::(max|min)\(result, tmp\); \} "
                     r"result_ = result;", b)
    if m:
        return "RFoldFirst %s 1" % ("BMax" if m.group(1) == "max" else "BMin")
    if re.fullmatch(r"result_ = ba\.get_val\(\);", b):
        return "RBoolAtom"
    if b == PW_EVAL:
        return "RPiecewise true"
    # generic: T v = apply(*(x.SEL)); ... result_ = EXPR;
    env = {}
    sel = []
    rest = b
    while True:
        m = re.match(T + r" ([A-Za-z_0-9]+) = apply\(\*\(x\.(get_[a-z0-9]+\(\)(?:\[0\])?)\)\); ", rest)
        if not m:
            break
        if m.group(2) not in SEL:
            raise TrError("%s: unknown selector %s" % (cls, m.group(2)))
        env[m.group(1)] = len(sel)
        sel.append(SEL[m.group(2)])
        rest = rest[m.end():]
    m = re.fullmatch(r"result_ = (.*);", rest)
    if sel and m:
        return "RFormula [%s] (%s)" % ("; ".join(map(str, sel)), expr_to_fterm(m.group(1), env))
    raise TrError("eval visitor: unrecognised body for bvisit(const %s &): %r" % (cls, body))


# ------------------------------------------------------------------ single-dispatch table
def dispatch_rule(enum, cls, body):
    b = body
    dc = r"\(?down_cast<const " + cls + r" &>\(x\)\)?"
    if re.fullmatch(r"double tmp = mp_get_d\(\(" + dc[3:-3] + r"\)\.as_integer_class\(\)\); return tmp;", b) or \
       re.fullmatch(r"double tmp = mp_get_d\(" + dc + r"\.as_integer_class\(\)\); return tmp;", b):
        return "RLeafInt"
    if re.fullmatch(r"double tmp = mp_get_d\(" + dc + r"\.as_rational_class\(\)\); return tmp;", b):
        return "RLeafRat"
    if re.fullmatch(r"double tmp = " + dc + r"\.i; return tmp;", b):
        return "RLeafDbl"
    m = re.fullmatch(r"double tmp = (0|1); for \(const auto &p : x\.get_args\(\)\) tmp (\+|\*)= eval_double_single_dispatch\(\*p\); return tmp;", b)
    if m:
        return "RFoldArgs %s %s" % ("L0" if m.group(1) == "0" else "L1", "BAdd" if m.group(2) == "+" else "BMul")
    if b.startswith("if (eq(x, *"):
        b2 = re.sub(r"down_cast<const Constant &>\(x\)\.get_name\(\)", "x.get_name()", b)
        return constants_rule(b2, r"return")
    m = re.fullmatch(r"double result; result = eval_double_single_dispatch\( ?\*\(down_cast<const " + cls + r" &>\(x\)\.get_args\(\)\[0\]\)\); "
                     r"for \(const auto &p : down_cast<const " + cls + r" &>\(x\)\.get_args\(\)\) \{ double tmp = eval_double_single_dispatch\(\*p\); "
                     r"result = std::(max|min)\(result, tmp\); \} return result;", b)
    if m:
        return "RFoldFirst %s 0" % ("BMax" if m.group(1) == "max" else "BMin")
    # Pow with the E case (exponent first), if the source has it
    m = re.fullmatch(r"double b = eval_double_single_dispatch\( ?\*" + dc + r"\.get_exp\(\)\); "
                     r"if \(eq\(\*" + dc + r"\.get_base\(\), \*E\)\) \{ return (.*?); \} "
                     r"double a = eval_double_single_dispatch\( ?\*" + dc + r"\.get_base\(\)\); return (.*?);", b)
    if m and cls == "Pow":
        return "RPow true (%s) (%s)" % (expr_to_fterm(m.group(1), {"b": 0}), expr_to_fterm(m.group(2), {"a": 0, "b": 1}))
    env = {}
    sel = []
    rest = b
    while True:
        m = re.match(r"double ([A-Za-z_0-9]+) = eval_double_single_dispatch\( ?\*" + dc + r"\.(get_[a-z0-9]+\(\)(?:\[0\])?)\); ", rest)
        if not m:
            break
        if m.group(2) not in SEL:
            raise TrError("%s: unknown selector %s" % (enum, m.group(2)))
        env[m.group(1)] = len(sel)
        sel.append(SEL[m.group(2)])
        rest = rest[m.end():]
    m = re.fullmatch(r"return (.*);", rest)
    if sel and m:
        t = expr_to_fterm(m.group(1), env)
        if cls == "Pow":
            if sel != [0, 1]:
                raise TrError("dispatch Pow: unexpected argument order")
            return "RPowPlain (%s)" % t
        return "RFormula [%s] (%s)" % ("; ".join(map(str, sel)), t)
    raise TrError("single dispatch: unrecognised body for table[%s]: %r" % (enum, body))


# ------------------------------------------------------------------ lambda bodies
L_SYMBOL = norm("""for (unsigned i = 0; i < symbols.size(); ++i) { if (eq(x, *symbols[i])) {
 result_ = [=](const T *x) { return x[i]; }; return; } }
 auto it = cse_intermediate_fns_map.find(x.rcp_from_this());
 if (it != cse_intermediate_fns_map.end()) { auto index = it->second;
 T *cse_intermediate_result = &(cse_intermediate_results[index]);
 result_ = [=](const T *x) { return *cse_intermediate_result; }; return; }
 throw SymEngineException("Symbol not in the symbols vector.");""")
L_SYMBOL_MAP_FIRST = norm("""auto it = cse_intermediate_fns_map.find(x.rcp_from_this());
 if (it != cse_intermediate_fns_map.end()) { auto index = it->second;
 T *cse_intermediate_result = &(cse_intermediate_results[index]);
 result_ = [=](const T *x) { return *cse_intermediate_result; }; return; }
 for (unsigned i = 0; i < symbols.size(); ++i) { if (eq(x, *symbols[i])) {
 result_ = [=](const T *x) { return x[i]; }; return; } }
 throw SymEngineException("Symbol not in the symbols vector.");""")
L_INFTY = norm("""if (x.is_negative_infinity()) { result_ = [=](const double * ) {
 return -std::numeric_limits<double>::infinity(); }; } else if (x.is_positive_infinity()) {
 result_ = [=](const double * ) { return std::numeric_limits<double>::infinity(); }; } else {
 throw SymEngineException( "LambdaDouble can only represent real valued infinity"); }""")
L_NAN = norm("""assert(&nan == &(*Nan) ); result_ = [](const double * ) {
 return std::numeric_limits<double>::signaling_NaN(); };""")
L_CONTAINS = norm("""const auto fn_expr = apply(*cts.get_expr()); const auto set = cts.get_set();
 if (is_a<Interval>(*set)) { const auto &interv = down_cast<const Interval &>(*set);
 const auto fn_start = apply(*interv.get_start()); const auto fn_end = apply(*interv.get_end());
 const bool left_open = interv.get_left_open(); const bool right_open = interv.get_right_open();
 result_ = [=](const double *x) { const auto val_expr = fn_expr(x); const auto val_start = fn_start(x);
 const auto val_end = fn_end(x); bool left_ok, right_ok;
 if (val_start == -std::numeric_limits<double>::infinity()) { left_ok = !std::isnan(val_expr); }
 else { left_ok = (left_open) ? (val_start < val_expr) : (val_start <= val_expr); }
 if (val_end == std::numeric_limits<double>::infinity()) { right_ok = !std::isnan(val_expr); }
 else { right_ok = (right_open) ? (val_expr < val_end) : (val_expr <= val_end); }
 return (left_ok && right_ok) ? 1.0 : 0.0; }; }
 else { throw SymEngineException("LambdaDoubleVisitor: only ``Interval`` " "implemented for ``Contains``."); }""")
L_BOOLATOM = norm("""const bool val = ba.get_val(); result_ = [=](const double * ) { return (val) ? 1.0 : 0.0; };""")


def lambda_rule(cls, body):
    b = body
    T = r"(?:T|double)"
    CL = r"\[=\]\(const " + T + r" \*(x_?)\) \{ return (.*?); \}"
    if re.fullmatch(r"T tmp = mp_get_d\(x\.as_integer_class\(\)\); result_ = \[=\]\(const T \*x_?\) \{ return tmp; \};", b):
        return "RLeafInt"
    if re.fullmatch(r"T tmp = mp_get_d\(x\.as_rational_class\(\)\); result_ = \[=\]\(const T \*x_?\) \{ return tmp; \};", b):
        return "RLeafRat"
    if re.fullmatch(r"T tmp = x\.i; result_ = \[=\]\(const T \*x_?\) \{ return tmp; \};", b):
        return "RLeafDbl"
    if re.fullmatch(r"T tmp = eval_double\(x\); result_ = \[=\]\(const T \*x\) \{ return tmp; \};", b):
        return "RConstViaEval"
    m = re.fullmatch(r"fn tmp = apply\(\*x\.get_coef\(\)\); fn tmp1, tmp2; for \(const auto &p : x\.get_dict\(\)\) \{ "
                     r"tmp1 = apply\(\*\(p\.first\)\); tmp2 = apply\(\*\(p\.second\)\); "
                     r"tmp = \[=\]\(const T \*x\) \{ return (.*?); \}; \} result_ = tmp;", b)
    if m:
        t = expr_to_fterm(m.group(1), {"tmp": 0, "tmp1": 1, "tmp2": 2}, "x")
        mm = re.fullmatch(r"FBin (B[A-Za-z0-9]+) \(FArg 0\) \(FBin (B[A-Za-z0-9]+) \(FArg 1\) \(FArg 2\)\)", t)
        if not mm:
            raise TrError("lambda %s: dictionary fold of unexpected shape %s" % (cls, t))
        return "RFoldDict %s %s false None" % (mm.group(1), mm.group(2))
    # dictionary fold with the E case: apply(p.second) first, apply(p.first) only when the key is not E
    m = re.fullmatch(r"fn tmp = apply\(\*x\.get_coef\(\)\); fn tmp1, tmp2; for \(const auto &p : x\.get_dict\(\)\) \{ "
                     r"tmp2 = apply\(\*\(p\.second\)\); if \(eq\(\*\(p\.first\), \*E\)\) \{ "
                     r"tmp = \[=\]\(const T \*x\) \{ return (.*?); \}; \} else \{ tmp1 = apply\(\*\(p\.first\)\); "
                     r"tmp = \[=\]\(const T \*x\) \{ return (.*?); \}; \} \} result_ = tmp;", b)
    if m:
        te = expr_to_fterm(m.group(1), {"tmp": 0, "tmp2": 1}, "x")
        t = expr_to_fterm(m.group(2), {"tmp": 0, "tmp1": 1, "tmp2": 2}, "x")
        mm = re.fullmatch(r"FBin (B[A-Za-z0-9]+) \(FArg 0\) \(FBin (B[A-Za-z0-9]+) \(FArg 1\) \(FArg 2\)\)", t)
        me = re.fullmatch(r"FBin (B[A-Za-z0-9]+) \(FArg 0\) \((.*)\)", te)
        if not mm or not me or me.group(1) != mm.group(1) or "FArg 0" in me.group(2) or "FArg 2" in me.group(2):
            raise TrError("lambda %s: dictionary fold of unexpected shape %s / %s" % (cls, t, te))
        ecase = me.group(2).replace("FArg 1", "FArg 0")
        return "RFoldDict %s %s true (Some (%s))" % (mm.group(1), mm.group(2), ecase)
    m = re.fullmatch(r"fn exp_ = apply\(\*\(x\.get_exp\(\)\)\); if \(eq\(\*\(x\.get_base\(\)\), \*E\)\) \{ result_ = " + CL + r"; \} "
                     r"else \{ fn base_ = apply\(\*\(x\.get_base\(\)\)\); result_ = " + CL + r"; \}", b)
    if m:
        return "RPow true (%s) (%s)" % (expr_to_fterm(m.group(2), {"exp_": 0}, m.group(1)),
                                        expr_to_fterm(m.group(4), {"base_": 0, "exp_": 1}, m.group(3)))
    m = re.fullmatch(r"throw ([A-Za-z]+)\(.*\);", b)
    if m:
        return "RThrow %d" % EXN[m.group(1)]
    if re.fullmatch(r"apply\(\*x\.get_arg\(\)\);", b):
        return "RPass"
    m = re.fullmatch(r"std::vector<fn> applys; for \(const auto &p : x\.get_args\(\)\) \{ applys\.push_back\(apply\(\*p\)\); \} "
                     r"result_ = \[=\]\(const double \*x\) \{ bool result = bool\(applys\[0\]\(x\)\); "
                     r"for \(unsigned int i = (\d+); i < applys\.size\(\); i\+\+\) \{ result = result (&&|\|\||!=) bool\(applys\[i\]\(x\)\); \} "
                     r"return double\(result\); \};", b)
    if m:
        return "RBoolFold %s %s" % ({"&&": "BAndB", "||": "BOrB", "!=": "BXorB"}[m.group(2)], m.group(1))
    m = re.fullmatch(r"std::vector<fn> applys; for \(const auto &p : x\.get_args\(\)\) \{ applys\.push_back\(apply\(\*p\)\); \} "
                     r"result_ = \[=\]\(const double \*x\) \{ double result = applys\[0\]\(x\); "
                     r"for \(unsigned int i = (\d+); i < applys\.size\(\); i\+\+\) \{ result = std::(max|min)\(result, applys\[i\]\(x\)\); \} "
                     r"return result; \};", b)
    if m:
        return "RFoldFirst %s %s" % ("BMax" if m.group(2) == "max" else "BMin", m.group(1))
    if b == L_SYMBOL:
        return "RSymbol false"
    if b == L_SYMBOL_MAP_FIRST:
        return "RSymbol true"
    if b == L_INFTY:
        return "RInfty"
    if b == L_NAN:
        return "RNaN"
    if b == L_CONTAINS:
        return "RContains"
    if b == L_BOOLATOM:
        return "RBoolAtom"
    m = re.fullmatch(r"SYMENGINE_ASSERT_MSG\( eq\(\*pw\.get_vec\(\)\.back\(\)\.second, \*boolTrue\), "
                     r"\"LambdaDouble requires a \(Expr, True\) at the end of Piecewise\"\); "
                     r"std::vector<fn> applys; std::vector<fn> preds; for \(const auto &expr_pred : pw\.get_vec\(\)\) \{ "
                     r"applys\.push_back\(apply\(\*expr_pred\.first\)\); preds\.push_back\(apply\(\*expr_pred\.second\)\); \} "
                     r"result_ = \[=\]\(const double \*x\) \{ for \(size_t i = 0;( i < preds\.size\(\)| i < applys\.size\(\)|); \+\+i\) \{ "
                     r"if \(preds\[i\]\(x\) == 1\.0\) \{ return applys\[i\]\(x\); \} \} "
                     r"throw SymEngineException\( \"Unexpectedly reached end of Piecewise function\.\"\); \};", b)
    if m:
        return "RPiecewise %s" % ("false" if m.group(1) == "" else "true")
    env = {}
    sel = []
    rest = b
    while True:
        m = re.match(r"fn ([A-Za-z_0-9]+) = apply\(\*\(x\.(get_[a-z0-9]+\(\)(?:\[0\])?)\)\); ", rest)
        if not m:
            break
        if m.group(2) not in SEL:
            raise TrError("lambda %s: unknown selector %s" % (cls, m.group(2)))
        env[m.group(1)] = len(sel)
        sel.append(SEL[m.group(2)])
        rest = rest[m.end():]
    m = re.fullmatch(r"result_ = " + CL + r";", rest)
    if sel and m:
        return "RFormula [%s] (%s)" % ("; ".join(map(str, sel)), expr_to_fterm(m.group(2), env, m.group(1)))
    raise TrError("lambda: unrecognised body for bvisit(const %s &): %r" % (cls, body))


# ------------------------------------------------------------------ class hierarchy / overload resolution
def read_hierarchy():
    parent = {}
    for f in sorted(glob.glob(os.path.join(REPO, "symengine", "*.h")) + glob.glob(os.path.join(REPO, "symengine", "*", "*.h"))):
        src = strip_comments(open(f, errors="replace").read())
        for m in re.finditer(r"\bclass\s+([A-Za-z0-9_]+)\s*(?:final\s*)?:\s*public\s+([A-Za-z0-9_:]+)\s*(<[^{;]*?>)?\s*(?:,[^{;]*)?\{", src):
            name, base, targ = m.group(1), m.group(2), m.group(3)
            base = base.split("::")[-1]
            if base in ("TwoArgBasic",) and targ:
                base = targ.strip("<> ").split("::")[-1]
            if base == "BaseClass":
                continue
            if base in ("USymEnginePoly", "UIntPolyBase", "URatPolyBase", "UExprPolyBase", "UPolyBase", "MSymEnginePoly",
                        "UFlintPoly", "UPiranhaPoly", "UNonExprPoly", "SeriesBase", "SeriesCoeffInterface"):
                base = "Basic"      # polynomial / series wrappers: no bvisit overload concerns them
            parent.setdefault(name, base)
    return parent


def ancestors(cls, parent):
    chain = [cls]
    seen = set(chain)
    while chain[-1] in parent:
        nxt = parent[chain[-1]]
        if nxt in seen:
            break
        chain.append(nxt)
        seen.add(nxt)
    return chain


def resolve(cls, overloads, parent):
    for a in ancestors(cls, parent):
        if a in overloads:
            return a
    if "Basic" in overloads:
        return "Basic"
    raise TrError("no bvisit overload reachable for %s" % cls)


def read_typecodes():
    names = []
    for line in open(os.path.join(REPO, "symengine", "type_codes.inc")):
        m = re.match(r"^SYMENGINE_ENUM\(\s*([A-Z0-9_]+)\s*,\s*([A-Za-z0-9_]+)\s*\)$", line.strip())
        if m:
            names.append((m.group(1), m.group(2)))
    if len(names) < 100:
        raise TrError("type_codes.inc: too few codes")
    return names


def table_text(name, comment, rows):
    out = ["(* %s *)" % comment, "Definition %s : list (N * rule) := [" % name]
    out.append(";\n".join("  (TC_%s, %s)" % (c, r) for c, r in rows))
    out.append("].")
    return "\n".join(out)


def write_if_changed(path, txt):
    if not os.path.exists(path) or open(path).read() != txt:
        os.makedirs(os.path.dirname(path), exist_ok=True)
        open(path, "w").write(txt)
        print("tr_evalrules: regenerated %s" % path)


HEADER = """(* GENERATED by translators/tr_evalrules.py from %s -- do not edit. *)
From Coq Require Import List NArith.
From SE Require Import Gen.TypeCodes Eval.EvalTerm.
Import ListNotations.
"""


def main():
    check_constant_names()
    codes = read_typecodes()
    parent = read_hierarchy()
    # ---- eval_double.cpp
    src = strip_optional(strip_comments(open(os.path.join(REPO, "symengine", "eval_double.cpp")).read()))
    base = {c: (p, b) for c, p, b in bvisits(class_body(src, "EvalDoubleVisitor"))}
    real = dict(base)
    for c, p, b in bvisits(class_body(src, "EvalRealDoubleVisitor")):
        real[c] = (p, b)
    if "using EvalDoubleVisitor<double, C>::bvisit;" not in norm(class_body(src, "EvalRealDoubleVisitor")):
        raise TrError("EvalRealDoubleVisitor no longer imports the base class overloads")
    if len(real) < 50:
        raise TrError("eval visitor: too few bvisit overloads found (%d)" % len(real))
    cache = {}
    vis_rows = []
    for enum, cls in codes:
        o = resolve(cls, real, parent)
        if o not in cache:
            p, b = real[o]
            b = re.sub(r"\b%s\b" % (p or "x"), "x", b) if p and p not in ("x", "ba", "pw") else b
            cache[o] = eval_rule(o, b)
        vis_rows.append((cls, cache[o]))
    # ---- single dispatch table
    m = re.search(r"static inline std::vector<fn> init_eval_double\(\)\s*\{", src)
    if not m:
        raise TrError("init_eval_double not found")
    st = m.end() - 1
    tb = src[st + 1:match_brace(src, st) - 1]
    m = re.search(r"table\.assign\(TypeID_Count, \[\]\(const Basic &x\) -> double \{\s*throw (\w+)\(", tb)
    if not m:
        raise TrError("init_eval_double: default entry not recognised")
    default = "RThrow %d" % EXN[m.group(1)]
    enum2cls = dict(codes)
    entries = {}
    for m in re.finditer(r"table\[([A-Z0-9_]+)\]\s*=\s*\[\]\(const Basic &x\)\s*\{", tb):
        st = m.end() - 1
        en = match_brace(tb, st)
        if m.group(1) not in enum2cls:
            raise TrError("init_eval_double: unknown enum %s" % m.group(1))
        entries[enum2cls[m.group(1)]] = dispatch_rule(m.group(1), enum2cls[m.group(1)], norm(tb[st + 1:en - 1]))
    if len(entries) != len(re.findall(r"table\[", tb)) or len(entries) < 40:
        raise TrError("init_eval_double: not every table[...] assignment was recognised")
    disp_rows = [(cls, entries.get(cls, default)) for _, cls in codes]
    txt = HEADER % "symengine/eval_double.cpp" + "\n" + \
        table_text("visitor_rules", "EvalRealDoubleVisitor: the bvisit overload selected for each TypeID", vis_rows) + "\n\n" + \
        table_text("dispatch_rules", "init_eval_double: the table of eval_double_single_dispatch", disp_rows) + "\n"
    write_if_changed(os.path.join(OUTDIR, "Gen_EvalRules.v"), txt)
    # ---- lambda_double.h
    src = strip_optional(strip_comments(open(os.path.join(REPO, "symengine", "lambda_double.h")).read()))
    lam = {c: (p, b) for c, p, b in bvisits(class_body(src, "LambdaDoubleVisitor"))}
    for c, p, b in bvisits(class_body(src, "LambdaRealDoubleVisitor")):
        lam[c] = (p, b)
    if "using LambdaDoubleVisitor::bvisit;" not in norm(class_body(src, "LambdaRealDoubleVisitor")):
        raise TrError("LambdaRealDoubleVisitor no longer imports the base class overloads")
    cache = {}
    lam_rows = []
    for enum, cls in codes:
        o = resolve(cls, lam, parent)
        if o not in cache:
            cache[o] = lambda_rule(o, lam[o][1])
        lam_rows.append((cls, cache[o]))
    # init / call of LambdaDoubleVisitor are hand-transcribed in Eval/LambdaModel.v: pin their text
    body = class_body(src, "LambdaDoubleVisitor")
    init_txt = None
    m = re.search(r"void init\(const vec_basic &inputs, const vec_basic &outputs,\s*bool cse = false\)\s*\{", body)
    if m:
        st = m.end() - 1
        init_txt = norm(body[st + 1:match_brace(body, st) - 1])
    m2 = re.search(r"void call\(T \*outs, const T \*inps\)\s*\{", body)
    call_txt = None
    if m2:
        st = m2.end() - 1
        call_txt = norm(body[st + 1:match_brace(body, st) - 1])
    clear_first = None
    if init_txt is not None:
        variants = {False: INIT_TXT % "", True: INIT_TXT % "cse_intermediate_fns_map.clear(); "}
        for k, v in variants.items():
            if init_txt == norm(v):
                clear_first = k
    if clear_first is None:
        raise TrError("LambdaDoubleVisitor::init: body not recognised: %r" % init_txt)
    if call_txt != norm(CALL_TXT):
        raise TrError("LambdaDoubleVisitor::call: body not recognised: %r" % call_txt)
    txt = HEADER % "symengine/lambda_double.h" + "\n" + \
        table_text("lambda_rules", "LambdaRealDoubleVisitor: the bvisit overload selected for each TypeID", lam_rows) + "\n\n" + \
        "(* LambdaDoubleVisitor::init clears cse_intermediate_fns_map before anything else *)\n" + \
        "Definition init_clears_map_first : bool := %s.\n" % ("true" if clear_first else "false")
    write_if_changed(os.path.join(OUTDIR, "Gen_LambdaRules.v"), txt)
    return 0


INIT_TXT = """results.clear(); cse_intermediate_fns.clear(); %ssymbols = inputs;
 if (not cse) { for (auto &p : outputs) { results.push_back(apply(*p)); } } else {
 vec_basic reduced_exprs; vec_pair replacements; SymEngine::cse(replacements, reduced_exprs, outputs);
 cse_intermediate_results.resize(replacements.size()); for (auto &rep : replacements) {
 auto res = apply(*(rep.second)); cse_intermediate_fns_map[rep.first] = cse_intermediate_fns.size();
 cse_intermediate_fns.push_back(res); }
 for (unsigned i = 0; i < outputs.size(); i++) { results.push_back(apply(*reduced_exprs[i])); }
 cse_intermediate_fns_map.clear(); symbols.clear(); }"""
CALL_TXT = """if (cse_intermediate_fns.size() > 0) { for (unsigned i = 0; i < cse_intermediate_fns.size(); ++i) {
 cse_intermediate_results[i] = cse_intermediate_fns[i](inps); } }
 for (unsigned i = 0; i < results.size(); ++i) { outs[i] = results[i](inps); } return;"""

if __name__ == "__main__":
    try:
        sys.exit(main())
    except TrError as e:
        print("tr_evalrules: FAILED: %s" % e)
        sys.exit(1)
