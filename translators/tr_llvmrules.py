#!/usr/bin/env python3
"""Regenerates coq/C14/Gen_LlvmRules.v from
  symengine/llvm_double.cpp  LLVMVisitor::bvisit bodies (IRBuilder call sequences: CreateFAdd / CreateFMul, intrinsic and
                             external calls, fcmp + uitofp, and / or / xor, the Pow case split) and the
                             SYMENGINE_*_FUNCTION macros with their instantiations
  symengine/visitor.h        RewriteTrigVisitor::visit (cot -> 1/tan, asec -> acos(1/x), ...)
For every TypeID the member LLVMDoubleVisitor selects is found as C++ does: a `visit` override of
LLVMDoubleVisitor, else one of RewriteTrigVisitor, else the bvisit overload of the nearest base class.
A body whose shape is not recognised makes the translator FAIL (exit 1): a broken tie.
Files are written only when their content changes."""
import os
import re
import sys

sys.path.insert(0, os.path.dirname(os.path.abspath(__file__)))
import tr_evalrules as T  # noqa: E402
from tr_evalrules import TrError  # noqa: E402

REPO = T.REPO
ROOT = T.ROOT
OUTDIR = os.environ.get("LLVMRULES_OUT", os.path.join(ROOT, "coq", "C14"))

FT = r"get_float_type\(&mod->getContext\(\)\)"
INTR1 = {"sin": "USin", "cos": "UCos", "log": "ULog", "fabs": "UAbs", "floor": "UFloor", "ceil": "UCeil", "trunc": "UTrunc",
         "exp": "UExp"}
EXT1 = {"tan": "UTan", "asin": "UAsin", "acos": "UAcos", "atan": "UAtan", "sinh": "USinh", "cosh": "UCosh", "tanh": "UTanh",
        "asinh": "UAsinh", "acosh": "UAcosh", "atanh": "UAtanh", "tgamma": "UGamma", "lgamma": "ULgamma", "erf": "UErf",
        "erfc": "UErfc", "sin": "USin", "cos": "UCos", "log": "ULog", "exp": "UExp"}
EXT2 = {"atan2": "BAtan2", "pow": "BPow"}
FCMP = {"CreateFCmpOEQ": "OEQ", "CreateFCmpONE": "ONE", "CreateFCmpOLE": "OLE", "CreateFCmpOLT": "OLT", "CreateFCmpUNE": "UNE"}
BITS = {"CreateAnd": "BitAnd", "CreateOr": "BitOr", "CreateXor": "BitXor"}


def intr_fun(name):
    if name == "exp2":
        return "LFExp2"
    if name in INTR1:
        return "LF true %s" % INTR1[name]
    raise TrError("unknown unary intrinsic llvm::Intrinsic::%s" % name)


def out_of_class_bodies(src, cls):
    """void Cls::bvisit(const X &x) { ... } / void Cls::visit(const X &x) { ... } defined at namespace level"""
    res = {}
    for m in re.finditer(r"void\s+" + cls + r"::(bvisit|visit)\s*\(\s*const\s+([A-Za-z0-9_]+)\s*&\s*([A-Za-z0-9_]*)\s*\)\s*\{", src):
        st = m.end() - 1
        en = T.match_brace(src, st)
        res[(m.group(1), m.group(2))] = (m.group(3), T.norm(src[st + 1:en - 1]))
    return res


def macro_text(src, name):
    """the replacement text of a #define (continued with backslashes), normalised"""
    m = re.search(r"#define\s+" + name + r"\(([^)]*)\)((?:.*\\\n)*.*)\n", src)
    if not m:
        raise TrError("macro %s not found" % name)
    return [p.strip() for p in m.group(1).split(",")], T.norm(m.group(2).replace("\\\n", "\n"))


UN_INTR = re.compile(r"std::vector<llvm::Value \*> args; llvm::Function \*fun; args\.push_back\(apply\(\*x\.get_arg\(\)\)\); "
                     r"fun = get_float_intrinsic\(" + FT + r", llvm::Intrinsic::([a-z0-9]+), 1, mod\); "
                     r"auto r = builder->CreateCall\(fun, args\); r->setTailCall\(true\); result_ = r;")

REL_MACRO = T.norm("""void LLVMVisitor::bvisit(const Class &x) { llvm::Value *left = apply(*x.get_arg1());
 llvm::Value *right = apply(*x.get_arg2()); result_ = builder->method(left, right);
 result_ = builder->CreateUIToFP(result_, get_float_type(&mod->getContext())); }""")
REL_MACRO_SWAPPED = REL_MACRO.replace("method(left, right)", "method(right, left)")

LOGIC_MACRO = T.norm("""void LLVMVisitor::bvisit(const Class &x) { llvm::Value *value = nullptr; llvm::Value *tmp;
 set_double(0.0); llvm::Value *zero_val = result_; for (auto &p : x.get_container()) {
 tmp = builder->CreateFCmpONE(apply(*p), zero_val); if (value == nullptr) { value = tmp; } else {
 value = builder->method(value, tmp); } } result_ = builder->CreateUIToFP(value, get_float_type(&mod->getContext())); }""")

EXT_MACRO_DOUBLE = T.norm("""void LLVMDoubleVisitor::visit(const Class &x) { vec_basic basic_args = x.get_args();
 llvm::Function *func = get_external_function(#ext, basic_args.size()); std::vector<llvm::Value *> args;
 for (const auto &arg : basic_args) { args.push_back(apply(*arg)); } auto r = builder->CreateCall(func, args);
 r->setTailCall(true); result_ = r; }""")

NOT_BODY = T.norm("""set_double(0.0); llvm::Value *zero_val = result_;
 llvm::Value *value = builder->CreateFCmpONE(apply(*x.get_arg()), zero_val);
 result_ = builder->CreateUIToFP(builder->CreateNot(value), get_float_type(&mod->getContext()));""")

MUL_RE = re.compile(re.escape(T.norm("""llvm::Value *tmp = nullptr; bool first = true; for (const auto &p : x.get_args()) {
 if (first) { tmp = apply(*p); } else { tmp = builder->CreateFMul(@A@); } first = false; } result_ = tmp;""")).replace("@A@", r"(tmp, apply\(\*p\)|apply\(\*p\), tmp)"))

MINMAX_RE = re.compile(re.escape(T.norm("""llvm::Value *value = nullptr; llvm::Function *fun;
 fun = get_float_intrinsic(get_float_type(&mod->getContext()), llvm::Intrinsic::@N@, 1, mod);
 for (auto &arg : x.get_vec()) { if (value != nullptr) { std::vector<llvm::Value *> args; args.push_back(@P1@);
 args.push_back(@P2@); auto r = builder->CreateCall(fun, args); r->setTailCall(true); value = r; } else {
 value = apply(*arg); } } result_ = value;""")).replace("@N@", "([a-z]+)").replace("@P1@", r"(value|apply\(\*arg\))").replace("@P2@", r"(value|apply\(\*arg\))"))

ADD_RE = re.compile(re.escape(T.norm("""llvm::Value *tmp, *tmp1, *tmp2; auto it = x.get_dict().begin();
 if (eq(*x.get_coef(), *zero)) { if (eq(*one, *(it->second))) { tmp = apply(*(it->first)); } else {
 tmp1 = apply(*(it->@K1@)); tmp2 = apply(*(it->@K2@)); tmp = builder->CreateFMul(tmp1, tmp2); } ++it; } else {
 tmp = apply(*x.get_coef()); } for (; it != x.get_dict().end(); ++it) { if (eq(*one, *(it->second))) {
 tmp1 = apply(*(it->first)); tmp = builder->CreateFAdd(tmp, tmp1); } else { tmp1 = apply(*(it->@K3@));
 tmp2 = apply(*(it->@K4@)); tmp = builder->CreateFAdd(tmp, builder->CreateFMul(tmp1, tmp2)); } } result_ = tmp;"""))
                    .replace("@K1@", "(first|second)").replace("@K2@", "(first|second)").replace("@K3@", "(first|second)").replace("@K4@", "(first|second)"))

POW_RE = re.compile(re.escape(T.norm("""std::vector<llvm::Value *> args; llvm::Function *fun; if (eq(*(x.get_base()), *E)) {
 args.push_back(apply(*x.@E1@())); fun = get_float_intrinsic(get_float_type(&mod->getContext()), llvm::Intrinsic::@I1@, 1, mod);
 } else if (eq(*(x.get_base()), *integer(2))) { args.push_back(apply(*x.@E2@()));
 fun = get_float_intrinsic(get_float_type(&mod->getContext()), llvm::Intrinsic::@I2@, 1, mod); } else {
 if (is_a<Integer>(*x.get_exp())) { if (eq(*x.get_exp(), *integer(2))) { llvm::Value *tmp = apply(*x.@E3@());
 result_ = builder->CreateFMul(tmp, tmp); return; } else { args.push_back(apply(*x.@E4@()));
 int d = numeric_cast<int>( mp_get_si(static_cast<const Integer &>(*x.get_exp()) .as_integer_class()));
 result_ = llvm::ConstantInt::get( llvm::Type::getInt32Ty(mod->getContext()), d, true); args.push_back(result_);
 fun = get_powi(); } } else { args.push_back(apply(*x.@E5@())); args.push_back(apply(*x.@E6@()));
 fun = get_float_intrinsic(get_float_type(&mod->getContext()), llvm::Intrinsic::@I3@, 1, mod); } }
 auto r = builder->CreateCall(fun, args); r->setTailCall(true); result_ = r;"""))
                    .replace("@E1@", "(get_base|get_exp)").replace("@E2@", "(get_base|get_exp)").replace("@E3@", "(get_base|get_exp)")
                    .replace("@E4@", "(get_base|get_exp)").replace("@E5@", "(get_base|get_exp)").replace("@E6@", "(get_base|get_exp)")
                    .replace("@I1@", "([a-z0-9]+)").replace("@I2@", "([a-z0-9]+)").replace("@I3@", "([a-z0-9]+)"))

PINNED = {
    "Integer": (T.norm("result_ = llvm::ConstantFP::get(get_float_type(&mod->getContext()), mp_get_d(x.as_integer_class()));"), "LRLeafInt"),
    "Rational": (T.norm("set_double(mp_get_d(x.as_rational_class()));"), "LRLeafRat"),
    "RealDouble": (T.norm("set_double(x.i);"), "LRLeafDbl"),
    "Constant": (T.norm("set_double(eval_double(x));"), "LRConstant"),
    "UnevaluatedExpr": (T.norm("apply(*x.get_arg());"), "LRPass"),
    "BooleanAtom": (T.norm("const bool val = x.get_val(); set_double(val ? 1.0 : 0.0);"), "LRBoolAtom"),
    "NaN": (T.norm("result_ = llvm::ConstantFP::getNaN(get_float_type(&mod->getContext()), false, 0);"), "LRNaN"),
    "Infty": (T.norm("""if (x.is_negative_infinity()) { result_ = llvm::ConstantFP::getInfinity( get_float_type(&mod->getContext()), true);
 } else if (x.is_positive_infinity()) { result_ = llvm::ConstantFP::getInfinity( get_float_type(&mod->getContext()), false);
 } else { throw SymEngineException( "LLVMDouble can only represent real valued infinity"); }"""), "LRInfty"),
    "Sign": (T.norm("""const auto x2 = x.get_arg(); PiecewiseVec new_pw; new_pw.push_back({real_double(0.0), Eq(x2, real_double(0.0))});
 new_pw.push_back({real_double(-1.0), Lt(x2, real_double(0.0))}); new_pw.push_back({real_double(1.0), boolTrue});
 auto pw = rcp_static_cast<const Piecewise>(piecewise(std::move(new_pw))); bvisit(*pw);"""), "LRSign"),
    "Contains": (T.norm("""llvm::Value *expr = apply(*cts.get_expr()); const auto set = cts.get_set(); if (is_a<Interval>(*set)) {
 const auto &interv = down_cast<const Interval &>(*set); llvm::Value *start = apply(*interv.get_start());
 llvm::Value *end = apply(*interv.get_end()); const bool left_open = interv.get_left_open();
 const bool right_open = interv.get_right_open(); llvm::Value *left_ok; llvm::Value *right_ok;
 left_ok = (left_open) ? builder->CreateFCmpOLT(start, expr) : builder->CreateFCmpOLE(start, expr);
 right_ok = (right_open) ? builder->CreateFCmpOLT(expr, end) : builder->CreateFCmpOLE(expr, end);
 result_ = builder->CreateAnd(left_ok, right_ok); result_ = builder->CreateUIToFP(result_, get_float_type(&mod->getContext()));
 } else { throw SymEngineException("LLVMVisitor: only ``Interval`` " "implemented for ``Contains``."); }"""), "LRContains"),
}

SYM_INPUTS = "unsigned i = 0; for (auto &symb : symbols) { if (eq(x, *symb)) { result_ = symbol_ptrs[i]; return; } ++i; } "
SYM_MAP = "auto it = replacement_symbol_ptrs.find(x.rcp_from_this()); if (it != replacement_symbol_ptrs.end()) { result_ = it->second; return; } "
SYM_THROW = 'throw SymEngineException("Symbol " + x.__str__() + " not in the symbols vector.");'
SYMBOL_INPUTS_FIRST = SYM_INPUTS + SYM_MAP + SYM_THROW
SYMBOL_MAP_FIRST = SYM_MAP + SYM_INPUTS + SYM_THROW

PIECEWISE_TXT = T.norm("""std::vector<llvm::BasicBlock> blocks; RCP<const Piecewise> pw = x.rcp_from_this_cast<const Piecewise>();
 if (neq(*pw->get_vec().back().second, *boolTrue)) { throw SymEngineException( "LLVMDouble requires a (Expr, True) at the end of Piecewise"); }
 if (pw->get_vec().size() > 2) { PiecewiseVec rest = pw->get_vec(); rest.erase(rest.begin()); auto rest_pw = piecewise(std::move(rest));
 PiecewiseVec new_pw; new_pw.push_back(*pw->get_vec().begin()); new_pw.push_back({rest_pw, pw->get_vec().back().second});
 pw = piecewise(std::move(new_pw)) ->rcp_from_this_cast<const Piecewise>(); } else if (pw->get_vec().size() < 2) {
 throw SymEngineException("Invalid Piecewise object"); } auto cond_basic = pw->get_vec().front().second;
 llvm::Value *cond = apply(*cond_basic); cond = builder->CreateFCmpONE( cond, llvm::ConstantFP::get(get_float_type(&mod->getContext()), 0.0), "ifcond");
 llvm::Function *function = builder->GetInsertBlock()->getParent();
 llvm::BasicBlock *then_bb = llvm::BasicBlock::Create(mod->getContext(), "then", function);
 llvm::BasicBlock *else_bb = llvm::BasicBlock::Create(mod->getContext(), "else");
 llvm::BasicBlock *merge_bb = llvm::BasicBlock::Create(mod->getContext(), "ifcont"); builder->CreateCondBr(cond, then_bb, else_bb);
 builder->SetInsertPoint(then_bb); llvm::Value *then_value = apply(*pw->get_vec().front().first); builder->CreateBr(merge_bb);
 then_bb = builder->GetInsertBlock(); #if (LLVM_VERSION_MAJOR < 16) function->getBasicBlockList().push_back(else_bb); #else
 function->insert(function->end(), else_bb); #endif builder->SetInsertPoint(else_bb);
 llvm::Value *else_value = apply(*pw->get_vec().back().first); builder->CreateBr(merge_bb); else_bb = builder->GetInsertBlock();
 #if (LLVM_VERSION_MAJOR < 16) function->getBasicBlockList().push_back(merge_bb); #else function->insert(function->end(), merge_bb); #endif
 builder->SetInsertPoint(merge_bb); llvm::PHINode *phi_node = builder->CreatePHI(get_float_type(&mod->getContext()), 2);
 phi_node->addIncoming(then_value, then_bb); phi_node->addIncoming(else_value, else_bb); result_ = phi_node;""")


def arg_index(sel):
    return {"get_base": 0, "get_exp": 1}[sel]


def bvisit_rule(cls, param, body):
    b = body
    if param and param not in ("x",):
        pass
    m = re.fullmatch(r"throw ([A-Za-z]+)\(.*\);", b)
    if m:
        return "LRThrow %d" % T.EXN[m.group(1)]
    if cls in PINNED:
        txt, rule = PINNED[cls]
        if b.replace("/*negative=*/", "").replace("/*payload=*/", "") != txt:
            raise TrError("bvisit(const %s &): body not recognised: %r" % (cls, b))
        return rule
    if cls == "Symbol":
        if b == SYMBOL_INPUTS_FIRST:
            return "LRSymbol false"
        if b == SYMBOL_MAP_FIRST:
            return "LRSymbol true"
        raise TrError("bvisit(const Symbol &): body not recognised: %r" % b)
    if cls == "Piecewise":
        if b != PIECEWISE_TXT:
            raise TrError("bvisit(const Piecewise &): body not recognised")
        return "LRPiecewise"
    if cls == "Not":
        if b != NOT_BODY:
            raise TrError("bvisit(const Not &): body not recognised: %r" % b)
        return "LRFormula [0] (TU2F (TNot (TCmp ONE (TArg 0) (TLit L0))))"
    m = UN_INTR.fullmatch(b)
    if m:
        return "LRFormula [0] (TCall1 (%s) (TArg 0))" % intr_fun(m.group(1))
    m = MUL_RE.fullmatch(b)
    if m and cls == "Mul":
        return "LRFoldArgs None %s" % ("true" if m.group(1).startswith("tmp") else "false")
    m = MINMAX_RE.fullmatch(b)
    if m and cls in ("Max", "Min"):
        fn = {"maxnum": "LMaxNum", "minnum": "LMinNum"}.get(m.group(1))
        if fn is None or {m.group(2), m.group(3)} != {"value", "apply(*arg)"}:
            raise TrError("bvisit(const %s &): intrinsic / operands not recognised" % cls)
        return "LRFoldArgs (Some %s) %s" % (fn, "true" if m.group(2) == "value" else "false")
    m = ADD_RE.fullmatch(b)
    if m and cls == "Add":
        ks = m.groups()
        if set(ks[:2]) != {"first", "second"} or ks[:2] != ks[2:]:
            raise TrError("bvisit(const Add &): term operands %r" % (ks,))
        return "LRAdd true true %s" % ("true" if ks[0] == "first" else "false")
    m = POW_RE.fullmatch(b)
    if m and cls == "Pow":
        e1, i1, e2, i2, e3, e4, e5, e6, i3 = m.groups()
        if {e5, e6} != {"get_base", "get_exp"}:
            raise TrError("bvisit(const Pow &): operands of the general case %r" % ((e5, e6),))
        if i3 not in EXT2:
            raise TrError("bvisit(const Pow &): general intrinsic %s" % i3)
        return "LRPow (TCall1 (%s) (TArg %d)) (TCall1 (%s) (TArg %d)) (TSquare (TArg %d)) (TPowi (TArg %d)) (TCall2 (LF2 true %s) (TArg %d) (TArg %d)) %s" % (
            intr_fun(i1), arg_index(e1), intr_fun(i2), arg_index(e2), arg_index(e3), arg_index(e4), EXT2[i3], arg_index(e5), arg_index(e6),
            "true" if e5 == "get_base" else "false")
    raise TrError("bvisit(const %s &): body not recognised: %r" % (cls, b))


# ---- RewriteTrigVisitor: div(one, f(x.get_arg())) / f(div(one, x.get_arg()))
def rewrite_rule(cls, body):
    m = re.fullmatch(r"div\(one, ([a-z]+)\(x\.get_arg\(\)\)\)->accept\(\*this\);", body)
    if m and m.group(1) in EXT1:
        return "LRRewrite (FBin BDiv (FLit L1) (FUn %s (FArg 0)))" % EXT1[m.group(1)]
    m = re.fullmatch(r"([a-z]+)\(div\(one, x\.get_arg\(\)\)\)->accept\(\*this\);", body)
    if m and m.group(1) in EXT1:
        return "LRRewrite (FUn %s (FBin BDiv (FLit L1) (FArg 0)))" % EXT1[m.group(1)]
    raise TrError("RewriteTrigVisitor::visit(const %s &): body not recognised: %r" % (cls, body))


HEADER = """(* GENERATED by translators/tr_llvmrules.py from symengine/llvm_double.cpp, symengine/visitor.h -- do not edit. *)
From Coq Require Import List NArith.
From SE Require Import Gen.TypeCodes Eval.EvalTerm C14.LlvmTerm.
Import ListNotations.
"""


def write_if_changed(path, txt):
    if not os.path.exists(path) or open(path).read() != txt:
        os.makedirs(os.path.dirname(path), exist_ok=True)
        open(path, "w").write(txt)
        print("tr_llvmrules: regenerated %s" % path)


def main():
    codes = T.read_typecodes()
    parent = T.read_hierarchy()
    raw = open(os.path.join(REPO, "symengine", "llvm_double.cpp")).read()
    src = T.strip_optional(T.strip_comments(raw))
    # ---- macros and their instantiations
    inst = {}      # class -> rule
    params, txt = macro_text(src, "SYMENGINE_RELATIONAL_FUNCTION")
    if params != ["Class", "method"] or txt not in (REL_MACRO, REL_MACRO_SWAPPED):
        raise TrError("SYMENGINE_RELATIONAL_FUNCTION: body not recognised: %r" % txt)
    rel_args = "(TArg 0) (TArg 1)" if txt == REL_MACRO else "(TArg 1) (TArg 0)"
    for m in re.finditer(r"^SYMENGINE_RELATIONAL_FUNCTION\((\w+), (\w+)\);", src, re.M):
        if m.group(2) not in FCMP:
            raise TrError("relational %s: unknown builder method %s" % (m.group(1), m.group(2)))
        inst[("bvisit", m.group(1))] = "LRFormula [0; 1] (TU2F (TCmp %s %s))" % (FCMP[m.group(2)], rel_args)
    params, txt = macro_text(src, "SYMENGINE_LOGIC_FUNCTION")
    if params != ["Class", "method"] or txt != LOGIC_MACRO:
        raise TrError("SYMENGINE_LOGIC_FUNCTION: body not recognised: %r" % txt)
    for m in re.finditer(r"^SYMENGINE_LOGIC_FUNCTION\((\w+), (\w+)\);", src, re.M):
        if m.group(2) not in BITS:
            raise TrError("logic %s: unknown builder method %s" % (m.group(1), m.group(2)))
        inst[("bvisit", m.group(1))] = "LRLogic %s" % BITS[m.group(2)]
    params, txt = macro_text(src, "_SYMENGINE_MACRO_EXTERNAL_FUNCTION")
    if params != ["Class", "ext"] or not txt.startswith(EXT_MACRO_DOUBLE):
        raise TrError("_SYMENGINE_MACRO_EXTERNAL_FUNCTION: the LLVMDoubleVisitor part is not recognised: %r" % txt[:400])
    for m in re.finditer(r"^SYMENGINE_MACRO_EXTERNAL_FUNCTION\((\w+), (\w+)\)", src, re.M):
        cls, ext = m.group(1), m.group(2)
        if ext in EXT2:
            inst[("visit", cls)] = "LRFormula [0; 1] (TCall2 (LF2 false %s) (TArg 0) (TArg 1))" % EXT2[ext]
        elif ext in EXT1:
            inst[("visit", cls)] = "LRFormula [0] (TCall1 (LF false %s) (TArg 0))" % EXT1[ext]
        else:
            raise TrError("external function %s for %s is not known" % (ext, cls))
    if len([k for k in inst if k[0] == "visit"]) < 10:
        raise TrError("too few SYMENGINE_MACRO_EXTERNAL_FUNCTION instantiations")
    # ---- explicit bodies
    bodies = out_of_class_bodies(src, "LLVMVisitor")
    bv = {}
    for (kind, cls), (param, body) in bodies.items():
        if kind != "bvisit":
            continue
        if param and param != "x":
            body = re.sub(r"\b%s\b" % param, "x", body) if param not in ("cts",) else body
        bv[cls] = bvisit_rule(cls, param, body)
    for (kind, cls), r in inst.items():
        if kind == "bvisit":
            bv[cls] = r
    if len(bv) < 30:
        raise TrError("llvm_double.cpp: too few bvisit overloads found (%d)" % len(bv))
    # every bvisit declared in the header must have been found (RealMPFR is not part of this configuration)
    hdr = T.strip_comments(open(os.path.join(REPO, "symengine", "llvm_double.h")).read())
    decl = set(re.findall(r"void bvisit\(const (\w+) &\w*\);", T.class_body(hdr, "LLVMVisitor"))) - {"RealMPFR"}
    if decl != set(bv):
        raise TrError("llvm_double.h / .cpp: bvisit overloads differ: %r" % sorted(decl ^ set(bv)))
    dv = {cls: r for (kind, cls), r in inst.items() if kind == "visit"}
    ddecl = set(re.findall(r"void visit\(const (\w+) &\w*\) override;", T.class_body(hdr, "LLVMDoubleVisitor")))
    if ddecl != set(dv):
        raise TrError("LLVMDoubleVisitor: visit overrides differ from the macro instantiations: %r" % sorted(ddecl ^ set(dv)))
    if not re.search(r"class LLVMVisitor : public RewriteTrigVisitor<LLVMVisitor>", hdr):
        raise TrError("LLVMVisitor no longer derives from RewriteTrigVisitor")
    # ---- RewriteTrigVisitor
    vsrc = T.strip_comments(open(os.path.join(REPO, "symengine", "visitor.h")).read())
    rw = {}
    body = T.class_body(vsrc, "RewriteTrigVisitor")
    for m in re.finditer(r"void\s+visit\s*\(\s*const\s+([A-Za-z0-9_]+)\s*&\s*x\s*\)\s*override\s*\{", body):
        st = m.end() - 1
        en = T.match_brace(body, st)
        rw[m.group(1)] = rewrite_rule(m.group(1), T.norm(body[st + 1:en - 1]))
    if len(rw) != 12:
        raise TrError("RewriteTrigVisitor: %d visit overrides (12 expected)" % len(rw))
    # ---- LLVMVisitor::apply, init (pinned)
    if not re.search(r"llvm::Value \*LLVMVisitor::apply\(const Basic &b\) \{ b\.accept\(\*this\); return result_; \}", T.norm(src)):
        raise TrError("LLVMVisitor::apply: body not recognised")
    init = T.norm(src)
    for piece in ["if (not is_a<Symbol>(*inputs[i])) { throw SymEngineException(\"Input contains a non-symbol.\"); }",
                  "result_ = builder->CreateLoad(get_float_type(context.get()), ptr); symbol_ptrs.push_back(result_);",
                  "if (symbolic_cse) { vec_basic reduced_exprs; vec_pair replacements; SymEngine::cse(replacements, reduced_exprs, outputs); "
                  "for (auto &rep : replacements) { replacement_symbol_ptrs[rep.first] = apply(*(rep.second)); } "
                  "for (unsigned i = 0; i < outputs.size(); i++) { output_vals.push_back(apply(*reduced_exprs[i])); } } else { "
                  "for (unsigned i = 0; i < outputs.size(); i++) { output_vals.push_back(apply(*outputs[i])); } }",
                  "builder->CreateStore(output_vals[i], ptr);",
                  "symbol_ptrs.clear(); replacement_symbol_ptrs.clear(); symbols.clear();"]:
        if piece not in init:
            raise TrError("LLVMVisitor::init: expected fragment not found: %r" % piece[:80])
    # does init start from empty symbol tables (a previous init that threw leaves them filled)?
    m = re.search(r"void LLVMVisitor::init\(const vec_basic &inputs, const vec_basic &outputs, const bool symbolic_cse, unsigned opt_level\) \{(.*?)auto input_arg = ", init)
    if not m:
        raise TrError("LLVMVisitor::init: head not recognised")
    clears_first = "symbol_ptrs.clear();" in m.group(1) and "replacement_symbol_ptrs.clear();" in m.group(1)
    # ---- the table: what LLVMDoubleVisitor does for each TypeID
    rows = []
    for enum, cls in codes:
        chain = T.ancestors(cls, parent)
        rule = None
        for a in chain:
            if a in dv:
                rule = dv[a]
                break
            if a in rw:
                rule = rw[a]
                break
            if a in bv:
                rule = bv[a]
                break
        if rule is None:
            rule = bv["Basic"]
        rows.append((cls, rule))
    out = [HEADER]
    out.append("(* LLVMDoubleVisitor: the visit / bvisit member selected for each TypeID *)")
    out.append("Definition llvm_rules : list (N * lrule) := [")
    out.append(";\n".join("  (TC_%s, %s)" % (c, r) for c, r in rows))
    out.append("].\n")
    out.append("(* LLVMVisitor::init clears symbol_ptrs / replacement_symbol_ptrs before filling them *)")
    out.append("Definition llvm_init_clears_first : bool := %s." % ("true" if clears_first else "false"))
    write_if_changed(os.path.join(OUTDIR, "Gen_LlvmRules.v"), "\n".join(out) + "\n")
    return 0


if __name__ == "__main__":
    try:
        sys.exit(main())
    except TrError as e:
        print("tr_llvmrules: FAILED: %s" % e)
        sys.exit(1)
