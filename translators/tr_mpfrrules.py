#!/usr/bin/env python3
"""Regenerates coq/C45/Gen_MpfrRules.v from
  symengine/eval_mpfr.cpp   (EvalMPFRVisitor::bvisit bodies: sequences of apply(...) and mpfr_* calls on
                             result_ and temporaries) -> mpfr_rules : per TypeID an `mrule` (coq/C45/MpfrTerm.v)
  symengine/real_mpfr.cpp   (RealMPFR::{add,sub,rsub,mul,div,rdiv,pow,rpow}real(const K &): precision of the
                             result, guards, sequence of mpfr_* calls) -> mpfr_arith : per (operation, operand
                             kind) an `arule`; the MPC branches (#ifdef HAVE_SYMENGINE_MPC) are not part of the
                             verified configuration (no MPC headers): the #else branch is taken
  symengine/real_mpfr.h     (RealMPFR::add ... rpow: the is_a<K> dispatch chains are pinned)
A body whose shape is not recognised makes the translator FAIL (exit 1): a broken tie.
Files are written only when their content changes."""
import os
import re
import sys

sys.path.insert(0, os.path.dirname(os.path.abspath(__file__)))
import tr_evalrules as T  # noqa: E402  (shared slicing helpers, class hierarchy, type codes)
from tr_evalrules import TrError  # noqa: E402

REPO = T.REPO
ROOT = T.ROOT
OUTDIR = os.environ.get("MPFRRULES_OUT", os.path.join(ROOT, "coq", "C45"))

UN = {"sin": "MU USin", "cos": "MU UCos", "tan": "MU UTan", "log": "MU ULog", "exp": "MU UExp",
      "asin": "MU UAsin", "acos": "MU UAcos", "atan": "MU UAtan", "sinh": "MU USinh", "cosh": "MU UCosh",
      "tanh": "MU UTanh", "asinh": "MU UAsinh", "acosh": "MU UAcosh", "atanh": "MU UAtanh", "abs": "MU UAbs",
      "gamma": "MU UGamma", "lngamma": "MLnGamma", "erf": "MU UErf", "erfc": "MU UErfc",
      "sec": "MSec", "csc": "MCsc", "cot": "MCot", "sech": "MSech", "csch": "MCsch", "coth": "MCoth",
      "sqrt": "MSqrt"}
BIN = {"add": "MB BAdd", "mul": "MB BMul", "div": "MB BDiv", "pow": "MB BPow", "atan2": "MB BAtan2",
       "max": "MB BMax", "min": "MB BMin", "sub": "MSub", "gamma_inc": "MGammaInc"}
PRED = {"equal_p": "MB BEq", "lessgreater_p": "MLessGreater", "lessequal_p": "MB BLe", "less_p": "MB BLt"}
CONSTS = {"const_pi": "KPi", "const_euler": "KEuler", "const_catalan": "KCatalan"}
SEL = {"get_arg()": 0, "get_args()[0]": 0, "get_args()[1]": 1, "get_num()": 0, "get_den()": 1,
       "get_arg1()": 0, "get_arg2()": 1, "get_base()": 0, "get_exp()": 1}


def ui_term(txt):
    n = int(txt)
    if n == 0:
        return "MLit L0"
    if n == 1:
        return "MLit L1"
    return "MUi %d" % n


# ------------------------------------------------------------------ statement lists
def split_stmts(body):
    """top-level statements of a normalised body: simple `...;` and `if (...) {...} else {...}` / `for`"""
    out = []
    i = 0
    n = len(body)
    while i < n:
        while i < n and body[i] in " ;":
            i += 1
        if i >= n:
            break
        if body.startswith("if (", i):
            j = body.index("(", i)
            d = 0
            k = j
            while True:
                if body[k] == "(":
                    d += 1
                elif body[k] == ")":
                    d -= 1
                    if d == 0:
                        break
                k += 1
            cond = body[j + 1:k]
            k += 1
            while body[k] == " ":
                k += 1
            if body[k] != "{":
                raise TrError("if without a block: %r" % body[i:i + 60])
            e1 = T.match_brace(body, k)
            then = body[k + 1:e1 - 1].strip()
            rest = body[e1:].lstrip()
            els = None
            if rest.startswith("else"):
                off = len(body) - len(rest) + 4
                while body[off] == " ":
                    off += 1
                if body.startswith("if (", off):
                    raise TrError("else-if chain not expected here: %r" % body[off:off + 40])
                if body[off] != "{":
                    raise TrError("else without a block: %r" % body[off:off + 40])
                e2 = T.match_brace(body, off)
                els = split_stmts(body[off + 1:e2 - 1].strip())
                e1 = e2
            out.append(("if", cond, split_stmts(then), els, e1 - i))
            i = e1
            continue
        j = body.find(";", i)
        if j < 0:
            raise TrError("statement without ';': %r" % body[i:i + 60])
        out.append(("s", body[i:j].strip(), j + 1 - i))
        i = j + 1
    return out


def operand(tok, env, temps):
    tok = tok.strip()
    if tok == "result_":
        name = "result_"
    else:
        m = re.fullmatch(r"([A-Za-z_][A-Za-z0-9_]*)(?:\.get_mpfr_t\(\))?", tok)
        if not m or m.group(1) not in temps:
            raise TrError("unknown mpfr operand %r" % tok)
        name = m.group(1)
    if name not in env:
        raise TrError("operand %s is read before it is written" % name)
    return env[name]


def dest(tok, temps):
    tok = tok.strip()
    if tok == "result_":
        return "result_"
    m = re.fullmatch(r"([A-Za-z_][A-Za-z0-9_]*)(?:\.get_mpfr_t\(\))?", tok)
    if not m or m.group(1) not in temps:
        raise TrError("unknown mpfr destination %r" % tok)
    return m.group(1)


def split_args(s):
    out, cur, d = [], "", 0
    for ch in s:
        if ch in "([":
            d += 1
        elif ch in ")]":
            d -= 1
        if ch == "," and d == 0:
            out.append(cur.strip())
            cur = ""
        else:
            cur += ch
    if cur.strip():
        out.append(cur.strip())
    return out


def exec_stmts(stmts, env, temps, sel, cls):
    """symbolic execution: env maps result_/temporaries to mterm strings; sel is the list of child
    selectors in the order in which they are evaluated"""
    for st in stmts:
        if st[0] == "if":
            _, cond, then, els, _ = st
            m = re.fullmatch(r"mpfr_([a-z_]+)\((.*)\)", cond)
            if not m or m.group(1) not in PRED or els is None:
                raise TrError("%s: unrecognised condition %r" % (cls, cond))
            a = split_args(m.group(2))
            if len(a) != 2:
                raise TrError("%s: predicate arity %r" % (cls, cond))
            c = "MBin (%s) (%s) (%s)" % (PRED[m.group(1)], operand(a[0], env, temps), operand(a[1], env, temps))
            e1 = dict(env)
            e2 = dict(env)
            n0 = len(sel)
            exec_stmts(then, e1, temps, sel, cls)
            exec_stmts(els, e2, temps, sel, cls)
            if len(sel) != n0:
                raise TrError("%s: a child is evaluated inside a conditional" % cls)
            for k in set(e1) | set(e2):
                if e1.get(k) != e2.get(k):
                    if k not in e1 or k not in e2:
                        raise TrError("%s: %s is written in one branch only" % (cls, k))
                    env[k] = "MIf (%s) (%s) (%s)" % (c, e1[k], e2[k])
            continue
        s = st[1]
        m = re.fullmatch(r"mpfr_class ([A-Za-z_][A-Za-z0-9_]*)\(mpfr_get_prec\(result_\)\)", s)
        if m:
            temps.add(m.group(1))
            continue
        m = re.fullmatch(r"mpfr_t ([A-Za-z_][A-Za-z0-9_]*)", s)
        if m:
            temps.add(m.group(1))
            continue
        m = re.fullmatch(r"mpfr_init2\(([A-Za-z_][A-Za-z0-9_]*), mpfr_get_prec\(result_\)\)", s)
        if m and m.group(1) in temps:
            continue
        m = re.fullmatch(r"mpfr_clear\(([A-Za-z_][A-Za-z0-9_]*)\)", s)
        if m and m.group(1) in temps:
            continue
        m = re.fullmatch(r"apply\(([^,]+), \*\(?x\.(get_[a-z0-9]+\(\)(?:\[\d\])?)\)?\)", s)
        if m:
            if m.group(2) not in SEL:
                raise TrError("%s: unknown selector %s" % (cls, m.group(2)))
            d = dest(m.group(1), temps)
            env[d] = "MArg %d" % len(sel)
            sel.append(SEL[m.group(2)])
            continue
        m = re.fullmatch(r"mpfr_([a-z0-9_]+)\((.*)\)", s)
        if m:
            fn = m.group(1)
            a = split_args(m.group(2))
            if a[-1] != "rnd_":
                raise TrError("%s: %s is not called with the visitor's rounding mode" % (cls, fn))
            a = a[:-1]
            d = dest(a[0], temps)
            if fn in CONSTS and len(a) == 1:
                env[d] = "MConst %s" % CONSTS[fn]
            elif fn == "set_ui" and len(a) == 2:
                env[d] = ui_term(a[1])
            elif fn in UN and len(a) == 2:
                env[d] = "MUn (%s) (%s)" % (UN[fn], operand(a[1], env, temps))
            elif fn == "sqrt_ui" and len(a) == 2:
                env[d] = "MUn (MSqrt) (%s)" % ui_term(a[1])
            elif fn in ("ui_div", "ui_sub") and len(a) == 3:
                env[d] = "MBin (%s) (%s) (%s)" % (BIN[fn[3:]], ui_term(a[1]), operand(a[2], env, temps))
            elif fn in ("add_ui", "sub_ui", "mul_ui", "div_ui") and len(a) == 3:
                env[d] = "MBin (%s) (%s) (%s)" % (BIN[fn[:3]], operand(a[1], env, temps), ui_term(a[2]))
            elif fn in BIN and len(a) == 3:
                env[d] = "MBin (%s) (%s) (%s)" % (BIN[fn], operand(a[1], env, temps), operand(a[2], env, temps))
            else:
                raise TrError("%s: unknown MPFR call mpfr_%s/%d" % (cls, fn, len(a)))
            continue
        raise TrError("%s: unrecognised statement %r" % (cls, s))


def run_body(body, cls, presel=None):
    env, temps, sel = {}, set(), []
    exec_stmts(split_stmts(body), env, temps, sel, cls)
    if "result_" not in env:
        raise TrError("%s: result_ is never written" % cls)
    return sel, env["result_"]


FOLD = re.compile(r"mpfr_class t\(mpfr_get_prec\(result_\)\); auto d = x\.get_args\(\); auto p = d\.begin\(\); "
                  r"apply\(result_, \*\(\*p\)\); p\+\+; for \(; p != d\.end\(\); p\+\+\) \{ apply\(t\.get_mpfr_t\(\), \*\(\*p\)\); "
                  r"mpfr_(add|mul|max|min)\(result_, (result_|t\.get_mpfr_t\(\)), (result_|t\.get_mpfr_t\(\)), rnd_\); \}")


def constants_rule(body):
    items = []
    rest = body
    first = True
    while True:
        m = re.match((r"" if first else r"else ") + r"if \(x\.__eq__\(\*([A-Za-z]+)\)\) \{", rest)
        if not m:
            break
        st = m.end() - 1
        en = T.match_brace(rest, st)
        name = m.group(1)
        if name not in T.CONST_NAMES:
            raise TrError("Constant: unknown constant %s" % name)
        sel, t = run_body(rest[st + 1:en - 1].strip(), "Constant/" + name)
        if sel:
            raise TrError("Constant/%s evaluates a child" % name)
        items.append((name, t))
        rest = rest[en:].lstrip()
        first = False
    if not items or not re.fullmatch(r"else \{ throw NotImplementedError\(.*\); \};?", rest):
        raise TrError("Constant: unrecognised body %r" % body)
    return "MRConstants [%s]" % "; ".join("(%s, %s)" % (T.bytes_list(n), t) for n, t in items)


def mpfr_rule(cls, body):
    b = body.strip()
    if re.fullmatch(r"mpfr_set_z\(result_, get_mpz_t\(x\.as_integer_class\(\)\), rnd_\);", b):
        return "MRLeafInt"
    if re.fullmatch(r"mpfr_set_q\(result_, get_mpq_t\(x\.as_rational_class\(\)\), rnd_\);", b):
        return "MRLeafRat"
    if re.fullmatch(r"mpfr_set_d\(result_, x\.i, rnd_\);", b):
        return "MRLeafDbl"
    if re.fullmatch(r"mpfr_set\(result_, x\.i\.get_mpfr_t\(\), rnd_\);", b):
        return "MRLeafMpfr"
    m = FOLD.fullmatch(b)
    if m:
        ops = (m.group(2), m.group(3))
        if set(ops) != {"result_", "t.get_mpfr_t()"}:
            raise TrError("%s: fold operands %r" % (cls, ops))
        return "MRFoldFirst (%s) %s" % (BIN[m.group(1)], "true" if ops[0] == "result_" else "false")
    m = re.fullmatch(r"throw ([A-Za-z]+)\(.*\);", b)
    if m:
        if m.group(1) not in T.EXN:
            raise TrError("%s: unknown exception %s" % (cls, m.group(1)))
        return "MRThrow %d" % T.EXN[m.group(1)]
    if b.startswith("if (x.__eq__(*"):
        return constants_rule(b)
    if re.fullmatch(r"x\.eval\(mpfr_get_prec\(result_\)\)->accept\(\*this\);", b):
        return "MRWrapper"
    if re.fullmatch(r"apply\(result_, \*x\.get_arg\(\)\);", b) and cls == "UnevaluatedExpr":
        return "MRPass"
    if re.fullmatch(r"apply\(result_, \*\(x\.rewrite_as_gamma\(\)\)\);", b):
        return "MRRewrite"
    m = re.fullmatch(r"if \(eq\(\*x\.get_base\(\), \*E\)\) \{ (.*?) \} else \{ (.*) \}", b)
    if m and cls == "Pow":
        s1, t1 = run_body(m.group(1), "Pow/E")
        s2, t2 = run_body(m.group(2), "Pow")
        if s1 != [1]:
            raise TrError("Pow/E: children %r" % (s1,))
        if sorted(s2) != [0, 1]:
            raise TrError("Pow: children %r" % (s2,))
        # the general term is expressed over [base; exponent] whatever the evaluation order
        if s2 == [1, 0]:
            t2 = t2.replace("MArg 0", "MArg #").replace("MArg 1", "MArg 0").replace("MArg #", "MArg 1")
        return "MRPow %s (%s) (%s)" % ("true" if s2 == [1, 0] else "false", t1, t2)
    sel, t = run_body(b, cls)
    if not sel:
        raise TrError("%s: no child is evaluated: %r" % (cls, body))
    return "MRFormula [%s] (%s)" % ("; ".join(map(str, sel)), t)


# ------------------------------------------------------------------ real_mpfr.cpp: arithmetic
def take_else_of_mpc(src):
    """#ifdef HAVE_SYMENGINE_MPC A #else B #endif -> B  (and -> nothing without #else)"""
    out = []
    state = []   # stack of 'mpc-then' / 'mpc-else' / 'other'
    for line in src.splitlines():
        t = line.strip()
        if re.match(r"#\s*ifdef\s+HAVE_SYMENGINE_MPC\b", t):
            state.append("then")
            continue
        if re.match(r"#\s*if", t):
            state.append("other")
            if "then" not in state:
                out.append(line)
            continue
        if re.match(r"#\s*else", t):
            if state and state[-1] == "then":
                state[-1] = "else"
                continue
        if re.match(r"#\s*endif", t):
            if state:
                k = state.pop()
                if k in ("then", "else"):
                    continue
        if "then" in state:
            continue
        out.append(line)
    return "\n".join(out)


KINDS = ["Integer", "Rational", "Complex", "RealDouble", "ComplexDouble", "RealMPFR"]
OPS = ["add", "sub", "rsub", "mul", "div", "rdiv", "pow", "rpow"]
AOP = {"add": "AAdd", "add_z": "AAdd", "add_q": "AAdd", "add_d": "AAdd",
       "sub": "ASub", "sub_z": "ASub", "sub_q": "ASub", "sub_d": "ASub", "z_sub": "ASub", "d_sub": "ASub",
       "mul": "AMul", "mul_z": "AMul", "mul_q": "AMul", "mul_d": "AMul",
       "div": "ADiv", "div_z": "ADiv", "div_q": "ADiv", "div_d": "ADiv", "d_div": "ADiv",
       "pow": "APow", "pow_z": "APow"}
OTHER_VAL = {"Integer": r"get_mpz_t\(other\.as_integer_class\(\)\)", "Rational": r"get_mpq_t\(other\.as_rational_class\(\)\)",
             "RealDouble": r"other\.i", "RealMPFR": r"other\.i\.get_mpfr_t\(\)"}
THROW_MPC = 'throw SymEngineException("Result is complex. Recompile with MPC support.");'


def arith_operand(tok, kind):
    tok = tok.strip()
    if tok in ("i.get_mpfr_t()", "this->i.get_mpfr_t()"):
        return "OSelf"
    if tok == "t.get_mpfr_t()":
        return "OT"
    if kind in OTHER_VAL and re.fullmatch(OTHER_VAL[kind], tok):
        return "OOther"
    raise TrError("arith: unknown operand %r" % tok)


def arith_rule(op, kind, body):
    b = body.strip().replace('SymEngineException( "', 'SymEngineException("')
    if b == THROW_MPC:
        return "ARThrow %d" % T.EXN["SymEngineException"]
    guard = "GNone"
    m = re.match(r"if \((.*?)\) \{ (.*?) \} ", b)
    if m:
        cond, act = m.group(1), m.group(2)
        if cond == "other.is_zero()" and act == "return zero;":
            guard = "GOtherZeroExact"
        elif act == THROW_MPC and cond == "mpfr_cmp_si(i.get_mpfr_t(), 0) < 0":
            guard = "GSelfNegThrows"
        elif act == THROW_MPC and cond == "other.is_negative()":
            guard = "GOtherNegThrows"
        elif act == THROW_MPC and kind == "RealDouble" and cond == "other.i < 0":
            guard = "GOtherNegThrows"
        else:
            raise TrError("%sreal(%s): unrecognised guard %r -> %r" % (op, kind, cond, act))
        b = b[m.end():]
    m = re.match(r"mpfr_class t\((.*?)\); ", b)
    if not m:
        raise TrError("%sreal(%s): no result declaration in %r" % (op, kind, body))
    pe = m.group(1)
    if pe == "get_prec()":
        prec = "PSelf"
    elif kind == "RealMPFR" and pe == "std::max(get_prec(), other.get_prec())":
        prec = "PMax"
    elif kind == "RealMPFR" and pe == "std::min(get_prec(), other.get_prec())":
        prec = "PMin"
    elif kind == "RealMPFR" and pe == "other.get_prec()":
        prec = "POther"
    else:
        raise TrError("%sreal(%s): unrecognised precision %r" % (op, kind, pe))
    b = b[m.end():]
    steps = []
    while True:
        m = re.match(r"mpfr_([a-z_]+)\((.*?), MPFR_RND([A-Z])\); ", b)
        if not m:
            break
        fn = m.group(1)
        if m.group(3) != "N":
            raise TrError("%sreal(%s): rounding mode MPFR_RND%s" % (op, kind, m.group(3)))
        a = split_args(m.group(2))
        if a[0] != "t.get_mpfr_t()":
            raise TrError("%sreal(%s): destination %r" % (op, kind, a[0]))
        if fn in AOP and len(a) == 3:
            steps.append("%s %s %s" % (AOP[fn], arith_operand(a[1], kind), arith_operand(a[2], kind)))
        elif fn == "neg" and len(a) == 2:
            steps.append("ANeg %s" % arith_operand(a[1], kind))
        elif fn == "pow_si" and len(a) == 3 and re.fullmatch(r"-?\d+", a[2]):
            steps.append("APowSi %s (%s)" % (arith_operand(a[1], kind), a[2]))
        elif fn in ("set_z", "set_q", "set_d", "set") and len(a) == 2:
            steps.append("ASet %s" % arith_operand(a[1], kind))
        else:
            raise TrError("%sreal(%s): unknown call mpfr_%s/%d" % (op, kind, fn, len(a)))
        b = b[m.end():]
    if not steps or b.strip() != "return make_rcp<const RealMPFR>(std::move(t));":
        raise TrError("%sreal(%s): unrecognised tail %r" % (op, kind, b))
    return "ARule %s %s [%s]" % (guard, prec, "; ".join(steps))


DISPATCH_TXT = {
    "add": ("addreal", "return other.add(*this);"),
    "sub": ("subreal", "return other.rsub(*this);"),
    "rsub": ("rsubreal", 'throw NotImplementedError("Not Implemented");'),
    "mul": ("mulreal", "return other.mul(*this);"),
    "div": ("divreal", "return other.rdiv(*this);"),
    "rdiv": ("rdivreal", 'throw NotImplementedError("Not Implemented");'),
    "pow": ("powreal", "return other.rpow(*this);"),
    "rpow": ("rpowreal", 'throw NotImplementedError("Not Implemented");'),
}


def check_dispatch(hsrc):
    """RealMPFR::add etc. dispatch on is_a<K>(other) to <op>real(down_cast<const K &>(other))"""
    body = T.class_body(hsrc, "RealMPFR")
    for op, (fn, last) in DISPATCH_TXT.items():
        m = re.search(r"RCP<const Number> %s\(const Number &other\) const override\s*\{" % op, body)
        if not m:
            raise TrError("real_mpfr.h: RealMPFR::%s not found" % op)
        st = m.end() - 1
        txt = T.norm(body[st + 1:T.match_brace(body, st) - 1])
        kinds = ["Rational", "Integer", "Complex", "RealDouble", "ComplexDouble"] + ([] if op.startswith("r") else ["RealMPFR"])
        exp = ""
        for i, k in enumerate(kinds):
            exp += ("if" if i == 0 else " else if") + " (is_a<%s>(other)) { return %s(down_cast<const %s &>(other)); }" % (k, fn, k)
        exp += " else { %s }" % last
        if txt != exp:
            raise TrError("real_mpfr.h: RealMPFR::%s: dispatch chain not recognised: %r" % (op, txt))


HEADER = """(* GENERATED by translators/tr_mpfrrules.py from symengine/eval_mpfr.cpp, symengine/real_mpfr.cpp -- do not edit. *)
From Coq Require Import List NArith ZArith.
From SE Require Import Gen.TypeCodes Eval.EvalTerm C45.MpfrTerm.
Import ListNotations.
"""


def write_if_changed(path, txt):
    if not os.path.exists(path) or open(path).read() != txt:
        os.makedirs(os.path.dirname(path), exist_ok=True)
        open(path, "w").write(txt)
        print("tr_mpfrrules: regenerated %s" % path)


def main():
    T.check_constant_names()
    codes = T.read_typecodes()
    parent = T.read_hierarchy()
    src = T.strip_comments(open(os.path.join(REPO, "symengine", "eval_mpfr.cpp")).read())
    # the installed MPFR is version 4: the `#if MPFR_VERSION_MAJOR > 3` block is part of the build
    src = "\n".join(l for l in src.splitlines() if not re.match(r"\s*#\s*(if MPFR_VERSION_MAJOR > 3|endif|ifdef HAVE_SYMENGINE_MPFR|include)", l))
    ov = {c: (p, b) for c, p, b in T.bvisits(T.class_body(src, "EvalMPFRVisitor"))}
    if len(ov) < 50:
        raise TrError("eval_mpfr.cpp: too few bvisit overloads found (%d)" % len(ov))
    if not re.search(r"void apply\(mpfr_ptr result, const Basic &b\) \{ mpfr_ptr tmp = result_; result_ = result; b\.accept\(\*this\); result_ = tmp; \}",
                     T.norm(T.class_body(src, "EvalMPFRVisitor"))):
        raise TrError("EvalMPFRVisitor::apply: body not recognised")
    cache = {}
    rows = []
    for enum, cls in codes:
        o = T.resolve(cls, ov, parent)
        if o not in cache:
            p, b = ov[o]
            cache[o] = mpfr_rule(o, b)
        rows.append((cls, cache[o]))
    out = [HEADER]
    out.append("(* EvalMPFRVisitor: the bvisit overload selected for each TypeID *)")
    out.append("Definition mpfr_rules : list (N * mrule) := [")
    out.append(";\n".join("  (TC_%s, %s)" % (c, r) for c, r in rows))
    out.append("].\n")
    # ---- evalf_numeric: bits > 53 && real -> eval_mpfr(result at `bits` bits, b, MPFR_RNDN)
    esrc = T.norm(T.strip_comments(open(os.path.join(REPO, "symengine", "eval.cpp")).read()))
    if "} else if (bits > 53 && real) { #ifdef HAVE_SYMENGINE_MPFR mpfr_class mc = mpfr_class(bits); mpfr_ptr result = mc.get_mpfr_t(); " \
       "eval_mpfr(result, b, MPFR_RNDN); return make_rcp<RealMPFR>(std::move(mc));" not in esrc:
        raise TrError("eval.cpp: evalf_numeric: the MPFR branch is not recognised")
    m = re.search(r"if \(bits <= (\d+) && real\) \{ double d = eval_double\(b\);", esrc)
    if not m:
        raise TrError("eval.cpp: evalf_numeric: the double branch is not recognised")
    out.append("(* evalf_numeric: precisions up to this many bits are evaluated in double precision *)")
    out.append("Definition evalf_double_bits : N := %s.\n" % m.group(1))
    # ---- real_mpfr.cpp
    rsrc = take_else_of_mpc(T.strip_comments(open(os.path.join(REPO, "symengine", "real_mpfr.cpp")).read()))
    arows = []
    for m in re.finditer(r"RCP<const Number> RealMPFR::([a-z]+)real\(const ([A-Za-z]+) &other\) const\s*\{", rsrc):
        op, kind = m.group(1), m.group(2)
        st = m.end() - 1
        body = T.norm(rsrc[st + 1:T.match_brace(rsrc, st) - 1])
        if op not in OPS or kind not in KINDS:
            raise TrError("real_mpfr.cpp: unexpected %sreal(%s)" % (op, kind))
        arows.append((op, kind, arith_rule(op, kind, body)))
    want = [(o, k) for o in OPS for k in KINDS if not (o.startswith("r") and k == "RealMPFR")]
    if sorted((o, k) for o, k, _ in arows) != sorted(want):
        raise TrError("real_mpfr.cpp: the set of <op>real overloads changed: %r" % sorted(set(want) ^ set((o, k) for o, k, _ in arows)))
    check_dispatch(T.strip_comments(open(os.path.join(REPO, "symengine", "real_mpfr.h")).read()))
    out.append("(* RealMPFR::<op>real(const <Kind> &): guard, precision of the result, MPFR calls (all MPFR_RNDN) *)")
    out.append("Definition mpfr_arith : list ((aop * akind) * arule) := [")
    out.append(";\n".join("  ((O%s, K%s), %s)" % (o.capitalize(), k, r) for o, k, r in arows))
    out.append("].")
    write_if_changed(os.path.join(OUTDIR, "Gen_MpfrRules.v"), "\n".join(out) + "\n")
    return 0


if __name__ == "__main__":
    try:
        sys.exit(main())
    except TrError as e:
        print("tr_mpfrrules: FAILED: %s" % e)
        sys.exit(1)
