(* C09 / C11 model side.  Input lines (fields separated by " ;; "):
     expand ;; <deep 0|1> ;; <dump e>
         -> "<dump of expand(e, deep)> ;; <hash>"  |  EXN:<k>  |  FUEL  |  LIBM  |  UNMODELLED ...
     xflags ;; <dump e>                       -> four flags: expanded poly_frag xpoly_frag canonical
     xguard ;; <deep 0|1> ;; <dump e>         -> 1 | 0: the hypothesis expand_guard of the C09 theorems
     multinomial ;; <m> ;; <n>                -> "k1,k2,..,km:c k1,..:c ..." (map order)  |  EXN:<k>
     subs ;; <kind> ;; <cache 0|1> ;; <dump e> ;; <dump k1> ;; <dump v1> ;; ...
         kind in xreplace subs msubs ssubs     -> "<dump of the result> ;; <hash>"  |  EXN:<k> ...
     sflags ;; <kind> ;; <dump e> ;; <dump k1> ;; <dump v1> ;; ...
                                              -> four flags: occurs_any keys_consistent single_pow_key subs_guard
   Dumps are the text of harness/dump.h; results are printed in the same syntax (Add dictionaries in the
   model's order: the checks sort them on both sides). *)
open Semodel
open Expr_io

let name_of_code (c : n) : string =
  let rec go = function
    | [] -> "Unknown"
    | (nm, c') :: r -> if c' = c then String.concat "" (List.map (fun b -> String.make 1 (Char.chr (small_of_n b))) nm) else go r in
  go tc_table

let hexname (bs : n list) : string =
  "x" ^ String.concat "" (List.map (fun b -> Printf.sprintf "%02x" (small_of_n b)) bs)

let hex16 (x : n) : string =
  (* 64-bit pattern as 16 hex digits *)
  let ds = digits_of_N x in
  (* digits_of_N is decimal; convert through repeated division on the decimal string *)
  let s = String.concat "" (List.map (fun d -> string_of_int (small_of_n d)) ds) in
  (* decimal string -> hex by schoolbook division (values < 2^64) *)
  let digits = ref (List.init (String.length s) (fun i -> Char.code s.[i] - 48)) in
  let out = Buffer.create 16 in
  let hexd = "0123456789abcdef" in
  let acc = ref [] in
  let is_zero l = List.for_all (fun d -> d = 0) l in
  while not (is_zero !digits) do
    let rem = ref 0 in
    let q = List.map (fun d -> let cur = !rem * 10 + d in rem := cur mod 16; cur / 16) !digits in
    acc := hexd.[!rem] :: !acc;
    digits := q
  done;
  List.iter (Buffer.add_char out) !acc;
  let h = Buffer.contents out in
  String.make (16 - String.length h) '0' ^ h

let dump_num (x : number) : string =
  match x with
  | NInt z -> "(I " ^ dec_of_z z ^ ")"
  | NRat (p, q) -> "(Q " ^ dec_of_z p ^ " " ^ dec_of_n (Npos q) ^ ")"
  | NCplx (a, b, c, d) ->
      "(C " ^ dec_of_z a ^ " " ^ dec_of_n (Npos b) ^ " " ^ dec_of_z c ^ " " ^ dec_of_n (Npos d) ^ ")"
  | NDbl b -> "(D " ^ hex16 b ^ ")"
  | NCDbl (r, i) -> "(CD " ^ hex16 r ^ " " ^ hex16 i ^ ")"
  | NInf d -> "(Inf " ^ dec_of_z d ^ ")"
  | NNaN -> "(NaN)"

let rec dump (e : expr) : string =
  let args l = String.concat "" (List.map (fun a -> " " ^ dump a) l) in
  let pairs l = String.concat "" (List.map (fun (k, v) -> " (" ^ dump k ^ " " ^ dump v ^ ")") l) in
  match e with
  | ENum x -> dump_num x
  | ESym nm -> "(Sym " ^ hexname nm ^ ")"
  | EDummy (nm, i) -> "(Dummy " ^ hexname nm ^ " " ^ dec_of_n i ^ ")"
  | EConst nm -> "(Const " ^ hexname nm ^ ")"
  | EAdd (c, d) ->
      "(Add " ^ dump_num c ^ String.concat "" (List.map (fun (k, v) -> " (" ^ dump k ^ " " ^ dump_num v ^ ")") d) ^ ")"
  | EMul (c, d) -> "(Mul " ^ dump_num c ^ pairs d ^ ")"
  | EPow (b, x) -> "(Pow " ^ dump b ^ " " ^ dump x ^ ")"
  | EF1 (c, a) -> "(F1 " ^ name_of_code c ^ " " ^ dump a ^ ")"
  | EF2 (c, a, b) -> "(F2 " ^ name_of_code c ^ " " ^ dump a ^ " " ^ dump b ^ ")"
  | EFN (c, l) -> "(FN " ^ name_of_code c ^ args l ^ ")"
  | EFunSym (nm, l) -> "(FunSym " ^ hexname nm ^ args l ^ ")"
  | ELex (c, a, b) -> "(Lex " ^ name_of_code c ^ " " ^ dump a ^ " " ^ dump b ^ ")"
  | EDeriv (a, l) -> "(Deriv " ^ dump a ^ args l ^ ")"
  | ESubs (a, d) -> "(Subs " ^ dump a ^ pairs d ^ ")"
  | EPw l -> "(Pw" ^ pairs l ^ ")"
  | EBool b -> "(Bool " ^ (if b then "1" else "0") ^ ")"
  | EInterval (s, x, lo, ro) ->
      "(Interval " ^ dump s ^ " " ^ dump x ^ " " ^ (if lo then "1" else "0") ^ " " ^ (if ro then "1" else "0") ^ ")"
  | EAtom c -> "(Atom " ^ name_of_code c ^ ")"


let show_res (r : expr res) : string =
  match r with
  | Ok e -> dump e ^ " ;; " ^ dec_of_n (hash e)
  | ErrFuel -> "FUEL"
  | ErrOOB (_, _) -> "OOB"
  | ErrExn c ->
      let k = small_of_n c in
      if k = 98 then "LIBM" else if k = 97 then "UNMODELLED" else if k = 96 then "INTERNAL"
      else if k >= 200 then "CRASH:" ^ string_of_int (k - 200)
      else "EXN:" ^ string_of_int k

let kind_of_string = function
  | "xreplace" -> KXreplace | "subs" -> KSubs | "msubs" -> KMsubs | "ssubs" -> KSsubs
  | s -> failwith ("unknown kind " ^ s)

let rec pairs_of = function
  | k :: v :: r -> (expr_of_string k, expr_of_string v) :: pairs_of r
  | _ -> []

let b x = if x then "1" else "0"

let () =
  try
    while true do
      let line = input_line stdin in
      (try
        let items = List.filter (fun s -> s <> "") (List.map String.trim (split_on " ;; " line)) in
        match items with
        | "expand" :: deep :: d :: _ ->
            print_endline (show_res (expand (deep = "1") (expr_of_string d)))
        | "xflags" :: d :: _ ->
            let e = expr_of_string d in
            print_endline (b (expanded e) ^ b (poly_frag e) ^ b (xpoly_frag e) ^ b (canonical e))
        | "xguard" :: deep :: d :: _ ->
            print_endline (b (expand_guard (deep = "1") (expr_of_string d)))
        | "multinomial" :: m :: n :: _ ->
            (match multinomial_coefficients (n_of_dec m) (n_of_dec n) with
             | Ok r ->
                 print_endline (String.concat " " (List.map (fun (t, c) ->
                   String.concat "," (List.map dec_of_n t) ^ ":" ^ dec_of_z c) r))
             | ErrFuel -> print_endline "FUEL"
             | ErrOOB (_, _) -> print_endline "OOB"
             | ErrExn c -> print_endline ("EXN:" ^ string_of_int (small_of_n c)))
        | "subs" :: kind :: cache :: d :: kv ->
            let sd = mk_dict (pairs_of kv) in
            print_endline (show_res (subs_gen (kind_of_string kind) (cache = "1") sd (expr_of_string d)))
        | "sflags" :: kind :: d :: kv ->
            let sd = mk_dict (pairs_of kv) in
            let e = expr_of_string d in
            print_endline (b (occurs_any sd e) ^ b (keys_consistent sd e) ^ b (single_pow_key sd)
                           ^ b (subs_guard (kind_of_string kind) sd e))
        | _ -> print_endline "FAIL bad line"
      with
      | Unsupported m -> print_endline ("UNSUPPORTED " ^ m)
      | Failure m -> print_endline ("FAIL " ^ m)
      | Stack_overflow -> print_endline "FAIL stack overflow")
    done
  with End_of_file -> ()
