(* Reader/printer around the extracted C24 model (coq/C24/DenseModel.v).
   input : one case per line:  <op> <args>  with
             matrix  = R C e1,e2,...   (row-major entries; "-" for an empty list)
             entry   = p | p/q | zoo | nan      (decimal, any size)
             index   = decimal unsigned
   output: fields separated by ';':
             M:R:C:e1,e2,...   a matrix          P:k-i,k-i,...   a permutation list
             C:c1,c2,...       pivot columns     S:e             a scalar
             B:0|1             a boolean         L:<M>|<M>...    list of column vectors
           or OOB:<idx>:<len> (the code leaves a vector), EXN:<code>, FUEL              *)
open Dense_model

let rec pos_of_int (n : int) : positive =
  if n = 1 then XH else if n land 1 = 0 then XO (pos_of_int (n lsr 1)) else XI (pos_of_int (n lsr 1))
let z_of_int (n : int) : z = if n = 0 then Z0 else if n > 0 then Zpos (pos_of_int n) else Zneg (pos_of_int (-n))
let rec int_of_pos = function XH -> 1 | XO p -> 2 * int_of_pos p | XI p -> 2 * int_of_pos p + 1
let int_of_z = function Z0 -> 0 | Zpos p -> int_of_pos p | Zneg p -> - (int_of_pos p)
let int_of_n = function N0 -> 0 | Npos p -> int_of_pos p

let z10 = z_of_int 10
let zopp = function Z0 -> Z0 | Zpos p -> Zneg p | Zneg p -> Zpos p

let z_of_string (s : string) : z =
  let neg = String.length s > 0 && s.[0] = '-' in
  let acc = ref Z0 in
  String.iteri (fun i c ->
      if i = 0 && (c = '-' || c = '+') then ()
      else if c >= '0' && c <= '9' then
        acc := Z.add (Z.mul !acc z10) (z_of_int (Char.code c - 48))
      else failwith ("bad number " ^ s)) s;
  if neg then zopp !acc else !acc

let string_of_z (x : z) : string =
  let neg, a = (match x with Zneg p -> true, Zpos p | _ -> false, x) in
  let rec go a acc =
    match a with
    | Z0 -> acc
    | _ -> let (q, r) = Z.div_eucl a z10 in go q (string_of_int (int_of_z r) ^ acc)
  in
  let s = (match a with Z0 -> "0" | _ -> go a "") in
  if neg then "-" ^ s else s

let n_of_string (s : string) : n =
  match z_of_string s with Z0 -> N0 | Zpos p -> Npos p | Zneg _ -> failwith "negative"
let string_of_n (x : n) : string =
  match x with N0 -> "0" | Npos p -> string_of_z (Zpos p)

let qc_of_string (s : string) : qc =
  match String.index_opt s '/' with
  | None -> q2Qc { qnum = z_of_string s; qden = XH }
  | Some i ->
      let a = z_of_string (String.sub s 0 i) in
      let b = z_of_string (String.sub s (i + 1) (String.length s - i - 1)) in
      (match b with
       | Zpos p -> q2Qc { qnum = a; qden = p }
       | Zneg p -> q2Qc { qnum = zopp a; qden = p }
       | Z0 -> failwith "zero denominator")

let string_of_qc (q : qc) : string =
  let q = this q in
  match q.qden with
  | XH -> string_of_z q.qnum
  | d -> string_of_z q.qnum ^ "/" ^ string_of_z (Zpos d)

let qx_of_string = function
  | "zoo" -> Zoo
  | "nan" -> NaNv
  | s -> Fin (qc_of_string s)

let show_qx = function
  | Fin q -> string_of_qc q
  | Zoo -> "zoo"
  | NaNv -> "nan"

let show_m (m : dmat) : string =
  Printf.sprintf "M:%s:%s:%s" (string_of_n m.drow) (string_of_n m.dcol)
    (String.concat "," (List.map show_qx m.dm))
let show_pl (pl : (n * n) list) : string =
  "P:" ^ String.concat "," (List.map (fun (a, b) -> string_of_n a ^ "-" ^ string_of_n b) pl)
let show_pc (pc : n list) : string = "C:" ^ String.concat "," (List.map string_of_n pc)
let show_s (e : qx) : string = "S:" ^ show_qx e
let show_b (b : bool) : string = if b then "B:1" else "B:0"

let show_res (f : 'a -> string) (r : 'a res) : string =
  match r with
  | Ok a -> f a
  | ErrOOB (i, l) -> Printf.sprintf "OOB:%s:%s" (string_of_n i) (string_of_n l)
  | ErrFuel -> "FUEL"
  | ErrExn c -> Printf.sprintf "EXN:%d" (int_of_n c)

(* token stream *)
let parse_matrix (toks : string list) : dmat * string list =
  match toks with
  | r :: c :: es :: rest ->
      let l = if es = "-" then [] else List.map qx_of_string (String.split_on_char ',' es) in
      ({ drow = n_of_string r; dcol = n_of_string c; dm = l }, rest)
  | _ -> failwith "matrix expected"

let fresh (r : n) (c : n) : dmat = mzero r c
let nn = n_of_string

let run_line (line : string) : string =
  let toks = List.filter (fun s -> s <> "") (String.split_on_char ' ' line) in
  match toks with
  | [] -> "BADCASE"
  | op :: rest ->
    let m1 () = let (a, r) = parse_matrix rest in (a, r) in
    let m2 () = let (a, r) = parse_matrix rest in let (b, r) = parse_matrix r in (a, b, r) in
    let sq a = fresh a.drow a.dcol in
    let mat = show_res show_m in
    let matpl = show_res (fun (m, pl) -> show_m m ^ ";" ^ show_pl pl) in
    (match op with
     | "add" -> let (a, b, _) = m2 () in mat (add_dense_dense a b (sq a))
     | "adds" -> let (a, r) = m1 () in mat (add_dense_scalar a (qx_of_string (List.hd r)) (sq a))
     | "mul" -> let (a, b, _) = m2 () in mat (mul_dense_dense a b (fresh a.drow b.dcol))
     | "emul" -> let (a, b, _) = m2 () in mat (elementwise_mul_dense_dense a b (sq a))
     | "muls" -> let (a, r) = m1 () in mat (mul_dense_scalar a (qx_of_string (List.hd r)) (sq a))
     | "transpose" -> let (a, _) = m1 () in mat (transpose_dense a (fresh a.dcol a.drow))
     | "submatrix" ->
         let (a, r) = m1 () in
         (match List.map nn r with
          | [rs; cs; re; ce; rst; cst] ->
              let b = fresh (N.add (N.sub re rs) (Npos XH)) (N.add (N.sub ce cs) (Npos XH)) in
              mat (submatrix_dense a b rs cs re ce rst cst)
          | _ -> "BADCASE")
     | "row_insert" -> let (a, b, r) = m2 () in mat (row_insert a b (nn (List.hd r)))
     | "col_insert" -> let (a, b, r) = m2 () in mat (col_insert a b (nn (List.hd r)))
     | "row_join" -> let (a, b, _) = m2 () in mat (row_join a b)
     | "col_join" -> let (a, b, _) = m2 () in mat (col_join a b)
     | "row_del" -> let (a, r) = m1 () in mat (row_del a (nn (List.hd r)))
     | "col_del" -> let (a, r) = m1 () in mat (col_del a (nn (List.hd r)))
     | "row_exchange" ->
         let (a, r) = m1 () in
         (match r with [i; j] -> mat (row_exchange_dense a (nn i) (nn j)) | _ -> "BADCASE")
     | "row_mul_scalar" ->
         let (a, r) = m1 () in
         (match r with [i; c] -> mat (row_mul_scalar_dense a (nn i) (qx_of_string c)) | _ -> "BADCASE")
     | "row_add_row" ->
         let (a, r) = m1 () in
         (match r with [i; j; c] -> mat (row_add_row_dense a (nn i) (nn j) (qx_of_string c)) | _ -> "BADCASE")
     | "col_exchange" ->
         let (a, r) = m1 () in
         (match r with [i; j] -> mat (column_exchange_dense a (nn i) (nn j)) | _ -> "BADCASE")
     | "pge" -> let (a, _) = m1 () in matpl (pivoted_gaussian_elimination a (sq a) [])
     | "ffge" -> let (a, _) = m1 () in mat (fraction_free_gaussian_elimination a (sq a))
     | "pffge" -> let (a, _) = m1 () in matpl (pivoted_fraction_free_gaussian_elimination a (sq a) [])
     | "pgj" -> let (a, _) = m1 () in matpl (pivoted_gauss_jordan_elimination a (sq a) [])
     | "ffgj" -> let (a, _) = m1 () in mat (fraction_free_gauss_jordan_elimination a (sq a))
     | "pffgj" -> let (a, _) = m1 () in matpl (pivoted_fraction_free_gauss_jordan_elimination a (sq a) [])
     | "rref" ->
         let (a, r) = m1 () in
         show_res (fun (m, pc) -> show_m m ^ ";" ^ show_pc pc)
           (reduced_row_echelon_form a (sq a) (List.hd r = "1"))
     | "diag_solve" -> let (a, b, _) = m2 () in mat (diagonal_solve a b (fresh a.dcol b.dcol))
     | "back_sub" -> let (a, b, _) = m2 () in mat (back_substitution a b (fresh a.dcol b.dcol))
     | "fwd_sub" -> let (a, b, _) = m2 () in mat (forward_substitution a b (fresh a.dcol b.dcol))
     | "ffge_solve" -> let (a, b, _) = m2 () in mat (fraction_free_gaussian_elimination_solve a b (fresh a.dcol b.dcol))
     | "ffgj_solve" -> let (a, b, r) = m2 () in mat (fraction_free_gauss_jordan_solve a b (fresh a.dcol b.dcol) (List.hd r = "1"))
     | "fflu_solve" -> let (a, b, _) = m2 () in mat (fraction_free_LU_solve a b (fresh a.dcol b.dcol))
     | "lu_solve" -> let (a, b, _) = m2 () in mat (lU_solve a b (fresh a.dcol b.dcol))
     | "plu_solve" -> let (a, b, _) = m2 () in mat (pivoted_LU_solve a b (fresh a.dcol b.dcol))
     | "ldl_solve" -> let (a, b, _) = m2 () in mat (lDL_solve a b (fresh a.dcol b.dcol))
     | "fflu" -> let (a, _) = m1 () in mat (fraction_free_LU a (sq a))
     | "lu" ->
         let (a, _) = m1 () in
         show_res (fun (l, u) -> show_m l ^ ";" ^ show_m u) (lU a (sq a) (sq a))
     | "plu" ->
         let (a, _) = m1 () in
         show_res (fun ((l, u), pl) -> show_m l ^ ";" ^ show_m u ^ ";" ^ show_pl pl)
           (pivoted_LU a (sq a) (sq a) [])
     | "ffldu" ->
         let (a, _) = m1 () in
         show_res (fun ((l, d), u) -> show_m l ^ ";" ^ show_m d ^ ";" ^ show_m u)
           (fraction_free_LDU a (sq a) (sq a) (sq a))
     | "ldl" ->
         let (a, _) = m1 () in
         show_res (fun (l, d) -> show_m l ^ ";" ^ show_m d) (lDL a (sq a) (sq a))
     | "cholesky" -> let (a, _) = m1 () in mat (cholesky a (sq a))
     | "det_bareis" -> let (a, _) = m1 () in show_res show_s (det_bareis a)
     | "det_berkowitz" -> let (a, _) = m1 () in show_res show_s (det_berkowitz a)
     | "char_poly" -> let (a, _) = m1 () in mat (char_poly a)
     | "berkowitz" ->
         let (a, _) = m1 () in
         show_res (fun ps -> "L:" ^ String.concat "|"
                      (List.map (fun p -> String.concat "," (List.map show_qx p)) ps))
           (berkowitz a)
     | "inv_fflu" -> let (a, _) = m1 () in mat (inverse_fraction_free_LU a (sq a))
     | "inv_lu" -> let (a, _) = m1 () in mat (inverse_LU a (sq a))
     | "inv_plu" -> let (a, _) = m1 () in mat (inverse_pivoted_LU a (sq a))
     | "inv_gj" -> let (a, _) = m1 () in mat (inverse_gauss_jordan a (sq a))
     | "is_sym" -> let (a, _) = m1 () in show_res show_b (is_symmetric_dense a)
     | "is_lower" -> let (a, _) = m1 () in show_res show_b (is_lower a)
     | "is_upper" -> let (a, _) = m1 () in show_res show_b (is_upper a)
     | "trace" -> let (a, _) = m1 () in show_res show_s (trace a)
     | "eye" ->
         (match rest with [r; c] -> mat (eye (fresh (nn r) (nn c))) | _ -> "BADCASE")
     | _ -> "BADOP")

let () =
  try
    while true do
      let line = input_line stdin in
      (try print_endline (run_line line)
       with Failure m -> print_endline ("BADCASE:" ^ m) | Not_found -> print_endline "BADCASE")
    done
  with End_of_file -> ()
