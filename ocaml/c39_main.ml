(* C39 model side.  Input line (the part of the driver's line before "\t=>\t"):
     <dump e> \t <dumps of has_symbol arguments, " ;; "> \t <coeff queries "dump x ;; dump n", " || ">
   Output: the result text the driver prints after "\t=>\t":
     FS[..] HS[..] FN[..] A:<menu>[..]... CO[..]   followed by  \t#G:<set-binder><subs>
   (guard flags of the model, not compared). *)
open Semodel
open Expr_io

let rec bits_of_pos = function XH -> [true] | XO p -> false :: bits_of_pos p | XI p -> true :: bits_of_pos p
let hex_of_n (x : n) : string =
  let bits = match x with N0 -> [] | Npos p -> bits_of_pos p in
  let rec nib l = match l with
    | [] -> []
    | _ ->
      let take k l = let rec go k l acc = if k = 0 then (List.rev acc, l) else
                       match l with [] -> go (k-1) [] (false :: acc) | b :: r -> go (k-1) r (b :: acc) in go k l [] in
      let (q, r) = take 4 l in
      let v = List.fold_right (fun b a -> 2 * a + (if b then 1 else 0)) q 0 in
      v :: nib r in
  let ds = List.rev (nib bits) in
  let s = String.concat "" (List.map (fun d -> String.make 1 "0123456789abcdef".[d]) ds) in
  let s = if String.length s < 16 then String.make (16 - String.length s) '0' ^ s else s in
  s

let hexname (bs : n list) : string =
  "x" ^ String.concat "" (List.map (fun b -> Printf.sprintf "%02x" (small_of_n b)) bs)
let string_of_bytes (bs : n list) : string =
  String.concat "" (List.map (fun b -> String.make 1 (Char.chr (small_of_n b))) bs)
let dec_of_pos p = dec_of_n (Npos p)

let show_num (x : number) : string =
  match x with
  | NInt z -> "(I " ^ dec_of_z z ^ ")"
  | NRat (p, q) -> "(Q " ^ dec_of_z p ^ " " ^ dec_of_pos q ^ ")"
  | NCplx (a, b, c, d) -> "(C " ^ dec_of_z a ^ " " ^ dec_of_pos b ^ " " ^ dec_of_z c ^ " " ^ dec_of_pos d ^ ")"
  | NDbl b -> "(D " ^ hex_of_n b ^ ")"
  | NCDbl (r, i) -> "(CD " ^ hex_of_n r ^ " " ^ hex_of_n i ^ ")"
  | NInf d -> "(Inf " ^ dec_of_z d ^ ")"
  | NNaN -> "(NaN)"

let cname (c : n) : string =
  match tc_name c with Some nm -> string_of_bytes nm | None -> "?" ^ dec_of_n c

(* the text of harness/c39_driver.cpp: dump39(b, sorted) *)
let rec show (sorted : bool) (e : expr) : string =
  let sh = show sorted in
  let args l = String.concat "" (List.map (fun a -> " " ^ sh a) l) in
  let pairs l = String.concat "" (List.map (fun (k, v) -> " (" ^ sh k ^ " " ^ sh v ^ ")") l) in
  match e with
  | ENum x -> show_num x
  | ESym nm -> "(Sym " ^ hexname nm ^ ")"
  | EDummy (nm, i) -> "(Dummy " ^ hexname nm ^ " " ^ dec_of_n i ^ ")"
  | EConst nm -> "(Const " ^ hexname nm ^ ")"
  | EAdd (c, d) ->
      let items = List.map (fun (k, v) -> "(" ^ sh k ^ " " ^ show_num v ^ ")") d in
      let items = if sorted then List.sort compare items else items in
      "(Add " ^ show_num c ^ String.concat "" (List.map (fun s -> " " ^ s) items) ^ ")"
  | EMul (c, d) -> "(Mul " ^ show_num c ^ pairs d ^ ")"
  | EPow (b, x) -> "(Pow " ^ sh b ^ " " ^ sh x ^ ")"
  | EF1 (c, a) -> "(F1 " ^ cname c ^ " " ^ sh a ^ ")"
  | EF2 (c, a, b) -> "(F2 " ^ cname c ^ " " ^ sh a ^ " " ^ sh b ^ ")"
  | EFN (c, l) -> "(FN " ^ cname c ^ args l ^ ")"
  | EFunSym (nm, l) -> "(FunSym " ^ hexname nm ^ args l ^ ")"
  | ELex (c, a, b) -> "(Lex " ^ cname c ^ " " ^ sh a ^ " " ^ sh b ^ ")"
  | EDeriv (a, xs) -> "(Deriv " ^ sh a ^ args xs ^ ")"
  | ESubs (a, d) -> "(Subs " ^ sh a ^ pairs d ^ ")"
  | EPw l -> "(Pw" ^ pairs l ^ ")"
  | EBool b -> "(Bool " ^ (if b then "1" else "0") ^ ")"
  | EInterval (s, x, lo, ro) ->
      "(Interval " ^ sh s ^ " " ^ sh x ^ " " ^ (if lo then "1" else "0") ^ " " ^ (if ro then "1" else "0") ^ ")"
  | EAtom c -> "(Atom " ^ cname c ^ ")"

let code nm = code_of_name nm
let menu : (string * akind list) list Lazy.t = lazy [
  ("Symbol", [KSymbol]);
  ("Dummy", [KDummy]);
  ("Mul", [KMul]);
  ("AddPow", [KAdd; KPow]);
  ("Number", [KNumber]);
  ("Integer", [KInteger]);
  ("SymMul", [KSymbol; KMul]);
  ("SinDerivSubs", [KCode (code "Sin"); KCode (code "Derivative"); KCode (code "Subs")]);
  ("Sets", [KCode (code "ImageSet"); KCode (code "ConditionSet"); KCode (code "Interval"); KCode (code "FiniteSet")]);
]

let show_state (st : vstate) : string =
  if st.vs_out then "FUEL" else String.concat " " (List.map (fun (_, x) -> show false x) st.vs_s)

let show_res (r : expr res) : string =
  match r with
  | Ok e -> show true e
  | ErrOOB _ -> "OOB"
  | ErrFuel -> "FUEL"
  | ErrExn c -> "EXN:" ^ dec_of_n c

let nonempty s = String.trim s <> ""

(* hypothesis of C39_atoms_complete_partial, evaluated for the evidence (not part of the
   compared text): no two different trees of the get_args closure are identified by the library's
   equality.  '?' when the closure is too large to test all pairs. *)
let closure_exact_flag (e : expr) : string =
  let nodes = ref [] in
  let count = ref 0 in
  let rec go x =
    if !count <= 400 then begin
      incr count;
      nodes := x :: !nodes;
      List.iter go (get_args x)
    end in
  go e;
  if !count > 400 then "?" else begin
    let tbl = Hashtbl.create 64 in
    List.iter (fun x -> let s = show false x in if not (Hashtbl.mem tbl s) then Hashtbl.add tbl s x) !nodes;
    let distinct = Hashtbl.fold (fun s x acc -> (s, x, mk_hx x) :: acc) tbl [] in
    let ok = ref true in
    List.iter (fun (s1, x1, h1) ->
      List.iter (fun (s2, x2, h2) ->
        if s1 <> s2 && fst h1 = fst h2 && (expr_eqb x1 x2 || set_equiv h1 h2) then ok := false) distinct) distinct;
    if !ok then "1" else "0"
  end

let () =
  try
    while true do
      let line = input_line stdin in
      (try
        let fields = String.split_on_char '\t' line in
        let (es, qs, cs) = match fields with
          | [a] -> (a, "", "")
          | [a; b] -> (a, b, "")
          | a :: b :: c :: _ -> (a, b, c)
          | [] -> ("", "", "") in
        let e = expr_of_string (String.trim es) in
        let qargs = List.map (fun s -> expr_of_string (String.trim s)) (List.filter nonempty (split_on " ;; " qs)) in
        let cqs = List.map (fun s ->
            match List.filter nonempty (split_on " ;; " s) with
            | [x; n] -> (expr_of_string (String.trim x), expr_of_string (String.trim n))
            | _ -> failwith "coeff query") (List.filter nonempty (split_on " || " cs)) in
        let buf = Buffer.create 256 in
        Buffer.add_string buf ("FS[" ^ show_state (free_symbols_st e) ^ "]");
        Buffer.add_string buf (" HS[" ^ String.concat "" (List.map (fun x ->
            match has_symbol e x with Some true -> "1" | Some false -> "0" | None -> "F") qargs) ^ "]");
        Buffer.add_string buf (" FN[" ^ show_state (atoms_st [KFunSym] e) ^ "]");
        List.iter (fun (nm, ks) ->
            Buffer.add_string buf (" A:" ^ nm ^ "[" ^ show_state (atoms_st ks e) ^ "]")) (Lazy.force menu);
        Buffer.add_string buf (" CO[" ^ String.concat " ; " (List.map (fun (x, n) -> show_res (coeff e x n)) cqs) ^ "]");
        Buffer.add_string buf ("\t#G:" ^ (if guard_set_binder e then "1" else "0") ^ (if guard_subs e then "1" else "0")
                               ^ (if tree_ok e then "1" else "0") ^ closure_exact_flag e
                               ^ (if nums_ok e then "1" else "0"));
        print_endline (Buffer.contents buf)
      with
      | Unsupported m -> print_endline ("UNSUPPORTED " ^ m)
      | Failure m -> print_endline ("FAIL " ^ m))
    done
  with End_of_file -> ()
