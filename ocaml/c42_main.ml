(* C42 model side.
   input : <case line> TAB <driver line>      (the driver line supplies the M records: what the C++ API
                                               answered for each call = the oracle of the model)
   output: the C / F records (and PRECOND / MEMERR stops) in the driver's format, computed by the extracted
           model (coq/C42/CWrapModel.v) from the table read out of cwrapper.cpp (coq/C42/Gen_CWrap.v). *)
open C42model

(* ---- reader of the drivers' tree dumps: ocaml/expr_io.ml, copied because the extracted module of this
   property exports Coq's `string` type (which shadows OCaml's in the annotations of expr_io.ml) *)
type sexp = A of String.t | L of sexp list

let parse_sexp (s : String.t) : sexp =
  let n = String.length s in
  let pos = ref 0 in
  let rec skip () = if !pos < n && (s.[!pos] = ' ' || s.[!pos] = '\t') then (incr pos; skip ()) in
  let rec go () =
    skip ();
    if !pos >= n then failwith "sexp: end";
    if s.[!pos] = '(' then begin
      incr pos;
      let items = ref [] in
      let fin = ref false in
      while not !fin do
        skip ();
        if !pos >= n then failwith "sexp: missing )";
        if s.[!pos] = ')' then (incr pos; fin := true) else items := go () :: !items
      done;
      L (List.rev !items)
    end else begin
      let st = !pos in
      while !pos < n && s.[!pos] <> ' ' && s.[!pos] <> '(' && s.[!pos] <> ')' && s.[!pos] <> '\t' do incr pos done;
      A (String.sub s st (!pos - st))
    end in
  go ()

(* small OCaml ints (0..255, digit values) to the extracted N *)
let rec pos_of_int (k : int) : positive =
  if k = 1 then XH else if k land 1 = 0 then XO (pos_of_int (k lsr 1)) else XI (pos_of_int (k lsr 1))
let n_of_small (k : int) : n = if k = 0 then N0 else Npos (pos_of_int k)
let rec int_of_pos = function XH -> 1 | XO p -> 2 * int_of_pos p | XI p -> 2 * int_of_pos p + 1
let small_of_n = function N0 -> 0 | Npos p -> int_of_pos p

let digits_of_string (s : String.t) : n list =
  List.init (String.length s) (fun i -> n_of_small (Char.code s.[i] - 48))
let hexval c = match c with
  | '0'..'9' -> Char.code c - 48 | 'a'..'f' -> Char.code c - 87 | 'A'..'F' -> Char.code c - 55
  | _ -> failwith "hex"
let n_of_dec (s : String.t) : n = n_of_digits (n_of_small 10) (digits_of_string s)
let n_of_hex (s : String.t) : n =
  n_of_digits (n_of_small 16) (List.init (String.length s) (fun i -> n_of_small (hexval s.[i])))
let z_of_dec (s : String.t) : z =
  if String.length s > 0 && s.[0] = '-' then
    z_of_digits true (digits_of_string (String.sub s 1 (String.length s - 1)))
  else z_of_digits false (digits_of_string s)
let pos_of_dec (s : String.t) : positive =
  match z_of_dec s with Zpos p -> p | _ -> failwith "positive expected"
let dec_of_n (x : n) : String.t =
  String.concat "" (List.map (fun d -> string_of_int (small_of_n d)) (digits_of_N x))
let dec_of_z (x : z) : String.t =
  match x with Z0 -> "0" | Zpos p -> dec_of_n (Npos p) | Zneg p -> "-" ^ dec_of_n (Npos p)
let bytes_of_string (s : String.t) : n list =
  List.init (String.length s) (fun i -> n_of_small (Char.code s.[i]))
(* names are printed as 'x' followed by hex pairs *)
let bytes_of_hexname (s : String.t) : n list =
  let k = (String.length s - 1) / 2 in
  List.init k (fun i -> n_of_small (16 * hexval s.[1 + 2 * i] + hexval s.[2 + 2 * i]))

exception Unsupported of String.t

let code_of_name (nm : String.t) : n =
  match tc_lookup (bytes_of_string nm) with
  | Some c -> c
  | None -> raise (Unsupported ("unknown class " ^ nm))

let number_of_sexp (x : sexp) : number =
  match x with
  | L [A "I"; A v] -> NInt (z_of_dec v)
  | L [A "Q"; A p; A q] -> NRat (z_of_dec p, pos_of_dec q)
  | L [A "C"; A a; A b; A c; A d] -> NCplx (z_of_dec a, pos_of_dec b, z_of_dec c, pos_of_dec d)
  | L [A "D"; A h] -> NDbl (n_of_hex h)
  | L [A "CD"; A h1; A h2] -> NCDbl (n_of_hex h1, n_of_hex h2)
  | L [A "Inf"; A d] -> NInf (z_of_dec d)
  | L [A "NaN"] -> NNaN
  | _ -> raise (Unsupported "number")

let rec expr_of_sexp (x : sexp) : expr =
  match x with
  | L (A ("I" | "Q" | "C" | "D" | "CD" | "Inf" | "NaN") :: _) -> ENum (number_of_sexp x)
  | L [A "Sym"; A nm] -> ESym (bytes_of_hexname nm)
  | L [A "Dummy"; A nm; A idx] -> EDummy (bytes_of_hexname nm, n_of_dec idx)
  | L [A "Const"; A nm] -> EConst (bytes_of_hexname nm)
  | L (A "Add" :: c :: items) ->
      EAdd (number_of_sexp c, List.map (function L [k; v] -> (expr_of_sexp k, number_of_sexp v) | _ -> failwith "add item") items)
  | L (A "Mul" :: c :: items) ->
      EMul (number_of_sexp c, List.map (function L [k; v] -> (expr_of_sexp k, expr_of_sexp v) | _ -> failwith "mul item") items)
  | L [A "Pow"; b; e] -> EPow (expr_of_sexp b, expr_of_sexp e)
  | L [A "F1"; A nm; a] -> EF1 (code_of_name nm, expr_of_sexp a)
  | L [A "F2"; A nm; a; b] -> EF2 (code_of_name nm, expr_of_sexp a, expr_of_sexp b)
  | L (A "FN" :: A nm :: args) -> EFN (code_of_name nm, List.map expr_of_sexp args)
  | L (A "FunSym" :: A nm :: args) -> EFunSym (bytes_of_hexname nm, List.map expr_of_sexp args)
  | L [A "Lex"; A nm; a; b] -> ELex (code_of_name nm, expr_of_sexp a, expr_of_sexp b)
  | L (A "Deriv" :: a :: xs) -> EDeriv (expr_of_sexp a, List.map expr_of_sexp xs)
  | L (A "Subs" :: a :: items) ->
      ESubs (expr_of_sexp a, List.map (function L [k; v] -> (expr_of_sexp k, expr_of_sexp v) | _ -> failwith "subs item") items)
  | L (A "Pw" :: items) ->
      EPw (List.map (function L [k; v] -> (expr_of_sexp k, expr_of_sexp v) | _ -> failwith "pw item") items)
  | L [A "Bool"; A b] -> EBool (b = "1")
  | L [A "Interval"; s; e; A lo; A ro] -> EInterval (expr_of_sexp s, expr_of_sexp e, lo = "1", ro = "1")
  | L [A "Atom"; A nm] -> EAtom (code_of_name nm)
  | L (A "Opaque" :: _) -> raise (Unsupported "opaque")
  | _ -> raise (Unsupported "shape")

let expr_of_string (s : String.t) : expr = expr_of_sexp (parse_sexp s)

(* split on a multi-character separator *)
let split_on (sep : String.t) (s : String.t) : String.t list =
  let ls = String.length sep and n = String.length s in
  let rec go start i acc =
    if i + ls > n then List.rev (String.sub s start (n - start) :: acc)
    else if String.sub s i ls = sep then go (i + ls) (i + ls) (String.sub s start (i - start) :: acc)
    else go start (i + 1) acc in
  go 0 0 []


(* ---- Coq strings *)
let ascii_of_char (c : char) : ascii =
  let n = Char.code c in
  Ascii (n land 1 <> 0, n land 2 <> 0, n land 4 <> 0, n land 8 <> 0,
         n land 16 <> 0, n land 32 <> 0, n land 64 <> 0, n land 128 <> 0)
let char_of_ascii (Ascii (a, b, c, d, e, f, g, h)) : char =
  let v x k = if x then k else 0 in
  Char.chr (v a 1 + v b 2 + v c 4 + v d 8 + v e 16 + v f 32 + v g 64 + v h 128)
let coq_of_string (s : String.t) : string =
  let r = ref EmptyString in
  for i = String.length s - 1 downto 0 do r := String (ascii_of_char s.[i], !r) done;
  !r
let string_of_coq (s : string) : String.t =
  let b = Buffer.create 16 in
  let rec go = function EmptyString -> () | String (c, r) -> Buffer.add_char b (char_of_ascii c); go r in
  go s; Buffer.contents b

(* ---- small numbers *)
let rec nat_of_int (k : int) : nat = if k = 0 then O else S (nat_of_int (k - 1))
let rec int_of_nat = function O -> 0 | S n -> 1 + int_of_nat n
let hex_of_n (x : n) : String.t =
  (* 16 hex digits, from the binary representation *)
  let bits = Array.make 64 false in
  (match x with
   | N0 -> ()
   | Npos p ->
       let rec go i = function
         | XH -> if i < 64 then bits.(i) <- true
         | XO q -> go (i + 1) q
         | XI q -> (if i < 64 then bits.(i) <- true); go (i + 1) q in
       go 0 p);
  String.init 16 (fun j ->
    let d = 15 - j in
    let v = (if bits.(4 * d) then 1 else 0) + (if bits.(4 * d + 1) then 2 else 0)
            + (if bits.(4 * d + 2) then 4 else 0) + (if bits.(4 * d + 3) then 8 else 0) in
    "0123456789abcdef".[v])
let hexenc (s : String.t) : String.t =
  "x" ^ String.concat "" (List.init (String.length s) (fun i -> Printf.sprintf "%02x" (Char.code s.[i])))
let hexdec (h : String.t) : String.t =
  let k = (String.length h - 1) / 2 in
  String.init k (fun i -> Char.chr (16 * hexval h.[1 + 2 * i] + hexval h.[2 + 2 * i]))

(* ---- values: dumps are interned per case; tag 0 is the initial content of every basic slot *)
let tags : (String.t, val0) Hashtbl.t = Hashtbl.create 64
let dumps : (int, String.t) Hashtbl.t = Hashtbl.create 64
let reset () =
  Hashtbl.reset tags; Hashtbl.reset dumps;
  Hashtbl.replace tags "(I 0)" zero_val; Hashtbl.replace dumps 0 "(I 0)"
let val_of_dump (d : String.t) : val0 =
  (* numerals travel as digit lists through the extracted arithmetic: a 100000-digit integer would take minutes *)
  if String.length d > 6000 then raise (Unsupported "dump longer than 6000 characters");
  match Hashtbl.find_opt tags d with
  | Some v -> v
  | None ->
      let t = Hashtbl.length tags in
      let v = { vtag = n_of_small t; vex = expr_of_string d } in
      Hashtbl.replace tags d v; Hashtbl.replace dumps t d; v
let dump_of_val (v : val0) : String.t = Hashtbl.find dumps (small_of_n v.vtag)

let split_semis (s : String.t) : String.t list = if s = "" then [] else String.split_on_char ';' s
let cval_of_text (s : String.t) : cval =
  let body () = String.sub s 2 (String.length s - 3) in
  match s.[0] with
  | 'B' -> CB (val_of_dump (String.sub s 1 (String.length s - 1)))
  | 'V' -> CVec (List.map val_of_dump (split_semis (body ())))
  | 'S' -> CSet (List.map val_of_dump (split_semis (body ())))
  | 'P' ->
      CMap (List.map (fun kv ->
        match String.index_opt kv ':' with
        | Some i -> (val_of_dump (String.sub kv 0 i), val_of_dump (String.sub kv (i + 1) (String.length kv - i - 1)))
        | None -> failwith "map entry") (split_semis (body ())))
  | 'I' -> CZ (z_of_dec (String.sub s 1 (String.length s - 1)))
  | 'D' -> CD (n_of_hex (String.sub s 1 (String.length s - 1)))
  | 'T' -> CS (coq_of_string (hexdec (String.sub s 1 (String.length s - 1))))
  | 'N' -> CNull
  | _ -> failwith ("cval " ^ s)
let text_of_vals l = String.concat ";" (List.map dump_of_val l)
let text_of_cval (c : cval) : String.t =
  match c with
  | CB v -> "B" ^ dump_of_val v
  | CVec l -> "V[" ^ text_of_vals l ^ "]"
  | CSet l -> "S[" ^ text_of_vals l ^ "]"
  | CMap l -> "P[" ^ String.concat ";" (List.map (fun (k, v) -> dump_of_val k ^ ":" ^ dump_of_val v) l) ^ "]"
  | CZ z -> "I" ^ dec_of_z z
  | CD b -> "D" ^ hex_of_n b
  | CS s -> "T" ^ hexenc (string_of_coq s)
  | CNull -> "N"
(* oracle key: tags, not dumps *)
let key_of_cval (c : cval) : String.t =
  let t v = string_of_int (small_of_n v.vtag) in
  match c with
  | CB v -> "B" ^ t v
  | CVec l -> "V[" ^ String.concat ";" (List.map t l) ^ "]"
  | CSet l -> "S[" ^ String.concat ";" (List.map t l) ^ "]"
  | CMap l -> "P[" ^ String.concat ";" (List.map (fun (k, v) -> t k ^ ":" ^ t v) l) ^ "]"
  | _ -> text_of_cval c

(* ---- the case *)
let arg_of_token (x : String.t) : arg =
  if String.length x >= 2 && x.[1] = ':' then begin
    let r = String.sub x 2 (String.length x - 2) in
    match x.[0] with
    | 'i' -> AZ (z_of_dec r)
    | 'd' -> AD (n_of_hex r)
    | 't' -> AT (coq_of_string (hexdec r))
    | _ -> failwith "arg"
  end else if x = "L" then AL
  else begin
    let i = nat_of_int (int_of_string (String.sub x 1 (String.length x - 1))) in
    match x.[0] with
    | 'b' -> AB i | 'v' -> AV i | 's' -> AS i | 'm' -> AM i
    | _ -> failwith "arg"
  end
let call_of_text (s : String.t) : call * String.t list =
  match List.filter (fun t -> t <> "") (String.split_on_char ' ' s) with
  | f :: args -> ({ c_fn = coq_of_string f; c_args = List.map arg_of_token args }, args)
  | [] -> failwith "empty call"

let nb = 6 and nv = 2 and ns = 2 and nm = 2

let handle_text (st : state) (tok : String.t) : String.t option =
  if String.length tok >= 2 && tok.[1] <> ':' && tok <> "L" then begin
    let i = int_of_string (String.sub tok 1 (String.length tok - 1)) in
    match tok.[0] with
    | 'b' -> Some (tok ^ "=B" ^ dump_of_val (List.nth st.s_b i))
    | 'v' -> Some (tok ^ "=V[" ^ text_of_vals (List.nth st.s_v i) ^ "]")
    | 's' -> Some (tok ^ "=S[" ^ text_of_vals (List.nth st.s_s i) ^ "]")
    | 'm' -> Some (tok ^ "=" ^ text_of_cval (CMap (List.nth st.s_m i)))
    | _ -> None
  end else None

let () =
  try
    while true do
      let line = input_line stdin in
      (try
        reset ();
        let case, drv =
          match String.index_opt line '\t' with
          | Some i -> (String.sub line 0 i, String.sub line (i + 1) (String.length line - i - 1))
          | None -> (line, "") in
        (* the oracle: M records of the driver line *)
        let orc : (String.t, cval res) Hashtbl.t = Hashtbl.create 16 in
        List.iter (fun rcd ->
          match split_on " @ " (String.trim rcd) with
          | "M" :: k :: tmpl :: n :: rest ->
              let n = int_of_string n in
              let args = List.filteri (fun i _ -> i < n) rest in
              let res = List.nth rest n in
              let key = k ^ "|" ^ tmpl ^ "|" ^ String.concat "," (List.map (fun a -> key_of_cval (cval_of_text a)) args) in
              let r = if String.length res >= 3 && String.sub res 0 3 = "EXN"
                then ErrExn (n_of_dec (String.sub res 3 (String.length res - 3)))
                else Ok (cval_of_text res) in
              if not (Hashtbl.mem orc key) then Hashtbl.replace orc key r
          | _ -> ()) (split_on " ## " drv);
        let core (k : n) (tmpl : string) (args : cval list) : cval res =
          let key = dec_of_n k ^ "|" ^ string_of_coq tmpl ^ "|" ^ String.concat "," (List.map key_of_cval args) in
          match Hashtbl.find_opt orc key with Some r -> r | None -> ErrFuel in
        let calls = List.map call_of_text (split_on " ; " case) in
        let outs = run core cwrap_table N0 (init_state (nat_of_int nb) (nat_of_int nv) (nat_of_int ns) (nat_of_int nm))
                     (List.map fst calls) in
        let buf = Buffer.create 256 in
        let last = ref None in
        let stopped = ref false in
        List.iteri (fun k ((o, st), (c, toks)) ->
          last := Some st;
          let fn = string_of_coq c.c_fn in
          let hs esc = String.concat "" (List.filter_map (fun t ->
            match handle_text st t with
            | Some h -> Some (" @ " ^ (if esc then String.sub h 0 (String.index h '=') ^ "=?" else h))
            | None -> None) toks) in
          let rc s = Buffer.add_string buf (Printf.sprintf "C @ %d @ %s%s ## " k s (hs false)) in
          match o with
          | RetCode c -> rc ("rc=" ^ dec_of_n c)
          | RetInt z -> rc ("int=" ^ dec_of_z z)
          | RetDbl b -> rc ("dbl=" ^ hex_of_n b)
          | RetStr None -> rc "str=null"
          | RetStr (Some s) -> rc ("str=" ^ hexenc (string_of_coq s))
          | RetVoid -> rc "void"
          | Escape cls -> stopped := true; Buffer.add_string buf (Printf.sprintf "C @ %d @ ESCAPE%s%s ## " k (dec_of_n cls) (hs true))
          | MemErr (i, l) -> stopped := true; Buffer.add_string buf (Printf.sprintf "MEMERR @ %d @ %s @ %s @ %s" k fn (dec_of_n i) (dec_of_n l))
          | Precond -> stopped := true; Buffer.add_string buf (Printf.sprintf "PRECOND @ %d @ %s" k fn)
          | Unmodelled -> stopped := true; Buffer.add_string buf (Printf.sprintf "UNMODELLED @ %d @ %s" k fn))
          (List.combine outs (List.filteri (fun i _ -> i < List.length outs) calls));
        (if not !stopped then
          let st = match !last with Some s -> s | None -> init_state (nat_of_int nb) (nat_of_int nv) (nat_of_int ns) (nat_of_int nm) in
          let hname c i = Printf.sprintf "%c%d" c i in
          let all = List.init nb (hname 'b') @ List.init nv (hname 'v') @ List.init ns (hname 's') @ List.init nm (hname 'm') in
          Buffer.add_string buf ("F" ^ String.concat "" (List.filter_map (fun t ->
            match handle_text st t with Some h -> Some (" @ " ^ h) | None -> None) all)));
        print_endline (Buffer.contents buf)
      with
      | Unsupported m -> print_endline ("UNSUPPORTED " ^ m)
      | Failure m -> print_endline ("FAIL " ^ m)
      | Not_found -> print_endline "FAIL Not_found"
      | Invalid_argument m -> print_endline ("FAIL " ^ m))
    done
  with End_of_file -> ()
