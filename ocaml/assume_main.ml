(* C34/C35 model side.  Input line = kind TAB the driver's output line:
     Q <dump e> <stmts> <dump e/2 ;; dump (e+1)/2> <driver results> ...
     R <dump e> <stmts> <nodes> ...
   Output for Q: one character per query (T F ? E, U = the model declines, X = out of fuel), same
   order as the driver; "AEXN" when the Assumptions constructor throws.
   Output for R: one decision label per node record, separated by spaces ("-" if none);
   Max/Min decisions are printed as keep:i,j,k (keep:- for the empty list). *)
open Semodel
open Expr_io

let tab_split s = String.split_on_char '\t' s

let stmts_of (s : string) : expr list option =
  let s = String.trim s in
  if s = "-" then None
  else if s = "0" then Some []
  else Some (List.map (fun x -> expr_of_string (String.trim x)) (split_on " ;; " s))

let qchar = function
  | QT TT -> 'T' | QT TF -> 'F' | QT TI -> '?' | QExn -> 'E' | QUnsup -> 'U' | QFuel -> 'X'

let sym_x = ESym (bytes_of_string "x")

exception Aexn

let assum_of (st : expr list option) : assum option =
  match st with
  | None -> None
  | Some l -> (match mk_assum l with Ok a -> Some a | _ -> raise Aexn)

let do_query fields =
  match fields with
  | de :: st :: halves :: _ ->
      let e = expr_of_string de in
      let a = assum_of (stmts_of st) in
      let qs = all_queries a e in
      let hs = split_on " ;; " halves in
      let via f s =
        let s = String.trim s in
        if s = "!" then 'U' else (try qchar (f a (expr_of_string s)) with Unsupported _ -> 'U') in
      let ev, od = (match hs with [h; h1] -> (via is_even_via h, via is_odd_via h1) | _ -> ('U', 'U')) in
      let pc = function Some true -> 'T' | Some false -> 'F' | None -> 'U' in
      let p0 = pc (is_polynomial [] e) and px = pc (is_polynomial [sym_x] e) in
      let b = Buffer.create 20 in
      List.iter (fun r -> Buffer.add_char b (qchar r)) qs;
      Buffer.add_char b ev; Buffer.add_char b od; Buffer.add_char b p0; Buffer.add_char b px;
      Buffer.contents b
  | _ -> "BADLINE"

let label = function
  | DId -> "id" | DNeg -> "neg" | DConj -> "conj" | DKeep -> "keep" | DOne -> "one" | DMone -> "mone"
  | DZero -> "zero" | DFlip -> "flip" | DPos -> "pos" | DAbs -> "abs" | DMullog -> "mullog"
  | DPerfect -> "perfect" | DSin -> "sin" | DCos -> "cos" | DTan -> "tan"
  | DList l -> "keep:" ^ (if l = [] then "-" else String.concat "," (List.map dec_of_n l))
  | DExn -> "EXN" | DUnsup -> "UNSUP"

let do_node a (rec_ : string) : string =
  match List.map String.trim (split_on " ## " rec_) with
  | kind :: inputs :: flags :: _ ->
      let ins = List.map (fun s -> expr_of_string (String.trim s)) (split_on " ;; " inputs) in
      let d =
        (match kind, ins with
         | "Abs", [na] -> refine_abs a na
         | "Sign", [na] -> refine_sign a na
         | "Floor", [na] -> refine_floor a na (flags = "cem")
         | "Ceiling", [na] -> refine_ceiling a na (flags = "cem")
         | "Conjugate", [na] -> refine_conjugate a na
         | "Log", [na] -> refine_log a na (flags = "pp")
         | "Pow", [nb; ne] -> refine_pow a nb ne
         | "SPow", [b1; e1] -> simplify_pow b1 e1
         | "Max", l -> refine_max a l
         | "Min", l -> refine_min a l
         | _ -> DUnsup) in
      label d
  | _ -> "BADNODE"

let do_refine fields =
  match fields with
  | _ :: st :: nodes :: _ ->
      let a = assum_of (stmts_of st) in
      let nodes = String.trim nodes in
      if nodes = "-" || nodes = "AEXN" then "-"
      else String.concat " " (List.map (fun r -> try do_node a r with Unsupported _ -> "UNSUP") (split_on " @@ " nodes))
  | _ -> "BADLINE"

let () =
  try
    while true do
      let line = input_line stdin in
      (try
        match tab_split line with
        | "Q" :: rest -> print_endline (do_query rest)
        | "R" :: rest -> print_endline (do_refine rest)
        | _ -> print_endline "BADKIND"
      with
      | Aexn -> print_endline "AEXN"
      | Unsupported m -> print_endline ("UNSUPPORTED " ^ m)
      | Failure m -> print_endline ("FAIL " ^ m)
      | Not_found -> print_endline "FAIL notfound")
    done
  with End_of_file -> ()
