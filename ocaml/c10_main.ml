(* C10 model side.  Input line:  <dump of x> TAB <dump of e>   (as printed by harness/c10_driver.cpp, mode D)
   Output line: <program> TAB cache=<same|program of the cached visitor> TAB occurs=<0|1>
   where <program> is the construction term computed by the extracted [diff] (no cache), printed
   as an S-expression whose leaves (E <dump>) are sub-trees of the input or literals; `cache=same`
   when the cached visitor [diffc] returned the same term, else its term (the check then evaluates
   both). *)
open Semodel
open Expr_io

let string_of_bytes (l : n list) : string =
  String.concat "" (List.map (fun b -> String.make 1 (Char.chr (small_of_n b))) l)
let hexname (l : n list) : string =
  "x" ^ String.concat "" (List.map (fun b -> Printf.sprintf "%02x" (small_of_n b)) l)

let rec eq_n (a : n) (b : n) : bool = (dec_of_n a = dec_of_n b)
let class_name (code : n) : string =
  let rec go = function
    | [] -> "Unknown" ^ dec_of_n code
    | (nm, c) :: r -> if eq_n c code then string_of_bytes nm else go r in
  go tc_table

let hex_of_n (x : n) : string =
  (* 64-bit patterns: print through decimal digits into an OCaml Int64-free hex conversion *)
  let s = dec_of_n x in
  (* decimal string -> hex string (schoolbook, digits only) *)
  let digits = ref (List.init (String.length s) (fun i -> Char.code s.[i] - 48)) in
  let out = Buffer.create 16 in
  let hexd = "0123456789abcdef" in
  let acc = ref [] in
  let is_zero l = List.for_all (fun d -> d = 0) l in
  while not (is_zero !digits) do
    let rem = ref 0 in
    digits := List.map (fun d -> let v = !rem * 10 + d in rem := v mod 16; v / 16) !digits;
    acc := hexd.[!rem] :: !acc
  done;
  List.iter (Buffer.add_char out) !acc;
  let h = Buffer.contents out in
  String.make (max 0 (16 - String.length h)) '0' ^ h

let dump_num (x : number) : string =
  match x with
  | NInt v -> "(I " ^ dec_of_z v ^ ")"
  | NRat (p, q) -> "(Q " ^ dec_of_z p ^ " " ^ dec_of_z (Zpos q) ^ ")"
  | NCplx (a, b, c, d) ->
      "(C " ^ dec_of_z a ^ " " ^ dec_of_z (Zpos b) ^ " " ^ dec_of_z c ^ " " ^ dec_of_z (Zpos d) ^ ")"
  | NDbl b -> "(D " ^ hex_of_n b ^ ")"
  | NCDbl (r, i) -> "(CD " ^ hex_of_n r ^ " " ^ hex_of_n i ^ ")"
  | NInf d -> "(Inf " ^ dec_of_z d ^ ")"
  | NNaN -> "(NaN)"

let rec dump (e : expr) : string =
  let args l = String.concat "" (List.map (fun a -> " " ^ dump a) l) in
  match e with
  | ENum x -> dump_num x
  | ESym nm -> "(Sym " ^ hexname nm ^ ")"
  | EDummy (nm, idx) -> "(Dummy " ^ hexname nm ^ " " ^ dec_of_n idx ^ ")"
  | EConst nm -> "(Const " ^ hexname nm ^ ")"
  | EAdd (c, d) ->
      "(Add " ^ dump_num c ^ String.concat "" (List.map (fun (k, v) -> " (" ^ dump k ^ " " ^ dump_num v ^ ")") d) ^ ")"
  | EMul (c, d) ->
      "(Mul " ^ dump_num c ^ String.concat "" (List.map (fun (k, v) -> " (" ^ dump k ^ " " ^ dump v ^ ")") d) ^ ")"
  | EPow (b, x) -> "(Pow " ^ dump b ^ " " ^ dump x ^ ")"
  | EF1 (c, a) -> "(F1 " ^ class_name c ^ " " ^ dump a ^ ")"
  | EF2 (c, a, b) -> "(F2 " ^ class_name c ^ " " ^ dump a ^ " " ^ dump b ^ ")"
  | EFN (c, l) -> "(FN " ^ class_name c ^ args l ^ ")"
  | EFunSym (nm, l) -> "(FunSym " ^ hexname nm ^ args l ^ ")"
  | ELex (c, a, b) -> "(Lex " ^ class_name c ^ " " ^ dump a ^ " " ^ dump b ^ ")"
  | EDeriv (a, l) -> "(Deriv " ^ dump a ^ args l ^ ")"
  | ESubs (a, d) ->
      "(Subs " ^ dump a ^ String.concat "" (List.map (fun (k, v) -> " (" ^ dump k ^ " " ^ dump v ^ ")") d) ^ ")"
  | EPw l -> "(Pw" ^ String.concat "" (List.map (fun (k, v) -> " (" ^ dump k ^ " " ^ dump v ^ ")") l) ^ ")"
  | EBool b -> "(Bool " ^ (if b then "1" else "0") ^ ")"
  | EInterval (s, t, lo, ro) ->
      "(Interval " ^ dump s ^ " " ^ dump t ^ " " ^ (if lo then "1" else "0") ^ " " ^ (if ro then "1" else "0") ^ ")"
  | EAtom c -> "(Atom " ^ class_name c ^ ")"

let fname_str (f : fname) : string =
  match f with
  | Fsin -> "sin" | Fcos -> "cos" | Ftan -> "tan" | Fcot -> "cot" | Fsec -> "sec" | Fcsc -> "csc"
  | Fsinh -> "sinh" | Fcosh -> "cosh" | Ftanh -> "tanh" | Fcoth -> "coth" | Fsech -> "sech" | Fcsch -> "csch"
  | Fsqrt -> "sqrt" | Fexp -> "exp" | Flog -> "log" | Flambertw -> "lambertw"
  | Fpolygamma -> "polygamma" | Fzeta -> "zeta"

let rec prog (c : cx) : string =
  let many l = String.concat "" (List.map (fun a -> " " ^ prog a) l) in
  let leaf e = "(E " ^ dump e ^ ")" in
  match c with
  | CE e -> leaf e
  | CAdd (a, b) -> "(add " ^ prog a ^ " " ^ prog b ^ ")"
  | CSub (a, b) -> "(sub " ^ prog a ^ " " ^ prog b ^ ")"
  | CMul (a, b) -> "(mul " ^ prog a ^ " " ^ prog b ^ ")"
  | CDiv (a, b) -> "(div " ^ prog a ^ " " ^ prog b ^ ")"
  | CPow (a, b) -> "(pow " ^ prog a ^ " " ^ prog b ^ ")"
  | CNeg a -> "(neg " ^ prog a ^ ")"
  | CFn (f, l) -> "(fn " ^ fname_str f ^ many l ^ ")"
  | CCreate (self, l) -> "(create " ^ leaf self ^ many l ^ ")"
  | CDeriv (a, l) -> "(deriv " ^ prog a ^ many l ^ ")"
  | CSubsObj (a, d) ->
      "(subsobj " ^ prog a ^ String.concat "" (List.map (fun (k, v) -> " (" ^ prog k ^ " " ^ prog v ^ ")") d) ^ ")"
  | CSubst (a, d) ->
      "(subst " ^ prog a ^ String.concat "" (List.map (fun (k, v) -> " (" ^ leaf k ^ " " ^ leaf v ^ ")") d) ^ ")"
  | CDiff (a, x) -> "(diff " ^ prog a ^ " " ^ leaf x ^ ")"
  | CPw l -> "(pw" ^ String.concat "" (List.map (fun (a, cnd) -> " (" ^ prog a ^ " " ^ leaf cnd ^ ")") l) ^ ")"
  | CIfZero (c, a, b) -> "(ifzero " ^ prog c ^ " " ^ prog a ^ " " ^ prog b ^ ")"
  | CIfAllZero (cs, a, b) -> "(ifallzero (" ^ String.concat " " (List.map prog cs) ^ ") " ^ prog a ^ " " ^ prog b ^ ")"
  | CIfDerivOf (c, arg, a, b) -> "(ifderivof " ^ prog c ^ " " ^ leaf arg ^ " " ^ prog a ^ " " ^ prog b ^ ")"
  | CErr k -> "(err " ^ dec_of_n k ^ ")"

(* ---------- polynomial classes:  P <kind> <vars> <wrt> <terms>  (see harness/c10_driver.cpp) ---------- *)
let split_list c s = if s = "-" || s = "" then [] else String.split_on_char c s
let join sep l = if l = [] then "-" else String.concat sep l
let rec nat_of_int k = if k <= 0 then O else S (nat_of_int (k - 1))
let index_of x l = let rec go i = function [] -> None | y :: r -> if x = y then Some i else go (i + 1) r in go 0 l
let kc_of t = match String.index_opt t ':' with
  | Some i -> (String.sub t 0 i, String.sub t (i + 1) (String.length t - i - 1))
  | None -> failwith "term"
let qstr (n, d) = let ds = dec_of_z (Zpos d) in if ds = "1" then dec_of_z n else dec_of_z n ^ "/" ^ ds
let q_of s = match String.index_opt s '/' with
  | Some i -> (z_of_dec (String.sub s 0 i), pos_of_dec (String.sub s (i + 1) (String.length s - i - 1)))
  | None -> (z_of_dec s, XH)
(* exponents are sorted numerically by the driver's std::map; decimal strings compared by (length, text) *)
let cmp_dec a b = compare (String.length a, a) (String.length b, b)

let poly_line kind vars wrt terms =
  match kind with
  | "uint" ->
      let p = List.map (fun t -> let (k, c) = kc_of t in (n_of_dec k, z_of_dec c)) (split_list ',' terms) in
      let r = diff_upoly (vars = wrt) p in
      let ts = List.sort (fun (a, _) (b, _) -> cmp_dec a b) (List.map (fun (k, c) -> (dec_of_n k, dec_of_z c)) r) in
      "UIntPoly " ^ vars ^ " " ^ join "," (List.map (fun (k, c) -> k ^ ":" ^ c) ts)
  | "urat" ->
      let p = List.map (fun t -> let (k, c) = kc_of t in
                                 let (n, d) = q_of c in (n_of_dec k, qnorm n d)) (split_list ',' terms) in
      let r = diff_uratpoly (vars = wrt) p in
      let ts = List.sort (fun (a, _) (b, _) -> cmp_dec a b) (List.map (fun (k, c) -> (dec_of_n k, qstr c)) r) in
      "URatPoly " ^ vars ^ " " ^ join "," (List.map (fun (k, c) -> k ^ ":" ^ c) ts)
  | "mint" ->
      let names = split_list ',' vars in
      let p = List.map (fun t -> let (k, c) = kc_of t in
                                 (List.map n_of_dec (String.split_on_char '.' k), z_of_dec c)) (split_list ';' terms) in
      let idx = match index_of wrt names with Some i -> Some (nat_of_int i) | None -> None in
      let r = diff_mpoly idx p in
      let ts = List.sort compare (List.map (fun (v, c) -> String.concat "." (List.map dec_of_n v) ^ ":" ^ dec_of_z c) r) in
      "MIntPoly " ^ join "," (List.sort compare names) ^ " " ^ join ";" ts
  | _ -> "UNSUPPORTED poly kind"

let () =
  try
    while true do
      let line = input_line stdin in
      (try
        match String.split_on_char '\t' line with
        | "P" :: kind :: vars :: wrt :: terms :: _ -> print_endline (poly_line kind vars wrt terms)
        | dx :: de :: _ ->
            let x = expr_of_string (String.trim dx) in
            let e = expr_of_string (String.trim de) in
            let p = prog (diff_top false e x) in
            let pc = prog (diff_top true e x) in
            print_endline (p ^ "\tcache=" ^ (if p = pc then "same" else pc)
                           ^ "\toccurs=" ^ (if occurs x e then "1" else "0"))
        | _ -> print_endline "BADLINE"
      with
      | Unsupported m -> print_endline ("UNSUPPORTED " ^ m)
      | Failure m -> print_endline ("FAIL " ^ m)
      | Not_found -> print_endline "FAIL not_found")
    done
  with End_of_file -> ()
