(* C45 model main.  Reads the lines printed by harness/c45_driver.cpp and recomputes the results with the
   extracted model (coq/C45/MpfrRun.v).
     E <prec> <dump> \t <oracle entries>     -> V=<r>
     A <op> <opd> <opd>                      -> <result> \t R=<correctly rounded reference | ->
   <r> = <mant>:<exp> (odd mantissa, 0:0 for zero) | NAN | INF | -INF | EXN:<n> | NOMODEL.
   All numbers travel as digit lists through the extracted N_of_digits / Z_of_digits / digits_of_N. *)
open Semodel
open Expr_io

let show_mpv (v : mpv) : string =
  match v with
  | VNaN -> "NAN"
  | VInf neg -> if neg then "-INF" else "INF"
  | VFin (m, e) -> dec_of_z m ^ ":" ^ dec_of_z e

let parse_mpv (s : string) : mpv =
  if s = "NAN" then VNaN
  else if s = "INF" then VInf false
  else if s = "-INF" then VInf true
  else match String.split_on_char ':' s with
    | [m; e] -> VFin (z_of_dec m, z_of_dec e)
    | _ -> failwith ("mpv " ^ s)

let show_exn (c : n) : string =
  let k = small_of_n c in
  if k = 99 then "NOMODEL" else "EXN:" ^ string_of_int k
let show_res (show : 'a -> string) (r : 'a res) : string =
  match r with
  | Ok v -> show v
  | ErrOOB (_, _) -> "CRASH"
  | ErrFuel -> "FUEL"
  | ErrExn c -> show_exn c

let nonempty l = List.filter (fun s -> String.trim s <> "") l

(* kind,code,arg;arg=value *)
let parse_entry (s : string) =
  match String.split_on_char '=' s with
  | [k; v] ->
      (match String.split_on_char ',' k with
       | [kind; code; args] ->
           (((n_of_dec kind, n_of_dec code), List.map parse_mpv (nonempty (String.split_on_char ';' args))), parse_mpv v)
       | _ -> failwith "oracle key")
  | _ -> failwith "oracle entry"

let do_eval (rest : string) : string =
  let sp = String.index rest ' ' in
  let prec = pos_of_dec (String.sub rest 0 sp) in
  let body = String.sub rest (sp + 1) (String.length rest - sp - 1) in
  let dump, orc =
    match String.split_on_char '\t' body with
    | [d] -> d, []
    | d :: o :: _ -> d, List.map parse_entry (nonempty (String.split_on_char '|' o))
    | [] -> failwith "empty" in
  let e = expr_of_string dump in
  "V=" ^ show_res show_mpv (run_eval prec orc e)

let parse_opd (s : string) : opd =
  if s = "C" then DCplx
  else if s = "CD" then DCDbl
  else
    let body = String.sub s 2 (String.length s - 2) in
    match s.[0] with
    | 'I' -> DInt (z_of_dec body)
    | 'Q' -> (match String.split_on_char '/' body with
              | [a; b] -> DRat (z_of_dec a, pos_of_dec b)
              | _ -> failwith "rational")
    | 'D' -> DDbl (n_of_hex body)
    | 'M' -> (match String.split_on_char ':' body with
              | [p; m; e] -> DMpfr (pos_of_dec p, VFin (z_of_dec m, z_of_dec e))
              | _ -> failwith "mpfr")
    | _ -> failwith "operand"

let parse_op (s : string) : aop =
  match s with
  | "add" -> OAdd | "sub" -> OSub | "mul" -> OMul | "div" -> ODiv | "pow" -> OPow
  | _ -> failwith "op"

let do_arith (rest : string) : string =
  match nonempty (String.split_on_char ' ' rest) with
  | [op; a; b] ->
      let o = parse_op op and a = parse_opd a and b = parse_opd b in
      let r = match run_arith o a b with
        | AVal (p, v) -> "M:" ^ dec_of_n (Npos p) ^ ":" ^ show_mpv v
        | AExactZero -> "I:0"
        | AExn c -> show_exn c
        | ANoModel -> "NOMODEL" in
      let rf = match run_arith_ref o a b with
        | Some (p, v) -> "M:" ^ dec_of_n (Npos p) ^ ":" ^ show_mpv v
        | None -> "-" in
      r ^ "\tR=" ^ rf
  | _ -> "BADCASE"

let () =
  try
    while true do
      let line = input_line stdin in
      let out =
        try
          if String.length line >= 2 && String.sub line 0 2 = "E " then do_eval (String.sub line 2 (String.length line - 2))
          else if String.length line >= 2 && String.sub line 0 2 = "A " then do_arith (String.sub line 2 (String.length line - 2))
          else "BADCASE"
        with
        | Unsupported m -> "UNSUPPORTED:" ^ m
        | Failure m -> "FAIL:" ^ m
        | Not_found -> "FAIL:notfound" in
      print_string out; print_newline ()
    done
  with End_of_file -> ()
