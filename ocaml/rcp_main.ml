(* Reader/printer around the extracted C40/C41 models (coq/Rcp/Extract.v).

   P E<r0,r1,...> n<nslots> | step | step ...      handle program (C40)
     steps: mk i k.. | cp i j | mv i j | mc i j | rs i | dr i | ft i j | tp j | nop
            api i <root> <nodes>      root: oN (existing object) or nN (N-th new object)
                                      nodes: "." or node/node/..., node = "-" or ref,ref,...
            a + b                     two model steps observed as one
     output: E.. | L<live delta> S<slots> O<id:rc,..> X<id:rc,..> | ...      (as harness/rcp_driver.cpp)
   T <H> <c0> <helds csv> <progs csv of h/c/d strings, "-" empty> <order csv>    threads (C41)
     output: rc=.. freed=.. uaf=.. cache=0|H|other rets=<per thread count:allH> held=<csv> idle=0|1 *)
open Rcp_model

let rec nat_of_int (n : int) : nat = if n <= 0 then O else S (nat_of_int (n - 1))
let rec int_of_nat = function O -> 0 | S n -> 1 + int_of_nat n
let rec pos_of_int (n : int) : positive =
  if n = 1 then XH else if n land 1 = 0 then XO (pos_of_int (n lsr 1)) else XI (pos_of_int (n lsr 1))
let n_of_int (n : int) : n = if n = 0 then N0 else Npos (pos_of_int n)
let rec int_of_pos = function XH -> 1 | XO p -> 2 * int_of_pos p | XI p -> 2 * int_of_pos p + 1
let int_of_n = function N0 -> 0 | Npos p -> int_of_pos p

let split_on c s = List.filter (fun x -> x <> "") (String.split_on_char c s)
let words s = split_on ' ' (String.trim s)
let ints_csv s = if s = "" || s = "-" then [] else List.map int_of_string (String.split_on_char ',' s)

(* ------------------------------------------------------------------ C40 *)
let parse_ref (s : string) : oref =
  let k = int_of_string (String.sub s 1 (String.length s - 1)) in
  if s.[0] = 'n' then New (nat_of_int k) else Old (nat_of_int k)

let parse_nodes (s : string) : oref list list =
  if s = "." then []
  else List.map (fun nd -> if nd = "-" then [] else List.map parse_ref (String.split_on_char ',' nd))
      (String.split_on_char '/' s)

let parse_step (toks : string list) : op option =
  let n s = nat_of_int (int_of_string s) in
  match toks with
  | "mk" :: i :: ks -> Some (OMake (n i, List.map n ks))
  | ["cp"; i; j] -> Some (OCopy (n i, n j))
  | ["mv"; i; j] -> Some (OMove (n i, n j))
  | ["mc"; i; j] -> Some (OMoveCtor (n i, n j))
  | ["rs"; i] -> Some (OReset (n i))
  | ["dr"; i] -> Some (ODrop (n i))
  | ["ft"; i; j] -> Some (OFromThis (n i, n j))
  | ["tp"; j] -> Some (OTemp (n j))
  | ["api"; i; root; nodes] -> Some (OApi (n i, parse_nodes nodes, parse_ref root))
  | ["nop"] -> None
  | _ -> failwith ("bad step: " ^ String.concat " " toks)

let rec split_plus (toks : string list) : string list list =
  let rec go cur acc = function
    | [] -> List.rev (List.rev cur :: acc)
    | "+" :: r -> go [] (List.rev cur :: acc) r
    | t :: r -> go (t :: cur) acc r
  in go [] [] toks

let show_state (next : int) (exts : int array) (st : state) : string =
  let b = Buffer.create 64 in
  Buffer.add_string b (Printf.sprintf "L%d S" (int_of_nat (live_count st) - next));
  List.iteri (fun i o ->
      if i > 0 then Buffer.add_char b ',';
      match o with None -> Buffer.add_char b '-' | Some id -> Buffer.add_string b (string_of_int (int_of_nat id)))
    st.slots;
  Buffer.add_string b " O";
  let first = ref true in
  List.iteri (fun id c ->
      match c with
      | Live (rc, _, _) when id >= next ->
          if not !first then Buffer.add_char b ',';
          first := false;
          Buffer.add_string b (Printf.sprintf "%d:%d" id (int_of_nat rc))
      | _ -> ())
    st.heap;
  Buffer.add_string b " X";
  first := true;
  List.iteri (fun id c ->
      if id < next then
        let rc = match c with Live (rc, _, _) -> int_of_nat rc | Freed -> -1 in
        if rc <> exts.(id) then begin
          if not !first then Buffer.add_char b ',';
          first := false;
          Buffer.add_string b (Printf.sprintf "%d:%d" id rc)
        end)
    st.heap;
  Buffer.contents b

let run_program (line : string) : string =
  let parts = String.split_on_char '|' line in
  let head = words (List.hd parts) in
  let exts, ns =
    match head with
    | ["P"; e; n] ->
        (ints_csv (String.sub e 1 (String.length e - 1)), int_of_string (String.sub n 1 (String.length n - 1)))
    | _ -> failwith "bad header" in
  let next = List.length exts in
  let extarr = Array.of_list exts in
  let st = ref (init_state (List.map nat_of_int exts) (nat_of_int ns)) in
  let out = Buffer.create 256 in
  Buffer.add_string out ("E" ^ String.concat "," (List.map string_of_int exts));
  let stop = ref false in
  List.iter (fun part ->
      if not !stop then begin
        let subs = split_plus (words part) in
        let note = ref "" in
        List.iter (fun toks ->
            if not !stop && toks <> [] then
              match parse_step toks with
              | None -> ()
              | Some o ->
                  (match step !st o with
                   | ROk st' -> st := st'
                   | RBad c -> note := Printf.sprintf " SKIP%d" (int_of_nat c)
                   | RUaf id -> stop := true; note := Printf.sprintf "UAF:%d" (int_of_nat id)
                   | RFuel -> stop := true; note := "FUEL"))
          subs;
        if !stop then Buffer.add_string out ("|" ^ !note)
        else Buffer.add_string out ("|" ^ show_state next extarr !st ^ !note)
      end)
    (List.tl parts);
  Buffer.contents out

(* ------------------------------------------------------------------ C41 *)
let req_of_char = function
  | 'h' -> RHash | 'c' -> RCopy | 'd' -> RDrop
  | c -> failwith (Printf.sprintf "bad request %c" c)

let run_threads (line : string) : string =
  match words line with
  | ["T"; h; c0; helds; progs; order] ->
      let hN = n_of_int (int_of_string h) in
      let c0N = n_of_int (int_of_string c0) in
      let helds = List.map nat_of_int (ints_csv helds) in
      let progs =
        List.map (fun p -> if p = "-" then [] else List.init (String.length p) (fun i -> req_of_char p.[i]))
          (String.split_on_char ',' progs) in
      let order = List.map nat_of_int (ints_csv order) in
      let s0 = tinit c0N helds in
      let sched = plan thread_safe hN s0 progs order in
      let s = trun thread_safe hN s0 sched in
      let cache_s = if s.cache = N0 then "0" else if s.cache = hN then "H" else "other" in
      let rets =
        String.concat ","
          (List.map (fun t ->
               Printf.sprintf "%d:%d" (List.length t.rets) (if List.for_all (fun r -> r = hN) t.rets then 1 else 0))
              s.threads) in
      let held = String.concat "," (List.map (fun t -> string_of_int (int_of_nat t.held)) s.threads) in
      Printf.sprintf "rc=%d freed=%d uaf=%d cache=%s rets=%s held=%s idle=%d steps=%d"
        (int_of_nat s.rc) (int_of_nat s.freed) (if s.uaf then 1 else 0) cache_s rets held
        (if all_idle s then 1 else 0) (List.length sched)
  | _ -> failwith "bad thread line"

let () =
  try
    while true do
      let line = input_line stdin in
      let r =
        try
          if String.length line > 0 && line.[0] = 'P' then run_program line
          else if String.length line > 0 && line.[0] = 'T' then run_threads line
          else "BADLINE"
        with Failure m -> "MODELERROR " ^ m | Not_found -> "MODELERROR notfound" | Invalid_argument m -> "MODELERROR " ^ m
      in
      print_endline r
    done
  with End_of_file -> ()
