(* Reader/printer around the extracted C23 model (coq/C23/GFModel.v).
   input : one operation per line,  <op> <p> <args...>   (same lines as harness/c23_driver.cpp)
   output: one canonical result line per input line *)
open Gf_model

(* ---------- integers: decimal strings <-> the extracted binary Z ---------- *)
let rec pos_of_int (n : int) : positive =
  if n = 1 then XH else if n land 1 = 0 then XO (pos_of_int (n lsr 1)) else XI (pos_of_int (n lsr 1))
let z_of_int (n : int) : z = if n = 0 then Z0 else if n > 0 then Zpos (pos_of_int n) else Zneg (pos_of_int (- n))
let rec nat_of_int (n : int) : nat = if n <= 0 then O else S (nat_of_int (n - 1))
let rec int_of_nat = function O -> 0 | S n -> 1 + int_of_nat n
let n_of_int (n : int) : n = if n = 0 then N0 else Npos (pos_of_int n)

let rec pos_bits = function XH -> 1 | XO p -> 1 + pos_bits p | XI p -> 1 + pos_bits p
let rec int_of_pos = function XH -> 1 | XO p -> 2 * int_of_pos p | XI p -> 2 * int_of_pos p + 1

let z_ten9 = z_of_int 1000000000

let z_of_string (s : string) : z =
  let neg = String.length s > 0 && s.[0] = '-' in
  let digits = if neg then String.sub s 1 (String.length s - 1) else s in
  let v =
    if String.length digits <= 17 then z_of_int (int_of_string digits)
    else begin
      (* chunks of 9 digits *)
      let acc = ref Z0 in
      let len = String.length digits in
      let first = len mod 9 in
      let pos = ref 0 in
      if first > 0 then begin acc := z_of_int (int_of_string (String.sub digits 0 first)); pos := first end;
      while !pos < len do
        acc := Z.add (Z.mul !acc z_ten9) (z_of_int (int_of_string (String.sub digits !pos 9)));
        pos := !pos + 9
      done;
      !acc
    end in
  if neg then Z.opp v else v

let rec string_of_pos_z (v : z) : string =      (* v > 0 *)
  match v with
  | Zpos p when pos_bits p <= 60 -> string_of_int (int_of_pos p)
  | _ ->
      let (q, r) = Z.div_eucl v z_ten9 in
      let rs = (match r with Z0 -> 0 | Zpos p -> int_of_pos p | Zneg _ -> 0) in
      string_of_pos_z q ^ Printf.sprintf "%09d" rs

let string_of_z (v : z) : string =
  match v with
  | Z0 -> "0"
  | Zpos _ -> string_of_pos_z v
  | Zneg p -> "-" ^ string_of_pos_z (Zpos p)

let n_of_string (s : string) : n =
  match z_of_string s with Z0 -> N0 | Zpos p -> Npos p | Zneg _ -> N0
let string_of_n = function N0 -> "0" | Npos p -> string_of_z (Zpos p)

(* ---------- polynomials ---------- *)
let parse_vec (s : string) : z list =
  if s = "-" then [] else List.map z_of_string (String.split_on_char ',' s)
let show_vec (l : z list) : string = "[" ^ String.concat "," (List.map string_of_z l) ^ "]"

let show_res (f : 'a -> string) (r : 'a res) : string =
  match r with
  | Ok a -> f a
  | ErrOOB (i, l) -> Printf.sprintf "OOB:%s:%s" (string_of_n i) (string_of_n l)
  | ErrFuel -> "FUEL"
  | ErrExn c -> Printf.sprintf "EXN:%s" (string_of_n c)

let show_pair (q, r) = show_vec q ^ "|" ^ show_vec r
let show_list (l : z list list) = String.concat ";" (List.map show_vec l)
let show_factors_n (l : (z list * n) list) =
  String.concat ";" (List.map (fun (f, e) -> show_vec f ^ "^" ^ string_of_n e) l)
let show_factors_nat (l : (z list * nat) list) =
  String.concat ";" (List.map (fun (f, e) -> show_vec f ^ "^" ^ string_of_int (int_of_nat e)) l)

let parse_streams (s : string) : z list list =
  if s = "x" || s = "-" then [] else
  List.map (fun t -> if t = "" then [] else List.map z_of_string (String.split_on_char ',' t))
    (String.split_on_char ';' s)

let parse_map (s : string) : (nat * z) list =
  if s = "-" then [] else
  let l = List.map (fun kv ->
      match String.split_on_char ':' kv with
      | [k; v] -> (int_of_string k, z_of_string v)
      | _ -> failwith "bad map") (String.split_on_char ',' s) in
  (* std::map: sorted by key, a later duplicate key overwrites *)
  let tbl = Hashtbl.create 7 in
  List.iter (fun (k, v) -> Hashtbl.replace tbl k v) l;
  let keys = List.sort_uniq compare (List.map fst l) in
  List.map (fun k -> (nat_of_int k, Hashtbl.find tbl k)) keys

let run_case (line : string) : string =
  let t = Array.of_list (List.filter (fun s -> s <> "") (String.split_on_char ' ' line)) in
  if Array.length t < 2 then "BADLINE" else
  let op = t.(0) in
  let p = z_of_string t.(1) in
  let poly i = from_vec (parse_vec t.(i)) p in
  let zarg i = z_of_string t.(i) in
  let natarg i = nat_of_int (int_of_string t.(i)) in
  match op with
  | "fromvec" -> show_vec (poly 2)
  | "fromint" -> show_vec (gf_of_int (zarg 2) p)
  | "frommap" -> show_res show_vec (gf_of_map (parse_map t.(2)) p)
  | "neg" -> show_vec (gf_neg p (poly 2))
  | "add" -> show_vec (gf_add p (poly 2) (poly 3))
  | "sub" -> show_vec (gf_sub p (poly 2) (poly 3))
  | "addi" -> show_vec (gf_add_int p (poly 2) (zarg 3))
  | "subi" -> show_vec (gf_sub_int p (poly 2) (zarg 3))
  | "muli" -> show_vec (gf_mul_int p (poly 2) (zarg 3))
  | "mul" -> show_res show_vec (gf_mul p (poly 2) (poly 3))
  | "mula" -> show_res show_vec (gf_mul_assign p (poly 2) (poly 3))
  | "sqr" -> show_res show_vec (gf_sqr p (poly 2))
  | "div" -> show_res show_pair (gf_div p (poly 2) (poly 3))
  | "quo" -> show_res show_vec (gf_quo p (poly 2) (poly 3))
  | "rem" -> show_res show_vec (gf_rem p (poly 2) (poly 3))
  | "quoi" -> show_res show_vec (gf_quo_int p (poly 2) (zarg 3))
  | "remi" -> show_res show_vec (gf_rem_int p (poly 2) (zarg 3))
  | "lsh" -> show_vec (gf_lshift p (poly 2) (natarg 3))
  | "rsh" -> show_pair (gf_rshift p (poly 2) (natarg 3))
  | "pow" -> show_res show_vec (gf_pow p (poly 2) (n_of_string t.(3)))
  | "powmod" -> show_res show_vec (gf_pow_mod p (poly 2) (poly 3) (n_of_string t.(4)))
  | "monic" -> let (lc, m) = gf_monic p (poly 2) in string_of_z lc ^ "|" ^ show_vec m
  | "gcd" -> show_res show_vec (gf_gcd p (poly 2) (poly 3))
  | "lcm" -> show_res show_vec (gf_lcm p (poly 2) (poly 3))
  | "diff" -> show_vec (gf_diff p (poly 2))
  | "eval" -> string_of_z (gf_eval p (poly 2) (zarg 3))
  | "meval" -> show_vec (gf_multi_eval p (poly 2) (parse_vec t.(3)))
  | "compose" -> show_res show_vec (gf_compose_mod p (poly 2) (poly 3) (poly 4))
  | "issqf" -> show_res (fun b -> if b then "true" else "false") (gf_is_sqf p (poly 2))
  | "sqflist" -> show_res show_factors_n (gf_sqf_list p (poly 2))
  | "sqfpart" -> show_res show_vec (gf_sqf_part p (poly 2))
  | "frobbase" -> show_res show_list (gf_frobenius_monomial_base p (poly 2))
  | "frobmap" ->
      let g = poly 3 in
      show_res show_vec (bind (gf_frobenius_monomial_base p g) (fun b -> gf_frobenius_map p (poly 2) g b))
  | "ddfz" -> show_res show_factors_nat (gf_ddf_zassenhaus p (poly 2))
  | "edfz" -> show_res (fun (l, _) -> show_list l) (gf_edf_zassenhaus p (poly 4) (natarg 5) (parse_streams t.(3)))
  | "ddfs" -> show_res show_factors_nat (gf_ddf_shoup p (poly 2))
  | "edfs" -> show_res (fun (l, _) -> show_list l) (gf_edf_shoup p (poly 4) (natarg 5) (parse_streams t.(3)))
  | "shoup" -> show_res (fun (l, _) -> show_list l) (gf_shoup p (poly 4) (parse_streams t.(3)))
  | "tracemap" ->
      show_res (fun (a, b) -> show_vec a ^ "|" ^ show_vec b)
        (gf_trace_map p (poly 2) (poly 3) (poly 4) (poly 5) (n_of_string t.(6)))
  | "zass" -> show_res (fun (l, _) -> show_list l) (gf_zassenhaus p (poly 4) (parse_streams t.(3)))
  | "factor" ->
      show_res (fun (lc, l) -> string_of_z lc ^ "|" ^ show_factors_n l) (gf_factor p (poly 4) (parse_streams t.(3)))
  | _ -> "BADOP"

let () =
  try
    while true do
      let line = input_line stdin in
      print_endline (try run_case line with e -> "MODELEXN:" ^ Printexc.to_string e)
    done
  with End_of_file -> ()
