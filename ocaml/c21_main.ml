(* Reader/printer around the extracted C21 model (coq/C21/PolyModel.v).
   input : one case per line:   <fam> <op> <args>
           fam  I (UIntPoly) | Q (URatPoly)
           poly `-` (no entries) or k:v,k:v,...  keys decimal, increasing; v hex, optional sign,
                rationals n/d (both hex); entries with value 0 are allowed (the map constructor
                drops them)
           ops  add P P | sub P P | neg P | mul P P | kmul P P (I) | gmul P P | pow P n
                | div P P | eval P x | diff P | coeff P k | deg P | lc P | vec c,c,..
                | fits P P (I) | powfits P n | divfits P P   (hypotheses of the theorems; model only)
   output: one canonical line per case *)
open Poly_model

(* ---- numbers ---- *)
let hexval c =
  match c with
  | '0' .. '9' -> Char.code c - 48
  | 'a' .. 'f' -> Char.code c - 87
  | 'A' .. 'F' -> Char.code c - 55
  | _ -> failwith "bad hex digit"

(* bits, least significant first, of a hex string *)
let bits_of_hex (s : string) : bool list =
  let acc = ref [] in
  (* walk from the most significant digit so that the list ends up LSB first *)
  String.iter (fun c ->
      let v = hexval c in
      acc := ((v land 1) <> 0) :: ((v land 2) <> 0) :: ((v land 4) <> 0) :: ((v land 8) <> 0) :: !acc)
    s;
  !acc

(* drop leading (most significant) zeros: the list is LSB first, so reverse, strip, build *)
let pos_of_bits_msb_first (l : bool list) : positive option =
  let rec strip = function false :: r -> strip r | l -> l in
  match strip l with
  | [] -> None
  | _ :: r -> Some (List.fold_left (fun p b -> if b then XI p else XO p) XH r)

let n_of_hex (s : string) : n =
  match pos_of_bits_msb_first (List.rev (bits_of_hex s)) with None -> N0 | Some p -> Npos p

let z_of_hex (s : string) : z =
  let neg = String.length s > 0 && s.[0] = '-' in
  let body = if neg then String.sub s 1 (String.length s - 1) else s in
  match n_of_hex body with
  | N0 -> Z0
  | Npos p -> if neg then Zneg p else Zpos p

let rec pos_of_int (n : int) : positive =
  if n = 1 then XH else if n land 1 = 0 then XO (pos_of_int (n lsr 1)) else XI (pos_of_int (n lsr 1))
let n_of_int (n : int) : n = if n = 0 then N0 else Npos (pos_of_int n)

let hex_of_pos (p : positive) : string =
  (* collect bits LSB first *)
  let rec bits p acc = match p with XH -> true :: acc | XO q -> bits q (false :: acc) | XI q -> bits q (true :: acc) in
  let msb_first = bits p [] in
  (* msb_first is MSB first; pad to a multiple of 4 *)
  let len = List.length msb_first in
  let pad = (4 - len mod 4) mod 4 in
  let l = ref msb_first in
  for _ = 1 to pad do l := false :: !l done;
  let b = Buffer.create (len / 4 + 2) in
  let rec go = function
    | b3 :: b2 :: b1 :: b0 :: r ->
        let v = (if b3 then 8 else 0) + (if b2 then 4 else 0) + (if b1 then 2 else 0) + (if b0 then 1 else 0) in
        Buffer.add_char b "0123456789abcdef".[v];
        go r
    | [] -> ()
    | _ -> failwith "hex_of_pos"
  in
  go !l;
  Buffer.contents b

let hex_of_z = function Z0 -> "0" | Zpos p -> hex_of_pos p | Zneg p -> "-" ^ hex_of_pos p
let rec int_of_pos = function XH -> 1 | XO p -> 2 * int_of_pos p | XI p -> 2 * int_of_pos p + 1
let dec_of_n = function N0 -> "0" | Npos p -> string_of_int (int_of_pos p)

let q_of_string (s : string) : qc =
  match String.index_opt s '/' with
  | None -> q2Qc { qnum = z_of_hex s; qden = XH }
  | Some i ->
      let nu = z_of_hex (String.sub s 0 i) in
      (match n_of_hex (String.sub s (i + 1) (String.length s - i - 1)) with
       | N0 -> failwith "zero denominator"
       | Npos d -> q2Qc { qnum = nu; qden = d })

let string_of_q (x : qc) : string =
  let x = this x in
  match x.qden with XH -> hex_of_z x.qnum | d -> hex_of_z x.qnum ^ "/" ^ hex_of_pos d

(* ---- polynomials ---- *)
let parse_poly (cv : string -> 'a) (s : string) : (n * 'a) list =
  if s = "-" then []
  else
    let l = List.map (fun t ->
        match String.index_opt t ':' with
        | None -> failwith "bad term"
        | Some i -> (int_of_string (String.sub t 0 i), cv (String.sub t (i + 1) (String.length t - i - 1))))
        (String.split_on_char ',' s) in
    let rec chk = function (a, _) :: ((b, _) :: _ as r) -> if a >= b then failwith "keys not increasing" else chk r | _ -> () in
    chk l;
    List.map (fun (k, v) -> (n_of_int k, v)) l

let show_poly (sv : 'a -> string) (d : (n * 'a) list) : string =
  if d = [] then "-" else String.concat "," (List.map (fun (k, v) -> dec_of_n k ^ ":" ^ sv v) d)

let show_res (f : 'a -> string) (r : 'a res) : string =
  match r with
  | Ok a -> f a
  | ErrOOB _ -> "OOB"
  | ErrFuel -> "FUEL"
  | ErrExn c -> "EXN:" ^ dec_of_n c

let show_div sv = function None -> "F" | Some d -> "T " ^ show_poly sv d

let run_int (op : string) (args : string list) : string =
  let p s = zclean (parse_poly z_of_hex s) in
  let sp = show_poly hex_of_z in
  match op, args with
  | "add", [a; b] -> sp (zadd (p a) (p b))
  | "sub", [a; b] -> sp (zsub (p a) (p b))
  | "neg", [a] -> sp (zneg (p a))
  | "mul", [a; b] -> show_res sp (zimul (p a) (p b))
  | "kmul", [a; b] -> show_res sp (kmul (p a) (p b))
  | "gmul", [a; b] -> sp (zgmul (p a) (p b))
  | "pow", [a; n] -> show_res sp (zpow (p a) (n_of_int (int_of_string n)))
  | "div", [a; b] -> show_res (show_div hex_of_z) (zdivides (p a) (p b))
  | "eval", [a; x] -> hex_of_z (zeval (p a) (z_of_hex x))
  | "diff", [a] -> sp (zdiff (p a))
  | "coeff", [a; k] -> hex_of_z (zcoeff (p a) (n_of_int (int_of_string k)))
  | "deg", [a] -> dec_of_n (degree (p a))
  | "lc", [a] -> hex_of_z (zlc (p a))
  | "vec", [v] -> sp (zfrom_vec (if v = "-" then [] else List.map z_of_hex (String.split_on_char ',' v)))
  | "fits", [a; b] -> if fits_u32 (p a) (p b) then "1" else "0"
  | "powfits", [a; n] -> if zpow_fits (p a) (n_of_int (int_of_string n)) then "1" else "0"
  | "divfits", [a; b] -> if zdivides_fits (p a) (p b) then "1" else "0"
  | _ -> "BADOP"

let run_rat (op : string) (args : string list) : string =
  let p s = qclean (parse_poly q_of_string s) in
  let sp = show_poly string_of_q in
  match op, args with
  | "add", [a; b] -> sp (qadd (p a) (p b))
  | "sub", [a; b] -> sp (qsub (p a) (p b))
  | "neg", [a] -> sp (qneg (p a))
  | "mul", [a; b] -> show_res sp (qimul (p a) (p b))
  | "gmul", [a; b] -> sp (qgmul (p a) (p b))
  | "pow", [a; n] -> show_res sp (qpow (p a) (n_of_int (int_of_string n)))
  | "div", [a; b] -> show_res (show_div string_of_q) (qdivides (p a) (p b))
  | "eval", [a; x] -> string_of_q (qeval (p a) (q_of_string x))
  | "diff", [a] -> sp (qdiff (p a))
  | "coeff", [a; k] -> string_of_q (qcoeff (p a) (n_of_int (int_of_string k)))
  | "deg", [a] -> dec_of_n (degree (p a))
  | "lc", [a] -> string_of_q (qlc (p a))
  | "vec", [v] -> sp (qfrom_vec (if v = "-" then [] else List.map q_of_string (String.split_on_char ',' v)))
  | "powfits", [a; n] -> if qpow_fits (p a) (n_of_int (int_of_string n)) then "1" else "0"
  | "divfits", [a; b] -> if qdivides_fits (p a) (p b) then "1" else "0"
  | _ -> "BADOP"

let () =
  try
    while true do
      let line = input_line stdin in
      let toks = List.filter (fun s -> s <> "") (String.split_on_char ' ' line) in
      let out =
        try
          match toks with
          | "I" :: op :: args -> run_int op args
          | "Q" :: op :: args -> run_rat op args
          | _ -> "BADLINE"
        with Failure m -> "BADINPUT:" ^ m | Stack_overflow -> "STACK"
      in
      print_endline out
    done
  with End_of_file -> ()
