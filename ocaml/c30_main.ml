(* Reader/printer around the extracted C30 model (coq/C30/SolveModel.v).
   input, one case per line (rationals  p  or  p/q, coefficient lists low degree first):
     P <dom> c0 .. cn      solve_poly            (dom must be U, else NOMODEL)
     S <dom> c0 .. cn      solve on a polynomial expression (numbers first, then solve_poly)
     H c0 .. cn            solve_poly_heuristics
     Q n0 .. ;; d0 ..      solve_rational on numerator / denominator coefficient lists
     L n a11 .. a1n b1 ... linsolve_dense on the augmented n x (n+1) matrix;  M, N: linsolve_helper on (A, b)
   output:
     ALTS k ;<t> <t> ...;<t> ...   a FiniteSet: k alternatives, each a list of templates
                                    (q n d) I (neg a) (add a b) (sub a b) (mul a b) (div a b)
                                    (sqrt a) (cbrt a) (add4 a b c d) (mul3 a b c)
     EMPTY | DOMAIN | COND | EXN:<k> | OOB:<i>:<len> | FUEL | X:<v0>,<v1>,... | NOMODEL *)
open Solve_model

let rec pos_of_int (n : int) : positive =
  if n = 1 then XH else if n land 1 = 0 then XO (pos_of_int (n lsr 1)) else XI (pos_of_int (n lsr 1))
let z_of_int (n : int) : z = if n = 0 then Z0 else if n > 0 then Zpos (pos_of_int n) else Zneg (pos_of_int (-n))
let rec int_of_pos = function XH -> 1 | XO p -> 2 * int_of_pos p | XI p -> 2 * int_of_pos p + 1
let int_of_z = function Z0 -> 0 | Zpos p -> int_of_pos p | Zneg p -> - (int_of_pos p)
let rec nat_of_int (n : int) : nat = if n <= 0 then O else S (nat_of_int (n - 1))
let int_of_n = function N0 -> 0 | Npos p -> int_of_pos p
let n_of_int (n : int) : n = if n = 0 then N0 else Npos (pos_of_int n)

let z10 = z_of_int 10

let z_of_string (s : string) : z =
  let neg = String.length s > 0 && s.[0] = '-' in
  let acc = ref Z0 in
  String.iteri (fun i c ->
      if i = 0 && (c = '-' || c = '+') then ()
      else if c >= '0' && c <= '9' then
        acc := Z.add (Z.mul !acc z10) (z_of_int (Char.code c - 48))
      else failwith ("bad number " ^ s)) s;
  if neg then Z.opp !acc else !acc

let string_of_z (x : z) : string =
  let neg, a = (match x with Zneg p -> true, Zpos p | _ -> false, x) in
  let rec go a acc =
    match a with
    | Z0 -> acc
    | _ -> let (q, r) = Z.div_eucl a z10 in go q (string_of_int (int_of_z r) ^ acc)
  in
  let s = (match a with Z0 -> "0" | _ -> go a "") in
  if neg then "-" ^ s else s

let q_of_string (s : string) : q =
  match String.index_opt s '/' with
  | None -> { qnum = z_of_string s; qden = XH }
  | Some i ->
      let a = z_of_string (String.sub s 0 i) in
      let b = z_of_string (String.sub s (i + 1) (String.length s - i - 1)) in
      (match b with
       | Zpos p -> { qnum = a; qden = p }
       | Zneg p -> { qnum = Z.opp a; qden = p }
       | Z0 -> failwith "zero denominator")

let string_of_q (x : q) : string =
  let x = qred x in
  match x.qden with
  | XH -> string_of_z x.qnum
  | d -> string_of_z x.qnum ^ "/" ^ string_of_z (Zpos d)

let show_qx (x : qx) : string =
  match x with Fin q -> string_of_q (this q) | Zoo -> "zoo" | NaNv -> "nan"

let rec show_rx (e : rx) : string =
  match e with
  | RQ x -> let x = qred x in "(q " ^ string_of_z x.qnum ^ " " ^ string_of_z (Zpos x.qden) ^ ")"
  | RI -> "I"
  | RNeg a -> "(neg " ^ show_rx a ^ ")"
  | RAdd (a, b) -> "(add " ^ show_rx a ^ " " ^ show_rx b ^ ")"
  | RSub (a, b) -> "(sub " ^ show_rx a ^ " " ^ show_rx b ^ ")"
  | RMul (a, b) -> "(mul " ^ show_rx a ^ " " ^ show_rx b ^ ")"
  | RDiv (a, b) -> "(div " ^ show_rx a ^ " " ^ show_rx b ^ ")"
  | RSqrt a -> "(sqrt " ^ show_rx a ^ ")"
  | RCbrt a -> "(cbrt " ^ show_rx a ^ ")"
  | RAdd4 (a, b, c, d) -> "(add4 " ^ show_rx a ^ " " ^ show_rx b ^ " " ^ show_rx c ^ " " ^ show_rx d ^ ")"
  | RMul3 (a, b, c) -> "(mul3 " ^ show_rx a ^ " " ^ show_rx b ^ " " ^ show_rx c ^ ")"

let show_sres (s : sres) : string =
  match s with
  | SDomain -> "DOMAIN"
  | SEmpty -> "EMPTY"
  | SCondition -> "COND"
  | SFinite alts ->
      "ALTS " ^ string_of_int (List.length alts) ^ " "
      ^ String.concat "" (List.map (fun l -> ";" ^ String.concat " " (List.map show_rx l)) alts)

let show_res (f : 'a -> string) (r : 'a res) : string =
  match r with
  | Ok a -> f a
  | ErrOOB (i, l) -> "OOB:" ^ string_of_int (int_of_n i) ^ ":" ^ string_of_int (int_of_n l)
  | ErrFuel -> "FUEL"
  | ErrExn c -> "EXN:" ^ string_of_int (int_of_n c)

let rec split_at_sep (toks : string list) : string list * string list =
  match toks with
  | [] -> ([], [])
  | ";;" :: rest -> ([], rest)
  | t :: rest -> let (a, b) = split_at_sep rest in (t :: a, b)

let run_line (line : string) : string =
  let toks = List.filter (fun s -> s <> "") (String.split_on_char ' ' line) in
  match toks with
  | "P" :: dom :: cs -> if dom <> "U" then "NOMODEL" else show_res show_sres (solve_poly (List.map q_of_string cs))
  | "S" :: dom :: cs -> if dom <> "U" then "NOMODEL" else show_res show_sres (solve_polyexpr (List.map q_of_string cs))
  | "H" :: cs -> show_res show_sres (solve_poly_heuristics (List.map q_of_string cs))
  | "Q" :: rest ->
      let (n, d) = split_at_sep rest in
      show_res show_sres (solve_rational (List.map q_of_string n) (List.map q_of_string d))
  | (("L" | "M" | "N") as k) :: n :: ents ->
      let n = int_of_string n in
      let ents = Array.of_list (List.map q_of_string ents) in
      if Array.length ents <> n * (n + 1) then "BADCASE" else begin
        let fin x = Fin (q2Qc x) in
        let nn = n_of_int n in
        let show xs = "X:" ^ String.concat "," (List.map show_qx xs) in
        if k = "L" then
          (* linsolve(DenseMatrix): the augmented n x (n+1) matrix *)
          show_res show (linsolve_dense { drow = nn; dcol = n_of_int (n + 1); dm = Array.to_list (Array.map fin ents) })
        else begin
          (* linsolve(equations): linear_eqns_to_matrix yields A (n x n) and b (n x 1) *)
          let a = ref [] and b = ref [] in
          for i = n - 1 downto 0 do
            b := fin ents.(i * (n + 1) + n) :: !b;
            for j = n - 1 downto 0 do a := fin ents.(i * (n + 1) + j) :: !a done
          done;
          show_res show (linsolve_helper { drow = nn; dcol = nn; dm = !a } { drow = nn; dcol = n_of_int 1; dm = !b })
        end
      end
  | _ -> "BADCASE"

let () =
  try
    while true do
      let line = input_line stdin in
      print_endline (try run_line line with Failure m -> "BADCASE:" ^ m | Invalid_argument m -> "BADCASE:" ^ m)
    done
  with End_of_file -> ()
