(* C14 model main.  Reads the histories printed by harness/c14_driver.cpp and recomputes every result with the
   extracted model (coq/C14/LlvmRun.v): the SSA program compiled by the model of LLVMVisitor::init, run by the SSA
   interpreter (R=), and the values of the operation trees themselves (S=, equal by the theorem compile_sound).
     <op> || <op> ...   op = I <opt> <cse> :: <input dumps ;;> :: <output dumps ;;> :: <cse part> :: <rewritten ;;> [=> ...]
                           | C <hex> ... [=> ...]
     -> R=<r> || <r> ... \t S=<r> || ...      <r> = OK | EXN:<n> | NOMODEL | <hex|NAN|NOMODEL> ...
   +, *, /, comparisons, fabs, floor/ceil/trunc, fmax/fmin and the powi multiplication chain are computed by the extracted
   Flocq functions; the libm symbols are interpreted by the C library through OCaml's Stdlib (the same glibc the JIT-compiled
   code calls). *)
open Semodel
open Expr_io

let rec int64_of_pos = function
  | XH -> 1L
  | XO p -> Int64.shift_left (int64_of_pos p) 1
  | XI p -> Int64.logor (Int64.shift_left (int64_of_pos p) 1) 1L
let int64_of_n = function N0 -> 0L | Npos p -> int64_of_pos p
let rec pos_of_int64 (x : int64) : positive =
  if x = 1L then XH
  else
    let r = pos_of_int64 (Int64.shift_right_logical x 1) in
    if Int64.logand x 1L = 0L then XO r else XI r
let n_of_int64 (x : int64) : n = if x = 0L then N0 else Npos (pos_of_int64 x)
let float_of_n b = Int64.float_of_bits (int64_of_n b)
let n_of_float f = n_of_int64 (Int64.bits_of_float f)

let hex_of_n (b : n) : string =
  let x = int64_of_n b in
  let e = Int64.to_int (Int64.logand (Int64.shift_right_logical x 52) 0x7ffL) in
  let m = Int64.logand x 0xfffffffffffffL in
  if e = 0x7ff && m <> 0L then "NAN" else Printf.sprintf "%016Lx" x

let libm_un (f : ufun) (b : n) : n option =
  let x = float_of_n b in
  let r = match f with
    | UExp -> Some (exp x) | ULog -> Some (log x) | USin -> Some (sin x) | UCos -> Some (cos x)
    | UTan -> Some (tan x) | UAsin -> Some (asin x) | UAcos -> Some (acos x) | UAtan -> Some (atan x)
    | USinh -> Some (sinh x) | UCosh -> Some (cosh x) | UTanh -> Some (tanh x)
    | UAsinh -> Some (Float.asinh x) | UAcosh -> Some (Float.acosh x) | UAtanh -> Some (Float.atanh x)
    | UErf -> Some (Float.erf x) | UErfc -> Some (Float.erfc x)
    | _ -> None in
  match r with Some v -> Some (n_of_float v) | None -> None
let libm_bin (f : bfun) (a : n) (b : n) : n option =
  let x = float_of_n a and y = float_of_n b in
  match f with
  | BPow -> Some (n_of_float (Float.pow x y))
  | BAtan2 -> Some (n_of_float (Float.atan2 x y))
  | _ -> None
let libm_exp2 (b : n) : n option = Some (n_of_float (Float.exp2 (float_of_n b)))

let show_exn (c : n) : string =
  let k = small_of_n c in
  if k = 99 then "NOMODEL" else "EXN:" ^ string_of_int k

let trim = String.trim
let nonempty l = List.filter (fun s -> trim s <> "" && trim s <> "-") l

let parse_cse (s : string) : cse_outcome =
  let s = trim s in
  if s = "N" then NoCse
  else if String.length s > 0 && s.[0] = 'T' then
    CseThrows (n_of_small (int_of_string (String.sub s 1 (String.length s - 1))))
  else if String.length s > 0 && s.[0] = 'R' then begin
    match split_on "@@" (String.sub s 1 (String.length s - 1)) with
    | [reps; red] ->
        let items = List.map expr_of_string (nonempty (split_on " ;; " reps)) in
        let rec pairs = function
          | a :: b :: r -> (a, b) :: pairs r
          | [] -> []
          | _ -> failwith "odd replacement list" in
        CseOk (pairs items, List.map expr_of_string (nonempty (split_on " ;; " red)))
    | _ -> failwith "cse part"
  end else failwith "cse part"

type init = { rw : (expr * expr) list; ins : expr list; outs : expr list; cse : cse_outcome }

let strip_result (s : string) : string =
  match split_on " => " s with a :: _ -> a | [] -> s

let parse_init (s : string) : init =
  (* I <opt> <cse> :: ins :: outs :: cse :: rw *)
  match split_on " :: " (" " ^ s ^ " ") with
  | [_hd; ins; outs; cse; rw] ->
      let items = List.map expr_of_string (nonempty (split_on " ;; " rw)) in
      let rec pairs = function
        | a :: b :: r -> (a, b) :: pairs r
        | [] -> []
        | _ -> failwith "odd rewrite list" in
      { rw = pairs items; ins = List.map expr_of_string (nonempty (split_on " ;; " ins));
        outs = List.map expr_of_string (nonempty (split_on " ;; " outs)); cse = parse_cse cse }
  | l -> failwith ("init op: " ^ string_of_int (List.length l) ^ " parts")

let show_outs (l : n option list) : string =
  if l = [] then "-" else String.concat " " (List.map (function Some b -> hex_of_n b | None -> "NOMODEL") l)

let run_with (f : (expr * expr) list -> expr list -> expr list -> cse_outcome -> n list list -> n option list list res)
    (ops : string list) : string =
  let cur = ref None in
  let res = List.map (fun op ->
    let op = trim (strip_result op) in
    if String.length op >= 2 && String.sub op 0 2 = "I " then begin
      let i = parse_init op in
      match f i.rw i.ins i.outs i.cse [] with
      | Ok _ -> cur := Some i; "OK"
      | ErrExn c -> cur := None; show_exn c
      | ErrOOB (_, _) -> cur := None; "CRASH"
      | ErrFuel -> cur := None; "FUEL"
    end else if String.length op >= 1 && op.[0] = 'C' then begin
      let inp = List.map n_of_hex (nonempty (String.split_on_char ' ' (String.sub op 1 (String.length op - 1)))) in
      match !cur with
      | None -> "SKIP"
      | Some i ->
          if List.length inp <> List.length i.ins then "SKIP" else
          (match f i.rw i.ins i.outs i.cse [inp] with
           | Ok [o] -> show_outs o
           | Ok _ -> "FAIL"
           | ErrExn c -> show_exn c
           | ErrOOB (_, _) -> "CRASH"
           | ErrFuel -> "FUEL")
    end else "BADOP") ops in
  String.concat " || " res

let do_history (line : string) : string =
  let body = match String.index_opt line '\t' with Some i -> String.sub line 0 i | None -> line in
  let ops = split_on " || " body in
  "R=" ^ run_with (llvm_run libm_un libm_bin libm_exp2) ops ^ "\tS=" ^ run_with (llvm_spec libm_un libm_bin libm_exp2) ops

let () =
  try
    while true do
      let line = input_line stdin in
      let out =
        try do_history line
        with
        | Unsupported m -> "UNSUPPORTED:" ^ m
        | Failure m -> "FAIL:" ^ m
        | Not_found -> "FAIL:notfound" in
      print_string out; print_newline ()
    done
  with End_of_file -> ()
