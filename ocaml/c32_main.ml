(* Reader/printer around the extracted C32 model (coq/C32/NtModel.v).
   One case per input line `[@gmp|@boost] <cmd> <integers>`; prints the canonical line that
   harness/c32_driver.cpp prints for the same case (without its oracle suffix). *)
open Nt_model

(* ---------- decimal <-> Z (binary inductive integers) ---------- *)
let rec pos_of_int (n : int) : positive =
  if n = 1 then XH else if n land 1 = 0 then XO (pos_of_int (n lsr 1)) else XI (pos_of_int (n lsr 1))
let z_of_int (n : int) : z = if n = 0 then Z0 else if n > 0 then Zpos (pos_of_int n) else Zneg (pos_of_int (-n))
let ten = z_of_int 10

let z_of_string (s : string) : z =
  let neg = String.length s > 0 && s.[0] = '-' in
  let start = if neg || (String.length s > 0 && s.[0] = '+') then 1 else 0 in
  let acc = ref Z0 in
  for i = start to String.length s - 1 do
    let d = Char.code s.[i] - 48 in
    if d < 0 || d > 9 then failwith ("bad integer " ^ s);
    acc := Z.add (Z.mul !acc ten) (z_of_int d)
  done;
  if neg then Z.opp !acc else !acc

(* bits of a positive, least significant first *)
let rec bits_of_pos = function XH -> [1] | XO p -> 0 :: bits_of_pos p | XI p -> 1 :: bits_of_pos p

(* decimal digits (little endian, base 10^9) by Horner over the bits from the top *)
let string_of_pos (p : positive) : string =
  let base = 1_000_000_000 in
  let digs = ref [| 0 |] in
  let double_add bit =
    let carry = ref bit in
    let a = !digs in
    for i = 0 to Array.length a - 1 do
      let v = a.(i) * 2 + !carry in
      a.(i) <- v mod base;
      carry := v / base
    done;
    if !carry > 0 then digs := Array.append a [| !carry |]
  in
  List.iter double_add (List.rev (bits_of_pos p));
  let a = !digs in
  let n = Array.length a in
  let b = Buffer.create (9 * n) in
  Buffer.add_string b (string_of_int a.(n - 1));
  for i = n - 2 downto 0 do
    Buffer.add_string b (Printf.sprintf "%09d" a.(i))
  done;
  Buffer.contents b

let sz (x : z) : string =
  match x with Z0 -> "0" | Zpos p -> string_of_pos p | Zneg p -> "-" ^ string_of_pos p

let rec int_of_pos = function XH -> 1 | XO p -> 2 * int_of_pos p | XI p -> 2 * int_of_pos p + 1
let int_of_n = function N0 -> 0 | Npos p -> int_of_pos p

(* ---------- printing ---------- *)
exception Err of string

let get (r : 'a res) : 'a =
  match r with
  | Ok a -> a
  | ErrOOB (i, l) -> raise (Err (Printf.sprintf "OOB:%d:%d" (int_of_n i) (int_of_n l)))
  | ErrFuel -> raise (Err "FUEL")
  | ErrExn c -> raise (Err (match int_of_n c with 9 -> "FPE" | k -> Printf.sprintf "EXN:%d" k))

let b x = if x then "1" else "0"
let list_str l = "[" ^ String.concat "," (List.map sz l) ^ "]"
let qstr (n, d) = if sz d = "1" then sz n else sz n ^ "/" ^ sz d
let opt = function Some x -> "1 " ^ sz x | None -> "0"

let is_zero = function Z0 -> true | _ -> false
let is_pos = function Zpos _ -> true | _ -> false
let is_odd = function Zpos (XI _) | Zpos XH | Zneg (XI _) | Zneg XH -> true | _ -> false

let run (c : cfg) (t : string list) : string =
  let z = z_of_string in
  match t with
  | [ "div"; n; d ] ->
      let n = z n and d = z d in
      let m = get (nt_mod n d) and qq = get (nt_quotient n d) in
      let q, r = get (nt_quotient_mod n d) in
      let mf = get (nt_mod_f n d) and qqf = get (nt_quotient_f n d) in
      let qf, rf = get (nt_quotient_mod_f n d) in
      String.concat " " (List.map sz [ m; qq; q; r; mf; qqf; qf; rf ])
  | [ "gcd"; a; bb ] ->
      let a = z a and bb = z bb in
      sz (nt_gcd a bb) ^ " " ^ sz (nt_lcm a bb) ^ " " ^ b (nt_divides a bb)
  | [ "gcdext"; a; bb ] ->
      let (g, s), t = get (nt_gcd_ext c (z a) (z bb)) in
      String.concat " " (List.map sz [ g; s; t ])
  | [ "inv"; a; m ] ->
      let ok, x = get (nt_mod_inverse c (z a) (z m)) in
      if ok then "1 " ^ sz x else "0"
  | "crt" :: k :: rest ->
      let k = int_of_string k in
      let vals = List.map z rest in
      let rec split i l = if i = 0 then ([], l) else match l with x :: r -> let a, bb = split (i - 1) r in (x :: a, bb) | [] -> ([], []) in
      let rems, mods = split k vals in
      opt (get (nt_crt c rems mods))
  | [ "powm"; a; e; m ] ->
      let a = z a and e = z e and m = z m in
      let r = get (nt_powermod c a e m) in
      let l = get (nt_powermod_list c a e m) in
      opt r ^ " " ^ list_str l
  | [ "bin"; n; k ] -> sz (nt_binomial (z n) (z k))
  | [ "fac"; n ] -> sz (nt_factorial (z n))
  | [ "fib"; n ] ->
      let n = z n in
      let f = nt_fibonacci n in
      let f1, f0 = nt_fibonacci2 n in
      let l = nt_lucas n in
      let s = String.concat " " (List.map sz [ f; f1; f0; l ]) in
      let l1, l0 = get (nt_lucas2 n) in
      s ^ " " ^ sz l1 ^ " " ^ sz l0
  | [ "pf"; n ] ->
      let n = z n in
      let l = get (nt_prime_factors n) in
      let m = get (nt_prime_factor_multiplicities n) in
      list_str l ^ " [" ^ String.concat "," (List.map (fun (p, e) -> sz p ^ "^" ^ sz e) m) ^ "]"
  | [ "ftd"; n ] -> (
      match get (nt_factor_trial_division (z n)) with
      | Some f -> "1 " ^ sz f ^ " 1 " ^ sz f
      | None -> "0 0 0")
  | [ "lehman"; n ] -> opt (get (nt_factor_lehman (z n)))
  | [ "tot"; n ] ->
      let n = z n in
      let ph = get (nt_totient n) in
      let la = get (nt_carmichael n) in
      sz ph ^ " " ^ sz la
  | [ "mob"; n ] -> sz (get (nt_mobius (z n)))
  | [ "mert"; n ] -> sz (get (nt_mertens (z n)))
  | [ "ord"; a; n ] -> opt (get (nt_multiplicative_order c (z a) (z n)))
  | [ "proot"; n ] -> opt (get (nt_primitive_root (z n)))
  | [ "kro"; a; n ] ->
      let a = z a and n = z n in
      let k = get (nt_kronecker c a n) in
      if is_pos n && is_odd n then begin
        let j = get (nt_jacobi c a n) in
        if sz n <> "1" && String.length (sz n) <= 5 && is_prime n then
          let l = get (nt_legendre c a n) in
          String.concat " " (List.map sz [ k; j; l ])
        else sz k ^ " " ^ sz j
      end
      else sz k
  | [ "leg"; a; p ] -> sz (get (nt_legendre c (z a) (z p)))
  | [ "qr"; a ] -> list_str (get (nt_quadratic_residues (z a)))
  | [ "isqr"; a; p ] -> b (get (nt_is_quad_residue c (z a) (z p)))
  | [ "isnth"; a; n; m ] -> b (get (nt_is_nth_residue (z a) (z n) (z m)))
  | [ "poly"; s; x ] ->
      let s = z s and x = z x in
      let p = nt_polygonal_number s x in
      let r = get (nt_principal_polygonal_root s x) in
      sz p ^ " " ^ sz r
  | [ "ppd"; n; low ] ->
      let bs, ex = get (nt_perfect_power_decomposition (z n) (low = "1")) in
      sz bs ^ " " ^ sz ex
  | [ "harm"; n; m ] -> qstr (nt_harmonic (z n) (z m))
  | [ "bern"; n ] -> qstr (get (nt_bernoulli (z n)))
  | [ "mproot"; i; n ] ->
      let i = z i and n = z n in
      let ex, r =
        match c with
        | BOOST -> get (mp_root_boost i n)
        | GMP -> (
            (* mpz_root: truncated root, sign of i for odd n *)
            match i with
            | Zneg _ -> let e, r = mp_root (Z.opp i) n in (e, Z.opp r)
            | _ -> mp_root i n)
      in
      b ex ^ " " ^ sz r
  | [ "mppp"; i ] ->
      let i = z i in
      let sq = match c with BOOST -> snd (get (mp_root_boost i (z_of_int 2))) | GMP -> snd (mp_root i (z_of_int 2)) in
      b (mp_perfect_power_p i) ^ " " ^ b (mp_perfect_square_p i) ^ " " ^ sz sq
  | [ "mpdiv"; a; d ] ->
      let a = z a and d = z d in
      let q, r = get (fdiv_qr a d) in
      let cq, _ = get (cdiv_qr a d) in
      let tq, tr = get (tdiv_qr a d) in
      String.concat " " (List.map sz [ q; r; q; r; cq; tq; tr ])
  | [ "mppowm"; a; e; m ] -> sz (get (mp_powm c (z a) (z e) (z m)))
  | [ "mpscan"; i ] -> sz (mp_scan1 (z i))
  | _ -> "BADCASE"

let () =
  try
    while true do
      let line = input_line stdin in
      let t = List.filter (fun s -> s <> "") (String.split_on_char ' ' (String.trim line)) in
      (* an optional first token @boost / @gmp selects the configuration of the primitives *)
      let c, t = match t with "@boost" :: r -> (BOOST, r) | "@gmp" :: r -> (GMP, r) | _ -> (GMP, t) in
      let out = if t = [] then "" else try run c t with Err e -> e | Failure e -> "FAIL:" ^ e in
      print_endline out
    done
  with End_of_file -> ()
