(* C12/C13 model main.  Reads the dumps printed by harness/eval_driver.cpp and recomputes the
   results with the extracted model (coq/Eval/EvalRun.v).
     E <dump>                        -> V=<r> \t S=<r> \t L=<r> \t G=<guard flags>
     H <op> || <op> ...              -> <r> || <r> ... \t G=<guard flags>
        op = I :: <input dumps ;;> :: <output dumps ;;> :: <N | T<n> | R sym ;; expr ... @@ reduced ;; ...>
           | C <hex> ...
   +, *, / and the comparisons are computed by the extracted Flocq functions; the abstract libm
   symbols are interpreted by the C library through OCaml's Stdlib (the same glibc the driver
   calls): the comparison validates the formula table and the order of operations, not libm. *)
open Semodel
open Expr_io

(* ---- bit patterns: extracted N <-> int64 ---- *)
let rec int64_of_pos = function
  | XH -> 1L
  | XO p -> Int64.shift_left (int64_of_pos p) 1
  | XI p -> Int64.logor (Int64.shift_left (int64_of_pos p) 1) 1L
let int64_of_n = function N0 -> 0L | Npos p -> int64_of_pos p
let rec pos_of_int64 (x : int64) : positive =
  if x = 1L then XH
  else
    let r = pos_of_int64 (Int64.shift_right_logical x 1) in
    if Int64.logand x 1L = 0L then XO r else XI r
let n_of_int64 (x : int64) : n = if x = 0L then N0 else Npos (pos_of_int64 x)
let float_of_n b = Int64.float_of_bits (int64_of_n b)
let n_of_float f = n_of_int64 (Int64.bits_of_float f)

let hex_of_n (b : n) : string =
  let x = int64_of_n b in
  let e = Int64.to_int (Int64.logand (Int64.shift_right_logical x 52) 0x7ffL) in
  let m = Int64.logand x 0xfffffffffffffL in
  if e = 0x7ff && m <> 0L then "NAN" else Printf.sprintf "%016Lx" x

(* ---- the C library ---- *)
let libm_un (f : ufun) (b : n) : n option =
  let x = float_of_n b in
  let r = match f with
    | UExp -> Some (exp x) | ULog -> Some (log x) | USin -> Some (sin x) | UCos -> Some (cos x)
    | UTan -> Some (tan x) | UAsin -> Some (asin x) | UAcos -> Some (acos x) | UAtan -> Some (atan x)
    | USinh -> Some (sinh x) | UCosh -> Some (cosh x) | UTanh -> Some (tanh x)
    | UAsinh -> Some (Float.asinh x) | UAcosh -> Some (Float.acosh x) | UAtanh -> Some (Float.atanh x)
    | UErf -> Some (Float.erf x) | UErfc -> Some (Float.erfc x)
    | _ -> None in
  match r with Some v -> Some (n_of_float v) | None -> None
let libm_bin (f : bfun) (a : n) (b : n) : n option =
  let x = float_of_n a and y = float_of_n b in
  match f with
  | BPow -> Some (n_of_float (Float.pow x y))
  | BAtan2 -> Some (n_of_float (Float.atan2 x y))
  | _ -> None

let show_exn (c : n) : string =
  let k = small_of_n c in
  if k = 99 then "NOMODEL" else "EXN:" ^ string_of_int k
let show_res (show : 'a -> string) (r : 'a res) : string =
  match r with
  | Ok v -> show v
  | ErrOOB (_, _) -> "CRASH"
  | ErrFuel -> "FUEL"
  | ErrExn c -> show_exn c

let trim = String.trim
let nonempty l = List.filter (fun s -> trim s <> "") l

let flags l = String.concat "," (List.filter_map (fun (b, s) -> if b then Some s else None) l)

let do_expr (d : string) : string =
  let e = expr_of_string d in
  let v = eval_expr libm_un libm_bin N0 e in
  let s = eval_expr libm_un libm_bin (n_of_small 1) e in
  let l = lambda_expr libm_un libm_bin e in
  Printf.sprintf "V=%s\tS=%s\tL=%s\tG=%s" (show_res hex_of_n v) (show_res hex_of_n s) (show_res hex_of_n l)
    (flags [ (g_pow_E e, "powE"); (g_mul_E e, "mulE"); (g_pw_open e, "pwopen") ])

let parse_cse (s : string) : cse_outcome =
  let s = trim s in
  if s = "N" then NoCse
  else if String.length s > 0 && s.[0] = 'T' then
    CseThrows (n_of_small (int_of_string (String.sub s 1 (String.length s - 1))))
  else if String.length s > 0 && s.[0] = 'R' then begin
    match split_on "@@" (String.sub s 1 (String.length s - 1)) with
    | [reps; red] ->
        let items = List.map expr_of_string (nonempty (split_on " ;; " reps)) in
        let rec pairs = function
          | a :: b :: r -> (a, b) :: pairs r
          | [] -> []
          | _ -> failwith "odd replacement list" in
        CseOk (pairs items, List.map expr_of_string (nonempty (split_on " ;; " red)))
    | _ -> failwith "cse part"
  end else failwith "cse part"

let parse_op (s : string) : hop =
  let s = trim s in
  if String.length s >= 4 && String.sub s 0 4 = "I ::" then begin
    match split_on " :: " (" " ^ String.sub s 4 (String.length s - 4) ^ " ") with
    | [ins; outs; cse] ->
        HInit (List.map expr_of_string (nonempty (split_on " ;; " ins)),
               List.map expr_of_string (nonempty (split_on " ;; " outs)), parse_cse cse)
    | l -> failwith ("init op: " ^ string_of_int (List.length l) ^ " parts")
  end else if String.length s >= 1 && s.[0] = 'C' then
    HCall (List.map n_of_hex (nonempty (String.split_on_char ' ' (String.sub s 1 (String.length s - 1)))))
  else failwith "op"

let all_exprs (ops : hop list) : expr list =
  List.concat_map (function
    | HInit (_, outs, c) -> outs @ (match c with CseOk (reps, red) -> List.map snd reps @ red | _ -> [])
    | HCall _ -> []) ops

let do_history (line : string) : string =
  let ops = List.map parse_op (split_on " || " line) in
  let obs = history libm_un libm_bin ops in
  let show_list l = if l = [] then "-" else String.concat " " (List.map hex_of_n l) in
  let rec go = function
    | [] -> []
    | o :: r ->
        let s = match o with
          | HObsInit x -> show_res (fun () -> "OK") x
          | HObsCall x -> show_res show_list x in
        if s = "CRASH" then [s] else s :: go r in
  let es = all_exprs ops in
  String.concat " || " (go obs) ^ "\tG=" ^
  flags [ (history_stale_map libm_un libm_bin ops, "stalemap"); (g_cse_shadow ops, "cseshadow");
          (List.exists g_mul_E es, "mulE"); (List.exists g_pw_open es, "pwopen") ]

let () =
  try
    while true do
      let line = input_line stdin in
      let out =
        try
          if String.length line >= 2 && String.sub line 0 2 = "E " then do_expr (String.sub line 2 (String.length line - 2))
          else if String.length line >= 2 && String.sub line 0 2 = "H " then do_history (String.sub line 2 (String.length line - 2))
          else "BADCASE"
        with
        | Unsupported m -> "UNSUPPORTED:" ^ m
        | Failure m -> "FAIL:" ^ m
        | Not_found -> "FAIL:notfound" in
      print_string out; print_newline ()
    done
  with End_of_file -> ()
