(* C03/C04/C07 model side.  Input lines (fields separated by " ;; "):
     <op> ;; <dump a1> ;; ... ;; <dump an>     op in add sub mul div pow neg sqrt cbrt addv mulv
         -> "<dump of the model's result> ;; <hash>"  |  EXN:<k>  |  CRASH:<sig>  |  FUEL  |  LIBM
     canon ;; <dump>                           -> "1"  |  "0 ;; <rule code> ;; <dump of the first offending node>"
     guards ;; <dump>                          -> three flags: add_operand_ok mul_operand_ok mul_operand_sorted
   Dumps are the text of harness/dump.h; the result is printed in the same syntax (Add
   dictionaries in the model's order: the check sorts them on both sides). *)
open Semodel
open Expr_io

let name_of_code (c : n) : string =
  let rec go = function
    | [] -> "Unknown"
    | (nm, c') :: r -> if c' = c then String.concat "" (List.map (fun b -> String.make 1 (Char.chr (small_of_n b))) nm) else go r in
  go tc_table

let hexname (bs : n list) : string =
  "x" ^ String.concat "" (List.map (fun b -> Printf.sprintf "%02x" (small_of_n b)) bs)

let hex16 (x : n) : string =
  (* 64-bit pattern as 16 hex digits *)
  let ds = digits_of_N x in
  (* digits_of_N is decimal; convert through repeated division on the decimal string *)
  let s = String.concat "" (List.map (fun d -> string_of_int (small_of_n d)) ds) in
  (* decimal string -> hex by schoolbook division (values < 2^64) *)
  let digits = ref (List.init (String.length s) (fun i -> Char.code s.[i] - 48)) in
  let out = Buffer.create 16 in
  let hexd = "0123456789abcdef" in
  let acc = ref [] in
  let is_zero l = List.for_all (fun d -> d = 0) l in
  while not (is_zero !digits) do
    let rem = ref 0 in
    let q = List.map (fun d -> let cur = !rem * 10 + d in rem := cur mod 16; cur / 16) !digits in
    acc := hexd.[!rem] :: !acc;
    digits := q
  done;
  List.iter (Buffer.add_char out) !acc;
  let h = Buffer.contents out in
  String.make (16 - String.length h) '0' ^ h

let dump_num (x : number) : string =
  match x with
  | NInt z -> "(I " ^ dec_of_z z ^ ")"
  | NRat (p, q) -> "(Q " ^ dec_of_z p ^ " " ^ dec_of_n (Npos q) ^ ")"
  | NCplx (a, b, c, d) ->
      "(C " ^ dec_of_z a ^ " " ^ dec_of_n (Npos b) ^ " " ^ dec_of_z c ^ " " ^ dec_of_n (Npos d) ^ ")"
  | NDbl b -> "(D " ^ hex16 b ^ ")"
  | NCDbl (r, i) -> "(CD " ^ hex16 r ^ " " ^ hex16 i ^ ")"
  | NInf d -> "(Inf " ^ dec_of_z d ^ ")"
  | NNaN -> "(NaN)"

let rec dump (e : expr) : string =
  let args l = String.concat "" (List.map (fun a -> " " ^ dump a) l) in
  let pairs l = String.concat "" (List.map (fun (k, v) -> " (" ^ dump k ^ " " ^ dump v ^ ")") l) in
  match e with
  | ENum x -> dump_num x
  | ESym nm -> "(Sym " ^ hexname nm ^ ")"
  | EDummy (nm, i) -> "(Dummy " ^ hexname nm ^ " " ^ dec_of_n i ^ ")"
  | EConst nm -> "(Const " ^ hexname nm ^ ")"
  | EAdd (c, d) ->
      "(Add " ^ dump_num c ^ String.concat "" (List.map (fun (k, v) -> " (" ^ dump k ^ " " ^ dump_num v ^ ")") d) ^ ")"
  | EMul (c, d) -> "(Mul " ^ dump_num c ^ pairs d ^ ")"
  | EPow (b, x) -> "(Pow " ^ dump b ^ " " ^ dump x ^ ")"
  | EF1 (c, a) -> "(F1 " ^ name_of_code c ^ " " ^ dump a ^ ")"
  | EF2 (c, a, b) -> "(F2 " ^ name_of_code c ^ " " ^ dump a ^ " " ^ dump b ^ ")"
  | EFN (c, l) -> "(FN " ^ name_of_code c ^ args l ^ ")"
  | EFunSym (nm, l) -> "(FunSym " ^ hexname nm ^ args l ^ ")"
  | ELex (c, a, b) -> "(Lex " ^ name_of_code c ^ " " ^ dump a ^ " " ^ dump b ^ ")"
  | EDeriv (a, l) -> "(Deriv " ^ dump a ^ args l ^ ")"
  | ESubs (a, d) -> "(Subs " ^ dump a ^ pairs d ^ ")"
  | EPw l -> "(Pw" ^ pairs l ^ ")"
  | EBool b -> "(Bool " ^ (if b then "1" else "0") ^ ")"
  | EInterval (s, x, lo, ro) ->
      "(Interval " ^ dump s ^ " " ^ dump x ^ " " ^ (if lo then "1" else "0") ^ " " ^ (if ro then "1" else "0") ^ ")"
  | EAtom c -> "(Atom " ^ name_of_code c ^ ")"

let op_of_string = function
  | "add" -> OAdd | "sub" -> OSub | "mul" -> OMul | "div" -> ODiv | "pow" -> OPow | "neg" -> ONeg
  | "sqrt" -> OSqrt | "cbrt" -> OCbrt | "addv" -> OAddV | "mulv" -> OMulV
  | s -> failwith ("unknown op " ^ s)

let show_res (r : expr res) : string =
  match r with
  | Ok e -> dump e ^ " ;; " ^ dec_of_n (hash e)
  | ErrFuel -> "FUEL"
  | ErrOOB (_, _) -> "OOB"
  | ErrExn c ->
      let k = small_of_n c in
      if k = 98 then "LIBM" else if k = 97 then "UNMODELLED" else if k = 96 then "INTERNAL"
      else if k >= 200 then "CRASH:" ^ string_of_int (k - 200)
      else "EXN:" ^ string_of_int k

let () =
  try
    while true do
      let line = input_line stdin in
      (try
        let items = List.map String.trim (split_on " ;; " line) in
        match items with
        | "canon" :: d :: _ ->
            let e = expr_of_string d in
            if canonical e then print_endline "1"
            else (match canonical_witness e with
                  | Some w -> print_endline ("0 ;; " ^ dec_of_n (node_rule w) ^ " ;; " ^ dump w)
                  | None -> print_endline "0 ;; ?")
        | "guards" :: d :: _ ->
            let e = expr_of_string d in
            let b x = if x then "1" else "0" in
            print_endline (b (add_operand_ok e) ^ b (mul_operand_ok e) ^ b (mul_operand_sorted e))
        | op :: args ->
            let es = List.map expr_of_string (List.filter (fun s -> s <> "") args) in
            print_endline (show_res (api_run (op_of_string op) es))
        | [] -> print_endline "FAIL empty"
      with
      | Unsupported m -> print_endline ("UNSUPPORTED " ^ m)
      | Failure m -> print_endline ("FAIL " ^ m)
      | Stack_overflow -> print_endline "FAIL stack overflow")
    done
  with End_of_file -> ()
