(* C28 model side.  Input line:  <op> \t <dump> ;; <dump> ...   (the argument trees exactly as the
   driver dumped them, in the order the driver passed them to the library).
   Output line: <result dump | EXN:<cls> | FUEL | OOB> \t hyp=<0|1>
   where hyp says whether the arguments satisfy the hypotheses of the Coq theorem about <op>. *)
open Semodel
open Expr_io

let ops = ["and", 0; "or", 1; "nand", 2; "nor", 3; "xor", 4; "xnor", 5; "not", 6; "contains", 7;
           "pw", 8; "eq", 9; "ne", 10; "lt", 11; "le", 12; "gt", 13; "ge", 14; "subs", 15]

let string_of_bytes (l : n list) : string =
  String.concat "" (List.map (fun c -> String.make 1 (Char.chr (small_of_n c))) l)

let name_of_code (c : n) : string =
  match List.find_opt (fun (_, c') -> c' = c) tc_table with
  | Some (nm, _) -> string_of_bytes nm
  | None -> "?" ^ dec_of_n c

let hexname (l : n list) : string =
  "x" ^ String.concat "" (List.map (fun c -> Printf.sprintf "%02x" (small_of_n c)) l)

(* doubles never occur in C28 cases; a decimal rendering with a marker keeps a stray one visible
   as a mismatch *)
let hex16 (x : n) : string = "dec:" ^ dec_of_n x

let dump_num (x : number) : string =
  match x with
  | NInt z -> "(I " ^ dec_of_z z ^ ")"
  | NRat (p, q) -> "(Q " ^ dec_of_z p ^ " " ^ dec_of_z (Zpos q) ^ ")"
  | NCplx (a, b, c, d) ->
      "(C " ^ dec_of_z a ^ " " ^ dec_of_z (Zpos b) ^ " " ^ dec_of_z c ^ " " ^ dec_of_z (Zpos d) ^ ")"
  | NDbl b -> "(D " ^ hex16 b ^ ")"
  | NCDbl (a, b) -> "(CD " ^ hex16 a ^ " " ^ hex16 b ^ ")"
  | NInf d -> "(Inf " ^ dec_of_z d ^ ")"
  | NNaN -> "(NaN)"

let rec dump (e : expr) : string =
  let args l = String.concat "" (List.map (fun a -> " " ^ dump a) l) in
  match e with
  | ENum x -> dump_num x
  | ESym nm -> "(Sym " ^ hexname nm ^ ")"
  | EDummy (nm, i) -> "(Dummy " ^ hexname nm ^ " " ^ dec_of_n i ^ ")"
  | EConst nm -> "(Const " ^ hexname nm ^ ")"
  | EAdd (c, d) ->
      "(Add " ^ dump_num c ^ String.concat "" (List.map (fun (k, v) -> " (" ^ dump k ^ " " ^ dump_num v ^ ")") d) ^ ")"
  | EMul (c, d) ->
      "(Mul " ^ dump_num c ^ String.concat "" (List.map (fun (k, v) -> " (" ^ dump k ^ " " ^ dump v ^ ")") d) ^ ")"
  | EPow (b, x) -> "(Pow " ^ dump b ^ " " ^ dump x ^ ")"
  | EF1 (c, a) -> "(F1 " ^ name_of_code c ^ " " ^ dump a ^ ")"
  | EF2 (c, a, b) -> "(F2 " ^ name_of_code c ^ " " ^ dump a ^ " " ^ dump b ^ ")"
  | EFN (c, l) -> "(FN " ^ name_of_code c ^ args l ^ ")"
  | EFunSym (nm, l) -> "(FunSym " ^ hexname nm ^ args l ^ ")"
  | ELex (c, a, b) -> "(Lex " ^ name_of_code c ^ " " ^ dump a ^ " " ^ dump b ^ ")"
  | EDeriv (a, l) -> "(Deriv " ^ dump a ^ args l ^ ")"
  | ESubs (a, d) ->
      "(Subs " ^ dump a ^ String.concat "" (List.map (fun (k, v) -> " (" ^ dump k ^ " " ^ dump v ^ ")") d) ^ ")"
  | EPw l -> "(Pw" ^ String.concat "" (List.map (fun (k, v) -> " (" ^ dump k ^ " " ^ dump v ^ ")") l) ^ ")"
  | EBool b -> if b then "(Bool 1)" else "(Bool 0)"
  | EInterval (s, x, lo, ro) ->
      "(Interval " ^ dump s ^ " " ^ dump x ^ " " ^ (if lo then "1" else "0") ^ " " ^ (if ro then "1" else "0") ^ ")"
  | EAtom c -> "(Atom " ^ name_of_code c ^ ")"

let () =
  try
    while true do
      let line = input_line stdin in
      (try
        match String.index_opt line '\t' with
        | None -> print_endline "FAIL no-tab"
        | Some i ->
            let opn = String.sub line 0 i in
            let rest = String.sub line (i + 1) (String.length line - i - 1) in
            let op = n_of_small (List.assoc opn ops) in
            let items = List.filter (fun s -> String.trim s <> "") (split_on " ;; " rest) in
            let es = List.map (fun s -> expr_of_string (String.trim s)) items in
            let r = match run_op op es with
              | Ok e -> dump e
              | ErrExn c -> "EXN:" ^ dec_of_n c
              | ErrFuel -> "FUEL"
              | ErrOOB (_, _) -> "OOB" in
            print_endline (r ^ "\thyp=" ^ (if hyp_ok op es then "1" else "0"))
      with
      | Unsupported m -> print_endline ("UNSUPPORTED " ^ m)
      | Not_found -> print_endline "FAIL unknown-op"
      | Failure m -> print_endline ("FAIL " ^ m))
    done
  with End_of_file -> ()
