(* C16/C17/C18 model side.  One case per line (fields separated by TAB), one result line per case.
     P <conv> <hexbytes>            -> OK <recipe> | EXN:4 | FUEL        (parse_ref)
     H <conv> <hex>,<hex>,...       -> <outcome>;<outcome>... TAB <res>;<res>...   (run_history; the
                                       parser object's `res` field after every call: OK <recipe> | NONE)
     T <conv> <hexbytes>            -> the syntax tree (debugging aid)
   Recipes are printed in the S-expression syntax harness/parse_driver.cpp evaluates. *)
open Semodel
open Expr_io

let hex_of_bytes (l : n list) : string =
  String.concat "" (List.map (fun c -> Printf.sprintf "%02x" (small_of_n c)) l)
let bytes_of_hex (s : string) : n list =
  if s = "-" then [] else   (* the empty string inside a comma-separated list *)
  List.init (String.length s / 2) (fun i -> n_of_small (16 * hexval s.[2 * i] + hexval s.[2 * i + 1]))
let string_of_bytes (l : n list) : string =
  String.concat "" (List.map (fun c -> String.make 1 (Char.chr (small_of_n c))) l)

let rec recipe (r : rcp) : string =
  match r with
  | RInt z -> "(i " ^ dec_of_z z ^ ")"
  | RFloat l -> "(fl " ^ hex_of_bytes l ^ ")"
  | RBadNum -> "(badnum)"
  | RSym s -> "(sx " ^ hex_of_bytes s ^ ")"
  | RConst c -> "(k " ^ string_of_bytes c ^ ")"
  | ROne -> "one"
  | RApp (f, a) -> "(ap " ^ string_of_bytes f ^ args a ^ ")"
  | RAppBool (f, a) -> "(apb " ^ string_of_bytes f ^ args a ^ ")"
  | RAppUnchecked (f, a) -> "(apu " ^ string_of_bytes f ^ args a ^ ")"
  | RFunSym (f, a) -> "(fsx " ^ hex_of_bytes f ^ args a ^ ")"
  | RPw l -> "(pwx" ^ String.concat "" (List.map (fun (e, c) -> " " ^ recipe e ^ " " ^ recipe c) l) ^ ")"
and args a = String.concat "" (List.map (fun x -> " " ^ recipe x) a)

let outcome (o : outcome) : string =
  match o with
  | OutValue r -> "OK " ^ recipe r
  | OutParseError -> "EXN:4"
  | OutFuel -> "FUEL"

let binop_name = function
  | BOr -> "|" | BXor -> "^" | BAnd -> "&" | BEq -> "==" | BGt -> ">" | BLt -> "<" | BNe -> "!="
  | BLe -> "<=" | BGe -> ">=" | BAdd -> "+" | BSub -> "-" | BMul -> "*" | BDiv -> "/" | BPow -> "**"
let rec tree (t : past) : string =
  match t with
  | PNum s -> "(num " ^ string_of_bytes s ^ ")"
  | PIdent s -> "(id " ^ hex_of_bytes s ^ ")"
  | PImpl s -> "(impl " ^ hex_of_bytes s ^ ")"
  | PImplPow (s, e) -> "(implpow " ^ hex_of_bytes s ^ " " ^ tree e ^ ")"
  | PBin (op, a, c) -> "(" ^ binop_name op ^ " " ^ tree a ^ " " ^ tree c ^ ")"
  | PNeg a -> "(neg " ^ tree a ^ ")"
  | PNot a -> "(not " ^ tree a ^ ")"
  | PCall (f, l) -> "(call " ^ hex_of_bytes f ^ String.concat "" (List.map (fun x -> " " ^ tree x) l) ^ ")"
  | PPw l -> "(pw" ^ String.concat "" (List.map (fun (e, c) -> " " ^ tree e ^ " " ^ tree c) l) ^ ")"

let fields (s : string) : string list = String.split_on_char '\t' s
let words (s : string) : string list = List.filter (fun w -> w <> "") (String.split_on_char ' ' s)

let handle (line : string) : string =
  match fields line with
  | [] -> "BADCASE"
  | f0 :: rest ->
    (match words f0 with
     | "P" :: conv :: tl ->
         let bs = match tl with h :: _ -> bytes_of_hex h | [] -> [] in
         outcome (parse_ref bs (conv = "1"))
     | "T" :: conv :: tl ->
         let bs = match tl with h :: _ -> bytes_of_hex h | [] -> [] in
         (match parse_syntax bs (conv = "1") with
          | TopOk t -> "OK " ^ tree t
          | TopErrAssigned t -> "ERR-ASSIGNED " ^ tree t
          | TopErr -> "ERR"
          | TopFuel -> "FUEL")
     | "S" :: _ ->
         (* S <dump of e>: the model's str(e) and what the reference parser makes of it *)
         let d = String.sub f0 2 (String.length f0 - 2) in
         let e = expr_of_string (String.trim d) in
         if not (printable e) then "UNSUPPORTED not printable"
         else
           let s = print e in
           hex_of_bytes s ^ "\t" ^ outcome (parse_ref s true)
     | "D" :: h :: _ -> hex_of_bytes (print_double (n_of_hex h))
     | "H" :: conv :: tl ->
         let ins = match tl with h :: _ -> List.map bytes_of_hex (String.split_on_char ',' h) | [] -> [] in
         let c = (conv = "1") in
         (* outcomes and the res field after each call *)
         let rec go st l =
           match l with
           | [] -> ([], [])
           | s :: r ->
               let (st1, o) = parser_parse st s c in
               let (os, rs) = go st1 r in
               (outcome o :: os, (match st1.ps_res with Some x -> "OK " ^ recipe x | None -> "NONE") :: rs) in
         let (os, rs) = go fresh_parser ins in
         (* the same through run_history (the function the theorems are about) *)
         let (_, os2) = run_history fresh_parser (List.map (fun s -> (s, c)) ins) in
         if List.map outcome os2 <> os then "INTERNAL: run_history differs"
         else String.concat ";" os ^ "\t" ^ String.concat ";" rs
     | _ -> "BADCASE")

let () =
  try
    while true do
      let line = input_line stdin in
      (try print_endline (handle line) with
       | Unsupported m -> print_endline ("UNSUPPORTED " ^ m)
       | Failure m -> print_endline ("FAIL " ^ m)
       | Not_found -> print_endline "FAIL not_found"
       | Invalid_argument m -> print_endline ("FAIL " ^ m))
    done
  with End_of_file -> ()
