(* C01/C02 model side: input line = dumps of a pool of expressions separated by " ;; ";
   output = "h1 h2 ... || eq-matrix rows || cmp-matrix rows"  (same text as the driver prints
   after its dumps). *)
open Semodel
open Expr_io

let () =
  try
    while true do
      let line = input_line stdin in
      (try
        let items = List.filter (fun s -> String.trim s <> "") (split_on " ;; " line) in
        let es = List.map (fun s -> expr_of_string (String.trim s)) items in
        let hs = pool_hashes es in
        let eqm = pool_eq es in
        let cm = pool_cmp es in
        let row_eq r = String.concat "" (List.map (fun b -> if b then "1" else "0") r) in
        let row_cmp r = String.concat "" (List.map (fun c -> match c with Z0 -> "0" | Zpos _ -> "+" | Zneg _ -> "-") r) in
        print_endline (String.concat " " (List.map dec_of_n hs) ^ " || "
                       ^ String.concat " " (List.map row_eq eqm) ^ " || "
                       ^ String.concat " " (List.map row_cmp cm) ^ " || "
                       ^ row_eq (pool_wf es))
      with
      | Unsupported m -> print_endline ("UNSUPPORTED " ^ m)
      | Failure m -> print_endline ("FAIL " ^ m))
    done
  with End_of_file -> ()
