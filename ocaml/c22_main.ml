(* Reader/printer around the extracted C22 model (coq/C22/MPolyModel.v).
   input : one case per line (same lines as harness/c22_driver.cpp)
     poly   := vars '/' terms        vars  := '-' | name(,name)*      (order given to from_dict)
                                     terms := '-' | key:hex(;key:hex)*   key := '_' | e(.e)*
     cases  := fd P | add P Q | sub P Q | mul P Q | neg P | pow P n | eval P name=hex(,name=hex)*
               | eq P Q | eq3 P Q R | rec vars vars | rt P | symb P Q
   output: one canonical line per case *)
open Mpoly_model

(* ---- numbers ---- *)
let hexval c =
  match c with
  | '0' .. '9' -> Char.code c - 48
  | 'a' .. 'f' -> Char.code c - 87
  | 'A' .. 'F' -> Char.code c - 55
  | _ -> failwith "bad hex digit"

let bits_of_hex (s : string) : bool list =
  let acc = ref [] in
  String.iter (fun c ->
      let v = hexval c in
      acc := ((v land 1) <> 0) :: ((v land 2) <> 0) :: ((v land 4) <> 0) :: ((v land 8) <> 0) :: !acc)
    s;
  !acc

let pos_of_bits_msb_first (l : bool list) : positive option =
  let rec strip = function false :: r -> strip r | l -> l in
  match strip l with
  | [] -> None
  | _ :: r -> Some (List.fold_left (fun p b -> if b then XI p else XO p) XH r)

let n_of_hex (s : string) : n =
  match pos_of_bits_msb_first (List.rev (bits_of_hex s)) with None -> N0 | Some p -> Npos p

let z_of_hex (s : string) : z =
  let neg = String.length s > 0 && s.[0] = '-' in
  let body = if neg then String.sub s 1 (String.length s - 1) else s in
  match n_of_hex body with
  | N0 -> Z0
  | Npos p -> if neg then Zneg p else Zpos p

let rec pos_of_int (n : int) : positive =
  if n = 1 then XH else if n land 1 = 0 then XO (pos_of_int (n lsr 1)) else XI (pos_of_int (n lsr 1))
let n_of_int (n : int) : n = if n = 0 then N0 else Npos (pos_of_int n)
let rec int_of_pos = function XH -> 1 | XO p -> 2 * int_of_pos p | XI p -> 2 * int_of_pos p + 1
let int_of_n = function N0 -> 0 | Npos p -> int_of_pos p

let hex_of_pos (p : positive) : string =
  let rec bits p acc = match p with XH -> true :: acc | XO q -> bits q (false :: acc) | XI q -> bits q (true :: acc) in
  let msb_first = bits p [] in
  let len = List.length msb_first in
  let pad = (4 - len mod 4) mod 4 in
  let l = ref msb_first in
  for _ = 1 to pad do l := false :: !l done;
  let b = Buffer.create (len / 4 + 2) in
  let rec go = function
    | b3 :: b2 :: b1 :: b0 :: r ->
        let v = (if b3 then 8 else 0) + (if b2 then 4 else 0) + (if b1 then 2 else 0) + (if b0 then 1 else 0) in
        Buffer.add_char b "0123456789abcdef".[v];
        go r
    | [] -> ()
    | _ -> failwith "hex_of_pos"
  in
  go !l;
  Buffer.contents b

let hex_of_z = function Z0 -> "0" | Zpos p -> hex_of_pos p | Zneg p -> "-" ^ hex_of_pos p
let hex_of_n = function N0 -> "0" | Npos p -> hex_of_pos p

(* ---- names, polynomials ---- *)
let sym_of_string (s : string) : sym = List.init (String.length s) (fun i -> n_of_int (Char.code s.[i]))
let string_of_sym (s : sym) : string = String.concat "" (List.map (fun c -> String.make 1 (Char.chr (int_of_n c))) s)

let split c s = String.split_on_char c s

let parse_vars (s : string) : sym list = if s = "-" then [] else List.map sym_of_string (split ',' s)

let parse_lit (s : string) : sym list * (mono * z) list =
  match String.index_opt s '/' with
  | None -> failwith "bad poly"
  | Some i ->
      let vs = String.sub s 0 i and ts = String.sub s (i + 1) (String.length s - i - 1) in
      let terms =
        if ts = "-" then []
        else List.map (fun t ->
            match String.index_opt t ':' with
            | None -> failwith "bad term"
            | Some j ->
                let ks = String.sub t 0 j and c = String.sub t (j + 1) (String.length t - j - 1) in
                let k = if ks = "_" then [] else List.map (fun e -> n_of_int (int_of_string e)) (split '.' ks) in
                (k, z_of_hex c))
            (split ';' ts) in
      (parse_vars vs, terms)

(* the driver fills an unordered_map with `insert`: the first occurrence of a key wins *)
let dedup (terms : (mono * z) list) : (mono * z) list =
  let rec go seen = function
    | [] -> []
    | (k, c) :: r -> if List.exists (fun k' -> mono_eqb k k') seen then go seen r else (k, c) :: go (k :: seen) r in
  go [] terms

(* every operand and every result is checked against the executable form of the theorems'
   hypothesis poly_ok (coq/C22/MPolyWfDef.v, sound by P_poly_okb_sound.v) *)
let wf (p : sym mpoly) : sym mpoly res =
  if s_okb p then Ok p else failwith "not well-formed (poly_okb)"

let build (s : string) : sym mpoly res =
  let (vs, ts) = parse_lit s in
  match s_from_dict vs (dedup ts) with Ok p -> wf p | e -> e

let show_poly (p : sym mpoly) : string =
  if not (s_okb p) then failwith "result not well-formed (poly_okb)" else
  let vs = match p.pvars with [] -> "-" | l -> String.concat "," (List.map string_of_sym l) in
  let ts = List.map (fun (k, c) -> (List.map int_of_n k, hex_of_z c)) p.pcont.cdict in
  let ts = List.sort compare ts in
  let show_t (k, c) =
    (match k with [] -> "_" | _ -> String.concat "." (List.map string_of_int k)) ^ ":" ^ c in
  vs ^ "/" ^ (match ts with [] -> "-" | _ -> String.concat ";" (List.map show_t ts))

let show_err = function
  | ErrOOB (_, _) -> "OOB"
  | ErrFuel -> "FUEL"
  | ErrExn c -> Printf.sprintf "EXN:%d" (int_of_n c)
  | Ok _ -> "?"

let ( >>= ) r f = match r with Ok a -> f a | e -> show_err e

let run_case (line : string) : string =
  match List.filter (fun s -> s <> "") (split ' ' line) with
  | [("fd" | "rt"); p] -> build p >>= fun a -> show_poly a
  | ["neg"; p] -> build p >>= fun a -> show_poly (s_neg a)
  | ["add"; p; q] -> build p >>= fun a -> build q >>= fun b -> s_add a b >>= show_poly
  | ["sub"; p; q] -> build p >>= fun a -> build q >>= fun b -> s_sub a b >>= show_poly
  | [("mul" | "symb"); p; q] -> build p >>= fun a -> build q >>= fun b -> s_mul a b >>= show_poly
  | ["pow"; p; n] -> build p >>= fun a -> s_pow a (n_of_int (int_of_string n)) >>= show_poly
  | "eval" :: p :: rest ->
      let vals = match rest with
        | [] | ["-"] -> []
        | v :: _ -> List.map (fun kv ->
            match String.index_opt kv '=' with
            | None -> failwith "bad valuation"
            | Some i -> (sym_of_string (String.sub kv 0 i), z_of_hex (String.sub kv (i + 1) (String.length kv - i - 1))))
            (split ',' v) in
      build p >>= fun a -> s_eval a vals >>= hex_of_z
  | ["eq"; p; q] ->
      build p >>= fun a -> build q >>= fun b ->
      let bit x = if x then "1" else "0" in
      Printf.sprintf "eq=%s%s h=%s,%s" (bit (s_eq a b)) (bit (s_eq b a)) (hex_of_n (s_hash a)) (hex_of_n (s_hash b))
  | ["eq3"; p; q; r] ->
      build p >>= fun a -> build q >>= fun b -> build r >>= fun c ->
      let bit x = if x then "1" else "0" in
      "eq3=" ^ bit (s_eq a b) ^ bit (s_eq b c) ^ bit (s_eq a c)
  | ["rec"; v1; v2] ->
      (* the two argument sets are built by insertion, as in the driver *)
      let s1 = s_set_of (parse_vars v1) and s2 = s_set_of (parse_vars v2) in
      let (((t1, t2), s), sz) = s_reconcile s1 s2 in
      let nums l = String.concat "," (List.map (fun x -> string_of_int (int_of_n x)) l) in
      Printf.sprintf "%s|%s|%s|%d" (String.concat "," (List.map string_of_sym s)) (nums t1) (nums t2) (int_of_n sz)
  | _ -> "BADOP"

let () =
  try
    while true do
      let line = input_line stdin in
      print_endline (try run_case line with Failure m -> "MODELFAIL:" ^ m)
    done
  with End_of_file -> ()
