(* C37 model side.  Input: one output line of harness/c37_driver.cpp (sections E, C, T, O separated
   by TAB; oracle annotations are ignored).  Output (fields separated by TAB):
     CHKC=<5 bits|NA>   the extracted checker check_cse on the outputs of cse():
                        shape, faithful (eq on the dumps of the library's back-substitution),
                        fresh, acyclic, closed
     CHKT=<5 bits|NA>   the same on the outputs of tree_cse() with empty opt_subs
     T0=<status>        the extracted tree_cse model (empty opt_subs) against section T
     T0R=<status>       only when T0 is UNMODELLED: the same generic tree_cse model (tree_cse is generic in the
                        constructors, and so are its theorems) run with RELAXED constructors -- the library
                        constructors, except that a function create() the arithmetic model does not know
                        (EXN_UNMODELLED from c_f1 / c_f2 / c_fn) builds the plain node -- against section T.
                        OK means: on this instance every such create() of the library acted as the plain
                        constructor and the library's tree_cse output is the model's.  NA otherwise.
     T1=<status>        the extracted tree_cse model run with the library's opt_subs (section O)
                        against section C
     OP=<status>        the extracted opt_cse model against section O (the set of opt_subs entries)
     CS=<status>        the extracted model of the whole cse() (opt_cse ; tree_cse) against section C
     BS=<status>        the model's back-substitution of section C against the library's
     WF=<0|1>           every input satisfies wf and tree_ok (hypotheses of C01/C02/C39 theorems)
     XC=<0|1|?>         excl_complete: every Symbol leaf of the inputs is in the excluded_symbols the model
                        computed (the per-instance hypothesis of C37_tree_cse_acyclic / _faithful_guarded)
     GUARD=<0|1>        cse_guard: a FunctionSymbol named add/mul/pow or a Piecewise occurs in the inputs
   status: OK | DIFF <model result> | UNMODELLED | FUEL | NA
   Trees are compared after sorting Add dictionaries (unordered_map iteration order of a NEW Add
   is not modelled; that of the inputs is read from the dumps and drives the traversal). *)
open Semodel
open Expr_io

let name_of_code (c : n) : string =
  let rec go = function
    | [] -> "Unknown"
    | (nm, c') :: r -> if c' = c then String.concat "" (List.map (fun b -> String.make 1 (Char.chr (small_of_n b))) nm) else go r in
  go tc_table

let hexname (bs : n list) : string =
  "x" ^ String.concat "" (List.map (fun b -> Printf.sprintf "%02x" (small_of_n b)) bs)

let hex16 (x : n) : string =
  let ds = digits_of_N x in
  let s = String.concat "" (List.map (fun d -> string_of_int (small_of_n d)) ds) in
  let digits = ref (List.init (String.length s) (fun i -> Char.code s.[i] - 48)) in
  let hexd = "0123456789abcdef" in
  let acc = ref [] in
  let is_zero l = List.for_all (fun d -> d = 0) l in
  while not (is_zero !digits) do
    let rem = ref 0 in
    let q = List.map (fun d -> let cur = !rem * 10 + d in rem := cur mod 16; cur / 16) !digits in
    acc := hexd.[!rem] :: !acc;
    digits := q
  done;
  let h = String.concat "" (List.map (String.make 1) !acc) in
  String.make (max 0 (16 - String.length h)) '0' ^ h

let dump_num (x : number) : string =
  match x with
  | NInt z -> "(I " ^ dec_of_z z ^ ")"
  | NRat (p, q) -> "(Q " ^ dec_of_z p ^ " " ^ dec_of_n (Npos q) ^ ")"
  | NCplx (a, b, c, d) ->
      "(C " ^ dec_of_z a ^ " " ^ dec_of_n (Npos b) ^ " " ^ dec_of_z c ^ " " ^ dec_of_n (Npos d) ^ ")"
  | NDbl b -> "(D " ^ hex16 b ^ ")"
  | NCDbl (r, i) -> "(CD " ^ hex16 r ^ " " ^ hex16 i ^ ")"
  | NInf d -> "(Inf " ^ dec_of_z d ^ ")"
  | NNaN -> "(NaN)"

(* canonical text: the dump syntax, Add dictionaries sorted by the text of their items *)
let rec norm (e : expr) : string =
  let args l = String.concat "" (List.map (fun a -> " " ^ norm a) l) in
  let pairs l = String.concat "" (List.map (fun (k, v) -> " (" ^ norm k ^ " " ^ norm v ^ ")") l) in
  match e with
  | ENum x -> dump_num x
  | ESym nm -> "(Sym " ^ hexname nm ^ ")"
  | EDummy (nm, i) -> "(Dummy " ^ hexname nm ^ " " ^ dec_of_n i ^ ")"
  | EConst nm -> "(Const " ^ hexname nm ^ ")"
  | EAdd (c, d) ->
      let items = List.sort compare (List.map (fun (k, v) -> " (" ^ norm k ^ " " ^ dump_num v ^ ")") d) in
      "(Add " ^ dump_num c ^ String.concat "" items ^ ")"
  | EMul (c, d) -> "(Mul " ^ dump_num c ^ pairs d ^ ")"
  | EPow (b, x) -> "(Pow " ^ norm b ^ " " ^ norm x ^ ")"
  | EF1 (c, a) -> "(F1 " ^ name_of_code c ^ " " ^ norm a ^ ")"
  | EF2 (c, a, b) -> "(F2 " ^ name_of_code c ^ " " ^ norm a ^ " " ^ norm b ^ ")"
  | EFN (c, l) -> "(FN " ^ name_of_code c ^ args l ^ ")"
  | EFunSym (nm, l) -> "(FunSym " ^ hexname nm ^ args l ^ ")"
  | ELex (c, a, b) -> "(Lex " ^ name_of_code c ^ " " ^ norm a ^ " " ^ norm b ^ ")"
  | EDeriv (a, l) -> "(Deriv " ^ norm a ^ args l ^ ")"
  | ESubs (a, d) -> "(Subs " ^ norm a ^ pairs d ^ ")"
  | EPw l -> "(Pw" ^ pairs l ^ ")"
  | EBool b -> "(Bool " ^ (if b then "1" else "0") ^ ")"
  | EInterval (s, x, lo, ro) ->
      "(Interval " ^ norm s ^ " " ^ norm x ^ " " ^ (if lo then "1" else "0") ^ " " ^ (if ro then "1" else "0") ^ ")"
  | EAtom c -> "(Atom " ^ name_of_code c ^ ")"

let exprs_of (s : string) : expr list =
  let s = String.trim s in
  if s = "" then [] else List.map (fun x -> expr_of_string (String.trim x)) (split_on " ;; " s)

let pairs_of (s : string) : (expr * expr) list =
  let s = String.trim s in
  if s = "" then []
  else List.map (fun it ->
      match split_on " => " it with
      | [a; b] -> (expr_of_string (String.trim a), expr_of_string (String.trim b))
      | _ -> failwith "pair") (split_on " ;; " s)

(* a C / T section body: reps | reduced | back, or an error token *)
type sect = Err of string | Res of (expr * expr) list * expr list * expr list | BackErr of (expr * expr) list * expr list * string

let is_err (s : string) : bool =
  let s = String.trim s in
  let pre p = String.length s >= String.length p && String.sub s 0 (String.length p) = p in
  pre "EXN:" || pre "CRASH:" || pre "HANG"

let sect_of (s : string) : sect =
  if is_err s then Err (String.trim s)
  else match split_on " | " (s ^ " ") with
    | [a; b; c] -> if is_err c then BackErr (pairs_of a, exprs_of b, String.trim c) else Res (pairs_of a, exprs_of b, exprs_of c)
    | _ -> failwith "section"

let bits l = String.concat "" (List.map (fun b -> if b then "1" else "0") l)

let show_result (reps, red) : string =
  String.concat " ;; " (List.map (fun (s, r) -> norm s ^ " => " ^ norm r) reps) ^ " | " ^ String.concat " ;; " (List.map norm red)

let err_token (r : 'a res) : string =
  match r with
  | Ok _ -> "OK"
  | ErrFuel -> "FUEL"
  | ErrOOB (_, _) -> "CRASH:6"
  | ErrExn c ->
      let k = small_of_n c in
      if k = 97 then "UNMODELLED" else if k = 98 then "UNMODELLED" else if k = 96 then "INTERNAL"
      else if k >= 200 then "CRASH:" ^ string_of_int (k - 200) else "EXN:" ^ string_of_int k

let compare_model (m : ((expr * expr) list * expr list) res) (s : sect) : string =
  match m, s with
  | Ok (reps, red), (Res (lr, lred, _) | BackErr (lr, lred, _)) ->
      if show_result (reps, red) = show_result (lr, lred) then "OK" else "DIFF " ^ show_result (reps, red)
  | Ok (reps, red), Err t -> "DIFF " ^ show_result (reps, red) ^ " (library: " ^ t ^ ")"
  | _, _ ->
      let t = err_token m in
      if t = "UNMODELLED" || t = "FUEL" then t
      else (match s with
            | Err t' when t' = t -> "OK"
            | _ -> "DIFF " ^ t)

(* the library constructors, with the plain node where a function create() is outside the arithmetic model *)
let relaxed_ctors : ctors =
  let fb (r : expr res) (plain : expr) : expr res =
    match r with
    | ErrExn c when small_of_n c = 97 -> Ok plain
    | _ -> r in
  { lib_ctors with
    c_f1 = (fun c a -> fb (lib_ctors.c_f1 c a) (EF1 (c, a)));
    c_f2 = (fun c a b -> fb (lib_ctors.c_f2 c a b) (EF2 (c, a, b)));
    c_fn = (fun c l -> fb (lib_ctors.c_fn c l) (EFN (c, l))) }

(* opt_subs as a sorted list of "key => value" texts *)
let show_opt (m : (expr * expr) list) : string =
  String.concat " ;; " (List.sort compare (List.map (fun (k, v) -> norm k ^ " => " ^ norm v) m))

let compare_opt (m : (expr * expr) list res) (o : string) : string =
  match m with
  | Ok mm ->
      if is_err o || o = "MISSING" then "DIFF " ^ show_opt mm ^ " (library: " ^ o ^ ")"
      else if show_opt mm = show_opt (pairs_of o) then "OK" else "DIFF " ^ show_opt mm
  | _ ->
      let t = err_token m in
      if t = "UNMODELLED" || t = "FUEL" then t
      else if String.trim o = t then "OK" else "DIFF " ^ t

let check_sect (es : expr list) (s : sect) : string =
  match s with
  | Err _ -> "NA"
  | Res (reps, red, back) -> bits (check_cse_parts es reps red back)
  | BackErr (reps, red, _) -> bits (check_cse_parts es reps red [])

let backsubst_status (s : sect) : string =
  match s with
  | Res (reps, red, back) ->
      (match rep_names reps with
       | None -> "NA"
       | Some nr ->
           let rec go rs bs = match rs, bs with
             | [], [] -> "OK"
             | r :: rs', b :: bs' ->
                 (match backsubst lib_ctors nr r with
                  | Ok v -> if norm v = norm b then go rs' bs' else "DIFF " ^ norm v
                  | e -> let t = err_token e in if t = "UNMODELLED" || t = "FUEL" then t else "DIFF " ^ t)
             | _, _ -> "DIFF length" in
           go red back)
  | _ -> "NA"

let () =
  try
    while true do
      let line = input_line stdin in
      (try
        let fields = String.split_on_char '\t' line in
        let rec sec tag = function
          | t :: body :: _ when t = tag -> Some body
          | _ :: r -> sec tag r
          | [] -> None in
        match sec "E" fields with
        | None -> print_endline "SKIP"
        | Some e ->
            let es = exprs_of e in
            let c = match sec "C" fields with Some b -> sect_of b | None -> Err "MISSING" in
            let t = match sec "T" fields with Some b -> sect_of b | None -> Err "MISSING" in
            let o = match sec "O" fields with Some b -> b | None -> "MISSING" in
            let t0 = compare_model (tree_cse_lib [] es) t in
            let t0r = if t0 = "UNMODELLED" then compare_model (tree_cse relaxed_ctors [] es) t else "NA" in
            let t1 = if is_err o || o = "MISSING" then "NA" else compare_model (tree_cse_lib (pairs_of o) es) c in
            let op = compare_opt (opt_cse_lib es) o in
            let cs = compare_model (cse_lib es) c in
            Printf.printf "CHKC=%s\tCHKT=%s\tT0=%s\tT1=%s\tOP=%s\tCS=%s\tBS=%s\tWF=%s\tXC=%s\tGUARD=%s\tT0R=%s\n"
              (check_sect es c) (check_sect es t) t0 t1 op cs (backsubst_status c)
              (if List.for_all (fun x -> wf x && tree_ok x) es then "1" else "0")
              (match excl_complete_run es with Ok true -> "1" | Ok false -> "0" | _ -> "?")
              (if cse_guard es then "1" else "0") t0r
      with
      | Unsupported m -> print_endline ("UNSUPPORTED " ^ m)
      | Failure m -> print_endline ("FAIL " ^ m)
      | Stack_overflow -> print_endline "FAIL stack overflow")
    done
  with End_of_file -> ()
