(* Reader/printer around the extracted C38 model.
   input : one case per line:   R <max_deriv> <around> <g0> <g1> ...
           (rationals written  p  or  p/q, decimal, any size; a grid may be empty)
   output: W:<w0>,<w1>,...   weights in storage order (index j + k*len_g), each  p | p/q | zoo | nan
           or OOB:<idx>:<len> when the code leaves one of its arrays *)
open Fdiff_model

let rec pos_of_int (n : int) : positive =
  if n = 1 then XH else if n land 1 = 0 then XO (pos_of_int (n lsr 1)) else XI (pos_of_int (n lsr 1))
let z_of_int (n : int) : z = if n = 0 then Z0 else if n > 0 then Zpos (pos_of_int n) else Zneg (pos_of_int (-n))
let n_of_int (n : int) : n = if n = 0 then N0 else Npos (pos_of_int n)
let rec int_of_pos = function XH -> 1 | XO p -> 2 * int_of_pos p | XI p -> 2 * int_of_pos p + 1
let int_of_z = function Z0 -> 0 | Zpos p -> int_of_pos p | Zneg p -> - (int_of_pos p)
let int_of_n = function N0 -> 0 | Npos p -> int_of_pos p

let z10 = z_of_int 10

(* arbitrary-size decimal <-> z, through the extracted arithmetic *)
let z_of_string (s : string) : z =
  let neg = String.length s > 0 && s.[0] = '-' in
  let acc = ref Z0 in
  String.iteri (fun i c ->
      if i = 0 && (c = '-' || c = '+') then ()
      else if c >= '0' && c <= '9' then
        acc := Z.add (Z.mul !acc z10) (z_of_int (Char.code c - 48))
      else failwith ("bad number " ^ s)) s;
  if neg then Z.opp !acc else !acc

let string_of_z (x : z) : string =
  let neg, a = (match x with Zneg p -> true, Zpos p | _ -> false, x) in
  let rec go a acc =
    match a with
    | Z0 -> acc
    | _ -> let (q, r) = Z.div_eucl a z10 in go q (string_of_int (int_of_z r) ^ acc)
  in
  let s = (match a with Z0 -> "0" | _ -> go a "") in
  if neg then "-" ^ s else s

let n_of_string (s : string) : n =
  match z_of_string s with Z0 -> N0 | Zpos p -> Npos p | Zneg _ -> failwith "negative"

let qc_of_string (s : string) : qc =
  match String.index_opt s '/' with
  | None -> qc_make (z_of_string s) XH
  | Some i ->
      let a = z_of_string (String.sub s 0 i) in
      let b = z_of_string (String.sub s (i + 1) (String.length s - i - 1)) in
      (match b with
       | Zpos p -> qc_make a p
       | Zneg p -> qc_make (Z.opp a) p
       | Z0 -> failwith "zero denominator")

let string_of_qc (q : qc) : string =
  let n = qc_num q and d = qc_den q in
  match d with
  | XH -> string_of_z n
  | _ -> string_of_z n ^ "/" ^ string_of_z (Zpos d)

let show_val = function
  | VQ q -> string_of_qc q
  | VZoo -> "zoo"
  | VNan -> "nan"

let show_res = function
  | Ok l -> "W:" ^ String.concat "," (List.map show_val l)
  | ErrOOB (i, l) -> Printf.sprintf "OOB:%s:%s" (string_of_z (Z.of_N i)) (string_of_z (Z.of_N l))
  | ErrFuel -> "FUEL"
  | ErrExn c -> Printf.sprintf "EXN:%d" (int_of_n c)

let run_line (line : string) : string =
  let toks = List.filter (fun s -> s <> "") (String.split_on_char ' ' line) in
  match toks with
  | "R" :: md :: around :: grid ->
      show_res (fdiff (List.map qc_of_string grid) (n_of_string md) (qc_of_string around))
  | _ -> "BADCASE"

let () =
  try
    while true do
      let line = input_line stdin in
      print_endline (try run_line line with Failure m -> "BADCASE:" ^ m)
    done
  with End_of_file -> ()
