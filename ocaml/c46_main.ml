(* Reader/printer around the extracted C46 model.
   input : one case per line, integers separated by blanks; either
             M q n  t_1 .. t_q  b_11 .. b_nq      (unit level: is_minimum / order on vectors of width q;
                                                   output m:<0|1>;o:<one digit per k < n>)
           or
             p q box n0  a_11 .. a_1q  ...  a_p1 .. a_pq   [ w x_1 .. x_w ]*n0
           p x q matrix A (row major); box = bound of the brute-force comparison box;
           n0 rows (width w, then the entries) that `basis` holds on entry.
   output: B:<v>|<v>|...          the returned basis, in the order returned (v = x1,x2,...)
           or OOB:<idx>:<len> / FUEL / EXN:<c>
           then, when n0 = 0 and the result is a basis, a tab and
           H:<sorted minimal solutions inside [0,box]^q, by brute force>  tab
           M:<one digit per returned vector: 1 = minimal solution by brute force below it, 0 = not, ? = too large to enumerate> *)
open Lde_model

let rec pos_of_int (n : int) : positive =
  if n = 1 then XH else if n land 1 = 0 then XO (pos_of_int (n lsr 1)) else XI (pos_of_int (n lsr 1))
let z_of_int (n : int) : z = if n = 0 then Z0 else if n > 0 then Zpos (pos_of_int n) else Zneg (pos_of_int (-n))
let rec int_of_pos = function XH -> 1 | XO p -> 2 * int_of_pos p | XI p -> 2 * int_of_pos p + 1
let int_of_z = function Z0 -> 0 | Zpos p -> int_of_pos p | Zneg p -> - (int_of_pos p)
let int_of_n = function N0 -> 0 | Npos p -> int_of_pos p
let rec nat_of_int (n : int) : nat = let rec go k acc = if k = 0 then acc else go (k - 1) (S acc) in go n O

let fuel = nat_of_int 400000
let below_limit = 20000

let show_vec v = String.concat "," (List.map (fun x -> string_of_int (int_of_z x)) v)
let show_basis b = String.concat "|" (List.map show_vec b)

let rec take k l = if k = 0 then ([], l) else match l with [] -> failwith "short line" | x :: r -> let (a, b) = take (k - 1) r in (x :: a, b)

let volume v = List.fold_left (fun acc x -> if acc > below_limit then acc else acc * (int_of_z x + 1)) 1 v

let show_bool_res = function
  | Ok true -> "1" | Ok false -> "0"
  | ErrOOB (i, l) -> Printf.sprintf "OOB:%d:%d" (int_of_n i) (int_of_n l)
  | ErrFuel -> "FUEL" | ErrExn c -> Printf.sprintf "EXN:%d" (int_of_n c)

(* M q n  t_1 .. t_q  b_11 .. b_nq : is_minimum(t, basis, n) and order(t, basis, k) for k < n *)
let process_min (ints : int list) : string =
  match ints with
  | q :: n :: rest ->
      let (t, rest) = take q rest in
      let rec rows k l = if k = 0 then [] else let (r, l') = take q l in r :: rows (k - 1) l' in
      let b = List.map (List.map z_of_int) (rows n rest) in
      let t = List.map z_of_int t in
      let m = show_bool_res (is_minimum t b (nat_of_int n)) in
      let o = String.concat "" (List.init n (fun k -> show_bool_res (order t b (nat_of_int k)))) in
      "m:" ^ m ^ ";o:" ^ o
  | _ -> "BADLINE"

let process (line : string) : string =
  let toks = List.filter (fun s -> s <> "") (String.split_on_char ' ' (String.trim line)) in
  if toks <> [] && List.hd toks = "M" then process_min (List.map int_of_string (List.tl toks)) else
  let ints = List.map int_of_string toks in
  match ints with
  | p :: q :: bx :: n0 :: rest ->
      let rec rows k l = if k = 0 then ([], l) else let (r, l') = take q l in let (rs, l'') = rows (k - 1) l' in (r :: rs, l'') in
      let (a, rest) = rows p rest in
      let rec brows k l = if k = 0 then [] else match l with
        | w :: l' -> let (r, l'') = take w l' in r :: brows (k - 1) l''
        | [] -> failwith "short line" in
      let b0 = brows n0 rest in
      let zm = List.map (List.map z_of_int) in
      let m = { m_p = nat_of_int p; m_q = nat_of_int q; m_rows = zm a } in
      (match lde_from fuel m (zm b0) with
       | Ok b ->
           let main = "B:" ^ show_basis b in
           if n0 <> 0 then main
           else begin
             let h = hilbert_box m (nat_of_int bx) in
             let hs = List.sort compare (List.map (List.map int_of_z) h) in
             let hstr = String.concat "|" (List.map (fun v -> String.concat "," (List.map string_of_int v)) hs) in
             let flags = String.concat "" (List.map (fun v ->
               if volume v > below_limit then "?" else if is_minimal_sol m v then "1" else "0") b) in
             main ^ "\tH:" ^ hstr ^ "\tM:" ^ flags
           end
       | ErrOOB (i, l) -> Printf.sprintf "OOB:%d:%d" (int_of_n i) (int_of_n l)
       | ErrFuel -> "FUEL"
       | ErrExn c -> Printf.sprintf "EXN:%d" (int_of_n c))
  | _ -> "BADLINE"

let () =
  try
    while true do
      let line = input_line stdin in
      print_endline (try process line with Failure s -> "BADLINE:" ^ s)
    done
  with End_of_file -> ()
