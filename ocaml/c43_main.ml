(* Reader/printer around the extracted C43 model (coq/C43/MpModel.v).
   input : one operation per line (same lines as harness/c43_driver.cpp)
   output: one canonical result line per input line; operations that are not modelled print "-" *)
open Mp_model

(* ---------- decimal strings <-> the extracted binary Z (independent of the extracted arithmetic) ---------- *)
(* little-endian base-10^9 limbs *)
let base = 1000000000

let limbs_of_decimal (s : string) : int array =
  let len = String.length s in
  let n = (len + 8) / 9 in
  Array.init n (fun k ->
      let hi = len - 9 * k in
      let lo = max 0 (hi - 9) in
      int_of_string (String.sub s lo (hi - lo)))

(* divide the limb array in place by 2^30 (top -> bottom), return the remainder *)
let divmod_2p30 (a : int array) (top : int ref) : int =
  let r = ref 0 in
  for k = !top - 1 downto 0 do
    let cur = (!r * base) + a.(k) in
    a.(k) <- cur lsr 30;
    r := cur land ((1 lsl 30) - 1)
  done;
  while !top > 0 && a.(!top - 1) = 0 do decr top done;
  !r

(* bits, least significant first, of a non-negative decimal string *)
let bits_of_decimal (s : string) : bool list =
  let a = limbs_of_decimal s in
  let top = ref (Array.length a) in
  while !top > 0 && a.(!top - 1) = 0 do decr top done;
  let chunks = ref [] in
  while !top > 0 do
    chunks := divmod_2p30 a top :: !chunks
  done;
  (* !chunks: most significant chunk first *)
  let bits = ref [] in
  (* build least significant first: iterate chunks from most significant, prepend *)
  List.iter
    (fun c ->
      let l = ref [] in
      for b = 29 downto 0 do
        l := ((c lsr b) land 1 = 1) :: !l
      done;
      (* !l is lsb first for this chunk *)
      bits := !l @ !bits)
    !chunks;
  !bits

let rec pos_of_bits (l : bool list) : positive option =
  (* lsb first; drops leading (most significant) zeros *)
  match l with
  | [] -> None
  | b :: tl -> (
      match pos_of_bits tl with
      | None -> if b then Some XH else None
      | Some p -> Some (if b then XI p else XO p))

let z_of_string (s : string) : z =
  let neg = String.length s > 0 && s.[0] = '-' in
  let digits = if neg then String.sub s 1 (String.length s - 1) else s in
  match pos_of_bits (bits_of_decimal digits) with
  | None -> Z0
  | Some p -> if neg then Zneg p else Zpos p

let string_of_pos (p : positive) : string =
  (* collect bits msb first, then Horner in base 10^9 *)
  let rec bits acc = function XH -> true :: acc | XO q -> bits (false :: acc) q | XI q -> bits (true :: acc) q in
  let msb_first = bits [] p in
  let nb = List.length msb_first in
  let a = Array.make ((nb / 29) + 2) 0 in
  let top = ref 1 in
  List.iter
    (fun b ->
      let carry = ref (if b then 1 else 0) in
      for k = 0 to !top - 1 do
        let cur = (a.(k) * 2) + !carry in
        if cur >= base then (a.(k) <- cur - base; carry := 1) else (a.(k) <- cur; carry := 0)
      done;
      if !carry > 0 then (a.(!top) <- !carry; incr top))
    msb_first;
  let buf = Buffer.create (9 * !top) in
  Buffer.add_string buf (string_of_int a.(!top - 1));
  for k = !top - 2 downto 0 do
    Buffer.add_string buf (Printf.sprintf "%09d" a.(k))
  done;
  Buffer.contents buf

let string_of_z = function Z0 -> "0" | Zpos p -> string_of_pos p | Zneg p -> "-" ^ string_of_pos p
let n_of_string (s : string) : n = match z_of_string s with Zpos p -> Npos p | _ -> N0
let string_of_n = function N0 -> "0" | Npos p -> string_of_pos p

(* ---------- results ---------- *)
let show_res (f : 'a -> string) (r : 'a res) : string =
  match r with
  | Ok a -> f a
  | ErrOOB (_, _) -> "OOB"
  | ErrFuel -> "FUEL"
  | ErrExn c -> "EXN:" ^ string_of_n c

let pair (q, r) = string_of_z q ^ " " ^ string_of_z r
let b01 b = if b then "1" else "0"

let run (line : string) : string =
  let t = List.filter (fun s -> s <> "") (String.split_on_char ' ' (String.trim line)) in
  let zz k = z_of_string (List.nth t k) in
  let nn k = n_of_string (List.nth t k) in
  match t with
  | [] -> "EMPTY"
  | op :: _ -> (
      match op with
      | "fdiv" -> show_res pair (mp_fdiv_qr (zz 1) (zz 2))
      | "cdiv" -> show_res pair (mp_cdiv_qr (zz 1) (zz 2))
      | "tdiv" -> show_res pair (mp_tdiv_qr (zz 1) (zz 2))
      | "gcdext" ->
          show_res (fun ((g, s), t) -> string_of_z g ^ " " ^ string_of_z s ^ " " ^ string_of_z t) (mp_gcdext (zz 1) (zz 2))
      | "gcd" -> string_of_z (Z.gcd (zz 1) (zz 2))
      | "lcm" -> string_of_z (Z.lcm (zz 1) (zz 2))
      | "invert" -> show_res (function None -> "0" | Some r -> "1 " ^ string_of_z r) (mp_invert (zz 1) (zz 2))
      | "powm" -> show_res string_of_z (mp_powm (zz 1) (zz 2) (zz 3))
      | "powui" -> string_of_z (zpow (zz 1) (zz 2))
      | "root" -> show_res (fun (r, e) -> b01 e ^ " " ^ string_of_z r) (mp_root (zz 1) (zz 2))
      | "rootrem" -> show_res pair (mp_rootrem (zz 1) (zz 2))
      | "sqrt" -> show_res string_of_z (mp_sqrt (zz 1))
      | "sqrtrem" -> show_res pair (mp_sqrtrem (zz 1))
      | "scan1" -> string_of_n (mp_scan1 (zz 1))
      | "fib" -> string_of_z (mp_fib_ui (nn 1))
      | "fib2" -> pair (mp_fib2_ui (nn 1))
      | "luc" -> string_of_z (mp_lucnum_ui (nn 1))
      | "luc2" -> pair (mp_lucnum2_ui (nn 1))
      | "fac" -> string_of_z (mp_fac_ui (nn 1))
      | "bin" -> string_of_z (mp_bin_ui (zz 1) (nn 2))
      | "ppow" -> show_res b01 (mp_perfect_power_p mr_det (zz 1))
      | "psq" -> show_res b01 (mp_perfect_square_p (zz 1))
      | "legendre" -> show_res string_of_z (mp_legendre (zz 1) (zz 2))
      | "jacobi" -> show_res string_of_z (mp_jacobi (zz 1) (zz 2))
      | "kronecker" -> show_res string_of_z (mp_kronecker (zz 1) (zz 2))
      | "nextprime" -> show_res string_of_z (mp_nextprime mr_det (zz 1))
      | "isprime" -> show_res b01 (mp_probab_prime_p mr_det (zz 1))
      | "divisible" -> b01 (mp_divisible_p (zz 1) (zz 2))
      | _ -> "-")

let () =
  try
    while true do
      let line = input_line stdin in
      let out = try run line with Failure m -> "MODELFAIL:" ^ m | Not_found -> "MODELFAIL" | Invalid_argument m -> "MODELFAIL:" ^ m in
      print_string out;
      print_newline ()
    done
  with End_of_file -> ()
