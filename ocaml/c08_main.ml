(* C08 model side: reads the text the driver prints before "\t=>\t" (family, function, dumps of
   the arguments) and prints the text the driver prints after it.  Trusted: this reader/printer,
   in particular [dsort], the mirror of harness/dump.h's dump_sorted. *)
open Semodel
open Expr_io

let string_of_bytes (l : n list) : string =
  String.concat "" (List.map (fun b -> String.make 1 (Char.chr (small_of_n b))) l)
let hexname (l : n list) : string =
  "x" ^ String.concat "" (List.map (fun b -> Printf.sprintf "%02x" (small_of_n b)) l)

(* 64-bit pattern as 16 hex digits *)
let hex16 (x : n) : string =
  let rec bits p = match p with XH -> [1] | XO q -> 0 :: bits q | XI q -> 1 :: bits q in
  let bl = match x with N0 -> [] | Npos p -> bits p in     (* little endian *)
  let arr = Array.make 64 0 in
  List.iteri (fun i b -> if i < 64 then arr.(i) <- b) bl;
  let s = Bytes.make 16 '0' in
  for d = 0 to 15 do
    let v = arr.(4*d) + 2*arr.(4*d+1) + 4*arr.(4*d+2) + 8*arr.(4*d+3) in
    Bytes.set s (15 - d) "0123456789abcdef".[v]
  done;
  Bytes.to_string s

let dec_of_pos (p : positive) : string = dec_of_n (Npos p)

let dump_num (x : number) : string =
  match x with
  | NInt z -> "(I " ^ dec_of_z z ^ ")"
  | NRat (p, q) -> "(Q " ^ dec_of_z p ^ " " ^ dec_of_pos q ^ ")"
  | NCplx (a, b, c, d) -> "(C " ^ dec_of_z a ^ " " ^ dec_of_pos b ^ " " ^ dec_of_z c ^ " " ^ dec_of_pos d ^ ")"
  | NDbl b -> "(D " ^ hex16 b ^ ")"
  | NCDbl (a, b) -> "(CD " ^ hex16 a ^ " " ^ hex16 b ^ ")"
  | NInf d -> "(Inf " ^ dec_of_z d ^ ")"
  | NNaN -> "(NaN)"

let class_name (c : n) : string =
  match tc_name_of c with Some nm -> string_of_bytes nm | None -> raise (Unsupported "type code")

(* mirror of verif::dump_sorted *)
let rec dsort (e : expr) : string =
  match e with
  | ENum x -> dump_num x
  | ESym nm -> "(Sym " ^ hexname nm ^ ")"
  | EConst nm -> "(Const " ^ hexname nm ^ ")"
  | EBool b -> "(Bool " ^ (if b then "1" else "0") ^ ")"
  | EAdd (c, d) ->
      let items = List.sort compare (List.map (fun (k, v) -> "(" ^ dsort k ^ " " ^ dump_num v ^ ")") d) in
      "(Add " ^ dump_num c ^ String.concat "" (List.map (fun s -> " " ^ s) items) ^ ")"
  | EMul (c, d) ->
      let items = List.sort compare (List.map (fun (k, v) -> "(" ^ dsort k ^ " " ^ dsort v ^ ")") d) in
      "(Mul " ^ dump_num c ^ String.concat "" (List.map (fun s -> " " ^ s) items) ^ ")"
  | EPow (b, x) -> "(Pow " ^ dsort b ^ " " ^ dsort x ^ ")"
  | EF1 (c, a) -> "(G " ^ class_name c ^ " " ^ dsort a ^ ")"
  | EF2 (c, a, b) -> "(G " ^ class_name c ^ " " ^ dsort a ^ " " ^ dsort b ^ ")"
  | EFN (c, args) -> "(G " ^ class_name c ^ String.concat "" (List.map (fun a -> " " ^ dsort a) args) ^ ")"
  | EFunSym (nm, args) ->
      "(G FunctionSymbol:" ^ hexname nm ^ String.concat "" (List.map (fun a -> " " ^ dsort a) args) ^ ")"
  | EDummy _ -> "(G Dummy)"
  | _ -> raise (Unsupported "dsort")

let lin_text (l : lin) : string =
  let items = List.sort compare (List.map (fun (k, v) -> dsort k ^ " " ^ dump_num v) l.lterms) in
  "[" ^ dump_num l.lcoef ^ String.concat "" (List.map (fun s -> " | " ^ s) items) ^ "]"

let fname (f : trigfn) : string =
  match f with FSin -> "sin" | FCos -> "cos" | FTan -> "tan" | FCot -> "cot" | FSec -> "sec" | FCsc -> "csc"
let f_of_name (s : string) : trigfn =
  match s with
  | "sin" -> FSin | "cos" -> FCos | "tan" -> FTan | "cot" -> FCot | "sec" -> FSec | "csc" -> FCsc
  | _ -> failwith "trig name"

let z_str (z : z) = dec_of_z z

(* the driver's classification of a (sign, core) pair *)
let classify (s : z) (core : expr) : string =
  match core with
  | EF1 (c, a) when trig_of_code c <> None ->
      (match trig_of_code c with
       | Some f -> "FUN " ^ z_str s ^ " " ^ fname f ^ " " ^ lin_text (lin_of_expr a)
       | None -> assert false)
  | EPow (b, ENum (NInt (Zneg XH))) -> "RECIP " ^ z_str s ^ " " ^ dsort b
  | _ -> "VAL " ^ z_str s ^ " " ^ dsort core

let res_text (f : trigfn) (r : tres) : string =
  match r with
  | RVal _ -> "TAB 1 " ^ fname f ^ " 0"
  | RArg (sg, _, a) -> let (s, core) = signed_expr sg a in classify s core
  | RRecip (sg, _, a) ->
      (match a with
       | ENum _ | EMul _ | EPow _ -> "UNSUPPORTED"
       | _ -> "RECIP " ^ z_str sg ^ " " ^ dsort a)
  | RTab (s, g, i) -> "TAB " ^ z_str s ^ " " ^ fname g ^ " " ^ z_str i
  | RFun (s, g, l) -> "FUN " ^ z_str s ^ " " ^ fname g ^ " " ^ lin_text l
  | RUninit -> "UNINIT"
  | RNumeric -> "NUMERIC"
  | RUnsupported -> "UNSUPPORTED"
  | RFuel -> "FUEL"

let opt_num (o : number option) : string =
  match o with Some x -> dump_num x | None -> "UNSUPPORTED"

let xnum_of (x : number) : xnum =
  match x with
  | NInt _ | NRat _ -> (match num_as_q x with Some q -> XQ q | None -> raise (Unsupported "xnum"))
  | NCplx _ -> XCplx
  | NInf (Zpos XH) -> XInf
  | NInf (Zneg XH) -> XNegInf
  | _ -> raise (Unsupported "xnum")
let xnum_text (x : xnum) : string =
  match x with
  | XQ q -> dump_num (num_of_q q)
  | XInf -> "(Inf 1)"
  | XNegInf -> "(Inf -1)"
  | XCplx -> "UNSUPPORTED"
let fold_text (r : foldres) : string =
  match r with FoldOk x -> xnum_text x | FoldThrow -> "EXN:6" | FoldEmpty -> "EXN:6"

let nums_of (s : string) : number list =
  List.map (fun t -> number_of_sexp (parse_sexp (String.trim t)))
    (List.filter (fun t -> String.trim t <> "") (split_on " ;; " s))

let split1 (s : string) : string * string =
  match String.index_opt s ' ' with
  | Some i -> (String.sub s 0 i, String.sub s (i + 1) (String.length s - i - 1))
  | None -> (s, "")

let q_of_num (x : number) : q =
  match num_as_q x with Some q -> q | None -> raise (Unsupported "rational expected")

let handle (line : string) : string =
  let (fam, rest) = split1 line in
  match fam with
  | "T" ->
      let (fn, d) = split1 rest in
      let f = f_of_name fn in
      let e = expr_of_string d in
      let part1 =
        match trig_simplify_top f e with
        | Some ts ->
            "rarg=" ^ lin_text ts.ts_rarg ^ " idx=" ^ (match ts.ts_index with Some i -> z_str i | None -> "_")
            ^ " sign=" ^ z_str ts.ts_sign ^ " conj=" ^ (if ts.ts_conj then "1" else "0")
        | None -> "UNSUPPORTED" in
      part1 ^ " ;; " ^ res_text f (ctor_top f e)
  | "N" ->
      let (op, d) = split1 rest in
      let x = number_of_sexp (parse_sexp d) in
      (match op with
       | "floor" -> opt_num (floor_num x)
       | "ceiling" -> opt_num (ceiling_num x)
       | "truncate" -> opt_num (truncate_num x)
       | "sign" ->
           (match sign_num x with
            | Some (SgNum y) -> dump_num y
            | Some (SgSignOf y) -> "(F1 Sign " ^ dump_num y ^ ")"
            | None -> "UNSUPPORTED")
       | "abs" ->
           (match abs_num x with
            | Some (AbsNum y) -> dump_num y
            | Some (AbsSqrt q) -> "SQRT " ^ dump_num (num_of_q q)
            | None -> "UNSUPPORTED")
       | _ -> "UNSUPPORTED")
  | "MX" ->
      let (op, d) = split1 rest in
      let xs = List.map xnum_of (nums_of d) in
      (match op with
       | "max" -> fold_text (max_fold xs)
       | "min" -> fold_text (min_fold xs)
       | _ -> "UNSUPPORTED")
  | "KD" ->
      (match nums_of rest with
       | [(NInt _ | NRat _) as a; (NInt _ | NRat _) as b] ->
           "(I " ^ z_str (kronecker_q (q_of_num a) (q_of_num b)) ^ ")"
       | _ -> "UNSUPPORTED")
  | "LC" ->
      let qs = List.map q_of_num (nums_of rest) in
      dump_num (num_of_q (levi_eval qs))
  | "G" ->
      (match number_of_sexp (parse_sexp rest) with
       | NInt z -> (match gamma_int z with Some v -> "(I " ^ z_str v ^ ")" | None -> "(Inf 0)")
       | NRat (p, XO XH) -> "SQRTPI " ^ dump_num (num_of_q (gamma_half p))
       | _ -> "UNSUPPORTED")
  | "PP" ->
      (match number_of_sexp (parse_sexp rest) with
       | NInt z ->
           (match primepi_int z with
            | PPOk k -> "(I " ^ z_str k ^ ")"
            | PPTooLarge -> "EXN:1"
            | PPOverflow -> "EXN:6")
       | _ -> "UNSUPPORTED")
  | "PR" ->
      (match number_of_sexp (parse_sexp rest) with
       | NInt z -> (match primorial_int z with Some v -> "(I " ^ z_str v ^ ")" | None -> "EXN:6")
       | _ -> "UNSUPPORTED")
  | _ -> "UNSUPPORTED"

let () =
  try
    while true do
      let line = input_line stdin in
      (try print_endline (handle line) with
       | Unsupported m -> print_endline ("UNSUPPORTED " ^ m)
       | Failure m -> print_endline ("FAIL " ^ m)
       | Not_found -> print_endline "FAIL not_found")
    done
  with End_of_file -> ()
