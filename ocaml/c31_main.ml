(* Reader/printer around the extracted C31 model.
   input : one case per line
     A <op> <prec> <n> <poly> <poly>     primitive on explicit series polynomials
                                         poly = k:num/den,k:num/den,...  or  -  (empty)
     B <prec> <dump of the expression>   series(f, x, prec) through the visitor model
   output: P k:num/den ... | EXN:<code> | SCOPE:<code> | OOB | FUEL | UNSUPPORTED *)
open Semodel
open Expr_io

let parse_q (s : string) : q =
  match String.split_on_char '/' s with
  | [a; b] -> { qnum = z_of_dec a; qden = pos_of_dec b }
  | [a] -> { qnum = z_of_dec a; qden = XH }
  | _ -> failwith "rational"

let parse_poly (s : string) : (z * q) list =
  if s = "-" then []
  else List.map (fun t ->
      match String.index_opt t ':' with
      | Some i -> (z_of_dec (String.sub t 0 i), parse_q (String.sub t (i + 1) (String.length t - i - 1)))
      | None -> failwith "term") (String.split_on_char ',' s)

let show_q (v : q) : string =
  let v = qred v in dec_of_z v.qnum ^ "/" ^ dec_of_n (Npos v.qden)

let show_poly (p : (z * q) list) : string =
  "P" ^ String.concat "" (List.map (fun (k, v) -> " " ^ dec_of_z k ^ ":" ^ show_q v) p)

let show_res (r : (z * q) list res) : string =
  match r with
  | Ok p -> show_poly p
  | ErrOOB (_, _) -> "OOB"
  | ErrFuel -> "FUEL"
  | ErrExn c ->
      let k = small_of_n c in
      if k >= 90 then Printf.sprintf "SCOPE:%d" k else Printf.sprintf "EXN:%d" k

let run_a (op : string) (prec : n) (nn : z) (a : (z * q) list) (b : (z * q) list) : string =
  let r = match op with
    | "mul" -> Ok (pmul a b prec)
    | "pow" -> ppow a nn prec
    | "diff" -> Ok (pdiff a)
    | "integrate" -> pintegrate a
    | "subs" -> psubs a b prec
    | "add" -> Ok (padd a b)
    | "sub" -> Ok (psub a b)
    | "mulfull" -> Ok (pmul_full a b)
    | "mulassign" -> Ok (pmul_assign a b)
    | "invert" -> series_invert a prec
    | "reverse" -> series_reverse a prec
    | "nthroot" -> series_nthroot a nn prec
    | "atan" -> series_atan a prec
    | "tan" -> series_tan a prec
    | "cot" -> series_cot a prec
    | "sin" -> series_sin a prec
    | "cos" -> series_cos a prec
    | "csc" -> series_csc a prec
    | "sec" -> series_sec a prec
    | "asin" -> series_asin a prec
    | "acos" -> series_acos a prec
    | "log" -> series_log a prec
    | "exp" -> series_exp a prec
    | "lambertw" -> series_lambertw a prec
    | "sinh" -> series_sinh a prec
    | "cosh" -> series_cosh a prec
    | "atanh" -> series_atanh a prec
    | "asinh" -> series_asinh a prec
    | "tanh" -> series_tanh a prec
    | "steps" -> Ok (List.mapi (fun i s -> (z_of_dec (string_of_int i), { qnum = z_of_dec (dec_of_n s); qden = XH })) (step_list prec))
    | _ -> failwith ("unknown op " ^ op) in
  show_res r

let run_line (line : string) : string =
  if String.length line < 2 then "BADLINE"
  else if line.[0] = 'A' then
    match String.split_on_char ' ' line with
    | [_; op; prec; nn; a; b] -> run_a op (n_of_dec prec) (z_of_dec nn) (parse_poly a) (parse_poly b)
    | _ -> "BADLINE"
  else if line.[0] = 'B' then begin
    let rest = String.sub line 2 (String.length line - 2) in
    match String.index_opt rest ' ' with
    | None -> "BADLINE"
    | Some i ->
        let prec = n_of_dec (String.sub rest 0 i) in
        let dump = String.sub rest (i + 1) (String.length rest - i - 1) in
        (try show_res (series_top (expr_of_string dump) prec)
         with Unsupported _ -> "UNSUPPORTED")
  end else "BADLINE"

let () =
  try
    while true do
      let line = input_line stdin in
      print_endline (try run_line line with Failure m -> "FAIL:" ^ m | Not_found -> "FAIL:notfound")
    done
  with End_of_file -> ()
