(* Reader/printer around the extracted C25 model (coq/C25/CsrModel.v, Gaussian-integer entries).
   input : one program per line; commands separated by the token ";" (see checks/C25.py)
   output: one field per command joined by ";" -- the run stops at the first error field
     M:<r>x<c>|p,..|j,..|x,..   a matrix (its three arrays)      V:<elt>   an element
     B:0|1                      a boolean                        L:<elt>,..  a list of elements
     OOB:<idx>:<len> | FUEL | EXN:<n>                            errors
   an element a + b*I prints as "a" when b = 0 and as "a_b" otherwise. *)
open Csr_model

(* ---- numbers ---- *)
let rec pos_of_int (n : int) : positive =
  if n = 1 then XH else if n land 1 = 0 then XO (pos_of_int (n lsr 1)) else XI (pos_of_int (n lsr 1))
let n_of_int (n : int) : n = if n = 0 then N0 else Npos (pos_of_int n)
let rec int_of_pos = function XH -> 1 | XO p -> 2 * int_of_pos p | XI p -> 2 * int_of_pos p + 1
let int_of_n = function N0 -> 0 | Npos p -> int_of_pos p

(* decimal printing of arbitrary positives: digits little-endian, double and add *)
let dec_double_add (d : int list) (bit : int) : int list =
  let rec go carry = function
    | [] -> if carry = 0 then [] else [carry]
    | x :: r -> let v = 2 * x + carry in (v mod 10) :: go (v / 10) r in
  go bit d
let rec bits_msb_first (p : positive) (acc : int list) : int list =
  match p with XH -> 1 :: acc | XO q -> bits_msb_first q (0 :: acc) | XI q -> bits_msb_first q (1 :: acc)
let string_of_pos (p : positive) : string =
  let digits = List.fold_left dec_double_add [] (bits_msb_first p []) in
  String.concat "" (List.rev_map string_of_int digits)
let string_of_z = function Z0 -> "0" | Zpos p -> string_of_pos p | Zneg p -> "-" ^ string_of_pos p
let string_of_nn = function N0 -> "0" | Npos p -> string_of_pos p

let z_of_int (k : int) : z = if k = 0 then Z0 else if k > 0 then Zpos (pos_of_int k) else Zneg (pos_of_int (-k))
let z_of_string (s : string) : z =
  let neg = String.length s > 0 && s.[0] = '-' in
  let body = if neg then String.sub s 1 (String.length s - 1) else s in
  let ten = z_of_int 10 in
  let v = ref Z0 in
  String.iter (fun ch -> v := Z.add (Z.mul !v ten) (z_of_int (Char.code ch - 48))) body;
  if neg then Z.opp !v else !v

let elt_of_string (s : string) : z * z =
  match String.index_opt s '_' with
  | None -> (z_of_string s, Z0)
  | Some k -> (z_of_string (String.sub s 0 k), z_of_string (String.sub s (k + 1) (String.length s - k - 1)))
let string_of_elt ((a, b) : z * z) : string =
  match b with Z0 -> string_of_z a | _ -> string_of_z a ^ "_" ^ string_of_z b

(* ---- printing ---- *)
let show_mat (m : (z * z) csr) : string =
  Printf.sprintf "M:%sx%s|%s|%s|%s" (string_of_nn m.crow) (string_of_nn m.ccol)
    (String.concat "," (List.map string_of_nn m.cp))
    (String.concat "," (List.map string_of_nn m.cj))
    (String.concat "," (List.map string_of_elt m.cx))
let show_err : 'a. 'a res -> string = function
  | Ok _ -> "?"
  | ErrOOB (i, l) -> Printf.sprintf "OOB:%s:%s" (string_of_nn i) (string_of_nn l)
  | ErrFuel -> "FUEL"
  | ErrExn c -> Printf.sprintf "EXN:%s" (string_of_nn c)

exception Stop of string   (* an error field ends the line *)
let ok (r : 'a res) : 'a = match r with Ok a -> a | e -> raise (Stop (show_err e))

(* ---- the register machine ---- *)
let o = gi_ops
let nn s = n_of_int (int_of_string s)

let run_line (line : string) : string =
  let toks = Array.of_list (List.filter (fun s -> s <> "") (String.split_on_char ' ' line)) in
  let pos = ref 0 in
  let next () = let t = toks.(!pos) in incr pos; t in
  let nextn () = nn (next ()) in
  let take k = List.init k (fun _ -> next ()) in
  let regs : (string, (z * z) csr) Hashtbl.t = Hashtbl.create 8 in
  let reg r = try Hashtbl.find regs r with Not_found -> raise (Stop "NOREG") in
  let out = ref [] in
  let emit s = out := s :: !out in
  let setreg r m = Hashtbl.replace regs r m; emit (show_mat m) in
  (try
     while !pos < Array.length toks do
       let c = next () in
       (match c with
        | ";" -> ()
        | "zero" -> let r = next () in let a = nextn () in let b = nextn () in setreg r (mk_zero a b)
        | "raw" ->
            let r = next () in let a = nextn () in let b = nextn () in
            let np = int_of_string (next ()) in let p = List.map nn (take np) in
            let nj = int_of_string (next ()) in let j = List.map nn (take nj) in
            let nx = int_of_string (next ()) in let x = List.map elt_of_string (take nx) in
            setreg r { cp = p; cj = j; cx = x; crow = a; ccol = b }
        | "coo" ->
            let r = next () in let a = nextn () in let b = nextn () in
            let k = int_of_string (next ()) in
            let is = List.map nn (take k) in let js = List.map nn (take k) in
            let xs = List.map elt_of_string (take k) in
            setreg r (ok (from_coo o a b is js xs))
        | "set" ->
            let r = next () in let i = nextn () in let j = nextn () in let v = elt_of_string (next ()) in
            (match ok (hstep o (reg r) (HSet (i, j, v))) with
             | (m', _) -> setreg r m')
        | "get" ->
            let r = next () in let i = nextn () in let j = nextn () in
            (match ok (hstep o (reg r) (HGet (i, j))) with
             | (_, HVal v) -> emit ("V:" ^ string_of_elt v)
             | (_, HMat _) -> emit "?")
        | "canon" -> let r = next () in emit (if ok (is_canonical (reg r)) then "B:1" else "B:0")
        | "fmt" -> let m = reg (next ()) in emit (if ok (has_canonical_format m.cp m.cj m.crow) then "B:1" else "B:0")
        | "sorted" -> let m = reg (next ()) in emit (if ok (has_sorted_indices m.cp m.cj m.crow) then "B:1" else "B:0")
        | "dups" -> let m = reg (next ()) in emit (if ok (has_duplicates m.cp m.cj m.crow) then "B:1" else "B:0")
        | "sort" ->
            let r = next () in let m = reg r in
            let (j', x') = ok (sort_indices m.cp m.cj m.cx m.crow) in
            setreg r { m with cj = j'; cx = x' }
        | "sumdup" ->
            let r = next () in let m = reg r in
            let ((p', j'), x') = ok (sum_duplicates o m.cp m.cj m.cx m.crow) in
            setreg r { m with cp = p'; cj = j'; cx = x' }
        | "tr" -> let r = next () in let a = reg (next ()) in setreg r (ok (transpose o a false))
        | "ctr" -> let r = next () in let a = reg (next ()) in setreg r (ok (transpose o a true))
        | "conj" -> let r = next () in let a = reg (next ()) in setreg r (conjugate o a)
        | "add" | "sub" | "mul" ->
            let r = next () in let a = reg (next ()) in let b = reg (next ()) in
            let f = (match c with "add" -> gi_add | "sub" -> gi_sub | _ -> gi_mul) in
            setreg r (ok (binop o f a b (mk_zero a.crow a.ccol)))
        | "ewm" ->
            let r = next () in let a = reg (next ()) in let b = reg (next ()) in
            setreg r (ok (elementwise_mul o a b (mk_zero a.crow a.ccol)))
        | "mm" -> let r = next () in let a = reg (next ()) in let b = reg (next ()) in setreg r (ok (matmat o a b))
        | "diag" -> let a = reg (next ()) in emit ("L:" ^ String.concat "," (List.map string_of_elt (ok (diagonal o a))))
        | "srow" | "scol" ->
            let r = next () in let a = reg r in
            let k = int_of_string (next ()) in let xs = List.map elt_of_string (take k) in
            setreg r (ok ((if c = "srow" then scale_rows else scale_columns) o a xs))
        | "jac" ->
            let r = next () in let nr = int_of_string (next ()) in let nc = int_of_string (next ()) in
            let d = List.init nr (fun _ -> List.map elt_of_string (take nc)) in
            setreg r (ok (jacobian o d (n_of_int nc)))
        | "eq" -> let a = reg (next ()) in let b = reg (next ()) in emit (if ok (csr_eq o a b) then "B:1" else "B:0")
        | "ni" -> let _ = next () in let _ = next () in ignore (ok (not_implemented : (z * z) csr res))
        | "dump" -> emit (show_mat (reg (next ())))
        | t -> raise (Stop ("BADTOKEN:" ^ t)))
     done
   with
   | Stop s -> emit s
   | Invalid_argument _ -> emit "BADLINE");
  String.concat ";" (List.rev !out)

let () =
  try
    while true do
      print_endline (run_line (input_line stdin))
    done
  with End_of_file -> ()
