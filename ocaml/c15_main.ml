(* C15 model side: input line = tree dumps separated by " ;; "; output = one record per dump,
   separated by " ;; ":
     <c99 double> \t <c99 float> \t <c89 double> \t <c89 float> \t <c99 half> \t <flags>
   printer results as  S:<hex text>  |  EXN:<class>  |  OUTSIDE (not in the modelled fragment)  |
   FUEL; flags (for the c99 double and the c99 float tree) "W<wp>R<reads back>D<no int div>" with
   1/0 and R in {1,0,x (reader rejects)}, followed by "G<cguard>N<nguard>" (the hypotheses of the
   guarded theorems), or "-" when there is no tree. *)
open Semodel
open Expr_io

let hex_of_bytes (l : n list) : string =
  let b = Buffer.create 64 in
  List.iter (fun c -> Buffer.add_string b (Printf.sprintf "%02x" (small_of_n c))) l;
  Buffer.contents b

let n99 = n_of_small 99
let n89 = n_of_small 89

let show_res (r : n list res) : string =
  match r with
  | Ok s -> "S:" ^ hex_of_bytes s
  | ErrExn c -> let k = small_of_n c in if k = 99 then "OUTSIDE" else "EXN:" ^ string_of_int k
  | ErrFuel -> "FUEL"
  | ErrOOB (_, _) -> "OOB"

let flags std prec e : string =
  match ccode_tree std prec e with
  | Ok t ->
      let w = if wp t then "1" else "0" in
      let r = match ccode_reads_back t with Some true -> "1" | Some false -> "0" | None -> "x" in
      let d = if no_int_div t then "1" else "0" in
      let g = if cguard e then "1" else "0" in
      let ng = if nguard { c99 = true; fl = (small_of_n prec = 1) } e then "1" else "0" in
      "W" ^ w ^ "R" ^ r ^ "D" ^ d ^ "G" ^ g ^ "N" ^ ng
  | _ -> "-"

let one (s : string) : string =
  try
    let e = expr_of_string (String.trim s) in
    let p std prec = show_res (ccode_model std (n_of_small prec) e) in
    String.concat "\t" [p n99 0; p n99 1; p n89 0; p n89 1; p n99 2;
                        flags n99 (n_of_small 0) e ^ " " ^ flags n99 (n_of_small 1) e]
  with
  | Unsupported m -> "UNSUPPORTED " ^ m
  | Failure m -> "FAIL " ^ m

let () =
  try
    while true do
      let line = input_line stdin in
      let items = split_on " ;; " line in
      print_endline (String.concat " ;; " (List.map one items))
    done
  with End_of_file -> ()
