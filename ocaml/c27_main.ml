(* C27 model side.  Input line (TAB separated):
     <op> \t <dump_1> ;; ... ;; <dump_n> [\t <result printed by the driver, without the "R:" prefix>]
   Output line (TAB separated):
     R:<model result> \t F:<defect flags hit, comma separated> \t W:<0/1 operands well-formed>
       \t S:<points at which the specification fails on the MODEL's result>
       \t I:<points at which the specification fails on the IMPLEMENTATION's result>
   Results are printed in the driver's format (dump | N:<number> | B:(Bool b) | EXN:k | CRASH:11 | HANG | UB). *)
open Semodel
open Expr_io

let string_of_bytes (l : n list) : string =
  String.init (List.length l) (fun i -> Char.chr (small_of_n (List.nth l i)))

let name_of_code (c : n) : string =
  let key = dec_of_n c in
  let rec go = function
    | [] -> "?" ^ key
    | (nm, c') :: r -> if dec_of_n c' = key then string_of_bytes nm else go r in
  go tc_table

let dump_num (x : number) : string =
  match x with
  | NInt z -> "(I " ^ dec_of_z z ^ ")"
  | NRat (p, q) -> "(Q " ^ dec_of_z p ^ " " ^ dec_of_z (Zpos q) ^ ")"
  | NInf d -> "(Inf " ^ dec_of_z d ^ ")"
  | _ -> "(?num)"

let rec dump_expr (e : expr) : string =
  match e with
  | ENum x -> dump_num x
  | EAtom c -> "(Atom " ^ name_of_code c ^ ")"
  | EInterval (s, x, lo, ro) ->
      "(Interval " ^ dump_expr s ^ " " ^ dump_expr x ^ " " ^ (if lo then "1" else "0") ^ " " ^ (if ro then "1" else "0") ^ ")"
  | EFN (c, l) -> "(FN " ^ name_of_code c ^ String.concat "" (List.map (fun a -> " " ^ dump_expr a) l) ^ ")"
  | ELex (c, a, b) -> "(Lex " ^ name_of_code c ^ " " ^ dump_expr a ^ " " ^ dump_expr b ^ ")"
  | EBool b -> "(Bool " ^ (if b then "1" else "0") ^ ")"
  | _ -> "(?expr)"

let dump_sv (s : sv) : string = dump_expr (to_expr s)

let show_q (q : q) : string = dec_of_z q.qnum ^ "/" ^ dec_of_z (Zpos q.qden)
let show_point (p : point) : string =
  match p with
  | PAt q -> show_q q
  | PNear (q, above, irr) -> show_q q ^ (if above then "+" else "-") ^ (if irr then "i" else "r")
let show_points (l : point list) : string =
  let rec take k = function [] -> [] | x :: r -> if k = 0 then [] else x :: take (k - 1) r in
  if l = [] then "" else String.concat " " (List.map show_point (take 4 l))

let show_res (pr : 'a -> string) (r : 'a res) : string =
  match r with
  | Ok a -> pr a
  | ErrOOB (_, _) -> "OOB"
  | ErrFuel -> "HANG"
  | ErrExn c ->
      (match dec_of_n c with
       | "100" | "103" -> "CRASH:11"
       | "102" -> "UB"
       | k -> "EXN:" ^ k)

let sv_of_string (s : string) : sv =
  match of_expr (expr_of_string s) with
  | Some v -> v
  | None -> raise (Unsupported "not a set of the fragment")

let num_of_string (s : string) : number =
  match expr_of_string s with ENum x -> x | _ -> raise (Unsupported "number expected")

let flags_str (fl : n list) : string = String.concat "," (List.map dec_of_n fl)

(* The extracted model recomputes hashes of whole trees at every container comparison (the library caches
   them), so that a case with very large intermediate sets can take minutes.  Such a case is abandoned after
   CPU_LIMIT seconds ("FAIL timeout", counted by the check as not compared): a GC alarm raises an exception
   at the end of a major collection once the deadline has passed. *)
exception Timeout
let cpu_limit = 20.0
let deadline = ref infinity
let _ = Gc.create_alarm (fun () -> if Sys.time () > !deadline then (deadline := infinity; raise Timeout))

let () =
  try
    while true do
      let line = input_line stdin in
      deadline := Sys.time () +. cpu_limit;
      (try
        let f = String.split_on_char '\t' line in
        let op = List.nth f 0 in
        let dumps = List.map String.trim (split_on " ;; " (List.nth f 1)) in
        let impl = if List.length f > 2 then List.nth f 2 else "" in
        let is_val s = String.length s > 0 && s.[0] = '(' in
        let out r fl w sm si =
          print_endline ("R:" ^ r ^ "\tF:" ^ flags_str fl ^ "\tW:" ^ (if w then "1" else "0") ^ "\tS:" ^ sm ^ "\tI:" ^ si) in
        let setop (run : sv list -> sv res * n list) (chk : sv list -> sv -> point list) =
          let ops = List.map sv_of_string dumps in
          let w = List.for_all wf_set ops in
          let (r, fl) = run ops in
          let sm = match r with Ok v -> show_points (chk ops v) | _ -> "" in
          let si = if is_val impl then (try show_points (chk ops (sv_of_string impl)) with Unsupported _ -> "?") else "" in
          out (show_res dump_sv r) fl w sm si in
        let a2 l = (List.nth l 0, List.nth l 1) in
        (match op with
         | "munion" -> setop (fun l -> let (a, b) = a2 l in op_munion a b) check_union
         | "funion" -> setop op_funion check_union
         | "misect" -> setop (fun l -> let (a, b) = a2 l in op_misect a b) check_inter
         | "fisect" -> setop op_fisect check_inter
         | "mcompl" -> setop (fun l -> let (a, b) = a2 l in op_mcompl a b) (fun l r -> let (a, b) = a2 l in check_compl b a r)
         | "helper" -> setop (fun l -> let (a, b) = a2 l in op_helper a b) (fun l r -> let (a, b) = a2 l in check_compl b a r)
         | "fcompl" -> setop (fun l -> let (a, b) = a2 l in op_fcompl a b) (fun l r -> let (a, b) = a2 l in check_compl a b r)
         | "boundary" -> setop (fun l -> op_boundary (List.hd l)) (fun l r -> check_boundary (List.hd l) r)
         | "interior" -> setop (fun l -> op_interior (List.hd l)) (fun l r -> check_interior (List.hd l) r)
         | "closure" -> setop (fun l -> op_closure (List.hd l)) (fun l r -> check_closure (List.hd l) r)
         | "sup" | "inf" ->
             let s = sv_of_string (List.hd dumps) in
             let r = if op = "sup" then sup s else inf s in
             let chk = if op = "sup" then check_sup else check_inf in
             let sm = match r with Ok x -> show_points (chk s x) | _ -> "" in
             let si = if String.length impl > 2 && String.sub impl 0 2 = "N:" then
                 (try show_points (chk s (num_of_string (String.sub impl 2 (String.length impl - 2)))) with Unsupported _ -> "?") else "" in
             out (show_res (fun x -> "N:" ^ dump_num x) r) [] (wf_set s) sm si
         | "contains" ->
             let s = sv_of_string (List.nth dumps 0) in
             let a = num_of_string (List.nth dumps 1) in
             let b = contains s a in
             let bad ans = if check_contains s a ans then "" else "answer" in
             let si = if impl = "B:(Bool 1)" then bad true else if impl = "B:(Bool 0)" then bad false else "" in
             out ("B:(Bool " ^ (if b then "1" else "0") ^ ")") [] (wf_set s) (bad b) si
         | _ -> print_endline "BADOP")
      with
      | Unsupported m -> print_endline ("UNSUPPORTED " ^ m)
      | Failure m -> print_endline ("FAIL " ^ m)
      | Invalid_argument m -> print_endline ("FAIL " ^ m)
      | Not_found -> print_endline "FAIL notfound"
      | Timeout -> print_endline "FAIL timeout"
      | Stack_overflow -> print_endline "FAIL stack_overflow"
      | Out_of_memory -> print_endline "FAIL out_of_memory")
    done
  with End_of_file -> ()
