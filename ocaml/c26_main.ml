(* Reader/printer around the extracted C26 model (coq/C26/MatModel.v).
   input : one case per line,  <env> ; <stack program>   (the env part is for the driver's oracle only)
           program tokens  I d | Z d d | S id | D cnt e.. | M m n e.. | k e | add n | mul n | had n | tr | conj
           d = integer or n<id>;  e = p | p/q | re:im
   output: the canonical line of harness/c26_driver.cpp (without the oracle part). *)
open Mat_model

let rec pos_of_int (n : int) : positive =
  if n = 1 then XH else if n land 1 = 0 then XO (pos_of_int (n lsr 1)) else XI (pos_of_int (n lsr 1))
let z_of_int (n : int) : z = if n = 0 then Z0 else if n > 0 then Zpos (pos_of_int n) else Zneg (pos_of_int (-n))
let rec nat_of_int (n : int) : nat = if n <= 0 then O else S (nat_of_int (n - 1))
let rec int_of_nat = function O -> 0 | S n -> 1 + int_of_nat n

exception Big
let rec int_of_pos_d depth = function
  | XH -> 1
  | XO p -> if depth > 60 then raise Big else 2 * int_of_pos_d (depth + 1) p
  | XI p -> if depth > 60 then raise Big else 2 * int_of_pos_d (depth + 1) p + 1
let int_of_pos p = int_of_pos_d 0 p
let int_of_z = function Z0 -> 0 | Zpos p -> int_of_pos p | Zneg p -> - (int_of_pos p)
let int_of_n = function N0 -> 0 | Npos p -> int_of_pos p

let show_q (q : qc) : string =
  try
    let n = int_of_z q.qnum and d = int_of_pos q.qden in
    if d = 1 then string_of_int n else Printf.sprintf "%d/%d" n d
  with Big -> "BIG"
let q_is_zero (q : qc) = (q.qnum = Z0)
let show_ent ((re, im) : ent) : string =
  if q_is_zero im then show_q re else show_q re ^ ":" ^ show_q im

let parse_q (s : string) : qc =
  match String.index_opt s '/' with
  | None -> q2Qc { qnum = z_of_int (int_of_string s); qden = XH }
  | Some p ->
      let a = int_of_string (String.sub s 0 p)
      and b = int_of_string (String.sub s (p + 1) (String.length s - p - 1)) in
      q2Qc { qnum = z_of_int a; qden = pos_of_int b }
let parse_ent (s : string) : ent =
  match String.index_opt s ':' with
  | None -> (parse_q s, parse_q "0")
  | Some p -> (parse_q (String.sub s 0 p), parse_q (String.sub s (p + 1) (String.length s - p - 1)))

let parse_dim (s : string) : dim =
  if s.[0] = 'n' then DSym (nat_of_int (int_of_string (String.sub s 1 (String.length s - 1))))
  else DInt (nat_of_int (int_of_string s))
let show_dim = function DInt n -> string_of_int (int_of_nat n) | DSym s -> "n" ^ string_of_int (int_of_nat s)
let show_odim = function None -> "-" | Some d -> show_dim d

let rec take n l = if n = 0 then ([], l) else match l with x :: r -> let (a, b) = take (n - 1) r in (x :: a, b) | [] -> failwith "short"

let rec parse_prog (toks : string list) : tok list =
  match toks with
  | [] -> []
  | "I" :: d :: r -> KIdent (parse_dim d) :: parse_prog r
  | "Z" :: a :: b :: r -> KZero (parse_dim a, parse_dim b) :: parse_prog r
  | "S" :: id :: r -> KSym (nat_of_int (int_of_string id)) :: parse_prog r
  | "D" :: n :: r ->
      let (es, r') = take (int_of_string n) r in
      KDiag (List.map parse_ent es) :: parse_prog r'
  | "M" :: m :: n :: r ->
      let m = int_of_string m and n = int_of_string n in
      let (es, r') = take (m * n) r in
      KDense (nat_of_int m, nat_of_int n, List.map parse_ent es) :: parse_prog r'
  | "k" :: e :: r -> KScal (parse_ent e) :: parse_prog r
  | "add" :: n :: r -> KAdd (nat_of_int (int_of_string n)) :: parse_prog r
  | "mul" :: n :: r -> KMul (nat_of_int (int_of_string n)) :: parse_prog r
  | "had" :: n :: r -> KHad (nat_of_int (int_of_string n)) :: parse_prog r
  | "tr" :: r -> KTrans :: parse_prog r
  | "conj" :: r -> KConj :: parse_prog r
  | t :: _ -> failwith ("bad token " ^ t)

let show_ents l = "[" ^ String.concat "," (List.map show_ent l) ^ "]"
let rec dump (e : mexpr) : string =
  match e with
  | MIdent d -> "I(" ^ show_dim d ^ ")"
  | MZero (a, b) -> "Z(" ^ show_dim a ^ "," ^ show_dim b ^ ")"
  | MSym x -> "S(" ^ string_of_int (int_of_nat x) ^ ")"
  | MDiag d -> "D" ^ show_ents d
  | MDense (m, n, v) -> Printf.sprintf "M(%d,%d)%s" (int_of_nat m) (int_of_nat n) (show_ents v)
  | MAdd ts -> "A" ^ dumps ts
  | MMul (k, fs) -> "P(" ^ show_ent k ^ ")" ^ dumps fs
  | MHad fs -> "H" ^ dumps fs
  | MTrans a -> "T(" ^ dump a ^ ")"
  | MConj a -> "C(" ^ dump a ^ ")"
and dumps l = "{" ^ String.concat "," (List.map dump l) ^ "}"

let show_tri = function TT -> "T" | TF -> "F" | TI -> "I"

(* the library's exceptions / crashes as the driver reports them *)
exception Crash of string
let err_string = function
  | ErrOOB (_, _) -> "CRASH:6"                       (* libstdc++ assertion: abort *)
  | ErrExn c -> let c = int_of_n c in
      if c = 90 then "CRASH:11" else if c = 97 then "PRECOND" else "EXN:" ^ string_of_int c
  | ErrFuel -> "FUEL"
  | Ok _ -> assert false
let is_crash = function ErrOOB _ -> true | ErrExn c -> int_of_n c = 90 | _ -> false

let show_trace (t : texpr) : string =
  let terms = List.map (fun s -> "n" ^ string_of_int (int_of_nat s)) t.t_dims
              @ List.map (fun e -> "Tr(" ^ dump e ^ ")") t.t_traces in
  let sorted = List.sort compare terms in
  let rec group = function
    | [] -> []
    | x :: r ->
        let same = List.filter (fun y -> y = x) r and other = List.filter (fun y -> y <> x) r in
        (x, 1 + List.length same) :: group other in
  let g = List.sort compare (group sorted) in
  show_ent t.t_num ^ String.concat "" (List.map (fun (s, c) -> "+" ^ s ^ "*" ^ string_of_int c) g)

let line_of (prog : tok list) : string =
  match run prog with
  | Ok e ->
      let r = report_of e in
      let b = Buffer.create 256 in
      (try
        Buffer.add_string b (dump e);
        Buffer.add_string b (" | " ^ show_odim (fst r.r_size) ^ "," ^ show_odim (snd r.r_size));
        let res_tri tag = function
          | Ok t -> Buffer.add_string b (tag ^ show_tri t)
          | x -> if is_crash x then raise (Crash (err_string x)) else Buffer.add_string b (tag ^ err_string x) in
        Buffer.add_string b (" | z=" ^ show_tri r.r_zero);
        Buffer.add_string b (" r=" ^ show_tri r.r_real);
        Buffer.add_string b (" q=" ^ show_tri r.r_square);
        res_tri " d=" r.r_diagonal;
        res_tri " s=" r.r_symmetric;
        res_tri " l=" r.r_lower;
        res_tri " u=" r.r_upper;
        (match r.r_trace with
         | Ok t -> Buffer.add_string b (" | tr=" ^ show_trace t)
         | x -> if is_crash x then (Buffer.add_string b " | tr="; raise (Crash (err_string x)))
                else Buffer.add_string b (" | tr=" ^ err_string x));
        res_tri " | tp=" r.r_toeplitz
      with Crash s -> Buffer.add_string b s);
      Buffer.contents b
  | x -> err_string x

let () =
  try
    while true do
      let line = input_line stdin in
      let toks = List.filter (fun s -> s <> "") (String.split_on_char ' ' line) in
      let rec after_semi = function [] -> [] | ";" :: r -> r | _ :: r -> after_semi r in
      let out = try line_of (parse_prog (after_semi toks)) with Failure m -> "BADINPUT " ^ m in
      print_endline out
    done
  with End_of_file -> ()
