(* C44 model side.  Input line: the part of the driver's line before "\t=>\t"
     <dump e>            or      BOX <script>
   Output: the text the driver prints after "\t=>\t" (without the oracle suffix):
     M=<r> \t L=<r> \t U=<r> \t J=<r> \t S=<r>         (expressions)
     W=<width_> H=<#lines> T=<hex of get_string()>      (StringBox histories)
   <r> = hex of the bytes, EXN:<k>, OOB (the library aborts on the vector access), FUEL, or
   FALLBACK (StrPrinter / UnicodePrinter::bvisit(const Basic &): text containing an address). *)
open Semodel
open Expr_io

let hex_of_bytes (bs : n list) : string =
  let b = Buffer.create 64 in
  List.iter (fun x -> Buffer.add_string b (Printf.sprintf "%02x" (small_of_n x))) bs;
  Buffer.contents b

let show_res (r : n list res) : string =
  match r with
  | Ok s -> hex_of_bytes s
  | ErrOOB _ -> "OOB"
  | ErrFuel -> "FUEL"
  | ErrExn c -> let k = dec_of_n c in if k = "99" then "FALLBACK" else "EXN:" ^ k

let bytes_of_hex (h : string) : n list =
  List.init (String.length h / 2) (fun i -> n_of_small (16 * hexval h.[2 * i] + hexval h.[2 * i + 1]))

let boxop_of_token (t : string) : boxop =
  match t with
  | "e" -> OPush box_e
  | "below" -> OBelow | "line" -> OLine | "right" -> ORight | "power" -> OPower
  | "abs" -> OAbs | "parens" -> OParens | "sq" -> OSq | "curly" -> OCurly | "floor" -> OFloor
  | "ceil" -> OCeil | "sqrt" -> OSqrt | "lparen" -> OLParen | "rparen" -> ORParen | "lsq" -> OLSq
  | "rsq" -> ORSq | "lcurly" -> OLCurly | "rcurly" -> ORCurly
  | _ ->
    if t.[0] = 's' then OPush (box_s (bytes_of_hex (String.sub t 1 (String.length t - 1))))
    else if t.[0] = 'w' then begin
      let p = String.index t ':' in
      OPush (box_w (bytes_of_hex (String.sub t 1 (p - 1))) (n_of_dec (String.sub t (p + 1) (String.length t - p - 1))))
    end else failwith ("box token " ^ t)

let string_of_bytes (bs : n list) : string =
  String.concat "" (List.map (fun b -> String.make 1 (Char.chr (small_of_n b))) bs)
let class_name (c : n) : string =
  match List.find_opt (fun (_, k) -> small_of_n k = small_of_n c) tc_table with
  | Some (nm, _) -> string_of_bytes nm
  | None -> "?" ^ dec_of_n c

(* the name tables of coq/C44/Names.v and the modelled classes of coq/C44/Coverage.v *)
let tables () : string =
  let tab name l = name ^ ":" ^ String.concat "," (List.map (fun (c, v) -> class_name c ^ "=" ^ hex_of_bytes v) l) in
  String.concat "\t" [
    "TABLES"; tab "str" str_names; tab "mathml" mathml_over; tab "sbml" sbml_over; tab "latex" latex_over;
    tab "unicode" (List.map (fun (c, (v, _)) -> (c, v)) unicode_over);
    "unicode_len:" ^ String.concat "," (List.map (fun (c, (_, k)) -> class_name c ^ "=" ^ dec_of_n k) unicode_over);
    "classes:" ^ String.concat "," (List.map class_name modelled_codes) ]

let flag b = if b then "1" else "0"

let () =
  try
    while true do
      let line = input_line stdin in
      (try
        if line = "TABLES" then print_endline (tables ())
        else if String.length line >= 4 && String.sub line 0 4 = "BOX " then begin
          let toks = List.filter (fun s -> s <> "") (String.split_on_char ' ' (String.sub line 4 (String.length line - 4))) in
          match run_box (List.map boxop_of_token toks) [] with
          | Ok (b :: _) ->
              print_endline ("W=" ^ dec_of_n b.width ^ " H=" ^ string_of_int (List.length b.lines) ^ " T=" ^ hex_of_bytes (get_string b))
          | Ok [] -> print_endline "EMPTY"
          | ErrOOB _ -> print_endline "OOB"
          | _ -> print_endline "ERR"
        end else begin
          let e = expr_of_string (String.trim line) in
          print_endline ("M=" ^ show_res (mathml e) ^ "\tL=" ^ show_res (latex e) ^ "\tU=" ^ show_res (unicode e)
                         ^ "\tJ=" ^ show_res (julia e) ^ "\tS=" ^ show_res (sbml e)
                         ^ "\t#G:" ^ flag (mm_guard e) ^ flag (latex_guard e) ^ flag (unicode_guard e) ^ flag (sbml_fragment e) ^ flag (latex_names_ok e))
        end
      with
      | Unsupported m -> print_endline ("UNSUPPORTED " ^ m)
      | Failure m -> print_endline ("FAIL " ^ m)
      | Not_found -> print_endline "FAIL token")
    done
  with End_of_file -> ()
