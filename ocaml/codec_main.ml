(* C19 / C20 model side.  One case per input line, one result line per case.
     dec <major> <minor> <hex>          decode a stream:  OK \t <dump> \t <labelled dump> \t REENC=<0|1> \t <sharing signature>
                                        (REENC: re-encoding the decoded labelled tree gives the input bytes)
                                        or  EXN:<n>  /  FUEL
     enc <fresh|share> <major> <minor> <dump>
                                        encode the expression of a tree dump: <hex> \t <decode of these bytes>
     fmap <major> <minor> <hex>         field map of a valid stream: off:len:kind ... (for mutation)
     mat <major> <minor> <hex>          DenseMatrix stream: OK \t rows cols \t dumps separated by " ;; " \t REENC=<0|1>
   No model data lives in OCaml ints except byte values, digit values and lengths used for I/O. *)
open Semodel
open Expr_io

let hexchars = "0123456789abcdef"
let bytes_of_hex (s : string) : n list =
  let k = String.length s / 2 in
  List.init k (fun i -> n_of_small (16 * hexval s.[2 * i] + hexval s.[2 * i + 1]))
let hex_of_bytes (l : n list) : string =
  let b = Buffer.create (2 * List.length l) in
  List.iter (fun x -> let v = small_of_n x in
              Buffer.add_char b hexchars.[(v lsr 4) land 15]; Buffer.add_char b hexchars.[v land 15]) l;
  Buffer.contents b
let hexname (l : n list) : string = "x" ^ hex_of_bytes l
let rec nat_of_int (k : int) : nat = if k <= 0 then O else S (nat_of_int (k - 1))
let hex16 (x : n) : string =
  String.concat "" (List.map (fun d -> String.make 1 hexchars.[small_of_n d]) (hex_of_N (nat_of_int 16) x))

let class_name (c : n) : string =
  match name_of_code c with
  | Some l -> String.concat "" (List.map (fun x -> String.make 1 (Char.chr (small_of_n x))) l)
  | None -> "Code" ^ dec_of_n c

(* ---- the tree dump of harness/dump.h ---- *)
let dump_num (x : number) : string =
  match x with
  | NInt z -> "(I " ^ dec_of_z z ^ ")"
  | NRat (p, q) -> "(Q " ^ dec_of_z p ^ " " ^ dec_of_z (Zpos q) ^ ")"
  | NCplx (a, b, c, d) -> "(C " ^ dec_of_z a ^ " " ^ dec_of_z (Zpos b) ^ " " ^ dec_of_z c ^ " " ^ dec_of_z (Zpos d) ^ ")"
  | NDbl b -> "(D " ^ hex16 b ^ ")"
  | NCDbl (a, b) -> "(CD " ^ hex16 a ^ " " ^ hex16 b ^ ")"
  | NInf d -> "(Inf " ^ dec_of_z d ^ ")"
  | NNaN -> "(NaN)"

let rec dump (e : expr) : string =
  let args l = String.concat "" (List.map (fun a -> " " ^ dump a) l) in
  let pairs l = String.concat "" (List.map (fun (a, b) -> " (" ^ dump a ^ " " ^ dump b ^ ")") l) in
  match e with
  | ENum x -> dump_num x
  | ESym s -> "(Sym " ^ hexname s ^ ")"
  | EDummy (s, i) -> "(Dummy " ^ hexname s ^ " " ^ dec_of_n i ^ ")"
  | EConst s -> "(Const " ^ hexname s ^ ")"
  | EAdd (c, d) ->
      "(Add " ^ dump_num c ^ String.concat "" (List.map (fun (a, v) -> " (" ^ dump a ^ " " ^ dump_num v ^ ")") d) ^ ")"
  | EMul (c, d) -> "(Mul " ^ dump_num c ^ pairs d ^ ")"
  | EPow (a, b) -> "(Pow " ^ dump a ^ " " ^ dump b ^ ")"
  | EF1 (c, a) -> "(F1 " ^ class_name c ^ " " ^ dump a ^ ")"
  | EF2 (c, a, b) -> "(F2 " ^ class_name c ^ " " ^ dump a ^ " " ^ dump b ^ ")"
  | EFN (c, l) -> "(FN " ^ class_name c ^ args l ^ ")"
  | EFunSym (s, l) -> "(FunSym " ^ hexname s ^ args l ^ ")"
  | ELex (c, a, b) -> "(Lex " ^ class_name c ^ " " ^ dump a ^ " " ^ dump b ^ ")"
  | EDeriv (a, l) -> "(Deriv " ^ dump a ^ args l ^ ")"
  | ESubs (a, d) -> "(Subs " ^ dump a ^ pairs d ^ ")"
  | EPw l -> "(Pw" ^ pairs l ^ ")"
  | EBool b -> if b then "(Bool 1)" else "(Bool 0)"
  | EInterval (s, x, lo, ro) ->
      "(Interval " ^ dump s ^ " " ^ dump x ^ " " ^ (if lo then "1" else "0") ^ " " ^ (if ro then "1" else "0") ^ ")"
  | EAtom c -> "(Atom " ^ class_name c ^ ")"

(* ---- canonical labelled dump: ids renumbered by first occurrence, Add entries sorted ---- *)
let head_of (e : expr) : string =
  match e with
  | EAdd _ -> "Add" | EMul _ -> "Mul" | EPow _ -> "Pow"
  | EF1 (c, _) | EF2 (c, _, _) | EFN (c, _) | ELex (c, _, _) -> class_name c
  | EFunSym (s, _) -> "FunSym:" ^ hexname s
  | EDeriv _ -> "Deriv" | ESubs _ -> "Subs" | EPw _ -> "Pw"
  | EInterval (_, _, lo, ro) -> "Interval:" ^ (if lo then "1" else "0") ^ (if ro then "1" else "0")
  | ENum (NRat _) -> "Q" | ENum (NCplx _) -> "C" | ENum (NCDbl _) -> "CD" | ENum (NInf _) -> "Inf"
  | _ -> dump e

let cl_dump (w : wtree) : string =
  let tbl = Hashtbl.create 64 in
  let cnt = ref 0 in
  let rec go (w : wtree) : string =
    let WT (a, e, kids) = w in
    let key = dec_of_n a in
    match Hashtbl.find_opt tbl key with
    | Some k -> "#" ^ string_of_int k ^ "#"
    | None ->
        incr cnt;
        let k = !cnt in
        Hashtbl.add tbl key k;
        let kids' =
          match e, kids with
          | EAdd _, c :: rest ->
              let rec pairs = function a :: b :: r -> (a, b) :: pairs r | _ -> [] in
              let ps = List.sort (fun (a, _) (b, _) -> compare (dump (wt_expr a)) (dump (wt_expr b))) (pairs rest) in
              c :: List.concat_map (fun (a, b) -> [a; b]) ps
          | _ -> kids in
        let inner = String.concat "" (List.map (fun x -> " " ^ go x) kids') in
        "#" ^ string_of_int k ^ "=(" ^ head_of e ^ inner ^ ")" in
  go w

(* the dump with Add entries sorted (their order is the bucket order of an unordered_map) *)
let rec canon_dump (e : expr) : string =
  let args l = String.concat "" (List.map (fun a -> " " ^ canon_dump a) l) in
  let pairs l = String.concat "" (List.map (fun (a, b) -> " (" ^ canon_dump a ^ " " ^ canon_dump b ^ ")") l) in
  match e with
  | EAdd (c, d) ->
      "(Add " ^ dump_num c
      ^ String.concat "" (List.sort compare (List.map (fun (a, v) -> " (" ^ canon_dump a ^ " " ^ dump_num v ^ ")") d)) ^ ")"
  | EMul (c, d) -> "(Mul " ^ dump_num c ^ pairs d ^ ")"
  | EPow (a, b) -> "(Pow " ^ canon_dump a ^ " " ^ canon_dump b ^ ")"
  | EF1 (c, a) -> "(F1 " ^ class_name c ^ " " ^ canon_dump a ^ ")"
  | EF2 (c, a, b) -> "(F2 " ^ class_name c ^ " " ^ canon_dump a ^ " " ^ canon_dump b ^ ")"
  | EFN (c, l) -> "(FN " ^ class_name c ^ args l ^ ")"
  | EFunSym (s, l) -> "(FunSym " ^ hexname s ^ args l ^ ")"
  | ELex (c, a, b) -> "(Lex " ^ class_name c ^ " " ^ canon_dump a ^ " " ^ canon_dump b ^ ")"
  | EDeriv (a, l) -> "(Deriv " ^ canon_dump a ^ args l ^ ")"
  | ESubs (a, d) -> "(Subs " ^ canon_dump a ^ pairs d ^ ")"
  | EPw l -> "(Pw" ^ pairs l ^ ")"
  | EInterval (s, x, lo, ro) ->
      "(Interval " ^ canon_dump s ^ " " ^ canon_dump x ^ " " ^ (if lo then "1" else "0") ^ " " ^ (if ro then "1" else "0") ^ ")"
  | _ -> dump e

(* ---- sharing signature: for every distinct id, (hash of the node's dump, number of occurrences in
   the stream), sorted -- invariant under re-ordering of hash-ordered containers and of equivalent
   elements inside a multiset ---- *)
let share_sig (w : wtree) : string =
  let tbl = Hashtbl.create 64 in
  let rec go (w : wtree) =
    let WT (a, e, kids) = w in
    let key = dec_of_n a in
    match Hashtbl.find_opt tbl key with
    | Some (h, c) -> Hashtbl.replace tbl key (h, c + 1)
    | None -> Hashtbl.add tbl key (Hashtbl.hash (canon_dump e), 1); List.iter go kids in
  go w;
  let l = Hashtbl.fold (fun _ (h, c) acc -> Printf.sprintf "%08x:%d" h c :: acc) tbl [] in
  String.concat "," (List.sort compare l)

(* ---- labelling with maximal sharing: equal subtrees (same dump, same class) get one id ---- *)
let label_share (e : expr) : wtree =
  let tbl = Hashtbl.create 64 in
  let cnt = ref 0 in
  let rec go (e : expr) : wtree =
    let key = dump e in
    let id = match Hashtbl.find_opt tbl key with
      | Some k -> k
      | None -> incr cnt; Hashtbl.add tbl key !cnt; !cnt in
    WT (n_of_dec (string_of_int (id * 16 + 4096)), e, List.map go (child_exprs e)) in
  go e

(* ---- field map ---- *)
let field_map (w : wtree) : string =
  let out = Buffer.create 256 in
  let off = ref 5 in
  Buffer.add_string out "0:1:endian 1:2:major 3:2:minor";
  let emit len kind = Buffer.add_string out (Printf.sprintf " %d:%d:%s" !off len kind); off := !off + len in
  let seen = Hashtbl.create 64 in
  let rec node (w : wtree) =
    let WT (a, e, kids) = w in
    let key = dec_of_n a in
    emit 8 "addr";
    if Hashtbl.mem seen key then emit 1 "ref"
    else begin
      emit 1 "first";
      emit 1 "tc";
      let kids = ref kids in
      let next () = match !kids with k :: r -> kids := r; node k | [] -> () in
      let sv (f : sfield) (v : expr sval) =
        match f, v with
        | SBool, _ -> emit 1 "bool"
        | SU32, _ -> emit 4 "u32"
        | SU64, _ -> emit 8 "u64"
        | SF64, _ -> emit 8 "f64"
        | SStr, VS s -> emit 8 "strlen"; emit (List.length s) (match e with ENum (NInt _) -> "intstr" | _ -> "str")
        | SNode _, _ -> next ()
        | _ -> () in
      (match schema_k (kind_of (type_code e)) with
       | None -> ()
       | Some sch ->
           List.iter2 (fun (f : field) (v : expr fval) ->
               match f, v with
               | FOne s, FV x -> sv s x
               | FSeq (_, elem), FL rows -> emit 8 "count"; List.iter (fun row -> List.iter2 sv elem row) rows
               | _ -> ()) sch (vals_of e));
      Hashtbl.add seen key ()
    end in
  node w;
  Buffer.contents out

let res_str (f : 'a -> string) (r : 'a res) : string =
  match r with
  | Ok a -> f a
  | ErrExn c -> "EXN:" ^ dec_of_n c
  | ErrFuel -> "FUEL"
  | ErrOOB _ -> "OOB"

let () =
  try
    while true do
      let line = input_line stdin in
      (try
        match String.split_on_char ' ' line with
        | "dec" :: ma :: mi :: [hx] ->
            let ver = (n_of_dec ma, n_of_dec mi) in
            let bs = bytes_of_hex hx in
            print_endline (res_str (fun w ->
                let re = encode false ver w in
                "OK\t" ^ dump (wt_expr w) ^ "\t" ^ cl_dump w ^ "\tREENC=" ^ (if hex_of_bytes re = hx then "1" else "0")
                ^ "\t" ^ share_sig w)
              (decode_lab ver bs))
        | "fmap" :: ma :: mi :: [hx] ->
            let ver = (n_of_dec ma, n_of_dec mi) in
            print_endline (res_str field_map (decode_lab ver (bytes_of_hex hx)))
        | "enc" :: pol :: ma :: mi :: rest ->
            let ver = (n_of_dec ma, n_of_dec mi) in
            let e = expr_of_string (String.concat " " rest) in
            let w = if pol = "share" then label_share e else label e in
            let bs = encode false ver w in
            print_endline (hex_of_bytes bs ^ "\t" ^ res_str (fun e' -> "OK " ^ dump e') (decode ver bs))
        | "mat" :: ma :: mi :: [hx] ->
            let ver = (n_of_dec ma, n_of_dec mi) in
            print_endline (res_str (fun ((r, c), ws) ->
                "OK\t" ^ dec_of_n r ^ " " ^ dec_of_n c ^ "\t" ^ String.concat " ;; " (List.map (fun w -> dump (wt_expr w)) ws)
                ^ "\tREENC=" ^ (if hex_of_bytes (encode_matrix false ver r c ws) = hx then "1" else "0"))
              (decode_matrix ver (bytes_of_hex hx)))
        | ["classes"] ->
            let b x = if x then "1" else "0" in
            let kind tc = match kind_of tc with
              | KOneArg -> "f1" | KTwoArg -> "f2" | KMultiArg -> "fn" | KNone -> "none"
              | KNot -> "own" | _ -> "own" in
            let kind tc = if List.mem (class_name tc) ["Equality"; "Unequality"; "LessThan"; "StrictLessThan"] then "f2" else kind tc in
            print_endline (String.concat " " (List.init (small_of_n tC_Count) (fun i ->
                let tc = n_of_small i in
                Printf.sprintf "%d:%s:%s:%s:%s:%s" i (b (derives tc TNumber)) (b (derives tc TInteger))
                  (b (derives tc TBoolean)) (b (derives tc TSet)) (kind tc))))
        | _ -> print_endline "BADCASE"
      with
      | Unsupported m -> print_endline ("UNSUPPORTED " ^ m)
      | Failure m -> print_endline ("FAIL " ^ m)
      | Invalid_argument m -> print_endline ("FAIL " ^ m))
    done
  with End_of_file -> ()
