(* Shared glue: reads the drivers' canonical tree dumps (harness/dump.h) into the extracted
   `expr` type.  No model data ever lives in an OCaml int: numerals travel as digit lists
   through the extracted N_of_digits / Z_of_digits / digits_of_N. *)
open Semodel

type sexp = A of string | L of sexp list

let parse_sexp (s : string) : sexp =
  let n = String.length s in
  let pos = ref 0 in
  let rec skip () = if !pos < n && (s.[!pos] = ' ' || s.[!pos] = '\t') then (incr pos; skip ()) in
  let rec go () =
    skip ();
    if !pos >= n then failwith "sexp: end";
    if s.[!pos] = '(' then begin
      incr pos;
      let items = ref [] in
      let fin = ref false in
      while not !fin do
        skip ();
        if !pos >= n then failwith "sexp: missing )";
        if s.[!pos] = ')' then (incr pos; fin := true) else items := go () :: !items
      done;
      L (List.rev !items)
    end else begin
      let st = !pos in
      while !pos < n && s.[!pos] <> ' ' && s.[!pos] <> '(' && s.[!pos] <> ')' && s.[!pos] <> '\t' do incr pos done;
      A (String.sub s st (!pos - st))
    end in
  go ()

(* small OCaml ints (0..255, digit values) to the extracted N *)
let rec pos_of_int (k : int) : positive =
  if k = 1 then XH else if k land 1 = 0 then XO (pos_of_int (k lsr 1)) else XI (pos_of_int (k lsr 1))
let n_of_small (k : int) : n = if k = 0 then N0 else Npos (pos_of_int k)
let rec int_of_pos = function XH -> 1 | XO p -> 2 * int_of_pos p | XI p -> 2 * int_of_pos p + 1
let small_of_n = function N0 -> 0 | Npos p -> int_of_pos p

let digits_of_string (s : string) : n list =
  List.init (String.length s) (fun i -> n_of_small (Char.code s.[i] - 48))
let hexval c = match c with
  | '0'..'9' -> Char.code c - 48 | 'a'..'f' -> Char.code c - 87 | 'A'..'F' -> Char.code c - 55
  | _ -> failwith "hex"
let n_of_dec (s : string) : n = n_of_digits (n_of_small 10) (digits_of_string s)
let n_of_hex (s : string) : n =
  n_of_digits (n_of_small 16) (List.init (String.length s) (fun i -> n_of_small (hexval s.[i])))
let z_of_dec (s : string) : z =
  if String.length s > 0 && s.[0] = '-' then
    z_of_digits true (digits_of_string (String.sub s 1 (String.length s - 1)))
  else z_of_digits false (digits_of_string s)
let pos_of_dec (s : string) : positive =
  match z_of_dec s with Zpos p -> p | _ -> failwith "positive expected"
let dec_of_n (x : n) : string =
  String.concat "" (List.map (fun d -> string_of_int (small_of_n d)) (digits_of_N x))
let dec_of_z (x : z) : string =
  match x with Z0 -> "0" | Zpos p -> dec_of_n (Npos p) | Zneg p -> "-" ^ dec_of_n (Npos p)
let bytes_of_string (s : string) : n list =
  List.init (String.length s) (fun i -> n_of_small (Char.code s.[i]))
(* names are printed as 'x' followed by hex pairs *)
let bytes_of_hexname (s : string) : n list =
  let k = (String.length s - 1) / 2 in
  List.init k (fun i -> n_of_small (16 * hexval s.[1 + 2 * i] + hexval s.[2 + 2 * i]))

exception Unsupported of string

let code_of_name (nm : string) : n =
  match tc_lookup (bytes_of_string nm) with
  | Some c -> c
  | None -> raise (Unsupported ("unknown class " ^ nm))

let number_of_sexp (x : sexp) : number =
  match x with
  | L [A "I"; A v] -> NInt (z_of_dec v)
  | L [A "Q"; A p; A q] -> NRat (z_of_dec p, pos_of_dec q)
  | L [A "C"; A a; A b; A c; A d] -> NCplx (z_of_dec a, pos_of_dec b, z_of_dec c, pos_of_dec d)
  | L [A "D"; A h] -> NDbl (n_of_hex h)
  | L [A "CD"; A h1; A h2] -> NCDbl (n_of_hex h1, n_of_hex h2)
  | L [A "Inf"; A d] -> NInf (z_of_dec d)
  | L [A "NaN"] -> NNaN
  | _ -> raise (Unsupported "number")

let rec expr_of_sexp (x : sexp) : expr =
  match x with
  | L (A ("I" | "Q" | "C" | "D" | "CD" | "Inf" | "NaN") :: _) -> ENum (number_of_sexp x)
  | L [A "Sym"; A nm] -> ESym (bytes_of_hexname nm)
  | L [A "Dummy"; A nm; A idx] -> EDummy (bytes_of_hexname nm, n_of_dec idx)
  | L [A "Const"; A nm] -> EConst (bytes_of_hexname nm)
  | L (A "Add" :: c :: items) ->
      EAdd (number_of_sexp c, List.map (function L [k; v] -> (expr_of_sexp k, number_of_sexp v) | _ -> failwith "add item") items)
  | L (A "Mul" :: c :: items) ->
      EMul (number_of_sexp c, List.map (function L [k; v] -> (expr_of_sexp k, expr_of_sexp v) | _ -> failwith "mul item") items)
  | L [A "Pow"; b; e] -> EPow (expr_of_sexp b, expr_of_sexp e)
  | L [A "F1"; A nm; a] -> EF1 (code_of_name nm, expr_of_sexp a)
  | L [A "F2"; A nm; a; b] -> EF2 (code_of_name nm, expr_of_sexp a, expr_of_sexp b)
  | L (A "FN" :: A nm :: args) -> EFN (code_of_name nm, List.map expr_of_sexp args)
  | L (A "FunSym" :: A nm :: args) -> EFunSym (bytes_of_hexname nm, List.map expr_of_sexp args)
  | L [A "Lex"; A nm; a; b] -> ELex (code_of_name nm, expr_of_sexp a, expr_of_sexp b)
  | L (A "Deriv" :: a :: xs) -> EDeriv (expr_of_sexp a, List.map expr_of_sexp xs)
  | L (A "Subs" :: a :: items) ->
      ESubs (expr_of_sexp a, List.map (function L [k; v] -> (expr_of_sexp k, expr_of_sexp v) | _ -> failwith "subs item") items)
  | L (A "Pw" :: items) ->
      EPw (List.map (function L [k; v] -> (expr_of_sexp k, expr_of_sexp v) | _ -> failwith "pw item") items)
  | L [A "Bool"; A b] -> EBool (b = "1")
  | L [A "Interval"; s; e; A lo; A ro] -> EInterval (expr_of_sexp s, expr_of_sexp e, lo = "1", ro = "1")
  | L [A "Atom"; A nm] -> EAtom (code_of_name nm)
  | L (A "Opaque" :: _) -> raise (Unsupported "opaque")
  | _ -> raise (Unsupported "shape")

let expr_of_string (s : string) : expr = expr_of_sexp (parse_sexp s)

(* split on a multi-character separator *)
let split_on (sep : string) (s : string) : string list =
  let ls = String.length sep and n = String.length s in
  let rec go start i acc =
    if i + ls > n then List.rev (String.sub s start (n - start) :: acc)
    else if String.sub s i ls = sep then go (i + ls) (i + ls) (String.sub s start (i - start) :: acc)
    else go start (i + 1) acc in
  go 0 0 []
