(* C36 model side.  Input line: the dump of e (text of harness/dump.h).
   Output line (tab separated fields):
     ND:<dump n> ;; <dump d>    RI:<dump re> ;; <dump im>    XE:<..>
     EXP=<recipe>  SIN=<recipe>  COS=<recipe>  T2S=<recipe>  CONJ=<recipe>
   A failed computation is printed as EXN:<k> | UNMODELLED | FUEL | LIBM | INTERNAL | CRASH:<sig>.
   Recipes: see harness/c36_driver.cpp. *)
open Semodel
open Expr_io

let name_of_code (c : n) : string =
  let rec go = function
    | [] -> "Unknown"
    | (nm, c') :: r -> if c' = c then String.concat "" (List.map (fun b -> String.make 1 (Char.chr (small_of_n b))) nm) else go r in
  go tc_table

let hexname (bs : n list) : string =
  "x" ^ String.concat "" (List.map (fun b -> Printf.sprintf "%02x" (small_of_n b)) bs)

let hex16 (x : n) : string =
  (* 64-bit pattern as 16 hex digits *)
  let ds = digits_of_N x in
  (* digits_of_N is decimal; convert through repeated division on the decimal string *)
  let s = String.concat "" (List.map (fun d -> string_of_int (small_of_n d)) ds) in
  (* decimal string -> hex by schoolbook division (values < 2^64) *)
  let digits = ref (List.init (String.length s) (fun i -> Char.code s.[i] - 48)) in
  let out = Buffer.create 16 in
  let hexd = "0123456789abcdef" in
  let acc = ref [] in
  let is_zero l = List.for_all (fun d -> d = 0) l in
  while not (is_zero !digits) do
    let rem = ref 0 in
    let q = List.map (fun d -> let cur = !rem * 10 + d in rem := cur mod 16; cur / 16) !digits in
    acc := hexd.[!rem] :: !acc;
    digits := q
  done;
  List.iter (Buffer.add_char out) !acc;
  let h = Buffer.contents out in
  String.make (16 - String.length h) '0' ^ h

let dump_num (x : number) : string =
  match x with
  | NInt z -> "(I " ^ dec_of_z z ^ ")"
  | NRat (p, q) -> "(Q " ^ dec_of_z p ^ " " ^ dec_of_n (Npos q) ^ ")"
  | NCplx (a, b, c, d) ->
      "(C " ^ dec_of_z a ^ " " ^ dec_of_n (Npos b) ^ " " ^ dec_of_z c ^ " " ^ dec_of_n (Npos d) ^ ")"
  | NDbl b -> "(D " ^ hex16 b ^ ")"
  | NCDbl (r, i) -> "(CD " ^ hex16 r ^ " " ^ hex16 i ^ ")"
  | NInf d -> "(Inf " ^ dec_of_z d ^ ")"
  | NNaN -> "(NaN)"

let rec dump (e : expr) : string =
  let args l = String.concat "" (List.map (fun a -> " " ^ dump a) l) in
  let pairs l = String.concat "" (List.map (fun (k, v) -> " (" ^ dump k ^ " " ^ dump v ^ ")") l) in
  match e with
  | ENum x -> dump_num x
  | ESym nm -> "(Sym " ^ hexname nm ^ ")"
  | EDummy (nm, i) -> "(Dummy " ^ hexname nm ^ " " ^ dec_of_n i ^ ")"
  | EConst nm -> "(Const " ^ hexname nm ^ ")"
  | EAdd (c, d) ->
      "(Add " ^ dump_num c ^ String.concat "" (List.map (fun (k, v) -> " (" ^ dump k ^ " " ^ dump_num v ^ ")") d) ^ ")"
  | EMul (c, d) -> "(Mul " ^ dump_num c ^ pairs d ^ ")"
  | EPow (b, x) -> "(Pow " ^ dump b ^ " " ^ dump x ^ ")"
  | EF1 (c, a) -> "(F1 " ^ name_of_code c ^ " " ^ dump a ^ ")"
  | EF2 (c, a, b) -> "(F2 " ^ name_of_code c ^ " " ^ dump a ^ " " ^ dump b ^ ")"
  | EFN (c, l) -> "(FN " ^ name_of_code c ^ args l ^ ")"
  | EFunSym (nm, l) -> "(FunSym " ^ hexname nm ^ args l ^ ")"
  | ELex (c, a, b) -> "(Lex " ^ name_of_code c ^ " " ^ dump a ^ " " ^ dump b ^ ")"
  | EDeriv (a, l) -> "(Deriv " ^ dump a ^ args l ^ ")"
  | ESubs (a, d) -> "(Subs " ^ dump a ^ pairs d ^ ")"
  | EPw l -> "(Pw" ^ pairs l ^ ")"
  | EBool b -> "(Bool " ^ (if b then "1" else "0") ^ ")"
  | EInterval (s, x, lo, ro) ->
      "(Interval " ^ dump s ^ " " ^ dump x ^ " " ^ (if lo then "1" else "0") ^ " " ^ (if ro then "1" else "0") ^ ")"
  | EAtom c -> "(Atom " ^ name_of_code c ^ ")"


let show_err (type a) (r : a res) : string =
  match r with
  | Ok _ -> "?"
  | ErrFuel -> "FUEL"
  | ErrOOB (_, _) -> "OOB"
  | ErrExn c ->
      let k = small_of_n c in
      if k = 98 then "LIBM" else if k = 97 then "UNMODELLED" else if k = 96 then "INTERNAL"
      else if k >= 200 then "CRASH:" ^ string_of_int (k - 200)
      else "EXN:" ^ string_of_int k

let show_pair (r : (expr * expr) res) : string =
  match r with
  | Ok (a, b) -> dump a ^ " ;; " ^ dump b
  | _ -> show_err r

let rec int_of_nat = function O -> 0 | S k -> 1 + int_of_nat k

let recipe_num (x : number) : string =
  match x with
  | NInt z -> "(i " ^ dec_of_z z ^ ")"
  | NRat (p, q) -> "(q " ^ dec_of_z p ^ " " ^ dec_of_n (Npos q) ^ ")"
  | NCplx (a, b, c, d) ->
      "(c " ^ dec_of_z a ^ " " ^ dec_of_n (Npos b) ^ " " ^ dec_of_z c ^ " " ^ dec_of_n (Npos d) ^ ")"
  | NDbl b -> "(d " ^ hex16 b ^ ")"
  | NCDbl (r, i) -> "(cd " ^ hex16 r ^ " " ^ hex16 i ^ ")"
  | NInf d -> (match d with Z0 -> "zoo" | Zpos _ -> "oo" | Zneg _ -> "-oo")
  | NNaN -> "nan"

let path_str (p : nat list) : string = String.concat "" (List.map (fun i -> " " ^ string_of_int (int_of_nat i)) p)

let rec show_recipe (r : recipe) : string =
  let l xs = String.concat "" (List.map (fun x -> " " ^ show_recipe x) xs) in
  match r with
  | RRef p -> "(ref" ^ path_str p ^ ")"
  | RNum x -> recipe_num x
  | RI -> "I"
  | RPi -> "pi"
  | RAdd (a, b) -> "(add " ^ show_recipe a ^ " " ^ show_recipe b ^ ")"
  | RSub (a, b) -> "(sub " ^ show_recipe a ^ " " ^ show_recipe b ^ ")"
  | RMul (a, b) -> "(mul " ^ show_recipe a ^ " " ^ show_recipe b ^ ")"
  | RDiv (a, b) -> "(div " ^ show_recipe a ^ " " ^ show_recipe b ^ ")"
  | RPow (a, b) -> "(pow " ^ show_recipe a ^ " " ^ show_recipe b ^ ")"
  | RNeg a -> "(neg " ^ show_recipe a ^ ")"
  | RExp a -> "(exp " ^ show_recipe a ^ ")"
  | RSqrt a -> "(sqrt " ^ show_recipe a ^ ")"
  | RAddV xs -> "(addv" ^ l xs ^ ")"
  | RMulV xs -> "(mulv" ^ l xs ^ ")"
  | RF1 (c, a) -> "(f1 " ^ name_of_code c ^ " " ^ show_recipe a ^ ")"
  | RUneval a -> "(uneval " ^ show_recipe a ^ ")"
  | RKeepOrPow (p, a, b) -> "(keeppow (p" ^ path_str p ^ ") " ^ show_recipe a ^ " " ^ show_recipe b ^ ")"
  | RKeepOrCreate (p, a) -> "(keepcreate (p" ^ path_str p ^ ") " ^ show_recipe a ^ ")"
  | RKeepOrCreate2 (p, a, b) -> "(keepcreate2 (p" ^ path_str p ^ ") " ^ show_recipe a ^ " " ^ show_recipe b ^ ")"
  | RDatnMul (c, xs) ->
      "(datnmul " ^ recipe_num c ^ String.concat "" (List.map (fun (x, t) -> " " ^ show_recipe x ^ " " ^ show_recipe t) xs) ^ ")"
  | RCreate (p, xs) -> "(create (p" ^ path_str p ^ ")" ^ l xs ^ ")"
  | RRawConj a -> "(rawconj " ^ show_recipe a ^ ")"

let show_rr (r : recipe res) : string =
  match r with
  | Ok x -> show_recipe x
  | _ -> show_err r

let () =
  try
    while true do
      let line = input_line stdin in
      (try
        let e = expr_of_string (String.trim line) in
        let nd = as_numer_denom e in
        let nne = match nd with
          | Ok (a, b) -> if no_neg_exp_top a && no_neg_exp_top b then "1" else "0"
          | _ -> "-" in
        print_endline (String.concat "\t" [
          "ND:" ^ show_pair nd;
          "RI:" ^ show_pair (as_real_imag e);
          "XE:" ^ show_rr (expand_as_exp e);
          "NNE:" ^ nne;
          "EXP=" ^ show_rr (rewrite_as RwExp e);
          "SIN=" ^ show_rr (rewrite_as RwSin e);
          "COS=" ^ show_rr (rewrite_as RwCos e);
          "T2S=" ^ show_recipe (trig_to_sqrt e);
          "CONJ=" ^ show_rr (conjugate e) ])
      with
      | Unsupported m -> print_endline ("UNSUPPORTED " ^ m)
      | Failure m -> print_endline ("FAIL " ^ m)
      | Not_found -> print_endline "FAIL not found"
      | Stack_overflow -> print_endline "FAIL stack overflow")
    done
  with End_of_file -> ()
