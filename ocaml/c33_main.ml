(* Reader/printer around the extracted C33 model.
   input : one history per line, tokens
           S k | G limit | C | F 0|1 | N id limit | X id | D id
   output: one line per history, one field per op separated by ';' *)
open Sieve_model

let rec pos_of_int (n : int) : positive =
  if n = 1 then XH else if n land 1 = 0 then XO (pos_of_int (n lsr 1)) else XI (pos_of_int (n lsr 1))
let n_of_int (n : int) : n = if n = 0 then N0 else Npos (pos_of_int n)
let rec int_of_pos = function XH -> 1 | XO p -> 2 * int_of_pos p | XI p -> 2 * int_of_pos p + 1
let int_of_n = function N0 -> 0 | Npos p -> int_of_pos p

let m61 = (1 lsl 61) - 1
let checksum (l : int list) =
  let rec go i acc = function [] -> acc | x :: r -> go (i + 1) ((acc + (x mod m61) * (i mod 1000003)) mod m61) r in
  go 1 0 l

let show_out = function
  | OutPrimes ps ->
      let l = List.map int_of_n ps in
      let last = List.fold_left (fun _ x -> x) 0 l in
      Printf.sprintf "P:%d:%d:%d" (List.length l) last (checksum l)
  | OutPrime p -> Printf.sprintf "p:%d" (int_of_n p)
  | OutUnit -> "u"

let show_res = function
  | Ok o -> show_out o
  | ErrOOB (i, l) -> Printf.sprintf "OOB:%d:%d" (int_of_n i) (int_of_n l)
  | ErrFuel -> "FUEL"
  | ErrExn c -> Printf.sprintf "EXN:%d" (int_of_n c)

let parse_ops (line : string) : op list =
  let toks = List.filter (fun s -> s <> "") (String.split_on_char ' ' line) in
  let rec go = function
    | [] -> []
    | "S" :: k :: r -> OSetSize (n_of_int (int_of_string k)) :: go r
    | "G" :: l :: r -> OGen (n_of_int (int_of_string l)) :: go r
    | "C" :: r -> OClear :: go r
    | "F" :: b :: r -> OSetClear (b = "1") :: go r
    | "N" :: id :: l :: r -> ONew (n_of_int (int_of_string id), n_of_int (int_of_string l)) :: go r
    | "X" :: id :: r -> ONext (n_of_int (int_of_string id)) :: go r
    | "D" :: id :: r -> ODel (n_of_int (int_of_string id)) :: go r
    | t :: _ -> failwith ("bad token " ^ t)
  in go toks

let () =
  try
    while true do
      let line = input_line stdin in
      let outs = run init (parse_ops line) in
      print_endline (String.concat ";" (List.map show_res outs))
    done
  with End_of_file -> ()
