(* Reader/printer around the extracted number-tower model (coq/Num/NumModel.v).
   input : one case per line   <op> <num> <num>
           numbers  I:<dec>  R:<dec>/<dec>  C:<re>,<im> (parts <dec> or <dec>/<dec>)
                    D:<16 hex>  CD:<16 hex>,<16 hex>  INF:<1|-1|0>  NAN
   output: the result in the same form, T/F/U for relations, P:<flags> for pred,
           EXN:<code> for exceptions, CRASH:8 for SIGFPE, LIBM when the result needs libm *)
open Num_model

let rec pos_of_int (n : int) : positive =
  if n = 1 then XH else if n land 1 = 0 then XO (pos_of_int (n lsr 1)) else XI (pos_of_int (n lsr 1))
let z_of_int (n : int) : z = if n = 0 then Z0 else if n > 0 then Zpos (pos_of_int n) else Zneg (pos_of_int (-n))
let rec int_of_pos = function XH -> 1 | XO p -> 2 * int_of_pos p | XI p -> 2 * int_of_pos p + 1
let int_of_z = function Z0 -> 0 | Zpos p -> int_of_pos p | Zneg p -> - (int_of_pos p)
let int_of_n = function N0 -> 0 | Npos p -> int_of_pos p

let chunk = 1_000_000_000
let zchunk = z_of_int chunk

(* decimal string (optional leading '-') -> z *)
let z_of_string (s : string) : z =
  let neg = String.length s > 0 && s.[0] = '-' in
  let s = if neg then String.sub s 1 (String.length s - 1) else s in
  let len = String.length s in
  if len = 0 then failwith "empty integer";
  let first = len mod 9 in
  let acc = ref Z0 in
  let pos = ref 0 in
  if first > 0 then begin acc := z_of_int (int_of_string (String.sub s 0 first)); pos := first end;
  while !pos < len do
    let c = int_of_string (String.sub s !pos 9) in
    acc := Z.add (Z.mul !acc zchunk) (z_of_int c);
    pos := !pos + 9
  done;
  if neg then Z.opp !acc else !acc

let string_of_z (x : z) : string =
  match x with
  | Z0 -> "0"
  | _ ->
    let neg = (match x with Zneg _ -> true | _ -> false) in
    let a = ref (if neg then Z.opp x else x) in
    let parts = ref [] in
    while !a <> Z0 do
      let (q, r) = Z.div_eucl !a zchunk in
      parts := int_of_z r :: !parts;
      a := q
    done;
    let b = Buffer.create 64 in
    if neg then Buffer.add_char b '-';
    (match !parts with
     | [] -> Buffer.add_char b '0'
     | p :: rest ->
       Buffer.add_string b (string_of_int p);
       List.iter (fun c -> Buffer.add_string b (Printf.sprintf "%09d" c)) rest);
    Buffer.contents b

(* 16 hex digits <-> n *)
let n_of_hex (s : string) : n =
  let v = ref Z0 in
  String.iter (fun c ->
      let d = match c with
        | '0'..'9' -> Char.code c - 48
        | 'a'..'f' -> Char.code c - 87
        | 'A'..'F' -> Char.code c - 55
        | _ -> failwith "bad hex" in
      v := Z.add (Z.mul !v (z_of_int 16)) (z_of_int d)) s;
  Z.to_N !v

let hex_of_n (x : n) : string =
  let a = ref (Z.of_N x) in
  let digits = Bytes.make 16 '0' in
  let i = ref 15 in
  while !a <> Z0 && !i >= 0 do
    let (q, r) = Z.div_eucl !a (z_of_int 16) in
    Bytes.set digits !i "0123456789abcdef".[int_of_z r];
    a := q; decr i
  done;
  Bytes.to_string digits

let pos_of_z = function Zpos p -> p | _ -> failwith "denominator must be positive"

(* "n" or "n/d" -> (z, positive) *)
let parse_q (s : string) : z * positive =
  match String.index_opt s '/' with
  | None -> (z_of_string s, XH)
  | Some i -> (z_of_string (String.sub s 0 i), pos_of_z (z_of_string (String.sub s (i + 1) (String.length s - i - 1))))

let show_q (n : z) (d : positive) : string =
  if d = XH then string_of_z n else string_of_z n ^ "/" ^ string_of_z (Zpos d)

let parse_num (s : string) : number =
  if s = "NAN" then NNaN
  else
    let i = String.index s ':' in
    let tag = String.sub s 0 i and body = String.sub s (i + 1) (String.length s - i - 1) in
    match tag with
    | "I" -> NInt (z_of_string body)
    | "R" -> let (n, d) = parse_q body in NRat (n, d)
    | "C" ->
      let j = String.index body ',' in
      let (rn, rd) = parse_q (String.sub body 0 j) in
      let (imn, imd) = parse_q (String.sub body (j + 1) (String.length body - j - 1)) in
      NCplx (rn, rd, imn, imd)
    | "D" -> NDbl (n_of_hex body)
    | "CD" ->
      let j = String.index body ',' in
      NCDbl (n_of_hex (String.sub body 0 j), n_of_hex (String.sub body (j + 1) (String.length body - j - 1)))
    | "INF" -> NInf (z_of_string body)
    | _ -> failwith ("bad number " ^ s)

let show_num = function
  | NInt z -> "I:" ^ string_of_z z
  | NRat (n, d) -> "R:" ^ string_of_z n ^ "/" ^ string_of_z (Zpos d)
  | NCplx (rn, rd, imn, imd) -> "C:" ^ show_q rn rd ^ "," ^ show_q imn imd
  | NDbl b -> "D:" ^ hex_of_n (canon_bits b)
  | NCDbl (re, im) -> "CD:" ^ hex_of_n (canon_bits re) ^ "," ^ hex_of_n (canon_bits im)
  | NInf d -> "INF:" ^ string_of_z d
  | NNaN -> "NAN"

let show_err = function
  | ErrOOB (i, l) -> Printf.sprintf "OOB:%d:%d" (int_of_n i) (int_of_n l)
  | ErrFuel -> "FUEL"
  | ErrExn c ->
    let c = int_of_n c in
    if c = 98 then "LIBM" else if c = 208 then "CRASH:8" else if c = 99 then "NOTNUM" else Printf.sprintf "EXN:%d" c
  | Ok _ -> assert false

let show_res = function Ok x -> show_num x | e -> show_err e
let show_rel = function
  | Ok (Some true) -> "T" | Ok (Some false) -> "F" | Ok None -> "U"
  | ErrOOB (i, l) -> show_err (ErrOOB (i, l)) | ErrFuel -> "FUEL" | ErrExn c -> show_err (ErrExn c)

let as_int_z = function NInt z -> z | _ -> failwith "mkrat expects integers"

let guard_names = ["dbl-times-int0"; "zoo-times-complex"; "badd-zero-float"; "badd-zero-sum";
                   "rat-div-cplx"; "inexact-conv"; "dblinf-infty"]

let run_line (line : string) : string =
  match List.filter (fun s -> s <> "") (String.split_on_char ' ' line) with
  | ["guards"; _; sa; sb] ->
    let a = parse_num sa and b = parse_num sb in
    let fl = guard_flags a b in
    let names = List.filter_map (fun (n, f) -> if f then Some n else None) (List.combine guard_names fl) in
    if names = [] then "-" else String.concat "," names
  | [op; sa; sb] ->
    let a = parse_num sa and b = parse_num sb in
    let arith o = show_res (run_op o a b) in
    let rel o = show_rel (run_rel o a b) in
    (match op with
     | "add" -> arith OAdd | "sub" -> arith OSub | "mul" -> arith OMul | "div" -> arith ODiv
     | "pow" -> arith OPow | "rsub" -> arith ORsub | "rdiv" -> arith ORdiv | "rpow" -> arith ORpow
     | "badd" -> arith OBAdd | "bmul" -> arith OBMul | "neg" -> arith ONeg
     | "lt" -> rel RLt | "le" -> rel RLe | "gt" -> rel RGt | "ge" -> rel RGe
     | "eq" -> rel REq | "ne" -> rel RNe
     | "pred" -> "P:" ^ String.concat "" (List.map (fun x -> if x then "1" else "0") (run_pred a))
     | "mkrat" -> show_res (mk_rat (as_int_z a) (as_int_z b))
     | "mkcplx" -> show_res (mk_cplx a b)
     | "eqb" -> if num_eqb a b then "T" else "F"
     | "cmp" -> "Z:" ^ string_of_z (num_cmp a b)
     | _ -> "BADOP")
  | _ -> "BADLINE"

let () =
  try
    while true do
      let line = input_line stdin in
      print_endline (try run_line line with Failure m -> "BADCASE:" ^ m | Not_found -> "BADCASE")
    done
  with End_of_file -> ()
