(* C31 -- series_sinh / series_cosh (through exp and its inverse), and uniqueness for the
   coupled systems  y1' = g y2,  y2' = sg * g y1  (sg = 1: sinh/cosh, sg = -1: sin/cos). *)
From Coq Require Import QArith Qring Qfield Setoid Morphisms Lia List ZArith NArith.
From SE Require Import C31.SeriesModel C31.PS C31.Sem C31.Invert C31.LogAtan C31.Exp.
Local Open Scope Q_scope.
Local Open Scope res_scope.
Local Arguments Z.eqb : simpl never.
Local Arguments Z.of_nat : simpl never.
Local Arguments inject_Z : simpl never.

(* ------------------------------------------------------------------ uniqueness for pairs *)
Theorem ode_unique_pair (g : ps) (sg : Q) (n : nat) (y1 y2 z1 z2 : ps) :
  eqn n (pD y1) (g * y2)%ps -> eqn n (pD y2) (pscale sg (g * y1)%ps) ->
  eqn n (pD z1) (g * z2)%ps -> eqn n (pD z2) (pscale sg (g * z1)%ps) ->
  y1 O == z1 O -> y2 O == z2 O ->
  eqn (S n) y1 z1 /\ eqn (S n) y2 z2.
Proof.
  intros Hy1 Hy2 Hz1 Hz2 H1 H2.
  assert (G : forall m, (m <= S n)%nat -> eqn m y1 z1 /\ eqn m y2 z2).
  { induction m; intros Hm; [split; apply eqn_0|].
    destruct (IHm ltac:(lia)) as [I1 I2].
    destruct m as [|m'].
    - split; intros k Hk; assert (k = O) by lia; subst k; assumption.
    - assert (E1 : pD y1 m' == pD z1 m').
      { rewrite (Hy1 m') by lia. rewrite (Hz1 m') by lia.
        apply (eqn_mul (S m') g g y2 z2 (eqn_refl _ _) I2). lia. }
      assert (E2 : pD y2 m' == pD z2 m').
      { rewrite (Hy2 m') by lia. rewrite (Hz2 m') by lia. unfold pscale.
        rewrite (eqn_mul (S m') g g y1 z1 (eqn_refl _ _) I1 m') by lia. reflexivity. }
      unfold pD in E1, E2.
      split; intros k Hk; (destruct (Nat.eq_dec k (S m')) as [->|]; [|first [apply I1|apply I2]; lia]).
      + apply (Qmult_inj_l _ _ (qnat (S m')) (qnat_S_neq0 m')). exact E1.
      + apply (Qmult_inj_l _ _ (qnat (S m')) (qnat_S_neq0 m')). exact E2. }
  apply G. lia.
Qed.

(* ------------------------------------------------------------------ derivative of an inverse *)
Lemma pD_inverse_exp (n : nat) (g e ie : ps) :
  ~ e O == 0 -> eqn n (pD e) (g * e)%ps -> eqn (S n) (ie * e)%ps p1 ->
  eqn n (pD ie) (- (g * ie))%ps.
Proof.
  intros He Hd Hi.
  apply (cancel_unit n _ _ e He).
  assert (A : eqn n (pD (ie * e)%ps) p0).
  { rewrite (eqn_pD n _ _ Hi). apply peq_eqn. apply pD_C. }
  rewrite pD_mul in A.
  assert (B : eqn n (pD ie * e)%ps (- (ie * pD e))%ps).
  { apply (proj2 (eqn_vge_sub _ _ _)).
    apply (vge_peq n (pD ie * e + ie * pD e)%ps); [ring|]. apply (proj1 (vge_eqn _ _)). exact A. }
  rewrite B, Hd. apply peq_eqn. ring.
Qed.

(* ------------------------------------------------------------------ sinh and cosh *)
Lemma psub_pconst_0 s c : qis0 c = true -> psub s (pconst c) = s.
Proof. intros H. unfold pconst. rewrite H. reflexivity. Qed.

Lemma half_ok : qinv (2 # 1) == 1 # 2.
Proof. rewrite qinv_ok. reflexivity. Qed.

Theorem sinh_cosh_spec s prec :
  wf s -> coef s 0 == 0 -> (0 < prec < 2147483648)%N ->
  exists rs rc, series_sinh s prec = Ok rs /\ series_cosh s prec = Ok rc /\
    wf rs /\ wf rc /\ den rs O == 0 /\ den rc O == 1 /\
    eqn (N.to_nat prec - 1) (pD (den rs)) (pD (den s) * den rc)%ps /\
    eqn (N.to_nat prec - 1) (pD (den rc)) (pD (den s) * den rs)%ps.
Proof.
  intros Ws S0 Hp. unfold series_sinh, series_cosh.
  assert (Hq : qis0 (find_cf s 0) = true).
  { rewrite (qis0_find_cf s 0 (proj1 Ws) S0). reflexivity. }
  rewrite (psub_pconst_0 s _ Hq), Hq.
  destruct (exp_spec s prec Ws S0 Hp) as (e & Ee & We & E0 & HE).
  rewrite Ee. cbn [bind].
  assert (E0n : ~ coef e 0 == 0) by (change (coef e 0) with (den e O); rewrite E0; discriminate).
  destruct (invert_spec e prec We E0n (proj2 Hp)) as (ie & Ei & Wi & HI).
  rewrite Ei. cbn [bind].
  unfold pdiv_q. change (qis0 (2 # 1)) with false. cbv match.
  set (rs := pmul_full (psub e ie) (pconst (qinv (2 # 1)))).
  set (rc := pmul_full (padd e ie) (pconst (qinv (2 # 1)))).
  exists rs, rc. split; [reflexivity|]. split; [reflexivity|].
  assert (Wrs : wf rs) by (apply wf_pmul_full; [apply wf_psub; assumption|apply wf_pconst]).
  assert (Wrc : wf rc) by (apply wf_pmul_full; [apply wf_padd; assumption|apply wf_pconst]).
  assert (Drs : den rs =p pscale (1 # 2) (den e - den ie)%ps).
  { unfold rs. rewrite den_pmul_full; [|apply wf_psub; assumption|apply wf_pconst].
    rewrite den_psub, den_pconst, half_ok, pmul_comm, pC_mul. reflexivity. }
  assert (Drc : den rc =p pscale (1 # 2) (den e + den ie)%ps).
  { unfold rc. rewrite den_pmul_full; [|apply wf_padd; assumption|apply wf_pconst].
    rewrite den_padd, den_pconst, half_ok, pmul_comm, pC_mul. reflexivity. }
  assert (I0 : den ie O == 1).
  { assert (A := HI O ltac:(lia)). rewrite pmul_coef0, E0 in A. change (p1 O) with 1 in A.
    rewrite <- A. ring. }
  split; [exact Wrs|]. split; [exact Wrc|].
  split; [rewrite (Drs O); unfold pscale, psub_s; rewrite E0, I0; reflexivity|].
  split; [rewrite (Drc O); unfold pscale, padd_s; rewrite E0, I0; reflexivity|].
  set (n := (N.to_nat prec - 1)%nat) in *.
  assert (HDI : eqn n (pD (den ie)) (- (pD (den s) * den ie))%ps).
  { apply (pD_inverse_exp n (pD (den s)) (den e) (den ie)).
    - rewrite E0. discriminate.
    - exact HE.
    - replace (S n) with (N.to_nat prec) by (unfold n; lia). exact HI. }
  split.
  - rewrite Drs, Drc, pD_scale, pD_sub. rewrite <- !pC_mul. rewrite HE, HDI. apply peq_eqn. ring.
  - rewrite Drs, Drc, pD_scale, pD_add. rewrite <- !pC_mul. rewrite HE, HDI. apply peq_eqn. ring.
Qed.
