(* C31 obligation: series_exp (s == 0, the fast path s == x, and the Newton iteration
   r <- r (1 + s - log r) along step_list) solves  y(0) = 1,  y' = s' y  modulo x^(prec-1);
   by uniqueness its coefficients below x^prec are those of exp(s). *)
From Coq Require Import QArith List ZArith NArith.
From SE Require Import C31.VisitorModel.
From SE Require Import C31.SeriesSpec C31.Invert C31.SeriesProofs.
Local Open Scope Q_scope.
Theorem C31_exp_spec :
  forall (s : poly) (prec : N),
    wfb s = true -> const0 s = true -> prec_ok prec = true ->
    exists r, series_exp s prec = Ok r /\ wf r /\ den r O == 1 /\
              eqn (N.to_nat prec - 1) (pD (den r)) (pD (den s) * den r)%ps.
Proof. exact exp_spec_b. Qed.
Theorem C31_exp_taylor :
  forall (s : poly) (prec : N) (r : poly) (y : ps),
    wfb s = true -> const0 s = true -> prec_ok prec = true ->
    series_exp s prec = Ok r ->
    y O == 1 -> pD y =p (pD (den s) * y)%ps ->
    eqn (N.to_nat prec) (den r) y.
Proof. exact exp_taylor. Qed.
Print Assumptions C31_exp_spec.
Print Assumptions C31_exp_taylor.
