(* C31 obligation: UnivariateSeries::pow (square and multiply with truncation) is the power
   modulo x^prec. *)
From Coq Require Import QArith List ZArith NArith.
From SE Require Import C31.VisitorModel.
From SE Require Import C31.SeriesSpec C31.Invert C31.SeriesProofs.
Local Open Scope Q_scope.
Theorem C31_pow_spec :
  forall (x : poly) (p : positive) (prec : N),
    wfb x = true -> (prec < 2147483648)%N ->
    exists r, ppow x (Zpos p) prec = Ok r /\ wf r /\
              eqn (N.to_nat prec) (den r) (ppow_s (den x) (Pos.to_nat p)).
Proof. exact pow_spec. Qed.
Print Assumptions C31_pow_spec.
