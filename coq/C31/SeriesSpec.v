(* C31 -- specification vocabulary for the series theorems.

   * formal power series over Q are coefficient functions [ps = nat -> Q] (PS.v): ring
     operations (Cauchy product), [eqn n a b] = congruence modulo x^n, derivative [pD],
     integral [pI];
   * [den p] is the power series denoted by a model polynomial (Sem.v), [wf p] says that
     the association list is a std::map (strictly increasing keys) without negative keys;
   * the boolean guards below are the hypotheses of the guarded theorems.

   The transcendental functions are specified by their first-order initial value problems
   (y(0) and y' = F(y) modulo x^(n-1)); [ode_unique] shows that such a problem has at most one
   solution modulo x^n, so the coefficients computed by the model are the Taylor
   coefficients of the analytic function solving the same problem (that last bridge, from
   formal to convergent series, is the standard one and is not formalised). *)
From Coq Require Import QArith Lia List ZArith NArith Bool.
From SE Require Export C31.SeriesModel C31.PS C31.Sem.
Local Open Scope Z_scope.

Fixpoint sortedb (l : poly) : bool :=
  match l with
  | [] => true
  | (k, _) :: r => match r with [] => true | (k', _) :: _ => (k <? k') && sortedb r end
  end.
(* a std::map with non-negative keys: a truncated power series *)
Definition wfb (l : poly) : bool :=
  sortedb l && match l with [] => true | (k, _) :: _ => 0 <=? k end.
(* constant term c0 *)
Definition const0 (s : poly) : bool := qis0 (find_cf s 0).
Definition const1 (s : poly) : bool := Qeq_bool (find_cf s 0) 1.
Definition prec_ok (prec : N) : bool := ((0 <? prec) && (prec <? 2147483648))%N.

Lemma sortedb_keys l : sortedb l = true ->
  match l with [] => True | (k, _) :: r => keysP (fun k' => k < k') r end /\ sorted l.
Proof.
  induction l as [|[k v] r IH]; simpl; intros H; [split; exact I|].
  destruct r as [|[k' v'] r'].
  - split; [constructor|split; [constructor|exact I]].
  - apply andb_prop in H. destruct H as [H1 H2]. apply Z.ltb_lt in H1.
    destruct (IH H2) as [K S]. split.
    + constructor; [simpl; exact H1|]. apply (keysP_lt k'); [exact K|lia].
    + split; [|exact S]. constructor; [simpl; exact H1|]. apply (keysP_lt k'); [exact K|lia].
Qed.

Lemma wfb_wf l : wfb l = true -> wf l.
Proof.
  unfold wfb. intros H. apply andb_prop in H. destruct H as [H1 H2].
  destruct (sortedb_keys l H1) as [K S]. split; [exact S|].
  destruct l as [|[k v] r]; [constructor|].
  apply Z.leb_le in H2. constructor; [simpl; exact H2|].
  eapply keysP_impl; [|exact K]. intros k0 Hk0; simpl in Hk0; lia.
Qed.

Lemma const0_coef s : wfb s = true -> const0 s = true -> coef s 0 == 0.
Proof.
  intros W H. apply wfb_wf in W. rewrite <- (find_cf_coef s 0 (proj1 W)).
  apply qis0_true. exact H.
Qed.
Lemma const0_false_coef s : wfb s = true -> const0 s = false -> ~ coef s 0 == 0.
Proof.
  intros W H. apply wfb_wf in W. rewrite <- (find_cf_coef s 0 (proj1 W)).
  apply qis0_false. exact H.
Qed.
Lemma const1_coef s : wfb s = true -> const1 s = true -> coef s 0 == 1.
Proof.
  intros W H. apply wfb_wf in W. rewrite <- (find_cf_coef s 0 (proj1 W)).
  apply Qeq_bool_iff. exact H.
Qed.
Lemma prec_ok_lt prec : prec_ok prec = true -> (0 < prec < 2147483648)%N.
Proof.
  unfold prec_ok. intros H. apply andb_prop in H. destruct H as [H1 H2].
  apply N.ltb_lt in H1. apply N.ltb_lt in H2. lia.
Qed.
