(* C31 obligation: series_tan and series_tanh (Newton iterations r <- r + (s - atan r)(1 + r^2),
   r <- r + (s - atanh r)(1 - r^2) along step_list) solve  y(0) = 0,  y' = s' (1 +- y^2)
   modulo x^(prec-1); by uniqueness their coefficients below x^prec are those of tan(s), tanh(s). *)
From Coq Require Import QArith List ZArith NArith.
From SE Require Import C31.VisitorModel.
From SE Require Import C31.SeriesSpec C31.Invert C31.SeriesProofs.
Local Open Scope Q_scope.
Theorem C31_tan_spec :
  forall (s : poly) (prec : N),
    wfb s = true -> const0 s = true -> prec_ok prec = true ->
    exists r, series_tan s prec = Ok r /\ wf r /\ den r O == 0 /\
              eqn (N.to_nat prec - 1) (pD (den r)) (pD (den s) * (p1 + den r * den r))%ps.
Proof. exact tan_spec_b. Qed.
Theorem C31_tanh_spec :
  forall (s : poly) (prec : N),
    wfb s = true -> const0 s = true -> prec_ok prec = true ->
    exists r, series_tanh s prec = Ok r /\ wf r /\ den r O == 0 /\
              eqn (N.to_nat prec - 1) (pD (den r)) (pD (den s) * (p1 - den r * den r))%ps.
Proof. exact tanh_spec_b. Qed.
Theorem C31_tan_taylor :
  forall (s : poly) (prec : N) (r : poly) (y : ps),
    wfb s = true -> const0 s = true -> prec_ok prec = true ->
    series_tan s prec = Ok r ->
    y O == 0 -> pD y =p (pD (den s) * (p1 + y * y))%ps ->
    eqn (N.to_nat prec) (den r) y.
Proof. exact tan_taylor. Qed.
Theorem C31_tanh_taylor :
  forall (s : poly) (prec : N) (r : poly) (y : ps),
    wfb s = true -> const0 s = true -> prec_ok prec = true ->
    series_tanh s prec = Ok r ->
    y O == 0 -> pD y =p (pD (den s) * (p1 - y * y))%ps ->
    eqn (N.to_nat prec) (den r) y.
Proof. exact tanh_taylor. Qed.
Print Assumptions C31_tan_spec.
Print Assumptions C31_tanh_spec.
Print Assumptions C31_tan_taylor.
Print Assumptions C31_tanh_taylor.
