(* C31 -- series_nthroot for series with non-zero constant term: the Newton iteration
   R <- R + (R - R^(n+1) s/c)/n converges to (s/c)^(-1/n); the result is inverted (or not, for
   negative n) and scaled by the exact rational n-th root of the constant term c. *)
From Coq Require Import QArith Qring Qfield Setoid Morphisms Lia List ZArith NArith.
From SE Require Import C31.SeriesModel C31.PS C31.Sem C31.Invert C31.LogAtan C31.Exp.
Local Open Scope Q_scope.
Local Open Scope res_scope.
Local Arguments Z.eqb : simpl never.
Local Arguments Z.ltb : simpl never.
Local Arguments N.mul : simpl never.
Local Arguments N.div : simpl never.
Local Arguments N.ltb : simpl never.
Local Arguments Z.of_nat : simpl never.
Local Arguments inject_Z : simpl never.

(* ------------------------------------------------------------------ (1+u)^k = 1 + k u + u^2 w *)
Lemma binom_first_order (u : ps) k :
  exists w, ppow_s (p1 + u)%ps k =p (p1 + pC (qnat k) * u + u * u * w)%ps.
Proof.
  induction k.
  - exists p0. cbn [ppow_s]. assert (E : pC (qnat 0) =p p0) by (intros [|n]; reflexivity).
    rewrite E. ring.
  - destruct IHk as [w Hw]. exists (pC (qnat k) + w + u * w)%ps.
    cbn [ppow_s]. rewrite Hw.
    assert (E : pC (qnat (S k)) =p (pC (qnat k) + p1)%ps).
    { unfold p1. rewrite pC_add. apply pC_proper. apply qnat_S. }
    rewrite E. ring.
Qed.

(* one exact Newton step: if R^n sn = 1 - e then (R (1 + e/n))^n sn = 1 - e^2 * (...) *)
Lemma nthroot_newton_exact (R sn : ps) (k : nat) (m st : nat) :
  (1 <= k)%nat -> (st <= 2 * m)%nat ->
  eqn m (ppow_s R k * sn)%ps p1 ->
  eqn st (ppow_s (R * (p1 + pC (/ qnat k) * (p1 - ppow_s R k * sn)))%ps k * sn)%ps p1.
Proof.
  intros Hk Hst H.
  set (e := (p1 - ppow_s R k * sn)%ps).
  set (u := (pC (/ qnat k) * e)%ps).
  assert (Ve : vge m e).
  { unfold e. apply (proj1 (eqn_vge_sub _ _ _)). apply eqn_sym. exact H. }
  destruct (binom_first_order u k) as [w Hw].
  rewrite ppow_s_mul_base, Hw.
  assert (Eku : (pC (qnat k) * u)%ps =p e).
  { unfold u. rewrite pmul_assoc, pC_mulC.
    assert (E1 : qnat k * / qnat k == 1) by (field; apply qnat_neq0; exact Hk).
    rewrite E1. fold p1. ring. }
  assert (Id : (ppow_s R k * (p1 + pC (qnat k) * u + u * u * w) * sn)%ps
               =p (p1 - (e * e - (p1 - e) * (u * u * w)))%ps).
  { rewrite Eku. unfold e. ring. }
  rewrite Id. apply (proj2 (eqn_vge_sub _ _ _)).
  assert (Id2 : (p1 - (e * e - (p1 - e) * (u * u * w)) - p1)%ps
                =p (- (e * e) + (p1 - e) * (pC (/ qnat k) * pC (/ qnat k) * w) * (e * e))%ps).
  { unfold u. ring. }
  apply (vge_peq st _ _ (symmetry Id2)).
  assert (Vee : vge (m + m) (e * e)%ps) by (apply vge_mul; exact Ve).
  apply (vge_le (m + m)); [lia|].
  apply vge_add.
  - intros j Hj. unfold popp. rewrite (Vee j Hj). ring.
  - apply (vge_peq _ ((e * e) * ((p1 - e) * (pC (/ qnat k) * pC (/ qnat k) * w)))%ps); [ring|].
    apply vge_mul_l. exact Vee.
Qed.

(* ------------------------------------------------------------------ rational roots *)
Fixpoint qpown (q : Q) (k : nat) : Q := match k with O => 1 | S j => q * qpown q j end.

Global Instance qpown_proper : Proper (Qeq ==> eq ==> Qeq) qpown.
Proof.
  intros a b Hab k k' <-. induction k; cbn [qpown]; [reflexivity|]. apply Qmult_comp; assumption.
Qed.

Lemma pC_pow q k : ppow_s (pC q) k =p pC (qpown q k).
Proof. induction k; cbn [ppow_s qpown]; [reflexivity|]. rewrite IHk, pC_mulC. reflexivity. Qed.

(* numerator / denominator form, by induction with an explicit denominator power *)
Fixpoint ppown (b : positive) (k : nat) : positive :=
  match k with O => 1%positive | S j => (b * ppown b j)%positive end.
Lemma qpown_nd a b k : qpown (a # b) k == (a ^ Z.of_nat k)%Z # ppown b k.
Proof.
  induction k; cbn [qpown ppown]; [reflexivity|].
  rewrite IHk. rewrite Nat2Z.inj_succ, Z.pow_succ_r by lia. reflexivity.
Qed.
Lemma ppown_Z b k : Zpos (ppown b k) = (Zpos b ^ Z.of_nat k)%Z.
Proof.
  induction k; cbn [ppown]; [reflexivity|].
  rewrite Pos2Z.inj_mul, IHk, Nat2Z.inj_succ, Z.pow_succ_r by lia. reflexivity.
Qed.

Lemma iroot_bits_nonneg bits n v : forall r, (0 <= r)%Z -> (0 <= iroot_bits bits n v r)%Z.
Proof.
  induction bits; intros r Hr; cbn [iroot_bits]; [exact Hr|].
  destruct (Z.leb_spec (Z.pow_pos (r + 2 ^ Z.of_nat bits) n) v); apply IHbits; [|exact Hr].
  assert (0 <= 2 ^ Z.of_nat bits)%Z by (apply Z.pow_nonneg; lia). lia.
Qed.

Lemma qroot_proper c c' n : c == c' -> qroot c n = qroot c' n.
Proof. intros H. unfold qroot. rewrite (Qred_complete _ _ H). reflexivity. Qed.
Lemma qroot_one n : qroot 1 n = Ok 1.
Proof.
  unfold qroot. change (Qred 1) with 1. change (qis0 1) with false. change (Qnum 1 <? 0)%Z with false.
  cbv match. change (Qnum 1) with 1%Z. change (Z.pos (Qden 1)) with 1%Z.
  assert (E : iroot n 1 = 1%Z).
  { unfold iroot. change (Z.to_nat (Z.log2 1 + 1)) with 1%nat. cbn [iroot_bits].
    change (0 + 2 ^ Z.of_nat 0)%Z with 1%Z. rewrite Z.pow_pos_fold, Z.pow_1_l by lia.
    reflexivity. }
  rewrite E. rewrite Z.pow_pos_fold, Z.pow_1_l by lia. reflexivity.
Qed.

Lemma qroot_ok c (n : positive) r : qroot c n = Ok r -> qpown r (Pos.to_nat n) == c.
Proof.
  unfold qroot. set (c' := Qred c).
  assert (Ec : c' == c) by apply Qred_correct.
  destruct (qis0 c') eqn:E0.
  - intros H; injection H as <-. apply qis0_true in E0. rewrite <- Ec, E0.
    destruct (Pos.to_nat n) eqn:En; [lia|]. cbn [qpown]. ring.
  - destruct (Z.ltb_spec (Qnum c') 0); [discriminate|].
    set (a := iroot n (Qnum c')). set (b := iroot n (Zpos (Qden c'))).
    set (q := Qred (a # Z.to_pos b)).
    destruct ((Z.pow_pos a n =? Qnum c')%Z && (Z.pow_pos b n =? Z.pos (Qden c'))%Z) eqn:E; [|discriminate].
    intros H'; injection H' as <-.
    apply andb_prop in E. destruct E as [E1 E2].
    apply Z.eqb_eq in E1. apply Z.eqb_eq in E2.
    unfold q. rewrite Qred_correct.
    assert (Hb0 : (0 <= b)%Z) by (apply iroot_bits_nonneg; lia).
    assert (Hb : (0 < b)%Z).
    { destruct (Z.eq_dec b 0) as [Hz|]; [|lia]. rewrite Hz in E2.
      rewrite Z.pow_pos_fold, Z.pow_0_l in E2 by lia. discriminate. }
    rewrite qpown_nd. rewrite <- Ec.
    unfold Qeq. cbn [Qnum Qden]. rewrite ppown_Z.
    rewrite positive_nat_Z. rewrite Z2Pos.id by exact Hb.
    rewrite <- !Z.pow_pos_fold. rewrite E1, E2. ring.
Qed.

(* ------------------------------------------------------------------ the Newton loop *)
Section Loop.
Variable s : poly.
Variable np : positive.          (* |n| *)
Variable ct : Q.
Hypothesis Ws : wf s.
Hypothesis Hct : ~ ct == 0.
Hypothesis Hs0 : coef s 0 == ct.
Let k := Pos.to_nat np.
Let sn := pmul_full s (pconst (qinv ct)).

Lemma wf_sn : wf sn.
Proof. apply wf_pmul_full; [exact Ws|apply wf_pconst]. Qed.
Lemma den_sn : den sn =p pscale (/ ct) (den s).
Proof.
  unfold sn. rewrite den_pmul_full; [|apply Ws|apply wf_pconst].
  rewrite den_pconst, pmul_comm, pC_mul. rewrite qinv_ok. reflexivity.
Qed.
Lemma sn_0 : den sn O == 1.
Proof.
  rewrite (den_sn O). unfold pscale. change (den s O) with (coef s 0). rewrite Hs0.
  field. exact Hct.
Qed.

Definition root_inv (m : N) (R : poly) : Prop :=
  wf R /\ den R O == 1 /\ eqn (N.to_nat m) (ppow_s (den R) k * den sn)%ps p1.

Lemma ppow_coef0 (a : ps) j : a O == 1 -> ppow_s a j O == 1.
Proof.
  intros H; induction j; cbn [ppow_s]; [reflexivity|].
  rewrite pmul_coef0, H, IHj. ring.
Qed.

Lemma root_step_ok : forall m st R,
  root_inv m R -> (st <= 2 * m)%N -> step_ok st ->
  exists R', (do pw <- ppow R (Zpos np + 1) st;
              do d <- pdiv_q (psub R (pmul pw sn st)) (qZ (Zpos np));
              Ok (padd R d)) = Ok R' /\ root_inv st R'.
Proof.
  intros m st R (WR & R0 & HR) Hst Hok. unfold step_ok in Hok.
  replace (Zpos np + 1)%Z with (Zpos (np + 1)) by lia.
  destruct (ppow_ok R (np + 1) st WR ltac:(lia)) as (pw & Epw & Wpw & Hpw).
  rewrite Epw. cbn [bind].
  assert (Hz : qis0 (qZ (Zpos np)) = false) by (apply qis0_false; unfold qZ, Qeq; simpl; lia).
  unfold pdiv_q. rewrite Hz. cbn [bind].
  set (t := pmul pw sn st).
  assert (Wt : wf t) by (apply wf_pmul; [apply Wpw|apply wf_sn]).
  set (d := pmul_full (psub R t) (pconst (qinv (qZ (Zpos np))))).
  assert (Wd : wf d) by (apply wf_pmul_full; [apply wf_psub; assumption|apply wf_pconst]).
  exists (padd R d). split; [reflexivity|].
  assert (WR' : wf (padd R d)) by (apply wf_padd; assumption).
  assert (Eq : qinv (qZ (Zpos np)) == / qnat k).
  { rewrite qinv_ok. unfold qZ, qnat, k. rewrite positive_nat_Z. reflexivity. }
  (* the new iterate modulo x^st *)
  assert (ER : eqn (N.to_nat st) (den (padd R d))
                   (den R * (p1 + pC (/ qnat k) * (p1 - ppow_s (den R) k * den sn)))%ps).
  { rewrite den_padd. unfold d. rewrite den_pmul_full; [|apply wf_psub; assumption|apply wf_pconst].
    rewrite den_psub, den_pconst, Eq.
    assert (Et : eqn (N.to_nat st) (den t) (den R * ppow_s (den R) k * den sn)%ps).
    { unfold t. rewrite (eqn_pmul pw sn st (proj1 wf_sn) (proj2 Wpw) (proj2 wf_sn)) by lia.
      rewrite Hpw. replace (Pos.to_nat (np + 1)) with (S k) by (unfold k; lia).
      cbn [ppow_s]. reflexivity. }
    rewrite Et. apply peq_eqn. ring. }
  split; [exact WR'|]. split.
  - rewrite (ER O) by lia. rewrite pmul_coef0. unfold padd_s, psub_s. rewrite pmul_coef0.
    rewrite pmul_coef0. rewrite R0, (ppow_coef0 _ k R0), sn_0. change (p1 O) with 1.
    change (pC (/ qnat k) O) with (/ qnat k). ring.
  - rewrite (eqn_ppow _ _ _ k ER).
    apply (nthroot_newton_exact (den R) (den sn) k (N.to_nat m)); [unfold k; lia|lia|exact HR].
Qed.

Lemma root_loop_ok prec : (0 < prec < 2147483648)%N ->
  exists R, fold_res (fun res_p step =>
                 do pw <- ppow res_p (Zpos np + 1) step;
                 do d <- pdiv_q (psub res_p (pmul pw sn step)) (qZ (Zpos np));
                 Ok (padd res_p d)) (step_list prec) (pint 1) = Ok R /\ root_inv prec R.
Proof.
  intros Hp.
  destruct (fold_res_chain root_inv _ root_step_ok (step_list prec) 1%N (pint 1)) as (R & E & I).
  - split; [apply wf_pconst|]. split; [rewrite (den_pint_1 O); reflexivity|].
    intros j Hj. assert (j = O) by lia; subst j. rewrite pmul_coef0, sn_0.
    rewrite (ppow_coef0 _ k (den_pint_1 O)). reflexivity.
  - apply step_list_chain.
  - apply step_list_ok. exact Hp.
  - rewrite step_list_last in I. exists R. split; assumption.
Qed.
End Loop.

(* ------------------------------------------------------------------ series_nthroot *)
Lemma nthroot_unfold s n prec v r0 :
  s = (0%Z, v) :: r0 -> (n =? 0)%Z = false -> (n =? 1)%Z = false -> (n =? -1)%Z = false ->
  series_nthroot s n prec =
  (do ctroot <- qroot v (Z.to_pos (Z.abs n));
   do sn <- pdiv_q s v;
   do res_p <- fold_res (fun res_p step =>
                   do pw <- ppow res_p (Z.abs n + 1) step;
                   do d <- pdiv_q (psub res_p (pmul pw sn step)) (qZ (Z.abs n));
                   Ok (padd res_p d)) (step_list prec) (pint 1);
   if (n <? 0)%Z then pdiv_q res_p ctroot
   else do iv <- series_invert res_p prec; Ok (pmul_q iv ctroot)).
Proof.
  intros Es H0 H1 Hm1. unfold series_nthroot. rewrite H0, H1, Hm1.
  assert (Hc : find_cf s 0 = v) by (rewrite Es; cbn [find_cf]; rewrite Z.eqb_refl; reflexivity).
  assert (Hl : ldegree s = Ok 0%Z) by (rewrite Es; reflexivity).
  rewrite Hl. cbn [bind].
  rewrite Z.rem_0_l by (intro Hn; subst n; discriminate).
  rewrite !Z.eqb_refl. cbn [negb bind]. rewrite Hc. reflexivity.
Qed.

Theorem nthroot_spec s (np : positive) prec c :
  wf s -> ~ coef s 0 == 0 -> (2 <= Zpos np)%Z -> (0 < prec < 2147483648)%N ->
  qroot (find_cf s 0) np = Ok c ->
  exists r, series_nthroot s (Zpos np) prec = Ok r /\ wf r /\ den r O == c /\
            eqn (N.to_nat prec) (ppow_s (den r) (Pos.to_nat np)) (den s).
Proof.
  intros Ws H0 Hn Hp Hq.
  destruct (wf_head s Ws H0) as (v & r0 & Es & Ev).
  assert (Hc : find_cf s 0 = v) by (rewrite Es; cbn [find_cf]; rewrite Z.eqb_refl; reflexivity).
  rewrite Hc in Hq.
  assert (Hv : ~ v == 0) by (rewrite Ev; exact H0).
  rewrite (nthroot_unfold s (Zpos np) prec v r0 Es);
    [|apply Z.eqb_neq; lia|apply Z.eqb_neq; lia|apply Z.eqb_neq; lia].
  change (Z.abs (Z.pos np)) with (Zpos np). change (Z.to_pos (Z.pos np)) with np.
  rewrite Hq. cbn [bind]. unfold pdiv_q at 1.
  assert (Hvz : qis0 v = false) by (apply qis0_false; exact Hv). rewrite Hvz. cbn [bind].
  destruct (root_loop_ok s np v Ws Hv (Qeq_sym _ _ Ev) prec Hp) as (R & ER & WR & R0 & HR).
  rewrite ER. cbn [bind].
  destruct (Z.ltb_spec (Zpos np) 0); [lia|].
  assert (R0n : ~ coef R 0 == 0) by (change (coef R 0) with (den R O); rewrite R0; discriminate).
  destruct (invert_spec R prec WR R0n (proj2 Hp)) as (iv & Ei & Wi & Hi).
  rewrite Ei. cbn [bind].
  exists (pmul_q iv c). split; [reflexivity|]. split; [apply wf_pmul_q; exact Wi|].
  split.
  { rewrite (den_pmul_q iv c (proj2 Wi) O). unfold pscale.
    assert (A := Hi O ltac:(lia)). rewrite pmul_coef0, R0 in A. change (p1 O) with 1 in A.
    setoid_replace (den iv O) with 1 by (rewrite <- A; ring). ring. }
  set (k := Pos.to_nat np). fold k in HR.
  rewrite (den_pmul_q iv c (proj2 Wi)). rewrite <- pC_mul.
  rewrite ppow_s_mul_base, pC_pow.
  assert (Hq' := qroot_ok v np c Hq). fold k in Hq'. rewrite Hq'.
  (* iv^k = sn since R^k sn = 1 and iv R = 1 *)
  set (sn := pmul_full s (pconst (qinv v))) in *.
  assert (Dsn : den sn =p pscale (/ v) (den s)) by (apply den_sn; assumption).
  assert (E1 : eqn (N.to_nat prec) (ppow_s (den iv) k) (den sn)).
  { assert (A : eqn (N.to_nat prec) (ppow_s (den iv) k * ppow_s (den R) k)%ps p1).
    { rewrite <- ppow_s_mul_base. rewrite (eqn_ppow _ _ _ k Hi).
      clear. induction k; cbn [ppow_s]; [reflexivity|]. rewrite IHk. apply peq_eqn. ring. }
    transitivity (ppow_s (den iv) k * (ppow_s (den R) k * den sn))%ps.
    - rewrite HR. apply peq_eqn. ring.
    - assert (A2 : (ppow_s (den iv) k * (ppow_s (den R) k * den sn))%ps
                   =p ((ppow_s (den iv) k * ppow_s (den R) k) * den sn)%ps) by ring.
      rewrite A2, A. apply peq_eqn. ring. }
  rewrite E1, Dsn. apply peq_eqn. rewrite pC_mul. intros j. unfold pscale. field. exact Hv.
Qed.

Theorem nthroot_inv_spec s (np : positive) prec c :
  wf s -> ~ coef s 0 == 0 -> (2 <= Zpos np)%Z -> (0 < prec < 2147483648)%N ->
  qroot (find_cf s 0) np = Ok c -> ~ c == 0 ->
  exists r, series_nthroot s (Zneg np) prec = Ok r /\ wf r /\ den r O == / c /\
            eqn (N.to_nat prec) (ppow_s (den r) (Pos.to_nat np) * den s)%ps p1.
Proof.
  intros Ws H0 Hn Hp Hq Hc0.
  destruct (wf_head s Ws H0) as (v & r0 & Es & Ev).
  assert (Hc : find_cf s 0 = v) by (rewrite Es; cbn [find_cf]; rewrite Z.eqb_refl; reflexivity).
  rewrite Hc in Hq.
  assert (Hv : ~ v == 0) by (rewrite Ev; exact H0).
  rewrite (nthroot_unfold s (Zneg np) prec v r0 Es);
    [|apply Z.eqb_neq; lia|apply Z.eqb_neq; lia|apply Z.eqb_neq; lia].
  change (Z.abs (Z.neg np)) with (Zpos np). change (Z.to_pos (Z.pos np)) with np.
  rewrite Hq. cbn [bind]. unfold pdiv_q at 1.
  assert (Hvz : qis0 v = false) by (apply qis0_false; exact Hv). rewrite Hvz. cbn [bind].
  destruct (root_loop_ok s np v Ws Hv (Qeq_sym _ _ Ev) prec Hp) as (R & ER & WR & R0 & HR).
  rewrite ER. cbn [bind].
  destruct (Z.ltb_spec (Zneg np) 0); [|lia].
  unfold pdiv_q. assert (Hcz : qis0 c = false) by (apply qis0_false; exact Hc0). rewrite Hcz.
  eexists. split; [reflexivity|]. split; [apply wf_pmul_full; [exact WR|apply wf_pconst]|].
  split.
  { rewrite (den_pmul_full R (pconst (qinv c)) (proj2 WR) (proj2 (wf_pconst _)) O).
    rewrite pmul_coef0, R0, (den_pconst (qinv c) O). change (pC (qinv c) O) with (qinv c).
    rewrite qinv_ok. ring. }
  set (k := Pos.to_nat np). fold k in HR.
  rewrite den_pmul_full; [|apply WR|apply wf_pconst]. rewrite den_pconst, qinv_ok.
  rewrite ppow_s_mul_base, pC_pow.
  set (sn := pmul_full s (pconst (qinv v))) in *.
  assert (Dsn : den sn =p pscale (/ v) (den s)) by (apply den_sn; assumption).
  assert (Qp : qpown (/ c) k == / v).
  { assert (Hq' := qroot_ok v np c Hq). fold k in Hq'. rewrite <- Hq'.
    clear - Hc0. induction k; cbn [qpown]; [field; discriminate|].
    rewrite IHk. field. split; [|exact Hc0].
    clear IHk. induction k; cbn [qpown]; [discriminate|].
    intro Hz. apply Qmult_integral in Hz. destruct Hz; contradiction. }
  rewrite Qp.
  assert (Id : (ppow_s (den R) k * pC (/ v) * den s)%ps =p (ppow_s (den R) k * den sn)%ps).
  { rewrite Dsn, <- pC_mul. ring. }
  rewrite Id. exact HR.
Qed.
