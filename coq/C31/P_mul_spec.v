(* C31 obligation: UnivariateSeries::mul (sparse, truncated, with the early `break`) is the
   Cauchy product truncated at x^prec, and returns a well-formed map. *)
From Coq Require Import QArith List ZArith NArith.
From SE Require Import C31.VisitorModel.
From SE Require Import C31.SeriesSpec C31.Invert C31.SeriesProofs.
Local Open Scope Q_scope.
Theorem C31_mul_spec :
  forall (a b : poly) (prec : N),
    wfb a = true -> wfb b = true -> (prec < 2147483648)%N ->
    wf (pmul a b prec) /\ den (pmul a b prec) =p trunc (N.to_nat prec) (den a * den b)%ps.
Proof. exact mul_spec. Qed.
Print Assumptions C31_mul_spec.
