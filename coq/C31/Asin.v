(* C31 -- series_asin and series_asinh: integrals of s' * w where w is the inverse square root
   of 1 -+ s^2 computed by series_nthroot (and series_invert). *)
From Coq Require Import QArith Qring Qfield Setoid Morphisms Lia List ZArith NArith.
From SE Require Import C31.SeriesModel C31.PS C31.Sem C31.Invert C31.LogAtan C31.Exp C31.Nthroot.
Local Open Scope Q_scope.
Local Open Scope res_scope.
Local Arguments Z.eqb : simpl never.
Local Arguments Z.of_nat : simpl never.
Local Arguments inject_Z : simpl never.

(* square roots with the same non-zero constant term agree *)
Lemma sqrt_unique n (a b t : ps) :
  ~ t O == 0 -> ~ (a + b)%ps O == 0 ->
  eqn n (a * a * t)%ps p1 -> eqn n (b * b * t)%ps p1 -> eqn n a b.
Proof.
  intros Ht Hab Ha Hb.
  assert (E : eqn n (a * a)%ps (b * b)%ps).
  { apply (cancel_unit n _ _ t Ht). rewrite Ha, Hb. reflexivity. }
  apply (proj2 (eqn_vge_sub _ _ _)). apply (proj1 (vge_eqn _ _)).
  apply (cancel_unit n _ _ (a + b)%ps Hab).
  assert (Id : ((a - b) * (a + b))%ps =p (a * a - b * b)%ps) by ring.
  rewrite Id. assert (Z : (p0 * (a + b))%ps =p p0) by ring. rewrite Z.
  apply (proj1 (vge_eqn _ _)). apply (proj1 (eqn_vge_sub _ _ _)). exact E.
Qed.

Lemma find_cf_one t : sorted t -> coef t 0 == 1 -> forall n, qroot (find_cf t 0) n = Ok 1.
Proof.
  intros St H n. rewrite (qroot_proper _ 1 n); [apply qroot_one|].
  rewrite find_cf_coef by exact St. exact H.
Qed.

Theorem asin_spec s prec :
  wf s -> coef s 0 == 0 -> (1 < prec < 2147483648)%N ->
  exists r (w : ps), series_asin s prec = Ok r /\ wf r /\ den r O == 0 /\ w O == 1 /\
    eqn (N.to_nat prec - 1) (w * w * (p1 - den s * den s))%ps p1 /\
    pD (den r) =p (pD (den s) * w)%ps.
Proof.
  intros Ws S0 Hp. unfold series_asin.
  rewrite pred32_small by lia.
  destruct (ppow2_full s (prec - 1) Ws S0) as (s2 & E2 & W2 & H2 & Z2); [lia|].
  rewrite E2. cbn [bind].
  set (t := psub (pint 1) s2).
  assert (Wt : wf t) by (apply wf_psub; [apply wf_pconst|assumption]).
  assert (Dt : den t =p (p1 - den s2)%ps) by (unfold t; rewrite den_psub, den_pint_1; reflexivity).
  assert (T0 : coef t 0 == 1).
  { change (coef t 0) with (den t O). rewrite (Dt O). unfold psub_s. rewrite Z2.
    change (p1 O) with 1. ring. }
  assert (T0n : ~ coef t 0 == 0) by (rewrite T0; discriminate).
  destruct (nthroot_inv_spec t 2 (prec - 1) 1 Wt T0n ltac:(lia) ltac:(lia)
              (find_cf_one t (proj1 Wt) T0 2) ltac:(discriminate))
    as (rt & Ert & Wrt & Rt0 & Hrt).
  rewrite Ert. cbn [bind].
  assert (Wd : wf (pdiff s)) by (apply wf_pdiff; exact Ws).
  assert (Wm : wf (pmul_full (pdiff s) rt)) by (apply wf_pmul_full; assumption).
  destruct (pintegrate_ok _ Wm) as (r & Er & Wr & Dr).
  rewrite Er. cbn [bind].
  rewrite (qis0_find_cf s 0 (proj1 Ws) S0). change (qis0 0) with true. cbv match.
  exists r, (den rt). split; [reflexivity|]. split; [exact Wr|].
  split; [rewrite (Dr O); reflexivity|].
  split; [rewrite Rt0; reflexivity|].
  split.
  - replace (N.to_nat prec - 1)%nat with (N.to_nat (prec - 1)) by lia.
    eapply eqn_trans; [|exact Hrt]. change (Pos.to_nat 2) with 2%nat. cbn [ppow_s].
    apply eqn_trans with (den rt * den rt * den t)%ps.
    + apply eqn_mul; [reflexivity|]. rewrite Dt, H2. reflexivity.
    + apply peq_eqn. ring.
  - rewrite Dr, pD_pI. rewrite den_pmul_full; [|apply Wd|apply Wrt]. rewrite den_pdiff. reflexivity.
Qed.

Theorem asinh_spec s prec :
  wf s -> coef s 0 == 0 -> (1 < prec < 2147483648)%N ->
  exists r (w : ps), series_asinh s prec = Ok r /\ wf r /\ den r O == 0 /\ w O == 1 /\
    eqn (N.to_nat prec - 1) (w * w * (p1 + den s * den s))%ps p1 /\
    pD (den r) =p (pD (den s) * w)%ps.
Proof.
  intros Ws S0 Hp. unfold series_asinh.
  rewrite pred32_small by lia.
  destruct (ppow2_full s (prec - 1) Ws S0) as (s2 & E2 & W2 & H2 & Z2); [lia|].
  rewrite E2. cbn [bind].
  set (t := padd s2 (pint 1)).
  assert (Wt : wf t) by (apply wf_padd; [assumption|apply wf_pconst]).
  assert (Dt : den t =p (den s2 + p1)%ps) by (unfold t; rewrite den_padd, den_pint_1; reflexivity).
  assert (T0 : coef t 0 == 1).
  { change (coef t 0) with (den t O). rewrite (Dt O). unfold padd_s. rewrite Z2.
    change (p1 O) with 1. ring. }
  assert (T0n : ~ coef t 0 == 0) by (rewrite T0; discriminate).
  destruct (nthroot_spec t 2 (prec - 1) 1 Wt T0n ltac:(lia) ltac:(lia)
              (find_cf_one t (proj1 Wt) T0 2))
    as (p & Ep & Wp & P0 & Hp2).
  rewrite Ep. cbn [bind].
  assert (P0n : ~ coef p 0 == 0) by (change (coef p 0) with (den p O); rewrite P0; discriminate).
  destruct (invert_spec p (prec - 1) Wp P0n ltac:(lia)) as (ip & Ei & Wi & Hi).
  rewrite Ei. cbn [bind].
  assert (Wd : wf (pdiff s)) by (apply wf_pdiff; exact Ws).
  assert (Wm : wf (pmul_full (pdiff s) ip)) by (apply wf_pmul_full; assumption).
  destruct (pintegrate_ok _ Wm) as (r & Er & Wr & Dr).
  rewrite Er. cbn [bind].
  rewrite (qis0_find_cf s 0 (proj1 Ws) S0). change (qis0 0) with true. cbv match.
  exists r, (den ip). split; [reflexivity|]. split; [exact Wr|].
  split; [rewrite (Dr O); reflexivity|].
  split.
  { assert (A := Hi O ltac:(lia)). rewrite pmul_coef0, P0 in A. change (p1 O) with 1 in A.
    rewrite <- A. ring. }
  split.
  - replace (N.to_nat prec - 1)%nat with (N.to_nat (prec - 1)) by lia.
    change (Pos.to_nat 2) with 2%nat in Hp2. cbn [ppow_s] in Hp2.
    transitivity (den ip * den ip * (den p * (den p * p1)))%ps.
    + apply eqn_mul; [reflexivity|]. rewrite Hp2, Dt, H2. apply peq_eqn. ring.
    + transitivity ((den ip * den p) * (den ip * den p))%ps; [apply peq_eqn; ring|].
      rewrite Hi. apply peq_eqn. ring.
  - rewrite Dr, pD_pI. rewrite den_pmul_full; [|apply Wd|apply Wi]. rewrite den_pdiff. reflexivity.
Qed.
