(* C31 -- compositional form of the Taylor theorems: if the argument polynomial agrees modulo
   x^prec with a formal power series u (the Taylor series of the inner expression), then the
   result of every series_* function agrees modulo x^prec with the formal power series y that
   solves the defining problem of the function WITH RESPECT TO u.  These are the steps of the
   induction over an expression tree performed by SeriesVisitor (guards: function arguments
   without constant term, inverted series with non-zero constant term). *)
From Coq Require Import QArith Qring Qfield Setoid Morphisms Lia List ZArith NArith Bool.
From SE Require Import C31.VisitorModel.
From SE Require Import C31.SeriesSpec C31.Invert C31.LogAtan C31.Exp C31.Nthroot C31.Hyp C31.SinCos
  C31.Tanh C31.Tan C31.Asin C31.Lambert C31.SeriesProofs.
Local Open Scope Q_scope.

Lemma eqn_pD_pred prec a b :
  (0 < prec)%N -> eqn (N.to_nat prec) a b -> eqn (N.to_nat prec - 1) (pD a) (pD b).
Proof.
  intros H E. apply eqn_pD. replace (S (N.to_nat prec - 1)) with (N.to_nat prec) by lia. exact E.
Qed.
Lemma eqn_pred prec a b : eqn (N.to_nat prec) a b -> eqn (N.to_nat prec - 1) a b.
Proof. intros E. eapply eqn_le; [|exact E]. lia. Qed.

(* ------------------------------------------------------------------ arithmetic *)
Theorem add_compose a b prec (u v : ps) :
  eqn (N.to_nat prec) (den a) u -> eqn (N.to_nat prec) (den b) v ->
  eqn (N.to_nat prec) (den (padd a b)) (u + v)%ps.
Proof. intros Ha Hb. rewrite den_padd. apply eqn_add; assumption. Qed.

Theorem mul_compose a b prec (u v : ps) :
  wf a -> wf b -> (prec < 2147483648)%N ->
  eqn (N.to_nat prec) (den a) u -> eqn (N.to_nat prec) (den b) v ->
  eqn (N.to_nat prec) (den (pmul a b prec)) (u * v)%ps.
Proof.
  intros Wa Wb Hp Ha Hb.
  rewrite (eqn_pmul a b prec (proj1 Wb) (proj2 Wa) (proj2 Wb) Hp). apply eqn_mul; assumption.
Qed.

Theorem invert_compose s prec r (u v : ps) :
  wf s -> ~ coef s 0 == 0 -> (prec < 2147483648)%N ->
  series_invert s prec = Ok r ->
  eqn (N.to_nat prec) (den s) u -> (v * u)%ps =p p1 ->
  eqn (N.to_nat prec) (den r) v.
Proof.
  intros W H Hp Er Hsu Hv.
  destruct (invert_spec s prec W H Hp) as (r' & Er' & _ & HR).
  rewrite Er in Er'. inversion Er'; subst r'.
  apply (inverse_unique _ _ _ (den s) u Hsu HR). apply peq_eqn. exact Hv.
Qed.

(* ------------------------------------------------------------------ exp, log, atan, atanh *)
Theorem exp_compose s prec r (u y : ps) :
  wf s -> coef s 0 == 0 -> (0 < prec < 2147483648)%N ->
  series_exp s prec = Ok r ->
  eqn (N.to_nat prec) (den s) u -> y O == 1 -> pD y =p (pD u * y)%ps ->
  eqn (N.to_nat prec) (den r) y.
Proof.
  intros W H Hp Er Hsu Y0 Yd.
  destruct (exp_spec s prec W H Hp) as (r' & Er' & _ & R0 & HR).
  rewrite Er in Er'. inversion Er'; subst r'.
  assert (Hlt := Hp).
  replace (N.to_nat prec) with (S (N.to_nat prec - 1)) by lia.
  apply (ode_unique (fun z => (pD (den s) * z)%ps)).
  - intros m a b Hab. apply eqn_mul; [reflexivity|exact Hab].
  - exact HR.
  - rewrite Yd. apply eqn_mul; [|reflexivity]. apply eqn_sym. apply eqn_pD_pred; [lia|exact Hsu].
  - rewrite R0, Y0. reflexivity.
Qed.

Theorem log_compose s prec r (u y : ps) :
  wf s -> coef s 0 == 1 -> (0 < prec < 2147483648)%N ->
  series_log s prec = Ok r ->
  eqn (N.to_nat prec) (den s) u -> y O == 0 -> (pD y * u)%ps =p pD u ->
  eqn (N.to_nat prec) (den r) y.
Proof.
  intros W H Hp Er Hsu Y0 Yd.
  destruct (log_spec s prec W H Hp) as (r' & Er' & _ & R0 & HR).
  rewrite Er in Er'. inversion Er'; subst r'.
  assert (Hlt := Hp).
  replace (N.to_nat prec) with (S (N.to_nat prec - 1)) by lia.
  apply (lin_ode_unique _ (den s) (pD (den s))).
  - change (den s O) with (coef s 0). rewrite H. discriminate.
  - exact HR.
  - transitivity (pD y * u)%ps.
    + apply eqn_mul; [reflexivity|]. apply eqn_pred. exact Hsu.
    + rewrite Yd. apply eqn_sym. apply eqn_pD_pred; [lia|exact Hsu].
  - rewrite R0, Y0. reflexivity.
Qed.

Theorem atan_compose s prec r (u y : ps) :
  wf s -> coef s 0 == 0 -> (0 < prec < 2147483648)%N ->
  series_atan s prec = Ok r ->
  eqn (N.to_nat prec) (den s) u -> y O == 0 -> (pD y * (p1 + u * u))%ps =p pD u ->
  eqn (N.to_nat prec) (den r) y.
Proof.
  intros W H Hp Er Hsu Y0 Yd.
  destruct (atan_spec s prec W H Hp) as (r' & Er' & _ & R0 & HR).
  rewrite Er in Er'. inversion Er'; subst r'.
  assert (Hlt := Hp).
  replace (N.to_nat prec) with (S (N.to_nat prec - 1)) by lia.
  apply (lin_ode_unique _ (p1 + den s * den s)%ps (pD (den s))).
  - unfold padd_s. rewrite pmul_coef0. change (den s O) with (coef s 0).
    rewrite H. change (p1 O) with 1. intro Hc. discriminate Hc.
  - exact HR.
  - transitivity (pD y * (p1 + u * u))%ps.
    + apply eqn_mul; [reflexivity|]. apply eqn_add; [reflexivity|].
      apply eqn_mul; apply eqn_pred; exact Hsu.
    + rewrite Yd. apply eqn_sym. apply eqn_pD_pred; [lia|exact Hsu].
  - rewrite R0, Y0. reflexivity.
Qed.

Theorem atanh_compose s prec r (u y : ps) :
  wf s -> coef s 0 == 0 -> (0 < prec < 2147483648)%N ->
  series_atanh s prec = Ok r ->
  eqn (N.to_nat prec) (den s) u -> y O == 0 -> (pD y * (p1 - u * u))%ps =p pD u ->
  eqn (N.to_nat prec) (den r) y.
Proof.
  intros W H Hp Er Hsu Y0 Yd.
  destruct (atanh_spec s prec W H Hp) as (r' & Er' & _ & R0 & HR).
  rewrite Er in Er'. inversion Er'; subst r'.
  assert (Hlt := Hp).
  replace (N.to_nat prec) with (S (N.to_nat prec - 1)) by lia.
  apply (lin_ode_unique _ (p1 - den s * den s)%ps (pD (den s))).
  - unfold psub_s. rewrite pmul_coef0. change (den s O) with (coef s 0).
    rewrite H. change (p1 O) with 1. intro Hc. discriminate Hc.
  - exact HR.
  - transitivity (pD y * (p1 - u * u))%ps.
    + apply eqn_mul; [reflexivity|]. apply eqn_sub; [reflexivity|].
      apply eqn_mul; apply eqn_pred; exact Hsu.
    + rewrite Yd. apply eqn_sym. apply eqn_pD_pred; [lia|exact Hsu].
  - rewrite R0, Y0. reflexivity.
Qed.

(* ------------------------------------------------------------------ pairs *)
Theorem sin_cos_compose s prec rs rc (u ys yc : ps) :
  wf s -> coef s 0 == 0 -> (0 < prec < 2147483648)%N ->
  series_sin s prec = Ok rs -> series_cos s prec = Ok rc ->
  eqn (N.to_nat prec) (den s) u -> ys O == 0 -> yc O == 1 ->
  pD ys =p (pD u * yc)%ps -> pD yc =p (- (pD u * ys))%ps ->
  eqn (N.to_nat prec) (den rs) ys /\ eqn (N.to_nat prec) (den rc) yc.
Proof.
  intros W H Hp Es Ec Hsu Ys0 Yc0 Yds Ydc.
  destruct (sin_cos_spec s prec W H Hp) as (rs' & rc' & Es' & Ec' & _ & _ & S0 & C0 & HS & HC).
  rewrite Es in Es'. inversion Es'; subst rs'. rewrite Ec in Ec'. inversion Ec'; subst rc'.
  assert (Hlt := Hp).
  assert (Du : eqn (N.to_nat prec - 1) (pD u) (pD (den s))).
  { apply eqn_sym. apply eqn_pD_pred; [lia|exact Hsu]. }
  replace (N.to_nat prec) with (S (N.to_nat prec - 1)) by lia.
  apply (ode_unique_pair (pD (den s)) (-1 # 1)).
  - exact HS.
  - rewrite HC. apply peq_eqn. intros k; unfold pscale, popp; ring.
  - rewrite Yds. apply eqn_mul; [exact Du|reflexivity].
  - rewrite Ydc. rewrite Du. apply peq_eqn. intros k; unfold pscale, popp; ring.
  - rewrite S0, Ys0. reflexivity.
  - rewrite C0, Yc0. reflexivity.
Qed.

Theorem sinh_cosh_compose s prec rs rc (u ys yc : ps) :
  wf s -> coef s 0 == 0 -> (0 < prec < 2147483648)%N ->
  series_sinh s prec = Ok rs -> series_cosh s prec = Ok rc ->
  eqn (N.to_nat prec) (den s) u -> ys O == 0 -> yc O == 1 ->
  pD ys =p (pD u * yc)%ps -> pD yc =p (pD u * ys)%ps ->
  eqn (N.to_nat prec) (den rs) ys /\ eqn (N.to_nat prec) (den rc) yc.
Proof.
  intros W H Hp Es Ec Hsu Ys0 Yc0 Yds Ydc.
  destruct (sinh_cosh_spec s prec W H Hp) as (rs' & rc' & Es' & Ec' & _ & _ & S0 & C0 & HS & HC).
  rewrite Es in Es'. inversion Es'; subst rs'. rewrite Ec in Ec'. inversion Ec'; subst rc'.
  assert (Hlt := Hp).
  assert (Du : eqn (N.to_nat prec - 1) (pD u) (pD (den s))).
  { apply eqn_sym. apply eqn_pD_pred; [lia|exact Hsu]. }
  replace (N.to_nat prec) with (S (N.to_nat prec - 1)) by lia.
  apply (ode_unique_pair (pD (den s)) 1).
  - exact HS.
  - rewrite HC. apply peq_eqn. intros k; unfold pscale; ring.
  - rewrite Yds. apply eqn_mul; [exact Du|reflexivity].
  - rewrite Ydc. rewrite Du. apply peq_eqn. intros k; unfold pscale; ring.
  - rewrite S0, Ys0. reflexivity.
  - rewrite C0, Yc0. reflexivity.
Qed.

(* ------------------------------------------------------------------ tan, tanh *)
Theorem tan_compose s prec r (u y : ps) :
  wf s -> coef s 0 == 0 -> (0 < prec < 2147483648)%N ->
  series_tan s prec = Ok r ->
  eqn (N.to_nat prec) (den s) u -> y O == 0 -> pD y =p (pD u * (p1 + y * y))%ps ->
  eqn (N.to_nat prec) (den r) y.
Proof.
  intros W H Hp Er Hsu Y0 Yd.
  destruct (tan_spec s prec W H Hp) as (r' & Er' & _ & R0 & HR).
  rewrite Er in Er'. inversion Er'; subst r'.
  assert (Hlt := Hp).
  replace (N.to_nat prec) with (S (N.to_nat prec - 1)) by lia.
  apply (ode_unique (fun z => (pD (den s) * (p1 + z * z))%ps)).
  - intros m a b Hab. apply eqn_mul; [reflexivity|]. apply eqn_add; [reflexivity|].
    apply eqn_mul; exact Hab.
  - exact HR.
  - rewrite Yd. apply eqn_mul; [|reflexivity]. apply eqn_sym. apply eqn_pD_pred; [lia|exact Hsu].
  - rewrite R0, Y0. reflexivity.
Qed.

Theorem tanh_compose s prec r (u y : ps) :
  wf s -> coef s 0 == 0 -> (0 < prec < 2147483648)%N ->
  series_tanh s prec = Ok r ->
  eqn (N.to_nat prec) (den s) u -> y O == 0 -> pD y =p (pD u * (p1 - y * y))%ps ->
  eqn (N.to_nat prec) (den r) y.
Proof.
  intros W H Hp Er Hsu Y0 Yd.
  destruct (tanh_spec s prec W H Hp) as (r' & Er' & _ & R0 & HR).
  rewrite Er in Er'. inversion Er'; subst r'.
  assert (Hlt := Hp).
  replace (N.to_nat prec) with (S (N.to_nat prec - 1)) by lia.
  apply (ode_unique (fun z => (pD (den s) * (p1 - z * z))%ps)).
  - intros m a b Hab. apply eqn_mul; [reflexivity|]. apply eqn_sub; [reflexivity|].
    apply eqn_mul; exact Hab.
  - exact HR.
  - rewrite Yd. apply eqn_mul; [|reflexivity]. apply eqn_sym. apply eqn_pD_pred; [lia|exact Hsu].
  - rewrite R0, Y0. reflexivity.
Qed.

(* ------------------------------------------------------------------ asin, asinh *)
Lemma arc_compose_aux s prec r (w y v t t' u : ps) :
  (1 < prec < 2147483648)%N ->
  den r O == 0 -> w O == 1 -> y O == 0 -> v O == 1 -> ~ t O == 0 ->
  eqn (N.to_nat prec) (den s) u -> eqn (N.to_nat prec - 1) t t' ->
  eqn (N.to_nat prec - 1) (w * w * t)%ps p1 -> (v * v * t')%ps =p p1 ->
  pD (den r) =p (pD (den s) * w)%ps -> pD y =p (pD u * v)%ps ->
  eqn (N.to_nat prec) (den r) y.
Proof.
  intros Hp R0 W0 Y0 V0 T0 Hsu Ht Hw Hv Dr Dy.
  replace (N.to_nat prec) with (S (N.to_nat prec - 1)) by lia.
  apply pD_eqn_S; [rewrite R0, Y0; reflexivity|].
  rewrite Dr, Dy. apply eqn_mul; [apply eqn_pD_pred; [lia|exact Hsu]|].
  apply (sqrt_unique _ w v t T0).
  - unfold padd_s. rewrite W0, V0. discriminate.
  - exact Hw.
  - rewrite Ht. apply peq_eqn. exact Hv.
Qed.

Theorem asin_compose s prec r (u y v : ps) :
  wf s -> coef s 0 == 0 -> (1 < prec < 2147483648)%N ->
  series_asin s prec = Ok r ->
  eqn (N.to_nat prec) (den s) u ->
  y O == 0 -> v O == 1 -> (v * v * (p1 - u * u))%ps =p p1 -> pD y =p (pD u * v)%ps ->
  eqn (N.to_nat prec) (den r) y.
Proof.
  intros W H Hp Er Hsu Y0 V0 Hv Dy.
  destruct (asin_spec s prec W H Hp) as (r' & w & Er' & _ & R0 & W0 & Hw & Dr).
  rewrite Er in Er'. inversion Er'; subst r'.
  apply (arc_compose_aux s prec r w y v (p1 - den s * den s)%ps (p1 - u * u)%ps u
           Hp R0 W0 Y0 V0); try assumption.
  - unfold psub_s. rewrite pmul_coef0. change (den s O) with (coef s 0).
    rewrite H. change (p1 O) with 1. intro Hc. discriminate Hc.
  - apply eqn_sub; [reflexivity|]. apply eqn_mul; apply eqn_pred; exact Hsu.
Qed.

Theorem asinh_compose s prec r (u y v : ps) :
  wf s -> coef s 0 == 0 -> (1 < prec < 2147483648)%N ->
  series_asinh s prec = Ok r ->
  eqn (N.to_nat prec) (den s) u ->
  y O == 0 -> v O == 1 -> (v * v * (p1 + u * u))%ps =p p1 -> pD y =p (pD u * v)%ps ->
  eqn (N.to_nat prec) (den r) y.
Proof.
  intros W H Hp Er Hsu Y0 V0 Hv Dy.
  destruct (asinh_spec s prec W H Hp) as (r' & w & Er' & _ & R0 & W0 & Hw & Dr).
  rewrite Er in Er'. inversion Er'; subst r'.
  apply (arc_compose_aux s prec r w y v (p1 + den s * den s)%ps (p1 + u * u)%ps u
           Hp R0 W0 Y0 V0); try assumption.
  - unfold padd_s. rewrite pmul_coef0. change (den s O) with (coef s 0).
    rewrite H. change (p1 O) with 1. intro Hc. discriminate Hc.
  - apply eqn_add; [reflexivity|]. apply eqn_mul; apply eqn_pred; exact Hsu.
Qed.

(* ------------------------------------------------------------------ lambertw *)
Theorem lambertw_compose s prec r (u y F : ps) :
  wf s -> coef s 0 == 0 -> (0 < prec < 2147483648)%N ->
  series_lambertw s prec = Ok r ->
  eqn (N.to_nat prec) (den s) u ->
  y O == 0 -> F O == 1 -> pD F =p (pD y * F)%ps -> (y * F)%ps =p u ->
  eqn (N.to_nat prec) (den r) y.
Proof.
  intros W H Hp Er Hsu Y0 F0 Fd Fm.
  destruct (lambertw_spec s prec W H Hp) as (r' & Er' & _ & R0 & E & E0 & H1 & H2).
  rewrite Er in Er'. inversion Er'; subst r'.
  apply (lambert_unique (N.to_nat prec) (den s) (den r) E y F R0 Y0 E0 F0 H1).
  - apply peq_eqn. exact Fd.
  - exact H2.
  - rewrite Fm. apply eqn_sym. exact Hsu.
Qed.

(* ------------------------------------------------------------------ roots *)
Fixpoint geom (a b : ps) (n : nat) : ps :=
  match n with O => p0 | S k => (ppow_s a k + b * geom a b k)%ps end.

Lemma pow_diff a b n : (ppow_s a n - ppow_s b n)%ps =p ((a - b) * geom a b n)%ps.
Proof.
  induction n; cbn [ppow_s geom]; [ring|].
  transitivity ((a - b) * ppow_s a n + b * ((a - b) * geom a b n))%ps; [|ring].
  rewrite <- IHn. ring.
Qed.

Lemma ppow_coef0_c (a : ps) c k : a O == c -> ppow_s a k O == qpown c k.
Proof.
  intros H; induction k; cbn [ppow_s qpown]; [reflexivity|].
  rewrite pmul_coef0, H, IHk. reflexivity.
Qed.

Lemma geom_coef0 a b c k : a O == c -> b O == c -> geom a b (S k) O == qnat (S k) * qpown c k.
Proof.
  intros Ha Hb; induction k.
  - cbn [geom ppow_s qpown]. unfold padd_s. rewrite pmul_coef0.
    change (p1 O) with 1. change (p0 O) with 0. change (qnat 1) with 1. ring.
  - change (geom a b (S (S k))) with (ppow_s a (S k) + b * geom a b (S k))%ps.
    unfold padd_s. rewrite pmul_coef0, IHk, Hb, (ppow_coef0_c a c (S k) Ha).
    cbn [qpown]. rewrite (qnat_S (S k)). ring.
Qed.

Lemma qpown_neq0 c k : ~ c == 0 -> ~ qpown c k == 0.
Proof.
  intros Hc; induction k; cbn [qpown]; [discriminate|].
  intro Hz. apply Qmult_integral in Hz. destruct Hz; contradiction.
Qed.

Lemma root_unique m (a b : ps) c k :
  ~ c == 0 -> a O == c -> b O == c ->
  eqn m (ppow_s a (S k)) (ppow_s b (S k)) -> eqn m a b.
Proof.
  intros Hc Ha Hb H.
  apply (proj2 (eqn_vge_sub _ _ _)). apply (proj1 (vge_eqn _ _)).
  apply (cancel_unit m _ _ (geom a b (S k))).
  - rewrite (geom_coef0 a b c k Ha Hb). intro Hz. apply Qmult_integral in Hz.
    destruct Hz as [Hz|Hz]; [revert Hz; apply qnat_S_neq0|revert Hz; apply qpown_neq0; exact Hc].
  - rewrite <- pow_diff. assert (Z : (p0 * geom a b (S k))%ps =p p0) by ring. rewrite Z.
    apply (proj1 (vge_eqn _ _)). apply (proj1 (eqn_vge_sub _ _ _)). exact H.
Qed.

Theorem nthroot_compose s (np : positive) prec c r (u v : ps) :
  wf s -> ~ coef s 0 == 0 -> (2 <= Zpos np)%Z -> (0 < prec < 2147483648)%N ->
  qroot (find_cf s 0) np = Ok c ->
  series_nthroot s (Zpos np) prec = Ok r ->
  eqn (N.to_nat prec) (den s) u -> v O == c -> ppow_s v (Pos.to_nat np) =p u ->
  eqn (N.to_nat prec) (den r) v.
Proof.
  intros W H Hn Hp Hq Er Hsu V0 Hv.
  destruct (nthroot_spec s np prec c W H Hn Hp Hq) as (r' & Er' & _ & R0 & HR).
  rewrite Er in Er'. inversion Er'; subst r'.
  assert (Hc : ~ c == 0).
  { intro Hz. assert (Q := qroot_ok _ _ _ Hq).
    destruct (Pos.to_nat np) as [|k] eqn:Ek; [lia|].
    cbn [qpown] in Q. rewrite Hz in Q. apply H.
    rewrite <- (find_cf_coef s 0 (proj1 W)). rewrite <- Q. ring. }
  destruct (Pos.to_nat np) as [|k] eqn:Ek; [lia|].
  apply (root_unique _ _ _ c k Hc R0 V0).
  rewrite HR, Hv. exact Hsu.
Qed.

(* ------------------------------------------------------------------ an instance: exp(sin x) *)
(* the visitor's two steps chained: with ys, yc the formal sine and cosine (of x) and y the
   formal exponential of ys, the model's series(exp(sin(x)), x, prec) agrees with y below x^prec *)
Theorem exp_sin_x_taylor prec r (ys yc y : ps) :
  (0 < prec < 2147483648)%N ->
  series_top (EPow (EConst name_E) (EF1 TC_Sin (ESym name_x))) prec = Ok r ->
  ys O == 0 -> yc O == 1 -> pD ys =p (pD pX * yc)%ps -> pD yc =p (- (pD pX * ys))%ps ->
  y O == 1 -> pD y =p (pD ys * y)%ps ->
  eqn (N.to_nat prec) (den r) y.
Proof.
  intros Hp Er Ys0 Yc0 Yds Ydc Y0 Yd.
  assert (Ev : series_top (EPow (EConst name_E) (EF1 TC_Sin (ESym name_x))) prec
               = bind (series_sin pvar prec) (fun p => series_exp p prec)) by reflexivity.
  rewrite Ev in Er. clear Ev.
  assert (Wx : wf pvar) by apply wf_pvar.
  assert (Cx : coef pvar 0 == 0) by reflexivity.
  destruct (sin_cos_spec pvar prec Wx Cx Hp) as (rs & rc & Es & Ec & Ws & _ & S0 & _ & _ & _).
  rewrite Es in Er. cbn [bind] in Er.
  destruct (sin_cos_compose pvar prec rs rc pX ys yc Wx Cx Hp Es Ec) as [Hs _]; try assumption.
  { rewrite den_pvar. reflexivity. }
  apply (exp_compose rs prec r ys y Ws S0 Hp Er Hs Y0 Yd).
Qed.
