(* C31 obligation: series_sinh and series_cosh ((e +- 1/e)/2 with e = series_exp) solve the
   coupled problem  sh(0) = 0, ch(0) = 1, sh' = s' ch, ch' = s' sh  modulo x^(prec-1); by
   uniqueness for such pairs their coefficients below x^prec are those of sinh(s), cosh(s). *)
From Coq Require Import QArith List ZArith NArith.
From SE Require Import C31.VisitorModel.
From SE Require Import C31.SeriesSpec C31.Invert C31.SeriesProofs.
Local Open Scope Q_scope.
Theorem C31_sinh_cosh_spec :
  forall (s : poly) (prec : N),
    wfb s = true -> const0 s = true -> prec_ok prec = true ->
    exists rs rc, series_sinh s prec = Ok rs /\ series_cosh s prec = Ok rc /\
      wf rs /\ wf rc /\ den rs O == 0 /\ den rc O == 1 /\
      eqn (N.to_nat prec - 1) (pD (den rs)) (pD (den s) * den rc)%ps /\
      eqn (N.to_nat prec - 1) (pD (den rc)) (pD (den s) * den rs)%ps.
Proof. exact sinh_cosh_spec_b. Qed.
Theorem C31_sinh_cosh_taylor :
  forall (s : poly) (prec : N) (rs rc : poly) (ys yc : ps),
    wfb s = true -> const0 s = true -> prec_ok prec = true ->
    series_sinh s prec = Ok rs -> series_cosh s prec = Ok rc ->
    ys O == 0 -> yc O == 1 ->
    pD ys =p (pD (den s) * yc)%ps -> pD yc =p (pD (den s) * ys)%ps ->
    eqn (N.to_nat prec) (den rs) ys /\ eqn (N.to_nat prec) (den rc) yc.
Proof. exact sinh_cosh_taylor. Qed.
Print Assumptions C31_sinh_cosh_spec.
Print Assumptions C31_sinh_cosh_taylor.
