(* C31 obligation: step_list(prec) starts at 2, never more than doubles, ends with prec. *)
From Coq Require Import QArith List ZArith NArith.
From SE Require Import C31.VisitorModel.
From SE Require Import C31.SeriesSpec C31.Invert C31.SeriesProofs.
Local Open Scope Q_scope.
Theorem C31_step_list :
  forall prec : N,
    chain_ok 1 (step_list prec) /\ last (step_list prec) 0%N = prec /\
    Forall (fun s => (s <= N.max prec 4)%N) (step_list prec).
Proof. exact step_list_spec. Qed.
Print Assumptions C31_step_list.
