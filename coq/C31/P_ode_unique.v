(* C31 obligation: a first-order initial value problem y' = F(y) with causal F has at most
   one solution modulo x^(n+1); linear version y' a = b with a(0) <> 0; coupled pairs
   y1' = g y2, y2' = sg g y1 (sin/cos, sinh/cosh); the pair (W, E) of the Lambert W problem. *)
From Coq Require Import QArith List ZArith NArith.
From SE Require Import C31.VisitorModel.
From SE Require Import C31.SeriesSpec C31.Invert C31.Hyp C31.Lambert C31.SeriesProofs.
Local Open Scope Q_scope.
Theorem C31_ode_unique :
  forall (F : ps -> ps) (n : nat) (y z : ps),
    causal F -> eqn n (pD y) (F y) -> eqn n (pD z) (F z) -> y O == z O -> eqn (S n) y z.
Proof. exact ode_unique. Qed.
Theorem C31_lin_ode_unique :
  forall (n : nat) (a b y z : ps),
    ~ a O == 0 -> eqn n (pD y * a)%ps b -> eqn n (pD z * a)%ps b -> y O == z O -> eqn (S n) y z.
Proof. exact lin_ode_unique. Qed.
Theorem C31_ode_unique_pair :
  forall (g : ps) (sg : Q) (n : nat) (y1 y2 z1 z2 : ps),
    eqn n (pD y1) (g * y2)%ps -> eqn n (pD y2) (pscale sg (g * y1)%ps) ->
    eqn n (pD z1) (g * z2)%ps -> eqn n (pD z2) (pscale sg (g * z1)%ps) ->
    y1 O == z1 O -> y2 O == z2 O ->
    eqn (S n) y1 z1 /\ eqn (S n) y2 z2.
Proof. exact ode_unique_pair. Qed.
Theorem C31_lambert_unique :
  forall (n : nat) (s w1 E1 w2 E2 : ps),
    w1 O == 0 -> w2 O == 0 -> E1 O == 1 -> E2 O == 1 ->
    eqn (n - 1) (pD E1) (pD w1 * E1)%ps -> eqn (n - 1) (pD E2) (pD w2 * E2)%ps ->
    eqn n (w1 * E1)%ps s -> eqn n (w2 * E2)%ps s ->
    eqn n w1 w2 /\ eqn n E1 E2.
Proof. exact lambert_unique. Qed.
Print Assumptions C31_ode_unique.
Print Assumptions C31_ode_unique_pair.
Print Assumptions C31_lambert_unique.
Print Assumptions C31_lin_ode_unique.
