(* C31 obligation: a first-order initial value problem y' = F(y) with causal F has at most
   one solution modulo x^(n+1); linear version y' a = b with a(0) <> 0. *)
From Coq Require Import QArith List ZArith NArith.
From SE Require Import C31.VisitorModel.
From SE Require Import C31.SeriesSpec C31.Invert C31.SeriesProofs.
Local Open Scope Q_scope.
Theorem C31_ode_unique :
  forall (F : ps -> ps) (n : nat) (y z : ps),
    causal F -> eqn n (pD y) (F y) -> eqn n (pD z) (F z) -> y O == z O -> eqn (S n) y z.
Proof. exact ode_unique. Qed.
Theorem C31_lin_ode_unique :
  forall (n : nat) (a b y z : ps),
    ~ a O == 0 -> eqn n (pD y * a)%ps b -> eqn n (pD z * a)%ps b -> y O == z O -> eqn (S n) y z.
Proof. exact lin_ode_unique. Qed.
Print Assumptions C31_ode_unique.
Print Assumptions C31_lin_ode_unique.
