(* C31 obligations: the compositional Taylor theorems (one per operation of SeriesVisitor on a
   guarded fragment): when the argument polynomial agrees modulo x^prec with a formal power
   series u, the result agrees modulo x^prec with the formal solution of the function's defining
   problem with respect to u.  Last: the two visitor steps of series(exp(sin(x)), x, prec)
   chained. *)
From Coq Require Import QArith List ZArith NArith.
From SE Require Import C31.VisitorModel.
From SE Require Import C31.SeriesSpec C31.Invert C31.SeriesProofs C31.Compose.
Local Open Scope Q_scope.
Theorem C31_add_compose :
  forall a b prec (u v : ps),
  eqn (N.to_nat prec) (den a) u -> eqn (N.to_nat prec) (den b) v ->
    eqn (N.to_nat prec) (den (padd a b)) (u + v)%ps.
Proof. exact add_compose. Qed.
Theorem C31_mul_compose :
  forall a b prec (u v : ps),
  wf a -> wf b -> (prec < 2147483648)%N ->
    eqn (N.to_nat prec) (den a) u -> eqn (N.to_nat prec) (den b) v ->
    eqn (N.to_nat prec) (den (pmul a b prec)) (u * v)%ps.
Proof. exact mul_compose. Qed.
Theorem C31_invert_compose :
  forall s prec r (u v : ps),
  wf s -> ~ coef s 0 == 0 -> (prec < 2147483648)%N ->
    series_invert s prec = Ok r ->
    eqn (N.to_nat prec) (den s) u -> (v * u)%ps =p p1 ->
    eqn (N.to_nat prec) (den r) v.
Proof. exact invert_compose. Qed.
Theorem C31_exp_compose :
  forall s prec r (u y : ps),
  wf s -> coef s 0 == 0 -> (0 < prec < 2147483648)%N ->
    series_exp s prec = Ok r ->
    eqn (N.to_nat prec) (den s) u -> y O == 1 -> pD y =p (pD u * y)%ps ->
    eqn (N.to_nat prec) (den r) y.
Proof. exact exp_compose. Qed.
Theorem C31_log_compose :
  forall s prec r (u y : ps),
  wf s -> coef s 0 == 1 -> (0 < prec < 2147483648)%N ->
    series_log s prec = Ok r ->
    eqn (N.to_nat prec) (den s) u -> y O == 0 -> (pD y * u)%ps =p pD u ->
    eqn (N.to_nat prec) (den r) y.
Proof. exact log_compose. Qed.
Theorem C31_atan_compose :
  forall s prec r (u y : ps),
  wf s -> coef s 0 == 0 -> (0 < prec < 2147483648)%N ->
    series_atan s prec = Ok r ->
    eqn (N.to_nat prec) (den s) u -> y O == 0 -> (pD y * (p1 + u * u))%ps =p pD u ->
    eqn (N.to_nat prec) (den r) y.
Proof. exact atan_compose. Qed.
Theorem C31_atanh_compose :
  forall s prec r (u y : ps),
  wf s -> coef s 0 == 0 -> (0 < prec < 2147483648)%N ->
    series_atanh s prec = Ok r ->
    eqn (N.to_nat prec) (den s) u -> y O == 0 -> (pD y * (p1 - u * u))%ps =p pD u ->
    eqn (N.to_nat prec) (den r) y.
Proof. exact atanh_compose. Qed.
Theorem C31_sin_cos_compose :
  forall s prec rs rc (u ys yc : ps),
  wf s -> coef s 0 == 0 -> (0 < prec < 2147483648)%N ->
    series_sin s prec = Ok rs -> series_cos s prec = Ok rc ->
    eqn (N.to_nat prec) (den s) u -> ys O == 0 -> yc O == 1 ->
    pD ys =p (pD u * yc)%ps -> pD yc =p (- (pD u * ys))%ps ->
    eqn (N.to_nat prec) (den rs) ys /\ eqn (N.to_nat prec) (den rc) yc.
Proof. exact sin_cos_compose. Qed.
Theorem C31_sinh_cosh_compose :
  forall s prec rs rc (u ys yc : ps),
  wf s -> coef s 0 == 0 -> (0 < prec < 2147483648)%N ->
    series_sinh s prec = Ok rs -> series_cosh s prec = Ok rc ->
    eqn (N.to_nat prec) (den s) u -> ys O == 0 -> yc O == 1 ->
    pD ys =p (pD u * yc)%ps -> pD yc =p (pD u * ys)%ps ->
    eqn (N.to_nat prec) (den rs) ys /\ eqn (N.to_nat prec) (den rc) yc.
Proof. exact sinh_cosh_compose. Qed.
Theorem C31_tan_compose :
  forall s prec r (u y : ps),
  wf s -> coef s 0 == 0 -> (0 < prec < 2147483648)%N ->
    series_tan s prec = Ok r ->
    eqn (N.to_nat prec) (den s) u -> y O == 0 -> pD y =p (pD u * (p1 + y * y))%ps ->
    eqn (N.to_nat prec) (den r) y.
Proof. exact tan_compose. Qed.
Theorem C31_tanh_compose :
  forall s prec r (u y : ps),
  wf s -> coef s 0 == 0 -> (0 < prec < 2147483648)%N ->
    series_tanh s prec = Ok r ->
    eqn (N.to_nat prec) (den s) u -> y O == 0 -> pD y =p (pD u * (p1 - y * y))%ps ->
    eqn (N.to_nat prec) (den r) y.
Proof. exact tanh_compose. Qed.
Theorem C31_asin_compose :
  forall s prec r (u y v : ps),
  wf s -> coef s 0 == 0 -> (1 < prec < 2147483648)%N ->
    series_asin s prec = Ok r ->
    eqn (N.to_nat prec) (den s) u ->
    y O == 0 -> v O == 1 -> (v * v * (p1 - u * u))%ps =p p1 -> pD y =p (pD u * v)%ps ->
    eqn (N.to_nat prec) (den r) y.
Proof. exact asin_compose. Qed.
Theorem C31_asinh_compose :
  forall s prec r (u y v : ps),
  wf s -> coef s 0 == 0 -> (1 < prec < 2147483648)%N ->
    series_asinh s prec = Ok r ->
    eqn (N.to_nat prec) (den s) u ->
    y O == 0 -> v O == 1 -> (v * v * (p1 + u * u))%ps =p p1 -> pD y =p (pD u * v)%ps ->
    eqn (N.to_nat prec) (den r) y.
Proof. exact asinh_compose. Qed.
Theorem C31_lambertw_compose :
  forall s prec r (u y F : ps),
  wf s -> coef s 0 == 0 -> (0 < prec < 2147483648)%N ->
    series_lambertw s prec = Ok r ->
    eqn (N.to_nat prec) (den s) u ->
    y O == 0 -> F O == 1 -> pD F =p (pD y * F)%ps -> (y * F)%ps =p u ->
    eqn (N.to_nat prec) (den r) y.
Proof. exact lambertw_compose. Qed.
Theorem C31_nthroot_compose :
  forall s (np : positive) prec c r (u v : ps),
  wf s -> ~ coef s 0 == 0 -> (2 <= Zpos np)%Z -> (0 < prec < 2147483648)%N ->
    qroot (find_cf s 0) np = Ok c ->
    series_nthroot s (Zpos np) prec = Ok r ->
    eqn (N.to_nat prec) (den s) u -> v O == c -> ppow_s v (Pos.to_nat np) =p u ->
    eqn (N.to_nat prec) (den r) v.
Proof. exact nthroot_compose. Qed.
Theorem C31_exp_sin_x_taylor :
  forall prec r (ys yc y : ps),
  (0 < prec < 2147483648)%N ->
    series_top (EPow (EConst name_E) (EF1 TC_Sin (ESym name_x))) prec = Ok r ->
    ys O == 0 -> yc O == 1 -> pD ys =p (pD pX * yc)%ps -> pD yc =p (- (pD pX * ys))%ps ->
    y O == 1 -> pD y =p (pD ys * y)%ps ->
    eqn (N.to_nat prec) (den r) y.
Proof. exact exp_sin_x_taylor. Qed.
Print Assumptions C31_add_compose.
Print Assumptions C31_mul_compose.
Print Assumptions C31_invert_compose.
Print Assumptions C31_exp_compose.
Print Assumptions C31_log_compose.
Print Assumptions C31_atan_compose.
Print Assumptions C31_atanh_compose.
Print Assumptions C31_sin_cos_compose.
Print Assumptions C31_sinh_cosh_compose.
Print Assumptions C31_tan_compose.
Print Assumptions C31_tanh_compose.
Print Assumptions C31_asin_compose.
Print Assumptions C31_asinh_compose.
Print Assumptions C31_lambertw_compose.
Print Assumptions C31_nthroot_compose.
Print Assumptions C31_exp_sin_x_taylor.
