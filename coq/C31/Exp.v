(* C31 -- series_exp: Newton iteration r <- r (1 + s - log r) along the precision chain, and
   the "fast" path for exp(x). *)
From Coq Require Import QArith Qring Qfield Setoid Morphisms Lia List ZArith NArith.
From SE Require Import C31.SeriesModel C31.PS C31.Sem C31.Invert C31.LogAtan.
Local Open Scope Q_scope.
Local Open Scope res_scope.
Local Arguments Z.eqb : simpl never.
Local Arguments N.mul : simpl never.
Local Arguments N.div : simpl never.
Local Arguments N.ltb : simpl never.
Local Arguments Z.of_nat : simpl never.
Local Arguments inject_Z : simpl never.

Ltac Zify.zify_post_hook ::= Z.div_mod_to_equations.

(* ------------------------------------------------------------------ generic Newton loop *)
Definition step_ok (st : N) : Prop := (1 <= st < 2147483648)%N.

Lemma fold_res_chain {A : Type} (Inv : N -> A -> Prop) (f : A -> N -> res A) :
  (forall m st a, Inv m a -> (st <= 2 * m)%N -> step_ok st -> exists a', f a st = Ok a' /\ Inv st a') ->
  forall steps m a, Inv m a -> chain_ok m steps -> Forall step_ok steps ->
  exists a', fold_res f steps a = Ok a' /\ Inv (last steps m) a'.
Proof.
  intros Hstep steps; induction steps as [|st r IH]; intros m a Ha Hc Hf; cbn [fold_res].
  - exists a. split; [reflexivity|exact Ha].
  - destruct Hc as [Hst Hc]. inversion Hf as [|? ? Hs1 Hf']; subst.
    destruct (Hstep m st a Ha Hst Hs1) as (a1 & E1 & I1). rewrite E1. cbn [bind].
    destruct (IH st a1 I1 Hc Hf') as (a2 & E2 & I2). exists a2. split; [exact E2|].
    destruct r as [|st' r']; [exact I2|].
    change (last (st :: st' :: r') m) with (last (st' :: r') m).
    rewrite (last_cons_default st' r' m st). exact I2.
Qed.

Lemma steps_chain_ge fuel : forall tprec acc,
  Forall (fun s => (2 <= s)%N) acc -> Forall (fun s => (2 <= s)%N) (steps_chain fuel tprec acc).
Proof.
  induction fuel; intros tprec acc Ha; cbn [steps_chain]; [assumption|].
  destruct (N.ltb_spec 4 tprec); [|assumption].
  apply IHfuel. constructor; [lia|assumption].
Qed.
Lemma step_list_ok prec : (0 < prec < 2147483648)%N -> Forall step_ok (step_list prec).
Proof.
  intros Hp. unfold step_list. cbn [app]. constructor; [unfold step_ok; lia|].
  apply Forall_app; split; [|constructor; [unfold step_ok; lia|constructor]].
  assert (H1 := steps_chain_ge (S (N.size_nat prec)) prec [] (Forall_nil _)).
  assert (H2 := steps_chain_le prec (S (N.size_nat prec)) prec [] ltac:(lia) (Forall_nil _)).
  rewrite Forall_forall in *. intros x Hx. specialize (H1 x Hx). specialize (H2 x Hx).
  simpl in H1, H2. unfold step_ok. lia.
Qed.

(* ------------------------------------------------------------------ the exp invariant *)
Definition exp_inv (s : poly) (m : N) (r : poly) : Prop :=
  wf r /\ den r O == 1 /\ eqn (N.to_nat m - 1) (pD (den r)) (pD (den s) * den r)%ps.

Lemma exp_inv_le s m m' r : (m' <= m)%N -> exp_inv s m r -> exp_inv s m' r.
Proof.
  intros Hle (W & R0 & H). split; [exact W|]. split; [exact R0|].
  eapply eqn_le; [|exact H]. lia.
Qed.

Lemma exp_step_ok s : wf s -> coef s 0 == 0 -> forall m st r,
  exp_inv s m r -> (st <= 2 * m)%N -> step_ok st ->
  exists r', (do l <- series_log r st; Ok (pmul r (psub (padd s (pint 1)) l) st)) = Ok r' /\
             exp_inv s st r'.
Proof.
  intros Ws S0 m st r Hinv Hst Hok.
  (* without loss of generality m <= st *)
  set (m' := N.min m st).
  assert (Hinv' : exp_inv s m' r) by (apply (exp_inv_le s m); [unfold m'; lia|exact Hinv]).
  assert (Hm1 : (m' <= st)%N) by (unfold m'; lia).
  assert (Hm2 : (st <= 2 * m')%N) by (unfold m'; lia).
  clearbody m'. clear Hinv Hst m.
  destruct Hinv' as (Wr & R0 & HR). unfold step_ok in Hok.
  destruct (log_spec r st Wr R0 ltac:(lia)) as (l & El & Wl & L0 & HL).
  rewrite El. cbn [bind].
  set (t := padd s (pint 1)).
  assert (Wt : wf t) by (apply wf_padd; [assumption|apply wf_pconst]).
  assert (Wtl : wf (psub t l)) by (apply wf_psub; assumption).
  set (r' := pmul r (psub t l) st).
  assert (Wr' : wf r') by (apply wf_pmul; [apply Wr|apply Wtl]).
  exists r'. split; [reflexivity|].
  (* e = s - l *)
  set (e := (den s - den l)%ps).
  assert (Er' : eqn (N.to_nat st) (den r') (den r * (p1 + e))%ps).
  { unfold r'. rewrite (eqn_pmul r (psub t l) st (proj1 Wtl) (proj2 Wr) (proj2 Wtl)) by lia.
    apply eqn_mul; [reflexivity|]. apply peq_eqn.
    rewrite den_psub. unfold t. rewrite den_padd, den_pint_1. unfold e. ring. }
  assert (R0n : ~ den r O == 0) by (rewrite R0; discriminate).
  (* log r agrees with s up to m' *)
  assert (Els : eqn (N.to_nat m') (den l) (den s)).
  { destruct (N.to_nat m') as [|k] eqn:Ek; [apply eqn_0|].
    apply pD_eqn_S; [rewrite L0; change (den s O) with (coef s 0); rewrite S0; reflexivity|].
    apply (cancel_unit k _ _ (den r) R0n).
    transitivity (pD (den r)).
    - eapply eqn_le; [|exact HL]. lia.
    - eapply eqn_le; [|exact HR]. lia. }
  assert (Ve : vge (N.to_nat m') e).
  { unfold e. apply (proj1 (eqn_vge_sub _ _ _)). apply eqn_sym. exact Els. }
  split; [exact Wr'|]. split.
  - rewrite (Er' O) by lia. rewrite pmul_coef0. unfold padd_s, e, psub_s.
    rewrite R0, L0. change (den s O) with (coef s 0). rewrite S0. change (p1 O) with 1. ring.
  - set (n := (N.to_nat st - 1)%nat).
    assert (E1 : eqn n (pD (den r')) (pD (den r * (p1 + e))%ps)).
    { apply eqn_pD. replace (S n) with (N.to_nat st) by (unfold n; lia). exact Er'. }
    assert (E2 : eqn n (pD (den s) * den r')%ps (pD (den s) * (den r * (p1 + e)))%ps).
    { apply eqn_mul; [reflexivity|]. eapply eqn_le; [|exact Er']. unfold n; lia. }
    rewrite E1, E2. apply (proj2 (eqn_vge_sub _ _ _)).
    assert (De : pD e =p (pD (den s) - pD (den l))%ps) by (unfold e; apply pD_sub).
    assert (Id : (pD (den r * (p1 + e)) - pD (den s) * (den r * (p1 + e)))%ps
                 =p ((pD (den r) - pD (den l) * den r)
                     + e * (pD (den r) - pD (den s) * den r))%ps).
    { rewrite pD_mul, pD_add, De. assert (E0 : pD p1 =p p0) by apply pD_C. rewrite E0. ring. }
    apply (vge_peq n _ _ (symmetry Id)).
    apply vge_add.
    + apply (proj1 (eqn_vge_sub _ _ _)). apply eqn_sym. exact HL.
    + apply (vge_le (N.to_nat m' + (N.to_nat m' - 1))); [unfold n; lia|].
      apply vge_mul; [exact Ve|]. apply (proj1 (eqn_vge_sub _ _ _)). exact HR.
Qed.

(* ------------------------------------------------------------------ exp(x), fast path *)
Fixpoint qfact (n : nat) : Q :=
  match n with O => 1 | S m => qnat (S m) * qfact m end.
Lemma qfact_neq0 n : ~ qfact n == 0.
Proof.
  induction n; simpl; [discriminate|].
  intro H. apply Qmult_integral in H. destruct H as [H|H]; [|contradiction].
  revert H. apply qnat_neq0. lia.
Qed.

Lemma exp_fast_ok cnt : forall (i : nat) cf monom res_p,
  (1 <= i)%nat -> wf monom -> wf res_p -> cf == / qfact (i - 1) -> den monom =p xpow i ->
  (forall n, den res_p n == if (n <? i)%nat then / qfact n else 0) ->
  let r := exp_fast cnt (Z.of_nat i) cf monom res_p in
  wf r /\ forall n, den r n == if (n <? i + cnt)%nat then / qfact n else 0.
Proof.
  induction cnt; intros i cf monom res_p Hi Wm Wr Hc Dm Dr; cbn [exp_fast].
  - split; [assumption|]. intros n. rewrite Dr, Nat.add_0_r. reflexivity.
  - replace (Z.of_nat i + 1)%Z with (Z.of_nat (S i)) by lia.
    set (cf' := qdiv cf (qZ (Z.of_nat i))).
    assert (Hc' : cf' == / qfact i).
    { unfold cf'. rewrite qdiv_ok, Hc. destruct i as [|i']; [lia|].
      replace (S i' - 1)%nat with i' by lia. cbn [qfact]. unfold qZ, qnat.
      change (Z.of_nat (S i') # 1) with (inject_Z (Z.of_nat (S i'))).
      field. split; [apply qfact_neq0|apply (qnat_neq0 (S i')); lia]. }
    destruct (IHcnt (S i) cf' (pmul_assign monom pvar) (padd res_p (pmul_q monom cf'))) as [W D].
    + lia.
    + rewrite pmul_assign_pvar. apply wf_pmul_full; [assumption|apply wf_pvar].
    + apply wf_padd; [assumption|apply wf_pmul_q; assumption].
    + replace (S i - 1)%nat with i by lia. exact Hc'.
    + rewrite pmul_assign_pvar. rewrite den_pmul_full; [|apply Wm|apply wf_pvar].
      rewrite Dm, den_pvar. apply xpow_mul_X.
    + intros n. rewrite (den_padd res_p (pmul_q monom cf') n). unfold padd_s.
      rewrite Dr, (den_pmul_q monom cf' (proj2 Wm) n). unfold pscale. rewrite (Dm n), Hc'.
      unfold xpow.
      destruct (Nat.ltb_spec n i), (Nat.ltb_spec n (S i)), (Nat.eqb_spec n i); try lia; subst; ring.
    + split; [exact W|]. intros n. rewrite D.
      replace (S i + cnt)%nat with (i + S cnt)%nat by lia. reflexivity.
Qed.

Lemma expc_ode (r : ps) (N : nat) :
  (forall n, r n == if (n <? N)%nat then / qfact n else 0) -> eqn (N - 1) (pD r) r.
Proof.
  intros Hr k Hk. unfold pD. rewrite (Hr (S k)), (Hr k).
  destruct (Nat.ltb_spec (S k) N); [|lia]. destruct (Nat.ltb_spec k N); [|lia].
  cbn [qfact]. field. split; [apply qfact_neq0|apply (qnat_neq0 (S k)); lia].
Qed.

(* ------------------------------------------------------------------ series_exp *)
Theorem exp_spec s prec :
  wf s -> coef s 0 == 0 -> (0 < prec < 2147483648)%N ->
  exists r, series_exp s prec = Ok r /\ wf r /\ den r O == 1 /\
            eqn (N.to_nat prec - 1) (pD (den r)) (pD (den s) * den r)%ps.
Proof.
  intros Ws S0 Hp. unfold series_exp.
  destruct (peqb s []) eqn:E0.
  - exists (pint 1). split; [reflexivity|]. split; [apply wf_pconst|].
    split; [rewrite (den_pint_1 O); reflexivity|].
    apply peq_eqn. rewrite (peqb_den _ _ E0), den_nil, den_pint_1.
    rewrite (pD_C 1), pD_0. ring.
  - destruct (peqb s pvar) eqn:E1.
    + destruct (exp_fast_ok (N.to_nat (prec - 1)) 1 1 pvar (pint 1)) as [W D].
      * lia.
      * apply wf_pvar.
      * apply wf_pconst.
      * reflexivity.
      * rewrite den_pvar. intros [|[|n]]; reflexivity.
      * intros n. rewrite (den_pint_1 n). destruct n as [|n]; reflexivity.
      * eexists. split; [reflexivity|]. split; [exact W|].
        split; [rewrite D; destruct (Nat.ltb_spec 0 (1 + N.to_nat (prec - 1))); [reflexivity|lia]|].
        rewrite (peqb_den _ _ E1), den_pvar.
        assert (EX : pD pX =p p1) by (intros [|n]; unfold pD, pX, p1, pC, qnat; simpl; ring).
        rewrite EX.
        assert (E3 : forall a, (p1 * a)%ps =p a) by (intros; ring). rewrite E3.
        replace (N.to_nat prec - 1)%nat with ((1 + N.to_nat (prec - 1)) - 1)%nat by lia.
        apply expc_ode. exact D.
    + rewrite (qis0_find_cf s 0 (proj1 Ws) S0). change (qis0 0) with true. cbv match.
      destruct (fold_res_chain (exp_inv s)
                  (fun res_p step => do l <- series_log res_p step;
                                     Ok (pmul res_p (psub (padd s (pint 1)) l) step))
                  (exp_step_ok s Ws S0) (step_list prec) 1%N (pint 1))
        as (r & E & I).
      * split; [apply wf_pconst|]. split; [rewrite (den_pint_1 O); reflexivity|apply eqn_0].
      * apply step_list_chain.
      * apply step_list_ok. exact Hp.
      * rewrite E. cbn [bind]. rewrite step_list_last in I.
        destruct I as (W & R0 & H). exists r. split; [reflexivity|]. split; [exact W|].
        split; [exact R0|exact H].
Qed.
