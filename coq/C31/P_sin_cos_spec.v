(* C31 obligation: series_sin and series_cos (the loops _series_sin / _series_cos summing the
   Maclaurin polynomials in s with truncated products) solve the coupled problem
   sin(0) = 0, cos(0) = 1, sin' = s' cos, cos' = - s' sin  modulo x^(prec-1); by uniqueness their
   coefficients below x^prec are those of sin(s), cos(s). *)
From Coq Require Import QArith List ZArith NArith.
From SE Require Import C31.VisitorModel.
From SE Require Import C31.SeriesSpec C31.Invert C31.SeriesProofs.
Local Open Scope Q_scope.
Theorem C31_sin_cos_spec :
  forall (s : poly) (prec : N),
    wfb s = true -> const0 s = true -> prec_ok prec = true ->
    exists rs rc, series_sin s prec = Ok rs /\ series_cos s prec = Ok rc /\
      wf rs /\ wf rc /\ den rs O == 0 /\ den rc O == 1 /\
      eqn (N.to_nat prec - 1) (pD (den rs)) (pD (den s) * den rc)%ps /\
      eqn (N.to_nat prec - 1) (pD (den rc)) (- (pD (den s) * den rs))%ps.
Proof. exact sin_cos_spec_b. Qed.
Theorem C31_sin_cos_taylor :
  forall (s : poly) (prec : N) (rs rc : poly) (ys yc : ps),
    wfb s = true -> const0 s = true -> prec_ok prec = true ->
    series_sin s prec = Ok rs -> series_cos s prec = Ok rc ->
    ys O == 0 -> yc O == 1 ->
    pD ys =p (pD (den s) * yc)%ps -> pD yc =p (- (pD (den s) * ys))%ps ->
    eqn (N.to_nat prec) (den rs) ys /\ eqn (N.to_nat prec) (den rc) yc.
Proof. exact sin_cos_taylor. Qed.
Print Assumptions C31_sin_cos_spec.
Print Assumptions C31_sin_cos_taylor.
