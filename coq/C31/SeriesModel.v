(* C31 -- model of SymEngine's truncated power series (symengine/series.h SeriesBase
   recurrences, symengine/series_generic.cpp UnivariateSeries primitives, polys/upolybase.h
   ODictWrapper arithmetic), transcribed branch by branch for coefficients in Q.

   A series polynomial (UExprDict = std::map<int, Expression>) is an association list
   ordered by increasing key.  Keys are C ints (modelled in Z, may be negative: Laurent
   parts), values are Expressions that are exact rationals (Q, kept reduced by Qred).
   Whenever the C++ would leave Q (sin(c), log(c), sqrt(2) ...) the model returns
   [ErrExn EXN_SYMBOLIC]; a division of coefficients by zero (SymEngine: zoo) gives
   [ErrExn EXN_ZOO].  Both mean "outside the rational model", they are not C++ exceptions.
   `unsigned prec` is an N below 2^32; `(int)prec` is [to_int]. *)
From Coq Require Export QArith.
From SE Require Export Base.Prelude.
Local Open Scope Z_scope.
Local Open Scope res_scope.

Definition EXN_SYMBOLIC : N := 90.    (* a coefficient that is not a rational number *)
Definition EXN_ZOO : N := 91.         (* Expression division by zero (zoo/nan coefficients) *)
Definition EXN_UNMODELLED : N := 92.  (* expression class outside the modelled visitor *)

(* ------------------------------------------------------------------ coefficients *)
Definition qis0 (q : Q) : bool := Z.eqb (Qnum q) 0.
Definition qadd (a b : Q) : Q := Qred (a + b).
Definition qsub (a b : Q) : Q := Qred (a - b).
Definition qmul (a b : Q) : Q := Qred (a * b).
Definition qinv (a : Q) : Q := Qred (/ a).
Definition qdiv (a b : Q) : Q := Qred (a / b).
Definition qZ (z : Z) : Q := z # 1.
Definition qN (n : N) : Q := Z.of_N n # 1.

Definition poly := list (Z * Q).

(* ------------------------------------------------------------------ ODictWrapper *)
(* ODictWrapper(const Value&) / ODictWrapper(const int&) *)
Definition pconst (q : Q) : poly := if qis0 q then [] else [(0, Qred q)].
Definition pint (z : Z) : poly := pconst (qZ z).
(* UnivariateSeries::var *)
Definition pvar : poly := [(1, 1%Q)].

(* raw std::map<int,Expression>: p[k] += v (operator[] default-constructs 0) *)
Fixpoint macc (k : Z) (v : Q) (l : poly) : poly :=
  match l with
  | [] => [(k, qadd 0%Q v)]
  | (k', v') :: r =>
      if k <? k' then (k, qadd 0%Q v) :: l
      else if k =? k' then (k', qadd v' v) :: r
      else (k', v') :: macc k v r
  end.

(* ODictWrapper(const std::map&): copies the entries that are not zero *)
Definition pnorm (l : poly) : poly := filter (fun kv => negb (qis0 (snd kv))) l.

(* one iteration of ODictWrapper::operator+= *)
Fixpoint padd_term (k : Z) (v : Q) (l : poly) : poly :=
  match l with
  | [] => [(k, v)]
  | (k', v') :: r =>
      if k <? k' then (k, v) :: l
      else if k =? k' then
        let s := qadd v' v in if qis0 s then r else (k', s) :: r
      else (k', v') :: padd_term k v r
  end.
Definition padd (a b : poly) : poly :=
  fold_left (fun acc kv => padd_term (fst kv) (snd kv) acc) b a.

(* one iteration of ODictWrapper::operator-= *)
Fixpoint psub_term (k : Z) (v : Q) (l : poly) : poly :=
  match l with
  | [] => [(k, Qred (- v))]
  | (k', v') :: r =>
      if k <? k' then (k, Qred (- v)) :: l
      else if k =? k' then
        let s := qsub v' v in if qis0 s then r else (k', s) :: r
      else (k', v') :: psub_term k v r
  end.
Definition psub (a b : poly) : poly :=
  fold_left (fun acc kv => psub_term (fst kv) (snd kv) acc) b a.

(* unary minus: iter.second *= -1 *)
Definition pneg (a : poly) : poly := map (fun kv => (fst kv, qmul (snd kv) (-1 # 1))) a.

(* ODictWrapper::mul (operator* ): full product, zero entries erased afterwards *)
Definition pmul_full (a b : poly) : poly :=
  match a with
  | [] => a
  | _ => match b with
         | [] => b
         | _ => pnorm (fold_left (fun acc kv1 =>
                         fold_left (fun acc kv2 =>
                           macc (fst kv1 + fst kv2) (qmul (snd kv1) (snd kv2)) acc) b acc) a [])
         end
  end.

(* ODictWrapper::operator*= *)
Definition pmul_assign (a b : poly) : poly :=
  match a with
  | [] => []
  | _ => match b with
         | [] => []
         | [(k, c)] => if k =? 0 then map (fun kv => (fst kv, qmul (snd kv) c)) a
                       else pmul_full a b
         | _ => pmul_full a b
         end
  end.

(* Poly * Expression (implicit UExprDict(Expression)) *)
Definition pmul_q (a : poly) (q : Q) : poly := pmul_full a (pconst q).
(* operator/(UExprDict, Expression) = a * (1 / b); 1/0 is zoo in SymEngine *)
Definition pdiv_q (a : poly) (q : Q) : res poly :=
  if qis0 q then ErrExn EXN_ZOO else Ok (pmul_full a (pconst (qinv q))).
(* operator/=(Expression):  *this *= (1 / other) *)
Definition pdiv_assign_q (a : poly) (q : Q) : res poly :=
  if qis0 q then ErrExn EXN_ZOO else Ok (pmul_assign a (pconst (qinv q))).

(* operator== on the dictionaries *)
Fixpoint peqb (a b : poly) : bool :=
  match a, b with
  | [], [] => true
  | (k, v) :: r, (k', v') :: r' => (k =? k') && Qeq_bool v v' && peqb r r'
  | _, _ => false
  end.

(* ------------------------------------------------------------------ UnivariateSeries *)
Definition to_int (prec : N) : Z :=
  let p := Z.of_N (prec mod W32)%N in if p <? 2147483648 then p else p - 4294967296.
(* unsigned prec - 1 *)
Definition pred32 (prec : N) : N := usub prec 1.

(* ldegree: s.get_dict().begin()->first  (reads through end() when the map is empty) *)
Definition ldegree (s : poly) : res Z :=
  match s with [] => ErrOOB 0 0 | (k, _) :: _ => Ok k end.

(* find_cf: count(deg) == 0 ? 0 : at(deg) *)
Fixpoint find_cf (s : poly) (deg : Z) : Q :=
  match s with
  | [] => 0%Q
  | (k, v) :: r => if k =? deg then v else find_cf r deg
  end.

(* inner loop of UnivariateSeries::mul: stops at the first exponent >= (int)prec *)
Fixpoint tmul_inner (k1 : Z) (v1 : Q) (b : poly) (pz : Z) (acc : poly) : poly :=
  match b with
  | [] => acc
  | (k2, v2) :: r =>
      let e := k1 + k2 in
      if e <? pz then tmul_inner k1 v1 r pz (macc e (qmul v1 v2) acc) else acc
  end.
Definition pmul (a b : poly) (prec : N) : poly :=
  pnorm (fold_left (fun acc kv1 => tmul_inner (fst kv1) (snd kv1) b (to_int prec) acc) a []).

(* the square-and-multiply loop of UnivariateSeries::pow, exp >= 1 *)
Fixpoint ppow_pos (x y : poly) (e : positive) (prec : N) : poly :=
  match e with
  | xH => pmul x y prec
  | xO p => ppow_pos (pmul x x prec) y p prec
  | xI p => ppow_pos (pmul x x prec) (pmul x y prec) p prec
  end.

Definition ppow (base : poly) (e : Z) (prec : N) : res poly :=
  match e with
  | Z0 => match base with [] => ErrExn EXN_DOMAIN | _ => Ok (pint 1) end
  | Zpos p => Ok (ppow_pos base (pint 1) p prec)
  | Zneg p =>
      (* SYMENGINE_ASSERT(base.size() == 1) is compiled out: the first entry is used *)
      match base with
      | [] => ErrOOB 0 0
      | (k, v) :: _ =>
          if qis0 v then ErrExn EXN_ZOO
          else Ok (ppow_pos (pnorm [(- k, qdiv 1%Q v)]) (pint 1) p prec)
      end
  end.

(* UnivariateSeries::diff (var is always x here) *)
Definition pdiff (s : poly) : poly :=
  pnorm (fold_right (fun kv acc =>
           if fst kv =? 0 then acc else (fst kv - 1, qmul (snd kv) (qZ (fst kv))) :: acc) [] s).

(* UnivariateSeries::integrate *)
Fixpoint pint_raw (s : poly) : res poly :=
  match s with
  | [] => Ok []
  | (k, v) :: r =>
      if k =? -1 then ErrExn EXN_NOTIMPL
      else do r' <- pint_raw r; Ok ((k + 1, qdiv v (qZ (k + 1))) :: r')
  end.
Definition pintegrate (s : poly) : res poly := do l <- pint_raw s; Ok (pnorm l).

Fixpoint fold_res {A B : Type} (f : A -> B -> res A) (l : list B) (a : A) : res A :=
  match l with
  | [] => Ok a
  | b :: r => do a' <- f a b; fold_res f r a'
  end.

(* UnivariateSeries::subs: result starts as x (sic), then += c_i * r^i *)
Definition psubs (s r : poly) (prec : N) : res poly :=
  fold_res (fun acc kv => do pw <- ppow r (fst kv) prec;
                          Ok (padd acc (pmul_full (pconst (snd kv)) pw))) s pvar.

(* ------------------------------------------------------------------ SeriesBase *)
(* step_list: 2, then the halving chain 2 + t/2 down to <= 4 (pushed to the front), then prec *)
Fixpoint steps_chain (fuel : nat) (tprec : N) (acc : list N) : list N :=
  match fuel with
  | O => acc
  | S f => if (4 <? tprec)%N then let t := (2 + tprec / 2)%N in steps_chain f t (t :: acc) else acc
  end.
Definition step_list (prec : N) : list N :=
  (2%N :: steps_chain (S (N.size_nat prec)) prec []) ++ [prec].

Definition shift_by (s : poly) (e : Z) (prec : N) : res poly :=
  do v <- ppow pvar e prec; Ok (pmul_full s v).

Definition series_invert (s : poly) (prec : N) : res poly :=
  if peqb s [] then ErrExn EXN_DIVZERO
  else if peqb s (pint 1) then Ok (pint 1)
  else
    do ldeg <- ldegree s;
    let co := find_cf s ldeg in
    if qis0 co then ErrExn EXN_ZOO else
    let p0 := pconst (qinv co) in
    do ss <- (if ldeg =? 0 then Ok s else shift_by s (- ldeg) prec);
    let p := fold_left (fun p step => pmul (psub (pint 2) (pmul p ss step)) p step)
                       (step_list prec) p0 in
    if ldeg =? 0 then Ok p else shift_by p (- ldeg) prec.

(* series_reverse *)
Fixpoint reverse_loop (cnt : nat) (i : Z) (s r : poly) (a : Q) : res poly :=
  match cnt with
  | O => Ok r
  | S c =>
      do sp <- psubs s r (Z.to_N (i + 1));
      do xi <- ppow pvar i (Z.to_N (i + 1));
      do t <- pdiv_q (pmul_q xi (find_cf sp i)) a;
      reverse_loop c (i + 1) s (psub r t) a
  end.
Definition series_reverse (s : poly) (prec : N) : res poly :=
  if negb (qis0 (find_cf s 0)) then ErrExn EXN_SYMENGINE
  else let a := find_cf s 1 in
       if qis0 a then ErrExn EXN_SYMENGINE
       else do r0 <- pdiv_assign_q pvar a;
            reverse_loop (N.to_nat (prec - 2)) 2 s r0 a.

(* integer n-th root by bits; Series::root(c, n) = pow(c, 1/n) stays rational only for
   perfect powers of positive rationals (and 0) *)
Fixpoint iroot_bits (bits : nat) (n : positive) (v r : Z) : Z :=
  match bits with
  | O => r
  | S b => let r' := r + 2 ^ Z.of_nat b in
           if Z.pow_pos r' n <=? v then iroot_bits b n v r' else iroot_bits b n v r
  end.
Definition iroot (n : positive) (v : Z) : Z := iroot_bits (Z.to_nat (Z.log2 v + 1)) n v 0.
Definition qroot (c : Q) (n : positive) : res Q :=
  let c := Qred c in
  if qis0 c then Ok 0%Q
  else if Qnum c <? 0 then ErrExn EXN_SYMBOLIC
  else let a := iroot n (Qnum c) in
       let b := iroot n (Zpos (Qden c)) in
       if (Z.pow_pos a n =? Qnum c) && (Z.pow_pos b n =? Zpos (Qden c))
       then Ok (Qred (a # Z.to_pos b)) else ErrExn EXN_SYMBOLIC.

Definition series_nthroot (s : poly) (n : Z) (prec : N) : res poly :=
  if n =? 0 then Ok (pint 1)
  else if n =? 1 then Ok s
  else if n =? -1 then series_invert s prec
  else
    do ldeg <- ldegree s;
    if negb (Z.rem ldeg n =? 0) then ErrExn EXN_NOTIMPL else
    do ss <- (if ldeg =? 0 then Ok s else shift_by s (- ldeg) prec);
    let ct := find_cf ss 0 in
    let do_inv := n <? 0 in
    let n := Z.abs n in
    do ctroot <- qroot ct (Z.to_pos n);
    do sn <- pdiv_q ss ct;
    do res_p <- fold_res (fun res_p step =>
                   do pw <- ppow res_p (n + 1) step;
                   let t := pmul pw sn step in
                   do d <- pdiv_q (psub res_p t) (qZ n);
                   Ok (padd res_p d)) (step_list prec) (pint 1);
    do res_p <- (if ldeg =? 0 then Ok res_p
                 else do v <- ppow pvar (Z.quot (- ldeg) n) prec; Ok (pmul_assign res_p v));
    if do_inv then pdiv_q res_p ctroot
    else do iv <- series_invert res_p prec; Ok (pmul_q iv ctroot).

(* "fast atan(x)" loop: i = 1, 3, 5, ... < prec *)
Fixpoint atan_fast (cnt : nat) (i : Z) (sign : Z) (monom vsq res_p : poly) : poly :=
  match cnt with
  | O => res_p
  | S c => atan_fast c (i + 2) (sign * -1) (pmul_assign monom vsq) vsq
             (padd res_p (pmul_q monom (qdiv (qZ sign) (qZ i))))
  end.

Definition series_atan (s : poly) (prec : N) : res poly :=
  if peqb s [] then Ok []
  else if peqb s pvar then
    Ok (atan_fast (N.to_nat (prec / 2)) 1 1 pvar (pmul_full pvar pvar) [])
  else
    let c := find_cf s 0 in
    do s2 <- ppow s 2 (pred32 prec);
    let p := padd s2 (pint 1) in
    do ip <- series_invert p (pred32 prec);
    let res_p := pmul (pdiff s) ip (pred32 prec) in
    do r <- pintegrate res_p;
    if qis0 c then Ok r else ErrExn EXN_SYMBOLIC.

Definition series_tan (s : poly) (prec : N) : res poly :=
  let c := find_cf s 0 in
  let ss := if qis0 c then s else psub s (pconst c) in
  do res_p <- fold_res (fun res_p step =>
                 do r2 <- ppow res_p 2 step;
                 let t := padd r2 (pint 1) in
                 do at_ <- series_atan res_p step;
                 Ok (padd res_p (pmul (psub ss at_) t step))) (step_list prec) [];
  if qis0 c then Ok res_p else ErrExn EXN_SYMBOLIC.

Definition series_cot (s : poly) (prec : N) : res poly :=
  do t <- series_tan s prec; series_invert t prec.

Fixpoint sin_loop (cnt : nat) (i : Z) (prod : Q) (monom ssq res_p : poly) (prec : N) : poly :=
  match cnt with
  | O => res_p
  | S c =>
      let j := 2 * i + 1 in
      let prod := if i =? 0 then prod else qdiv prod (qZ (1 - j)) in
      let prod := qdiv prod (qZ j) in
      sin_loop c (i + 1) prod (pmul monom ssq prec) ssq
               (padd res_p (pmul monom (pconst prod) prec)) prec
  end.
Definition series_sin0 (s : poly) (prec : N) : poly :=
  sin_loop (N.to_nat (prec / 2)) 0 1%Q s (pmul s s prec) [] prec.

Fixpoint cos_loop (cnt : nat) (i : Z) (prod : Q) (monom ssq res_p : poly) (prec : N) : poly :=
  match cnt with
  | O => res_p
  | S c =>
      let j := 2 * i in
      let prod := if i =? 0 then prod else qdiv prod (qZ (1 - j)) in
      let prod := qdiv prod (qZ j) in
      cos_loop c (i + 1) prod (pmul monom ssq prec) ssq
               (padd res_p (pmul monom (pconst prod) prec)) prec
  end.
Definition series_cos0 (s : poly) (prec : N) : poly :=
  let ssq := pmul s s prec in
  cos_loop (N.to_nat (prec / 2)) 1 1%Q ssq ssq (pint 1) prec.

Definition series_sin (s : poly) (prec : N) : res poly :=
  if qis0 (find_cf s 0) then Ok (series_sin0 s prec) else ErrExn EXN_SYMBOLIC.
Definition series_cos (s : poly) (prec : N) : res poly :=
  if qis0 (find_cf s 0) then Ok (series_cos0 s prec) else ErrExn EXN_SYMBOLIC.
Definition series_csc (s : poly) (prec : N) : res poly :=
  do t <- series_sin s prec; series_invert t prec.
Definition series_sec (s : poly) (prec : N) : res poly :=
  do t <- series_cos s prec; series_invert t prec.

Definition series_asin (s : poly) (prec : N) : res poly :=
  let c := find_cf s 0 in
  do s2 <- ppow s 2 (pred32 prec);
  let t := psub (pint 1) s2 in
  do rt <- series_nthroot t (-2) (pred32 prec);
  do r <- pintegrate (pmul_full (pdiff s) rt);
  if qis0 c then Ok r else ErrExn EXN_SYMBOLIC.

(* acos(c) [+ asin(c)] - series_asin(s): acos(c) is never rational (acos(0) = pi/2) *)
Definition series_acos (s : poly) (prec : N) : res poly :=
  do _ <- series_asin s prec; ErrExn EXN_SYMBOLIC.

(* "fast log(1+x)" loop: i = 1 .. prec-1 *)
Fixpoint log_fast (cnt : nat) (i : Z) (monom res_p : poly) : res poly :=
  match cnt with
  | O => Ok res_p
  | S c =>
      do t <- pdiv_q (pmul_q monom (qZ (if Z.rem i 2 =? 0 then -1 else 1))) (qZ i);
      log_fast c (i + 1) (pmul_assign monom pvar) (padd res_p t)
  end.

Definition series_log (s : poly) (prec : N) : res poly :=
  if peqb s (pint 1) then Ok []
  else if peqb s (padd pvar (pint 1)) then log_fast (N.to_nat (prec - 1)) 1 pvar []
  else
    let c := find_cf s 0 in
    do iv <- series_invert s prec;
    let res_p := pmul (pdiff s) iv (pred32 prec) in
    do r <- pintegrate res_p;
    if Qeq_bool c 1 then Ok r else ErrExn EXN_SYMBOLIC.

(* "fast exp(x)" loop *)
Fixpoint exp_fast (cnt : nat) (i : Z) (coef : Q) (monom res_p : poly) : poly :=
  match cnt with
  | O => res_p
  | S c =>
      let coef := qdiv coef (qZ i) in
      exp_fast c (i + 1) coef (pmul_assign monom pvar) (padd res_p (pmul_q monom coef))
  end.

Definition series_exp (s : poly) (prec : N) : res poly :=
  if peqb s [] then Ok (pint 1)
  else if peqb s pvar then Ok (exp_fast (N.to_nat (prec - 1)) 1 1%Q pvar (pint 1))
  else
    let c := find_cf s 0 in
    let t := if qis0 c then padd s (pint 1) else padd (psub s (pconst c)) (pint 1) in
    do res_p <- fold_res (fun res_p step =>
                   do l <- series_log res_p step;
                   Ok (pmul res_p (psub t l) step)) (step_list prec) (pint 1);
    if qis0 c then Ok res_p else ErrExn EXN_SYMBOLIC.

Definition series_lambertw (s : poly) (prec : N) : res poly :=
  if negb (qis0 (find_cf s 0)) then ErrExn EXN_NOTIMPL
  else fold_res (fun p1 step =>
         do e <- series_exp p1 step;
         let p2 := psub (pmul e p1 step) s in
         do p3 <- series_invert (pmul e (padd p1 (pint 1)) step) step;
         Ok (psub p1 (pmul p2 p3 step))) (step_list prec) [].

Definition series_sinh (s : poly) (prec : N) : res poly :=
  let c := find_cf s 0 in
  do p1 <- series_exp (psub s (pconst c)) prec;
  do p2 <- series_invert p1 prec;
  if qis0 c then pdiv_q (psub p1 p2) (2 # 1) else ErrExn EXN_SYMBOLIC.

Definition series_cosh (s : poly) (prec : N) : res poly :=
  let c := find_cf s 0 in
  do p1 <- series_exp (psub s (pconst c)) prec;
  do p2 <- series_invert p1 prec;
  if qis0 c then pdiv_q (padd p1 p2) (2 # 1) else ErrExn EXN_SYMBOLIC.

Definition series_atanh (s : poly) (prec : N) : res poly :=
  let c := find_cf s 0 in
  do s2 <- ppow s 2 (pred32 prec);
  let p := psub (pint 1) s2 in
  do ip <- series_invert p (pred32 prec);
  let res_p := pmul (pdiff s) ip (pred32 prec) in
  do r <- pintegrate res_p;
  if qis0 c then Ok r else ErrExn EXN_SYMBOLIC.

Definition series_asinh (s : poly) (prec : N) : res poly :=
  let c := find_cf s 0 in
  do s2 <- ppow s 2 (pred32 prec);
  do p <- series_nthroot (padd s2 (pint 1)) 2 (pred32 prec);
  do ip <- series_invert p (pred32 prec);
  do r <- pintegrate (pmul_full (pdiff s) ip);
  if qis0 c then Ok r else ErrExn EXN_SYMBOLIC.

Definition series_tanh (s : poly) (prec : N) : res poly :=
  let c := find_cf s 0 in
  let r0 := if qis0 c then s else psub s (pconst c) in
  do res_p <- fold_res (fun res_p step =>
                 do at_ <- series_atanh res_p step;
                 let p := psub r0 at_ in
                 do r2 <- ppow res_p 2 step;
                 Ok (padd res_p (pmul (pneg p) (psub r2 (pint 1)) step))) (step_list prec) r0;
  if qis0 c then Ok res_p else ErrExn EXN_SYMBOLIC.
