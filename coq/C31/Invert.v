(* C31 -- step_list and series_invert: the Newton iteration p <- p (2 - p s) along the
   precision chain 2, ..., prec computes the inverse modulo x^prec. *)
From Coq Require Import QArith Qring Qfield Setoid Morphisms Lia List ZArith NArith.
From SE Require Import C31.SeriesModel C31.PS C31.Sem.
Local Open Scope Q_scope.
Local Arguments Z.eqb : simpl never.
Local Arguments N.mul : simpl never.
Local Arguments N.div : simpl never.
Local Arguments N.ltb : simpl never.

Ltac Zify.zify_post_hook ::= Z.div_mod_to_equations.

(* ------------------------------------------------------------------ the precision chain *)
(* every step is at most twice the previous one *)
Fixpoint chain_ok (m : N) (l : list N) : Prop :=
  match l with
  | [] => True
  | s :: r => (s <= 2 * m)%N /\ chain_ok s r
  end.

Lemma pos_size_nat_gt p : (Npos p < 2 ^ N.of_nat (Pos.size_nat p))%N.
Proof.
  induction p; cbn [Pos.size_nat]; rewrite Nat2N.inj_succ, N.pow_succ_r'; lia.
Qed.
Lemma size_nat_gt n : (n < 2 ^ N.of_nat (N.size_nat n))%N.
Proof. destruct n; [simpl; lia|apply pos_size_nat_gt]. Qed.

Lemma steps_chain_ok prec fuel : forall tprec acc,
  (tprec < 4 + 2 ^ N.of_nat fuel)%N ->
  (exists rest, acc ++ [prec] = tprec :: rest /\ chain_ok tprec rest) ->
  chain_ok 2 (steps_chain fuel tprec acc ++ [prec]).
Proof.
  induction fuel; intros tprec acc Hlt (rest & E & Hc).
  - simpl. rewrite E. simpl in Hlt. split; [lia|assumption].
  - cbn [steps_chain]. destruct (N.ltb_spec 4 tprec).
    + apply IHfuel.
      * rewrite Nat2N.inj_succ, N.pow_succ_r' in Hlt. lia.
      * exists (tprec :: rest). split; [simpl; rewrite E; reflexivity|].
        split; [lia|assumption].
    + rewrite E. split; [lia|assumption].
Qed.

Lemma step_list_chain prec : chain_ok 1 (step_list prec).
Proof.
  unfold step_list. cbn [app]. split; [lia|].
  apply steps_chain_ok.
  - pose proof (size_nat_gt prec). rewrite Nat2N.inj_succ, N.pow_succ_r'. lia.
  - exists []. split; [reflexivity|exact I].
Qed.

Lemma steps_chain_le M fuel : forall tprec acc,
  (tprec <= M)%N -> Forall (fun s => (s <= M)%N) acc ->
  Forall (fun s => (s <= M)%N) (steps_chain fuel tprec acc).
Proof.
  induction fuel; intros tprec acc Ht Ha; cbn [steps_chain]; [assumption|].
  destruct (N.ltb_spec 4 tprec); [|assumption].
  apply IHfuel; [lia|]. constructor; [lia|assumption].
Qed.
Lemma step_list_le prec : Forall (fun s => (s <= N.max prec 4)%N) (step_list prec).
Proof.
  unfold step_list. cbn [app]. constructor; [lia|].
  apply Forall_app; split; [|constructor; [lia|constructor]].
  apply steps_chain_le; [lia|constructor].
Qed.
Lemma step_list_last prec d : last (step_list prec) d = prec.
Proof. unfold step_list. apply last_last. Qed.

(* ------------------------------------------------------------------ one Newton step *)
Definition inv_step (s : poly) (p : poly) (st : N) : poly :=
  pmul (psub (pint 2) (pmul p s st)) p st.

Lemma pC_two : pC (inject_Z 2) =p (p1 + p1)%ps.
Proof. intros [|n]; unfold padd_s, p1, pC; simpl; ring. Qed.

Lemma inv_step_ok s p st m :
  wf s -> wf p -> (st <= 2 * m)%N -> (st < 2147483648)%N ->
  eqn (N.to_nat m) (den p * den s)%ps p1 ->
  wf (inv_step s p st) /\ eqn (N.to_nat st) (den (inv_step s p st) * den s)%ps p1.
Proof.
  intros [Ss Ps] [Sp Pp] Hst Hsm H. unfold inv_step.
  assert (W1 : wf (pmul p s st)) by (apply wf_pmul; assumption).
  assert (W2 : wf (psub (pint 2) (pmul p s st))) by (apply wf_psub; [apply wf_pconst|assumption]).
  split; [apply wf_pmul; [apply W2|assumption]|].
  assert (E1 : eqn (N.to_nat st) (den (pmul (psub (pint 2) (pmul p s st)) p st))
                   ((p1 + p1 - den p * den s) * den p)%ps).
  { rewrite (eqn_pmul _ _ _ Sp (proj2 W2) Pp Hsm).
    apply eqn_mul; [|reflexivity].
    rewrite den_psub, den_pint, pC_two.
    apply eqn_sub; [reflexivity|]. apply eqn_pmul; assumption. }
  rewrite E1.
  assert (E2 : ((p1 + p1 - den p * den s) * den p * den s)%ps
               =p (den p * (p1 + p1 - den p * den s) * den s)%ps) by ring.
  rewrite E2. apply (newton_inverse_step (N.to_nat m)); [lia|assumption].
Qed.

Lemma last_cons_default {A} (a : A) l d d' : last (a :: l) d = last (a :: l) d'.
Proof.
  revert a; induction l as [|b l IH]; intros a; [reflexivity|].
  change (last (b :: l) d = last (b :: l) d'). apply IH.
Qed.

Lemma inv_loop_ok s : wf s -> forall steps p m,
  wf p -> chain_ok m steps -> Forall (fun st => (st < 2147483648)%N) steps ->
  eqn (N.to_nat m) (den p * den s)%ps p1 ->
  let p' := fold_left (fun p step => pmul (psub (pint 2) (pmul p s step)) p step) steps p in
  wf p' /\ eqn (N.to_nat (last steps m)) (den p' * den s)%ps p1.
Proof.
  intros Ws steps; induction steps as [|st r IH]; intros p m Wp Hc Hf H; simpl.
  - split; assumption.
  - destruct Hc as [Hst Hc]. inversion Hf as [|? ? Hs1 Hf']; subst.
    destruct (inv_step_ok s p st m Ws Wp Hst Hs1 H) as [W' E'].
    destruct (IH _ st W' Hc Hf' E') as [W'' E''].
    split; [exact W''|].
    destruct r as [|st' r']; [exact E''|].
    change (last (st :: st' :: r') m) with (last (st' :: r') m).
    rewrite (last_cons_default st' r' m st). exact E''.
Qed.

(* ------------------------------------------------------------------ series_invert *)
Theorem invert_spec s prec :
  wf s -> ~ coef s 0 == 0 -> (prec < 2147483648)%N ->
  exists r, series_invert s prec = Ok r /\ wf r /\
            eqn (N.to_nat prec) (den r * den s)%ps p1.
Proof.
  intros Ws H0 Hp. destruct (wf_head s Ws H0) as (v & r0 & Es & Ev).
  assert (Hv : qis0 v = false) by (apply qis0_false; rewrite Ev; assumption).
  assert (Hl : ldegree s = Ok 0%Z) by (rewrite Es; reflexivity).
  assert (Hc : find_cf s 0 = v) by (rewrite Es; cbn [find_cf]; rewrite Z.eqb_refl; reflexivity).
  assert (Hn : peqb s [] = false) by (rewrite Es; reflexivity).
  unfold series_invert. rewrite Hn.
  destruct (peqb s (pint 1)) eqn:E1.
  - exists (pint 1). split; [reflexivity|]. split; [apply wf_pconst|].
    apply peq_eqn. rewrite (peqb_den _ _ E1). rewrite den_pint.
    rewrite pC_mulC. intros [|n]; reflexivity.
  - rewrite Hl. cbn [bind]. rewrite Hc, Hv. rewrite !Z.eqb_refl. cbn [bind].
    set (p0 := pconst (qinv v)).
    assert (Wp0 : wf p0) by apply wf_pconst.
    assert (E0 : eqn (N.to_nat 1) (den p0 * den s)%ps p1).
    { intros k Hk. assert (k = O) by lia; subst k. rewrite pmul_coef0.
      unfold p0. rewrite (den_pconst (qinv v) O). unfold pC, p1, den. simpl Z.of_nat.
      rewrite qinv_ok, <- Ev. change (pC 1 0%nat) with 1. field.
      intro Hz; apply H0; rewrite <- Ev; exact Hz. }
    assert (Hf : Forall (fun st => (st < 2147483648)%N) (step_list prec)).
    { eapply Forall_impl; [|apply step_list_le]. simpl. intros; lia. }
    destruct (inv_loop_ok s Ws (step_list prec) p0 1%N Wp0 (step_list_chain prec) Hf E0) as [W' E'].
    rewrite step_list_last in E'.
    eexists. split; [reflexivity|]. split; assumption.
Qed.

(* the inverse only depends on the input modulo x^prec (non-zero constant terms) *)
Theorem invert_congruence s t prec r r' :
  wf s -> wf t -> ~ coef s 0 == 0 -> ~ coef t 0 == 0 -> (prec < 2147483648)%N ->
  eqn (N.to_nat prec) (den s) (den t) ->
  series_invert s prec = Ok r -> series_invert t prec = Ok r' ->
  eqn (N.to_nat prec) (den r) (den r').
Proof.
  intros Ws Wt Hs Ht Hp Hst Er Er'.
  destruct (invert_spec s prec Ws Hs Hp) as (x & Ex & _ & Hx).
  destruct (invert_spec t prec Wt Ht Hp) as (y & Ey & _ & Hy).
  rewrite Er in Ex; inversion Ex; subst x. rewrite Er' in Ey; inversion Ey; subst y.
  apply (inverse_unique _ _ _ (den s) (den t)); assumption.
Qed.
