(* C31 refutations (the faithful model reproduces the library's defect; replayed on the
   library as known finding C31/precision-loss-dividing-by-series-without-constant-term):
   series_invert does not respect congruence modulo x^prec when the lowest degree is positive,
   and series(x/sin(x), x, 5) is not the truncation of series(x/sin(x), x, 7). *)
From Coq Require Import QArith List ZArith NArith.
From SE Require Import C31.VisitorModel.
From SE Require Import C31.SeriesSpec C31.Invert C31.SeriesProofs.
Local Open Scope Q_scope.
Theorem C31_invert_congruence_refuted :
  exists s t prec r r',
    wfb s = true /\ wfb t = true /\ eqn (N.to_nat prec) (den s) (den t) /\
    series_invert s prec = Ok r /\ series_invert t prec = Ok r' /\
    ~ eqn (N.to_nat prec) (den (pmul pvar r prec)) (den (pmul pvar r' prec)).
Proof. exact invert_congruence_refuted. Qed.
Theorem C31_series_truncation_refuted :
  exists e r5 r7, series_top e 5 = Ok r5 /\ series_top e 7 = Ok r7 /\ ~ coef r5 4 == coef r7 4.
Proof. exact series_truncation_refuted. Qed.
Print Assumptions C31_invert_congruence_refuted.
Print Assumptions C31_series_truncation_refuted.
