(* C31: the hypotheses of the theorems are satisfiable by non-trivial inputs, and the
   conclusions are observable on them. *)
From Coq Require Import QArith List ZArith NArith Lia.
From SE Require Import C31.VisitorModel.
From SE Require Import C31.SeriesSpec C31.Invert C31.LogAtan C31.Exp C31.SeriesProofs C31.VisitorProofs.
Local Open Scope Q_scope.

Definition s1 : poly := [(0%Z, 2 # 1); (1%Z, 1 # 3); (3%Z, -5 # 7)].      (* 2 + x/3 - 5x^3/7 *)
Definition s0 : poly := [(1%Z, 1 # 2); (2%Z, 3 # 1); (4%Z, -1 # 6)].      (* x/2 + 3x^2 - x^4/6 *)
Definition s01 : poly := [(0%Z, 1 # 1); (1%Z, 1 # 2); (2%Z, 3 # 1)].      (* 1 + x/2 + 3x^2 *)

Example guard_invert : wfb s1 = true /\ const0 s1 = false.
Proof. vm_compute. split; reflexivity. Qed.
Example run_invert : exists r, series_invert s1 9 = Ok r /\ length r = 9%nat.
Proof. eexists. vm_compute. split; reflexivity. Qed.
Example guard_exp : wfb s0 = true /\ const0 s0 = true /\ prec_ok 9 = true /\ peqb s0 pvar = false.
Proof. vm_compute. repeat split; reflexivity. Qed.
Example run_exp : exists r, series_exp s0 9 = Ok r /\ length r = 9%nat.
Proof. eexists. vm_compute. split; reflexivity. Qed.
Example run_atan : exists r, series_atan s0 9 = Ok r /\ length r = 8%nat.
Proof. eexists. vm_compute. split; reflexivity. Qed.
Example guard_log : wfb s01 = true /\ const1 s01 = true.
Proof. vm_compute. split; reflexivity. Qed.
Example run_log : exists r, series_log s01 9 = Ok r /\ length r = 8%nat.
Proof. eexists. vm_compute. split; reflexivity. Qed.
(* exp(log(1 + x/2 + 3x^2)) = 1 + x/2 + 3x^2 modulo x^9 *)
Example exp_log_roundtrip :
  bind (series_log s01 9) (fun l => series_exp l 9) = Ok s01.
Proof. vm_compute. reflexivity. Qed.
(* the visitor on sin(x): x - x^3/6 + x^5/120 *)
Example visitor_sin :
  series_top (EF1 TC_Sin (ESym name_x)) 7 = Ok [(1%Z, 1); (3%Z, -1 # 6); (5%Z, 1 # 120)].
Proof. vm_compute. reflexivity. Qed.

(* roots: 4 + x/3 - 5x^3/7 has the perfect-square constant term 4 *)
Definition s4 : poly := [(0%Z, 4 # 1); (1%Z, 1 # 3); (3%Z, -5 # 7)].
Example guard_root : wfb s4 = true /\ const0 s4 = false /\ qroot (find_cf s4 0) 2 = Ok (2 # 1).
Proof. vm_compute. repeat split; reflexivity. Qed.
Example run_root : exists r, series_nthroot s4 2 9 = Ok r /\ length r = 9%nat /\ find_cf r 0 == 2.
Proof. eexists. vm_compute. repeat split; reflexivity. Qed.
Example run_root_roundtrip :
  bind (series_nthroot s4 2 9) (fun r => ppow r 2 9) = Ok s4.
Proof. vm_compute. reflexivity. Qed.
Example guard_prec2 : prec_ok2 9 = true.
Proof. reflexivity. Qed.
Example run_tan : exists r, series_tan s0 8 = Ok r /\ length r = 7%nat.
Proof. eexists. vm_compute. split; reflexivity. Qed.
Example run_tanh : exists r, series_tanh s0 8 = Ok r /\ length r = 7%nat.
Proof. eexists. vm_compute. split; reflexivity. Qed.
Example run_asin : exists r, series_asin s0 8 = Ok r /\ length r = 10%nat.
Proof. eexists. vm_compute. split; reflexivity. Qed.
Example run_lambertw : exists r, series_lambertw s0 8 = Ok r /\ length r = 7%nat.
Proof. eexists. vm_compute. split; reflexivity. Qed.
Example run_sinh_cosh :
  exists rs rc, series_sinh s0 8 = Ok rs /\ series_cosh s0 8 = Ok rc /\ length rs = 7%nat /\ length rc = 7%nat.
Proof. eexists. eexists. vm_compute. repeat split; reflexivity. Qed.
(* the chained visitor instance of P_compose.v is not vacuous *)
Example run_exp_sin :
  exists r, series_top (EPow (EConst name_E) (EF1 TC_Sin (ESym name_x))) 6 = Ok r /\ length r = 5%nat.
Proof. eexists. vm_compute. split; reflexivity. Qed.

(* the hypothesis DenF of the visitor soundness theorem is satisfiable: the formal exponential
   series sum x^n/n! is a Taylor series of exp(x), and series(exp(x), x, 9) succeeds *)
Example den_exp_x : DenF (2 * size (EPow (EConst name_E) (ESym name_x)) + 2)
                         (EPow (EConst name_E) (ESym name_x)) (fun n => / qfact n).
Proof.
  cbn [size Nat.add Nat.mul DenF]. change (is_E (EConst name_E)) with true. cbv match.
  exists pX. split; [split; reflexivity|]. split; [reflexivity|]. split; [reflexivity|].
  intros n. unfold pD.
  assert (E : (pD pX * (fun n => / qfact n))%ps n == / qfact n).
  { assert (EX : pD pX =p p1) by (intros [|k]; unfold pD, pX, p1, pC, qnat; simpl; ring).
    rewrite (pmul_proper _ _ EX _ _ (reflexivity _) n). apply pmul_1_l. }
  unfold pD in E. rewrite E. cbn [qfact]. field.
  split; [apply qfact_neq0|apply (qnat_neq0 (S n)); lia].
Qed.
Example run_exp_x : exists r, series_top (EPow (EConst name_E) (ESym name_x)) 9 = Ok r /\ length r = 9%nat.
Proof. eexists. vm_compute. split; reflexivity. Qed.
