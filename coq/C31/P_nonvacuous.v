(* C31: the hypotheses of the theorems are satisfiable by non-trivial inputs, and the
   conclusions are observable on them. *)
From Coq Require Import QArith List ZArith NArith.
From SE Require Import C31.VisitorModel.
From SE Require Import C31.SeriesSpec C31.Invert C31.SeriesProofs.
Local Open Scope Q_scope.

Definition s1 : poly := [(0%Z, 2 # 1); (1%Z, 1 # 3); (3%Z, -5 # 7)].      (* 2 + x/3 - 5x^3/7 *)
Definition s0 : poly := [(1%Z, 1 # 2); (2%Z, 3 # 1); (4%Z, -1 # 6)].      (* x/2 + 3x^2 - x^4/6 *)
Definition s01 : poly := [(0%Z, 1 # 1); (1%Z, 1 # 2); (2%Z, 3 # 1)].      (* 1 + x/2 + 3x^2 *)

Example guard_invert : wfb s1 = true /\ const0 s1 = false.
Proof. vm_compute. split; reflexivity. Qed.
Example run_invert : exists r, series_invert s1 9 = Ok r /\ length r = 9%nat.
Proof. eexists. vm_compute. split; reflexivity. Qed.
Example guard_exp : wfb s0 = true /\ const0 s0 = true /\ prec_ok 9 = true /\ peqb s0 pvar = false.
Proof. vm_compute. repeat split; reflexivity. Qed.
Example run_exp : exists r, series_exp s0 9 = Ok r /\ length r = 9%nat.
Proof. eexists. vm_compute. split; reflexivity. Qed.
Example run_atan : exists r, series_atan s0 9 = Ok r /\ length r = 8%nat.
Proof. eexists. vm_compute. split; reflexivity. Qed.
Example guard_log : wfb s01 = true /\ const1 s01 = true.
Proof. vm_compute. split; reflexivity. Qed.
Example run_log : exists r, series_log s01 9 = Ok r /\ length r = 8%nat.
Proof. eexists. vm_compute. split; reflexivity. Qed.
(* exp(log(1 + x/2 + 3x^2)) = 1 + x/2 + 3x^2 modulo x^9 *)
Example exp_log_roundtrip :
  bind (series_log s01 9) (fun l => series_exp l 9) = Ok s01.
Proof. vm_compute. reflexivity. Qed.
(* the visitor on sin(x): x - x^3/6 + x^5/120 *)
Example visitor_sin :
  series_top (EF1 TC_Sin (ESym name_x)) 7 = Ok [(1%Z, 1); (3%Z, -1 # 6); (5%Z, 1 # 120)].
Proof. vm_compute. reflexivity. Qed.
