(* C31 obligation: series_asin / series_asinh return y with y(0) = 0 and y' = s' w where w is a
   power series with w(0) = 1 and w^2 (1 -+ s^2) = 1 modulo x^(prec-1) (the inverse square root
   computed by series_nthroot, resp. series_nthroot and series_invert); since such a w is unique
   the coefficients below x^prec are those of asin(s), asinh(s).  (prec >= 2.) *)
From Coq Require Import QArith List ZArith NArith.
From SE Require Import C31.VisitorModel.
From SE Require Import C31.SeriesSpec C31.Invert C31.SeriesProofs.
Local Open Scope Q_scope.
Theorem C31_asin_spec :
  forall (s : poly) (prec : N),
    wfb s = true -> const0 s = true -> prec_ok2 prec = true ->
    exists r (w : ps), series_asin s prec = Ok r /\ wf r /\ den r O == 0 /\ w O == 1 /\
      eqn (N.to_nat prec - 1) (w * w * (p1 - den s * den s))%ps p1 /\
      pD (den r) =p (pD (den s) * w)%ps.
Proof. exact asin_spec_b. Qed.
Theorem C31_asinh_spec :
  forall (s : poly) (prec : N),
    wfb s = true -> const0 s = true -> prec_ok2 prec = true ->
    exists r (w : ps), series_asinh s prec = Ok r /\ wf r /\ den r O == 0 /\ w O == 1 /\
      eqn (N.to_nat prec - 1) (w * w * (p1 + den s * den s))%ps p1 /\
      pD (den r) =p (pD (den s) * w)%ps.
Proof. exact asinh_spec_b. Qed.
Theorem C31_asin_taylor :
  forall (s : poly) (prec : N) (r : poly) (y v : ps),
    wfb s = true -> const0 s = true -> prec_ok2 prec = true ->
    series_asin s prec = Ok r ->
    y O == 0 -> v O == 1 -> (v * v * (p1 - den s * den s))%ps =p p1 ->
    pD y =p (pD (den s) * v)%ps ->
    eqn (N.to_nat prec) (den r) y.
Proof. exact asin_taylor. Qed.
Theorem C31_asinh_taylor :
  forall (s : poly) (prec : N) (r : poly) (y v : ps),
    wfb s = true -> const0 s = true -> prec_ok2 prec = true ->
    series_asinh s prec = Ok r ->
    y O == 0 -> v O == 1 -> (v * v * (p1 + den s * den s))%ps =p p1 ->
    pD y =p (pD (den s) * v)%ps ->
    eqn (N.to_nat prec) (den r) y.
Proof. exact asinh_taylor. Qed.
Print Assumptions C31_asin_spec.
Print Assumptions C31_asinh_spec.
Print Assumptions C31_asin_taylor.
Print Assumptions C31_asinh_taylor.
