(* C31 -- the "fast atan(x)" loop, series_atan for every argument without constant term, and
   series_tan: Newton iteration r <- r + (s - atan r)(1 + r^2) along the precision chain solves
   y(0) = 0,  y' = s' (1 + y^2)  modulo x^(prec-1). *)
From Coq Require Import QArith Qring Qfield Setoid Morphisms Lia List ZArith NArith.
From SE Require Import C31.SeriesModel C31.PS C31.Sem C31.Invert C31.LogAtan C31.Exp C31.SinCos.
Local Open Scope Q_scope.
Local Open Scope res_scope.
Local Arguments Z.eqb : simpl never.
Local Arguments N.mul : simpl never.
Local Arguments N.div : simpl never.
Local Arguments N.ltb : simpl never.
Local Arguments Z.of_nat : simpl never.
Local Arguments inject_Z : simpl never.
Local Arguments Z.mul : simpl never.
Local Arguments Z.add : simpl never.
Local Arguments Nat.mul : simpl never.
Local Arguments Nat.add : simpl never.
Local Arguments Nat.div : simpl never.

Ltac Zify.zify_post_hook ::= Z.div_mod_to_equations.

(* ------------------------------------------------------------------ atan(x), fast path *)
(* coefficient of x^n in atan x *)
Definition atc (n : nat) : Q := if Nat.odd n then sgn (n / 2) / qnat n else 0.

Lemma div2_odd j : ((2 * j + 1) / 2 = j)%nat.
Proof. symmetry; apply (Nat.div_unique (2 * j + 1) 2 j 1); lia. Qed.
Lemma div2_even h : ((2 * h) / 2 = h)%nat.
Proof. symmetry; apply (Nat.div_unique (2 * h) 2 h 0); lia. Qed.

Lemma vsq_val : pmul_full pvar pvar = [(2%Z, 1)].
Proof. vm_compute. reflexivity. Qed.
Lemma pmul_assign_vsq a : pmul_assign a [(2%Z, 1)] = pmul_full a [(2%Z, 1)].
Proof. destruct a; reflexivity. Qed.
Lemma den_vsq : den [(2%Z, 1)] =p (pX * pX)%ps.
Proof. rewrite <- vsq_val. rewrite den_pmul_full; [|apply wf_pvar|apply wf_pvar]. rewrite den_pvar. reflexivity. Qed.
Lemma wf_vsq : wf [(2%Z, 1)].
Proof. rewrite <- vsq_val. apply wf_pmul_full; apply wf_pvar. Qed.

Lemma xpow_mul_XX i : (xpow i * (pX * pX))%ps =p xpow (S (S i)).
Proof. rewrite pmul_assoc, !xpow_mul_X. reflexivity. Qed.

Lemma atan_fast_ok cnt : forall (j : nat) sign monom res_p,
  wf monom -> wf res_p -> qZ sign == sgn j -> den monom =p xpow (2 * j + 1) ->
  (forall n, den res_p n == if (n <? 2 * j + 1)%nat then atc n else 0) ->
  let r := atan_fast cnt (Z.of_nat (2 * j + 1)) sign monom [(2%Z, 1)] res_p in
  wf r /\ forall n, den r n == if (n <? 2 * (j + cnt) + 1)%nat then atc n else 0.
Proof.
  induction cnt; intros j sign monom res_p Wm Wr Hs Dm Dr; cbn [atan_fast].
  - split; [assumption|]. intros n. rewrite Dr, Nat.add_0_r. reflexivity.
  - replace (Z.of_nat (2 * j + 1) + 2)%Z with (Z.of_nat (2 * S j + 1)) by lia.
    set (cf := qdiv (qZ sign) (qZ (Z.of_nat (2 * j + 1)))).
    assert (Hcf : cf == sgn j / qnat (2 * j + 1)).
    { unfold cf. rewrite qdiv_ok, Hs. reflexivity. }
    destruct (IHcnt (S j) (sign * -1)%Z (pmul_assign monom [(2%Z, 1)]) (padd res_p (pmul_q monom cf)))
      as [W D].
    + rewrite pmul_assign_vsq. apply wf_pmul_full; [assumption|apply wf_vsq].
    + apply wf_padd; [assumption|apply wf_pmul_q; assumption].
    + rewrite sgn_S, <- Hs. unfold qZ, Qeq; simpl. lia.
    + rewrite pmul_assign_vsq. rewrite den_pmul_full; [|apply Wm|apply wf_vsq].
      rewrite Dm, den_vsq, xpow_mul_XX. replace (2 * S j + 1)%nat with (S (S (2 * j + 1))) by lia.
      reflexivity.
    + intros n. rewrite (den_padd res_p (pmul_q monom cf) n). unfold padd_s.
      rewrite Dr, (den_pmul_q monom cf (proj2 Wm) n). unfold pscale. rewrite (Dm n), Hcf.
      unfold xpow, atc.
      destruct (Nat.ltb_spec n (2 * j + 1)), (Nat.ltb_spec n (2 * S j + 1)), (Nat.eqb_spec n (2 * j + 1));
        try lia; subst; try ring.
      * replace (Nat.odd (2 * j + 1)) with true
          by (symmetry; rewrite Nat.odd_add_mul_2 || idtac; apply Nat.odd_spec; exists j; lia).
        rewrite div2_odd. ring.
      * (* n = 2j+2: even *)
        assert (n = 2 * j + 2)%nat by lia; subst n.
        replace (Nat.odd (2 * j + 2)) with false
          by (symmetry; rewrite <- Nat.negb_even; replace (Nat.even (2 * j + 2)) with true;
              [reflexivity|symmetry; apply Nat.even_spec; exists (j + 1)%nat; lia]).
        ring.
    + split; [exact W|]. intros n. rewrite D.
      replace (2 * (S j + cnt) + 1)%nat with (2 * (j + S cnt) + 1)%nat by lia. reflexivity.
Qed.

Lemma pmul_pXX a n : (a * (pX * pX))%ps n == match n with S (S m) => a m | _ => 0 end.
Proof.
  rewrite (pmul_assoc a pX pX n). rewrite pmul_pX. destruct n as [|[|m]]; try reflexivity.
  - rewrite pmul_pX. reflexivity.
  - rewrite pmul_pX. reflexivity.
Qed.

Lemma atc_ode (r : ps) (N : nat) :
  (forall n, r n == if (n <? N)%nat then atc n else 0) ->
  eqn (N - 1) (pD r * (p1 + pX * pX))%ps p1.
Proof.
  intros Hr k Hk.
  assert (E : (pD r * (p1 + pX * pX))%ps =p (pD r + pD r * (pX * pX))%ps) by ring.
  rewrite (E k). unfold padd_s. rewrite pmul_pXX.
  assert (Dk : forall i, (S i < N)%nat -> pD r i == if Nat.even i then sgn (i / 2) else 0).
  { intros i Hi. unfold pD. rewrite (Hr (S i)). destruct (Nat.ltb_spec (S i) N); [|lia].
    unfold atc. rewrite Nat.odd_succ.
    destruct (Nat.even i) eqn:Ev; [|ring].
    apply Nat.even_spec in Ev. destruct Ev as [h Hh]. subst i.
    replace (S (2 * h)) with (2 * h + 1)%nat by lia. rewrite div2_odd, div2_even.
    field. apply (qnat_neq0 (2 * h + 1)). lia. }
  destruct k as [|[|m]].
  - rewrite Dk by lia. change (Nat.even 0) with true. cbv match. change (0 / 2)%nat with 0%nat.
    change (p1 O) with 1. unfold sgn. change (Nat.even 0) with true. cbv match. ring.
  - rewrite Dk by lia. change (Nat.even 1) with false. cbv match. change (p1 1%nat) with 0. ring.
  - rewrite Dk by lia. rewrite Dk by lia. rewrite Nat.even_succ_succ. change (p1 (S (S m))) with 0.
    destruct (Nat.even m) eqn:Ev; [|ring].
    apply Nat.even_spec in Ev. destruct Ev as [h Hh]. subst m.
    replace (S (S (2 * h))) with (2 * S h)%nat by lia. rewrite !div2_even.
    rewrite sgn_S. ring.
Qed.

(* series_atan for every argument without constant term *)
Theorem atan_spec s prec :
  wf s -> coef s 0 == 0 -> (0 < prec < 2147483648)%N ->
  exists r, series_atan s prec = Ok r /\ wf r /\ den r O == 0 /\
            eqn (N.to_nat prec - 1) (pD (den r) * (p1 + den s * den s))%ps (pD (den s)).
Proof.
  intros Ws S0 Hp. destruct (peqb s pvar) eqn:Ef.
  2:{ apply atan_spec_general; assumption. }
  unfold series_atan.
  assert (E0 : peqb s [] = false).
  { destruct s as [|[k v] r]; [discriminate Ef|reflexivity]. }
  rewrite E0, Ef. rewrite vsq_val.
  destruct (atan_fast_ok (N.to_nat (prec / 2)) 0 1 pvar []) as [W D].
  - apply wf_pvar.
  - apply wf_nil.
  - reflexivity.
  - rewrite den_pvar. intros [|[|n]]; reflexivity.
  - intros n. change (2 * 0 + 1)%nat with 1%nat. destruct n as [|n]; reflexivity.
  - change (Z.of_nat (2 * 0 + 1)) with 1%Z in W, D.
    eexists. split; [reflexivity|]. split; [exact W|].
    split; [rewrite D; destruct (0 <? 2 * (0 + N.to_nat (prec / 2)) + 1)%nat; reflexivity|].
    rewrite (peqb_den _ _ Ef), den_pvar.
    assert (EX : pD pX =p p1) by (intros [|n]; unfold pD, pX, p1, pC, qnat; simpl; ring).
    rewrite EX.
    set (M := (2 * (0 + N.to_nat (prec / 2)) + 1)%nat) in *.
    assert (HM : (N.to_nat prec - 1 <= M - 1)%nat).
    { unfold M. assert (A := N.div_mod prec 2 ltac:(lia)).
      assert (B := N.mod_lt prec 2 ltac:(lia)). lia. }
    eapply eqn_le; [exact HM|]. apply atc_ode. exact D.
Qed.

(* ------------------------------------------------------------------ series_tan *)
Definition tan_inv (s : poly) (m : N) (r : poly) : Prop :=
  wf r /\ den r O == 0 /\
  eqn (N.to_nat m - 1) (pD (den r)) (pD (den s) * (p1 + den r * den r))%ps.

Lemma tan_inv_le s m m' r : (m' <= m)%N -> tan_inv s m r -> tan_inv s m' r.
Proof.
  intros Hle (W & R0 & H). split; [exact W|]. split; [exact R0|].
  eapply eqn_le; [|exact H]. lia.
Qed.

Lemma tan_step_ok s : wf s -> coef s 0 == 0 -> forall m st r,
  tan_inv s m r -> (st <= 2 * m)%N -> step_ok st ->
  exists r', (do r2 <- ppow r 2 st;
              do at_ <- series_atan r st;
              Ok (padd r (pmul (psub s at_) (padd r2 (pint 1)) st))) = Ok r' /\
             tan_inv s st r'.
Proof.
  intros Ws S0 m st r Hinv Hst Hok.
  set (m' := N.min m st).
  assert (Hinv' : tan_inv s m' r) by (apply (tan_inv_le s m); [unfold m'; lia|exact Hinv]).
  assert (Hm1 : (m' <= st)%N) by (unfold m'; lia).
  assert (Hm2 : (st <= 2 * m')%N) by (unfold m'; lia).
  clearbody m'. clear Hinv Hst m.
  destruct Hinv' as (Wr & R0 & HR). unfold step_ok in Hok.
  destruct (ppow2_ok r st Wr ltac:(lia)) as (r2 & E2 & W2 & H2).
  rewrite E2. cbn [bind].
  destruct (atan_spec r st Wr R0 ltac:(lia)) as (a & Ea & Wa & A0 & HA).
  rewrite Ea. cbn [bind].
  set (pp := psub s a).
  assert (Wpp : wf pp) by (apply wf_psub; assumption).
  set (q := padd r2 (pint 1)).
  assert (Wq : wf q) by (apply wf_padd; [assumption|apply wf_pconst]).
  set (r' := padd r (pmul pp q st)).
  assert (Wr' : wf r') by (apply wf_padd; [assumption|apply wf_pmul; [apply Wpp|apply Wq]]).
  exists r'. split; [reflexivity|].
  set (R := den r). set (e := (den s - den a)%ps).
  assert (Er' : eqn (N.to_nat st) (den r') (R + e * (p1 + R * R))%ps).
  { unfold r'. rewrite den_padd.
    rewrite (eqn_pmul pp q st (proj1 Wq) (proj2 Wpp) (proj2 Wq)) by lia.
    unfold pp, q. rewrite den_psub, den_padd, den_pint_1, H2. apply peq_eqn. unfold e, R. ring. }
  assert (U0 : ~ (p1 + R * R)%ps O == 0).
  { unfold padd_s. rewrite pmul_coef0. unfold R. rewrite R0. change (p1 O) with 1.
    intro Hc. discriminate Hc. }
  assert (Eas : eqn (N.to_nat m') (den a) (den s)).
  { destruct (N.to_nat m') as [|k] eqn:Ek; [apply eqn_0|].
    apply pD_eqn_S; [rewrite A0; change (den s O) with (coef s 0); rewrite S0; reflexivity|].
    apply (cancel_unit k _ _ (p1 + R * R)%ps U0).
    transitivity (pD R).
    - eapply eqn_le; [|exact HA]. lia.
    - eapply eqn_le; [|exact HR]. lia. }
  assert (Ve : vge (N.to_nat m') e).
  { unfold e. apply (proj1 (eqn_vge_sub _ _ _)). apply eqn_sym. exact Eas. }
  split; [exact Wr'|]. split.
  - rewrite (Er' O) by lia. unfold padd_s. rewrite pmul_coef0. unfold e, psub_s, R.
    rewrite R0, A0. change (den s O) with (coef s 0). rewrite S0. ring.
  - set (n := (N.to_nat st - 1)%nat).
    set (r1 := (R + e * (p1 + R * R))%ps) in *.
    assert (E1 : eqn n (pD (den r')) (pD r1)).
    { apply eqn_pD. replace (S n) with (N.to_nat st) by (unfold n; lia). exact Er'. }
    assert (E3 : eqn n (pD (den s) * (p1 + den r' * den r'))%ps (pD (den s) * (p1 + r1 * r1))%ps).
    { apply eqn_mul; [reflexivity|]. apply eqn_add; [reflexivity|].
      apply eqn_mul; (eapply eqn_le; [|exact Er']; unfold n; lia). }
    rewrite E1, E3. apply (proj2 (eqn_vge_sub _ _ _)).
    set (X := (pD R - pD (den a) * (p1 + R * R))%ps).
    set (Y := (pD R - pD (den s) * (p1 + R * R))%ps).
    assert (De : pD e =p (pD (den s) - pD (den a))%ps) by (unfold e; apply pD_sub).
    assert (Id : (pD r1 - pD (den s) * (p1 + r1 * r1))%ps
                 =p (X + (p1 + p1) * e * R * Y
                     + - (e * e * (pD (den s) * (p1 + R * R) * (p1 + R * R))))%ps).
    { unfold r1, X, Y. rewrite pD_add, pD_mul, pD_add, pD_mul, De.
      assert (E0 : pD p1 =p p0) by apply pD_C. rewrite E0. ring. }
    apply (vge_peq n _ _ (symmetry Id)).
    apply vge_add; [apply vge_add|].
    + unfold X. apply (proj1 (eqn_vge_sub _ _ _)). apply eqn_sym. exact HA.
    + apply (vge_le (N.to_nat m' + (N.to_nat m' - 1))); [unfold n; lia|].
      apply (vge_peq _ ((e * ((p1 + p1) * R)) * Y)%ps); [ring|].
      apply vge_mul; [apply vge_mul_l; exact Ve|].
      unfold Y. apply (proj1 (eqn_vge_sub _ _ _)). exact HR.
    + apply (vge_le (N.to_nat m' + N.to_nat m')); [unfold n; lia|].
      apply (vge_peq _ ((e * e) * (- (pD (den s) * (p1 + R * R) * (p1 + R * R))))%ps); [ring|].
      apply vge_mul_l. apply vge_mul; exact Ve.
Qed.

Theorem tan_spec s prec :
  wf s -> coef s 0 == 0 -> (0 < prec < 2147483648)%N ->
  exists r, series_tan s prec = Ok r /\ wf r /\ den r O == 0 /\
            eqn (N.to_nat prec - 1) (pD (den r)) (pD (den s) * (p1 + den r * den r))%ps.
Proof.
  intros Ws S0 Hp. unfold series_tan.
  rewrite (qis0_find_cf s 0 (proj1 Ws) S0). change (qis0 0) with true. cbv match.
  destruct (fold_res_chain (tan_inv s)
              (fun res_p step => do r2 <- ppow res_p 2 step;
                                 do at_ <- series_atan res_p step;
                                 Ok (padd res_p (pmul (psub s at_) (padd r2 (pint 1)) step)))
              (tan_step_ok s Ws S0) (step_list prec) 1%N [])
    as (r & E & I).
  - split; [apply wf_nil|]. split; [reflexivity|apply eqn_0].
  - apply step_list_chain.
  - apply step_list_ok. exact Hp.
  - rewrite E. cbn [bind]. rewrite step_list_last in I.
    destruct I as (W & R0 & H). exists r. split; [reflexivity|]. split; [exact W|].
    split; [exact R0|exact H].
Qed.
