(* C31 -- model of SeriesVisitor (symengine/series_visitor.h) over the dumped expression
   tree, for the series variable "x" and rational coefficients.  Everything that makes a
   coefficient symbolic (other symbols, constants, non-rational numbers) is EXN_SYMBOLIC;
   the generic bvisit(const Function&) fallback (Taylor by repeated differentiation) and
   Gamma are EXN_UNMODELLED. *)
From SE Require Export C31.SeriesModel Expr.IO.
Local Open Scope Z_scope.
Local Open Scope res_scope.

Definition name_x : list N := [120%N].
Definition name_E : list N := [69%N].

(* Mul's visitor rebuilds pow(key, value) through the public constructor *)
Definition mkpow (k v : expr) : expr :=
  match v with ENum (NInt 1) => k | _ => EPow k v end.

Definition is_E (e : expr) : bool :=
  match e with EConst nm => bytes_eqb nm name_E | _ => false end.

Definition apply_f1 (code : N) (p : poly) (prec : N) : res poly :=
  if (code =? TC_Sin)%N then series_sin p prec
  else if (code =? TC_Cos)%N then series_cos p prec
  else if (code =? TC_Tan)%N then series_tan p prec
  else if (code =? TC_Cot)%N then series_cot p prec
  else if (code =? TC_Csc)%N then series_csc p prec
  else if (code =? TC_Sec)%N then series_sec p prec
  else if (code =? TC_Log)%N then series_log p prec
  else if (code =? TC_ASin)%N then series_asin p prec
  else if (code =? TC_ACos)%N then series_acos p prec
  else if (code =? TC_ATan)%N then series_atan p prec
  else if (code =? TC_Sinh)%N then series_sinh p prec
  else if (code =? TC_Cosh)%N then series_cosh p prec
  else if (code =? TC_Tanh)%N then series_tanh p prec
  else if (code =? TC_ASinh)%N then series_asinh p prec
  else if (code =? TC_ATanh)%N then series_atanh p prec
  else if (code =? TC_LambertW)%N then series_lambertw p prec
  else ErrExn EXN_UNMODELLED.

Definition f1_modelled (code : N) : bool :=
  existsb (N.eqb code)
    [TC_Sin; TC_Cos; TC_Tan; TC_Cot; TC_Csc; TC_Sec; TC_Log; TC_ASin; TC_ACos; TC_ATan;
     TC_Sinh; TC_Cosh; TC_Tanh; TC_ASinh; TC_ATanh; TC_LambertW].

Definition INT_LIM : Z := 2147483648.

Fixpoint visit (fuel : nat) (e : expr) (prec : N) : res poly :=
  match fuel with
  | O => ErrFuel
  | S f =>
    match e with
    | ENum (NInt z) => Ok (pint z)
    | ENum (NRat n d) => Ok (pconst (n # d))
    | ENum _ => ErrExn EXN_SYMBOLIC
    | ESym nm => if bytes_eqb nm name_x then Ok pvar else ErrExn EXN_SYMBOLIC
    | EConst _ => ErrExn EXN_SYMBOLIC
    | EAdd coef d =>
        do c <- visit f (ENum coef) prec;
        fold_res (fun temp kv =>
                    do a <- visit f (fst kv) prec;
                    do b <- visit f (ENum (snd kv)) prec;
                    Ok (padd temp (pmul_full a b))) d c
    | EMul coef d =>
        do c <- visit f (ENum coef) prec;
        fold_res (fun temp kv =>
                    do a <- visit f (mkpow (fst kv) (snd kv)) prec;
                    Ok (pmul temp a prec)) d c
    | EPow b ex =>
        match ex with
        | ENum (NInt sh) =>
            if (sh <? - INT_LIM) || (INT_LIM <=? sh) then ErrExn EXN_UNMODELLED else
            do p <- visit f b prec;
            if sh =? 1 then Ok p
            else if 0 <? sh then ppow p sh prec
            else if sh =? -1 then series_invert p prec
            else do iv <- series_invert p prec; ppow iv (- sh) prec
        | ENum (NRat num den) =>
            if (num <? - INT_LIM) || (INT_LIM <=? num) || (INT_LIM <=? Zpos den)
            then ErrExn EXN_UNMODELLED else
            do p <- visit f b prec;
            do proot <- series_nthroot p (Zpos den) prec;
            if num =? 1 then Ok proot
            else if 0 <? num then ppow proot num prec
            else if num =? -1 then series_invert proot prec
            else do pw <- ppow proot (- num) prec; series_invert pw prec
        | _ =>
            if is_E b then do pe <- visit f ex prec; series_exp pe prec
            else do pe <- visit f ex prec;
                 do pb <- visit f b prec;
                 do l <- series_log pb prec;
                 series_exp (pmul_full pe l) prec
        end
    | EF1 code a =>
        if f1_modelled code then do p <- visit f a prec; apply_f1 code p prec
        else ErrExn EXN_UNMODELLED
    | _ => ErrExn EXN_UNMODELLED
    end
  end.

(* series(ex, x, prec) without Flint/Piranha = UnivariateSeries::series = visitor.series *)
Definition series_top (e : expr) (prec : N) : res poly :=
  visit (2 * size e + 2) e prec.
