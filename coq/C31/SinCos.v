(* C31 -- series_sin / series_cos for arguments without constant term: the loops
   _series_sin / _series_cos accumulate the Maclaurin polynomials in s; the two results
   solve  sin(0) = 0, cos(0) = 1, sin' = s' cos, cos' = - s' sin  modulo x^(prec-1). *)
From Coq Require Import QArith Qring Qfield Setoid Morphisms Lia List ZArith NArith.
From SE Require Import C31.SeriesModel C31.PS C31.Sem C31.Invert C31.LogAtan C31.Exp.
Local Open Scope Q_scope.
Local Open Scope res_scope.
Local Arguments Z.eqb : simpl never.
Local Arguments Z.of_nat : simpl never.
Local Arguments inject_Z : simpl never.
Local Arguments Z.mul : simpl never.
Local Arguments Z.add : simpl never.
Local Arguments Z.sub : simpl never.
Local Arguments Nat.mul : simpl never.
Local Arguments Nat.add : simpl never.

(* ------------------------------------------------------------------ Maclaurin coefficients *)
Definition sgn (l : nat) : Q := if Nat.even l then 1 else -1.
Definition sc (l : nat) : Q := sgn l / qfact (2 * l + 1).     (* coefficient of s^(2l+1) in sin *)
Definition cc (l : nat) : Q := sgn l / qfact (2 * l).         (* coefficient of s^(2l) in cos *)

Lemma sgn_S l : sgn (S l) == - sgn l.
Proof.
  unfold sgn. rewrite Nat.even_succ, <- Nat.negb_even. destruct (Nat.even l); cbn [negb]; ring.
Qed.
Lemma qnat_inj n : qnat n == inject_Z (Z.of_nat n).
Proof. reflexivity. Qed.

Lemma sc_0 : sc 0 == 1.
Proof. unfold sc, sgn. cbn. reflexivity. Qed.
Lemma cc_0 : cc 0 == 1.
Proof. unfold cc, sgn. cbn. reflexivity. Qed.

Lemma sc_cc l : sc l * qnat (2 * l + 1) == cc l.
Proof.
  unfold sc, cc. replace (2 * l + 1)%nat with (S (2 * l)) by lia. cbn [qfact].
  field. split; [apply qfact_neq0|apply (qnat_neq0 (S (2 * l))); lia].
Qed.
Lemma cc_sc l : cc (S l) * qnat (2 * S l) == - sc l.
Proof.
  unfold sc, cc. rewrite sgn_S. replace (2 * S l)%nat with (S (2 * l + 1)) by lia. cbn [qfact].
  field. split; [apply qfact_neq0|apply (qnat_neq0 (S (2 * l + 1))); lia].
Qed.

(* the recurrences used by the loops: prod /= (1 - j); prod /= j *)
Lemma sc_step i : sc (S i) == sc i / inject_Z (1 - (2 * Z.of_nat (S i) + 1)) / inject_Z (2 * Z.of_nat (S i) + 1).
Proof.
  unfold sc. rewrite sgn_S.
  replace (2 * S i + 1)%nat with (S (S (2 * i + 1))) by lia. cbn [qfact].
  rewrite !qnat_inj.
  replace (Z.of_nat (S (S (2 * i + 1)))) with (2 * Z.of_nat (S i) + 1)%Z by lia.
  replace (Z.of_nat (S (2 * i + 1))) with (2 * Z.of_nat (S i))%Z by lia.
  replace (1 - (2 * Z.of_nat (S i) + 1))%Z with (- (2 * Z.of_nat (S i)))%Z by lia.
  rewrite inject_Z_opp.
  assert (A : ~ inject_Z (2 * Z.of_nat (S i)) == 0) by (unfold inject_Z, Qeq; simpl; lia).
  assert (B : ~ inject_Z (2 * Z.of_nat (S i) + 1) == 0) by (unfold inject_Z, Qeq; simpl; lia).
  field. repeat split; try assumption. apply qfact_neq0.
Qed.
Lemma cc_step i : cc (S i) == cc i / inject_Z (1 - 2 * Z.of_nat (S i)) / inject_Z (2 * Z.of_nat (S i)).
Proof.
  unfold cc. rewrite sgn_S.
  replace (2 * S i)%nat with (S (S (2 * i))) by lia. cbn [qfact].
  rewrite !qnat_inj.
  replace (Z.of_nat (S (S (2 * i)))) with (2 * Z.of_nat (S i))%Z by lia.
  replace (Z.of_nat (S (2 * i))) with (2 * Z.of_nat (S i) - 1)%Z by lia.
  replace (1 - 2 * Z.of_nat (S i))%Z with (- (2 * Z.of_nat (S i) - 1))%Z by lia.
  rewrite inject_Z_opp.
  assert (A : ~ inject_Z (2 * Z.of_nat (S i)) == 0) by (unfold inject_Z, Qeq; simpl; lia).
  assert (B : ~ inject_Z (2 * Z.of_nat (S i) - 1) == 0) by (unfold inject_Z, Qeq; simpl; lia).
  field. repeat split; try assumption. apply qfact_neq0.
Qed.

(* ------------------------------------------------------------------ partial sums in T *)
Fixpoint sinsum (T : ps) (n : nat) : ps :=
  match n with O => p0 | S i => (sinsum T i + pC (sc i) * ppow_s T (2 * i + 1))%ps end.
Fixpoint cossum (T : ps) (n : nat) : ps :=
  match n with O => p0 | S i => (cossum T i + pC (cc i) * ppow_s T (2 * i))%ps end.

Lemma pD_pC_mul c a : pD (pC c * a)%ps =p (pC c * pD a)%ps.
Proof. rewrite pD_mul. rewrite (pD_C c). ring. Qed.

Lemma D_sinsum T n : pD (sinsum T n) =p (pD T * cossum T n)%ps.
Proof.
  induction n; cbn [sinsum cossum].
  - rewrite pD_0. ring.
  - rewrite pD_add, IHn, pD_pC_mul.
    replace (2 * n + 1)%nat with (S (2 * n)) by lia.
    rewrite pD_ppow. rewrite <- pC_mul.
    assert (E : (pC (sc n) * (pC (qnat (S (2 * n))) * ppow_s T (2 * n) * pD T))%ps
                =p (pD T * (pC (sc n * qnat (S (2 * n))) * ppow_s T (2 * n)))%ps).
    { rewrite <- pC_mulC. ring. }
    rewrite E. replace (S (2 * n)) with (2 * n + 1)%nat by lia. rewrite sc_cc. ring.
Qed.

Lemma D_cossum T n : pD (cossum T (S n)) =p (- (pD T * sinsum T n))%ps.
Proof.
  induction n.
  - cbn [cossum sinsum]. rewrite pD_add, pD_0, pD_pC_mul.
    change (ppow_s T (2 * 0)) with p1. assert (E0 : pD p1 =p p0) by apply pD_C. rewrite E0. ring.
  - change (cossum T (S (S n)))
      with (cossum T (S n) + pC (cc (S n)) * ppow_s T (2 * S n))%ps.
    rewrite pD_add, IHn, pD_pC_mul. cbn [sinsum].
    replace (2 * S n)%nat with (S (2 * n + 1)) by lia.
    rewrite pD_ppow. rewrite <- pC_mul.
    assert (E : (pC (cc (S n)) * (pC (qnat (S (2 * n + 1))) * ppow_s T (2 * n + 1) * pD T))%ps
                =p (pD T * (pC (cc (S n) * qnat (S (2 * n + 1))) * ppow_s T (2 * n + 1)))%ps).
    { rewrite <- pC_mulC. ring. }
    rewrite E. replace (S (2 * n + 1)) with (2 * S n)%nat by lia.
    rewrite cc_sc. rewrite <- pC_opp. ring.
Qed.

Lemma sinsum_0 T n : vge 1 T -> sinsum T n O == 0.
Proof.
  intros V; induction n; cbn [sinsum]; [reflexivity|].
  unfold padd_s. rewrite IHn, pmul_coef0.
  assert (Z : ppow_s T (2 * n + 1) O == 0) by (apply (vge_ppow T (2 * n + 1) V); lia).
  rewrite Z. ring.
Qed.
Lemma cossum_0 T n : vge 1 T -> cossum T (S n) O == 1.
Proof.
  intros V; induction n.
  - cbn [cossum]. unfold padd_s. rewrite pmul_coef0. change (ppow_s T (2 * 0)) with p1.
    change (pC (cc 0) O) with (cc 0). rewrite cc_0. change (p0 O) with 0. change (p1 O) with 1. ring.
  - change (cossum T (S (S n)))
      with (cossum T (S n) + pC (cc (S n)) * ppow_s T (2 * S n))%ps.
    unfold padd_s. rewrite IHn, pmul_coef0.
    assert (Z : ppow_s T (2 * S n) O == 0) by (apply (vge_ppow T (2 * S n) V); lia).
    rewrite Z. ring.
Qed.

(* ------------------------------------------------------------------ the loops *)

Lemma sin_loop_ok s prec (Hp : (prec < 2147483648)%N) cnt : forall (i : nat) prod monom ssq res_p,
  wf monom -> wf ssq -> wf res_p ->
  eqn (N.to_nat prec) (den ssq) ((den s) * (den s))%ps ->
  eqn (N.to_nat prec) (den monom) (ppow_s (den s) (2 * i + 1)) ->
  prod == match i with O => 1 | S i' => sc i' end ->
  eqn (N.to_nat prec) (den res_p) (sinsum (den s) i) ->
  let r := sin_loop cnt (Z.of_nat i) prod monom ssq res_p prec in
  wf r /\ eqn (N.to_nat prec) (den r) (sinsum (den s) (i + cnt)).
Proof.
  induction cnt; intros i prod monom ssq res_p Wm Wq Wr Hq Hm Hpr Hr; cbn [sin_loop].
  - split; [exact Wr|]. rewrite Nat.add_0_r. exact Hr.
  - set (prod' := qdiv (if (Z.of_nat i =? 0)%Z then prod
                        else qdiv prod (qZ (1 - (2 * Z.of_nat i + 1)))) (qZ (2 * Z.of_nat i + 1))).
    assert (Hpr' : prod' == sc i).
    { unfold prod'. destruct i as [|i'].
      - change (Z.of_nat 0 =? 0)%Z with true. cbv match. rewrite qdiv_ok, Hpr, sc_0.
        change (qZ (2 * Z.of_nat 0 + 1)) with 1. field.
      - destruct (Z.eqb_spec (Z.of_nat (S i')) 0); [lia|].
        rewrite !qdiv_ok, Hpr, sc_step. unfold qZ. reflexivity. }
    replace (Z.of_nat i + 1)%Z with (Z.of_nat (S i)) by lia.
    assert (Wt : wf (pmul monom (pconst prod') prec)) by (apply wf_pmul; [apply Wm|apply wf_pconst]).
    destruct (IHcnt (S i) prod' (pmul monom ssq prec) ssq
                (padd res_p (pmul monom (pconst prod') prec))) as [W E].
    + apply wf_pmul; [apply Wm|apply Wq].
    + exact Wq.
    + apply wf_padd; assumption.
    + exact Hq.
    + rewrite (eqn_pmul monom ssq prec (proj1 Wq) (proj2 Wm) (proj2 Wq) Hp).
      rewrite Hm, Hq. apply peq_eqn.
      replace (2 * S i + 1)%nat with (S (S (2 * i + 1))) by lia.
      cbn [ppow_s]. ring.
    + exact Hpr'.
    + rewrite den_padd. cbn [sinsum].
      rewrite (eqn_pmul monom (pconst prod') prec (proj1 (wf_pconst _)) (proj2 Wm) (proj2 (wf_pconst _)) Hp).
      rewrite Hr, Hm, den_pconst, Hpr'. apply peq_eqn. ring.
    + split; [exact W|]. replace (i + S cnt)%nat with (S i + cnt)%nat by lia. exact E.
Qed.

Lemma cos_loop_ok s prec (Hp : (prec < 2147483648)%N) cnt : forall (i : nat) prod monom ssq res_p,
  (1 <= i)%nat -> wf monom -> wf ssq -> wf res_p ->
  eqn (N.to_nat prec) (den ssq) ((den s) * (den s))%ps ->
  eqn (N.to_nat prec) (den monom) (ppow_s (den s) (2 * i)) ->
  prod == cc (i - 1) ->
  eqn (N.to_nat prec) (den res_p) (cossum (den s) i) ->
  let r := cos_loop cnt (Z.of_nat i) prod monom ssq res_p prec in
  wf r /\ eqn (N.to_nat prec) (den r) (cossum (den s) (i + cnt)).
Proof.
  induction cnt; intros i prod monom ssq res_p Hi Wm Wq Wr Hq Hm Hpr Hr; cbn [cos_loop].
  - split; [exact Wr|]. rewrite Nat.add_0_r. exact Hr.
  - set (prod' := qdiv (if (Z.of_nat i =? 0)%Z then prod
                        else qdiv prod (qZ (1 - 2 * Z.of_nat i))) (qZ (2 * Z.of_nat i))).
    assert (Hpr' : prod' == cc i).
    { unfold prod'. destruct i as [|i']; [lia|].
      destruct (Z.eqb_spec (Z.of_nat (S i')) 0); [lia|].
      rewrite !qdiv_ok, Hpr. replace (S i' - 1)%nat with i' by lia.
      rewrite cc_step. unfold qZ. reflexivity. }
    replace (Z.of_nat i + 1)%Z with (Z.of_nat (S i)) by lia.
    assert (Wt : wf (pmul monom (pconst prod') prec)) by (apply wf_pmul; [apply Wm|apply wf_pconst]).
    destruct (IHcnt (S i) prod' (pmul monom ssq prec) ssq
                (padd res_p (pmul monom (pconst prod') prec))) as [W E].
    + lia.
    + apply wf_pmul; [apply Wm|apply Wq].
    + exact Wq.
    + apply wf_padd; assumption.
    + exact Hq.
    + rewrite (eqn_pmul monom ssq prec (proj1 Wq) (proj2 Wm) (proj2 Wq) Hp).
      rewrite Hm, Hq. apply peq_eqn.
      replace (2 * S i)%nat with (S (S (2 * i))) by lia.
      cbn [ppow_s]. ring.
    + replace (S i - 1)%nat with i by lia. exact Hpr'.
    + rewrite den_padd. cbn [cossum].
      rewrite (eqn_pmul monom (pconst prod') prec (proj1 (wf_pconst _)) (proj2 Wm) (proj2 (wf_pconst _)) Hp).
      rewrite Hr, Hm, den_pconst, Hpr'. apply peq_eqn. ring.
    + split; [exact W|]. replace (i + S cnt)%nat with (S i + cnt)%nat by lia. exact E.
Qed.


(* ------------------------------------------------------------------ series_sin, series_cos *)
Theorem sin_cos_spec s prec :
  wf s -> coef s 0 == 0 -> (0 < prec < 2147483648)%N ->
  exists rs rc, series_sin s prec = Ok rs /\ series_cos s prec = Ok rc /\
    wf rs /\ wf rc /\ den rs O == 0 /\ den rc O == 1 /\
    eqn (N.to_nat prec - 1) (pD (den rs)) (pD (den s) * den rc)%ps /\
    eqn (N.to_nat prec - 1) (pD (den rc)) (- (pD (den s) * den rs))%ps.
Proof.
  intros Ws S0 Hp. unfold series_sin, series_cos.
  rewrite (qis0_find_cf s 0 (proj1 Ws) S0). change (qis0 0) with true. cbv match.
  set (T := den s). set (P := N.to_nat prec). set (N := N.to_nat (prec / 2)).
  assert (V : vge 1 T).
  { intros k Hk. assert (k = O) by lia; subst k. unfold T. change (den s O) with (coef s 0). exact S0. }
  assert (Wq : wf (pmul s s prec)) by (apply wf_pmul; apply Ws).
  assert (Hq : eqn P (den (pmul s s prec)) (T * T)%ps).
  { apply eqn_pmul; [apply Ws|apply Ws|apply Ws|lia]. }
  destruct (sin_loop_ok s prec (proj2 Hp) N 0 1 s (pmul s s prec) []) as [Wrs Ers];
    [exact Ws|exact Wq|apply wf_nil|exact Hq
    |apply peq_eqn; change (2 * 0 + 1)%nat with 1%nat; cbn [ppow_s]; fold T; ring
    |reflexivity|rewrite den_nil; reflexivity|].
  destruct (cos_loop_ok s prec (proj2 Hp) N 1 1 (pmul s s prec) (pmul s s prec) (pint 1)) as [Wrc Erc];
    [lia|exact Wq|exact Wq|apply wf_pconst|exact Hq
    |rewrite Hq; apply peq_eqn; change (2 * 1)%nat with 2%nat; cbn [ppow_s]; unfold T; ring
    |change (1 - 1)%nat with 0%nat; rewrite cc_0; reflexivity
    |rewrite den_pint_1; apply peq_eqn; cbn [cossum]; change (ppow_s (den s) (2 * 0)) with p1;
     rewrite cc_0; fold p1; ring|].
  fold T P in Ers, Erc. cbn [Nat.add] in Ers.
  exists (series_sin0 s prec), (series_cos0 s prec).
  split; [reflexivity|]. split; [reflexivity|].
  unfold series_sin0, series_cos0. fold N.
  split; [exact Wrs|]. split; [exact Wrc|].
  assert (HP : (1 <= P)%nat) by (unfold P; lia).
  split; [rewrite (Ers O) by lia; apply sinsum_0; exact V|].
  split; [rewrite (Erc O) by lia; replace (1 + N)%nat with (S N) by lia; apply cossum_0; exact V|].
  replace (1 + N)%nat with (S N) in Erc by lia.
  assert (H2N : (P - 1 <= 2 * N)%nat).
  { unfold P, N. assert (A := N.div_mod prec 2 ltac:(lia)).
    assert (B := N.mod_lt prec 2 ltac:(lia)). lia. }
  split.
  - assert (E1 : eqn (P - 1) (pD (den (sin_loop N 0 1 s (pmul s s prec) [] prec))) (pD (sinsum T N))).
    { apply eqn_pD. replace (S (P - 1)) with P by lia. exact Ers. }
    rewrite E1, D_sinsum.
    assert (E2 : eqn (P - 1) (den (cos_loop N 1 1 (pmul s s prec) (pmul s s prec) (pint 1) prec))
                     (cossum T (S N))) by (eapply eqn_le; [|exact Erc]; lia).
    rewrite E2. cbn [cossum].
    apply (proj2 (eqn_vge_sub _ _ _)).
    apply (vge_peq _ (ppow_s T (2 * N) * (- (pD T * pC (cc N))))%ps); [ring|].
    apply (vge_le (2 * N)); [exact H2N|].
    apply vge_mul_l. apply vge_ppow. exact V.
  - assert (E1 : eqn (P - 1) (pD (den (cos_loop N 1 1 (pmul s s prec) (pmul s s prec) (pint 1) prec)))
                     (pD (cossum T (S N)))).
    { apply eqn_pD. replace (S (P - 1)) with P by lia. exact Erc. }
    rewrite E1, D_cossum.
    assert (E2 : eqn (P - 1) (den (sin_loop N 0 1 s (pmul s s prec) [] prec)) (sinsum T N))
      by (eapply eqn_le; [|exact Ers]; lia).
    rewrite E2. reflexivity.
Qed.
