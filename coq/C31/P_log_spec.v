(* C31 obligation: series_log (all three branches: s == 1, the fast path s == 1 + x, the
   general integral of s'/s) solves  y(0) = 0,  y' s = s'  modulo x^(prec-1), and is
   therefore the logarithm up to x^prec (log_taylor, by uniqueness). *)
From Coq Require Import QArith List ZArith NArith.
From SE Require Import C31.VisitorModel.
From SE Require Import C31.SeriesSpec C31.Invert C31.SeriesProofs.
Local Open Scope Q_scope.
Theorem C31_log_spec :
  forall (s : poly) (prec : N),
    wfb s = true -> const1 s = true -> prec_ok prec = true ->
    exists r, series_log s prec = Ok r /\ wf r /\ den r O == 0 /\
              eqn (N.to_nat prec - 1) (pD (den r) * den s)%ps (pD (den s)).
Proof. exact log_spec_b. Qed.
Theorem C31_log_taylor :
  forall (s : poly) (prec : N) (r : poly) (y : ps),
    wfb s = true -> const1 s = true -> prec_ok prec = true ->
    series_log s prec = Ok r ->
    y O == 0 -> (pD y * den s)%ps =p pD (den s) ->
    eqn (N.to_nat prec) (den r) y.
Proof. exact log_taylor. Qed.
Print Assumptions C31_log_spec.
Print Assumptions C31_log_taylor.
