(* C31 obligation: series_atanh:  y(0) = 0,  y' (1 - s^2) = s'. *)
From Coq Require Import QArith List ZArith NArith.
From SE Require Import C31.VisitorModel.
From SE Require Import C31.SeriesSpec C31.Invert C31.SeriesProofs.
Local Open Scope Q_scope.
Theorem C31_atanh_spec :
  forall (s : poly) (prec : N),
    wfb s = true -> const0 s = true -> prec_ok prec = true ->
    exists r, series_atanh s prec = Ok r /\ wf r /\ den r O == 0 /\
              eqn (N.to_nat prec - 1) (pD (den r) * (p1 - den s * den s))%ps (pD (den s)).
Proof. exact atanh_spec_b. Qed.
Theorem C31_atanh_taylor :
  forall (s : poly) (prec : N) (r : poly) (y : ps),
    wfb s = true -> const0 s = true -> prec_ok prec = true ->
    series_atanh s prec = Ok r ->
    y O == 0 -> (pD y * (p1 - den s * den s))%ps =p pD (den s) ->
    eqn (N.to_nat prec) (den r) y.
Proof. exact atanh_taylor. Qed.
Print Assumptions C31_atanh_spec.
Print Assumptions C31_atanh_taylor.
