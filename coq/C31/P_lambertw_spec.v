(* C31 obligation: series_lambertw (Newton iteration W <- W - (e W - s)/(e (W + 1)) with
   e = series_exp W, along step_list) returns W with W(0) = 0 for which there is E with
   E(0) = 1, E' = W' E modulo x^(prec-1) and W E = s modulo x^prec; such a pair is unique, so
   the coefficients below x^prec are those of the Lambert W function of s. *)
From Coq Require Import QArith List ZArith NArith.
From SE Require Import C31.VisitorModel.
From SE Require Import C31.SeriesSpec C31.Invert C31.SeriesProofs.
Local Open Scope Q_scope.
Theorem C31_lambertw_spec :
  forall (s : poly) (prec : N),
    wfb s = true -> const0 s = true -> prec_ok prec = true ->
    exists r (E : ps), series_lambertw s prec = Ok r /\ wf r /\ den r O == 0 /\ E O == 1 /\
      eqn (N.to_nat prec - 1) (pD E) (pD (den r) * E)%ps /\
      eqn (N.to_nat prec) (den r * E)%ps (den s).
Proof. exact lambertw_spec_b. Qed.
Theorem C31_lambertw_taylor :
  forall (s : poly) (prec : N) (r : poly) (y F : ps),
    wfb s = true -> const0 s = true -> prec_ok prec = true ->
    series_lambertw s prec = Ok r ->
    y O == 0 -> F O == 1 -> pD F =p (pD y * F)%ps -> (y * F)%ps =p den s ->
    eqn (N.to_nat prec) (den r) y.
Proof. exact lambertw_taylor. Qed.
Print Assumptions C31_lambertw_spec.
Print Assumptions C31_lambertw_taylor.
