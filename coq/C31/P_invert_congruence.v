(* C31 obligation (guarded): with non-zero constant terms the inverse only depends on the
   argument modulo x^prec.  Without the guard this is refuted (P_refuted.v). *)
From Coq Require Import QArith List ZArith NArith.
From SE Require Import C31.VisitorModel.
From SE Require Import C31.SeriesSpec C31.Invert C31.SeriesProofs.
Local Open Scope Q_scope.
Theorem C31_invert_congruence_guarded :
  forall (s t : poly) (prec : N) (r r' : poly),
    wfb s = true -> wfb t = true -> const0 s = false -> const0 t = false ->
    (prec < 2147483648)%N -> eqn (N.to_nat prec) (den s) (den t) ->
    series_invert s prec = Ok r -> series_invert t prec = Ok r' ->
    eqn (N.to_nat prec) (den r) (den r').
Proof. exact invert_congruence_b. Qed.
Print Assumptions C31_invert_congruence_guarded.
