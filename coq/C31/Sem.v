(* C31 -- semantics of the model's sparse polynomials: coefficient function, dense
   power-series denotation [den], well-formedness (sorted keys, non-negative keys) and the
   meaning of every ODictWrapper / UnivariateSeries primitive. *)
From Coq Require Import QArith Qring Qfield Setoid Morphisms Lia List ZArith.
From SE Require Import C31.SeriesModel C31.PS.
Local Open Scope Q_scope.
Local Arguments Z.eqb : simpl never.
Local Arguments Z.ltb : simpl never.
Local Arguments Z.add : simpl never.
Local Arguments Z.sub : simpl never.
Local Arguments Z.of_nat : simpl never.
Local Arguments Qred : simpl never.
Local Arguments inject_Z : simpl never.

(* coefficient of x^k: the sum of the values stored under key k *)
Fixpoint coef (p : poly) (k : Z) : Q :=
  match p with
  | [] => 0
  | (k', v) :: r => (if (k' =? k)%Z then v else 0) + coef r k
  end.
Definition den (p : poly) : ps := fun n => coef p (Z.of_nat n).

Definition keysP (P : Z -> Prop) (l : poly) : Prop := Forall (fun kv => P (fst kv)) l.
Fixpoint sorted (l : poly) : Prop :=
  match l with
  | [] => True
  | (k, _) :: r => keysP (fun k' => (k < k')%Z) r /\ sorted r
  end.
Definition pser (l : poly) : Prop := keysP (fun k => (0 <= k)%Z) l.
Definition wf (l : poly) : Prop := sorted l /\ pser l.

Ltac zb :=
  repeat (match goal with
          | |- context [(?a =? ?b)%Z] => destruct (Z.eqb_spec a b)
          | |- context [(?a <? ?b)%Z] => destruct (Z.ltb_spec a b)
          end; cbv match); subst; try lia.
Ltac qs := unfold qadd, qsub, qmul, qdiv, qinv, qZ; rewrite ?Qred_correct; try ring.

(* ------------------------------------------------------------------ coefficient arithmetic *)
Lemma qadd_ok a b : qadd a b == a + b.  Proof. apply Qred_correct. Qed.
Lemma qsub_ok a b : qsub a b == a - b.  Proof. apply Qred_correct. Qed.
Lemma qmul_ok a b : qmul a b == a * b.  Proof. apply Qred_correct. Qed.
Lemma qinv_ok a : qinv a == / a.        Proof. apply Qred_correct. Qed.
Lemma qdiv_ok a b : qdiv a b == a / b.  Proof. apply Qred_correct. Qed.
Lemma qis0_true q : qis0 q = true <-> q == 0.
Proof.
  unfold qis0, Qeq. simpl. rewrite Z.eqb_eq. split; intros H; lia.
Qed.
Lemma qis0_false q : qis0 q = false <-> ~ q == 0.
Proof. rewrite <- qis0_true. destruct (qis0 q); split; congruence. Qed.
Lemma qZ_inject z : qZ z == inject_Z z.
Proof. reflexivity. Qed.

Global Instance coef_proper_dummy : Proper (eq ==> eq ==> Qeq) coef.
Proof. intros a b -> c d ->. reflexivity. Qed.

(* ------------------------------------------------------------------ keys *)
Lemma keysP_impl (P P' : Z -> Prop) l : (forall k, P k -> P' k) -> keysP P l -> keysP P' l.
Proof. intros H; unfold keysP; apply Forall_impl. intros a; apply H. Qed.

Lemma keysP_lt m m' l :
  keysP (fun k' => (m < k')%Z) l -> (m' <= m)%Z -> keysP (fun k' => (m' < k')%Z) l.
Proof. intros H Hm. eapply keysP_impl; [|exact H]. intros k Hk; simpl in Hk; lia. Qed.

Lemma coef_keys_out (P : Z -> Prop) l j : keysP P l -> ~ P j -> coef l j == 0.
Proof.
  intros H Hj; induction H as [|[k v] r Hk _ IH]; simpl; [reflexivity|].
  simpl in Hk. zb; [contradiction|]. rewrite IH. ring.
Qed.
Lemma coef_below m l j : keysP (fun k' => (m < k')%Z) l -> (j <= m)%Z -> coef l j == 0.
Proof. intros H Hj. apply (coef_keys_out _ _ _ H). lia. Qed.
Lemma coef_neg l j : pser l -> (j < 0)%Z -> coef l j == 0.
Proof. intros H Hj. apply (coef_keys_out _ _ _ H). lia. Qed.

Lemma find_cf_coef s k : sorted s -> find_cf s k == coef s k.
Proof.
  induction s as [|[k' v] r IH]; simpl; intros Hs; [reflexivity|].
  destruct Hs as [Hk Hr]. zb.
  - rewrite (coef_below k r k Hk) by lia. ring.
  - rewrite IH by assumption. ring.
Qed.

(* ------------------------------------------------------------------ macc, pnorm *)
Lemma coef_macc k v l j : coef (macc k v l) j == coef l j + (if (k =? j)%Z then v else 0).
Proof.
  unfold qadd. induction l as [|[k' v'] r IH]; simpl.
  - zb; qs.
  - destruct (Z.ltb_spec k k'); [|destruct (Z.eqb_spec k k')]; simpl.
    + zb; qs.
    + subst. zb; qs.
    + rewrite IH. ring.
Qed.
Lemma keysP_macc P k v l : keysP P l -> P k -> keysP P (macc k v l).
Proof.
  intros H Hk; induction H as [|[k' v'] r Hk' Hr IH]; simpl.
  - constructor; [assumption|constructor].
  - destruct (Z.ltb_spec k k'); [|destruct (Z.eqb_spec k k')].
    + constructor; [assumption|]. constructor; assumption.
    + constructor; assumption.
    + constructor; assumption.
Qed.
Lemma sorted_macc k v l : sorted l -> sorted (macc k v l).
Proof.
  induction l as [|[k' v'] r IH]; simpl; intros Hs.
  - split; [constructor|exact I].
  - destruct Hs as [Hk Hr].
    destruct (Z.ltb_spec k k'); [|destruct (Z.eqb_spec k k')]; simpl.
    + split; [|split; assumption]. constructor; [simpl; assumption|].
      apply (keysP_lt k'); [assumption|lia].
    + split; assumption.
    + split; [|apply IH; assumption]. apply keysP_macc; [assumption|lia].
Qed.

Lemma coef_pnorm l j : coef (pnorm l) j == coef l j.
Proof.
  induction l as [|[k v] r IH]; simpl; [reflexivity|].
  destruct (qis0 v) eqn:E; simpl.
  - apply qis0_true in E. rewrite IH. zb; rewrite ?E; ring.
  - rewrite IH. reflexivity.
Qed.
Lemma keysP_pnorm P l : keysP P l -> keysP P (pnorm l).
Proof.
  intros H; induction H as [|[k v] r Hk _ IH]; simpl; [constructor|].
  destruct (qis0 v); simpl; [assumption|constructor; assumption].
Qed.
Lemma sorted_pnorm l : sorted l -> sorted (pnorm l).
Proof.
  induction l as [|[k v] r IH]; simpl; intros Hs; [exact I|].
  destruct Hs as [Hk Hr]. destruct (qis0 v); simpl; [apply IH; assumption|].
  split; [apply keysP_pnorm; assumption|apply IH; assumption].
Qed.

(* ------------------------------------------------------------------ constants *)
Lemma coef_pconst q j : coef (pconst q) j == if (j =? 0)%Z then q else 0.
Proof.
  unfold pconst. destruct (qis0 q) eqn:E; simpl.
  - apply qis0_true in E. zb; rewrite ?E; reflexivity.
  - destruct (Z.eqb_spec 0 j), (Z.eqb_spec j 0); try lia; qs.
Qed.
Lemma wf_pconst q : wf (pconst q).
Proof.
  unfold pconst, wf, pser, keysP. destruct (qis0 q); simpl.
  - repeat split; constructor.
  - repeat split; repeat constructor. simpl; lia.
Qed.
Lemma den_pconst q : den (pconst q) =p pC q.
Proof.
  intros [|n]; unfold den; rewrite coef_pconst; unfold pC.
  - reflexivity.
  - destruct (Z.eqb_spec (Z.of_nat (S n)) 0); [lia|reflexivity].
Qed.
Lemma den_pint z : den (pint z) =p pC (inject_Z z).
Proof. unfold pint. rewrite den_pconst. reflexivity. Qed.
Lemma den_nil : den [] =p p0.
Proof. intros n; reflexivity. Qed.
Lemma wf_nil : wf [].
Proof. repeat split; constructor. Qed.
Lemma wf_pvar : wf pvar.
Proof. unfold pvar, wf, pser, keysP; simpl. repeat split; repeat constructor. simpl; lia. Qed.
Lemma den_pvar : den pvar =p pX.
Proof.
  intros [|[|n]]; unfold den, pvar, pX; cbn [coef]; zb; ring.
Qed.

(* ------------------------------------------------------------------ += and -= *)
Lemma coef_padd_term k v l j :
  coef (padd_term k v l) j == coef l j + (if (k =? j)%Z then v else 0).
Proof.
  induction l as [|[k' v'] r IH]; simpl.
  - zb; ring.
  - destruct (Z.ltb_spec k k'); [|destruct (Z.eqb_spec k k')]; simpl.
    + zb; ring.
    + subst. destruct (qis0 (qadd v' v)) eqn:E; simpl.
      * apply qis0_true in E. rewrite qadd_ok in E. zb; [|ring].
        setoid_replace v with (- v' + (v' + v)) by ring. rewrite E. ring.
      * zb; rewrite ?qadd_ok; ring.
    + rewrite IH. ring.
Qed.
Lemma keysP_padd_term P k v l : keysP P l -> P k -> keysP P (padd_term k v l).
Proof.
  intros H Hk; induction H as [|[k' v'] r Hk' Hr IH]; simpl.
  - constructor; [assumption|constructor].
  - destruct (Z.ltb_spec k k'); [|destruct (Z.eqb_spec k k')].
    + constructor; [assumption|]. constructor; assumption.
    + destruct (qis0 (qadd v' v)); [assumption|constructor; assumption].
    + constructor; assumption.
Qed.
Lemma sorted_padd_term k v l : sorted l -> sorted (padd_term k v l).
Proof.
  induction l as [|[k' v'] r IH]; simpl; intros Hs.
  - split; [constructor|exact I].
  - destruct Hs as [Hk Hr].
    destruct (Z.ltb_spec k k'); [|destruct (Z.eqb_spec k k')]; simpl.
    + split; [|split; assumption]. constructor; [simpl; assumption|].
      apply (keysP_lt k'); [assumption|lia].
    + destruct (qis0 (qadd v' v)); simpl; [assumption|split; assumption].
    + split; [|apply IH; assumption]. apply keysP_padd_term; [assumption|lia].
Qed.

Lemma coef_padd a b j : coef (padd a b) j == coef a j + coef b j.
Proof.
  unfold padd. revert a; induction b as [|[k v] r IH]; intros a; simpl; [ring|].
  rewrite IH, coef_padd_term. ring.
Qed.
Lemma keysP_padd P a b : keysP P a -> keysP P b -> keysP P (padd a b).
Proof.
  unfold padd. intros Ha Hb; revert a Ha; induction Hb as [|[k v] r Hk _ IH]; intros a Ha; simpl;
    [assumption|]. apply IH. apply keysP_padd_term; assumption.
Qed.
Lemma sorted_padd a b : sorted a -> sorted (padd a b).
Proof.
  unfold padd. revert a; induction b as [|[k v] r IH]; intros a Ha; simpl; [assumption|].
  apply IH. apply sorted_padd_term; assumption.
Qed.
Lemma wf_padd a b : wf a -> wf b -> wf (padd a b).
Proof. intros [Sa Pa] [Sb Pb]; split; [apply sorted_padd; assumption|apply keysP_padd; assumption]. Qed.
Lemma den_padd a b : den (padd a b) =p (den a + den b)%ps.
Proof. intros n; unfold den, padd_s; apply coef_padd. Qed.

Lemma coef_psub_term k v l j :
  coef (psub_term k v l) j == coef l j - (if (k =? j)%Z then v else 0).
Proof.
  induction l as [|[k' v'] r IH]; simpl.
  - zb; qs.
  - destruct (Z.ltb_spec k k'); [|destruct (Z.eqb_spec k k')]; simpl.
    + zb; qs.
    + subst. destruct (qis0 (qsub v' v)) eqn:E; simpl.
      * apply qis0_true in E. rewrite qsub_ok in E. zb; [|ring].
        setoid_replace v with (v' - (v' - v)) by ring. rewrite E. ring.
      * zb; rewrite ?qsub_ok; ring.
    + rewrite IH. ring.
Qed.
Lemma keysP_psub_term P k v l : keysP P l -> P k -> keysP P (psub_term k v l).
Proof.
  intros H Hk; induction H as [|[k' v'] r Hk' Hr IH]; simpl.
  - constructor; [assumption|constructor].
  - destruct (Z.ltb_spec k k'); [|destruct (Z.eqb_spec k k')].
    + constructor; [assumption|]. constructor; assumption.
    + destruct (qis0 (qsub v' v)); [assumption|constructor; assumption].
    + constructor; assumption.
Qed.
Lemma sorted_psub_term k v l : sorted l -> sorted (psub_term k v l).
Proof.
  induction l as [|[k' v'] r IH]; simpl; intros Hs.
  - split; [constructor|exact I].
  - destruct Hs as [Hk Hr].
    destruct (Z.ltb_spec k k'); [|destruct (Z.eqb_spec k k')]; simpl.
    + split; [|split; assumption]. constructor; [simpl; assumption|].
      apply (keysP_lt k'); [assumption|lia].
    + destruct (qis0 (qsub v' v)); simpl; [assumption|split; assumption].
    + split; [|apply IH; assumption]. apply keysP_psub_term; [assumption|lia].
Qed.
Lemma coef_psub a b j : coef (psub a b) j == coef a j - coef b j.
Proof.
  unfold psub. revert a; induction b as [|[k v] r IH]; intros a; simpl; [ring|].
  rewrite IH, coef_psub_term. ring.
Qed.
Lemma keysP_psub P a b : keysP P a -> keysP P b -> keysP P (psub a b).
Proof.
  unfold psub. intros Ha Hb; revert a Ha; induction Hb as [|[k v] r Hk _ IH]; intros a Ha; simpl;
    [assumption|]. apply IH. apply keysP_psub_term; assumption.
Qed.
Lemma sorted_psub a b : sorted a -> sorted (psub a b).
Proof.
  unfold psub. revert a; induction b as [|[k v] r IH]; intros a Ha; simpl; [assumption|].
  apply IH. apply sorted_psub_term; assumption.
Qed.
Lemma wf_psub a b : wf a -> wf b -> wf (psub a b).
Proof. intros [Sa Pa] [Sb Pb]; split; [apply sorted_psub; assumption|apply keysP_psub; assumption]. Qed.
Lemma den_psub a b : den (psub a b) =p (den a - den b)%ps.
Proof. intros n; unfold den, psub_s; apply coef_psub. Qed.

Lemma coef_pneg a j : coef (pneg a) j == - coef a j.
Proof.
  induction a as [|[k v] r IH]; simpl; [ring|]. rewrite IH. unfold qmul. zb; qs.
Qed.
Lemma keysP_pneg P a : keysP P a -> keysP P (pneg a).
Proof. intros H; induction H as [|[k v] r Hk _ IH]; simpl; constructor; assumption. Qed.
Lemma sorted_pneg a : sorted a -> sorted (pneg a).
Proof.
  induction a as [|[k v] r IH]; simpl; intros Hs; [exact I|]. destruct Hs as [Hk Hr].
  split; [apply (keysP_pneg _ _ Hk)|apply IH; assumption].
Qed.
Lemma wf_pneg a : wf a -> wf (pneg a).
Proof. intros [Sa Pa]; split; [apply sorted_pneg|apply keysP_pneg]; assumption. Qed.
Lemma den_pneg a : den (pneg a) =p (- den a)%ps.
Proof. intros n; unfold den, popp; apply coef_pneg. Qed.

(* ------------------------------------------------------------------ products *)
(* sum over the entries (k1, v1) of a of v1 * b_(j - k1) *)
Fixpoint sconv (a b : poly) (j : Z) : Q :=
  match a with
  | [] => 0
  | (k1, v1) :: r => v1 * coef b (j - k1) + sconv r b j
  end.

Lemma coef_tmul_inner k1 v1 b pz acc j : sorted b ->
  coef (tmul_inner k1 v1 b pz acc) j
  == coef acc j + (if (j <? pz)%Z then v1 * coef b (j - k1) else 0).
Proof.
  revert acc; induction b as [|[k2 v2] r IH]; intros acc Hs; simpl.
  - zb; ring.
  - destruct Hs as [Hk Hr]. destruct (Z.ltb_spec (k1 + k2) pz).
    + rewrite IH by assumption. rewrite coef_macc. unfold qmul. zb; qs.
    + zb; try (rewrite (coef_below k2 r (j - k1) Hk) by lia); ring.
Qed.

Lemma coef_tmul_fold a b pz acc j : sorted b ->
  coef (fold_left (fun acc kv1 => tmul_inner (fst kv1) (snd kv1) b pz acc) a acc) j
  == coef acc j + (if (j <? pz)%Z then sconv a b j else 0).
Proof.
  intros Hs; revert acc; induction a as [|[k1 v1] r IH]; intros acc; simpl.
  - zb; ring.
  - rewrite IH, coef_tmul_inner by assumption. zb; ring.
Qed.

Lemma coef_pmul a b prec j : sorted b ->
  coef (pmul a b prec) j == if (j <? to_int prec)%Z then sconv a b j else 0.
Proof.
  intros Hs. unfold pmul. rewrite coef_pnorm, coef_tmul_fold by assumption. simpl. ring.
Qed.

Lemma keysP_tmul_inner P k1 v1 b pz acc :
  keysP P acc -> keysP (fun k2 => P (k1 + k2)%Z) b -> keysP P (tmul_inner k1 v1 b pz acc).
Proof.
  intros Ha Hb; revert acc Ha; induction Hb as [|[k2 v2] r Hk _ IH]; intros acc Ha; simpl;
    [assumption|].
  destruct (Z.ltb_spec (k1 + k2) pz); [|assumption].
  apply IH. apply keysP_macc; assumption.
Qed.
Lemma sorted_tmul_inner k1 v1 b pz acc : sorted acc -> sorted (tmul_inner k1 v1 b pz acc).
Proof.
  revert acc; induction b as [|[k2 v2] r IH]; intros acc Ha; simpl; [assumption|].
  destruct (Z.ltb_spec (k1 + k2) pz); [|assumption]. apply IH. apply sorted_macc; assumption.
Qed.
Lemma wf_pmul a b prec : pser a -> pser b -> wf (pmul a b prec).
Proof.
  intros Pa Pb. unfold pmul.
  assert (G : forall acc, wf acc ->
            wf (fold_left (fun acc kv1 => tmul_inner (fst kv1) (snd kv1) b (to_int prec) acc) a acc)).
  { induction Pa as [|[k1 v1] r Hk _ IH]; intros acc [Sa Pacc]; simpl; [split; assumption|].
    apply IH. split; [apply sorted_tmul_inner; assumption|].
    apply keysP_tmul_inner; [assumption|]. eapply keysP_impl; [|exact Pb]. simpl in Hk. intros k0 Hk0; simpl in Hk0; lia. }
  destruct (G [] wf_nil) as [S P].
  split; [apply sorted_pnorm; assumption|apply keysP_pnorm; assumption].
Qed.

(* sparse convolution = Cauchy product on power series *)
Lemma sconv_dense a b n : pser a -> pser b ->
  sconv a b (Z.of_nat n) == (den a * den b)%ps n.
Proof.
  intros Pa Pb. induction Pa as [|[k v] r Hk Pr IH]; simpl.
  - unfold pmul_s. symmetry. apply sumn_0. intros i _. unfold den; simpl. ring.
  - rewrite IH. unfold pmul_s, den. simpl coef.
    transitivity (sumn (fun i => (if (k =? Z.of_nat i)%Z then v else 0) * coef b (Z.of_nat (n - i))) (S n)
                  + sumn (fun i => coef r (Z.of_nat i) * coef b (Z.of_nat (n - i))) (S n)).
    2:{ rewrite <- sumn_add. apply sumn_ext; intros; ring. }
    apply Qplus_comp; [|reflexivity].
    simpl in Hk.
    destruct (Z.le_gt_cases k (Z.of_nat n)) as [Hle|Hgt].
    + rewrite (sumn_single _ _ (Z.to_nat k)); [| lia |].
      * rewrite Z2Nat.id by lia. rewrite Z.eqb_refl.
        replace (Z.of_nat (n - Z.to_nat k)) with (Z.of_nat n - k)%Z by lia. reflexivity.
      * intros i Hi Hne. destruct (Z.eqb_spec k (Z.of_nat i)); [lia|ring].
    + rewrite sumn_0.
      * rewrite (coef_neg b _ Pb) by lia. ring.
      * intros i Hi. destruct (Z.eqb_spec k (Z.of_nat i)); [lia|ring].
Qed.

Lemma to_int_small prec : (prec < 2147483648)%N -> to_int prec = Z.of_N prec.
Proof.
  intros H. unfold to_int, W32. rewrite N.mod_small by lia.
  destruct (Z.ltb_spec (Z.of_N prec) 2147483648); lia.
Qed.

Lemma den_pmul a b prec : sorted b -> pser a -> pser b -> (prec < 2147483648)%N ->
  den (pmul a b prec) =p trunc (N.to_nat prec) (den a * den b)%ps.
Proof.
  intros Sb Pa Pb Hp n. unfold den at 1, trunc. rewrite coef_pmul by assumption.
  rewrite to_int_small by assumption.
  destruct (Z.ltb_spec (Z.of_nat n) (Z.of_N prec)); destruct (Nat.ltb_spec n (N.to_nat prec)); try lia.
  - apply sconv_dense; assumption.
  - reflexivity.
Qed.
Lemma eqn_pmul a b prec : sorted b -> pser a -> pser b -> (prec < 2147483648)%N ->
  eqn (N.to_nat prec) (den (pmul a b prec)) (den a * den b)%ps.
Proof. intros. rewrite den_pmul by assumption. apply eqn_trunc. Qed.

(* full product *)
Lemma coef_full_inner k1 v1 b acc j :
  coef (fold_left (fun acc kv2 => macc (k1 + fst kv2) (qmul v1 (snd kv2)) acc) b acc) j
  == coef acc j + v1 * coef b (j - k1).
Proof.
  revert acc; induction b as [|[k2 v2] r IH]; intros acc; simpl; [ring|].
  rewrite IH, coef_macc. unfold qmul. zb; qs.
Qed.
Lemma coef_full_fold a b acc j :
  coef (fold_left (fun acc kv1 =>
          fold_left (fun acc kv2 => macc (fst kv1 + fst kv2) (qmul (snd kv1) (snd kv2)) acc) b acc) a acc) j
  == coef acc j + sconv a b j.
Proof.
  revert acc; induction a as [|[k1 v1] r IH]; intros acc; simpl; [ring|].
  rewrite IH, coef_full_inner. ring.
Qed.
Lemma sconv_nil_r a j : sconv a [] j == 0.
Proof. induction a as [|[k v] r IH]; simpl; [reflexivity|]. rewrite IH; ring. Qed.
Lemma coef_pmul_full a b j : coef (pmul_full a b) j == sconv a b j.
Proof.
  unfold pmul_full. destruct a as [|x a']; [reflexivity|].
  destruct b as [|y b']; [rewrite sconv_nil_r; reflexivity|].
  rewrite coef_pnorm, coef_full_fold. simpl. ring.
Qed.
Lemma keysP_full_inner P k1 v1 b acc :
  keysP P acc -> keysP (fun k2 => P (k1 + k2)%Z) b ->
  keysP P (fold_left (fun acc kv2 => macc (k1 + fst kv2) (qmul v1 (snd kv2)) acc) b acc).
Proof.
  intros Ha Hb; revert acc Ha; induction Hb as [|[k2 v2] r Hk _ IH]; intros acc Ha; simpl;
    [assumption|]. apply IH. apply keysP_macc; assumption.
Qed.
Lemma sorted_full_inner k1 v1 b acc : sorted acc ->
  sorted (fold_left (fun acc kv2 => macc (k1 + fst kv2) (qmul v1 (snd kv2)) acc) b acc).
Proof.
  revert acc; induction b as [|[k2 v2] r IH]; intros acc Ha; simpl; [assumption|].
  apply IH. apply sorted_macc; assumption.
Qed.
Lemma wf_pmul_full a b : wf a -> wf b -> wf (pmul_full a b).
Proof.
  intros Wa Wb. unfold pmul_full. destruct a as [|x a']; [assumption|].
  destruct b as [|y b']; [assumption|].
  destruct Wa as [_ Pa]. destruct Wb as [_ Pb].
  set (a := x :: a') in *. set (b := y :: b') in *.
  assert (G : forall acc, wf acc ->
            wf (fold_left (fun acc kv1 =>
                  fold_left (fun acc kv2 => macc (fst kv1 + fst kv2) (qmul (snd kv1) (snd kv2)) acc) b acc) a acc)).
  { clearbody a b. induction Pa as [|[k1 v1] r Hk _ IH]; intros acc [Sa Pacc]; simpl; [split; assumption|].
    apply IH. split; [apply sorted_full_inner; assumption|].
    apply keysP_full_inner; [assumption|]. eapply keysP_impl; [|exact Pb]. simpl in Hk. intros k0 Hk0; simpl in Hk0; lia. }
  destruct (G [] wf_nil) as [S P].
  split; [apply sorted_pnorm; assumption|apply keysP_pnorm; assumption].
Qed.
Lemma den_pmul_full a b : pser a -> pser b -> den (pmul_full a b) =p (den a * den b)%ps.
Proof. intros Pa Pb n. unfold den at 1. rewrite coef_pmul_full. apply sconv_dense; assumption. Qed.

Lemma pmul_assign_pvar a : pmul_assign a pvar = pmul_full a pvar.
Proof. destruct a; reflexivity. Qed.
Lemma den_pmul_q a q : pser a -> den (pmul_q a q) =p pscale q (den a).
Proof.
  intros Pa. unfold pmul_q. rewrite den_pmul_full; [|assumption|apply wf_pconst].
  rewrite den_pconst. rewrite pmul_comm. apply pC_mul.
Qed.
Lemma wf_pmul_q a q : wf a -> wf (pmul_q a q).
Proof. intros; apply wf_pmul_full; [assumption|apply wf_pconst]. Qed.

(* ------------------------------------------------------------------ diff, integrate *)
Lemma coef_pdiff s j : coef (pdiff s) j == inject_Z (j + 1) * coef s (j + 1).
Proof.
  unfold pdiff. rewrite coef_pnorm.
  induction s as [|[k v] r IH]; simpl; [ring|].
  destruct (Z.eqb_spec k 0); simpl.
  - subst. rewrite IH. destruct (Z.eqb_spec 0 (j + 1)) as [E|E]; [|ring].
    rewrite <- E. change (inject_Z 0) with 0. ring.
  - rewrite IH. destruct (Z.eqb_spec (k - 1) j) as [E|E], (Z.eqb_spec k (j + 1)) as [E'|E']; try lia.
    + subst j. replace (k - 1 + 1)%Z with k by lia. unfold qmul, qZ, inject_Z.
      rewrite Qred_correct. ring.
    + ring.
Qed.
Lemma den_pdiff s : den (pdiff s) =p pD (den s).
Proof.
  intros n; unfold den, pD, qnat. rewrite coef_pdiff.
  replace (Z.of_nat n + 1)%Z with (Z.of_nat (S n)) by lia. reflexivity.
Qed.
Lemma wf_pdiff s : wf s -> wf (pdiff s).
Proof.
  intros [Ss Ps]. unfold pdiff.
  assert (G : sorted (fold_right (fun kv acc =>
                 if (fst kv =? 0)%Z then acc else (fst kv - 1, qmul (snd kv) (qZ (fst kv))) :: acc)%Z [] s)
              /\ (forall m, keysP (fun k' => (m < k')%Z) s ->
                    keysP (fun k' => (m - 1 < k')%Z) (fold_right (fun kv acc =>
                      if (fst kv =? 0)%Z then acc else (fst kv - 1, qmul (snd kv) (qZ (fst kv))) :: acc)%Z [] s))).
  { clear Ps. induction s as [|[k v] r IH]; simpl; [split; [exact I|intros; constructor]|].
    destruct Ss as [Hk Hr]. destruct (IH Hr) as [IH1 IH2]. split.
    - destruct (Z.eqb_spec k 0); simpl; [assumption|]. split; [apply IH2; assumption|assumption].
    - intros m Hm. inversion Hm; subst. destruct (Z.eqb_spec k 0); simpl; [apply IH2; assumption|].
      constructor; [simpl in *; lia|apply IH2; assumption]. }
  destruct G as [G1 _]. split; [apply sorted_pnorm; assumption|].
  apply keysP_pnorm. clear G1 Ss.
  induction Ps as [|[k v] r Hk _ IH]; simpl; [constructor|].
  destruct (Z.eqb_spec k 0); simpl; [assumption|]. constructor; [simpl in *; lia|assumption].
Qed.

Lemma pint_raw_ok s : pser s -> exists l, pint_raw s = Ok l /\ pser l /\
  (sorted s -> sorted l) /\
  (forall m, keysP (fun k' => (m < k')%Z) s -> keysP (fun k' => (m + 1 < k')%Z) l) /\
  forall j, coef l j == if (j =? 0)%Z then 0 else coef s (j - 1) / inject_Z j.
Proof.
  intros Ps; induction Ps as [|[k v] r Hk _ IH]; simpl.
  - exists []. split; [reflexivity|]. split; [constructor|]. split; [intros; exact I|].
    split; [intros; constructor|]. intros j; simpl. zb; [reflexivity|]. unfold Qdiv; ring.
  - destruct IH as (l & E & Pl & Sl & Kl & Cl). simpl in Hk.
    destruct (Z.eqb_spec k (-1)); [lia|]. rewrite E. simpl.
    exists ((k + 1, qdiv v (qZ (k + 1))) :: l)%Z.
    split; [reflexivity|]. split; [constructor; [simpl; lia|assumption]|].
    split; [intros [Hk' Hr]; split; [apply Kl; assumption|apply Sl; assumption]|].
    split.
    + intros m Hm. inversion Hm; subst. constructor; [simpl in *; lia|apply Kl; assumption].
    + intros j. simpl. rewrite Cl. unfold qdiv, qZ.
      destruct (Z.eqb_spec (k + 1) j), (Z.eqb_spec j 0), (Z.eqb_spec k (j - 1)); try lia; subst;
        unfold Qdiv, inject_Z; rewrite ?Qred_correct; unfold Qdiv; ring.
Qed.
Lemma pintegrate_ok s : wf s -> exists l, pintegrate s = Ok l /\ wf l /\ den l =p pI (den s).
Proof.
  intros [Ss Ps]. destruct (pint_raw_ok s Ps) as (l & E & Pl & Sl & _ & Cl).
  exists (pnorm l). unfold pintegrate. rewrite E. simpl. repeat split.
  - apply sorted_pnorm, Sl, Ss.
  - apply keysP_pnorm; assumption.
  - intros [|n]; unfold den, pI; rewrite coef_pnorm, Cl.
    + reflexivity.
    + destruct (Z.eqb_spec (Z.of_nat (S n)) 0); [lia|].
      replace (Z.of_nat (S n) - 1)%Z with (Z.of_nat n) by lia. reflexivity.
Qed.

(* ------------------------------------------------------------------ equality tests *)
Lemma peqb_coef a b : peqb a b = true -> forall j, coef a j == coef b j.
Proof.
  revert b; induction a as [|[k v] r IH]; intros [|[k' v'] r'] H j; simpl in *; try discriminate;
    [reflexivity|].
  apply andb_prop in H; destruct H as [H H3]. apply andb_prop in H; destruct H as [H1 H2].
  apply Z.eqb_eq in H1; subst. apply Qeq_bool_iff in H2. rewrite (IH _ H3 j). zb; rewrite ?H2; ring.
Qed.
Lemma peqb_den a b : peqb a b = true -> den a =p den b.
Proof. intros H n; apply peqb_coef; assumption. Qed.

(* a well-formed series with non-zero constant term starts with that term *)
Lemma wf_head s : wf s -> ~ coef s 0 == 0 ->
  exists v r, s = (0%Z, v) :: r /\ v == coef s 0.
Proof.
  intros [Ss Ps] H. destruct s as [|[k v] r]; [exfalso; apply H; reflexivity|].
  destruct Ss as [Hk Hr]. inversion Ps as [|? ? Hk0 Pr]; subst. simpl in Hk0.
  destruct (Z.eq_dec k 0) as [->|Hne].
  - exists v, r; split; [reflexivity|]. simpl. rewrite (coef_below 0 r 0 Hk) by lia. ring.
  - exfalso; apply H. simpl. destruct (Z.eqb_spec k 0); [contradiction|].
    rewrite (coef_below k r 0 Hk) by lia. ring.
Qed.
