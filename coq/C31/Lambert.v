(* C31 -- series_lambertw: Newton iteration W <- W - (e W - s)/(e (W + 1)), e = exp W, along the
   precision chain.  The result W is characterised together with E = exp W:
   W(0) = 0, E(0) = 1, E' = W' E, W E = s. *)
From Coq Require Import QArith Qring Qfield Setoid Morphisms Lia List ZArith NArith.
From SE Require Import C31.SeriesModel C31.PS C31.Sem C31.Invert C31.LogAtan C31.Exp.
Local Open Scope Q_scope.
Local Open Scope res_scope.
Local Arguments Z.eqb : simpl never.
Local Arguments N.mul : simpl never.
Local Arguments N.div : simpl never.
Local Arguments N.ltb : simpl never.
Local Arguments Z.of_nat : simpl never.
Local Arguments inject_Z : simpl never.

Ltac Zify.zify_post_hook ::= Z.div_mod_to_equations.

Definition lw_inv (s : poly) (m : N) (w : poly) : Prop :=
  wf w /\ den w O == 0 /\
  exists E : ps, E O == 1 /\
    eqn (N.to_nat m - 1) (pD E) (pD (den w) * E)%ps /\
    eqn (N.to_nat m) (den w * E)%ps (den s).

Lemma lw_inv_le s m m' w : (m' <= m)%N -> lw_inv s m w -> lw_inv s m' w.
Proof.
  intros Hle (W & W0 & E & E0 & H1 & H2). split; [exact W|]. split; [exact W0|].
  exists E. split; [exact E0|]. split; (eapply eqn_le; [|eassumption]; lia).
Qed.

Lemma lw_step_ok s : wf s -> coef s 0 == 0 -> forall m st w,
  lw_inv s m w -> (st <= 2 * m)%N -> step_ok st ->
  exists w', (do e <- series_exp w st;
              do p3 <- series_invert (pmul e (padd w (pint 1)) st) st;
              Ok (psub w (pmul (psub (pmul e w st) s) p3 st))) = Ok w' /\
             lw_inv s st w'.
Proof.
  intros Ws S0 m st w Hinv Hst Hok.
  set (m' := N.min m st).
  assert (Hinv' : lw_inv s m' w) by (apply (lw_inv_le s m); [unfold m'; lia|exact Hinv]).
  assert (Hm1 : (m' <= st)%N) by (unfold m'; lia).
  assert (Hm2 : (st <= 2 * m')%N) by (unfold m'; lia).
  clearbody m'. clear Hinv Hst m.
  destruct Hinv' as (Ww & W0 & E0 & E00 & HE0 & HW0). unfold step_ok in Hok.
  destruct (exp_spec w st Ww W0 ltac:(lia)) as (e & Ee & We & e0 & He).
  rewrite Ee. cbn [bind].
  set (q := pmul e (padd w (pint 1)) st).
  assert (Ww1 : wf (padd w (pint 1))) by (apply wf_padd; [exact Ww|apply wf_pconst]).
  assert (Wq : wf q) by (apply wf_pmul; [apply We|apply Ww1]).
  set (a := (den e * ((den w) + p1))%ps).
  assert (Dq : eqn (N.to_nat st) (den q) a).
  { unfold q. rewrite (eqn_pmul e (padd w (pint 1)) st (proj1 Ww1) (proj2 We) (proj2 Ww1)) by lia.
    rewrite den_padd, den_pint_1. reflexivity. }
  assert (q0 : ~ coef q 0 == 0).
  { change (coef q 0) with (den q O). rewrite (Dq O) by lia. unfold a. rewrite pmul_coef0.
    unfold padd_s. rewrite e0, W0. change (p1 O) with 1.
    intro Hc. discriminate Hc. }
  destruct (invert_spec q st Wq q0 ltac:(lia)) as (p3 & E3 & W3 & H3).
  rewrite E3. cbn [bind].
  set (P3 := den p3) in *.
  assert (H3a : eqn (N.to_nat st) (P3 * a)%ps p1) by (rewrite <- Dq; exact H3).
  set (p2 := psub (pmul e w st) s).
  assert (Wew : wf (pmul e w st)) by (apply wf_pmul; [apply We|apply Ww]).
  assert (W2 : wf p2) by (apply wf_psub; assumption).
  set (f := ((den w) * den e - den s)%ps).
  assert (D2 : eqn (N.to_nat st) (den p2) f).
  { unfold p2. rewrite den_psub.
    rewrite (eqn_pmul e w st (proj1 Ww) (proj2 We) (proj2 Ww)) by lia.
    apply peq_eqn. unfold f. ring. }
  set (w' := psub w (pmul p2 p3 st)).
  assert (Ww' : wf w') by (apply wf_psub; [exact Ww|apply wf_pmul; [apply W2|apply W3]]).
  exists w'. split; [reflexivity|].
  set (d := (- (f * P3))%ps).
  assert (Dw' : eqn (N.to_nat st) (den w') ((den w) + d)%ps).
  { unfold w'. rewrite den_psub.
    rewrite (eqn_pmul p2 p3 st (proj1 W3) (proj2 W2) (proj2 W3)) by lia.
    rewrite D2. apply peq_eqn. unfold d, P3. ring. }
  (* e agrees with the witness E0 below x^m', hence f vanishes there *)
  assert (EE : eqn (N.to_nat m') (den e) E0).
  { destruct (N.to_nat m') as [|k] eqn:Ek; [apply eqn_0|].
    apply (ode_unique (fun z => (pD (den w) * z)%ps)).
    - intros j x y Hxy. apply eqn_mul; [reflexivity|exact Hxy].
    - eapply eqn_le; [|exact He]. lia.
    - replace k with (S k - 1)%nat by lia. exact HE0.
    - rewrite e0, E00. reflexivity. }
  assert (Vf : vge (N.to_nat m') f).
  { unfold f. apply (proj1 (eqn_vge_sub _ _ _)). rewrite EE. exact HW0. }
  assert (Vd : vge (N.to_nat m') d).
  { unfold d. intros k Hk. unfold popp.
    assert (V := vge_mul_l (N.to_nat m') f P3 Vf k Hk). rewrite V. ring. }
  assert (f0 : f O == 0).
  { unfold f, psub_s. rewrite pmul_coef0. rewrite W0.
    change (den s O) with (coef s 0). rewrite S0. ring. }
  assert (d0 : d O == 0).
  { unfold d, popp. rewrite pmul_coef0, f0. ring. }
  split; [exact Ww'|]. split.
  - rewrite (Dw' O) by lia. unfold padd_s. rewrite W0, d0. ring.
  - exists (den e * (p1 + d))%ps. split.
    + rewrite pmul_coef0. unfold padd_s. rewrite e0, d0. change (p1 O) with 1. ring.
    + set (n := (N.to_nat st - 1)%nat).
      split.
      * (* the ODE *)
        assert (A1 : eqn n (pD (den w')) (pD (den w) + pD d)%ps).
        { rewrite <- pD_add. apply eqn_pD. replace (S n) with (N.to_nat st) by (unfold n; lia).
          exact Dw'. }
        rewrite A1. apply (proj2 (eqn_vge_sub _ _ _)).
        assert (Id : (pD (den e * (p1 + d)) - (pD (den w) + pD d) * (den e * (p1 + d)))%ps
                     =p ((pD (den e) - pD (den w) * den e) * (p1 + d) + - (den e * d * pD d))%ps).
        { rewrite pD_mul, pD_add. assert (Z : pD p1 =p p0) by apply pD_C. rewrite Z. ring. }
        apply (vge_peq n _ _ (symmetry Id)).
        apply vge_add.
        -- apply vge_mul_l. apply (proj1 (eqn_vge_sub _ _ _)). exact He.
        -- apply (vge_le (N.to_nat m' + (N.to_nat m' - 1))); [unfold n; lia|].
           apply (vge_peq _ (d * (pD d * (- den e)))%ps); [ring|].
           apply vge_mul; [exact Vd|]. apply vge_mul_l.
           destruct (N.to_nat m') as [|k]; [intros j Hj; lia|].
           replace (S k - 1)%nat with k by lia. apply vge_pD. exact Vd.
      * (* (den w)' E' = s *)
        rewrite Dw'. apply (proj2 (eqn_vge_sub _ _ _)).
        assert (Id : (((den w) + d) * (den e * (p1 + d)) - den s)%ps
                     =p (f * (p1 - P3 * a) + d * d * den e)%ps).
        { unfold d, f, a. ring. }
        apply (vge_peq _ _ _ (symmetry Id)).
        apply vge_add.
        -- apply (vge_peq _ ((p1 - P3 * a) * f)%ps); [ring|]. apply vge_mul_l.
           apply (proj1 (eqn_vge_sub _ _ _)). apply eqn_sym. exact H3a.
        -- apply (vge_le (N.to_nat m' + N.to_nat m')); [lia|].
           apply vge_mul_l. apply vge_mul; exact Vd.
Qed.

Theorem lambertw_spec s prec :
  wf s -> coef s 0 == 0 -> (0 < prec < 2147483648)%N ->
  exists r, series_lambertw s prec = Ok r /\ lw_inv s prec r.
Proof.
  intros Ws S0 Hp. unfold series_lambertw.
  rewrite (qis0_find_cf s 0 (proj1 Ws) S0). change (qis0 0) with true. cbn [negb].
  destruct (fold_res_chain (lw_inv s)
              (fun p1 step => do e <- series_exp p1 step;
                              do p3 <- series_invert (pmul e (padd p1 (pint 1)) step) step;
                              Ok (psub p1 (pmul (psub (pmul e p1 step) s) p3 step)))
              (lw_step_ok s Ws S0) (step_list prec) 1%N [])
    as (r & E & I).
  - split; [apply wf_nil|]. split; [reflexivity|]. exists p1. split; [reflexivity|].
    split; [apply eqn_0|]. intros k Hk. assert (k = O) by lia; subst k.
    rewrite pmul_coef0. change (den [] O) with 0. change (den s O) with (coef s 0). rewrite S0. ring.
  - apply step_list_chain.
  - apply step_list_ok. exact Hp.
  - rewrite step_list_last in I. exists r. split; [exact E|exact I].
Qed.

(* the pair (W, E) is unique *)
Theorem lambert_unique (n : nat) (s w1 E1 w2 E2 : ps) :
  w1 O == 0 -> w2 O == 0 -> E1 O == 1 -> E2 O == 1 ->
  eqn (n - 1) (pD E1) (pD w1 * E1)%ps -> eqn (n - 1) (pD E2) (pD w2 * E2)%ps ->
  eqn n (w1 * E1)%ps s -> eqn n (w2 * E2)%ps s ->
  eqn n w1 w2 /\ eqn n E1 E2.
Proof.
  intros A1 A2 B1 B2 D1 D2 M1 M2.
  assert (G : forall k, (k <= n)%nat -> eqn k w1 w2 /\ eqn k E1 E2).
  { induction k; intros Hk; [split; apply eqn_0|].
    destruct (IHk ltac:(lia)) as [Iw Ie].
    destruct k as [|k'].
    - split; intros j Hj; assert (j = O) by lia; subst j;
        [rewrite A1, A2|rewrite B1, B2]; reflexivity.
    - set (k := S k') in *.
      assert (Hw : w1 k == w2 k).
      { assert (P1 := M1 k ltac:(lia)). assert (P2 := M2 k ltac:(lia)).
        unfold pmul_s in P1, P2. rewrite sumn_S in P1, P2. rewrite Nat.sub_diag in P1, P2.
        assert (Es : sumn (fun i => w1 i * E1 (k - i)%nat) k == sumn (fun i => w2 i * E2 (k - i)%nat) k).
        { apply sumn_ext. intros i Hi. destruct i as [|i'].
          - rewrite A1, A2. ring.
          - rewrite (Iw (S i')) by lia. rewrite (Ie (k - S i')%nat) by lia. reflexivity. }
        rewrite Es, B1 in P1. rewrite B2 in P2.
        assert (Q : w1 k * 1 == w2 k * 1).
        { rewrite <- (Qplus_0_l (w1 k * 1)), <- (Qplus_0_l (w2 k * 1)).
          rewrite <- (Qplus_opp_r (sumn (fun i => w2 i * E2 (k - i)%nat) k)).
          rewrite (Qplus_comm (sumn _ k)), <- !Qplus_assoc. rewrite P1, P2. reflexivity. }
        rewrite !Qmult_1_r in Q. exact Q. }
      assert (Iw' : eqn (S k) w1 w2).
      { intros j Hj. destruct (Nat.eq_dec j k) as [->|]; [exact Hw|apply Iw; lia]. }
      split; [exact Iw'|].
      intros j Hj. destruct (Nat.eq_dec j k) as [->|]; [|apply Ie; lia].
      assert (Q : pD E1 k' == pD E2 k').
      { rewrite (D1 k') by lia. rewrite (D2 k') by lia.
        apply (eqn_mul k (pD w1) (pD w2) E1 E2); [apply eqn_pD; exact Iw'|exact Ie|lia]. }
      unfold pD in Q. apply (Qmult_inj_l _ _ (qnat (S k')) (qnat_S_neq0 k')). exact Q. }
  apply G. lia.
Qed.
