(* C31 -- formal power series over Q as coefficient functions nat -> Q: the commutative ring
   (Cauchy product), congruence modulo x^n, valuations, derivative, integral, Leibniz rule,
   cancellation by units and uniqueness of solutions of first-order initial value problems.
   Axiom-free (setoid equality, no functional extensionality). *)
From Coq Require Import QArith Qring Qfield Setoid Morphisms Lia Arith List.
Local Open Scope Q_scope.

Definition ps := nat -> Q.
Definition peq (a b : ps) : Prop := forall n, a n == b n.
Infix "=p" := peq (at level 70, no associativity).

Global Instance peq_equiv : Equivalence peq.
Proof.
  split.
  - intros a n; reflexivity.
  - intros a b H n; symmetry; apply H.
  - intros a b c H1 H2 n; rewrite (H1 n); apply H2.
Qed.

(* ------------------------------------------------------------------ finite sums *)
Fixpoint sumn (f : nat -> Q) (n : nat) : Q :=
  match n with O => 0 | S m => sumn f m + f m end.

Lemma sumn_S f n : sumn f (S n) = sumn f n + f n.
Proof. reflexivity. Qed.
Lemma sumn_1 f : sumn f 1 == f O.
Proof. simpl; ring. Qed.

Lemma sumn_ext f g n : (forall i, (i < n)%nat -> f i == g i) -> sumn f n == sumn g n.
Proof.
  induction n; intros H; simpl; [reflexivity|].
  rewrite IHn by (intros; apply H; lia). rewrite (H n) by lia. reflexivity.
Qed.

Lemma sumn_add f g n : sumn (fun i => f i + g i) n == sumn f n + sumn g n.
Proof. induction n; simpl; [ring|]. rewrite IHn; ring. Qed.

Lemma sumn_scale c f n : sumn (fun i => c * f i) n == c * sumn f n.
Proof. induction n; simpl; [ring|]. rewrite IHn; ring. Qed.

Lemma sumn_scale_r c f n : sumn (fun i => f i * c) n == sumn f n * c.
Proof. induction n; simpl; [ring|]. rewrite IHn; ring. Qed.

Lemma sumn_0 f n : (forall i, (i < n)%nat -> f i == 0) -> sumn f n == 0.
Proof.
  induction n; intros H; simpl; [reflexivity|].
  rewrite IHn by (intros; apply H; lia). rewrite (H n) by lia. ring.
Qed.

Lemma sumn_shift f n : sumn f (S n) == f O + sumn (fun i => f (S i)) n.
Proof. induction n; simpl; [ring|]. simpl in IHn. rewrite IHn. ring. Qed.

Lemma sumn_rev f n : sumn f n == sumn (fun i => f (n - 1 - i)%nat) n.
Proof.
  induction n; [reflexivity|].
  rewrite (sumn_shift (fun i => f (S n - 1 - i)%nat) n).
  replace (S n - 1 - 0)%nat with n by lia.
  rewrite (sumn_ext (fun i => f (S n - 1 - S i)%nat) (fun i => f (n - 1 - i)%nat) n).
  - rewrite <- IHn. simpl. ring.
  - intros i Hi. replace (S n - 1 - S i)%nat with (n - 1 - i)%nat by lia. reflexivity.
Qed.

(* the only non-zero term *)
Lemma sumn_single f n k : (k < n)%nat -> (forall i, (i < n)%nat -> i <> k -> f i == 0) ->
  sumn f n == f k.
Proof.
  induction n; intros Hk H; [lia|]. simpl.
  destruct (Nat.eq_dec k n) as [->|Hne].
  - rewrite sumn_0; [ring|]. intros i Hi; apply H; lia.
  - rewrite IHn; [|lia|intros; apply H; lia]. rewrite (H n); [ring|lia|lia].
Qed.

Lemma sumn_split f n m : sumn f (n + m) == sumn f n + sumn (fun i => f (n + i)%nat) m.
Proof.
  induction m; simpl.
  - rewrite Nat.add_0_r; ring.
  - rewrite Nat.add_succ_r; simpl. rewrite IHm; ring.
Qed.

(* sum_{i<=n} sum_{j<=i} F i j = sum_{j<=n} sum_{l<=n-j} F (j+l) j *)
Lemma sumn_triangle (F : nat -> nat -> Q) n :
  sumn (fun i => sumn (fun j => F i j) (S i)) (S n)
  == sumn (fun j => sumn (fun l => F (j + l)%nat j) (S (n - j))) (S n).
Proof.
  induction n.
  - simpl. ring.
  - rewrite (sumn_S (fun i => sumn (fun j => F i j) (S i)) (S n)).
    rewrite IHn.
    rewrite (sumn_S (fun j => sumn (fun l => F (j + l)%nat j) (S (S n - j))) (S n)).
    replace (S n - S n)%nat with O by lia.
    assert (E : sumn (fun j => sumn (fun l => F (j + l)%nat j) (S (S n - j))) (S n)
                == sumn (fun j => sumn (fun l => F (j + l)%nat j) (S (n - j)) + F (S n) j) (S n)).
    { apply sumn_ext; intros j Hj.
      replace (S n - j)%nat with (S (n - j)) by lia.
      rewrite (sumn_S (fun l => F (j + l)%nat j) (S (n - j))).
      replace (j + S (n - j))%nat with (S n) by lia. reflexivity. }
    rewrite E, sumn_add.
    rewrite (sumn_S (fun j => F (S n) j) (S n)).
    rewrite sumn_1. replace (S n + 0)%nat with (S n) by lia.
    rewrite Qplus_assoc. reflexivity.
Qed.

(* ------------------------------------------------------------------ ring operations *)
Definition p0 : ps := fun _ => 0.
Definition pC (c : Q) : ps := fun n => match n with O => c | _ => 0 end.
Definition p1 : ps := pC 1.
Definition pX : ps := fun n => match n with 1%nat => 1 | _ => 0 end.
Definition padd_s (a b : ps) : ps := fun n => a n + b n.
Definition popp (a : ps) : ps := fun n => - a n.
Definition psub_s (a b : ps) : ps := fun n => a n - b n.
Definition pmul_s (a b : ps) : ps := fun n => sumn (fun i => a i * b (n - i)%nat) (S n).
Definition pscale (c : Q) (a : ps) : ps := fun n => c * a n.

Declare Scope ps_scope.
Delimit Scope ps_scope with ps.
Infix "+" := padd_s : ps_scope.
Infix "*" := pmul_s : ps_scope.
Infix "-" := psub_s : ps_scope.
Notation "- a" := (popp a) : ps_scope.

Global Instance padd_proper : Proper (peq ==> peq ==> peq) padd_s.
Proof. intros a a' Ha b b' Hb n; unfold padd_s; rewrite (Ha n), (Hb n); reflexivity. Qed.
Global Instance popp_proper : Proper (peq ==> peq) popp.
Proof. intros a a' Ha n; unfold popp; rewrite (Ha n); reflexivity. Qed.
Global Instance psub_proper : Proper (peq ==> peq ==> peq) psub_s.
Proof. intros a a' Ha b b' Hb n; unfold psub_s; rewrite (Ha n), (Hb n); reflexivity. Qed.
Global Instance pmul_proper : Proper (peq ==> peq ==> peq) pmul_s.
Proof.
  intros a a' Ha b b' Hb n; unfold pmul_s. apply sumn_ext; intros i _.
  rewrite (Ha i), (Hb (n - i)%nat); reflexivity.
Qed.
Global Instance pscale_proper : Proper (Qeq ==> peq ==> peq) pscale.
Proof. intros c c' Hc a a' Ha n; unfold pscale; rewrite Hc, (Ha n); reflexivity. Qed.
Global Instance pC_proper : Proper (Qeq ==> peq) pC.
Proof. intros c c' Hc [|n]; simpl; [assumption|reflexivity]. Qed.

Lemma pmul_comm a b : (a * b)%ps =p (b * a)%ps.
Proof.
  intros n; unfold pmul_s. rewrite sumn_rev. apply sumn_ext; intros i Hi.
  replace (S n - 1 - i)%nat with (n - i)%nat by lia.
  replace (n - (n - i))%nat with i by lia. ring.
Qed.

Lemma pmul_assoc a b c : (a * (b * c))%ps =p ((a * b) * c)%ps.
Proof.
  intros n; unfold pmul_s. symmetry.
  transitivity (sumn (fun i => sumn (fun j => a j * b (i - j)%nat * c (n - i)%nat) (S i)) (S n)).
  { apply sumn_ext; intros i _. rewrite <- sumn_scale_r. reflexivity. }
  rewrite sumn_triangle. apply sumn_ext; intros j Hj.
  rewrite <- sumn_scale. apply sumn_ext; intros l Hl.
  replace (j + l - j)%nat with l by lia. replace (n - (j + l))%nat with (n - j - l)%nat by lia. ring.
Qed.

Lemma pmul_1_l a : (p1 * a)%ps =p a.
Proof.
  intros n; unfold pmul_s. rewrite (sumn_single _ _ O); [|lia|].
  - simpl. rewrite Nat.sub_0_r. ring.
  - intros i _ Hi. destruct i; [lia|]. simpl. ring.
Qed.

Lemma pmul_distr_l a b c : ((a + b) * c)%ps =p (a * c + b * c)%ps.
Proof.
  intros n; unfold pmul_s, padd_s. rewrite <- sumn_add. apply sumn_ext; intros; ring.
Qed.

Lemma ps_ring_theory : ring_theory p0 p1 padd_s pmul_s psub_s popp peq.
Proof.
  constructor.
  - intros a n; unfold padd_s, p0; ring.
  - intros a b n; unfold padd_s; ring.
  - intros a b c n; unfold padd_s; ring.
  - apply pmul_1_l.
  - apply pmul_comm.
  - apply pmul_assoc.
  - apply pmul_distr_l.
  - intros a b n; unfold psub_s, padd_s, popp; ring.
  - intros a n; unfold padd_s, popp, p0; ring.
Qed.

Lemma ps_ring_ext : ring_eq_ext padd_s pmul_s popp peq.
Proof. constructor; [apply padd_proper|apply pmul_proper|apply popp_proper]. Qed.

Add Ring ps_ring : ps_ring_theory (setoid peq_equiv ps_ring_ext).

Lemma pC_mul c a : (pC c * a)%ps =p pscale c a.
Proof.
  intros n; unfold pmul_s, pscale. rewrite (sumn_single _ _ O); [|lia|].
  - simpl. rewrite Nat.sub_0_r. reflexivity.
  - intros i _ Hi. destruct i; [lia|]. simpl. ring.
Qed.
Lemma pC_add c d : (pC c + pC d)%ps =p pC (c + d).
Proof. intros [|n]; unfold padd_s; simpl; ring. Qed.
Lemma pC_mulC c d : (pC c * pC d)%ps =p pC (c * d).
Proof. rewrite pC_mul. intros [|n]; unfold pscale; simpl; ring. Qed.
Lemma pC_0 : pC 0 =p p0.
Proof. intros [|n]; reflexivity. Qed.
Lemma pC_opp c : (- pC c)%ps =p pC (- c).
Proof. intros [|n]; unfold popp; simpl; ring. Qed.

(* ------------------------------------------------------------------ congruence mod x^n *)
Definition eqn (n : nat) (a b : ps) : Prop := forall k, (k < n)%nat -> a k == b k.
Definition vge (m : nat) (a : ps) : Prop := forall k, (k < m)%nat -> a k == 0.
Definition trunc (n : nat) (a : ps) : ps := fun k => if (k <? n)%nat then a k else 0.

Lemma eqn_refl n a : eqn n a a.
Proof. intros k _; reflexivity. Qed.
Lemma eqn_sym n a b : eqn n a b -> eqn n b a.
Proof. intros H k Hk; symmetry; apply H; assumption. Qed.
Lemma eqn_trans n a b c : eqn n a b -> eqn n b c -> eqn n a c.
Proof. intros H1 H2 k Hk; rewrite (H1 k Hk); apply H2; assumption. Qed.
Lemma eqn_le n m a b : (m <= n)%nat -> eqn n a b -> eqn m a b.
Proof. intros Hle H k Hk; apply H; lia. Qed.
Lemma peq_eqn n a b : a =p b -> eqn n a b.
Proof. intros H k _; apply H. Qed.
Lemma eqn_trunc n a : eqn n (trunc n a) a.
Proof. intros k Hk; unfold trunc. apply Nat.ltb_lt in Hk; rewrite Hk; reflexivity. Qed.
Lemma eqn_0 a b : eqn 0 a b.
Proof. intros k Hk; lia. Qed.

Global Instance eqn_equiv n : Equivalence (eqn n).
Proof. split; [intro; apply eqn_refl|intros a b; apply eqn_sym|intros a b c; apply eqn_trans]. Qed.
Global Instance eqn_peq_proper n : Proper (peq ==> peq ==> iff) (eqn n).
Proof.
  intros a a' Ha b b' Hb; split; intros H k Hk.
  - rewrite <- (Ha k), <- (Hb k); apply H; assumption.
  - rewrite (Ha k), (Hb k); apply H; assumption.
Qed.

Lemma eqn_add n a a' b b' : eqn n a a' -> eqn n b b' -> eqn n (a + b)%ps (a' + b')%ps.
Proof. intros Ha Hb k Hk; unfold padd_s; rewrite (Ha k Hk), (Hb k Hk); reflexivity. Qed.
Lemma eqn_sub n a a' b b' : eqn n a a' -> eqn n b b' -> eqn n (a - b)%ps (a' - b')%ps.
Proof. intros Ha Hb k Hk; unfold psub_s; rewrite (Ha k Hk), (Hb k Hk); reflexivity. Qed.
Lemma eqn_opp n a a' : eqn n a a' -> eqn n (- a)%ps (- a')%ps.
Proof. intros Ha k Hk; unfold popp; rewrite (Ha k Hk); reflexivity. Qed.
Lemma eqn_mul n a a' b b' : eqn n a a' -> eqn n b b' -> eqn n (a * b)%ps (a' * b')%ps.
Proof.
  intros Ha Hb k Hk; unfold pmul_s. apply sumn_ext; intros i Hi.
  rewrite (Ha i), (Hb (k - i)%nat) by lia. reflexivity.
Qed.
Lemma eqn_scale n c a a' : eqn n a a' -> eqn n (pscale c a) (pscale c a').
Proof. intros Ha k Hk; unfold pscale; rewrite (Ha k Hk); reflexivity. Qed.

Global Instance padd_eqn_proper n : Proper (eqn n ==> eqn n ==> eqn n) padd_s.
Proof. intros a a' Ha b b' Hb; apply eqn_add; assumption. Qed.
Global Instance psub_eqn_proper n : Proper (eqn n ==> eqn n ==> eqn n) psub_s.
Proof. intros a a' Ha b b' Hb; apply eqn_sub; assumption. Qed.
Global Instance pmul_eqn_proper n : Proper (eqn n ==> eqn n ==> eqn n) pmul_s.
Proof. intros a a' Ha b b' Hb; apply eqn_mul; assumption. Qed.
Global Instance popp_eqn_proper n : Proper (eqn n ==> eqn n) popp.
Proof. intros a a' Ha; apply eqn_opp; assumption. Qed.

Lemma vge_eqn m a : vge m a <-> eqn m a p0.
Proof. split; intros H k Hk; apply H; assumption. Qed.
Lemma eqn_vge_sub m a b : eqn m a b <-> vge m (a - b)%ps.
Proof.
  split; intros H k Hk; unfold psub_s in *.
  - rewrite (H k Hk); ring.
  - specialize (H k Hk). rewrite <- (Qplus_0_r (b k)), <- H. ring.
Qed.
Lemma vge_le m m' a : (m' <= m)%nat -> vge m a -> vge m' a.
Proof. intros Hle H k Hk; apply H; lia. Qed.
Lemma vge_add m a b : vge m a -> vge m b -> vge m (a + b)%ps.
Proof. intros Ha Hb k Hk; unfold padd_s; rewrite (Ha k Hk), (Hb k Hk); ring. Qed.
Lemma vge_mul m m' a b : vge m a -> vge m' b -> vge (m + m') (a * b)%ps.
Proof.
  intros Ha Hb k Hk; unfold pmul_s. apply sumn_0; intros i Hi.
  destruct (Nat.lt_ge_cases i m) as [H|H].
  - rewrite (Ha i H); ring.
  - rewrite (Hb (k - i)%nat) by lia. ring.
Qed.
Lemma vge_mul_l m a b : vge m a -> vge m (a * b)%ps.
Proof.
  intros Ha. replace m with (m + 0)%nat by lia. apply vge_mul; [assumption|]. intros k Hk; lia.
Qed.
Lemma vge_peq m a b : a =p b -> vge m a -> vge m b.
Proof. intros H Ha k Hk; rewrite <- (H k); apply Ha; assumption. Qed.

(* coefficient 0 of a product *)
Lemma pmul_coef0 a b : (a * b)%ps O == a O * b O.
Proof. unfold pmul_s; simpl; ring. Qed.

(* ------------------------------------------------------------------ Newton step for 1/s *)
Lemma newton_inverse_step m st p s :
  (st <= 2 * m)%nat -> eqn m (p * s)%ps p1 ->
  eqn st ((p * (p1 + p1 - p * s)) * s)%ps p1.
Proof.
  intros Hst H. apply eqn_vge_sub.
  apply (vge_peq st (- ((p * s - p1) * (p * s - p1)))%ps); [ring|].
  intros k Hk; unfold popp.
  assert (V : vge (m + m) ((p * s - p1) * (p * s - p1))%ps).
  { apply vge_mul; apply (proj1 (eqn_vge_sub _ _ _)); assumption. }
  rewrite (V k) by lia. ring.
Qed.

(* inverses modulo x^n are unique *)
Lemma inverse_unique n r r' s s' :
  eqn n s s' -> eqn n (r * s)%ps p1 -> eqn n (r' * s')%ps p1 -> eqn n r r'.
Proof.
  intros Hs H1 H2.
  assert (E1 : eqn n r (r * (r' * s'))%ps).
  { rewrite H2. apply peq_eqn. ring. }
  rewrite E1. rewrite <- Hs.
  assert (E2 : (r * (r' * s))%ps =p ((r * s) * r')%ps) by ring.
  rewrite E2, H1. apply peq_eqn; ring.
Qed.

(* cancellation by a unit *)
Lemma cancel_unit n y z a : ~ a O == 0 -> eqn n (y * a)%ps (z * a)%ps -> eqn n y z.
Proof.
  intros Ha H. induction n; [apply eqn_0|].
  assert (IH : eqn n y z) by (apply IHn; eapply eqn_le; [|exact H]; lia).
  intros k Hk. destruct (Nat.eq_dec k n) as [->|]; [|apply IH; lia].
  specialize (H n (Nat.lt_succ_diag_r n)). unfold pmul_s in H. simpl sumn in H.
  rewrite Nat.sub_diag in H.
  assert (E : sumn (fun i => y i * a (n - i)%nat) n == sumn (fun i => z i * a (n - i)%nat) n).
  { apply sumn_ext; intros i Hi. rewrite (IH i Hi). reflexivity. }
  rewrite E in H.
  assert (H' : y n * a O == z n * a O).
  { rewrite <- (Qplus_0_l (y n * a O)), <- (Qplus_0_l (z n * a O)).
    rewrite <- (Qplus_opp_r (sumn (fun i => z i * a (n - i)%nat) n)).
    rewrite (Qplus_comm (sumn _ n)), <- !Qplus_assoc. rewrite H. reflexivity. }
  apply (Qmult_inj_r _ _ (a O) Ha). exact H'.
Qed.

(* ------------------------------------------------------------------ derivative, integral *)
Definition qnat (n : nat) : Q := inject_Z (Z.of_nat n).
Definition pD (a : ps) : ps := fun n => qnat (S n) * a (S n).
Definition pI (a : ps) : ps := fun n => match n with O => 0 | S m => a m / qnat (S m) end.

Lemma qnat_S n : qnat (S n) == qnat n + 1.
Proof. unfold qnat. rewrite Nat2Z.inj_succ, <- Z.add_1_r, inject_Z_plus. reflexivity. Qed.
Lemma qnat_add n m : qnat (n + m) == qnat n + qnat m.
Proof. unfold qnat. rewrite Nat2Z.inj_add, inject_Z_plus. reflexivity. Qed.
Lemma qnat_S_neq0 n : ~ qnat (S n) == 0.
Proof. unfold qnat, Qeq; simpl. lia. Qed.

Global Instance pD_proper : Proper (peq ==> peq) pD.
Proof. intros a a' Ha n; unfold pD; rewrite (Ha (S n)); reflexivity. Qed.
Global Instance pI_proper : Proper (peq ==> peq) pI.
Proof. intros a a' Ha [|n]; unfold pI; [reflexivity|rewrite (Ha n); reflexivity]. Qed.

Lemma pD_pI a : pD (pI a) =p a.
Proof. intros n; unfold pD, pI. field. apply qnat_S_neq0. Qed.
Lemma pI_0 a : pI a O == 0.
Proof. reflexivity. Qed.
Lemma eqn_pD n a b : eqn (S n) a b -> eqn n (pD a) (pD b).
Proof. intros H k Hk; unfold pD; rewrite (H (S k)) by lia; reflexivity. Qed.
Lemma eqn_pI n a b : eqn n a b -> eqn (S n) (pI a) (pI b).
Proof. intros H [|k] Hk; unfold pI; [reflexivity|rewrite (H k) by lia; reflexivity]. Qed.
Lemma pD_eqn_S n a b : a O == b O -> eqn n (pD a) (pD b) -> eqn (S n) a b.
Proof.
  intros H0 H [|k] Hk; [assumption|].
  specialize (H k ltac:(lia)). unfold pD in H.
  apply (Qmult_inj_l _ _ (qnat (S k)) (qnat_S_neq0 k)). exact H.
Qed.
Lemma pD_add a b : pD (a + b)%ps =p (pD a + pD b)%ps.
Proof. intros n; unfold pD, padd_s; ring. Qed.
Lemma pD_sub a b : pD (a - b)%ps =p (pD a - pD b)%ps.
Proof. intros n; unfold pD, psub_s; ring. Qed.
Lemma pD_opp a : pD (- a)%ps =p (- pD a)%ps.
Proof. intros n; unfold pD, popp; ring. Qed.
Lemma pD_C c : pD (pC c) =p p0.
Proof. intros n; unfold pD, pC, p0; ring. Qed.
Lemma pD_scale c a : pD (pscale c a) =p pscale c (pD a).
Proof. intros n; unfold pD, pscale; ring. Qed.
Lemma vge_pD m a : vge (S m) a -> vge m (pD a).
Proof. intros H k Hk; unfold pD; rewrite (H (S k)) by lia; ring. Qed.

(* Leibniz *)
Lemma qnat_0 : qnat 0 == 0.
Proof. reflexivity. Qed.

Lemma pD_mul a b : pD (a * b)%ps =p (pD a * b + a * pD b)%ps.
Proof.
  intros n. unfold pD, padd_s, pmul_s.
  rewrite <- sumn_scale.
  transitivity (sumn (fun i => qnat i * a i * b (S n - i)%nat) (S (S n))
                + sumn (fun i => a i * (qnat (S n - i) * b (S n - i)%nat)) (S (S n))).
  { rewrite <- sumn_add. apply sumn_ext; intros i Hi.
    replace (S n) with (i + (S n - i))%nat at 1 by lia. rewrite qnat_add. ring. }
  apply Qplus_comp.
  - rewrite (sumn_shift (fun i => qnat i * a i * b (S n - i)%nat) (S n)).
    rewrite qnat_0.
    setoid_replace (0 * a O * b (S n - 0)%nat) with 0 by ring.
    rewrite Qplus_0_l. apply sumn_ext; intros i Hi.
    replace (S n - S i)%nat with (n - i)%nat by lia. ring.
  - rewrite (sumn_S (fun i => a i * (qnat (S n - i) * b (S n - i)%nat)) (S n)).
    replace (S n - S n)%nat with O by lia.
    rewrite qnat_0.
    setoid_replace (a (S n) * (0 * b O)) with 0 by ring.
    rewrite Qplus_0_r. apply sumn_ext; intros i Hi.
    replace (S n - i)%nat with (S (n - i)) by lia. reflexivity.
Qed.

(* ------------------------------------------------------------------ uniqueness for y' = F(y) *)
Definition causal (F : ps -> ps) : Prop :=
  forall m y z, eqn m y z -> eqn m (F y) (F z).

Theorem ode_unique (F : ps -> ps) (n : nat) (y z : ps) :
  causal F -> eqn n (pD y) (F y) -> eqn n (pD z) (F z) -> y O == z O -> eqn (S n) y z.
Proof.
  intros HF Hy Hz H0.
  assert (G : forall m, (m <= S n)%nat -> eqn m y z).
  { induction m; intros Hm; [apply eqn_0|].
    assert (IH : eqn m y z) by (apply IHm; lia).
    intros k Hk. destruct (Nat.eq_dec k m) as [->|]; [|apply IH; lia].
    destruct m; [assumption|].
    assert (E : pD y m == pD z m).
    { rewrite (Hy m) by lia. rewrite (Hz m) by lia. apply (HF (S m) y z IH). lia. }
    unfold pD in E. apply (Qmult_inj_l _ _ (qnat (S m)) (qnat_S_neq0 m)). exact E. }
  apply G; lia.
Qed.

(* linear version used for log / atan / atanh / asin: y' * a = b with a unit *)
Theorem lin_ode_unique (n : nat) (a b y z : ps) :
  ~ a O == 0 -> eqn n (pD y * a)%ps b -> eqn n (pD z * a)%ps b -> y O == z O -> eqn (S n) y z.
Proof.
  intros Ha Hy Hz H0. apply pD_eqn_S; [assumption|].
  apply (cancel_unit n _ _ a Ha). rewrite Hy, Hz. reflexivity.
Qed.

(* powers *)
Fixpoint ppow_s (a : ps) (n : nat) : ps :=
  match n with O => p1 | S m => (a * ppow_s a m)%ps end.

Global Instance ppow_s_proper : Proper (peq ==> eq ==> peq) ppow_s.
Proof.
  intros a a' Ha n n' <-. induction n; simpl; [reflexivity|].
  apply pmul_proper; assumption.
Qed.
Lemma eqn_ppow n a a' k : eqn n a a' -> eqn n (ppow_s a k) (ppow_s a' k).
Proof. intros H; induction k; simpl; [reflexivity|]. apply eqn_mul; assumption. Qed.
Lemma ppow_s_add a n m : ppow_s a (n + m) =p (ppow_s a n * ppow_s a m)%ps.
Proof. induction n; simpl; [ring|]. rewrite IHn. ring. Qed.
Lemma ppow_s_mul_base a b n : ppow_s (a * b)%ps n =p (ppow_s a n * ppow_s b n)%ps.
Proof. induction n; simpl; [ring|]. rewrite IHn. ring. Qed.
Lemma vge_ppow a k : vge 1 a -> vge k (ppow_s a k).
Proof.
  intros H; induction k; simpl; [intros j Hj; lia|].
  replace (S k) with (1 + k)%nat by lia. apply vge_mul; assumption.
Qed.
Lemma pD_ppow a k : pD (ppow_s a (S k)) =p (pscale (qnat (S k)) (ppow_s a k) * pD a)%ps.
Proof.
  induction k.
  - simpl. rewrite pD_mul. rewrite <- pC_mul.
    assert (E : pD p1 =p p0) by apply pD_C. rewrite E.
    assert (E1 : pC (qnat 1) =p p1) by (intros [|n]; reflexivity). rewrite E1. ring.
  - change (ppow_s a (S (S k))) with (a * ppow_s a (S k))%ps.
    rewrite pD_mul, IHk. rewrite <- !pC_mul.
    assert (E : pC (qnat (S (S k))) =p (pC (qnat (S k)) + p1)%ps).
    { unfold p1. rewrite pC_add. apply pC_proper. apply qnat_S. }
    rewrite E. simpl ppow_s. ring.
Qed.
