(* C31 -- soundness of the SeriesVisitor model on a guarded fragment of expressions.

   [DenF fuel e y] says that the formal power series y is a Taylor series of the expression e:
   numbers, the variable x, sums and products (Add / Mul dictionaries), integer powers >= 2,
   1/e for e(0) <> 0, exp(e), and sin cos tan atan sinh cosh tanh atanh asin asinh lambertw
   (argument without constant term), log (argument with constant term 1); each function is
   specified by its defining initial value problem over formal power series.

   Theorem [visit_sound]: whenever the model's visitor returns Ok r on such an expression, r is a
   well-formed series polynomial whose coefficients below x^prec are those of y. *)
From Coq Require Import QArith Qring Qfield Setoid Morphisms Lia List ZArith NArith Bool.
From SE Require Import C31.VisitorModel.
From SE Require Import C31.SeriesSpec C31.Invert C31.LogAtan C31.Exp C31.Nthroot C31.Hyp C31.SinCos
  C31.Tanh C31.Tan C31.Asin C31.Lambert C31.SeriesProofs C31.Compose.
Local Open Scope Q_scope.
Local Open Scope res_scope.

Definition num_q (n : number) : option Q :=
  match n with NInt z => Some (inject_Z z) | NRat a d => Some (a # d) | _ => None end.

(* the defining problem of each function, for the argument series u *)
Definition fspec (code : N) (u y : ps) : Prop :=
  if (code =? TC_Sin)%N then
    u O == 0 /\ exists yc, y O == 0 /\ yc O == 1 /\ pD y =p (pD u * yc)%ps /\ pD yc =p (- (pD u * y))%ps
  else if (code =? TC_Cos)%N then
    u O == 0 /\ exists ys, ys O == 0 /\ y O == 1 /\ pD ys =p (pD u * y)%ps /\ pD y =p (- (pD u * ys))%ps
  else if (code =? TC_Sinh)%N then
    u O == 0 /\ exists yc, y O == 0 /\ yc O == 1 /\ pD y =p (pD u * yc)%ps /\ pD yc =p (pD u * y)%ps
  else if (code =? TC_Cosh)%N then
    u O == 0 /\ exists ys, ys O == 0 /\ y O == 1 /\ pD ys =p (pD u * y)%ps /\ pD y =p (pD u * ys)%ps
  else if (code =? TC_Tan)%N then
    u O == 0 /\ y O == 0 /\ pD y =p (pD u * (p1 + y * y))%ps
  else if (code =? TC_Tanh)%N then
    u O == 0 /\ y O == 0 /\ pD y =p (pD u * (p1 - y * y))%ps
  else if (code =? TC_ATan)%N then
    u O == 0 /\ y O == 0 /\ (pD y * (p1 + u * u))%ps =p pD u
  else if (code =? TC_ATanh)%N then
    u O == 0 /\ y O == 0 /\ (pD y * (p1 - u * u))%ps =p pD u
  else if (code =? TC_ASin)%N then
    u O == 0 /\ exists v, y O == 0 /\ v O == 1 /\ (v * v * (p1 - u * u))%ps =p p1 /\ pD y =p (pD u * v)%ps
  else if (code =? TC_ASinh)%N then
    u O == 0 /\ exists v, y O == 0 /\ v O == 1 /\ (v * v * (p1 + u * u))%ps =p p1 /\ pD y =p (pD u * v)%ps
  else if (code =? TC_LambertW)%N then
    u O == 0 /\ exists F, y O == 0 /\ F O == 1 /\ pD F =p (pD y * F)%ps /\ (y * F)%ps =p u
  else if (code =? TC_Log)%N then
    u O == 1 /\ y O == 0 /\ (pD y * u)%ps =p pD u
  else False.

Fixpoint den_add (D : expr -> ps -> Prop) (d : list (expr * number)) (acc y : ps) : Prop :=
  match d with
  | [] => y =p acc
  | (a, k) :: r => exists u q, D a u /\ num_q k = Some q /\ den_add D r (acc + u * pC q)%ps y
  end.
Fixpoint den_mul (D : expr -> ps -> Prop) (d : list (expr * expr)) (acc y : ps) : Prop :=
  match d with
  | [] => y =p acc
  | (k, v) :: r => exists u, D (mkpow k v) u /\ den_mul D r (acc * u)%ps y
  end.

Fixpoint DenF (fuel : nat) (e : expr) (y : ps) : Prop :=
  match fuel with
  | O => False
  | S f =>
    match e with
    | ENum n => exists q, num_q n = Some q /\ y =p pC q
    | ESym nm => bytes_eqb nm name_x = true /\ y =p pX
    | EAdd coef d => exists c, num_q coef = Some c /\ den_add (DenF f) d (pC c) y
    | EMul coef d => exists c, num_q coef = Some c /\ den_mul (DenF f) d (pC c) y
    | EPow b ex =>
        match ex with
        | ENum (NInt sh) =>
            if (2 <=? sh)%Z && (sh <? INT_LIM)%Z then exists u, DenF f b u /\ y =p ppow_s u (Z.to_nat sh)
            else if (sh =? -1)%Z then exists u, DenF f b u /\ ~ u O == 0 /\ (y * u)%ps =p p1
            else False
        | ENum (NRat num dn) =>
            if (num =? 1)%Z && (2 <=? Zpos dn)%Z && (Zpos dn <? INT_LIM)%Z
            then exists u c, DenF f b u /\ ~ u O == 0 /\ qroot (u O) dn = Ok c /\
                             y O == c /\ ppow_s y (Pos.to_nat dn) =p u
            else False
        | ENum _ => False
        | _ => if is_E b then exists u, DenF f ex u /\ u O == 0 /\ y O == 1 /\ pD y =p (pD u * y)%ps
               else False
        end
    | EF1 code a => exists u, DenF f a u /\ fspec code u y
    | _ => False
    end
  end.

(* ------------------------------------------------------------------ helpers *)
Lemma visit_num f n prec p :
  visit (S f) (ENum n) prec = Ok p -> exists q, num_q n = Some q /\ p = pconst q.
Proof.
  cbn [visit]. destruct n; intros H; try discriminate H; inversion H; subst p.
  - exists (inject_Z z). split; reflexivity.
  - exists (n # d). split; reflexivity.
Qed.

Lemma coef0_of_eqn p prec (u : ps) c :
  (0 < prec)%N -> eqn (N.to_nat prec) (den p) u -> u O == c -> coef p 0 == c.
Proof. intros Hp H Hu. change (coef p 0) with (den p O). rewrite (H O) by lia. exact Hu. Qed.

Lemma coef0_neq_of_eqn p prec (u : ps) :
  (0 < prec)%N -> eqn (N.to_nat prec) (den p) u -> ~ u O == 0 -> ~ coef p 0 == 0.
Proof. intros Hp H Hu. change (coef p 0) with (den p O). rewrite (H O) by lia. exact Hu. Qed.

Section Sound.
Variable prec : N.
Hypothesis Hp : (1 < prec < 2147483648)%N.
Let P := N.to_nat prec.

Definition sound_at (f : nat) : Prop :=
  forall e r y, visit f e prec = Ok r -> DenF f e y -> wf r /\ eqn P (den r) y.

Lemma add_sound f : sound_at f -> forall d acc r (a y : ps),
  wf acc -> eqn P (den acc) a ->
  fold_res (fun temp kv => do pa <- visit f (fst kv) prec;
                           do pb <- visit f (ENum (snd kv)) prec;
                           Ok (padd temp (pmul_full pa pb))) d acc = Ok r ->
  den_add (DenF f) d a y -> wf r /\ eqn P (den r) y.
Proof.
  intros IH d; induction d as [|[e k] rest IHd]; intros acc r a y Wacc Hacc Hf HD; cbn [fold_res] in Hf.
  - inversion Hf; subst r. split; [exact Wacc|]. cbn [den_add] in HD. rewrite HD. exact Hacc.
  - cbn [den_add] in HD. destruct HD as (u & q & Du & Hq & HD).
    cbn [fst snd] in Hf.
    destruct (visit f e prec) as [pa| | |] eqn:Ea; cbn [bind] in Hf; try discriminate Hf.
    destruct (visit f (ENum k) prec) as [pb| | |] eqn:Eb; cbn [bind] in Hf; try discriminate Hf.
    destruct (IH e pa u Ea Du) as [Wa Ha].
    destruct f as [|f']; [discriminate Eb|].
    destruct (visit_num f' k prec pb Eb) as (q' & Hq' & Epb). rewrite Hq in Hq'. inversion Hq'; subst q' pb.
    apply (IHd (padd acc (pmul_full pa (pconst q))) r (a + u * pC q)%ps y).
    + apply wf_padd; [exact Wacc|apply wf_pmul_full; [exact Wa|apply wf_pconst]].
    + rewrite den_padd. apply eqn_add; [exact Hacc|].
      rewrite den_pmul_full; [|apply Wa|apply wf_pconst]. rewrite den_pconst.
      apply eqn_mul; [exact Ha|reflexivity].
    + exact Hf.
    + exact HD.
Qed.

Lemma mul_sound f : sound_at f -> forall d acc r (a y : ps),
  wf acc -> eqn P (den acc) a ->
  fold_res (fun temp kv => do pa <- visit f (mkpow (fst kv) (snd kv)) prec;
                           Ok (pmul temp pa prec)) d acc = Ok r ->
  den_mul (DenF f) d a y -> wf r /\ eqn P (den r) y.
Proof.
  intros IH d; induction d as [|[k v] rest IHd]; intros acc r a y Wacc Hacc Hf HD; cbn [fold_res] in Hf.
  - inversion Hf; subst r. split; [exact Wacc|]. cbn [den_mul] in HD. rewrite HD. exact Hacc.
  - cbn [den_mul] in HD. destruct HD as (u & Du & HD).
    cbn [fst snd] in Hf.
    destruct (visit f (mkpow k v) prec) as [pa| | |] eqn:Ea; cbn [bind] in Hf; try discriminate Hf.
    destruct (IH (mkpow k v) pa u Ea Du) as [Wa Ha].
    apply (IHd (pmul acc pa prec) r (a * u)%ps y).
    + apply wf_pmul; [apply Wacc|apply Wa].
    + apply mul_compose; [exact Wacc|exact Wa|lia|exact Hacc|exact Ha].
    + exact Hf.
    + exact HD.
Qed.

Lemma f1_sound code p r (u y : ps) :
  wf p -> eqn P (den p) u -> apply_f1 code p prec = Ok r -> fspec code u y ->
  wf r /\ eqn P (den r) y.
Proof.
  intros Wp Hpu Hr Hs. unfold fspec in Hs.
  assert (H0 : forall c, u O == c -> coef p 0 == c)
    by (intros c Hc; apply (coef0_of_eqn p prec u c); [lia|exact Hpu|exact Hc]).
  assert (Hp1 : (0 < prec < 2147483648)%N) by lia.
  destruct (N.eqb_spec code TC_Sin) as [->|_].
  { destruct Hs as (U0 & yc & Y0 & C0 & Dy & Dc). change (apply_f1 TC_Sin p prec) with (series_sin p prec) in Hr.
    destruct (sin_cos_spec p prec Wp (H0 0 U0) Hp1) as (rs & rc & Es & Ec & Ws & _).
    rewrite Hr in Es. inversion Es; subst rs. split; [exact Ws|].
    apply (sin_cos_compose p prec r rc u y yc Wp (H0 0 U0) Hp1 Hr Ec Hpu Y0 C0 Dy Dc). }
  destruct (N.eqb_spec code TC_Cos) as [->|_].
  { destruct Hs as (U0 & ys & Y0 & C0 & Dy & Dc). change (apply_f1 TC_Cos p prec) with (series_cos p prec) in Hr.
    destruct (sin_cos_spec p prec Wp (H0 0 U0) Hp1) as (rs & rc & Es & Ec & _ & Wc & _).
    rewrite Hr in Ec. inversion Ec; subst rc. split; [exact Wc|].
    apply (sin_cos_compose p prec rs r u ys y Wp (H0 0 U0) Hp1 Es Hr Hpu Y0 C0 Dy Dc). }
  destruct (N.eqb_spec code TC_Sinh) as [->|_].
  { destruct Hs as (U0 & yc & Y0 & C0 & Dy & Dc). change (apply_f1 TC_Sinh p prec) with (series_sinh p prec) in Hr.
    destruct (sinh_cosh_spec p prec Wp (H0 0 U0) Hp1) as (rs & rc & Es & Ec & Ws & _).
    rewrite Hr in Es. inversion Es; subst rs. split; [exact Ws|].
    apply (sinh_cosh_compose p prec r rc u y yc Wp (H0 0 U0) Hp1 Hr Ec Hpu Y0 C0 Dy Dc). }
  destruct (N.eqb_spec code TC_Cosh) as [->|_].
  { destruct Hs as (U0 & ys & Y0 & C0 & Dy & Dc). change (apply_f1 TC_Cosh p prec) with (series_cosh p prec) in Hr.
    destruct (sinh_cosh_spec p prec Wp (H0 0 U0) Hp1) as (rs & rc & Es & Ec & _ & Wc & _).
    rewrite Hr in Ec. inversion Ec; subst rc. split; [exact Wc|].
    apply (sinh_cosh_compose p prec rs r u ys y Wp (H0 0 U0) Hp1 Es Hr Hpu Y0 C0 Dy Dc). }
  destruct (N.eqb_spec code TC_Tan) as [->|_].
  { destruct Hs as (U0 & Y0 & Dy). change (apply_f1 TC_Tan p prec) with (series_tan p prec) in Hr.
    destruct (tan_spec p prec Wp (H0 0 U0) Hp1) as (r' & Er & Wr & _).
    rewrite Hr in Er. inversion Er; subst r'. split; [exact Wr|].
    apply (tan_compose p prec r u y Wp (H0 0 U0) Hp1 Hr Hpu Y0 Dy). }
  destruct (N.eqb_spec code TC_Tanh) as [->|_].
  { destruct Hs as (U0 & Y0 & Dy). change (apply_f1 TC_Tanh p prec) with (series_tanh p prec) in Hr.
    destruct (tanh_spec p prec Wp (H0 0 U0) Hp1) as (r' & Er & Wr & _).
    rewrite Hr in Er. inversion Er; subst r'. split; [exact Wr|].
    apply (tanh_compose p prec r u y Wp (H0 0 U0) Hp1 Hr Hpu Y0 Dy). }
  destruct (N.eqb_spec code TC_ATan) as [->|_].
  { destruct Hs as (U0 & Y0 & Dy). change (apply_f1 TC_ATan p prec) with (series_atan p prec) in Hr.
    destruct (atan_spec p prec Wp (H0 0 U0) Hp1) as (r' & Er & Wr & _).
    rewrite Hr in Er. inversion Er; subst r'. split; [exact Wr|].
    apply (atan_compose p prec r u y Wp (H0 0 U0) Hp1 Hr Hpu Y0 Dy). }
  destruct (N.eqb_spec code TC_ATanh) as [->|_].
  { destruct Hs as (U0 & Y0 & Dy). change (apply_f1 TC_ATanh p prec) with (series_atanh p prec) in Hr.
    destruct (atanh_spec p prec Wp (H0 0 U0) Hp1) as (r' & Er & Wr & _).
    rewrite Hr in Er. inversion Er; subst r'. split; [exact Wr|].
    apply (atanh_compose p prec r u y Wp (H0 0 U0) Hp1 Hr Hpu Y0 Dy). }
  destruct (N.eqb_spec code TC_ASin) as [->|_].
  { destruct Hs as (U0 & v & Y0 & V0 & Hv & Dy). change (apply_f1 TC_ASin p prec) with (series_asin p prec) in Hr.
    destruct (asin_spec p prec Wp (H0 0 U0) Hp) as (r' & w & Er & Wr & _).
    rewrite Hr in Er. inversion Er; subst r'. split; [exact Wr|].
    apply (asin_compose p prec r u y v Wp (H0 0 U0) Hp Hr Hpu Y0 V0 Hv Dy). }
  destruct (N.eqb_spec code TC_ASinh) as [->|_].
  { destruct Hs as (U0 & v & Y0 & V0 & Hv & Dy). change (apply_f1 TC_ASinh p prec) with (series_asinh p prec) in Hr.
    destruct (asinh_spec p prec Wp (H0 0 U0) Hp) as (r' & w & Er & Wr & _).
    rewrite Hr in Er. inversion Er; subst r'. split; [exact Wr|].
    apply (asinh_compose p prec r u y v Wp (H0 0 U0) Hp Hr Hpu Y0 V0 Hv Dy). }
  destruct (N.eqb_spec code TC_LambertW) as [->|_].
  { destruct Hs as (U0 & F & Y0 & F0 & DF & MF). change (apply_f1 TC_LambertW p prec) with (series_lambertw p prec) in Hr.
    destruct (lambertw_spec p prec Wp (H0 0 U0) Hp1) as (r' & Er & Wr & _).
    rewrite Hr in Er. inversion Er; subst r'. split; [exact Wr|].
    apply (lambertw_compose p prec r u y F Wp (H0 0 U0) Hp1 Hr Hpu Y0 F0 DF MF). }
  destruct (N.eqb_spec code TC_Log) as [->|_].
  { destruct Hs as (U0 & Y0 & Dy). change (apply_f1 TC_Log p prec) with (series_log p prec) in Hr.
    destruct (log_spec p prec Wp (H0 1 U0) Hp1) as (r' & Er & Wr & _).
    rewrite Hr in Er. inversion Er; subst r'. split; [exact Wr|].
    apply (log_compose p prec r u y Wp (H0 1 U0) Hp1 Hr Hpu Y0 Dy). }
  contradiction.
Qed.

Lemma exp_case f (IH : sound_at f) ex r (y : ps) :
  (do pe <- visit f ex prec; series_exp pe prec) = Ok r ->
  (exists u, DenF f ex u /\ u O == 0 /\ y O == 1 /\ pD y =p (pD u * y)%ps) ->
  wf r /\ eqn P (den r) y.
Proof.
  intros Hv (u & Du & U0 & Y0 & Dy).
  destruct (visit f ex prec) as [pe| | |] eqn:Ee; cbn [bind] in Hv; try discriminate Hv.
  destruct (IH _ pe u Ee Du) as [We He].
  assert (C0 : coef pe 0 == 0) by (apply (coef0_of_eqn pe prec u 0); [lia|exact He|exact U0]).
  destruct (exp_spec pe prec We C0 ltac:(lia)) as (r' & Er & Wr & _).
  rewrite Hv in Er. inversion Er; subst r'. split; [exact Wr|].
  apply (exp_compose pe prec r u y We C0 ltac:(lia) Hv He Y0 Dy).
Qed.

Theorem visit_sound_fuel : forall f, sound_at f.
Proof.
  induction f as [|f IH]; intros e r y Hv HD; [discriminate Hv|].
  destruct e; cbn [DenF] in HD; try contradiction.
  - (* ENum *)
    destruct HD as (q & Hq & Hy).
    destruct (visit_num f n prec r Hv) as (q' & Hq' & Er). rewrite Hq in Hq'. inversion Hq'; subst q' r.
    split; [apply wf_pconst|]. rewrite den_pconst, Hy. reflexivity.
  - (* ESym *)
    destruct HD as (Hn & Hy). cbn [visit] in Hv. rewrite Hn in Hv. inversion Hv; subst r.
    split; [apply wf_pvar|]. rewrite den_pvar, Hy. reflexivity.
  - (* EAdd *)
    destruct HD as (c & Hc & HD). cbn [visit] in Hv.
    destruct (visit f (ENum coef) prec) as [pc| | |] eqn:Ec; cbn [bind] in Hv; try discriminate Hv.
    destruct f as [|f']; [discriminate Ec|].
    destruct (visit_num f' coef prec pc Ec) as (c' & Hc' & Epc). rewrite Hc in Hc'. inversion Hc'; subst c' pc.
    apply (add_sound (S f') IH d (pconst c) r (pC c) y); [apply wf_pconst|rewrite den_pconst; reflexivity|exact Hv|exact HD].
  - (* EMul *)
    destruct HD as (c & Hc & HD). cbn [visit] in Hv.
    destruct (visit f (ENum coef) prec) as [pc| | |] eqn:Ec; cbn [bind] in Hv; try discriminate Hv.
    destruct f as [|f']; [discriminate Ec|].
    destruct (visit_num f' coef prec pc Ec) as (c' & Hc' & Epc). rewrite Hc in Hc'. inversion Hc'; subst c' pc.
    apply (mul_sound (S f') IH d (pconst c) r (pC c) y); [apply wf_pconst|rewrite den_pconst; reflexivity|exact Hv|exact HD].
  - (* EPow *)
    destruct e2 as [n| | | | | | | | | | | | | | | | |]; cbn [visit] in Hv; cbv beta match in HD;
      try (destruct (is_E e1); [exact (exp_case f IH _ r y Hv HD)|contradiction]).
    destruct n as [sh|num dn| | | | |]; try contradiction.
    2:{ (* rational exponent 1/dn: series_nthroot *)
      destruct ((num =? 1)%Z && (2 <=? Zpos dn)%Z && (Zpos dn <? INT_LIM)%Z) eqn:G; [|contradiction].
      apply andb_prop in G. destruct G as [G G3]. apply andb_prop in G. destruct G as [G1 G2].
      apply Z.eqb_eq in G1. apply Z.leb_le in G2. apply Z.ltb_lt in G3. subst num.
      destruct HD as (u & c & Du & U0 & Hq & Y0 & Hy).
      assert (L : ((1 <? - INT_LIM)%Z || (INT_LIM <=? 1)%Z || (INT_LIM <=? Zpos dn)%Z) = false).
      { unfold INT_LIM in *. destruct (Z.leb_spec 2147483648 (Zpos dn)); [lia|reflexivity]. }
      rewrite L in Hv.
      destruct (visit f e1 prec) as [pb| | |] eqn:Eb; cbn [bind] in Hv; try discriminate Hv.
      destruct (IH _ pb u Eb Du) as [Wb Hb].
      assert (C0 : ~ coef pb 0 == 0) by (apply (coef0_neq_of_eqn pb prec u); [lia|exact Hb|exact U0]).
      assert (Hq' : qroot (find_cf pb 0) dn = Ok c).
      { rewrite <- Hq. apply qroot_proper. rewrite (find_cf_coef pb 0 (proj1 Wb)).
        change (coef pb 0) with (den pb O). apply (Hb O). lia. }
      destruct (nthroot_spec pb dn prec c Wb C0 G2 ltac:(lia) Hq') as (r' & Er & Wr & _).
      rewrite Er in Hv. cbn [bind] in Hv. change ((1 =? 1)%Z) with true in Hv. cbv match in Hv.
      inversion Hv; subst r'. split; [exact Wr|].
      apply (nthroot_compose pb dn prec c r u y Wb C0 G2 ltac:(lia) Hq' Er Hb Y0 Hy). }
    destruct ((sh <? - INT_LIM)%Z || (INT_LIM <=? sh)%Z) eqn:Hlim; [|].
    { discriminate Hv. }
    destruct (visit f e1 prec) as [pb| | |] eqn:Eb; cbn [bind] in Hv; try discriminate Hv.
    destruct ((2 <=? sh)%Z && (sh <? INT_LIM)%Z) eqn:H2.
    + apply andb_prop in H2. destruct H2 as [A B]. apply Z.leb_le in A.
      destruct HD as (u & Du & Hy). destruct (IH _ pb u Eb Du) as [Wb Hb].
      destruct (Z.eqb_spec sh 1); [lia|]. destruct (Z.ltb_spec 0 sh); [|lia].
      destruct sh as [|psh|]; try lia.
      destruct (ppow_ok pb psh prec Wb ltac:(lia)) as (r' & Er & Wr & Hr).
      rewrite Hv in Er. inversion Er; subst r'. split; [exact Wr|].
      rewrite Hr, Hy. change (Z.to_nat (Z.pos psh)) with (Pos.to_nat psh). apply eqn_ppow. exact Hb.
    + destruct (Z.eqb_spec sh (-1)); [|contradiction]. subst sh.
      destruct HD as (u & Du & U0 & Hy). destruct (IH _ pb u Eb Du) as [Wb Hb].
      change ((-1 =? 1)%Z) with false in Hv. change ((0 <? -1)%Z) with false in Hv.
      change ((-1 =? -1)%Z) with true in Hv. cbv match in Hv.
      assert (C0 : ~ coef pb 0 == 0) by (apply (coef0_neq_of_eqn pb prec u); [lia|exact Hb|exact U0]).
      destruct (invert_spec pb prec Wb C0 ltac:(lia)) as (r' & Er & Wr & _).
      rewrite Hv in Er. inversion Er; subst r'. split; [exact Wr|].
      apply (invert_compose pb prec r u y Wb C0 ltac:(lia) Hv Hb Hy).
  - (* EF1 *)
    destruct HD as (u & Du & Hs). cbn [visit] in Hv.
    destruct (f1_modelled code); [|discriminate Hv].
    destruct (visit f e prec) as [pa| | |] eqn:Ea; cbn [bind] in Hv; try discriminate Hv.
    destruct (IH _ pa u Ea Du) as [Wa Ha].
    apply (f1_sound code pa r u y Wa Ha Hv Hs).
Qed.
End Sound.

Theorem visit_sound e prec r (y : ps) :
  (1 < prec < 2147483648)%N ->
  series_top e prec = Ok r -> DenF (2 * size e + 2) e y ->
  wf r /\ eqn (N.to_nat prec) (den r) y.
Proof. intros Hp Hr HD. apply (visit_sound_fuel prec Hp _ e r y Hr HD). Qed.
