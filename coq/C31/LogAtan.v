(* C31 -- powers, and the functions computed as integrals of quotients:
   series_log, series_atan, series_atanh (general paths and the "fast" paths for 1+x and x). *)
From Coq Require Import QArith Qring Qfield Setoid Morphisms Lia List ZArith NArith.
From SE Require Import C31.SeriesModel C31.PS C31.Sem C31.Invert.
Local Open Scope Q_scope.
Local Arguments Z.eqb : simpl never.
Local Arguments N.mul : simpl never.
Local Arguments N.div : simpl never.
Local Arguments N.ltb : simpl never.
Local Arguments Z.of_nat : simpl never.
Local Arguments inject_Z : simpl never.

(* ------------------------------------------------------------------ powers *)
Lemma ppow_pos_ok e : forall x y prec, wf x -> wf y -> (prec < 2147483648)%N ->
  wf (ppow_pos x y e prec) /\
  eqn (N.to_nat prec) (den (ppow_pos x y e prec)) (ppow_s (den x) (Pos.to_nat e) * den y)%ps.
Proof.
  induction e; intros x y prec Wx Wy Hp; cbn [ppow_pos].
  - assert (Wxx : wf (pmul x x prec)) by (apply wf_pmul; apply Wx).
    assert (Wxy : wf (pmul x y prec)) by (apply wf_pmul; [apply Wx|apply Wy]).
    destruct (IHe _ _ prec Wxx Wxy Hp) as [W E]. split; [exact W|].
    rewrite E. rewrite Pos2Nat.inj_xI.
    rewrite (eqn_ppow _ _ _ (Pos.to_nat e) (eqn_pmul x x prec (proj1 Wx) (proj2 Wx) (proj2 Wx) Hp)).
    rewrite (eqn_pmul x y prec (proj1 Wy) (proj2 Wx) (proj2 Wy) Hp).
    apply peq_eqn. rewrite ppow_s_mul_base.
    replace (2 * Pos.to_nat e)%nat with (Pos.to_nat e + Pos.to_nat e)%nat by lia.
    cbn [ppow_s]. rewrite ppow_s_add. ring.
  - assert (Wxx : wf (pmul x x prec)) by (apply wf_pmul; apply Wx).
    destruct (IHe _ _ prec Wxx Wy Hp) as [W E]. split; [exact W|].
    rewrite E. rewrite Pos2Nat.inj_xO.
    rewrite (eqn_ppow _ _ _ (Pos.to_nat e) (eqn_pmul x x prec (proj1 Wx) (proj2 Wx) (proj2 Wx) Hp)).
    apply peq_eqn. rewrite ppow_s_mul_base.
    replace (2 * Pos.to_nat e)%nat with (Pos.to_nat e + Pos.to_nat e)%nat by lia.
    rewrite ppow_s_add. ring.
  - split; [apply wf_pmul; [apply Wx|apply Wy]|].
    rewrite (eqn_pmul x y prec (proj1 Wy) (proj2 Wx) (proj2 Wy) Hp).
    apply peq_eqn. change (Pos.to_nat 1) with 1%nat. cbn [ppow_s]. ring.
Qed.

Lemma den_pint_1 : den (pint 1) =p p1.
Proof. rewrite den_pint. reflexivity. Qed.

Lemma ppow_ok x (p : positive) prec : wf x -> (prec < 2147483648)%N ->
  exists r, ppow x (Zpos p) prec = Ok r /\ wf r /\
            eqn (N.to_nat prec) (den r) (ppow_s (den x) (Pos.to_nat p)).
Proof.
  intros Wx Hp. cbn [ppow]. eexists; split; [reflexivity|].
  destruct (ppow_pos_ok p x (pint 1) prec Wx (wf_pconst _) Hp) as [W E]. split; [exact W|].
  rewrite E, den_pint_1. apply peq_eqn. ring.
Qed.

Lemma ppow2_ok x prec : wf x -> (prec < 2147483648)%N ->
  exists r, ppow x 2 prec = Ok r /\ wf r /\ eqn (N.to_nat prec) (den r) (den x * den x)%ps.
Proof.
  intros Wx Hp. destruct (ppow_ok x 2 prec Wx Hp) as (r & E & W & H).
  exists r. split; [exact E|]. split; [exact W|]. rewrite H.
  change (Pos.to_nat 2) with 2%nat. cbn [ppow_s]. apply peq_eqn. ring.
Qed.

Lemma pred32_small prec : (0 < prec < 4294967296)%N -> pred32 prec = (prec - 1)%N.
Proof.
  intros H. unfold pred32, usub, W32.
  rewrite (N.mod_small 1) by lia.
  replace (prec + 4294967296 - 1)%N with ((prec - 1) + 1 * 4294967296)%N by lia.
  rewrite N.mod_add by lia. apply N.mod_small. lia.
Qed.

(* ------------------------------------------------------------------ integral of s' * (1/p) *)
Lemma int_quot_ok s p ip m :
  wf s -> wf p -> wf ip -> (m < 2147483648)%N ->
  eqn (N.to_nat m) (den ip * den p)%ps p1 ->
  exists r, pintegrate (pmul (pdiff s) ip m) = Ok r /\ wf r /\ den r O == 0 /\
            eqn (N.to_nat m) (pD (den r) * den p)%ps (pD (den s)).
Proof.
  intros Ws Wp Wip Hm H.
  assert (Wd : wf (pdiff s)) by (apply wf_pdiff; assumption).
  assert (Wm : wf (pmul (pdiff s) ip m)) by (apply wf_pmul; [apply Wd|apply Wip]).
  destruct (pintegrate_ok _ Wm) as (r & E & Wr & Dr).
  exists r. split; [exact E|]. split; [exact Wr|]. split; [rewrite (Dr O); reflexivity|].
  rewrite Dr, pD_pI.
  rewrite (eqn_pmul (pdiff s) ip m (proj1 Wip) (proj2 Wd) (proj2 Wip) Hm).
  rewrite den_pdiff.
  assert (E2 : (pD (den s) * den ip * den p)%ps =p (pD (den s) * (den ip * den p))%ps) by ring.
  rewrite E2, H. apply peq_eqn. ring.
Qed.

Lemma pD_0 : pD p0 =p p0.
Proof. intros n; unfold pD, p0; ring. Qed.

Lemma qis0_find_cf s c : sorted s -> coef s 0 == c -> qis0 (find_cf s 0) = qis0 c.
Proof.
  intros Ss H. destruct (qis0 c) eqn:E.
  - apply qis0_true. apply qis0_true in E. rewrite find_cf_coef, H by assumption. exact E.
  - apply qis0_false. apply qis0_false in E. rewrite find_cf_coef, H by assumption. exact E.
Qed.

(* (a * X) n = a (n-1) *)
Lemma pmul_pX a n : (a * pX)%ps n == match n with O => 0 | S m => a m end.
Proof.
  unfold pmul_s. destruct n as [|m].
  - simpl. unfold pX. ring.
  - rewrite (sumn_single _ _ m); [|lia|].
    + replace (S m - m)%nat with 1%nat by lia. unfold pX. ring.
    + intros i Hi Hne. unfold pX.
      destruct (S m - i)%nat as [|[|k]] eqn:Ek; try ring. lia.
Qed.

(* ------------------------------------------------------------------ log(1+x), fast path *)
(* coefficient of x^n in log(1+x): (-1)^(n+1)/n *)
Definition logc (n : nat) : Q :=
  match n with O => 0 | S _ => (if Nat.even n then -1 else 1) / qnat n end.
(* x^i *)
Definition xpow (i : nat) : ps := fun n => if Nat.eqb n i then 1 else 0.

Lemma xpow_mul_X i : (xpow i * pX)%ps =p xpow (S i).
Proof.
  intros n. rewrite pmul_pX. unfold xpow. destruct n as [|m]; [reflexivity|].
  simpl Nat.eqb. reflexivity.
Qed.

Lemma rem2_even i : (Z.rem (Z.of_nat i) 2 =? 0)%Z = Nat.even i.
Proof.
  rewrite Z.rem_mod_nonneg by lia.
  destruct (Nat.even i) eqn:Ev.
  - apply Nat.even_spec in Ev. destruct Ev as [k Hk]. subst i.
    rewrite Nat2Z.inj_mul, Z.mul_comm, Z_mod_mult. reflexivity.
  - assert (Od : Nat.odd i = true) by (rewrite <- Nat.negb_even, Ev; reflexivity).
    apply Nat.odd_spec in Od. destruct Od as [k Hk]. subst i.
    replace (Z.of_nat (2 * k + 1)) with (1 + Z.of_nat k * 2)%Z by lia.
    rewrite Z_mod_plus_full. reflexivity.
Qed.

Lemma log_fast_ok cnt : forall (i : nat) monom res_p,
  (1 <= i)%nat -> wf monom -> wf res_p -> den monom =p xpow i ->
  (forall n, den res_p n == if (n <? i)%nat then logc n else 0) ->
  exists r, log_fast cnt (Z.of_nat i) monom res_p = Ok r /\ wf r /\
            forall n, den r n == if (n <? i + cnt)%nat then logc n else 0.
Proof.
  induction cnt; intros i monom res_p Hi Wm Wr Dm Dr; cbn [log_fast].
  - exists res_p. split; [reflexivity|]. split; [assumption|].
    intros n. rewrite Dr. rewrite Nat.add_0_r. reflexivity.
  - unfold pdiv_q.
    assert (Hz : qis0 (qZ (Z.of_nat i)) = false).
    { apply qis0_false. unfold qZ, Qeq; simpl. lia. }
    rewrite Hz. cbn [bind].
    rewrite rem2_even.
    set (sg := (if Nat.even i then -1 else 1)%Z).
    set (t := pmul_full (pmul_q monom (qZ sg)) (pconst (qinv (qZ (Z.of_nat i))))).
    assert (Wt : wf t).
    { apply wf_pmul_full; [apply wf_pmul_q; assumption|apply wf_pconst]. }
    assert (Dt : den t =p pscale (logc i) (xpow i)).
    { unfold t. rewrite den_pmul_full; [|apply wf_pmul_q; assumption|apply wf_pconst].
      rewrite den_pmul_q by apply Wm. rewrite den_pconst, Dm.
      rewrite (pmul_comm _ (pC _)), pC_mul.
      intros n. unfold pscale. destruct i as [|i']; [lia|].
      unfold logc. rewrite qinv_ok. unfold sg.
      destruct (Nat.even (S i')); unfold qZ, qnat, Qdiv;
        change (Z.of_nat (S i') # 1) with (inject_Z (Z.of_nat (S i'))); ring. }
    replace (Z.of_nat i + 1)%Z with (Z.of_nat (S i)) by lia.
    destruct (IHcnt (S i) (pmul_assign monom pvar) (padd res_p t)) as (r & E & W & D).
    + lia.
    + rewrite pmul_assign_pvar. apply wf_pmul_full; [assumption|apply wf_pvar].
    + apply wf_padd; assumption.
    + rewrite pmul_assign_pvar. rewrite den_pmul_full; [|apply Wm|apply wf_pvar].
      rewrite Dm, den_pvar. apply xpow_mul_X.
    + intros n. rewrite (den_padd res_p t n). unfold padd_s. rewrite Dr, (Dt n).
      unfold pscale, xpow.
      destruct (Nat.ltb_spec n i), (Nat.ltb_spec n (S i)), (Nat.eqb_spec n i); try lia; subst; ring.
    + exists r. split; [exact E|]. split; [exact W|].
      intros n. rewrite D. replace (S i + cnt)%nat with (i + S cnt)%nat by lia. reflexivity.
Qed.

Lemma qnat_neq0 n : (1 <= n)%nat -> ~ qnat n == 0.
Proof. intros H. unfold qnat, Qeq; simpl. lia. Qed.

Lemma logc_ode (r : ps) (N : nat) :
  (forall n, r n == if (n <? N)%nat then logc n else 0) ->
  eqn (N - 1) (pD r * (pX + p1))%ps p1.
Proof.
  intros Hr k Hk.
  assert (E : (pD r * (pX + p1))%ps =p (pD r * pX + pD r)%ps) by ring.
  rewrite (E k). unfold padd_s. rewrite pmul_pX.
  destruct k as [|m].
  - unfold pD. rewrite (Hr 1%nat).
    destruct (Nat.ltb_spec 1 N); [|lia].
    unfold logc. change (Nat.even 1) with false. change (p1 O) with 1. cbv match.
    field. apply qnat_neq0; lia.
  - unfold pD. rewrite (Hr (S m)), (Hr (S (S m))).
    destruct (Nat.ltb_spec (S m) N); [|lia]. destruct (Nat.ltb_spec (S (S m)) N); [|lia].
    unfold logc. rewrite Nat.even_succ_succ, Nat.even_succ, <- Nat.negb_even.
    change (p1 (S m)) with 0.
    destruct (Nat.even m); cbn [negb]; cbv match; field; split; apply qnat_neq0; lia.
Qed.

(* ------------------------------------------------------------------ series_log *)
Theorem log_spec s prec :
  wf s -> coef s 0 == 1 -> (0 < prec < 2147483648)%N ->
  exists r, series_log s prec = Ok r /\ wf r /\ den r O == 0 /\
            eqn (N.to_nat prec - 1) (pD (den r) * den s)%ps (pD (den s)).
Proof.
  intros Ws H1 Hp. unfold series_log.
  destruct (peqb s (pint 1)) eqn:E1.
  - exists []. split; [reflexivity|]. split; [apply wf_nil|]. split; [reflexivity|].
    apply peq_eqn. rewrite (peqb_den _ _ E1), den_pint, den_nil.
    rewrite (pD_C (inject_Z 1)), pD_0. ring.
  - destruct (peqb s (padd pvar (pint 1))) eqn:E2.
    + assert (Ds : den s =p (pX + p1)%ps).
      { rewrite (peqb_den _ _ E2), den_padd, den_pvar, den_pint_1. reflexivity. }
      destruct (log_fast_ok (N.to_nat (prec - 1)) 1 pvar []) as (r & E & W & D).
      * lia.
      * apply wf_pvar.
      * apply wf_nil.
      * rewrite den_pvar. intros [|[|n]]; reflexivity.
      * intros [|n]; reflexivity.
      * exists r. split; [exact E|]. split; [exact W|]. split; [rewrite D; reflexivity|].
        rewrite Ds.
        assert (E3 : pD (pX + p1)%ps =p p1).
        { intros [|n]; unfold pD, padd_s, pX, p1, pC, qnat; simpl; ring. }
        rewrite E3.
        replace (N.to_nat prec - 1)%nat with ((1 + N.to_nat (prec - 1)) - 1)%nat by lia.
        apply logc_ode. exact D.
    + assert (H0 : ~ coef s 0 == 0) by (rewrite H1; discriminate).
      destruct (invert_spec s prec Ws H0 (proj2 Hp)) as (iv & Ei & Wi & Hi).
      rewrite Ei. cbn [bind]. rewrite pred32_small by lia.
      destruct (int_quot_ok s s iv (prec - 1) Ws Ws Wi) as (r & E & Wr & R0 & HR).
      * lia.
      * eapply eqn_le; [|exact Hi]. lia.
      * rewrite E. cbn [bind].
        assert (Hc : Qeq_bool (find_cf s 0) 1 = true).
        { apply Qeq_bool_iff. rewrite find_cf_coef by apply Ws. exact H1. }
        rewrite Hc. exists r. split; [reflexivity|]. split; [exact Wr|]. split; [exact R0|].
        replace (N.to_nat prec - 1)%nat with (N.to_nat (prec - 1)) by lia. exact HR.
Qed.

(* ------------------------------------------------------------------ atan / atanh, general path *)
Lemma ppow2_full s m : wf s -> coef s 0 == 0 -> (m < 2147483648)%N ->
  exists s2, ppow s 2 m = Ok s2 /\ wf s2 /\ eqn (N.to_nat m) (den s2) (den s * den s)%ps /\
             den s2 O == 0.
Proof.
  intros Ws H0 Hm. destruct (ppow2_ok s m Ws Hm) as (r & E & W & H).
  exists r. split; [exact E|]. split; [exact W|]. split; [exact H|].
  cbn [ppow ppow_pos] in E. inversion E as [Er]. clear E.
  assert (Wss : wf (pmul s s m)) by (apply wf_pmul; apply Ws).
  rewrite (den_pmul (pmul s s m) (pint 1) m (proj1 (wf_pconst _)) (proj2 Wss) (proj2 (wf_pconst _)) Hm O).
  unfold trunc. destruct (0 <? N.to_nat m)%nat; [|reflexivity].
  rewrite pmul_coef0.
  rewrite (den_pmul s s m (proj1 Ws) (proj2 Ws) (proj2 Ws) Hm O).
  unfold trunc. destruct (0 <? N.to_nat m)%nat; [|ring].
  rewrite pmul_coef0. change (den s O) with (coef s 0). rewrite H0. ring.
Qed.

Theorem atan_spec_general s prec :
  wf s -> coef s 0 == 0 -> (0 < prec < 2147483648)%N -> peqb s pvar = false ->
  exists r, series_atan s prec = Ok r /\ wf r /\ den r O == 0 /\
            eqn (N.to_nat prec - 1) (pD (den r) * (p1 + den s * den s))%ps (pD (den s)).
Proof.
  intros Ws H0 Hp Hf. unfold series_atan.
  destruct (peqb s []) eqn:E0.
  - exists []. split; [reflexivity|]. split; [apply wf_nil|]. split; [reflexivity|].
    apply peq_eqn. rewrite (peqb_den _ _ E0), den_nil.
    rewrite pD_0. ring.
  - rewrite Hf. rewrite pred32_small by lia.
    destruct (ppow2_full s (prec - 1) Ws H0) as (s2 & E2 & W2 & H2 & Z2); [lia|].
    rewrite E2. cbn [bind].
    set (p := padd s2 (pint 1)).
    assert (Wp : wf p) by (apply wf_padd; [assumption|apply wf_pconst]).
    assert (Dp : den p =p (den s2 + p1)%ps) by (unfold p; rewrite den_padd, den_pint_1; reflexivity).
    assert (Hp0 : ~ coef p 0 == 0).
    { change (coef p 0) with (den p O). rewrite (Dp O). unfold padd_s. rewrite Z2.
      change (p1 O) with 1. intro Hc. discriminate Hc. }
    destruct (invert_spec p (prec - 1) Wp Hp0) as (ip & Ei & Wi & Hi); [lia|].
    rewrite Ei. cbn [bind].
    destruct (int_quot_ok s p ip (prec - 1) Ws Wp Wi) as (r & E & Wr & R0 & HR); [lia|exact Hi|].
    rewrite E. cbn [bind].
    rewrite (qis0_find_cf s 0 (proj1 Ws) H0). change (qis0 0) with true. cbv match.
    exists r. split; [reflexivity|]. split; [exact Wr|]. split; [exact R0|].
    replace (N.to_nat prec - 1)%nat with (N.to_nat (prec - 1)) by lia.
    rewrite <- HR. apply eqn_mul; [reflexivity|].
    rewrite Dp, H2. apply peq_eqn. ring.
Qed.

Theorem atanh_spec s prec :
  wf s -> coef s 0 == 0 -> (0 < prec < 2147483648)%N ->
  exists r, series_atanh s prec = Ok r /\ wf r /\ den r O == 0 /\
            eqn (N.to_nat prec - 1) (pD (den r) * (p1 - den s * den s))%ps (pD (den s)).
Proof.
  intros Ws H0 Hp. unfold series_atanh.
  rewrite pred32_small by lia.
  destruct (ppow2_full s (prec - 1) Ws H0) as (s2 & E2 & W2 & H2 & Z2); [lia|].
  rewrite E2. cbn [bind].
  set (p := psub (pint 1) s2).
  assert (Wp : wf p) by (apply wf_psub; [apply wf_pconst|assumption]).
  assert (Dp : den p =p (p1 - den s2)%ps) by (unfold p; rewrite den_psub, den_pint_1; reflexivity).
  assert (Hp0 : ~ coef p 0 == 0).
  { change (coef p 0) with (den p O). rewrite (Dp O). unfold psub_s. rewrite Z2.
    change (p1 O) with 1. intro Hc. discriminate Hc. }
  destruct (invert_spec p (prec - 1) Wp Hp0) as (ip & Ei & Wi & Hi); [lia|].
  rewrite Ei. cbn [bind].
  destruct (int_quot_ok s p ip (prec - 1) Ws Wp Wi) as (r & E & Wr & R0 & HR); [lia|exact Hi|].
  rewrite E. cbn [bind].
  rewrite (qis0_find_cf s 0 (proj1 Ws) H0). change (qis0 0) with true. cbv match.
  exists r. split; [reflexivity|]. split; [exact Wr|]. split; [exact R0|].
  replace (N.to_nat prec - 1)%nat with (N.to_nat (prec - 1)) by lia.
  rewrite <- HR. apply eqn_mul; [reflexivity|].
  rewrite Dp, H2. apply peq_eqn. ring.
Qed.
