(* C31 -- series_tanh: Newton iteration r <- r + (s - atanh r)(1 - r^2) along the precision
   chain solves  y(0) = 0,  y' = s' (1 - y^2)  modulo x^(prec-1). *)
From Coq Require Import QArith Qring Qfield Setoid Morphisms Lia List ZArith NArith.
From SE Require Import C31.SeriesModel C31.PS C31.Sem C31.Invert C31.LogAtan C31.Exp.
Local Open Scope Q_scope.
Local Open Scope res_scope.
Local Arguments Z.eqb : simpl never.
Local Arguments N.mul : simpl never.
Local Arguments N.div : simpl never.
Local Arguments N.ltb : simpl never.
Local Arguments Z.of_nat : simpl never.
Local Arguments inject_Z : simpl never.

Ltac Zify.zify_post_hook ::= Z.div_mod_to_equations.

Definition tanh_inv (s : poly) (m : N) (r : poly) : Prop :=
  wf r /\ den r O == 0 /\
  eqn (N.to_nat m - 1) (pD (den r)) (pD (den s) * (p1 - den r * den r))%ps.

Lemma tanh_inv_le s m m' r : (m' <= m)%N -> tanh_inv s m r -> tanh_inv s m' r.
Proof.
  intros Hle (W & R0 & H). split; [exact W|]. split; [exact R0|].
  eapply eqn_le; [|exact H]. lia.
Qed.

Lemma tanh_step_ok s : wf s -> coef s 0 == 0 -> forall m st r,
  tanh_inv s m r -> (st <= 2 * m)%N -> step_ok st ->
  exists r', (do at_ <- series_atanh r st;
              do r2 <- ppow r 2 st;
              Ok (padd r (pmul (pneg (psub s at_)) (psub r2 (pint 1)) st))) = Ok r' /\
             tanh_inv s st r'.
Proof.
  intros Ws S0 m st r Hinv Hst Hok.
  set (m' := N.min m st).
  assert (Hinv' : tanh_inv s m' r) by (apply (tanh_inv_le s m); [unfold m'; lia|exact Hinv]).
  assert (Hm1 : (m' <= st)%N) by (unfold m'; lia).
  assert (Hm2 : (st <= 2 * m')%N) by (unfold m'; lia).
  clearbody m'. clear Hinv Hst m.
  destruct Hinv' as (Wr & R0 & HR). unfold step_ok in Hok.
  destruct (atanh_spec r st Wr R0 ltac:(lia)) as (a & Ea & Wa & A0 & HA).
  rewrite Ea. cbn [bind].
  destruct (ppow2_ok r st Wr ltac:(lia)) as (r2 & E2 & W2 & H2).
  rewrite E2. cbn [bind].
  set (pp := pneg (psub s a)).
  assert (Wpp : wf pp) by (apply wf_pneg; apply wf_psub; assumption).
  set (q := psub r2 (pint 1)).
  assert (Wq : wf q) by (apply wf_psub; [assumption|apply wf_pconst]).
  set (r' := padd r (pmul pp q st)).
  assert (Wr' : wf r') by (apply wf_padd; [assumption|apply wf_pmul; [apply Wpp|apply Wq]]).
  exists r'. split; [reflexivity|].
  set (R := den r). set (e := (den s - den a)%ps).
  assert (Er' : eqn (N.to_nat st) (den r') (R + e * (p1 - R * R))%ps).
  { unfold r'. rewrite den_padd.
    rewrite (eqn_pmul pp q st (proj1 Wq) (proj2 Wpp) (proj2 Wq)) by lia.
    unfold pp, q. rewrite den_pneg, !den_psub, den_pint_1, H2. apply peq_eqn. unfold e, R. ring. }
  (* the unit 1 - r^2 *)
  assert (U0 : ~ (p1 - R * R)%ps O == 0).
  { unfold psub_s. rewrite pmul_coef0. unfold R. rewrite R0. change (p1 O) with 1.
    intro Hc. discriminate Hc. }
  assert (Eas : eqn (N.to_nat m') (den a) (den s)).
  { destruct (N.to_nat m') as [|k] eqn:Ek; [apply eqn_0|].
    apply pD_eqn_S; [rewrite A0; change (den s O) with (coef s 0); rewrite S0; reflexivity|].
    apply (cancel_unit k _ _ (p1 - R * R)%ps U0).
    transitivity (pD R).
    - eapply eqn_le; [|exact HA]. lia.
    - eapply eqn_le; [|exact HR]. lia. }
  assert (Ve : vge (N.to_nat m') e).
  { unfold e. apply (proj1 (eqn_vge_sub _ _ _)). apply eqn_sym. exact Eas. }
  split; [exact Wr'|]. split.
  - rewrite (Er' O) by lia. unfold padd_s. rewrite pmul_coef0. unfold e, psub_s, R.
    rewrite R0, A0. change (den s O) with (coef s 0). rewrite S0. ring.
  - set (n := (N.to_nat st - 1)%nat).
    set (r1 := (R + e * (p1 - R * R))%ps) in *.
    assert (E1 : eqn n (pD (den r')) (pD r1)).
    { apply eqn_pD. replace (S n) with (N.to_nat st) by (unfold n; lia). exact Er'. }
    assert (E3 : eqn n (pD (den s) * (p1 - den r' * den r'))%ps (pD (den s) * (p1 - r1 * r1))%ps).
    { apply eqn_mul; [reflexivity|]. apply eqn_sub; [reflexivity|].
      apply eqn_mul; (eapply eqn_le; [|exact Er']; unfold n; lia). }
    rewrite E1, E3. apply (proj2 (eqn_vge_sub _ _ _)).
    set (X := (pD R - pD (den a) * (p1 - R * R))%ps).
    set (Y := (pD R - pD (den s) * (p1 - R * R))%ps).
    assert (De : pD e =p (pD (den s) - pD (den a))%ps) by (unfold e; apply pD_sub).
    assert (Id : (pD r1 - pD (den s) * (p1 - r1 * r1))%ps
                 =p (X + (- (p1 + p1)) * e * R * Y
                     + e * e * (pD (den s) * (p1 - R * R) * (p1 - R * R)))%ps).
    { unfold r1, X, Y. rewrite pD_add, pD_mul, pD_sub, pD_mul, De.
      assert (E0 : pD p1 =p p0) by apply pD_C. rewrite E0. ring. }
    apply (vge_peq n _ _ (symmetry Id)).
    apply vge_add; [apply vge_add|].
    + unfold X. apply (proj1 (eqn_vge_sub _ _ _)). apply eqn_sym. exact HA.
    + apply (vge_le (N.to_nat m' + (N.to_nat m' - 1))); [unfold n; lia|].
      apply (vge_peq _ ((e * (- (p1 + p1) * R)) * Y)%ps); [ring|].
      apply vge_mul; [apply vge_mul_l; exact Ve|].
      unfold Y. apply (proj1 (eqn_vge_sub _ _ _)). exact HR.
    + apply (vge_le (N.to_nat m' + N.to_nat m')); [unfold n; lia|].
      apply vge_mul_l. apply vge_mul; exact Ve.
Qed.

Theorem tanh_spec s prec :
  wf s -> coef s 0 == 0 -> (0 < prec < 2147483648)%N ->
  exists r, series_tanh s prec = Ok r /\ wf r /\ den r O == 0 /\
            eqn (N.to_nat prec - 1) (pD (den r)) (pD (den s) * (p1 - den r * den r))%ps.
Proof.
  intros Ws S0 Hp. unfold series_tanh.
  rewrite (qis0_find_cf s 0 (proj1 Ws) S0). change (qis0 0) with true. cbv match.
  destruct (fold_res_chain (tanh_inv s)
              (fun res_p step => do at_ <- series_atanh res_p step;
                                 do r2 <- ppow res_p 2 step;
                                 Ok (padd res_p (pmul (pneg (psub s at_)) (psub r2 (pint 1)) step)))
              (tanh_step_ok s Ws S0) (step_list prec) 1%N s)
    as (r & E & I).
  - split; [exact Ws|]. split; [change (den s O) with (coef s 0); exact S0|apply eqn_0].
  - apply step_list_chain.
  - apply step_list_ok. exact Hp.
  - rewrite E. cbn [bind]. rewrite step_list_last in I.
    destruct I as (W & R0 & H). exists r. split; [reflexivity|]. split; [exact W|].
    split; [exact R0|exact H].
Qed.
