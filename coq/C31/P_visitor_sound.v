(* C31 obligation (guarded fragment): soundness of the SeriesVisitor model.  DenF fuel e y says
   that the formal power series y is a Taylor series of the expression e built from numbers, x,
   Add / Mul dictionaries, integer powers >= 2, roots e^(1/d) (exact rational root of the constant
   term), reciprocals of series with non-zero constant
   term, exp, and sin cos tan atan sinh cosh tanh atanh asin asinh lambertw of arguments without
   constant term, log of arguments with constant term 1 (each function given by its defining
   initial value problem, VisitorProofs.v: fspec).  Whenever the visitor returns Ok r, the
   coefficients of r below x^prec are those of y.
   Outside the fragment (other rational powers, general powers a^b, quotients by series without
   constant term -- where the library loses precision, see P_refuted.v --, symbolic constants)
   nothing is claimed here. *)
From Coq Require Import QArith List ZArith NArith.
From SE Require Import C31.VisitorModel.
From SE Require Import C31.SeriesSpec C31.Invert C31.SeriesProofs C31.Compose C31.VisitorProofs.
Local Open Scope Q_scope.
Theorem C31_visit_sound_guarded :
  forall (e : expr) (prec : N) (r : poly) (y : ps),
    (1 < prec < 2147483648)%N ->
    series_top e prec = Ok r -> DenF (2 * size e + 2) e y ->
    wf r /\ eqn (N.to_nat prec) (den r) y.
Proof. exact visit_sound. Qed.
Print Assumptions C31_visit_sound_guarded.
