(* Extraction of the C31 model (run from the output directory; not part of `make`). *)
From SE Require Import C31.VisitorModel.
Require Import ExtrOcamlBasic.
Extraction "semodel.ml" N_of_digits Z_of_digits digits_of_N tc_lookup
  series_top pmul ppow pdiff pintegrate psubs padd psub pmul_full pmul_assign
  series_invert series_reverse series_nthroot series_atan series_tan series_cot
  series_sin series_cos series_csc series_sec series_asin series_acos series_log series_exp
  series_lambertw series_sinh series_cosh series_atanh series_asinh series_tanh step_list Qred.
