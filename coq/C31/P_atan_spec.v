(* C31 obligation: series_atan (s == 0, the closed-form loop for atan(x), and the general
   integral of s'/(1+s^2)):  y(0) = 0,  y' (1 + s^2) = s'  modulo x^(prec-1); by uniqueness the
   coefficients below x^prec are those of atan(s). *)
From Coq Require Import QArith List ZArith NArith.
From SE Require Import C31.VisitorModel.
From SE Require Import C31.SeriesSpec C31.Invert C31.SeriesProofs.
Local Open Scope Q_scope.
Theorem C31_atan_spec :
  forall (s : poly) (prec : N),
    wfb s = true -> const0 s = true -> prec_ok prec = true ->
    exists r, series_atan s prec = Ok r /\ wf r /\ den r O == 0 /\
              eqn (N.to_nat prec - 1) (pD (den r) * (p1 + den s * den s))%ps (pD (den s)).
Proof. exact atan_spec_b. Qed.
Theorem C31_atan_taylor :
  forall (s : poly) (prec : N) (r : poly) (y : ps),
    wfb s = true -> const0 s = true -> prec_ok prec = true ->
    series_atan s prec = Ok r ->
    y O == 0 -> (pD y * (p1 + den s * den s))%ps =p pD (den s) ->
    eqn (N.to_nat prec) (den r) y.
Proof. exact atan_taylor. Qed.
Print Assumptions C31_atan_spec.
Print Assumptions C31_atan_taylor.
