(* C31 obligation (partial): series_atan, general path (s <> x; the closed-form loop for
   atan(x) itself is covered by the correspondence only):  y(0) = 0,  y' (1 + s^2) = s'.
   Full statement: the same without the hypothesis `peqb s pvar = false`. *)
From Coq Require Import QArith List ZArith NArith.
From SE Require Import C31.VisitorModel.
From SE Require Import C31.SeriesSpec C31.Invert C31.SeriesProofs.
Local Open Scope Q_scope.
Theorem C31_atan_spec_partial :
  forall (s : poly) (prec : N),
    wfb s = true -> const0 s = true -> prec_ok prec = true -> peqb s pvar = false ->
    exists r, series_atan s prec = Ok r /\ wf r /\ den r O == 0 /\
              eqn (N.to_nat prec - 1) (pD (den r) * (p1 + den s * den s))%ps (pD (den s)).
Proof. exact atan_spec_b. Qed.
Theorem C31_atan_taylor_partial :
  forall (s : poly) (prec : N) (r : poly) (y : ps),
    wfb s = true -> const0 s = true -> prec_ok prec = true -> peqb s pvar = false ->
    series_atan s prec = Ok r ->
    y O == 0 -> (pD y * (p1 + den s * den s))%ps =p pD (den s) ->
    eqn (N.to_nat prec) (den r) y.
Proof. exact atan_taylor. Qed.
Print Assumptions C31_atan_spec_partial.
Print Assumptions C31_atan_taylor_partial.
