(* C31 obligation (guarded): series_nthroot on a power series with non-zero constant term
   whose constant term has an exact rational n-th root c (qroot): the result r satisfies
   r^n = s modulo x^prec (n >= 2), resp. r^|n| s = 1 (n <= -2).  The guard excludes series with
   non-zero lowest degree, where the library was wrong before fix-1 and still loses precision. *)
From Coq Require Import QArith List ZArith NArith.
From SE Require Import C31.VisitorModel.
From SE Require Import C31.SeriesSpec C31.Invert C31.SeriesProofs.
Local Open Scope Q_scope.
Theorem C31_nthroot_spec_guarded :
  forall (s : poly) (np : positive) (prec : N) (c : Q),
    wfb s = true -> const0 s = false -> (2 <= Zpos np)%Z -> prec_ok prec = true ->
    qroot (find_cf s 0) np = Ok c ->
    exists r, series_nthroot s (Zpos np) prec = Ok r /\ wf r /\ den r O == c /\
              eqn (N.to_nat prec) (ppow_s (den r) (Pos.to_nat np)) (den s).
Proof. exact nthroot_spec_b. Qed.
Theorem C31_nthroot_inv_spec_guarded :
  forall (s : poly) (np : positive) (prec : N) (c : Q),
    wfb s = true -> const0 s = false -> (2 <= Zpos np)%Z -> prec_ok prec = true ->
    qroot (find_cf s 0) np = Ok c -> qis0 c = false ->
    exists r, series_nthroot s (Zneg np) prec = Ok r /\ wf r /\ den r O == / c /\
              eqn (N.to_nat prec) (ppow_s (den r) (Pos.to_nat np) * den s)%ps p1.
Proof. exact nthroot_inv_spec_b. Qed.
Print Assumptions C31_nthroot_spec_guarded.
Print Assumptions C31_nthroot_inv_spec_guarded.
