(* C31 obligation: series_invert (Newton iteration along step_list) returns the inverse
   modulo x^prec of every power series with non-zero constant term. *)
From Coq Require Import QArith List ZArith NArith.
From SE Require Import C31.VisitorModel.
From SE Require Import C31.SeriesSpec C31.Invert C31.SeriesProofs.
Local Open Scope Q_scope.
Theorem C31_invert_spec :
  forall (s : poly) (prec : N),
    wfb s = true -> const0 s = false -> (prec < 2147483648)%N ->
    exists r, series_invert s prec = Ok r /\ wf r /\
              eqn (N.to_nat prec) (den r * den s)%ps p1.
Proof. exact invert_spec_b. Qed.
Print Assumptions C31_invert_spec.
