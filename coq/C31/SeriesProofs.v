(* C31 -- the property theorems in their final form (boolean guards of SeriesSpec.v),
   the Taylor-coefficient corollaries obtained from uniqueness, and the refutation
   witnesses for the defects that the faithful model reproduces. *)
From Coq Require Import QArith Qring Qfield Setoid Morphisms Lia List ZArith NArith Bool.
From SE Require Import C31.VisitorModel.
From SE Require Import C31.SeriesSpec C31.Invert C31.LogAtan C31.Exp C31.Nthroot C31.Hyp C31.SinCos C31.Tanh C31.Tan C31.Asin C31.Lambert.
Local Open Scope Q_scope.

(* ------------------------------------------------------------------ primitives *)
Theorem mul_spec a b prec :
  wfb a = true -> wfb b = true -> (prec < 2147483648)%N ->
  wf (pmul a b prec) /\ den (pmul a b prec) =p trunc (N.to_nat prec) (den a * den b)%ps.
Proof.
  intros Wa Wb Hp. apply wfb_wf in Wa. apply wfb_wf in Wb.
  split; [apply wf_pmul; [apply Wa|apply Wb]|].
  apply den_pmul; [apply Wb|apply Wa|apply Wb|exact Hp].
Qed.

Theorem pow_spec x (p : positive) prec :
  wfb x = true -> (prec < 2147483648)%N ->
  exists r, ppow x (Zpos p) prec = Ok r /\ wf r /\
            eqn (N.to_nat prec) (den r) (ppow_s (den x) (Pos.to_nat p)).
Proof. intros Wx Hp. apply ppow_ok; [apply wfb_wf; exact Wx|exact Hp]. Qed.

Theorem step_list_spec prec :
  chain_ok 1 (step_list prec) /\ last (step_list prec) 0%N = prec /\
  Forall (fun s => (s <= N.max prec 4)%N) (step_list prec).
Proof. split; [apply step_list_chain|]. split; [apply step_list_last|apply step_list_le]. Qed.

(* ------------------------------------------------------------------ inverse *)
Theorem invert_spec_b s prec :
  wfb s = true -> const0 s = false -> (prec < 2147483648)%N ->
  exists r, series_invert s prec = Ok r /\ wf r /\
            eqn (N.to_nat prec) (den r * den s)%ps p1.
Proof.
  intros W H Hp. apply invert_spec; [apply wfb_wf; exact W|apply const0_false_coef; assumption|exact Hp].
Qed.

Theorem invert_congruence_b s t prec r r' :
  wfb s = true -> wfb t = true -> const0 s = false -> const0 t = false ->
  (prec < 2147483648)%N -> eqn (N.to_nat prec) (den s) (den t) ->
  series_invert s prec = Ok r -> series_invert t prec = Ok r' ->
  eqn (N.to_nat prec) (den r) (den r').
Proof.
  intros Ws Wt Hs Ht Hp. apply invert_congruence;
    [apply wfb_wf; exact Ws|apply wfb_wf; exact Wt|apply const0_false_coef; assumption
    |apply const0_false_coef; assumption|exact Hp].
Qed.

(* ------------------------------------------------------------------ log, atan, atanh, exp *)
Theorem log_spec_b s prec :
  wfb s = true -> const1 s = true -> prec_ok prec = true ->
  exists r, series_log s prec = Ok r /\ wf r /\ den r O == 0 /\
            eqn (N.to_nat prec - 1) (pD (den r) * den s)%ps (pD (den s)).
Proof.
  intros W H Hp. apply log_spec; [apply wfb_wf; exact W|apply const1_coef; assumption|apply prec_ok_lt; exact Hp].
Qed.

Theorem atan_spec_b s prec :
  wfb s = true -> const0 s = true -> prec_ok prec = true ->
  exists r, series_atan s prec = Ok r /\ wf r /\ den r O == 0 /\
            eqn (N.to_nat prec - 1) (pD (den r) * (p1 + den s * den s))%ps (pD (den s)).
Proof.
  intros W H Hp. apply atan_spec;
    [apply wfb_wf; exact W|apply const0_coef; assumption|apply prec_ok_lt; exact Hp].
Qed.

Theorem atanh_spec_b s prec :
  wfb s = true -> const0 s = true -> prec_ok prec = true ->
  exists r, series_atanh s prec = Ok r /\ wf r /\ den r O == 0 /\
            eqn (N.to_nat prec - 1) (pD (den r) * (p1 - den s * den s))%ps (pD (den s)).
Proof.
  intros W H Hp. apply atanh_spec;
    [apply wfb_wf; exact W|apply const0_coef; assumption|apply prec_ok_lt; exact Hp].
Qed.

Theorem exp_spec_b s prec :
  wfb s = true -> const0 s = true -> prec_ok prec = true ->
  exists r, series_exp s prec = Ok r /\ wf r /\ den r O == 1 /\
            eqn (N.to_nat prec - 1) (pD (den r)) (pD (den s) * den r)%ps.
Proof.
  intros W H Hp. apply exp_spec;
    [apply wfb_wf; exact W|apply const0_coef; assumption|apply prec_ok_lt; exact Hp].
Qed.

(* ------------------------------------------------------------------ roots *)
Theorem nthroot_spec_b s (np : positive) prec c :
  wfb s = true -> const0 s = false -> (2 <= Zpos np)%Z -> prec_ok prec = true ->
  qroot (find_cf s 0) np = Ok c ->
  exists r, series_nthroot s (Zpos np) prec = Ok r /\ wf r /\ den r O == c /\
            eqn (N.to_nat prec) (ppow_s (den r) (Pos.to_nat np)) (den s).
Proof.
  intros W H Hn Hp Hq. apply (nthroot_spec s np prec c);
    [apply wfb_wf; exact W|apply const0_false_coef; assumption|exact Hn|apply prec_ok_lt; exact Hp|exact Hq].
Qed.

Theorem nthroot_inv_spec_b s (np : positive) prec c :
  wfb s = true -> const0 s = false -> (2 <= Zpos np)%Z -> prec_ok prec = true ->
  qroot (find_cf s 0) np = Ok c -> qis0 c = false ->
  exists r, series_nthroot s (Zneg np) prec = Ok r /\ wf r /\ den r O == / c /\
            eqn (N.to_nat prec) (ppow_s (den r) (Pos.to_nat np) * den s)%ps p1.
Proof.
  intros W H Hn Hp Hq Hc. apply (nthroot_inv_spec s np prec c);
    [apply wfb_wf; exact W|apply const0_false_coef; assumption|exact Hn|apply prec_ok_lt; exact Hp|exact Hq
    |apply qis0_false; exact Hc].
Qed.

(* ------------------------------------------------------------------ Taylor coefficients *)
(* any formal power series y with y(0) = 1 and y' = s' y has the coefficients computed by
   series_exp below x^prec *)
Theorem exp_taylor s prec r (y : ps) :
  wfb s = true -> const0 s = true -> prec_ok prec = true ->
  series_exp s prec = Ok r ->
  y O == 1 -> pD y =p (pD (den s) * y)%ps ->
  eqn (N.to_nat prec) (den r) y.
Proof.
  intros W H Hp Er Y0 Yd.
  destruct (exp_spec_b s prec W H Hp) as (r' & Er' & _ & R0 & HR).
  rewrite Er in Er'. inversion Er'; subst r'.
  assert (Hlt := prec_ok_lt prec Hp).
  replace (N.to_nat prec) with (S (N.to_nat prec - 1)) by lia.
  apply (ode_unique (fun z => (pD (den s) * z)%ps)).
  - intros m a b Hab. apply eqn_mul; [reflexivity|exact Hab].
  - exact HR.
  - apply peq_eqn. exact Yd.
  - rewrite R0, Y0. reflexivity.
Qed.

(* any formal power series y with y(0) = 0 and y' s = s' (s(0) = 1) is log s *)
Theorem log_taylor s prec r (y : ps) :
  wfb s = true -> const1 s = true -> prec_ok prec = true ->
  series_log s prec = Ok r ->
  y O == 0 -> (pD y * den s)%ps =p pD (den s) ->
  eqn (N.to_nat prec) (den r) y.
Proof.
  intros W H Hp Er Y0 Yd.
  destruct (log_spec_b s prec W H Hp) as (r' & Er' & _ & R0 & HR).
  rewrite Er in Er'. inversion Er'; subst r'.
  assert (Hlt := prec_ok_lt prec Hp).
  replace (N.to_nat prec) with (S (N.to_nat prec - 1)) by lia.
  apply (lin_ode_unique _ (den s) (pD (den s))).
  - change (den s O) with (coef s 0). rewrite (const1_coef s W H). discriminate.
  - exact HR.
  - apply peq_eqn. exact Yd.
  - rewrite R0, Y0. reflexivity.
Qed.

(* y(0) = 0, y' (1 + s^2) = s'  characterises atan s *)
Theorem atan_taylor s prec r (y : ps) :
  wfb s = true -> const0 s = true -> prec_ok prec = true ->
  series_atan s prec = Ok r ->
  y O == 0 -> (pD y * (p1 + den s * den s))%ps =p pD (den s) ->
  eqn (N.to_nat prec) (den r) y.
Proof.
  intros W H Hp Er Y0 Yd.
  destruct (atan_spec_b s prec W H Hp) as (r' & Er' & _ & R0 & HR).
  rewrite Er in Er'. inversion Er'; subst r'.
  assert (Hlt := prec_ok_lt prec Hp).
  replace (N.to_nat prec) with (S (N.to_nat prec - 1)) by lia.
  apply (lin_ode_unique _ (p1 + den s * den s)%ps (pD (den s))).
  - unfold padd_s. rewrite pmul_coef0. change (den s O) with (coef s 0).
    rewrite (const0_coef s W H). change (p1 O) with 1. intro Hc. discriminate Hc.
  - exact HR.
  - apply peq_eqn. exact Yd.
  - rewrite R0, Y0. reflexivity.
Qed.

Theorem atanh_taylor s prec r (y : ps) :
  wfb s = true -> const0 s = true -> prec_ok prec = true ->
  series_atanh s prec = Ok r ->
  y O == 0 -> (pD y * (p1 - den s * den s))%ps =p pD (den s) ->
  eqn (N.to_nat prec) (den r) y.
Proof.
  intros W H Hp Er Y0 Yd.
  destruct (atanh_spec_b s prec W H Hp) as (r' & Er' & _ & R0 & HR).
  rewrite Er in Er'. inversion Er'; subst r'.
  assert (Hlt := prec_ok_lt prec Hp).
  replace (N.to_nat prec) with (S (N.to_nat prec - 1)) by lia.
  apply (lin_ode_unique _ (p1 - den s * den s)%ps (pD (den s))).
  - unfold psub_s. rewrite pmul_coef0. change (den s O) with (coef s 0).
    rewrite (const0_coef s W H). change (p1 O) with 1. intro Hc. discriminate Hc.
  - exact HR.
  - apply peq_eqn. exact Yd.
  - rewrite R0, Y0. reflexivity.
Qed.

(* ------------------------------------------------------------------ sinh / cosh *)
Theorem sinh_cosh_spec_b s prec :
  wfb s = true -> const0 s = true -> prec_ok prec = true ->
  exists rs rc, series_sinh s prec = Ok rs /\ series_cosh s prec = Ok rc /\
    wf rs /\ wf rc /\ den rs O == 0 /\ den rc O == 1 /\
    eqn (N.to_nat prec - 1) (pD (den rs)) (pD (den s) * den rc)%ps /\
    eqn (N.to_nat prec - 1) (pD (den rc)) (pD (den s) * den rs)%ps.
Proof.
  intros W H Hp. apply sinh_cosh_spec;
    [apply wfb_wf; exact W|apply const0_coef; assumption|apply prec_ok_lt; exact Hp].
Qed.

Theorem sinh_cosh_taylor s prec rs rc (ys yc : ps) :
  wfb s = true -> const0 s = true -> prec_ok prec = true ->
  series_sinh s prec = Ok rs -> series_cosh s prec = Ok rc ->
  ys O == 0 -> yc O == 1 ->
  pD ys =p (pD (den s) * yc)%ps -> pD yc =p (pD (den s) * ys)%ps ->
  eqn (N.to_nat prec) (den rs) ys /\ eqn (N.to_nat prec) (den rc) yc.
Proof.
  intros W H Hp Es Ec Ys0 Yc0 Yds Ydc.
  destruct (sinh_cosh_spec_b s prec W H Hp) as (rs' & rc' & Es' & Ec' & _ & _ & S0 & C0 & HS & HC).
  rewrite Es in Es'. inversion Es'; subst rs'. rewrite Ec in Ec'. inversion Ec'; subst rc'.
  assert (Hlt := prec_ok_lt prec Hp).
  replace (N.to_nat prec) with (S (N.to_nat prec - 1)) by lia.
  apply (ode_unique_pair (pD (den s)) 1).
  - exact HS.
  - rewrite HC. apply peq_eqn. intros k; unfold pscale; ring.
  - apply peq_eqn. exact Yds.
  - rewrite Ydc. apply peq_eqn. intros k; unfold pscale; ring.
  - rewrite S0, Ys0. reflexivity.
  - rewrite C0, Yc0. reflexivity.
Qed.

(* ------------------------------------------------------------------ sin / cos *)
Theorem sin_cos_spec_b s prec :
  wfb s = true -> const0 s = true -> prec_ok prec = true ->
  exists rs rc, series_sin s prec = Ok rs /\ series_cos s prec = Ok rc /\
    wf rs /\ wf rc /\ den rs O == 0 /\ den rc O == 1 /\
    eqn (N.to_nat prec - 1) (pD (den rs)) (pD (den s) * den rc)%ps /\
    eqn (N.to_nat prec - 1) (pD (den rc)) (- (pD (den s) * den rs))%ps.
Proof.
  intros W H Hp. apply sin_cos_spec;
    [apply wfb_wf; exact W|apply const0_coef; assumption|apply prec_ok_lt; exact Hp].
Qed.

Theorem sin_cos_taylor s prec rs rc (ys yc : ps) :
  wfb s = true -> const0 s = true -> prec_ok prec = true ->
  series_sin s prec = Ok rs -> series_cos s prec = Ok rc ->
  ys O == 0 -> yc O == 1 ->
  pD ys =p (pD (den s) * yc)%ps -> pD yc =p (- (pD (den s) * ys))%ps ->
  eqn (N.to_nat prec) (den rs) ys /\ eqn (N.to_nat prec) (den rc) yc.
Proof.
  intros W H Hp Es Ec Ys0 Yc0 Yds Ydc.
  destruct (sin_cos_spec_b s prec W H Hp) as (rs' & rc' & Es' & Ec' & _ & _ & S0 & C0 & HS & HC).
  rewrite Es in Es'. inversion Es'; subst rs'. rewrite Ec in Ec'. inversion Ec'; subst rc'.
  assert (Hlt := prec_ok_lt prec Hp).
  replace (N.to_nat prec) with (S (N.to_nat prec - 1)) by lia.
  apply (ode_unique_pair (pD (den s)) (-1 # 1)).
  - exact HS.
  - rewrite HC. apply peq_eqn. intros k; unfold pscale, popp; ring.
  - apply peq_eqn. exact Yds.
  - rewrite Ydc. apply peq_eqn. intros k; unfold pscale, popp; ring.
  - rewrite S0, Ys0. reflexivity.
  - rewrite C0, Yc0. reflexivity.
Qed.

(* ------------------------------------------------------------------ tan / tanh *)
Theorem tan_spec_b s prec :
  wfb s = true -> const0 s = true -> prec_ok prec = true ->
  exists r, series_tan s prec = Ok r /\ wf r /\ den r O == 0 /\
            eqn (N.to_nat prec - 1) (pD (den r)) (pD (den s) * (p1 + den r * den r))%ps.
Proof.
  intros W H Hp. apply tan_spec;
    [apply wfb_wf; exact W|apply const0_coef; assumption|apply prec_ok_lt; exact Hp].
Qed.

Theorem tanh_spec_b s prec :
  wfb s = true -> const0 s = true -> prec_ok prec = true ->
  exists r, series_tanh s prec = Ok r /\ wf r /\ den r O == 0 /\
            eqn (N.to_nat prec - 1) (pD (den r)) (pD (den s) * (p1 - den r * den r))%ps.
Proof.
  intros W H Hp. apply tanh_spec;
    [apply wfb_wf; exact W|apply const0_coef; assumption|apply prec_ok_lt; exact Hp].
Qed.

Theorem tan_taylor s prec r (y : ps) :
  wfb s = true -> const0 s = true -> prec_ok prec = true ->
  series_tan s prec = Ok r ->
  y O == 0 -> pD y =p (pD (den s) * (p1 + y * y))%ps ->
  eqn (N.to_nat prec) (den r) y.
Proof.
  intros W H Hp Er Y0 Yd.
  destruct (tan_spec_b s prec W H Hp) as (r' & Er' & _ & R0 & HR).
  rewrite Er in Er'. inversion Er'; subst r'.
  assert (Hlt := prec_ok_lt prec Hp).
  replace (N.to_nat prec) with (S (N.to_nat prec - 1)) by lia.
  apply (ode_unique (fun z => (pD (den s) * (p1 + z * z))%ps)).
  - intros m a b Hab. apply eqn_mul; [reflexivity|]. apply eqn_add; [reflexivity|].
    apply eqn_mul; exact Hab.
  - exact HR.
  - apply peq_eqn. exact Yd.
  - rewrite R0, Y0. reflexivity.
Qed.

Theorem tanh_taylor s prec r (y : ps) :
  wfb s = true -> const0 s = true -> prec_ok prec = true ->
  series_tanh s prec = Ok r ->
  y O == 0 -> pD y =p (pD (den s) * (p1 - y * y))%ps ->
  eqn (N.to_nat prec) (den r) y.
Proof.
  intros W H Hp Er Y0 Yd.
  destruct (tanh_spec_b s prec W H Hp) as (r' & Er' & _ & R0 & HR).
  rewrite Er in Er'. inversion Er'; subst r'.
  assert (Hlt := prec_ok_lt prec Hp).
  replace (N.to_nat prec) with (S (N.to_nat prec - 1)) by lia.
  apply (ode_unique (fun z => (pD (den s) * (p1 - z * z))%ps)).
  - intros m a b Hab. apply eqn_mul; [reflexivity|]. apply eqn_sub; [reflexivity|].
    apply eqn_mul; exact Hab.
  - exact HR.
  - apply peq_eqn. exact Yd.
  - rewrite R0, Y0. reflexivity.
Qed.

(* ------------------------------------------------------------------ asin / asinh *)
Definition prec_ok2 (prec : N) : bool := ((1 <? prec) && (prec <? 2147483648))%N.
Lemma prec_ok2_lt prec : prec_ok2 prec = true -> (1 < prec < 2147483648)%N.
Proof.
  unfold prec_ok2. intros H. apply andb_prop in H. destruct H as [H1 H2].
  apply N.ltb_lt in H1. apply N.ltb_lt in H2. lia.
Qed.

Theorem asin_spec_b s prec :
  wfb s = true -> const0 s = true -> prec_ok2 prec = true ->
  exists r (w : ps), series_asin s prec = Ok r /\ wf r /\ den r O == 0 /\ w O == 1 /\
    eqn (N.to_nat prec - 1) (w * w * (p1 - den s * den s))%ps p1 /\
    pD (den r) =p (pD (den s) * w)%ps.
Proof.
  intros W H Hp. apply asin_spec;
    [apply wfb_wf; exact W|apply const0_coef; assumption|apply prec_ok2_lt; exact Hp].
Qed.

Theorem asinh_spec_b s prec :
  wfb s = true -> const0 s = true -> prec_ok2 prec = true ->
  exists r (w : ps), series_asinh s prec = Ok r /\ wf r /\ den r O == 0 /\ w O == 1 /\
    eqn (N.to_nat prec - 1) (w * w * (p1 + den s * den s))%ps p1 /\
    pD (den r) =p (pD (den s) * w)%ps.
Proof.
  intros W H Hp. apply asinh_spec;
    [apply wfb_wf; exact W|apply const0_coef; assumption|apply prec_ok2_lt; exact Hp].
Qed.

(* y(0) = 0, y' = s' v with v the inverse square root of 1 -+ s^2 with v(0) = 1 *)
Lemma arc_taylor_aux s prec r (w y v t : ps) :
  (1 < prec < 2147483648)%N ->
  den r O == 0 -> w O == 1 -> y O == 0 -> v O == 1 -> ~ t O == 0 ->
  eqn (N.to_nat prec - 1) (w * w * t)%ps p1 -> (v * v * t)%ps =p p1 ->
  pD (den r) =p (pD (den s) * w)%ps -> pD y =p (pD (den s) * v)%ps ->
  eqn (N.to_nat prec) (den r) y.
Proof.
  intros Hp R0 W0 Y0 V0 T0 Hw Hv Dr Dy.
  replace (N.to_nat prec) with (S (N.to_nat prec - 1)) by lia.
  apply pD_eqn_S; [rewrite R0, Y0; reflexivity|].
  rewrite Dr, Dy. apply eqn_mul; [reflexivity|].
  apply (sqrt_unique _ w v t T0).
  - unfold padd_s. rewrite W0, V0. discriminate.
  - exact Hw.
  - apply peq_eqn. exact Hv.
Qed.

Theorem asin_taylor s prec r (y v : ps) :
  wfb s = true -> const0 s = true -> prec_ok2 prec = true ->
  series_asin s prec = Ok r ->
  y O == 0 -> v O == 1 -> (v * v * (p1 - den s * den s))%ps =p p1 ->
  pD y =p (pD (den s) * v)%ps ->
  eqn (N.to_nat prec) (den r) y.
Proof.
  intros W H Hp Er Y0 V0 Hv Dy.
  destruct (asin_spec_b s prec W H Hp) as (r' & w & Er' & _ & R0 & W0 & Hw & Dr).
  rewrite Er in Er'. inversion Er'; subst r'.
  apply (arc_taylor_aux s prec r w y v (p1 - den s * den s)%ps (prec_ok2_lt prec Hp) R0 W0 Y0 V0);
    try assumption.
  unfold psub_s. rewrite pmul_coef0. change (den s O) with (coef s 0).
  rewrite (const0_coef s W H). change (p1 O) with 1. intro Hc. discriminate Hc.
Qed.

Theorem asinh_taylor s prec r (y v : ps) :
  wfb s = true -> const0 s = true -> prec_ok2 prec = true ->
  series_asinh s prec = Ok r ->
  y O == 0 -> v O == 1 -> (v * v * (p1 + den s * den s))%ps =p p1 ->
  pD y =p (pD (den s) * v)%ps ->
  eqn (N.to_nat prec) (den r) y.
Proof.
  intros W H Hp Er Y0 V0 Hv Dy.
  destruct (asinh_spec_b s prec W H Hp) as (r' & w & Er' & _ & R0 & W0 & Hw & Dr).
  rewrite Er in Er'. inversion Er'; subst r'.
  apply (arc_taylor_aux s prec r w y v (p1 + den s * den s)%ps (prec_ok2_lt prec Hp) R0 W0 Y0 V0);
    try assumption.
  unfold padd_s. rewrite pmul_coef0. change (den s O) with (coef s 0).
  rewrite (const0_coef s W H). change (p1 O) with 1. intro Hc. discriminate Hc.
Qed.

(* ------------------------------------------------------------------ lambertw *)
Theorem lambertw_spec_b s prec :
  wfb s = true -> const0 s = true -> prec_ok prec = true ->
  exists r (E : ps), series_lambertw s prec = Ok r /\ wf r /\ den r O == 0 /\ E O == 1 /\
    eqn (N.to_nat prec - 1) (pD E) (pD (den r) * E)%ps /\
    eqn (N.to_nat prec) (den r * E)%ps (den s).
Proof.
  intros W H Hp.
  destruct (lambertw_spec s prec (wfb_wf s W) (const0_coef s W H) (prec_ok_lt prec Hp))
    as (r & Er & Wr & R0 & E & E0 & H1 & H2).
  exists r, E. split; [exact Er|]. split; [exact Wr|]. split; [exact R0|]. split; [exact E0|].
  split; [exact H1|exact H2].
Qed.

Theorem lambertw_taylor s prec r (y F : ps) :
  wfb s = true -> const0 s = true -> prec_ok prec = true ->
  series_lambertw s prec = Ok r ->
  y O == 0 -> F O == 1 -> pD F =p (pD y * F)%ps -> (y * F)%ps =p den s ->
  eqn (N.to_nat prec) (den r) y.
Proof.
  intros W H Hp Er Y0 F0 Fd Fm.
  destruct (lambertw_spec_b s prec W H Hp) as (r' & E & Er' & _ & R0 & E0 & H1 & H2).
  rewrite Er in Er'. inversion Er'; subst r'.
  apply (lambert_unique (N.to_nat prec) (den s) (den r) E y F R0 Y0 E0 F0 H1).
  - apply peq_eqn. exact Fd.
  - exact H2.
  - apply peq_eqn. exact Fm.
Qed.

(* ------------------------------------------------------------------ refutations *)
(* (1) series_invert does NOT respect congruence modulo x^prec when the lowest degree is
   positive: sin x is x - x^3/6 modulo x^5, yet x * (1/.) differs at x^4 (1/36 vs 7/360). *)
Definition sin5 : poly := [(1%Z, 1); (3%Z, -1 # 6)].
Definition sin7 : poly := [(1%Z, 1); (3%Z, -1 # 6); (5%Z, 1 # 120)].

Theorem invert_congruence_refuted :
  exists s t prec r r',
    wfb s = true /\ wfb t = true /\ eqn (N.to_nat prec) (den s) (den t) /\
    series_invert s prec = Ok r /\ series_invert t prec = Ok r' /\
    ~ eqn (N.to_nat prec) (den (pmul pvar r prec)) (den (pmul pvar r' prec)).
Proof.
  exists sin5, sin7, 5%N.
  eexists. eexists.
  split; [reflexivity|]. split; [reflexivity|].
  split.
  { intros k Hk. unfold den.
    do 5 (destruct k as [|k]; [vm_compute; reflexivity|]). simpl in Hk. lia. }
  split; [vm_compute; reflexivity|]. split; [vm_compute; reflexivity|].
  intros H. specialize (H 4%nat ltac:(simpl; lia)). vm_compute in H. discriminate H.
Qed.

(* (2) at the level of series(f, x, n): the expansion of x/sin(x) to order 5 is not the
   truncation of its expansion to order 7 *)
Definition x_over_sin : expr :=
  EMul (NInt 1) [(ESym name_x, ENum (NInt 1)); (EF1 TC_Sin (ESym name_x), ENum (NInt (-1)))].

Theorem series_truncation_refuted :
  exists e r5 r7, series_top e 5 = Ok r5 /\ series_top e 7 = Ok r7 /\
                  ~ coef r5 4 == coef r7 4.
Proof.
  exists x_over_sin. eexists. eexists.
  split; [vm_compute; reflexivity|]. split; [vm_compute; reflexivity|].
  vm_compute. discriminate.
Qed.
