From SE Require Import Assume.AssumeSem Assume.C34Theorems.
From Coq Require Import QArith List ZArith.
Import ListNotations.

(* unguarded since the repair 089e9a7 (nan and zoo used to answer true) *)
Theorem C34_nonpositive_sound : forall rho st A, assum_of st = Ok A -> osat rho st ->
  forall e t v, is_nonpositive A e = QT t -> denote rho e = Some v ->
  (t = TT -> v_nonpositive v) /\ (t = TF -> ~ v_nonpositive v).
Proof. exact nonpositive_final. Qed.
Print Assumptions C34_nonpositive_sound.
