From SE Require Import Assume.AssumeSem Assume.C34Theorems.
From Coq Require Import QArith List ZArith.
Import ListNotations.

Theorem C34_odd_sound : forall rho st A, assum_of st = Ok A -> osat rho st ->
  forall e half z h, keys_ok half = true -> is_odd_via A half = QT TT ->
  denote rho e = Some (VC z) -> denote rho half = Some (VC h) ->
  qi_eq (qi_add h h) (qi_add z (inject_Z 1, 0)) -> v_odd (VC z).
Proof. exact odd_final. Qed.
Print Assumptions C34_odd_sound.
