From SE Require Import Assume.AssumeSem Assume.C34Theorems.
From Coq Require Import QArith List ZArith.
Import ListNotations.

Theorem C34_real_false_refuted_add : exists st A rho e v,
  assum_of st = Ok A /\ osat rho st /\ e = e_add_two_nonreal /\ is_real A e = QT TF /\ denote rho e = Some v /\ v_real v.
Proof.
  destruct real_false_refuted_add as (st & A & rho & e & v & H).
  eexists st_real_x, _, (rho_const (-1 # 1, 0)), e_add_two_nonreal, _.
  split; [vm_compute; reflexivity|]. split; [exact (sat_real_x (-1 # 1))|]. split; [reflexivity|].
  split; [vm_compute; reflexivity|]. split; [cbn; reflexivity|].
  cbn [v_real]. unfold qi_real, Qeq. vm_compute. reflexivity.
Qed.
Print Assumptions C34_real_false_refuted_add.
