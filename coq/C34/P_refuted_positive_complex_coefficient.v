From SE Require Import Assume.AssumeSem Assume.C34Theorems.
From Coq Require Import QArith List ZArith.
Import ListNotations.

Theorem C34_positive_refuted : exists st A rho e v,
  assum_of st = Ok A /\ osat rho st /\ is_positive A e = QT TT /\ denote rho e = Some v /\ ~ v_positive v.
Proof. exact positive_refuted_complex_coefficient. Qed.
Print Assumptions C34_positive_refuted.
