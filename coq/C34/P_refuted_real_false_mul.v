From SE Require Import Assume.AssumeSem Assume.C34Theorems.
From Coq Require Import QArith List ZArith.
Import ListNotations.

Theorem C34_real_false_refuted_mul : exists st A rho e v,
  assum_of st = Ok A /\ osat rho st /\ is_real A e = QT TF /\ denote rho e = Some v /\ v_real v.
Proof. exact real_false_refuted_mul. Qed.
Print Assumptions C34_real_false_refuted_mul.
