From SE Require Import Assume.AssumeSem Assume.C34Theorems.
From Coq Require Import QArith List ZArith.
Import ListNotations.

(* is_even(e) = is_integer(e/2); [half] is the quotient built by the library *)
Theorem C34_even_sound : forall rho st A, assum_of st = Ok A -> osat rho st ->
  forall e half z h, keys_ok half = true -> is_even_via A half = QT TT ->
  denote rho e = Some (VC z) -> denote rho half = Some (VC h) -> qi_eq (qi_add h h) z -> v_even (VC z).
Proof. exact even_final. Qed.
Print Assumptions C34_even_sound.
