From SE Require Import Assume.AssumeSem Assume.C34Theorems.
From Coq Require Import QArith List ZArith.
Import ListNotations.

(* pos_guard e: every sum in e has at least one term (well-formedness of a dump).  Before the repair 7182169 a
   Complex coefficient had to be excluded as well (is_positive(x + 1 + I) = true for x > 0). *)
Theorem C34_positive_sound : forall rho st A, assum_of st = Ok A -> osat rho st ->
  forall e t v, pos_guard e = true -> is_positive A e = QT t -> denote rho e = Some v ->
  (t = TT -> v_positive v) /\ (t = TF -> ~ v_positive v).
Proof. exact positive_final. Qed.
Print Assumptions C34_positive_sound.
