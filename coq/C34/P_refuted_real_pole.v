From SE Require Import Assume.AssumeSem Assume.C34Theorems.
From Coq Require Import QArith List ZArith.
Import ListNotations.

Theorem C34_real_complex_refuted_pole : exists st A rho e,
  assum_of st = Ok A /\ osat rho st /\ is_real A e = QT TT /\ is_complex A e = QT TT /\
  denote rho e = Some VZoo /\ ~ v_real VZoo /\ ~ v_complex VZoo.
Proof. exact real_true_refuted_pole. Qed.
Print Assumptions C34_real_complex_refuted_pole.
