From SE Require Import Assume.AssumeSem Assume.C34Theorems.
From Coq Require Import QArith List ZArith.
Import ListNotations.

(* full statement (without the guard) is refuted: P_refuted_nonnegative_nan_zoo.v *)
Theorem C34_nonnegative_sound_guarded : forall rho st A, assum_of st = Ok A -> osat rho st ->
  forall e t v, sign_guard e = true -> is_nonnegative A e = QT t -> denote rho e = Some v ->
  (t = TT -> v_nonnegative v) /\ (t = TF -> ~ v_nonnegative v).
Proof. exact nonnegative_final_guarded. Qed.
Print Assumptions C34_nonnegative_sound_guarded.
