From SE Require Import Assume.AssumeSem Assume.C34Theorems.
From Coq Require Import QArith List ZArith.
Import ListNotations.

(* full statement (without the guard) is refuted: P_refuted_positive_complex_coefficient.v *)
Theorem C34_positive_sound_guarded : forall rho st A, assum_of st = Ok A -> osat rho st ->
  forall e t v, pos_guard e = true -> is_positive A e = QT t -> denote rho e = Some v ->
  (t = TT -> v_positive v) /\ (t = TF -> ~ v_positive v).
Proof. exact positive_final_guarded. Qed.
Print Assumptions C34_positive_sound_guarded.
