From SE Require Import Assume.AssumeSem Assume.C34Theorems.
From Coq Require Import QArith List ZArith.
Import ListNotations.

Theorem C34_nonzero_sound : forall rho st A, assum_of st = Ok A -> osat rho st ->
  forall e t v, is_nonzero A e = QT t -> denote rho e = Some v ->
  (t = TT -> ~ v_zero v) /\ (t = TF -> v_zero v).
Proof. exact nonzero_final. Qed.
Print Assumptions C34_nonzero_sound.
