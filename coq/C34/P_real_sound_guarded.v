From SE Require Import Assume.AssumeSem Assume.C34Theorems.
From Coq Require Import QArith List ZArith.
Import ListNotations.

(* true answers; the guard excludes the pole 0^negative (refuted without it: P_refuted_real_pole.v);
   the false answers are refuted (P_refuted_real_false_mul.v) *)
Theorem C34_real_sound_guarded : forall rho st A, assum_of st = Ok A -> osat rho st ->
  forall e v, keys_ok e = true -> is_real A e = QT TT -> denote rho e = Some v -> v <> VZoo -> v_real v.
Proof. exact real_final_guarded. Qed.
Print Assumptions C34_real_sound_guarded.
