From SE Require Import Assume.AssumeSem Assume.C34Theorems.
From Coq Require Import QArith List ZArith.
Import ListNotations.

Theorem C34_zero_sound : forall rho st A, assum_of st = Ok A -> osat rho st ->
  forall e t v, is_zero A e = QT t -> denote rho e = Some v ->
  (t = TT -> v_zero v) /\ (t = TF -> ~ v_zero v).
Proof. exact zero_final. Qed.
Print Assumptions C34_zero_sound.
