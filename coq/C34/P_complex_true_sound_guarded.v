From SE Require Import Assume.AssumeSem Assume.C34Theorems.
From Coq Require Import QArith List ZArith.
Import ListNotations.

Theorem C34_complex_true_sound_guarded : forall rho st A, assum_of st = Ok A -> osat rho st ->
  forall e v, is_complex A e = QT TT -> denote rho e = Some v -> v <> VZoo -> v_complex v.
Proof. intros rho st A _ _. exact (complex_true_final_guarded rho A). Qed.
Print Assumptions C34_complex_true_sound_guarded.
