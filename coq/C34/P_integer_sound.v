From SE Require Import Assume.AssumeSem Assume.C34Theorems.
From Coq Require Import QArith List ZArith.
Import ListNotations.

Theorem C34_integer_sound : forall rho st A, assum_of st = Ok A -> osat rho st ->
  forall e t v, keys_ok e = true -> is_integer A e = QT t -> denote rho e = Some v ->
  (t = TT -> v_integer v) /\ (t = TF -> ~ v_integer v).
Proof. exact integer_final. Qed.
Print Assumptions C34_integer_sound.
