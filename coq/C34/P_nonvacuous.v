From SE Require Import Assume.AssumeSem Assume.C34Theorems.
From Coq Require Import QArith List ZArith.
Import ListNotations.

(* the hypotheses of the theorems are satisfiable on a non-trivial input:
   2*x - y + 3 under x > 0, y < 0, at x = 1/2, y = -3; the query answers true, the value is 7 *)
Example C34_nonvacuous_positive :
  exists A, assum_of st_xy = Ok A /\ pos_guard e_lin = true /\ keys_ok e_lin = true /\
            is_positive A e_lin = QT TT /\ is_real A e_lin = QT TT /\ is_integer A e_lin = QT TI /\
            denote rho_xy e_lin = Some (VC (qi_add (qi_mul (inject_Z 2, 0) (1 # 2, 0))
                                                (qi_add (qi_mul (inject_Z (-1), 0) (-3 # 1, 0)) (inject_Z 3, 0)))).
Proof. eexists. repeat split; vm_compute; reflexivity. Qed.
Example C34_nonvacuous_sat : osat rho_xy st_xy.
Proof.
  constructor; [|constructor; [|constructor]]; cbn; (split; [reflexivity|]); unfold Qlt; cbn; lia.
Qed.
(* an inconsistent statement set is rejected by the constructor *)
Example C34_nonvacuous_inconsistent :
  assum_of (Some [EF2 TC_StrictLessThan (ENum (NInt 0)) sx; EF2 TC_StrictLessThan sx (ENum (NInt 0))]) = ErrExn EXN_SYMENGINE.
Proof. vm_compute. reflexivity. Qed.
(* the former counterexamples of the repaired rules now get sound answers *)
Example C34_repaired_rules :
  is_nonnegative None (ENum NNaN) = QT TF /\ is_nonpositive None (ENum NNaN) = QT TF /\
  is_nonnegative None (ENum (NInf 0)) = QT TF /\ is_nonpositive None (ENum (NInf 0)) = QT TF /\
  (exists A, assum_of st_pos_x = Ok A /\ is_positive A e_pos_cplx = QT TI) /\
  (exists A, assum_of st_real_x = Ok A /\ is_real A e_add_two_nonreal = QT TI).
Proof. exact repaired_rules. Qed.
