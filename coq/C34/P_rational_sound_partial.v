From SE Require Import Assume.AssumeSem Assume.AssumeProofs3.
From Coq Require Import QArith List ZArith.
Import ListNotations.

(* is_rational takes no assumptions.  Full statement (not proved):
     forall e t v, is_rational e = QT t -> denote rho e = Some v -> (t = TT -> v_rational v) /\ (t = TF -> ~ v_rational v).
   Proved part: true answers for every expression that is not a sum (RationalVisitor::bvisit(Add) returns the
   answer of the LAST visited term, the accumulated conjunction is never used), false answers for literals.
   Missing: sums; the false answers for pi, E, GoldenRatio (irrational constants have no value in Q(i)). *)
Theorem C34_rational_sound_partial : forall rho,
  (forall e v, (forall c d, e <> EAdd c d) -> is_rational e = QT TT -> denote rho e = Some v -> v_rational v) /\
  (forall n v, is_rational (ENum n) = QT TF -> denote rho (ENum n) = Some v -> ~ v_rational v).
Proof.
  intro rho. split.
  - exact (rational_true_sound rho).
  - exact (rational_false_sound_literal rho).
Qed.
Print Assumptions C34_rational_sound_partial.
