From SE Require Import Assume.AssumeSem Assume.C34Theorems.
From Coq Require Import QArith List ZArith.
Import ListNotations.

Theorem C34_negative_sound : forall rho st A, assum_of st = Ok A -> osat rho st ->
  forall e t v, is_negative A e = QT t -> denote rho e = Some v ->
  (t = TT -> v_negative v) /\ (t = TF -> ~ v_negative v).
Proof. exact negative_final. Qed.
Print Assumptions C34_negative_sound.
