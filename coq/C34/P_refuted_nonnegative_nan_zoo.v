From SE Require Import Assume.AssumeSem Assume.C34Theorems.
From Coq Require Import QArith List ZArith.
Import ListNotations.

Theorem C34_nonnegative_nonpositive_refuted : 
  (exists e v, is_nonnegative None e = QT TT /\ is_nonpositive None e = QT TT /\
     (forall rho, denote rho e = Some v) /\ ~ v_nonnegative v /\ ~ v_nonpositive v) /\
  (exists e v, e <> ENum NNaN /\ is_nonnegative None e = QT TT /\ is_nonpositive None e = QT TT /\
     (forall rho, denote rho e = Some v) /\ ~ v_nonnegative v /\ ~ v_nonpositive v).
Proof.
  split; [exact nonnegative_refuted_nan|].
  destruct nonnegative_refuted_zoo as (e & v & H). exists (ENum (NInf 0)), VZoo.
  repeat split; try reflexivity; try discriminate; intro K; exact K.
Qed.
Print Assumptions C34_nonnegative_nonpositive_refuted.
