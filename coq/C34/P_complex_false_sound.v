From SE Require Import Assume.AssumeSem Assume.C34Theorems.
From Coq Require Import QArith List ZArith.
Import ListNotations.

Theorem C34_complex_false_sound : forall rho st A, assum_of st = Ok A -> osat rho st ->
  forall e v, keys_ok e = true -> is_complex A e = QT TF -> denote rho e = Some v -> ~ v_complex v.
Proof. intros rho st A _ _. exact (complex_false_final rho A). Qed.
Print Assumptions C34_complex_false_sound.
