From SE Require Import Assume.AssumeSem Assume.C34Theorems.
From Coq Require Import QArith List ZArith.
Import ListNotations.

Theorem C34_finite_sound : forall rho st A, assum_of st = Ok A -> osat rho st ->
  forall e t v, is_finite A e = QT t -> denote rho e = Some v ->
  (t = TT -> v_finite v) /\ (t = TF -> v_infinite v).
Proof. exact finite_final. Qed.
Print Assumptions C34_finite_sound.
