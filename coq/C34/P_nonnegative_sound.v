From SE Require Import Assume.AssumeSem Assume.C34Theorems.
From Coq Require Import QArith List ZArith.
Import ListNotations.

(* unguarded since the repair 089e9a7 (nan and zoo used to answer true) *)
Theorem C34_nonnegative_sound : forall rho st A, assum_of st = Ok A -> osat rho st ->
  forall e t v, is_nonnegative A e = QT t -> denote rho e = Some v ->
  (t = TT -> v_nonnegative v) /\ (t = TF -> ~ v_nonnegative v).
Proof. exact nonnegative_final. Qed.
Print Assumptions C34_nonnegative_sound.
