From SE Require Import Assume.AssumeSem Assume.C34Theorems.
From Coq Require Import QArith List ZArith.
Import ListNotations.

(* the facts the Assumptions constructor records hold at every valuation that satisfies the statements *)
Theorem C34_assumptions_sound : forall (rho : valuation) (st : option (list expr)) (A : option assum),
  assum_of st = Ok A -> osat rho st -> oassum_ok rho A.
Proof. exact assum_of_ok. Qed.
Print Assumptions C34_assumptions_sound.
