(* C07 obligation: the value of mul(a, b) is the value of a times the value of b, in Q(i), under every valuation
   that keeps the bases carrying negative exponents away from zero ([mul_dfn]: every exponent of the operand is an
   integer literal and x^(-n) only occurs for x <> 0) -- operands of the power-product fragment of any size, any
   fuel for which the call returns; the result is again defined (so the statement iterates). *)
From SE Require Import Expr.DenoteMul Num.NumSpec.
Theorem C07_mul_sound :
  forall (rho rhoc : list N -> qi) (fuel : nat) (a b r : expr),
  mul_operand_ok a = true -> mul_operand_ok b = true ->
  mul_dfn rho rhoc a = true -> mul_dfn rho rhoc b = true -> e_mul fuel a b = Ok r ->
  qi_eq (denote rho rhoc r) (qi_mul (denote rho rhoc a) (denote rho rhoc b)) /\ mul_dfn rho rhoc r = true.
Proof. exact mul_sound. Qed.
Print Assumptions C07_mul_sound.
