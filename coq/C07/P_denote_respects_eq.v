(* C07 obligation: expressions the library considers eq have the same value under every valuation
   (so the value of a dictionary does not depend on which of two eq keys is stored). *)
From SE Require Import Expr.Denote Num.NumSpec.
Theorem C07_denote_respects_eq :
  forall (rho rhoc : list N -> qi) (a b : expr), wf a = true -> wf b = true -> expr_eqb a b = true ->
  qi_eq (denote rho rhoc a) (denote rho rhoc b).
Proof. exact denote_respects. Qed.
Print Assumptions C07_denote_respects_eq.
