(* C07 obligation: neg(a) = mul(-1, a) has the value -a. *)
From SE Require Import Expr.DenoteMul Num.NumSpec.
Theorem C07_neg_sound :
  forall (rho rhoc : list N -> qi) (fuel : nat) (a r : expr),
  mul_operand_ok a = true -> mul_dfn rho rhoc a = true -> e_neg fuel a = Ok r ->
  qi_eq (denote rho rhoc r) (qi_opp (denote rho rhoc a)).
Proof. exact neg_sound. Qed.
Print Assumptions C07_neg_sound.
