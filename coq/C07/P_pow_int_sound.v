(* C07 obligation: pow(a, n) for an Integer n has the value (value of a)^n in Q(i) -- numbers, atoms, integer powers of
   atoms ((b**z)**n = b**(z*n)) and products (the exponent is distributed over coefficient and factors) -- under every
   valuation for which the operand and the result's exponents are defined ([mul_dfn], [pow_dfn_ok]). *)
From SE Require Import Expr.DenotePow Num.NumSpec.
Theorem C07_pow_int_sound :
  forall (rho rhoc : list N -> qi) (fuel : nat) (a : expr) (n : Z) (r : expr),
  pow_operand_ok a n = true -> mul_dfn rho rhoc a = true -> pow_dfn_ok rho rhoc a n = true ->
  e_pow fuel a (ENum (NInt n)) = Ok r ->
  qi_eq (denote rho rhoc r) (qi_powz (denote rho rhoc a) n) /\ mul_dfn rho rhoc r = true.
Proof. exact pow_int_sound. Qed.
Print Assumptions C07_pow_int_sound.
