(* C07 obligation: the value of add(a, b) is the value of a plus the value of b, in Q(i) (pairs of rationals up
   to Qeq), under EVERY valuation of the symbols and constants -- operands of the exact fragment of any size.
   ([denote]: exact numbers, symbols, constants, Add, Mul and Pow with integer-literal exponents; everything
   else has the junk value 0 on both sides.) *)
From SE Require Import Expr.Denote Num.NumSpec.
Theorem C07_add_sound :
  forall (rho rhoc : list N -> qi) (a b r : expr),
  add_operand_ok a = true -> add_operand_ok b = true -> e_add a b = Ok r ->
  qi_eq (denote rho rhoc r) (qi_add (denote rho rhoc a) (denote rho rhoc b)).
Proof. exact add_sound. Qed.
Print Assumptions C07_add_sound.
