(* C07 obligation: div(a, b) = mul(a, pow(b, -1)) has the value  a * (1/b)  whenever b's value and the values of the
   bases carrying negative exponents are non-zero. *)
From SE Require Import Expr.DenotePow Num.NumSpec.
Theorem C07_div_sound :
  forall (rho rhoc : list N -> qi) (fuel : nat) (a b r : expr),
  mul_operand_ok a = true -> pow_operand_ok b (-1) = true ->
  mul_dfn rho rhoc a = true -> mul_dfn rho rhoc b = true -> pow_dfn_ok rho rhoc b (-1) = true ->
  e_div fuel a b = Ok r ->
  qi_eq (denote rho rhoc r) (qi_mul (denote rho rhoc a) (qi_inv (denote rho rhoc b))) /\ mul_dfn rho rhoc r = true.
Proof. exact div_sound. Qed.
Print Assumptions C07_div_sound.
