(* C07: the hypotheses are satisfiable with non-trivial operands and valuations, and the equations are not
   trivially 0 = 0:  (3/2*x^2*y^-1) * (I*x^-3*y)  at x = 2/3, y = 1/2 - I. *)
From SE Require Import Expr.DenotePow Num.NumSpec.
From Coq Require Import QArith.
Local Open Scope Z_scope.
Definition vx := ESym [120%N]. Definition vy := ESym [121%N].
Definition rho (nm : list N) : qi := match nm with [120%N] => (Qmake 2 3, 0%Q) | _ => (Qmake 1 2, Qmake (-1) 1) end.
Definition rhoc (nm : list N) : qi := (Qmake 3 1, 0%Q).
Definition p1 := EMul (NRat 3 2) [(vx, e_int 2); (vy, e_int (-1))].
Definition p2 := EMul (NCplx 0 1 1 1) [(vx, e_int (-3)); (vy, e_int 1)].
Definition qi_eqb (u v : qi) : bool := Qeq_bool (fst u) (fst v) && Qeq_bool (snd u) (snd v).
Example C07_hypotheses_hold :
  mul_operand_ok p1 = true /\ mul_operand_ok p2 = true /\ mul_dfn rho rhoc p1 = true /\ mul_dfn rho rhoc p2 = true /\
  add_operand_ok p1 = true /\ add_operand_ok p2 = true.
Proof. vm_compute. repeat split; reflexivity. Qed.
Example C07_values_nontrivial :
  match e_mul 5 p1 p2, e_add p1 p2 with
  | Ok m, Ok s =>
      qi_eqb (denote rho rhoc m) (qi_mul (denote rho rhoc p1) (denote rho rhoc p2))
      && qi_eqb (denote rho rhoc s) (qi_add (denote rho rhoc p1) (denote rho rhoc p2))
      && negb (qi_eqb (denote rho rhoc m) qi_zero) && negb (qi_eqb (denote rho rhoc s) qi_zero)
  | _, _ => false
  end = true.
Proof. vm_compute. reflexivity. Qed.
(* pow and div: ((3/2)*x^2*y^-1)^-3 and p1 / p2 at the same point *)
Example C07_pow_div_hypotheses_hold :
  pow_operand_ok p1 (-3) = true /\ pow_dfn_ok rho rhoc p1 (-3) = true /\
  pow_operand_ok p2 (-1) = true /\ pow_dfn_ok rho rhoc p2 (-1) = true.
Proof. vm_compute. repeat split; reflexivity. Qed.
Example C07_pow_div_values_nontrivial :
  match e_pow 6 p1 (ENum (NInt (-3))), e_div 6 p1 p2 with
  | Ok pw, Ok dv =>
      qi_eqb (denote rho rhoc pw) (qi_powz (denote rho rhoc p1) (-3))
      && qi_eqb (denote rho rhoc dv) (qi_mul (denote rho rhoc p1) (qi_inv (denote rho rhoc p2)))
      && negb (qi_eqb (denote rho rhoc pw) qi_zero) && negb (qi_eqb (denote rho rhoc dv) qi_zero)
  | _, _ => false
  end = true.
Proof. vm_compute. reflexivity. Qed.
