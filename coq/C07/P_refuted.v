(* C07 refutation (model-level witness, replayed on the library by checks/C07.py): the product
   2.0**x * 2.0**(3 - x) does not return a value -- Mul::dict_add_term_new down-casts the non-numeric exponent
   of the incoming factor to Number (undefined behaviour, SIGSEGV on the library; DESIGN row 7). *)
From SE Require Import Expr.Arith.
Local Open Scope Z_scope.
Definition two_dbl := ENum (NDbl 4611686018427387904%N).
Definition sx := ESym [120%N].
Theorem C07_inexact_base_crash_refuted :
  api_run OMul [EPow two_dbl sx; EPow two_dbl (EAdd (NInt 3) [(sx, NInt (-1))])] = ErrExn EXN_SIGSEGV.
Proof. vm_compute. reflexivity. Qed.
