(* C09 obligation: expand preserves the value.  For every expression e (any size, deep or shallow expansion) that
   the guarded run of the visitor accepts ([expand_guard]: e is well formed and every library call made while
   expanding it -- mul, pow, Mul::from_dict, Add::from_dict, Add::dict_add_term, the Number operations -- satisfies
   the boolean precondition of the theorem about that call), the model's expand(e) returns a well-formed value r,
   and r and e denote the same number of Q(i) under EVERY valuation of the symbols and constants.
   Covered by the guard: sums, products (mul_expand_two in all its shapes) and squares (square_expand) of sums with
   exact coefficients over symbols, constants, function applications and other atoms with positive integer
   exponents, nested to any depth.
   PARTIAL with respect to the design's `expand_sound`: the guard rejects negative powers of sums (Add::div) and
   powers n >= 3 of sums (pow_expand; the multinomial table is proved only on a finite universe, P_multinomial.v,
   and the multinomial theorem over the table is not done); there the tie is the correspondence and the driver's
   exact evaluation oracle. *)
From SE Require Import C09.ExpandGuardedOps C09.ExpandSound3 Num.NumSpec Expr.Denote.
Theorem C09_expand_sound_guarded :
  forall (deep : bool) (e : expr), expand_guard deep e = true ->
  exists r, expand deep e = Ok r /\ wf r = true /\
    forall rho rhoc : list N -> qi, qi_eq (denote rho rhoc r) (denote rho rhoc e).
Proof. exact expand_sound_guarded. Qed.
Print Assumptions C09_expand_sound_guarded.
