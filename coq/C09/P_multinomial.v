(* C09 obligation: the table computed by multinomial_coefficients_mpz (pow.cpp, transcribed with its unsigned
   loop variables and std::map) IS the table { k : |k| = n, length k = m } -> n!/(k_1! ... k_m!), entry for entry
   and in the same (lexicographic) order.
   PARTIAL: proved on the finite universe 2 <= m <= 6, n <= 8, every case computed completely by Coq's kernel;
   the loop-invariant proof for all m, n < 2^32 is not done (full statement: the same equation for all such m, n).
   For m < 2 the function throws, as in the C++. *)
From SE Require Import C09.ExpandModel C09.MultinomialSpec C09.MultinomialProofs.
Theorem C09_multinomial_correct_small :
  (forall m n : N, (2 <= m <= 6)%N -> (n <= 8)%N ->
     multinomial_coefficients m n = Ok (multinomial_table (N.to_nat m) (N.to_nat n))) /\
  (forall m n : N, (m < 2)%N -> multinomial_coefficients m n = ErrExn EXN_SYMENGINE).
Proof. split; [exact multinomial_correct_small | exact multinomial_small_m]. Qed.
Print Assumptions C09_multinomial_correct_small.
