(* C09 -- the expand visitor is monotone in its library calls: when every call of O1 that returns a value
   returns the same value under O2, so does the visitor.  Instance: the guarded calls of
   C09/ExpandGuardedOps.v against the real ones ([expand_g_refines]). *)
From SE Require Import C09.ExpandGuardedOps.
Local Open Scope res_scope.

Definition refines {A : Type} (a b : res A) : Prop := forall r, a = Ok r -> b = Ok r.

Lemma refines_refl : forall A (a : res A), refines a a.
Proof. intros A a r H. exact H. Qed.
Lemma refines_err : forall A c (b : res A), refines (ErrExn c) b.
Proof. intros A c b r H. discriminate H. Qed.
Lemma refines_guard : forall A b (r : res A), refines (guard b r) r.
Proof. intros A b r x H. unfold guard in H. destruct b; [exact H | discriminate H]. Qed.
Lemma refines_bind : forall A B (a b : res A) (k1 k2 : A -> res B),
  refines a b -> (forall x, refines (k1 x) (k2 x)) -> refines (bind a k1) (bind b k2).
Proof.
  intros A B a b k1 k2 H K r E. destruct a as [x| | |]; cbn in E; try discriminate E.
  rewrite (H x eq_refl). cbn. apply K. exact E.
Qed.
Lemma refines_fold : forall A B (F1 F2 : A -> B -> res A) l,
  (forall s p, refines (F1 s p) (F2 s p)) -> forall s, refines (fold_res F1 l s) (fold_res F2 l s).
Proof.
  intros A B F1 F2 l H. induction l as [|p l IH]; intros s; cbn [fold_res]; [apply refines_refl|].
  apply refines_bind; [apply H | exact IH].
Qed.

Record ops_le (O1 O2 : xops) : Prop := {
  le_mul : forall a b, refines (o_mul O1 a b) (o_mul O2 a b);
  le_pow : forall a b, refines (o_pow O1 a b) (o_pow O2 a b);
  le_div : forall a b, refines (o_div O1 a b) (o_div O2 a b);
  le_datn : forall s a b, refines (o_datn O1 s a b) (o_datn O2 s a b);
  le_mdat : forall d a b, refines (o_mdat O1 d a b) (o_mdat O2 d a b);
  le_mfd : forall c d, refines (o_mfd O1 c d) (o_mfd O2 c d);
  le_afd : forall c d, refines (o_afd O1 c d) (o_afd O2 c d);
  le_mulnum : forall x y, refines (o_mulnum O1 x y) (o_mulnum O2 x y);
  le_nummul : forall x y, refines (o_nummul O1 x y) (o_nummul O2 x y);
  le_numpow : forall x y, refines (o_numpow O1 x y) (o_numpow O2 x y);
  le_intpow : forall x y, refines (o_intpow O1 x y) (o_intpow O2 x y);
  le_addnum : forall x y, refines (o_addnum O1 x y) (o_addnum O2 x y);
  le_dat : forall d c t, refines (o_dat O1 d c t) (o_dat O2 d c t);
  le_multinomial : forall m n, refines (o_multinomial O1 m n) (o_multinomial O2 m n)
}.

Section Mono.
  Variables O1 O2 : xops.
  Hypothesis LE : ops_le O1 O2.

  Ltac rb := apply refines_bind; [|intros ?].
  Ltac op := first [ apply (le_mul _ _ LE) | apply (le_pow _ _ LE) | apply (le_div _ _ LE) | apply (le_datn _ _ LE)
                   | apply (le_mdat _ _ LE) | apply (le_mfd _ _ LE) | apply (le_afd _ _ LE) | apply (le_mulnum _ _ LE)
                   | apply (le_nummul _ _ LE) | apply (le_numpow _ _ LE) | apply (le_intpow _ _ LE)
                   | apply (le_addnum _ _ LE) | apply (le_dat _ _ LE) | apply (le_multinomial _ _ LE)
                   | apply refines_refl ].

  Lemma x_addnum_le : forall st v1 v2, refines v1 v2 -> refines (x_addnum O1 st v1) (x_addnum O2 st v2).
  Proof. intros st v1 v2 H. unfold x_addnum. rb; [exact H|]. rb; op. Qed.
  Lemma x_dat_le : forall st c1 c2 t, refines c1 c2 -> refines (x_dat O1 st c1 t) (x_dat O2 st c2 t).
  Proof. intros st c1 c2 t H. unfold x_dat. rb; [exact H|]. rb; op. Qed.

  Lemma x_cdat_le : forall st c term, refines (x_cdat O1 st c term) (x_cdat O2 st c term).
  Proof.
    intros st c term. unfold x_cdat. destruct term; try (apply x_dat_le; op).
    - apply x_addnum_le; op.
    - rb; [|apply x_addnum_le; op]. apply refines_fold. intros s q. apply x_dat_le; op.
  Qed.

  Lemma x_add_product_le : forall fl st cn1 cn2 cd1 cd2 term, refines cn1 cn2 -> refines cd1 cd2 ->
    refines (x_add_product O1 fl st cn1 cd1 term) (x_add_product O2 fl st cn2 cd2 term).
  Proof.
    intros fl st cn1 cn2 cd1 cd2 term Hn Hd. unfold x_add_product.
    assert (PL : refines (if fl then do c <- cd1; x_cdat O1 st c term else x_dat O1 st cd1 term)
                         (if fl then do c <- cd2; x_cdat O2 st c term else x_dat O2 st cd2 term)).
    { destruct fl; [apply refines_bind; [exact Hd | intros ?; apply x_cdat_le] | apply x_dat_le; exact Hd]. }
    destruct term; try exact PL.
    - apply x_addnum_le. rb; [exact Hn | op].
    - destruct (negb (num_is_one coef)); [|exact PL].
      rb; [op|]. apply x_dat_le. rb; [exact Hn | op].
  Qed.

  Lemma x_mul_add_add_le : forall fl st m ca da cb db,
    refines (x_mul_add_add O1 fl st m ca da cb db) (x_mul_add_add O2 fl st m ca da cb db).
  Proof.
    intros. unfold x_mul_add_add.
    rb; [apply x_addnum_le; rb; op|].
    rb.
    - apply refines_fold. intros s p. rb; [op|]. rb; [|apply x_dat_le; op].
      apply refines_fold. intros s' q. rb; [op|]. apply x_add_product_le; op.
    - rb; [op|]. apply refines_fold. intros s q. apply x_dat_le; op.
  Qed.

  Lemma x_mul_other_add_le : forall fl st m a cb db,
    refines (x_mul_other_add O1 fl st m a cb db) (x_mul_other_add O2 fl st m a cb db).
  Proof.
    intros. unfold x_mul_other_add. rb; [op|]. rb.
    - apply refines_fold. intros s q. rb; [op|]. apply x_add_product_le; op.
    - destruct (expr_eqb (snd (as_coef_term a)) e_one); [apply x_addnum_le | apply x_dat_le]; op.
  Qed.

  Lemma x_mul_expand_two_le : forall fl st m a b,
    refines (x_mul_expand_two O1 fl st m a b) (x_mul_expand_two O2 fl st m a b).
  Proof.
    intros. unfold x_mul_expand_two.
    destruct a; destruct b;
      first [ apply x_mul_add_add_le | apply x_mul_other_add_le | (rb; [op | apply x_cdat_le]) ].
  Qed.

  Lemma x_square_le : forall bd st m, refines (x_square O1 st m bd) (x_square O2 st m bd).
  Proof.
    induction bd as [|p rest IH]; intros st m; cbn [x_square]; [apply refines_refl|].
    rb; [op|]. rb; [rb; op|]. rb; [apply x_cdat_le|]. rb; [|apply IH].
    apply refines_fold. intros s q. rb; [op|]. rb; [rb; [op|]; rb; op|]. apply x_cdat_le.
  Qed.

  Lemma x_pow_factor_le : forall st pw base value,
    refines (x_pow_factor O1 st pw base value) (x_pow_factor O2 st pw base value).
  Proof.
    intros. unfold x_pow_factor. rb.
    - assert (G : forall b, refines
          (do tmp <- o_pow O1 b (e_int (Z.of_N pw));
           match tmp with
           | EMul tc td => do s <- fold_res (fun s p => o_datn O1 s (snd p) (fst p)) td st;
                           do c <- o_mulnum O1 (fst s) tc; Ok (c, snd s)
           | ENum tn => do c <- o_mulnum O1 (fst st) tn; Ok (c, snd st)
           | _ => do et <- as_base_exp tmp; o_datn O1 st (fst et) (snd et)
           end)
          (do tmp <- o_pow O2 b (e_int (Z.of_N pw));
           match tmp with
           | EMul tc td => do s <- fold_res (fun s p => o_datn O2 s (snd p) (fst p)) td st;
                           do c <- o_mulnum O2 (fst s) tc; Ok (c, snd s)
           | ENum tn => do c <- o_mulnum O2 (fst st) tn; Ok (c, snd st)
           | _ => do et <- as_base_exp tmp; o_datn O2 st (fst et) (snd et)
           end)).
      { intros b. rb; [op|]. destruct x; try (rb; op).
        rb; [apply refines_fold; intros; op|]. rb; op. }
      destruct base; try apply G.
      + destruct n; try apply G. rb; [op|]. rb; op.
      + rb; op.
    - destruct (negb (num_is_one value)); [|apply refines_refl]. rb; [op|]. rb; op.
  Qed.

  Lemma x_pow_factors_le : forall pws bd st, refines (x_pow_factors O1 st pws bd) (x_pow_factors O2 st pws bd).
  Proof.
    induction pws as [|pw ps IH]; intros bd st; destruct bd as [|[base value] rest]; cbn [x_pow_factors];
      try apply refines_refl.
    rb; [|apply IH]. destruct (0 <? pw)%N; [apply x_pow_factor_le | apply refines_refl].
  Qed.

  Lemma x_pow_expand_le : forall st m bd n, refines (x_pow_expand O1 st m bd n) (x_pow_expand O2 st m bd n).
  Proof.
    intros. unfold x_pow_expand. rb; [op|]. apply refines_fold. intros s pc.
    rb; [apply x_pow_factors_le|]. rb; [op|].
    destruct x1; try (apply x_dat_le; op).
    - apply x_addnum_le. rb; op.
    - destruct (negb (num_is_one coef)); [|apply x_dat_le; op]. rb; [op|]. apply x_dat_le. rb; op.
  Qed.

  Lemma xvisit_le : forall f1 f2 deep st m e, (f1 <= f2)%nat ->
    refines (xvisit O1 f1 deep st m e) (xvisit O2 f2 deep st m e).
  Proof.
    induction f1 as [|f IH]; intros f2 deep st m e L; [intros r H; discriminate H|].
    destruct f2 as [|g]; [inversion L|]. apply le_S_n in L. cbn [xvisit].
    assert (ER : forall e', refines (do s <- xvisit O1 f deep (NInt 0, []) (NInt 1) e'; o_afd O1 (fst s) (snd s))
                                    (do s <- xvisit O2 g deep (NInt 0, []) (NInt 1) e'; o_afd O2 (fst s) (snd s))).
    { intros e'. rb; [apply IH; exact L | op]. }
    assert (EI : forall e', refines (if deep then do s <- xvisit O1 f deep (NInt 0, []) (NInt 1) e'; o_afd O1 (fst s) (snd s) else Ok e')
                                    (if deep then do s <- xvisit O2 g deep (NInt 0, []) (NInt 1) e'; o_afd O2 (fst s) (snd s) else Ok e')).
    { intros e'. destruct deep; [apply ER | apply refines_refl]. }
    destruct e; try (apply x_dat_le; apply refines_refl).
    - apply x_addnum_le; op.
    - rb; [apply x_addnum_le; op|]. apply refines_fold. intros s p. rb; [op|].
      destruct deep; [apply IH; exact L | apply x_dat_le; apply refines_refl].
    - destruct (forallb _ d); [apply x_cdat_le|]. destruct d as [|[k v] d']; [apply x_cdat_le|].
      rb; [op|]. rb; [op|]. rb; [apply EI|]. rb; [apply EI|]. apply x_mul_expand_two_le.
    - rb; [apply EI|].
      assert (G : refines
         (if negb (expr_eqb x e1) then do p <- o_pow O1 x e2; x_cdat O1 st m p else x_dat O1 st (Ok m) (EPow e1 e2))
         (if negb (expr_eqb x e1) then do p <- o_pow O2 x e2; x_cdat O2 st m p else x_dat O2 st (Ok m) (EPow e1 e2))).
      { destruct (negb (expr_eqb x e1)); [rb; [op | apply x_cdat_le] | apply x_dat_le; apply refines_refl]. }
      destruct e2; try exact G. destruct n; try exact G. destruct x; try exact G.
      destruct (z <? 0)%Z.
      + rb; [op|]. rb; [apply EI|]. rb; [op|]. apply x_cdat_le.
      + destruct (TWO32 <=? z)%Z; [apply refines_refl|]. rb.
        * destruct (negb (num_is_zero coef)); [apply refines_refl|]. rb; [apply x_addnum_le; apply refines_refl | apply refines_refl].
        * destruct x as [st1 bd]. destruct (z =? 2)%Z; [apply x_square_le | apply x_pow_expand_le].
  Qed.

  Lemma expand_at_le : forall f1 f2 deep e, (f1 <= f2)%nat -> refines (expand_at O1 f1 deep e) (expand_at O2 f2 deep e).
  Proof. intros. unfold expand_at. rb; [apply xvisit_le; assumption | op]. Qed.
End Mono.

Lemma guarded_le_real : ops_le guarded_ops real_ops.
Proof.
  split; cbn [guarded_ops real_ops o_mul o_pow o_div o_datn o_mdat o_mfd o_afd o_mulnum o_nummul o_numpow o_intpow
                  o_addnum o_dat o_multinomial]; intros;
    first [ apply refines_err | apply refines_guard ].
Qed.
Lemma ops_le_refl : forall O, ops_le O O.
Proof. intros O. split; intros; apply refines_refl. Qed.

(* a value returned by the guarded run is the value returned by the model *)
Theorem expand_g_refines : forall deep e r, expand_g deep e = Ok r -> expand deep e = Ok r.
Proof. intros deep e r. apply (expand_at_le guarded_ops real_ops guarded_le_real _ _ deep e (le_n _)). Qed.

(* the result of expand (a value) does not depend on the fuel once the fuel suffices *)
Theorem expand_fuel_mono : forall f f' deep e r, (f <= f')%nat ->
  expand_at real_ops f deep e = Ok r -> expand_at real_ops f' deep e = Ok r.
Proof. intros f f' deep e r L. apply (expand_at_le real_ops real_ops (ops_le_refl _) f f' deep e L). Qed.
