(* C09 obligation: equal expansions imply equal values (the sound half of "expand decides identity"): for
   expressions p, q accepted by the guard, if expand(p) and expand(q) are eq then p and q have the same value
   under every valuation.
   PARTIAL with respect to the design's `expand_decides` (an equivalence for polynomials over Q): the converse
   -- polynomials with equal values everywhere expand to eq expressions -- needs the uniqueness of the expanded
   normal form and "polynomial identity implies coefficient identity", which are not done; that direction is
   covered by the driver's oracle (coefficient dictionaries computed independently from the input trees). *)
From SE Require Import C09.ExpandGuardedOps C09.ExpandSound3 Num.NumSpec Expr.Denote.
Theorem C09_expand_decides_sound_guarded :
  forall (p q rp rq : expr),
  expand_guard true p = true -> expand_guard true q = true ->
  expand true p = Ok rp -> expand true q = Ok rq -> expr_eqb rp rq = true ->
  forall rho rhoc : list N -> qi, qi_eq (denote rho rhoc p) (denote rho rhoc q).
Proof. exact expand_decides_sound_guarded. Qed.
Print Assumptions C09_expand_decides_sound_guarded.
