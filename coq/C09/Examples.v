(* concrete expressions used by the obligation files of C09 *)
From SE Require Export C09.ExpandGuardedOps.
Definition sx : expr := ESym [120%N].
Definition sy : expr := ESym [121%N].
Definition sz : expr := ESym [122%N].
Definition ei (z : Z) : expr := ENum (NInt z).
Definition x_plus_y : expr := EAdd (NInt 0) [(sy, NInt 1); (sx, NInt 1)].
Definition x_minus_y : expr := EAdd (NInt 0) [(sy, NInt (-1)); (sx, NInt 1)].
(* 3 * z**2 * (x - y) * (x + y)**2 *)
Definition prod3 : expr := EMul (NInt 3) [(sz, ei 2); (x_minus_y, ei 1); (x_plus_y, ei 2)].
(* (1 + sin(x)/2)**2 * (x + y) *)
Definition withf : expr := EMul (NInt 1) [(EAdd (NInt 1) [(EF1 TC_Sin sx, NRat 1 2)], ei 2); (x_plus_y, ei 1)].
(* ((x + y)**(-1) + z)**2   (DESIGN row 38, smallest form) *)
Definition idem_witness : expr := EPow (EAdd (NInt 0) [(EPow x_plus_y (ei (-1)), NInt 1); (sz, NInt 1)]) (ei 2).
