(* C09 -- value preservation of expand, continued: mul_expand_two, square_expand, the visitor. *)
From SE Require Import C09.ExpandGuardedOps C09.ExpandMono C09.ExpandSound ExpSubs.QiRing Expr.DenotePow Expr.CmpProofs
  Expr.ArithMulUnique.
From Coq Require Import QArith Lia Setoid Morphisms.
Local Open Scope Z_scope.
Local Open Scope res_scope.

Section Sound2.
  Variables rho rhoc : list N -> qi.
  Notation den := (denote rho rhoc).
  Notation wp := (wprod rho rhoc).
  Notation G := guarded_ops.
  Notation sval := (sval rho rhoc).
  Notation W := (wsum den).

  Lemma qsum_lin : forall (a : qi) (d : adict),
    qi_eq (qsum (fun q => qi_mul a (qi_mul (qval (snd q)) (den (fst q)))) d) (qi_mul a (W d)).
  Proof. intros a d. rewrite qsum_scale, (qsum_wsum rho rhoc). reflexivity. Qed.

  (* ---------- the Number / tidy / plain insertion of a product ---------- *)
  Lemma s_add_product : forall fl st cn cd term st' cv, x_add_product G fl st cn cd term = Ok st' -> sinv st ->
    (forall x, cn = Ok x -> qi_eq (qval x) cv) -> (forall x, cd = Ok x -> qi_eq (qval x) cv) ->
    sinv st' /\ qi_eq (sval st') (qi_add (sval st) (qi_mul cv (den term))).
  Proof.
    intros fl st cn cd term st' cv H I Hn Hd.
    assert (GEN : (if fl then do c <- cd; x_cdat G st c term else x_dat G st cd term) = Ok st' ->
              sinv st' /\ qi_eq (sval st') (qi_add (sval st) (qi_mul cv (den term)))).
    { intros E. destruct fl.
      - apply bind_ok in E. destruct E as (c0 & Ec & E).
        destruct (s_cdat rho rhoc _ _ _ _ E I) as [I' V]. split; [exact I'|].
        rewrite V, (Hd c0 Ec). reflexivity.
      - destruct (s_dat rho rhoc _ _ _ _ E I) as (x & Ex & _ & I' & V). split; [exact I'|].
        rewrite V, (Hd x Ex). reflexivity. }
    destruct term; try (apply GEN; exact H).
    - cbn [x_add_product] in H. destruct (s_addnum rho rhoc _ _ _ H I) as (x & Ex & _ & I' & V). split; [exact I'|].
      apply bind_ok in Ex. destruct Ex as (c0 & Ec & Ex). cbn [o_mulnum guarded_ops] in Ex.
      destruct (c_mulnum _ _ _ Ex) as (_ & _ & _ & Vx). rewrite V, Vx, (Hn c0 Ec). cbn [denote]. reflexivity.
    - cbn [x_add_product] in H. destruct (negb (num_is_one coef)); [|apply GEN; exact H].
      apply bind_ok in H. destruct H as (t & Et & H). cbn [o_mfd guarded_ops] in Et.
      destruct (c_mfd rho rhoc _ _ _ Et) as (_ & _ & _ & Vt).
      destruct (s_dat rho rhoc _ _ _ _ H I) as (x & Ex & _ & I' & V). split; [exact I'|].
      apply bind_ok in Ex. destruct Ex as (c0 & Ec & Ex). cbn [o_mulnum guarded_ops] in Ex.
      destruct (c_mulnum _ _ _ Ex) as (_ & _ & _ & Vx).
      rewrite V, Vx, Vt, (Hn c0 Ec), (denote_EMul' rho rhoc), qval_one. ring.
  Qed.

  (* ---------- mul_expand_two ---------- *)
  Lemma s_mul_add_add : forall fl st m ca da cb db st', x_mul_add_add G fl st m ca da cb db = Ok st' -> sinv st ->
    sinv st' /\ qi_eq (sval st') (qi_add (sval st) (qi_mul (qval m) (qi_mul (den (EAdd ca da)) (den (EAdd cb db))))).
  Proof.
    intros fl st m ca da cb db st' H I. unfold x_mul_add_add in H.
    apply bind_ok in H. destruct H as (st0 & E0 & H).
    destruct (s_addnum rho rhoc _ _ _ E0 I) as (x0 & Ex0 & _ & I0 & V0).
    apply bind_ok in Ex0. destruct Ex0 as (cc & Ecc & Ex0). cbn [o_mulnum guarded_ops] in Ecc, Ex0.
    destruct (c_mulnum _ _ _ Ecc) as (_ & _ & _ & Vcc). destruct (c_mulnum _ _ _ Ex0) as (_ & _ & _ & Vx0).
    apply bind_ok in H. destruct H as (st1 & E1 & H).
    apply bind_ok in H. destruct H as (temp' & Et' & H). cbn [o_mulnum guarded_ops] in Et'.
    destruct (c_mulnum _ _ _ Et') as (_ & _ & _ & Vt').
    (* the outer loop *)
    assert (OUT : forall s p s', In p da ->
              (do temp <- o_mulnum G (snd p) m;
               do s'' <- fold_res (fun s q => do term <- o_mul G (fst p) (fst q);
                                              let tq := o_mulnum G temp (snd q) in x_add_product G fl s tq tq term) db s;
               x_dat G s'' (o_mulnum G cb temp) (fst p)) = Ok s' -> sinv s ->
              sinv s' /\ qi_eq (sval s') (qi_add (sval s)
                (qi_mul (qi_mul (qval m) (qi_add (W db) (qval cb))) (qi_mul (qval (snd p)) (den (fst p)))))).
    { intros s p s' _ E Is. apply bind_ok in E. destruct E as (temp & Et & E). cbn [o_mulnum guarded_ops] in Et.
      destruct (c_mulnum _ _ _ Et) as (_ & _ & _ & Vt).
      apply bind_ok in E. destruct E as (s2 & E2 & E).
      assert (INN : forall s q s', In q db ->
                (do term <- o_mul G (fst p) (fst q);
                 let tq := o_mulnum G temp (snd q) in x_add_product G fl s tq tq term) = Ok s' -> sinv s ->
                sinv s' /\ qi_eq (sval s') (qi_add (sval s)
                  (qi_mul (qi_mul (qval temp) (den (fst p))) (qi_mul (qval (snd q)) (den (fst q)))))).
      { intros s3 q s4 _ E3 I3. apply bind_ok in E3. destruct E3 as (term & Em & E3). cbn [o_mul guarded_ops] in Em.
        destruct (c_mul rho rhoc _ _ _ Em) as [Vm _]. cbv zeta in E3.
        assert (CV : forall x, o_mulnum G temp (snd q) = Ok x -> qi_eq (qval x) (qi_mul (qval temp) (qval (snd q)))).
        { intros x Ex. cbn [o_mulnum guarded_ops] in Ex. destruct (c_mulnum _ _ _ Ex) as (_ & _ & _ & Vx). exact Vx. }
        destruct (s_add_product _ _ _ _ _ _ _ E3 I3 CV CV) as [I4 V4]. split; [exact I4|]. rewrite V4, Vm. ring. }
      destruct (fold_sound rho rhoc _ _ _ db INN s s2 E2 Is) as [I2 V2].
      destruct (s_dat rho rhoc _ _ _ _ E I2) as (x & Ex & _ & I' & V). split; [exact I'|].
      cbn [o_mulnum guarded_ops] in Ex. destruct (c_mulnum _ _ _ Ex) as (_ & _ & _ & Vx).
      rewrite V, V2, Vx, qsum_lin, Vt. ring. }
    destruct (fold_sound rho rhoc _ _ _ da OUT st0 st1 E1 I0) as [I1 V1].
    assert (LAST : forall s q s', In q db -> x_dat G s (o_mulnum G temp' (snd q)) (fst q) = Ok s' -> sinv s ->
              sinv s' /\ qi_eq (sval s') (qi_add (sval s) (qi_mul (qval temp') (qi_mul (qval (snd q)) (den (fst q)))))).
    { intros s q s' _ E Is. destruct (s_dat rho rhoc _ _ _ _ E Is) as (x & Ex & _ & I' & V). split; [exact I'|].
      cbn [o_mulnum guarded_ops] in Ex. destruct (c_mulnum _ _ _ Ex) as (_ & _ & _ & Vx). rewrite V, Vx. ring. }
    destruct (fold_sound rho rhoc _ _ _ db LAST st1 st' H I1) as [I2 V2]. split; [exact I2|].
    rewrite V2, V1, V0, !qsum_lin, Vx0, Vcc, Vt', !denote_EAdd. ring.
  Qed.

  Lemma s_mul_other_add : forall fl st m a cb db st', x_mul_other_add G fl st m a cb db = Ok st' -> sinv st ->
    sinv st' /\ qi_eq (sval st') (qi_add (sval st) (qi_mul (qval m) (qi_mul (den a) (den (EAdd cb db))))).
  Proof.
    intros fl st m a cb db st' H I. unfold x_mul_other_add in H.
    apply bind_ok in H. destruct H as (acoef & Ea & H). cbn [o_mulnum guarded_ops] in Ea.
    destruct (c_mulnum _ _ _ Ea) as (_ & _ & _ & Va).
    apply bind_ok in H. destruct H as (st1 & E1 & H).
    assert (STEP : forall s q s', In q db ->
              (do term <- o_mul G (snd (as_coef_term a)) (fst q);
               x_add_product G fl s (o_mulnum G (snd q) acoef) (o_mulnum G acoef (snd q)) term) = Ok s' -> sinv s ->
              sinv s' /\ qi_eq (sval s') (qi_add (sval s)
                (qi_mul (qi_mul (qval acoef) (den (snd (as_coef_term a)))) (qi_mul (qval (snd q)) (den (fst q)))))).
    { intros s q s' _ E Is. apply bind_ok in E. destruct E as (term & Em & E). cbn [o_mul guarded_ops] in Em.
      destruct (c_mul rho rhoc _ _ _ Em) as [Vm _].
      assert (CN : forall x, o_mulnum G (snd q) acoef = Ok x -> qi_eq (qval x) (qi_mul (qval acoef) (qval (snd q)))).
      { intros x Ex. cbn [o_mulnum guarded_ops] in Ex. destruct (c_mulnum _ _ _ Ex) as (_ & _ & _ & Vx). rewrite Vx. ring. }
      assert (CD : forall x, o_mulnum G acoef (snd q) = Ok x -> qi_eq (qval x) (qi_mul (qval acoef) (qval (snd q)))).
      { intros x Ex. cbn [o_mulnum guarded_ops] in Ex. destruct (c_mulnum _ _ _ Ex) as (_ & _ & _ & Vx). exact Vx. }
      destruct (s_add_product _ _ _ _ _ _ _ E Is CN CD) as [I4 V4]. split; [exact I4|]. rewrite V4, Vm. ring. }
    destruct (fold_sound rho rhoc _ _ _ db STEP st st1 E1 I) as [I1 V1].
    pose proof (den_as_coef_term rho rhoc a) as DA.
    destruct (expr_eqb (snd (as_coef_term a)) e_one) eqn:E.
    - pose proof (eqb_one_literal _ E) as E'.
      destruct (s_addnum rho rhoc _ _ _ H I1) as (x & Ex & _ & I' & V). split; [exact I'|].
      cbn [o_mulnum guarded_ops] in Ex. destruct (c_mulnum _ _ _ Ex) as (_ & _ & _ & Vx).
      rewrite V, V1, Vx, qsum_lin, Va, DA, denote_EAdd, E'. cbn [denote e_one e_int]. rewrite qval_one. ring.
    - destruct (s_dat rho rhoc _ _ _ _ H I1) as (x & Ex & _ & I' & V). split; [exact I'|].
      cbn [o_mulnum guarded_ops] in Ex. destruct (c_mulnum _ _ _ Ex) as (_ & _ & _ & Vx).
      rewrite V, V1, Vx, qsum_lin, Va, DA, denote_EAdd. ring.
  Qed.

  Definition is_add (e : expr) : bool := match e with EAdd _ _ => true | _ => false end.
  Lemma x_mul_expand_two_unfold : forall O fl st m a b,
    x_mul_expand_two O fl st m a b =
    match a, b with
    | EAdd ca da, EAdd cb db => x_mul_add_add O fl st m ca da cb db
    | EAdd ca da, _ => x_mul_other_add O fl st m b ca da
    | _, EAdd cb db => x_mul_other_add O fl st m a cb db
    | _, _ => do mm <- o_mul O a b; x_cdat O st m mm
    end.
  Proof. reflexivity. Qed.

  Lemma s_mul_expand_two : forall fl st m a b st', x_mul_expand_two G fl st m a b = Ok st' -> sinv st ->
    sinv st' /\ qi_eq (sval st') (qi_add (sval st) (qi_mul (qval m) (qi_mul (den a) (den b)))).
  Proof.
    intros fl st m a b st' H I.
    assert (PLAIN : (do mm <- o_mul G a b; x_cdat G st m mm) = Ok st' ->
              sinv st' /\ qi_eq (sval st') (qi_add (sval st) (qi_mul (qval m) (qi_mul (den a) (den b))))).
    { intros E. apply bind_ok in E. destruct E as (mm & Em & E). cbn [o_mul guarded_ops] in Em.
      destruct (c_mul rho rhoc _ _ _ Em) as [Vm _]. destruct (s_cdat rho rhoc _ _ _ _ E I) as [I' V].
      split; [exact I'|]. rewrite V, Vm. reflexivity. }
    assert (RIGHT : forall cb db, b = EAdd cb db -> x_mul_other_add G fl st m a cb db = Ok st' ->
              sinv st' /\ qi_eq (sval st') (qi_add (sval st) (qi_mul (qval m) (qi_mul (den a) (den b))))).
    { intros cb db -> E. exact (s_mul_other_add _ _ _ _ _ _ _ E I). }
    assert (LEFT : forall ca da, a = EAdd ca da -> x_mul_other_add G fl st m b ca da = Ok st' ->
              sinv st' /\ qi_eq (sval st') (qi_add (sval st) (qi_mul (qval m) (qi_mul (den a) (den b))))).
    { intros ca da -> E. destruct (s_mul_other_add _ _ _ _ _ _ _ E I) as [I' V]. split; [exact I'|]. rewrite V. ring. }
    rewrite x_mul_expand_two_unfold in H.
    destruct a; destruct b;
      first [ exact (PLAIN H) | exact (RIGHT _ _ eq_refl H) | exact (LEFT _ _ eq_refl H)
            | exact (s_mul_add_add _ _ _ _ _ _ _ _ H I) ].
  Qed.

  (* ---------- square_expand ---------- *)
  Lemma powz_two : forall x : qi, qi_eq (qi_powz x 2) (qi_mul x x).
  Proof. intros x. unfold qi_powz. change (Pos.to_nat 2) with 2%nat. cbn [qi_pow_nat]. ring. Qed.
  Lemma qval_two : qi_eq (qval (NInt 2)) (qi_add qi_one qi_one).
  Proof. rewrite qval_int. qi_unfold. split; reflexivity. Qed.

  Lemma s_square : forall bd st m st', x_square G st m bd = Ok st' -> sinv st ->
    sinv st' /\ qi_eq (sval st') (qi_add (sval st) (qi_mul (qval m) (qi_mul (W bd) (W bd)))).
  Proof.
    induction bd as [|p rest IH]; intros st m st' H I; cbn [x_square] in H.
    - injection H as <-. split; [exact I|]. cbn [wsum]. ring.
    - apply bind_ok in H. destruct H as (sq & Esq & H). cbn [o_pow guarded_ops] in Esq.
      destruct (c_pow rho rhoc _ _ _ Esq) as (n & En & _ & Vsq & _).
      injection En as <-. rewrite powz_two in Vsq.
      apply bind_ok in H. destruct H as (c & Ec & H).
      apply bind_ok in Ec. destruct Ec as (pp & Epp & Ec). cbn [o_nummul o_mulnum guarded_ops] in Epp, Ec.
      destruct (c_nummul _ _ _ Epp) as (_ & _ & _ & Vpp). destruct (c_mulnum _ _ _ Ec) as (_ & _ & _ & Vc).
      apply bind_ok in H. destruct H as (st1 & E1 & H). destruct (s_cdat rho rhoc _ _ _ _ E1 I) as [I1 V1].
      apply bind_ok in H. destruct H as (st2 & E2 & H).
      assert (STEP : forall s q s', In q rest ->
                (do prod <- o_mul G (fst q) (fst p);
                 do c <- (do q2 <- o_mulnum G (snd q) (NInt 2); do pq <- o_mulnum G (snd p) q2; o_mulnum G m pq);
                 x_cdat G s c prod) = Ok s' -> sinv s ->
                sinv s' /\ qi_eq (sval s') (qi_add (sval s)
                  (qi_mul (qi_mul (qi_mul (qval m) (qi_add qi_one qi_one)) (qi_mul (qval (snd p)) (den (fst p))))
                          (qi_mul (qval (snd q)) (den (fst q)))))).
      { intros s q s' _ E Is. apply bind_ok in E. destruct E as (prod & Em & E). cbn [o_mul guarded_ops] in Em.
        destruct (c_mul rho rhoc _ _ _ Em) as [Vm _].
        apply bind_ok in E. destruct E as (c' & Ec' & E).
        apply bind_ok in Ec'. destruct Ec' as (q2 & Eq2 & Ec'). apply bind_ok in Ec'. destruct Ec' as (pq & Epq & Ec').
        cbn [o_mulnum guarded_ops] in Eq2, Epq, Ec'.
        destruct (c_mulnum _ _ _ Eq2) as (_ & _ & _ & Vq2). destruct (c_mulnum _ _ _ Epq) as (_ & _ & _ & Vpq).
        destruct (c_mulnum _ _ _ Ec') as (_ & _ & _ & Vc').
        destruct (s_cdat rho rhoc _ _ _ _ E Is) as [I' V]. split; [exact I'|].
        rewrite V, Vm, Vc', Vpq, Vq2, qval_two. ring. }
      destruct (fold_sound rho rhoc _ _ _ rest STEP st1 st2 E2 I1) as [I2 V2].
      destruct (IH _ _ _ H I2) as [I3 V3]. split; [exact I3|].
      rewrite V3, V2, V1, qsum_lin, Vc, Vpp, Vsq. cbn [wsum]. ring.
  Qed.
End Sound2.
