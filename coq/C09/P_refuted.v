(* C09 refutation witness: expand is NOT idempotent in the model (as in the library, DESIGN row 38; replayed on the
   library by the check: known finding C09/not-idempotent:negative-power-of-sum-kept-unexpanded).
   e = ((x + y)**(-1) + z)**2 is well formed and canonical; expand(e) = z**2 + 2*z/(x+y) + (x+y)**(-2);
   expanding that again rewrites (x+y)**(-2) to (x**2 + 2*x*y + y**2)**(-1). *)
From SE Require Import C09.ExpandGuardedOps C09.ExpandGuards C09.Examples Expr.Wf.
Theorem C09_expand_idem_refuted :
  exists e r r2 : expr,
    wf e = true /\ canonical e = true /\ expand true e = Ok r /\ expand true r = Ok r2 /\ expr_eqb r r2 = false.
Proof.
  exists idem_witness. do 2 eexists. repeat split; try (vm_compute; reflexivity).
Qed.
Print Assumptions C09_expand_idem_refuted.
(* second witness (same root cause: pow_expand / square_expand / mul_expand_two multiply already expanded terms with
   pow() / mul() and do not expand the product): a NON-INTEGER power of a sum multiplied with itself becomes a
   positive integer power of the sum, which stays unexpanded (known findings
   C09/incomplete:integer-power-of-sum-from-fractional-power, C09/not-idempotent:integer-power-of-sum-from-fractional-power).
   e = ((x + y)**(3/2) + z)**2; expand(e) = z**2 + 2*z*(x+y)**(3/2) + (x+y)**3, which is not `expanded`, and
   expanding again multiplies (x+y)**3 out. *)
Definition frac_witness : expr :=
  EPow (EAdd (NInt 0) [(sz, NInt 1); (EPow x_plus_y (ENum (NRat 3 2)), NInt 1)]) (ei 2).
Theorem C09_expand_complete_refuted :
  exists e r r2 : expr,
    wf e = true /\ canonical e = true /\ expand true e = Ok r /\ expanded r = false /\
    expand true r = Ok r2 /\ expr_eqb r r2 = false.
Proof.
  exists frac_witness. do 2 eexists. repeat split; try (vm_compute; reflexivity).
Qed.
Print Assumptions C09_expand_complete_refuted.
