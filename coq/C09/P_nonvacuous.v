(* C09: the hypotheses of the theorems are satisfiable by non-trivial inputs, and the model computes the expected
   results on them. *)
From SE Require Import C09.ExpandGuardedOps C09.ExpandGuards C09.Examples C09.MultinomialSpec Expr.Wf.
(* 3*z**2*(x - y)*(x + y)**2: products of sums and a square, accepted by the guard *)
Example guard_product : expand_guard true prod3 = true.
Proof. vm_compute. reflexivity. Qed.
Example result_product : expand true prod3 =
  Ok (EAdd (NInt 0)
        [(EMul (NInt 1) [(sy, ei 3); (sz, ei 2)], NInt (-3));
         (EMul (NInt 1) [(sx, ei 1); (sy, ei 2); (sz, ei 2)], NInt (-3));
         (EMul (NInt 1) [(sx, ei 2); (sy, ei 1); (sz, ei 2)], NInt 3);
         (EMul (NInt 1) [(sx, ei 3); (sz, ei 2)], NInt 3)]).
Proof. vm_compute. reflexivity. Qed.
(* an opaque function application as an atom, a rational coefficient *)
Example guard_function_atom : expand_guard true withf = true.
Proof. vm_compute. reflexivity. Qed.
(* shallow expansion *)
Example guard_shallow : expand_guard false prod3 = true.
Proof. vm_compute. reflexivity. Qed.
(* the guard rejects a cube (pow_expand) and a negative power of a sum *)
Example guard_rejects : expand_guard true (EPow x_plus_y (ei 3)) = false /\ expand_guard true (EPow x_plus_y (ei (-2))) = false.
Proof. split; vm_compute; reflexivity. Qed.
(* the specification predicates on the result: expanded, and a polynomial *)
Example result_expanded :
  match expand true prod3 with Ok r => expanded r && poly_frag r | _ => false end = true.
Proof. vm_compute. reflexivity. Qed.
Example input_not_expanded : expanded prod3 = false /\ poly_frag prod3 = true.
Proof. split; vm_compute; reflexivity. Qed.
(* (x + y)**3 through the multinomial table *)
Example cube : expand true (EPow x_plus_y (ei 3)) =
  Ok (EAdd (NInt 0)
        [(EPow sx (ei 3), NInt 1); (EMul (NInt 1) [(sx, ei 2); (sy, ei 1)], NInt 3);
         (EMul (NInt 1) [(sx, ei 1); (sy, ei 2)], NInt 3); (EPow sy (ei 3), NInt 1)]).
Proof. vm_compute. reflexivity. Qed.
Example table_3_2 : multinomial_table 3 2 =
  [([0;0;2], 1%Z); ([0;1;1], 2%Z); ([0;2;0], 1%Z); ([1;0;1], 2%Z); ([1;1;0], 2%Z); ([2;0;0], 1%Z)]%N.
Proof. vm_compute. reflexivity. Qed.
