(* C09 -- schoolbook specification of the multinomial coefficient table.
   Exponent vectors are lists of N; the table for (m, n) has one entry for every vector of length m and
   weight n, and the entry is n! / (k_1! * ... * k_m!). *)
From Coq Require Import List NArith ZArith Lia.
Import ListNotations.
Local Open Scope Z_scope.

Fixpoint vsum (t : list N) : N :=
  match t with
  | [] => 0%N
  | x :: r => (x + vsum r)%N
  end.

Fixpoint fact_nat (n : nat) : Z :=
  match n with
  | O => 1
  | S k => Z.of_nat n * fact_nat k
  end.
Definition zfact (n : N) : Z := fact_nat (N.to_nat n).

Fixpoint fact_prod (t : list N) : Z :=
  match t with
  | [] => 1
  | x :: r => zfact x * fact_prod r
  end.

(* n! / prod k_i!  (the division is exact when vsum t = n) *)
Definition multinomial (t : list N) : Z := zfact (vsum t) / fact_prod t.

(* all exponent vectors of length m and weight n, in lexicographic order *)
Fixpoint compositions (m : nat) (n : nat) : list (list N) :=
  match m with
  | O => match n with O => [[]] | S _ => [] end
  | S m' =>
      flat_map (fun k => map (fun r => N.of_nat k :: r) (compositions m' (n - k))) (seq 0 (S n))
  end.

(* the specified table *)
Definition multinomial_table (m n : nat) : list (list N * Z) :=
  map (fun t => (t, multinomial t)) (compositions m n).
