(* C09 obligation: the value returned by the model's expand does not depend on the fuel once the fuel suffices --
   for ALL inputs, modelled fragment or not, deep or shallow. *)
From SE Require Import C09.ExpandModel C09.ExpandMono.
Theorem C09_expand_fuel_mono :
  forall (f f' : nat) (deep : bool) (e r : expr), (f <= f')%nat ->
  expand_at real_ops f deep e = Ok r -> expand_at real_ops f' deep e = Ok r.
Proof. exact expand_fuel_mono. Qed.
Print Assumptions C09_expand_fuel_mono.
