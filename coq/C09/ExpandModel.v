(* C09 -- ExpandVisitor of symengine/expand.cpp and multinomial_coefficients_mpz of pow.cpp,
   transcribed branch by branch on the [expr] type, on top of the arithmetic model Expr/Arith.v
   (add / mul / pow / Mul::dict_add_term_new ... are the transcriptions of add.cpp, mul.cpp, pow.cpp).
   No proofs here.

   Conventions
   - the visitor's members  coeff, d_  are the explicit state [xst]; `multiply` is an argument
     (the C++ saves and restores it around the loop of bvisit(Add)).
   - expand(e) creates a NEW visitor: [expand_at].  Recursion (accept on the keys of an Add, expand of the
     two terms of a Mul, expand of pow(base, -n)) is not structural: one fuelled function [xvisit],
     every nested accept / expand costs one unit of fuel (fuel = call depth).
   - the Add dictionary base_dict of bvisit(Pow) is an unordered_map: its iteration order is not modelled
     (entries in dump order, the inserted numeric coefficient last); the result does not depend on it
     for exact coefficients (the correspondence compares Add dictionaries after sorting).
   - map_vec_mpz (std::map<std::vector<unsigned>, mpz>) is a list sorted lexicographically;
     `r[t]` inserts a zero entry when the key is absent, exactly as std::map::operator[] does.
   - UExprPoly / UIntPoly bases (dumped as Opaque) are outside the model.
   - the code transcribed is expand.cpp AFTER the two repairs fix-1 (result of pow() routed through
     _coef_dict_add_term) and fix-2 (exponents that do not fit `unsigned` throw). *)
From SE Require Export ExpSubs.Common.
From Coq Require Import QArith.
Local Open Scope Z_scope.
Local Open Scope res_scope.

(* ------------------------------------------------------------------ multinomial_coefficients_mpz *)

Definition vec := list N.

(* std::vector<unsigned>::operator< (lexicographic) *)
Fixpoint vec_ltb (a b : vec) : bool :=
  match a, b with
  | [], [] => false
  | [], _ :: _ => true
  | _ :: _, [] => false
  | x :: a', y :: b' => if (x <? y)%N then true else if (y <? x)%N then false else vec_ltb a' b'
  end.
Fixpoint vec_eqb (a b : vec) : bool :=
  match a, b with
  | [], [] => true
  | x :: a', y :: b' => (x =? y)%N && vec_eqb a' b'
  | _, _ => false
  end.

Definition rmap := list (vec * Z).

Fixpoint rm_find (t : vec) (r : rmap) : option Z :=
  match r with
  | [] => None
  | (k, v) :: r' => if vec_eqb k t then Some v else rm_find t r'
  end.
(* r[t] = v *)
Fixpoint rm_set (t : vec) (v : Z) (r : rmap) : rmap :=
  match r with
  | [] => [(t, v)]
  | (k, kv) :: r' =>
      if vec_ltb k t then (k, kv) :: rm_set t v r'
      else if vec_ltb t k then (t, v) :: r else (k, v) :: r'
  end.
(* the value of the expression r[t] (a missing key is created with value 0) *)
Definition rm_get (t : vec) (r : rmap) : Z * rmap :=
  match rm_find t r with
  | Some v => (v, r)
  | None => (0, rm_set t 0 r)
  end.

(* t[i] and t[i] = v with the bounds check of _GLIBCXX_ASSERTIONS *)
Definition vget (t : vec) (i : N) : res N :=
  match nth_error t (N.to_nat i) with
  | Some v => Ok v
  | None => ErrOOB i (N.of_nat (length t))
  end.
Fixpoint vset_nat (t : vec) (i : nat) (v : N) : option vec :=
  match t, i with
  | [], _ => None
  | _ :: r, O => Some (v :: r)
  | x :: r, S i' => match vset_nat r i' v with Some r' => Some (x :: r') | None => None end
  end.
Definition vset (t : vec) (i : N) (v : N) : res vec :=
  match vset_nat t (N.to_nat i) v with
  | Some t' => Ok t'
  | None => ErrOOB i (N.of_nat (length t))
  end.

(* for (k = start; k < m; k++) if (t[k]) { t[k] -= 1; v += r[t]; t[k] += 1; }    (cnt = m - k) *)
Fixpoint mc_inner (cnt : nat) (k : N) (t : vec) (v : Z) (r : rmap) : res (Z * rmap) :=
  match cnt with
  | O => Ok (v, r)
  | S cnt' =>
      do tk <- vget t k;
      if (tk =? 0)%N then mc_inner cnt' (k + 1)%N t v r
      else
        do t1 <- vset t k (usub tk 1);
        let g := rm_get t1 r in
        mc_inner cnt' (k + 1)%N t (v + fst g) (snd g)
  end.

(* one iteration of  while (j < m - 1) { ... } *)
Definition mc_body (m n : N) (t : vec) (r : rmap) (j : N) : res (vec * rmap * N) :=
  do tj <- vget t j;
  do t1 <- (if (j =? 0)%N then Ok t else do t' <- vset t j 0%N; vset t' 0%N tj);
  do '(t2, j2, start, v, r2) <-
    (if (1 <? tj)%N then
       do x <- vget t1 (j + 1)%N;
       do t' <- vset t1 (j + 1)%N (uadd x 1);
       Ok (t', 0%N, 1%N, 0, r)
     else
       let j' := uadd j 1 in
       let g := rm_get t1 r in
       do x <- vget t1 j';
       do t' <- vset t1 j' (uadd x 1);
       Ok (t', j', uadd j' 1, fst g, snd g));
  do vr <- mc_inner (N.to_nat (m - start)) start t2 v r2;
  do t0 <- vget t2 0%N;
  do t3 <- vset t2 0%N (usub t0 1);
  do t0' <- vget t3 0%N;
  let den := Z.of_N (usub n t0') in
  if den =? 0 then ErrExn EXN_SIGFPE
  else Ok (t3, rm_set t3 ((fst vr * Z.of_N tj) / den) (snd vr), j2).

Fixpoint mc_loop (fuel : nat) (m n : N) (t : vec) (r : rmap) (j : N) : res rmap :=
  if (j <? usub m 1)%N then
    match fuel with
    | O => ErrFuel
    | S f => do '(t', r', j') <- mc_body m n t r j; mc_loop f m n t' r' j'
    end
  else Ok r.

(* the number of exponent vectors of length m and weight n: C(n + m - 1, m - 1) *)
Fixpoint binom_up (k : nat) (n : N) : N :=       (* C(n + k, k) *)
  match k with
  | O => 1%N
  | S k' => (binom_up k' n * (n + N.of_nat k) / N.of_nat k)%N
  end.
Definition mc_fuel (m n : N) : nat := N.to_nat (binom_up (N.to_nat (m - 1)) n).

(* multinomial_coefficients_mpz(m, n, r)  for unsigned m, n (both below 2^32) *)
Definition multinomial_coefficients (m n : N) : res rmap :=
  if (m <? 2)%N then ErrExn EXN_SYMENGINE
  else
    let t := n :: repeat 0%N (N.to_nat (m - 1)) in
    let r := rm_set t 1 [] in
    if (n =? 0)%N then Ok r
    else mc_loop (mc_fuel m n) m n t r 0%N.

(* ------------------------------------------------------------------ the visitor *)

Definition xst := (number * adict)%type.          (* coeff, d_ *)

Definition eq_one (x : number) : bool := SE.Expr.Cmp.num_eqb x (NInt 1).
(* _mulnum *)
Definition mulnum_ (x y : number) : res number :=
  if eq_one x then Ok y else if eq_one y then Ok x else num_mul x y.

(* The library calls made by the visitor.  [real_ops] are their transcriptions; the visitor is written
   against the record so that the theorems can also run it with every call guarded by the precondition
   of the theorem about that call (C09/ExpandGuards.v, [guarded_ops]). *)
Record xops := {
  o_mul : expr -> expr -> res expr;                                  (* mul(a, b) *)
  o_pow : expr -> expr -> res expr;                                  (* pow(a, b) *)
  o_div : expr -> expr -> res expr;                                  (* div(a, b) *)
  o_datn : number * mdict -> expr -> expr -> res (number * mdict);   (* Mul::dict_add_term_new(coef, d, exp, t) *)
  o_mdat : mdict -> expr -> expr -> res mdict;                       (* Mul::dict_add_term(d, exp, t) *)
  o_mfd : number -> mdict -> res expr;                               (* Mul::from_dict(coef, d) *)
  o_afd : number -> adict -> res expr;                               (* Add::from_dict(coef, d) *)
  o_mulnum : number -> number -> res number;                         (* _mulnum(x, y) *)
  o_nummul : number -> number -> res number;                         (* mulnum(x, y) *)
  o_numpow : number -> number -> res number;                         (* pownum(x, y) *)
  o_intpow : Z -> Z -> res number;                                   (* Integer::powint *)
  o_addnum : number -> number -> res number;                         (* addnum(x, y) *)
  o_dat : adict -> number -> expr -> res adict;                      (* Add::dict_add_term(d, coef, t) *)
  o_multinomial : N -> N -> res rmap                                 (* multinomial_coefficients_mpz(m, n, r) *)
}.

Definition real_ops : xops := {|
  o_mul := a_mul; o_pow := a_pow; o_div := a_div; o_datn := a_datn; o_mdat := mul_dict_add_term;
  o_mfd := fun c d => Ok (mul_from_dict c d); o_afd := fun c d => Ok (add_from_dict c d);
  o_mulnum := mulnum_; o_nummul := num_mul; o_numpow := num_pow; o_intpow := int_powint;
  o_addnum := num_add; o_dat := add_dict_add_term; o_multinomial := multinomial_coefficients |}.

Definition TWO32 : Z := 4294967296.

Section Visitor.
  Variable Op : xops.

  (* iaddnum(outArg(coeff), v) *)
  Definition x_addnum (st : xst) (v : res number) : res xst :=
    do x <- v; do c <- o_addnum Op (fst st) x; Ok (c, snd st).
  (* Add::dict_add_term(d_, c, t) *)
  Definition x_dat (st : xst) (c : res number) (t : expr) : res xst :=
    do x <- c; do d <- o_dat Op (snd st) x t; Ok (fst st, d).

  (* _coef_dict_add_term(c, term) *)
  Definition x_cdat (st : xst) (c : number) (term : expr) : res xst :=
    match term with
    | ENum n => x_addnum st (o_mulnum Op c n)
    | EAdd tc td =>
        do st' <- fold_res (fun s q => x_dat s (o_mulnum Op (snd q) c) (fst q)) td st;
        x_addnum st' (o_mulnum Op tc c)
    | _ =>
        let ct := as_coef_term term in
        x_dat st (o_mulnum Op c (fst ct)) (snd ct)
    end.

  (* "if (is_a_Number( *term )) ... else { if (is_a<Mul>( *term ) && !coef->is_one()) tidy up ... }":
     [cn] is the coefficient used in the Number and tidy branches, [cd] the one of the plain branch
     (the C++ multiplies the same numbers in a different order).  [flat] = deep: in deep mode the plain
     branch goes through _coef_dict_add_term (the product may be an Add: sqrt(x+y)*sqrt(x+y)), in shallow
     mode through Add::dict_add_term (fix-3) *)
  Definition x_add_product (flat : bool) (st : xst) (cn cd : res number) (term : expr) : res xst :=
    match term with
    | ENum tn => x_addnum st (do c <- cn; o_mulnum Op c tn)
    | EMul mc md =>
        if negb (num_is_one mc) then
          do t <- o_mfd Op (NInt 1) md; x_dat st (do c <- cn; o_mulnum Op c mc) t
        else if flat then do c <- cd; x_cdat st c term else x_dat st cd term
    | _ => if flat then do c <- cd; x_cdat st c term else x_dat st cd term
    end.

  (* mul_expand_two(a, b) with both operands Add *)
  Definition x_mul_add_add (flat : bool) (st : xst) (multiply : number) (ca : number) (da : adict) (cb : number) (db : adict)
    : res xst :=
    do st0 <- x_addnum st (do cc <- o_mulnum Op ca cb; o_mulnum Op multiply cc);
    do st1 <- fold_res (fun s p =>
                do temp <- o_mulnum Op (snd p) multiply;
                do s' <- fold_res (fun s q =>
                           do term <- o_mul Op (fst p) (fst q);
                           let tq := o_mulnum Op temp (snd q) in
                           x_add_product flat s tq tq term) db s;
                x_dat s' (o_mulnum Op cb temp) (fst p)) da st0;
    do temp <- o_mulnum Op ca multiply;
    fold_res (fun s q => x_dat s (o_mulnum Op temp (snd q)) (fst q)) db st1.

  (* mul_expand_two(a, b) with b an Add and a not *)
  Definition x_mul_other_add (flat : bool) (st : xst) (multiply : number) (a : expr) (cb : number) (db : adict) : res xst :=
    let ct := as_coef_term a in
    do a_coef <- o_mulnum Op (fst ct) multiply;
    let a_term := snd ct in
    do st1 <- fold_res (fun s q =>
                do term <- o_mul Op a_term (fst q);
                x_add_product flat s (o_mulnum Op (snd q) a_coef) (o_mulnum Op a_coef (snd q)) term) db st;
    if expr_eqb a_term e_one then x_addnum st1 (o_mulnum Op cb a_coef)
    else x_dat st1 (o_mulnum Op cb a_coef) a_term.

  Definition x_mul_expand_two (flat : bool) (st : xst) (multiply : number) (a b : expr) : res xst :=
    match a, b with
    | EAdd ca da, EAdd cb db => x_mul_add_add flat st multiply ca da cb db
    | EAdd ca da, _ => x_mul_other_add flat st multiply b ca da          (* mul_expand_two(b, a) *)
    | _, EAdd cb db => x_mul_other_add flat st multiply a cb db
    | _, _ => do m <- o_mul Op a b; x_cdat st multiply m
    end.

  (* square_expand(base_dict) *)
  Fixpoint x_square (st : xst) (multiply : number) (bd : adict) : res xst :=
    match bd with
    | [] => Ok st
    | p :: rest =>
        do sq <- o_pow Op (fst p) (e_int 2);
        do c <- (do pp <- o_nummul Op (snd p) (snd p); o_mulnum Op pp multiply);
        do st1 <- x_cdat st c sq;
        do st2 <- fold_res (fun s q =>
                    do prod <- o_mul Op (fst q) (fst p);
                    do c <- (do q2 <- o_mulnum Op (snd q) (NInt 2); do pq <- o_mulnum Op (snd p) q2;
                             o_mulnum Op multiply pq);
                    x_cdat s c prod) rest st1;
        x_square st2 multiply rest
    end.

  (* the body of the inner loop of pow_expand for one base entry (base, value) with power > 0 *)
  Definition x_pow_factor (st : number * mdict) (power : N) (base : expr) (value : number)
    : res (number * mdict) :=
    let exp := e_int (Z.of_N power) in
    do st1 <-
      match base with
      | ENum (NInt b) => do p <- o_intpow Op b (Z.of_N power); do c <- o_mulnum Op (fst st) p; Ok (c, snd st)
      | ESym _ => do d <- o_mdat Op (snd st) exp base; Ok (fst st, d)
      | _ =>
          do tmp <- o_pow Op base exp;
          match tmp with
          | EMul tc td =>
              do s <- fold_res (fun s p => o_datn Op s (snd p) (fst p)) td st;
              do c <- o_mulnum Op (fst s) tc; Ok (c, snd s)
          | ENum tn => do c <- o_mulnum Op (fst st) tn; Ok (c, snd st)
          | _ => do et <- as_base_exp tmp; o_datn Op st (fst et) (snd et)
          end
      end;
    if negb (num_is_one value) then
      do p <- o_numpow Op value (NInt (Z.of_N power)); do c <- o_mulnum Op (fst st1) p; Ok (c, snd st1)
    else Ok st1.

  (* for (; power != p.first.end(); ++power, ++i2) *)
  Fixpoint x_pow_factors (st : number * mdict) (powers : vec) (bd : adict) : res (number * mdict) :=
    match powers, bd with
    | pw :: ps, (base, value) :: rest =>
        do st1 <- (if (0 <? pw)%N then x_pow_factor st pw base value else Ok st);
        x_pow_factors st1 ps rest
    | [], _ => Ok st
    | _ :: _, [] => ErrExn EXN_SIGSEGV       (* i2 runs past base_dict.end(): never happens (m = size) *)
    end.

  (* pow_expand(base_dict, n) *)
  Definition x_pow_expand (st : xst) (multiply : number) (bd : adict) (n : N) : res xst :=
    do r <- o_multinomial Op (N.of_nat (length bd)) n;
    fold_res (fun s pc =>
      do od <- x_pow_factors (NInt 1, []) (fst pc) bd;
      do term <- o_mfd Op (fst od) (snd od);
      let coef2 := NInt (snd pc) in
      match term with
      | ENum tn => x_addnum s (do mt <- o_mulnum Op multiply tn; o_mulnum Op mt coef2)
      | EMul mc md =>
          if negb (num_is_one mc) then
            do t <- o_mfd Op (NInt 1) md;
            x_dat s (do c2 <- o_mulnum Op coef2 mc; o_mulnum Op multiply c2) t
          else x_dat s (o_mulnum Op multiply coef2) term
      | _ => x_dat s (o_mulnum Op multiply coef2) term
      end) r st.

  Fixpoint xvisit (fuel : nat) (deep : bool) (st : xst) (multiply : number) (e : expr) : res xst :=
    match fuel with
    | O => ErrFuel
    | S f =>
        (* expand(e', deep): a new visitor *)
        let expand_rec (e' : expr) : res expr :=
          do s <- xvisit f deep (NInt 0, []) (NInt 1) e'; o_afd Op (fst s) (snd s) in
        let expand_if_deep (e' : expr) : res expr := if deep then expand_rec e' else Ok e' in
        match e with
        | ENum n => x_addnum st (o_mulnum Op multiply n)
        | EAdd c d =>
            do st0 <- x_addnum st (o_mulnum Op multiply c);
            fold_res (fun s p =>
              do m <- o_mulnum Op multiply (snd p);
              if deep then xvisit f deep s m (fst p) else x_dat s (Ok m) (fst p)) d st0
        | EMul c d =>
            if forallb (fun p => match fst p with ESym _ => true | _ => false end) d then x_cdat st multiply e
            else
              match d with
              | [] => x_cdat st multiply e
              | (k, v) :: _ =>
                  (* Mul::as_two_terms *)
                  do a <- o_pow Op k v;
                  do b <- o_mfd Op c (merase k d);
                  do a' <- expand_if_deep a;
                  do b' <- expand_if_deep b;
                  x_mul_expand_two deep st multiply a' b'
              end
        | EPow base ex =>
            do base' <- expand_if_deep base;
            match ex, base' with
            | ENum (NInt n), EAdd bc bdict =>
                if n <? 0 then
                  do p <- o_pow Op base' (e_int (- n));
                  do p' <- expand_if_deep p;
                  do q <- o_div Op e_one p';
                  x_cdat st multiply q
                else if TWO32 <=? n then ErrExn EXN_SYMENGINE
                else
                  do '(st1, bd) <-
                    (if negb (num_is_zero bc) then Ok (st, bdict ++ [(ENum bc, NInt 1)])
                     else do s <- x_addnum st (Ok bc); Ok (s, bdict));
                  if n =? 2 then x_square st1 multiply bd
                  else x_pow_expand st1 multiply bd (Z.to_N n)
            | _, _ =>
                if negb (expr_eqb base' base) then do p <- o_pow Op base' ex; x_cdat st multiply p
                else x_dat st (Ok multiply) e
            end
        | _ => x_dat st (Ok multiply) e
        end
    end.

  (* expand(e, deep) *)
  Definition expand_at (fuel : nat) (deep : bool) (e : expr) : res expr :=
    do s <- xvisit fuel deep (NInt 0, []) (NInt 1) e; o_afd Op (fst s) (snd s).
End Visitor.

Definition expand_fuel (e : expr) : nat := (6 * size e + 60)%nat.
Definition expand (deep : bool) (e : expr) : res expr := expand_at real_ops (expand_fuel e) deep e.
