(* C09 obligation: the guarded run used in the hypotheses of the C09 theorems is the model itself with every
   library call checked first: whenever it returns a value, the unguarded model (the one compared with the
   library) returns the same value -- for every expression, deep or shallow. *)
From SE Require Import C09.ExpandGuardedOps C09.ExpandMono.
Theorem C09_expand_g_refines :
  forall (deep : bool) (e r : expr), expand_g deep e = Ok r -> expand deep e = Ok r.
Proof. exact expand_g_refines. Qed.
Print Assumptions C09_expand_g_refines.
