(* C09 -- value preservation of expand, continued: the visitor and the theorems. *)
From SE Require Import C09.ExpandGuardedOps C09.ExpandMono C09.ExpandSound C09.ExpandSound2 ExpSubs.QiRing
  Expr.DenotePow Expr.CmpProofs Expr.ArithMulUnique Expr.Unfold.
From Coq Require Import QArith Lia Setoid Morphisms.
Local Open Scope Z_scope.
Local Open Scope res_scope.

Section Sound3.
  Variables rho rhoc : list N -> qi.
  Notation den := (denote rho rhoc).
  Notation wp := (wprod rho rhoc).
  Notation G := guarded_ops.
  Notation sval := (sval rho rhoc).
  Notation W := (wsum den).

  Lemma s_xvisit : forall f deep st m e st', wf e = true -> xvisit G f deep st m e = Ok st' -> sinv st ->
    sinv st' /\ qi_eq (sval st') (qi_add (sval st) (qi_mul (qval m) (den e))).
  Proof.
    induction f as [|f IH]; intros deep st m e st' We H I; [discriminate H|]. cbn [xvisit] in H. cbv zeta in H.
    assert (ER : forall e' r, wf e' = true ->
              (do s <- xvisit G f deep (NInt 0, []) (NInt 1) e'; o_afd G (fst s) (snd s)) = Ok r ->
              wf r = true /\ qi_eq (den r) (den e')).
    { intros e' r We' E. apply bind_ok in E. destruct E as (s & Es & E).
      destruct (IH _ _ _ _ _ We' Es sinv_init) as [Is Vs].
      cbn [o_afd guarded_ops] in E. destruct (c_afd rho rhoc _ _ _ E) as [Wr Vr]. split; [exact Wr|].
      rewrite Vr. unfold ExpandSound.sval in Vs. rewrite Vs. cbn [fst snd wsum]. rewrite qval_zero, qval_one. ring. }
    assert (EI : forall e' r, wf e' = true ->
              (if deep then do s <- xvisit G f deep (NInt 0, []) (NInt 1) e'; o_afd G (fst s) (snd s) else Ok e') = Ok r ->
              wf r = true /\ qi_eq (den r) (den e')).
    { intros e' r We' E. destruct deep; [exact (ER e' r We' E)|]. injection E as <-. split; [exact We' | reflexivity]. }
    assert (DAT : x_dat G st (Ok m) e = Ok st' ->
              sinv st' /\ qi_eq (sval st') (qi_add (sval st) (qi_mul (qval m) (den e)))).
    { intros E. destruct (s_dat rho rhoc _ _ _ _ E I) as (x & Ex & _ & I' & V). injection Ex as <-.
      split; [exact I' | exact V]. }
    destruct e as [n|nm|nm i|nm|c d|c d|base ex|fc fa|fc fa fb|fc fl|nm fl|fc fa fb|fa fl|fa fd|fl|bb|is ie lo ro|tc];
      try (exact (DAT H)).
    - (* Number *)
      destruct (s_addnum rho rhoc _ _ _ H I) as (x & Ex & _ & I' & V). split; [exact I'|].
      cbn [o_mulnum guarded_ops] in Ex. destruct (c_mulnum _ _ _ Ex) as (_ & _ & _ & Vx).
      rewrite V, Vx. cbn [denote]. reflexivity.
    - (* Add *)
      apply bind_ok in H. destruct H as (st0 & E0 & H).
      destruct (s_addnum rho rhoc _ _ _ E0 I) as (x0 & Ex0 & _ & I0 & V0).
      cbn [o_mulnum guarded_ops] in Ex0. destruct (c_mulnum _ _ _ Ex0) as (_ & _ & _ & Vx0).
      assert (STEP : forall s p s', In p d ->
                (do mm <- o_mulnum G m (snd p);
                 if deep then xvisit G f deep s mm (fst p) else x_dat G s (Ok mm) (fst p)) = Ok s' -> sinv s ->
                sinv s' /\ qi_eq (sval s') (qi_add (sval s) (qi_mul (qval m) (qi_mul (qval (snd p)) (den (fst p)))))).
      { intros s p s' Hp E Is. apply bind_ok in E. destruct E as (mm & Emm & E).
        cbn [o_mulnum guarded_ops] in Emm. destruct (c_mulnum _ _ _ Emm) as (_ & _ & _ & Vmm).
        assert (Wp : wf (fst p) = true) by (apply (children_wf (EAdd c d)); [exact We | cbn [children]; apply in_map; exact Hp]).
        destruct deep.
        - destruct (IH _ _ _ _ _ Wp E Is) as [I' V]. split; [exact I'|]. rewrite V, Vmm. ring.
        - destruct (s_dat rho rhoc _ _ _ _ E Is) as (x & Ex & _ & I' & V). injection Ex as <-.
          split; [exact I'|]. rewrite V, Vmm. ring. }
      destruct (fold_sound rho rhoc _ _ _ d STEP st0 st' H I0) as [I1 V1]. split; [exact I1|].
      rewrite V1, V0, Vx0, qsum_lin, denote_EAdd. ring.
    - (* Mul *)
      destruct (forallb (fun p : expr * expr => match fst p with ESym _ => true | _ => false end) d);
        [exact (s_cdat rho rhoc _ _ _ _ H I)|].
      destruct d as [|[k v] d']; [exact (s_cdat rho rhoc _ _ _ _ H I)|].
      apply bind_ok in H. destruct H as (a & Ea & H). apply bind_ok in H. destruct H as (b & Eb & H).
      apply bind_ok in H. destruct H as (a' & Ea' & H). apply bind_ok in H. destruct H as (b' & Eb' & H).
      cbn [o_pow o_mfd guarded_ops] in Ea, Eb.
      destruct (c_pow rho rhoc _ _ _ Ea) as (n & Ev & _ & Va & Wa).
      destruct (c_mfd rho rhoc _ _ _ Eb) as (_ & _ & Wb & Vb).
      assert (Wk : wf k = true) by (apply (children_wf (EMul c ((k, v) :: d'))); [exact We | cbn; left; reflexivity]).
      cbn [merase] in Vb. rewrite (kl_irrefl k Wk) in Vb.
      destruct (EI a a' Wa Ea') as [_ Va']. destruct (EI b b' Wb Eb') as [_ Vb'].
      destruct (s_mul_expand_two rho rhoc _ _ _ _ _ _ H I) as [I' V]. split; [exact I'|].
      rewrite V, Va', Vb', Va, Vb, (denote_EMul' rho rhoc), (wp_cons rho rhoc). cbn [fst snd]. rewrite Ev. cbn [qpow]. ring.
    - (* Pow *)
      apply bind_ok in H. destruct H as (base' & Eb' & H).
      assert (Wbase : wf base = true) by (apply (children_wf (EPow base ex)); [exact We | cbn; left; reflexivity]).
      destruct (EI base base' Wbase Eb') as [_ Vb'].
      assert (PLAIN : (if negb (expr_eqb base' base) then do p <- o_pow G base' ex; x_cdat G st m p
                       else x_dat G st (Ok m) (EPow base ex)) = Ok st' ->
                sinv st' /\ qi_eq (sval st') (qi_add (sval st) (qi_mul (qval m) (den (EPow base ex))))).
      { intros E. destruct (negb (expr_eqb base' base)); [|exact (DAT E)].
        apply bind_ok in E. destruct E as (p & Ep & E). cbn [o_pow guarded_ops] in Ep.
        destruct (c_pow rho rhoc _ _ _ Ep) as (n & Eex & _ & Vp & _).
        destruct (s_cdat rho rhoc _ _ _ _ E I) as [I' V]. split; [exact I'|].
        rewrite V, Vp, Vb'. subst ex. cbn [denote qpow]. reflexivity. }
      destruct ex as [[z| | | | | | ]| | | | | | | | | | | | | | | | | ]; try exact (PLAIN H).
      destruct base' as [| | | |bc bdict| | | | | | | | | | | | | ]; try exact (PLAIN H).
      destruct (z <? 0) eqn:Zneg.
      { exfalso. apply bind_ok in H. destruct H as (p & _ & H). apply bind_ok in H. destruct H as (p' & _ & H).
        apply bind_ok in H. destruct H as (q & Eq & _). cbn [o_div guarded_ops] in Eq. discriminate Eq. }
      destruct (TWO32 <=? z); [discriminate H|].
      apply bind_ok in H. destruct H as ([st1 bd] & E1 & H).
      destruct (z =? 2) eqn:Z2.
      2:{ exfalso. unfold x_pow_expand in H. apply bind_ok in H. destruct H as (r & Er & _).
          cbn [o_multinomial guarded_ops] in Er. discriminate Er. }
      apply Z.eqb_eq in Z2. subst z.
      assert (ST1 : sinv st1 /\ qi_eq (qi_add (sval st1) (qi_mul (qval m) (qi_mul (W bd) (W bd))))
                                     (qi_add (sval st) (qi_mul (qval m) (qi_mul (den (EAdd bc bdict)) (den (EAdd bc bdict)))))).
      { destruct (negb (num_is_zero bc)) eqn:NZ.
        - injection E1 as <- <-. split; [exact I|]. rewrite wsum_app, denote_EAdd. cbn [wsum fst snd denote]. rewrite qval_one. ring.
        - apply bind_ok in E1. destruct E1 as (s & Es & E1). injection E1 as <- <-.
          destruct (s_addnum rho rhoc _ _ _ Es I) as (x & Ex & Xx & Is & Vs). injection Ex as <-.
          split; [exact Is|].
          assert (Z0 : qi_eq (qval bc) qi_zero).
          { apply (is_zero_val bc Xx). destruct (num_is_zero bc); [reflexivity | discriminate NZ]. }
          rewrite Vs, denote_EAdd, Z0. ring. }
      destruct ST1 as [I1 V1].
      destruct (s_square rho rhoc _ _ _ _ H I1) as [I' V]. split; [exact I'|].
      rewrite V, V1. cbn [denote qpow]. rewrite powz_two, <- Vb'. reflexivity.
  Qed.

  Theorem expand_g_sound : forall deep e r, wf e = true -> expand_g deep e = Ok r ->
    wf r = true /\ qi_eq (den r) (den e).
  Proof.
    intros deep e r We E. unfold expand_g, expand_at in E. apply bind_ok in E. destruct E as (s & Es & E).
    destruct (s_xvisit _ _ _ _ _ _ We Es sinv_init) as [Is Vs].
    cbn [o_afd guarded_ops] in E. destruct (c_afd rho rhoc _ _ _ E) as [Wr Vr]. split; [exact Wr|].
    rewrite Vr. unfold ExpandSound.sval in Vs. rewrite Vs. cbn [fst snd wsum]. rewrite qval_zero, qval_one. ring.
  Qed.
End Sound3.

(* value preservation: whenever the guarded run accepts e ([expand_guard], a boolean computed by the model),
   the model's expand returns a value whose denotation equals that of e under every valuation *)
Theorem expand_sound_guarded : forall deep e, expand_guard deep e = true ->
  exists r, expand deep e = Ok r /\ wf r = true /\
    forall rho rhoc : list N -> qi, qi_eq (denote rho rhoc r) (denote rho rhoc e).
Proof.
  intros deep e Gd. unfold expand_guard in Gd. apply andb_prop in Gd. destruct Gd as [We Ok_].
  destruct (expand_g deep e) as [r| | |] eqn:E; try discriminate Ok_.
  exists r. split; [apply expand_g_refines; exact E|].
  split; [exact (proj1 (expand_g_sound (fun _ => qi_zero) (fun _ => qi_zero) deep e r We E))|].
  intros rho rhoc. exact (proj2 (expand_g_sound rho rhoc deep e r We E)).
Qed.

(* the sound direction of "expand decides identity": equal expansions imply equal values *)
Theorem expand_decides_sound_guarded : forall p q rp rq,
  expand_guard true p = true -> expand_guard true q = true ->
  expand true p = Ok rp -> expand true q = Ok rq -> expr_eqb rp rq = true ->
  forall rho rhoc : list N -> qi, qi_eq (denote rho rhoc p) (denote rho rhoc q).
Proof.
  intros p q rp rq Gp Gq Ep Eq_ EQ rho rhoc.
  destruct (expand_sound_guarded true p Gp) as (rp' & Ep' & Wp & Vp).
  destruct (expand_sound_guarded true q Gq) as (rq' & Eq' & Wq & Vq).
  rewrite Ep in Ep'. injection Ep' as <-. rewrite Eq_ in Eq'. injection Eq' as <-.
  rewrite <- (Vp rho rhoc), <- (Vq rho rhoc). apply denote_respects; assumption.
Qed.
