(* C09 -- the library calls of the expand visitor, each guarded by the (boolean) precondition of the theorem
   that is available about it (C03 / C07 theorems of the arithmetic model).  A failed guard is the error
   [EXN_GUARD].  [expand_g] runs the SAME visitor (C09/ExpandModel.v) with these calls: when it returns a
   value, the unguarded model returns the same value (C09/ExpandMono.v) and the value is sound
   (C09/ExpandSound.v).  Covered: sums, products and squares of sums with exact coefficients over atoms with
   positive integer exponents.  NOT covered (guard always fails): negative powers of sums (div), and powers
   n >= 3 of sums (pow_expand: needs the multinomial theorem over the table, see MultinomialProofs.v). *)
From SE Require Export C09.ExpandModel Expr.ArithGuards.
From SE Require Import Expr.ArithMulProofs Expr.ArithPowProofs.
Local Open Scope Z_scope.

Definition EXN_GUARD : N := 95%N.
Definition guard {A : Type} (b : bool) (r : res A) : res A := if b then r else ErrExn EXN_GUARD.

(* every factor of the power product x carries a positive integer exponent *)
Definition pos_exp (v : expr) : bool := match v with ENum (NInt z) => 0 <? z | _ => false end.
Definition pos_terms (x : expr) : bool := forallb (fun p => pos_exp (snd p)) (mterms x).

Definition g_mul (a b : expr) : res expr :=
  guard (mul_operand_ok a && mul_operand_ok b && pos_terms a && pos_terms b) (a_mul a b).
Definition g_pow (a b : expr) : res expr :=
  guard (match b with
         | ENum (NInt n) => (0 <? n) && pow_operand_ok a n && pos_terms a
         | _ => false
         end) (a_pow a b).
Definition g_mfd (c : number) (d : mdict) : res expr :=
  guard (xok c && wf (mul_from_dict c d)) (Ok (mul_from_dict c d)).
(* boolean form of ArithDict.dinv *)
Definition dinv_b (d : adict) : bool :=
  forallb (fun p => wf (fst p) && xok (snd p) && negb (num_is_zero (snd p))) d && pairwise_ne (map fst d).
(* Add::from_dict: either the dictionary has legal keys only (den_afd), or the result is the plain Add node *)
Definition g_afd (c : number) (d : adict) : res expr :=
  guard (xok c && (adict_ok d || (dinv_b d && ((2 <=? length d)%nat || negb (num_is_zero c)))))
        (Ok (add_from_dict c d)).
Definition g_mulnum (x y : number) : res number := guard (xok x && xok y) (mulnum_ x y).
Definition g_nummul (x y : number) : res number := guard (xok x && xok y) (num_mul x y).
Definition g_addnum (x y : number) : res number := guard (xok x && xok y) (num_add x y).
Definition g_dat (d : adict) (c : number) (t : expr) : res adict :=
  guard (xok c && wf t) (add_dict_add_term d c t).

Definition guarded_ops : xops := {|
  o_mul := g_mul; o_pow := g_pow;
  o_div := fun _ _ => ErrExn EXN_GUARD;
  o_datn := fun _ _ _ => ErrExn EXN_GUARD;
  o_mdat := fun _ _ _ => ErrExn EXN_GUARD;
  o_mfd := g_mfd; o_afd := g_afd;
  o_mulnum := g_mulnum; o_nummul := g_nummul;
  o_numpow := fun _ _ => ErrExn EXN_GUARD;
  o_intpow := fun _ _ => ErrExn EXN_GUARD;
  o_addnum := g_addnum; o_dat := g_dat;
  o_multinomial := fun _ _ => ErrExn EXN_GUARD |}.

Definition expand_g (deep : bool) (e : expr) : res expr := expand_at guarded_ops (expand_fuel e) deep e.
(* the guard of the soundness theorem *)
Definition expand_guard (deep : bool) (e : expr) : bool := wf e && is_ok (expand_g deep e).
