(* C09 -- boolean predicates of the specification and guards of the theorems (definitions only; the
   checks evaluate them on implementation dumps). *)
From SE Require Export C09.ExpandModel Expr.ArithGuards.
Local Open Scope Z_scope.

Definition is_add (e : expr) : bool := match e with EAdd _ _ => true | _ => false end.

(* "no product or positive integer power of a sum outside function arguments": the set of expanded
   expressions.  Function applications and every other non-arithmetic node are leaves (expand does not
   look inside them); the exponent of a Pow is not an argument position of expand either. *)
Fixpoint expanded_n (fuel : nat) (e : expr) : bool :=
  match fuel with
  | O => false
  | S f =>
      match e with
      | EAdd _ d => forallb (fun p => expanded_n f (fst p)) d
      | EMul _ d =>
          forallb (fun p =>
            negb (is_add (fst p) && match snd p with ENum (NInt z) => 0 <? z | _ => false end)
            && expanded_n f (fst p)) d
          (* a product with a sum as a factor: the factor carries exponent one *)
      | EPow b x =>
          negb (is_add b && match x with ENum (NInt z) => 0 <? z | _ => false end) && expanded_n f b
      | _ => true
      end
  end.
Definition expanded (e : expr) : bool := expanded_n (S (size e)) e.

(* the polynomial fragment: sums, products and non-negative integer powers over exact real rationals
   and symbols *)
Definition qnum (n : number) : bool := match n with NInt _ | NRat _ _ => true | _ => false end.
Fixpoint poly_frag_n (fuel : nat) (e : expr) : bool :=
  match fuel with
  | O => false
  | S f =>
      match e with
      | ENum n => qnum n
      | ESym _ => true
      | EAdd c d => qnum c && forallb (fun p => qnum (snd p) && poly_frag_n f (fst p)) d
      | EMul c d =>
          qnum c && forallb (fun p => poly_frag_n f (fst p) &&
                                      match snd p with ENum (NInt z) => 0 <? z | _ => false end) d
      | EPow b x => poly_frag_n f b && match x with ENum (NInt z) => 0 <? z | _ => false end
      | _ => false
      end
  end.
Definition poly_frag (e : expr) : bool := poly_frag_n (S (size e)) e.

(* the same with opaque atoms (function applications, constants) as further indeterminates *)
Fixpoint xpoly_frag_n (fuel : nat) (e : expr) : bool :=
  match fuel with
  | O => false
  | S f =>
      match e with
      | ENum n => qnum n
      | EAdd c d => qnum c && forallb (fun p => qnum (snd p) && xpoly_frag_n f (fst p)) d
      | EMul c d =>
          qnum c && forallb (fun p => xpoly_frag_n f (fst p) &&
                                      match snd p with ENum (NInt z) => 0 <? z | _ => false end) d
      | EPow b x => xpoly_frag_n f b && match x with ENum (NInt z) => 0 <? z | _ => false end
      | _ => true
      end
  end.
Definition xpoly_frag (e : expr) : bool := xpoly_frag_n (S (size e)) e.
