(* C09 -- value preservation of expand: when the guarded run of the visitor (C09/ExpandGuardedOps.v) returns
   a value, that value denotes, in Q(i) and under EVERY valuation of the symbols and constants, the same
   number as the input.  The proof runs the visitor against the contracts of the guarded library calls
   (C07: mul_sound, pow_int_sound; C03: mul_canonical, pow_int_canonical; Add::dict_add_term: datm_spec). *)
From SE Require Import C09.ExpandGuardedOps C09.ExpandMono ExpSubs.QiRing Expr.DenotePow Expr.CmpProofs.
From Coq Require Import QArith Lia Setoid Morphisms.
Local Open Scope Z_scope.
Local Open Scope res_scope.

Lemma guard_ok : forall A b (r : res A) x, guard b r = Ok x -> b = true /\ r = Ok x.
Proof. intros A b r x H. unfold guard in H. destruct b; [split; [reflexivity | exact H] | discriminate H]. Qed.

Lemma bind_ok : forall A B (a : res A) (k : A -> res B) r, bind a k = Ok r -> exists x, a = Ok x /\ k x = Ok r.
Proof. intros A B a k r H. destruct a as [x| | |]; cbn in H; try discriminate H. exists x. split; [reflexivity | exact H]. Qed.

Lemma qval_one : qval (NInt 1) = qi_one.
Proof. reflexivity. Qed.
Lemma qval_zero : qval (NInt 0) = qi_zero.
Proof. reflexivity. Qed.

Lemma dinv_b_dinv : forall d, dinv_b d = true -> dinv d.
Proof.
  intros d H. unfold dinv_b in H. apply andb_prop in H. destruct H as [H N]. rewrite forallb_forall in H.
  split; [| |exact N].
  - intros p Hp. specialize (H p Hp). apply andb_prop in H. destruct H as [H _]. apply andb_prop in H. tauto.
  - intros p Hp. specialize (H p Hp). apply andb_prop in H. destruct H as [H Z]. apply andb_prop in H. destruct H as [_ X].
    split; [exact X|]. destruct (num_is_zero (snd p)); [discriminate Z | reflexivity].
Qed.

(* ---------- the number-level calls ---------- *)
Lemma c_mulnum : forall x y z, g_mulnum x y = Ok z ->
  xok x = true /\ xok y = true /\ xok z = true /\ qi_eq (qval z) (qi_mul (qval x) (qval y)).
Proof.
  intros x y z H. apply guard_ok in H. destruct H as [G H]. apply andb_prop in G. destruct G as [Xx Xy].
  split; [exact Xx|]. split; [exact Xy|]. unfold mulnum_, eq_one in H.
  destruct (SE.Expr.Cmp.num_eqb x (NInt 1)) eqn:E1.
  - injection H as <-. rewrite (cmp_num_eqb_eq x (NInt 1) Xx (xok_int 1) E1). split; [exact Xy|].
    rewrite qval_one. ring.
  - destruct (SE.Expr.Cmp.num_eqb y (NInt 1)) eqn:E2.
    + injection H as <-. rewrite (cmp_num_eqb_eq y (NInt 1) Xy (xok_int 1) E2). split; [exact Xx|].
      rewrite qval_one. ring.
    + destruct (num_mul_x x y Xx Xy) as (r & Er & Xr & Vr). rewrite Er in H. injection H as <-. split; assumption.
Qed.
Lemma c_nummul : forall x y z, g_nummul x y = Ok z ->
  xok x = true /\ xok y = true /\ xok z = true /\ qi_eq (qval z) (qi_mul (qval x) (qval y)).
Proof.
  intros x y z H. apply guard_ok in H. destruct H as [G H]. apply andb_prop in G. destruct G as [Xx Xy].
  destruct (num_mul_x x y Xx Xy) as (r & Er & Xr & Vr). rewrite Er in H. injection H as <-.
  exact (conj Xx (conj Xy (conj Xr Vr))).
Qed.
Lemma c_addnum : forall x y z, g_addnum x y = Ok z ->
  xok x = true /\ xok y = true /\ xok z = true /\ qi_eq (qval z) (qi_add (qval x) (qval y)).
Proof.
  intros x y z H. apply guard_ok in H. destruct H as [G H]. apply andb_prop in G. destruct G as [Xx Xy].
  destruct (num_add_x x y Xx Xy) as (r & Er & Xr & Vr). rewrite Er in H. injection H as <-.
  exact (conj Xx (conj Xy (conj Xr Vr))).
Qed.

Section Sound.
  Variables rho rhoc : list N -> qi.
  Notation den := (denote rho rhoc).
  Notation wp := (wprod rho rhoc).
  Notation G := guarded_ops.

  (* ---------- the expression-level calls ---------- *)
  Lemma pos_exp_inv : forall v, pos_exp v = true -> exists z, v = ENum (NInt z) /\ 0 < z.
  Proof.
    intros v H. destruct v as [[z| | | | | | ]| | | | | | | | | | | | | | | | | ]; try discriminate H.
    exists z. split; [reflexivity|]. cbn in H. apply Z.ltb_lt in H. exact H.
  Qed.

  Lemma pos_terms_dfn : forall a, pos_terms a = true -> mul_dfn rho rhoc a = true.
  Proof.
    intros a H. unfold mul_dfn, ddfn. unfold pos_terms in H. rewrite forallb_forall in *. intros p Hp.
    destruct (pos_exp_inv _ (H p Hp)) as (z & E & Z). rewrite E. cbn [pow_dfn].
    assert (0 <=? z = true) by (apply Z.leb_le; lia). rewrite H0. reflexivity.
  Qed.

  Lemma c_mul : forall a b r, g_mul a b = Ok r ->
    qi_eq (den r) (qi_mul (den a) (den b)) /\ wf r = true.
  Proof.
    intros a b r H. apply guard_ok in H. destruct H as [Gd H].
    apply andb_prop in Gd. destruct Gd as [Gd Pb]. apply andb_prop in Gd. destruct Gd as [Gd Pa].
    apply andb_prop in Gd. destruct Gd as [Oa Ob].
    unfold a_mul, api_run in H. cbn [api] in H.
    destruct (mul_sound rho rhoc _ a b r Oa Ob (pos_terms_dfn a Pa) (pos_terms_dfn b Pb) H) as [V _].
    destruct (mul_canonical _ a b r Oa Ob H) as (_ & _ & W). split; assumption.
  Qed.

  Lemma xmul_int : forall a b, xmul (NInt a) (NInt b) = NInt (a * b).
  Proof. reflexivity. Qed.

  Lemma pos_terms_pow_dfn : forall a n, 0 < n -> pos_terms a = true -> pow_dfn_ok rho rhoc a n = true.
  Proof.
    intros a n N H. unfold pow_dfn_ok, ddfn, pow_entries. unfold pos_terms in H. rewrite forallb_forall in *.
    intros p Hp. apply in_map_iff in Hp. destruct Hp as (q & <- & Hq). cbn [fst snd].
    destruct (pos_exp_inv _ (H q Hq)) as (z & E & Z). rewrite E. cbn [num_of]. rewrite xmul_int. cbn [pow_dfn].
    assert (0 <=? z * n = true) by (apply Z.leb_le; nia). rewrite H0. reflexivity.
  Qed.

  Lemma c_pow : forall a b r, g_pow a b = Ok r ->
    exists n, b = ENum (NInt n) /\ 0 < n /\ qi_eq (den r) (qi_powz (den a) n) /\ wf r = true.
  Proof.
    intros a b r H. apply guard_ok in H. destruct H as [Gd H].
    destruct b as [[n| | | | | | ]| | | | | | | | | | | | | | | | | ]; try discriminate Gd.
    apply andb_prop in Gd. destruct Gd as [Gd Pa]. apply andb_prop in Gd. destruct Gd as [Np Oa].
    apply Z.ltb_lt in Np. exists n. split; [reflexivity|]. split; [exact Np|].
    unfold a_pow, api_run in H. cbn [api] in H.
    destruct (pow_int_sound rho rhoc _ a n r Oa (pos_terms_dfn a Pa) (pos_terms_pow_dfn a n Np Pa) H) as [V _].
    destruct (pow_int_canonical _ a n r Oa H) as (_ & _ & W). split; assumption.
  Qed.

  Lemma c_mfd : forall c d t, g_mfd c d = Ok t ->
    t = mul_from_dict c d /\ xok c = true /\ wf t = true /\ qi_eq (den t) (qi_mul (wp d) (qval c)).
  Proof.
    intros c d t H. apply guard_ok in H. destruct H as [Gd H]. injection H as <-.
    apply andb_prop in Gd. destruct Gd as [Xc W].
    exact (conj eq_refl (conj Xc (conj W (den_mfd rho rhoc c d Xc)))).
  Qed.

  Lemma c_afd : forall c d t, g_afd c d = Ok t ->
    wf t = true /\ qi_eq (den t) (qi_add (qval c) (wsum den d)).
  Proof.
    intros c d t H. apply guard_ok in H. destruct H as [Gd H]. injection H as <-.
    apply andb_prop in Gd. destruct Gd as [Xc D].
    destruct (adict_ok d) eqn:AD; [split; [apply wf_afd; assumption | apply den_afd; assumption]|].
    cbn [orb] in D. apply andb_prop in D. destruct D as [Db L].
    assert (E : add_from_dict c d = EAdd c d).
    { destruct d as [|[k v] [|q r]]; [rewrite aok_nil in AD; discriminate AD | | reflexivity].
      cbn [add_from_dict]. cbn in L. destruct (num_is_zero c); [discriminate L | reflexivity]. }
    rewrite E. split; [apply wf_EAdd_intro; [exact Xc | apply dinv_b_dinv; exact Db] | apply eq_subrelation; [typeclasses eauto | apply denote_EAdd]].
  Qed.

  (* ---------- the visitor's state ---------- *)
  Definition sval (st : xst) : qi := qi_add (qval (fst st)) (wsum den (snd st)).
  Definition sinv (st : xst) : Prop := xok (fst st) = true /\ dinv (snd st).

  Lemma sinv_init : sinv (NInt 0, []).
  Proof. split; [reflexivity | apply dinv_nil]. Qed.
  Lemma sval_init : qi_eq (sval (NInt 0, [])) qi_zero.
  Proof. unfold sval. cbn [fst snd wsum]. rewrite qval_zero. ring. Qed.

  Lemma s_addnum : forall st v st', x_addnum G st v = Ok st' -> sinv st ->
    exists x, v = Ok x /\ xok x = true /\ sinv st' /\ qi_eq (sval st') (qi_add (sval st) (qval x)).
  Proof.
    intros [c d] v st' H [Xc I]. unfold x_addnum in H. cbn [fst snd] in *.
    apply bind_ok in H. destruct H as (x & -> & H). apply bind_ok in H. destruct H as (c' & Ec & H).
    injection H as <-. cbn [o_addnum guarded_ops] in Ec. destruct (c_addnum c x c' Ec) as (_ & Xx & Xc' & V).
    exists x. split; [reflexivity|]. split; [exact Xx|]. split; [split; assumption|].
    unfold sval. cbn [fst snd]. rewrite V. ring.
  Qed.

  Lemma s_dat : forall st c t st', x_dat G st c t = Ok st' -> sinv st ->
    exists x, c = Ok x /\ xok x = true /\ sinv st' /\ qi_eq (sval st') (qi_add (sval st) (qi_mul (qval x) (den t))).
  Proof.
    intros [c0 d] c t st' H [Xc I]. unfold x_dat in H. cbn [fst snd] in *.
    apply bind_ok in H. destruct H as (x & -> & H). apply bind_ok in H. destruct H as (d' & Ed & H).
    injection H as <-. cbn [o_dat guarded_ops] in Ed. apply guard_ok in Ed. destruct Ed as [Gd Ed].
    apply andb_prop in Gd. destruct Gd as [Xx Wt].
    destruct (datm_spec d x t I Wt Xx) as (d'' & E & I' & _ & _ & WS). rewrite E in Ed. injection Ed as <-.
    exists x. split; [reflexivity|]. split; [exact Xx|]. split; [split; assumption|].
    unfold sval. cbn [fst snd]. rewrite (WS den (denote_respects' rho rhoc)). ring.
  Qed.

  (* a loop over a list whose every step adds g(p) to the value of the state *)
  Fixpoint qsum {B : Type} (g : B -> qi) (l : list B) : qi :=
    match l with
    | [] => qi_zero
    | p :: r => qi_add (g p) (qsum g r)
    end.

  Lemma fold_sound : forall B (F : xst -> B -> res xst) (g : B -> qi) l,
    (forall s p s', In p l -> F s p = Ok s' -> sinv s -> sinv s' /\ qi_eq (sval s') (qi_add (sval s) (g p))) ->
    forall st st', fold_res F l st = Ok st' -> sinv st ->
      sinv st' /\ qi_eq (sval st') (qi_add (sval st) (qsum g l)).
  Proof.
    intros B F g l. induction l as [|p l IH]; intros H st st' E I; cbn [fold_res qsum] in *.
    - injection E as <-. split; [exact I | ring].
    - apply bind_ok in E. destruct E as (s1 & E1 & E).
      destruct (H st p s1 (or_introl eq_refl) E1 I) as [I1 V1].
      destruct (IH (fun s q s' Hq => H s q s' (or_intror Hq)) s1 st' E I1) as [I2 V2].
      split; [exact I2|]. rewrite V2, V1. ring.
  Qed.

  Lemma qsum_ext : forall B (g h : B -> qi) l, (forall p, In p l -> qi_eq (g p) (h p)) -> qi_eq (qsum g l) (qsum h l).
  Proof.
    intros B g h l. induction l as [|p l IH]; intros H; cbn [qsum]; [reflexivity|].
    rewrite (H p (or_introl eq_refl)), IH; [reflexivity|]. intros q Hq. apply H. right. exact Hq.
  Qed.
  Lemma qsum_scale : forall B (g : B -> qi) (a : qi) l, qi_eq (qsum (fun p => qi_mul a (g p)) l) (qi_mul a (qsum g l)).
  Proof. intros B g a l. induction l as [|p l IH]; cbn [qsum]; [ring|]. rewrite IH. ring. Qed.
  Lemma qsum_wsum : forall (d : adict), qi_eq (qsum (fun q => qi_mul (qval (snd q)) (den (fst q))) d) (wsum den d).
  Proof. induction d as [|q d IH]; cbn [qsum wsum]; [reflexivity|]. rewrite IH. reflexivity. Qed.

  (* ---------- _coef_dict_add_term ---------- *)
  Lemma s_cdat : forall st c term st', x_cdat G st c term = Ok st' -> sinv st ->
    sinv st' /\ qi_eq (sval st') (qi_add (sval st) (qi_mul (qval c) (den term))).
  Proof.
    intros st c term st' H I.
    assert (GEN : forall t, term = t ->
              x_dat G st (o_mulnum G c (fst (as_coef_term t))) (snd (as_coef_term t)) = Ok st' ->
              sinv st' /\ qi_eq (sval st') (qi_add (sval st) (qi_mul (qval c) (den t)))).
    { intros t _ E. destruct (s_dat _ _ _ _ E I) as (x & Ex & _ & I' & V). split; [exact I'|].
      cbn [o_mulnum guarded_ops] in Ex. destruct (c_mulnum _ _ _ Ex) as (_ & _ & _ & Vx).
      rewrite V, Vx. rewrite (den_as_coef_term rho rhoc t). ring. }
    destruct term; try (apply (GEN _ eq_refl); exact H).
    - (* Number *)
      cbn [x_cdat] in H. destruct (s_addnum _ _ _ H I) as (x & Ex & _ & I' & V). split; [exact I'|].
      cbn [o_mulnum guarded_ops] in Ex. destruct (c_mulnum _ _ _ Ex) as (_ & _ & _ & Vx).
      rewrite V, Vx. cbn [denote]. reflexivity.
    - (* Add *)
      cbn [x_cdat] in H. apply bind_ok in H. destruct H as (s1 & E1 & H).
      assert (STEP : forall s q s', In q d -> x_dat G s (o_mulnum G (snd q) c) (fst q) = Ok s' -> sinv s ->
                 sinv s' /\ qi_eq (sval s') (qi_add (sval s) (qi_mul (qval c) (qi_mul (qval (snd q)) (den (fst q)))))).
      { intros s q s' _ E Is. destruct (s_dat _ _ _ _ E Is) as (x & Ex & _ & I' & V). split; [exact I'|].
        cbn [o_mulnum guarded_ops] in Ex. destruct (c_mulnum _ _ _ Ex) as (_ & _ & _ & Vx). rewrite V, Vx. ring. }
      destruct (fold_sound _ _ _ d STEP st s1 E1 I) as [I1 V1].
      destruct (s_addnum _ _ _ H I1) as (x & Ex & _ & I' & V). split; [exact I'|].
      cbn [o_mulnum guarded_ops] in Ex. destruct (c_mulnum _ _ _ Ex) as (_ & _ & _ & Vx).
      rewrite V, V1, Vx, qsum_scale, qsum_wsum. rewrite denote_EAdd. ring.
  Qed.
End Sound.
