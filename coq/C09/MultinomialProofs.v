(* C09 -- the multinomial table of the model against the schoolbook table (C09/MultinomialSpec.v).
   PARTIAL: the equality is established on the finite universe 2 <= m <= 6, n <= 8 (every case computed
   completely inside Coq); the general loop-invariant proof (all m, n below 2^32) is not done. *)
From SE Require Import C09.ExpandModel C09.MultinomialSpec.
From Coq Require Import Lia.

Theorem multinomial_correct_small : forall m n : N,
  (2 <= m <= 6)%N -> (n <= 8)%N ->
  multinomial_coefficients m n = Ok (multinomial_table (N.to_nat m) (N.to_nat n)).
Proof.
  intros m n Hm Hn.
  assert (Hm' : (m = 2 \/ m = 3 \/ m = 4 \/ m = 5 \/ m = 6)%N) by lia.
  assert (Hn' : (n = 0 \/ n = 1 \/ n = 2 \/ n = 3 \/ n = 4 \/ n = 5 \/ n = 6 \/ n = 7 \/ n = 8)%N) by lia.
  clear Hm Hn.
  destruct Hm' as [->|[->|[->|[->| ->]]]];
    destruct Hn' as [->|[->|[->|[->|[->|[->|[->|[->| ->]]]]]]]]; vm_compute; reflexivity.
Qed.

(* m < 2 is rejected (SymEngineException), as in the C++ *)
Theorem multinomial_small_m : forall m n : N, (m < 2)%N -> multinomial_coefficients m n = ErrExn EXN_SYMENGINE.
Proof. intros m n H. unfold multinomial_coefficients. destruct (m <? 2)%N eqn:E; [reflexivity|]. apply N.ltb_ge in E. lia. Qed.
