(* C22 obligation: sub_mpoly, as madd_spec with the difference. *)
From SE Require Import C22.MPolySpec C22.MPolyDict C22.MPolyRec C22.MPolyArith C22.MPolyOps
  C22.MPolyPow C22.MPolyEval C22.MPolyEq C22.MPolyInst C22.MPolyMain.
Local Open Scope Z_scope.
Theorem C22_msub_spec :
  forall (V : Type) (vlt veqb : V -> V -> bool), order_laws vlt veqb ->
  forall a b : mpoly V, poly_ok vlt a -> poly_ok vlt b ->
    exists r, msub vlt veqb a b = Ok r /\ poly_ok vlt r /\
      (forall v, In v (pvars r) <-> In v (pvars a) \/ In v (pvars b)) /\
      forall m, coeff (cdict (pcont r)) m =
        coeffL (t_sub (lift veqb (pvars r) (pvars a) (cdict (pcont a)))
                   (lift veqb (pvars r) (pvars b) (cdict (pcont b)))) m.
Proof. exact @msub_spec. Qed.
Print Assumptions C22_msub_spec.
