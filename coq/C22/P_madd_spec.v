(* C22 obligation: add_mpoly of two well-formed polynomials over ANY two generator sets succeeds,
   is well-formed over the union of the generators, and its coefficient function is the sum of
   the operands written over the union. *)
From SE Require Import C22.MPolySpec C22.MPolyDict C22.MPolyRec C22.MPolyArith C22.MPolyOps
  C22.MPolyPow C22.MPolyEval C22.MPolyEq C22.MPolyInst C22.MPolyMain.
Local Open Scope Z_scope.
Theorem C22_madd_spec :
  forall (V : Type) (vlt veqb : V -> V -> bool), order_laws vlt veqb ->
  forall a b : mpoly V, poly_ok vlt a -> poly_ok vlt b ->
    exists r, madd vlt veqb a b = Ok r /\ poly_ok vlt r /\
      (forall v, In v (pvars r) <-> In v (pvars a) \/ In v (pvars b)) /\
      forall m, coeff (cdict (pcont r)) m =
        coeffL (t_add (lift veqb (pvars r) (pvars a) (cdict (pcont a)))
                   (lift veqb (pvars r) (pvars b) (cdict (pcont b)))) m.
Proof. exact @madd_spec. Qed.
Print Assumptions C22_madd_spec.
