(* C22 obligation: the boolean well-formedness check that the extracted model evaluates on every
   explored operand and result implies the hypothesis [poly_ok] of the C22 theorems. *)
From SE Require Import C22.MPolySpec C22.MPolyWfDef C22.MPolyWf.
Theorem C22_poly_okb_sound :
  forall (V : Type) (vlt : V -> V -> bool) (p : mpoly V), poly_okb vlt p = true -> poly_ok vlt p.
Proof. exact poly_okb_sound. Qed.
Print Assumptions C22_poly_okb_sound.
