(* C22 obligation: evaluation commutes with add_mpoly for all pairs of generator sets. *)
From SE Require Import C22.MPolySpec C22.MPolyDict C22.MPolyRec C22.MPolyArith C22.MPolyOps
  C22.MPolyPow C22.MPolyEval C22.MPolyEq C22.MPolyInst C22.MPolyMain.
Local Open Scope Z_scope.
Theorem C22_madd_eval :
  forall (V : Type) (vlt veqb : V -> V -> bool), order_laws vlt veqb ->
  forall (a b : mpoly V) (vals : list (V * Z)), poly_ok vlt a -> poly_ok vlt b ->
    covers vlt vals (pvars a) -> covers vlt vals (pvars b) ->
    exists r va vb, madd vlt veqb a b = Ok r /\ meval vlt a vals = Ok va /\ meval vlt b vals = Ok vb /\
      meval vlt r vals = Ok (va + vb).
Proof. exact @madd_eval. Qed.
Print Assumptions C22_madd_eval.
