(* C22 obligation: when n * (largest exponent) < 2^32, pow_mpoly is the mathematical n-th power. *)
From SE Require Import C22.MPolySpec C22.MPolyDict C22.MPolyRec C22.MPolyArith C22.MPolyOps
  C22.MPolyPow C22.MPolyEval C22.MPolyEq C22.MPolyInst C22.MPolyMain.
Local Open Scope Z_scope.
Theorem C22_mpow_spec_guarded :
  forall (V : Type) (vlt : V -> V -> bool) (a : mpoly V) (n : N), poly_ok vlt a ->
    (n * tmax (cdict (pcont a)) < W32)%N ->
    exists r, mpow (pow_fuel n) a n = Ok r /\ poly_ok vlt r /\ pvars r = pvars a /\
      forall m, coeff (cdict (pcont r)) m =
                coeffL (t_pow N.add (length (pvars a)) (cdict (pcont a)) (N.to_nat n)) m.
Proof. exact @mpow_spec_guarded. Qed.
Print Assumptions C22_mpow_spec_guarded.
