(* C22 -- MSymEnginePoly::__eq__ and MIntPoly::__hash__ (after the repairs 32f9657 / 6bb32d4):
   __eq__ holds exactly when both polynomials are the same constant, or have the same generators
   and the same coefficient function; it is an equivalence relation; equal polynomials have equal
   hashes. *)
From SE Require Import C22.MPolySpec C22.MPolyDict C22.MPolyRec C22.MPolyArith.
From Coq Require Import Lia ZifyBool ZifyNat ZifyN Sorted Permutation.
Local Open Scope Z_scope.

(* ---------------------------------------------------------------- unordered_eq *)
Lemma NoDup_pairs : forall (d : dict), NoDup (map fst d) -> NoDup d.
Proof. intros d H. eapply NoDup_map_inv. exact H. Qed.

Lemma dict_eqb_incl : forall a b, dict_eqb a b = true ->
  length a = length b /\ incl a b.
Proof.
  intros a b H. unfold dict_eqb in H. apply andb_prop in H as [H1 H2].
  split; [apply Nat.eqb_eq; assumption|].
  rewrite forallb_forall in H2. intros [k c] Hp. specialize (H2 _ Hp). cbn [fst snd] in H2.
  destruct (dfind k b) as [v|] eqn:F; [|discriminate]. apply Z.eqb_eq in H2. subst v.
  apply dfind_some_in. assumption.
Qed.

Lemma dict_eqb_perm : forall a b, NoDup (map fst a) -> dict_eqb a b = true -> Permutation a b.
Proof.
  intros a b ND H. destruct (dict_eqb_incl a b H) as [L I].
  apply NoDup_Permutation_bis; [apply NoDup_pairs; assumption|lia|assumption].
Qed.

Lemma perm_keys : forall (a b : dict), Permutation a b -> Permutation (map fst a) (map fst b).
Proof. intros. apply Permutation_map. assumption. Qed.

Lemma perm_coeff : forall a b m, NoDup (map fst a) -> Permutation a b -> coeff a m = coeff b m.
Proof.
  intros a b m ND P.
  assert (NDb : NoDup (map fst b)) by (eapply Permutation_NoDup; [apply perm_keys; eassumption|assumption]).
  unfold coeff. destruct (dfind m a) as [c|] eqn:Fa.
  - apply dfind_some_in in Fa. rewrite (in_dfind b m c NDb); [reflexivity|].
    eapply Permutation_in; eassumption.
  - destruct (dfind m b) as [c|] eqn:Fb; [|reflexivity].
    apply dfind_some_in in Fb. apply Permutation_sym in P.
    rewrite (in_dfind a m c ND) in Fa; [discriminate|]. eapply Permutation_in; eassumption.
Qed.

Definition vals_nz (d : dict) : Prop := Forall (fun p => snd p <> 0) d.

Lemma coeff_eq_incl : forall a b, NoDup (map fst a) -> vals_nz a ->
  (forall m, coeff a m = coeff b m) -> incl a b.
Proof.
  intros a b ND NZ H [k c] Hp.
  assert (Hc : c <> 0) by (unfold vals_nz in NZ; rewrite Forall_forall in NZ; apply (NZ _ Hp)).
  pose proof (in_dfind a k c ND Hp) as Fa. specialize (H k). unfold coeff in H. rewrite Fa in H.
  destruct (dfind k b) as [v|] eqn:Fb; [|congruence]. subst v. apply dfind_some_in. assumption.
Qed.

Lemma dict_eqb_iff : forall a b, NoDup (map fst a) -> NoDup (map fst b) -> vals_nz a -> vals_nz b ->
  (dict_eqb a b = true <-> forall m, coeff a m = coeff b m).
Proof.
  intros a b NDa NDb NZa NZb. split.
  - intros H m. apply perm_coeff; [assumption|]. apply dict_eqb_perm; assumption.
  - intros H.
    assert (Iab : incl a b) by (apply coeff_eq_incl; assumption).
    assert (Iba : incl b a) by (apply coeff_eq_incl; [assumption|assumption|intros m; symmetry; apply H]).
    unfold dict_eqb. apply andb_true_intro. split.
    + apply Nat.eqb_eq. apply Nat.le_antisymm; apply NoDup_incl_length; try assumption; apply NoDup_pairs; assumption.
    + apply forallb_forall. intros [k c] Hp. cbn [fst snd].
      rewrite (in_dfind b k c NDb (Iab _ Hp)). apply Z.eqb_refl.
Qed.

(* ---------------------------------------------------------------- hash: order of the buckets *)
Lemma lxor_fold_perm : forall (h : mono * Z -> N) a b seed, Permutation a b ->
  fold_left (fun s p => N.lxor s (h p)) a seed = fold_left (fun s p => N.lxor s (h p)) b seed.
Proof.
  intros h a b seed P. revert seed. induction P as [|x l l' P IH|x y l|l l' l'' P1 IH1 P2 IH2]; intros seed; cbn [fold_left].
  - reflexivity.
  - apply IH.
  - f_equal. rewrite !N.lxor_assoc. f_equal. apply N.lxor_comm.
  - rewrite IH1. apply IH2.
Qed.

Lemma is_constant_perm : forall a b, Permutation a b -> is_constant_dict a = is_constant_dict b.
Proof.
  intros a b P. destruct a as [|pa [|pa2 ra]].
  - apply Permutation_nil in P. subst. reflexivity.
  - apply Permutation_length_1_inv in P. subst. reflexivity.
  - pose proof (Permutation_length P) as L. destruct b as [|pb [|pb2 rb]]; try discriminate.
    destruct pa, pb. reflexivity.
Qed.

Lemma forallb_zeros : forall n, forallb (fun e => (e =? 0)%N) (zeros n) = true.
Proof.
  intros n. unfold zeros. apply forallb_forall. intros e He. apply repeat_spec in He. subst. reflexivity.
Qed.

Section Eq.
  Context {V : Type}.
  Variable vlt : V -> V -> bool.
  Variable veqb : V -> V -> bool.
  Variable vstr : V -> list N.
  Hypothesis laws : order_laws vlt veqb.

  Let eqb_eq := ol_eqb vlt veqb laws.

  Lemma vars_eqb_eq : forall a b, vars_eqb veqb a b = true <-> a = b.
  Proof.
    induction a as [|x a IH]; destruct b as [|y b]; cbn [vars_eqb]; split; intros H;
      try reflexivity; try discriminate.
    - apply andb_prop in H as [H1 H2]. apply eqb_eq in H1. apply IH in H2. congruence.
    - injection H as -> ->. apply andb_true_intro. split; [apply eqb_eq; reflexivity|apply IH; reflexivity].
  Qed.

  Notation dct a := (cdict (pcont a)).
  Notation zv a := (zeros (len (pvars a))).

  (* the two ways of being equal *)
  Definition isconst (a : mpoly V) : Prop := forall m, m <> zv a -> coeff (dct a) m = 0.
  Definition cv (a : mpoly V) : Z := coeff (dct a) (zv a).
  Definition same_poly (a b : mpoly V) : Prop :=
    (isconst a /\ isconst b /\ cv a = cv b) \/
    (pvars a = pvars b /\ forall m, coeff (dct a) m = coeff (dct b) m).

  Definition zbranch (a b : mpoly V) : bool := vars_eqb veqb (pvars a) (pvars b) && dict_eqb (dct a) (dct b).
  Definition constlike (a b : mpoly V) : Prop :=
    (dct a = [] /\ dct b = []) \/ (exists c, dct a = [(zv a, c)] /\ dct b = [(zv b, c)]).

  Lemma meq_true_cases : forall a b, meq veqb a b = true -> zbranch a b = true \/ constlike a b.
  Proof.
    intros a b. unfold meq, zbranch, constlike.
    destruct (dct a) as [|[ka ca] [|pa2 ra]]; destruct (dct b) as [|[kb cb] [|pb2 rb]]; intros H;
      try (left; exact H); try (right; left; split; reflexivity).
    destruct (ca =? cb) eqn:Ec; cbn [negb] in H; [|discriminate]. apply Z.eqb_eq in Ec. subst cb.
    destruct (mono_eqb ka kb && vars_eqb veqb (pvars a) (pvars b)) eqn:T1.
    - left. apply andb_prop in T1 as [T1 T2]. rewrite T2. cbn [andb]. unfold dict_eqb. cbn [length Nat.eqb forallb fst snd dfind].
      rewrite T1. rewrite Z.eqb_refl. reflexivity.
    - destruct (mono_eqb ka (zv a) && mono_eqb kb (zv b)) eqn:T2; [|discriminate].
      apply andb_prop in T2 as [T2 T3]. apply mono_eqb_eq in T2, T3. subst. right. right. exists ca. split; reflexivity.
  Qed.

  Lemma meq_from_zbranch : forall a b, zbranch a b = true -> meq veqb a b = true.
  Proof.
    intros a b. unfold meq, zbranch.
    destruct (dct a) as [|[ka ca] [|pa2 ra]]; destruct (dct b) as [|[kb cb] [|pb2 rb]]; intros H;
      try exact H; try reflexivity.
    apply andb_prop in H as [H1 H2]. unfold dict_eqb in H2. cbn [length Nat.eqb forallb fst snd dfind andb] in H2.
    destruct (mono_eqb ka kb) eqn:E; [|discriminate]. rewrite andb_true_r in H2. rewrite H2. cbn [negb].
    rewrite H1. reflexivity.
  Qed.

  Lemma meq_from_constlike : forall a b, constlike a b -> meq veqb a b = true.
  Proof.
    intros a b [[Ea Eb]|[c [Ea Eb]]]; unfold meq; rewrite Ea, Eb; [reflexivity|].
    rewrite Z.eqb_refl. cbn [negb]. rewrite !mono_eqb_refl. cbn [andb].
    destruct (mono_eqb (zv a) (zv b) && vars_eqb veqb (pvars a) (pvars b)); reflexivity.
  Qed.

  Lemma poly_ok_dict : forall a, poly_ok vlt a -> dict_ok (length (pvars a)) (dct a).
  Proof. intros a [_ [L O]]. unfold cont_ok in O. rewrite <- L, len_length in O. exact O. Qed.
  Lemma dict_ok_nz : forall n d, dict_ok n d -> vals_nz d.
  Proof. intros n d [_ H]. eapply Forall_impl; [|exact H]. intros p [_ K]. exact K. Qed.

  Lemma isconst_shape : forall a, poly_ok vlt a -> isconst a ->
    dct a = [] \/ exists c, dct a = [(zv a, c)].
  Proof.
    intros a Ha Hc. pose proof (poly_ok_dict a Ha) as [ND HF]. unfold isconst in Hc.
    destruct (dct a) as [|[k c] d'] eqn:D; [left; reflexivity|right].
    inversion HF as [|? ? [_ Hnz] HF']; subst. cbn [snd] in Hnz.
    destruct (mono_eq_dec k (zv a)) as [->|Hne].
    - exists c. f_equal. destruct d' as [|[k2 c2] d'']; [reflexivity|exfalso].
      inversion ND as [|? ? Hn ND']; subst. inversion HF' as [|? ? [_ Hnz2] _]; subst. cbn [snd] in Hnz2.
      assert (k2 <> zv a) by (intros E; apply Hn; left; assumption).
      specialize (Hc k2 H). rewrite coeff_cons in Hc.
      destruct (mono_eqb k2 (zv a)) eqn:E2; [apply mono_eqb_eq in E2; contradiction|].
      rewrite coeff_cons, mono_eqb_refl in Hc. contradiction.
    - exfalso. specialize (Hc k Hne). rewrite coeff_cons, mono_eqb_refl in Hc. contradiction.
  Qed.

  Lemma constlike_iff : forall a b, poly_ok vlt a -> poly_ok vlt b ->
    (constlike a b <-> isconst a /\ isconst b /\ cv a = cv b).
  Proof.
    intros a b Ha Hb. split.
    - intros [[Ea Eb]|[c [Ea Eb]]]; unfold isconst, cv; rewrite Ea, Eb.
      + repeat split; intros; reflexivity.
      + repeat split.
        * intros m Hm. rewrite coeff_cons. apply mono_eqb_neq in Hm. rewrite Hm. reflexivity.
        * intros m Hm. rewrite coeff_cons. apply mono_eqb_neq in Hm. rewrite Hm. reflexivity.
        * rewrite !coeff_cons, !mono_eqb_refl. reflexivity.
    - intros [Ca [Cb Ecv]].
      pose proof (dict_ok_nz _ _ (poly_ok_dict a Ha)) as NZa. pose proof (dict_ok_nz _ _ (poly_ok_dict b Hb)) as NZb.
      unfold cv in Ecv.
      destruct (isconst_shape a Ha Ca) as [Ea|[ca Ea]]; destruct (isconst_shape b Hb Cb) as [Eb|[cb Eb]];
        rewrite Ea, Eb in *.
      + left. split; assumption.
      + exfalso. rewrite coeff_cons, mono_eqb_refl in Ecv. inversion NZb as [|? ? Hnz _]. cbn [snd] in Hnz. apply Hnz. rewrite <- Ecv. reflexivity.
      + exfalso. rewrite coeff_cons, mono_eqb_refl in Ecv. inversion NZa as [|? ? Hnz _]. cbn [snd] in Hnz. apply Hnz. rewrite Ecv. reflexivity.
      + right. rewrite !coeff_cons, !mono_eqb_refl in Ecv. subst cb. exists ca. split; assumption.
  Qed.

  Lemma zbranch_iff : forall a b, poly_ok vlt a -> poly_ok vlt b ->
    (zbranch a b = true <-> pvars a = pvars b /\ forall m, coeff (dct a) m = coeff (dct b) m).
  Proof.
    intros a b Ha Hb. unfold zbranch. rewrite andb_true_iff, vars_eqb_eq.
    pose proof (poly_ok_dict a Ha) as Da. pose proof (poly_ok_dict b Hb) as Db.
    rewrite (dict_eqb_iff (dct a) (dct b) (proj1 Da) (proj1 Db) (dict_ok_nz _ _ Da) (dict_ok_nz _ _ Db)).
    reflexivity.
  Qed.

  (* __eq__ decides [same_poly] *)
  Theorem meq_iff : forall a b, poly_ok vlt a -> poly_ok vlt b ->
    (meq veqb a b = true <-> same_poly a b).
  Proof.
    intros a b Ha Hb. unfold same_poly. rewrite <- (constlike_iff a b Ha Hb), <- (zbranch_iff a b Ha Hb). split.
    - intros H. destruct (meq_true_cases a b H); [right|left]; assumption.
    - intros [H|H]; [apply meq_from_constlike|apply meq_from_zbranch]; assumption.
  Qed.

  Lemma isconst_transfer : forall a b, pvars a = pvars b -> (forall m, coeff (dct a) m = coeff (dct b) m) ->
    isconst a -> isconst b /\ cv b = cv a.
  Proof.
    intros a b Ev Ec Ca. unfold isconst, cv in *. rewrite <- Ev. split.
    - intros m Hm. rewrite <- Ec. apply Ca. assumption.
    - symmetry. apply Ec.
  Qed.

  Theorem meq_is_equivalence :
    (forall a, poly_ok vlt a -> meq veqb a a = true) /\
    (forall a b, poly_ok vlt a -> poly_ok vlt b -> meq veqb a b = true -> meq veqb b a = true) /\
    (forall a b c, poly_ok vlt a -> poly_ok vlt b -> poly_ok vlt c ->
       meq veqb a b = true -> meq veqb b c = true -> meq veqb a c = true).
  Proof.
    split; [|split].
    - intros a Ha. apply (meq_iff a a Ha Ha). right. split; reflexivity.
    - intros a b Ha Hb H. apply (meq_iff b a Hb Ha). apply (meq_iff a b Ha Hb) in H.
      destruct H as [[Ca [Cb E]]|[Ev Ec]]; [left; repeat split; try assumption; symmetry; assumption|].
      right. split; [symmetry; assumption|intros m; symmetry; apply Ec].
    - intros a b c Ha Hb Hc H1 H2. apply (meq_iff a c Ha Hc).
      apply (meq_iff a b Ha Hb) in H1. apply (meq_iff b c Hb Hc) in H2.
      destruct H1 as [[Ca [Cb E1]]|[Ev1 Ec1]]; destruct H2 as [[Cb' [Cc E2]]|[Ev2 Ec2]].
      + left. repeat split; try assumption. congruence.
      + destruct (isconst_transfer b c Ev2 Ec2 Cb) as [Cc E]. left. repeat split; try assumption. congruence.
      + assert (Ev1' : pvars b = pvars a) by (symmetry; assumption).
        assert (Ec1' : forall m, coeff (dct b) m = coeff (dct a) m) by (intros m; symmetry; apply Ec1).
        destruct (isconst_transfer b a Ev1' Ec1' Cb') as [Ca E]. left. repeat split; try assumption. congruence.
      + right. split; [congruence|]. intros m. rewrite Ec1. apply Ec2.
  Qed.

  (* equal polynomials have equal hashes (the law of C01, for MIntPoly) *)
  Theorem meq_hash : forall a b, poly_ok vlt a -> poly_ok vlt b ->
    meq veqb a b = true -> mhash vstr a = mhash vstr b.
  Proof.
    intros a b Ha Hb H. destruct (meq_true_cases a b H) as [Z|[[Ea Eb]|[c [Ea Eb]]]].
    - unfold zbranch in Z. apply andb_prop in Z as [Z1 Z2]. apply vars_eqb_eq in Z1.
      pose proof (dict_eqb_perm _ _ (proj1 (poly_ok_dict a Ha)) Z2) as P.
      unfold mhash. rewrite Z1. rewrite (is_constant_perm _ _ P).
      destruct (is_constant_dict (dct b)).
      + unfold dict_hash_const. apply lxor_fold_perm. assumption.
      + unfold dict_hash. apply lxor_fold_perm. assumption.
    - unfold mhash. rewrite Ea, Eb. reflexivity.
    - unfold mhash. rewrite Ea, Eb. cbn [is_constant_dict]. rewrite !forallb_zeros. reflexivity.
  Qed.
End Eq.
