(* C22 -- soundness of the executable well-formedness check. *)
From SE Require Import C22.MPolySpec C22.MPolyDict C22.MPolyWfDef.
From Coq Require Import Lia ZifyBool ZifyNat ZifyN Sorted.

Lemma nodupb_sound : forall l, nodupb l = true -> NoDup l.
Proof.
  induction l as [|k r IH]; intros H; [constructor|].
  cbn [nodupb] in H. apply andb_prop in H as [H1 H2]. constructor; [|apply IH; assumption].
  intros Hin. apply negb_true_iff in H1.
  assert (existsb (mono_eqb k) r = true) by (apply existsb_exists; exists k; split; [assumption|apply mono_eqb_refl]).
  congruence.
Qed.

Lemma cont_okb_sound : forall c, cont_okb c = true -> cont_ok c.
Proof.
  intros c H. unfold cont_okb in H. apply andb_prop in H as [H1 H2].
  split; [apply nodupb_sound; assumption|].
  apply Forall_forall. intros p Hp. rewrite forallb_forall in H2. specialize (H2 _ Hp).
  unfold entry_okb in H2. apply andb_prop in H2 as [H2 H3]. apply andb_prop in H2 as [H2 H4].
  split; [split|].
  - apply Nat.eqb_eq. assumption.
  - apply Forall_forall. intros e He. rewrite forallb_forall in H4. specialize (H4 _ He).
    apply N.ltb_lt. assumption.
  - apply negb_true_iff in H3. apply Z.eqb_neq. assumption.
Qed.

Theorem poly_okb_sound : forall (V : Type) (vlt : V -> V -> bool) (p : mpoly V),
  poly_okb vlt p = true -> poly_ok vlt p.
Proof.
  intros V vlt p H. unfold poly_okb in H. apply andb_prop in H as [H H3]. apply andb_prop in H as [H1 H2].
  split; [|split].
  - clear H2 H3. unfold sorted. induction (pvars p) as [|a r IH]; [constructor|].
    cbn [sortedb] in H1. apply andb_prop in H1 as [Ha Hr]. constructor; [apply IH; assumption|].
    apply Forall_forall. intros b Hb. rewrite forallb_forall in Ha. apply Ha. assumption.
  - apply N.eqb_eq. assumption.
  - apply cont_okb_sound. assumption.
Qed.
