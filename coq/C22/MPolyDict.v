(* C22 -- lemmas on formal sums (sumL / coeffL / peq) and on the association-list dictionary
   (dfind / derase / dupd), and the specifications of the container operations
   operator+=, operator-=, unary minus. *)
From SE Require Import C22.MPolySpec.
From Coq Require Import Lia ZifyBool ZifyNat ZifyN.
Local Open Scope Z_scope.

(* ---------------------------------------------------------------- mono_eqb *)
Lemma mono_eqb_eq : forall a b, mono_eqb a b = true <-> a = b.
Proof.
  induction a as [|x a IH]; destruct b as [|y b]; simpl; split; intros H;
    try reflexivity; try discriminate.
  - apply andb_prop in H as [H1 H2]. apply N.eqb_eq in H1. apply IH in H2. congruence.
  - injection H as -> ->. rewrite N.eqb_refl. simpl. apply IH. reflexivity.
Qed.
Lemma mono_eqb_refl : forall a, mono_eqb a a = true.
Proof. intros a. apply mono_eqb_eq. reflexivity. Qed.
Lemma mono_eqb_neq : forall a b, mono_eqb a b = false <-> a <> b.
Proof.
  intros a b. split.
  - intros H E. apply mono_eqb_eq in E. congruence.
  - intros H. destruct (mono_eqb a b) eqn:E; [|reflexivity]. apply mono_eqb_eq in E. contradiction.
Qed.
Lemma mono_eqb_sym : forall a b, mono_eqb a b = mono_eqb b a.
Proof.
  intros a b. destruct (mono_eqb a b) eqn:E.
  - apply mono_eqb_eq in E. subst. symmetry. apply mono_eqb_refl.
  - apply mono_eqb_neq in E. symmetry. apply mono_eqb_neq. congruence.
Qed.
Lemma mono_eq_dec : forall a b : mono, {a = b} + {a <> b}.
Proof. intros a b. apply list_eq_dec. apply N.eq_dec. Qed.

Lemma ind_refl : forall k, ind k k = 1.
Proof. intros k. unfold ind. rewrite mono_eqb_refl. reflexivity. Qed.
Lemma ind_neq : forall k m, k <> m -> ind k m = 0.
Proof. intros k m H. unfold ind. apply mono_eqb_neq in H. rewrite H. reflexivity. Qed.
Lemma ind_sym : forall k m, ind k m = ind m k.
Proof. intros k m. unfold ind. rewrite mono_eqb_sym. reflexivity. Qed.

(* ---------------------------------------------------------------- sumL *)
Lemma sumL_app : forall A B g, sumL (A ++ B) g = sumL A g + sumL B g.
Proof. induction A as [|[k c] A IH]; intros B g; simpl; [reflexivity|]. rewrite IH. ring. Qed.
Lemma sumL_ext : forall A g h, (forall k, g k = h k) -> sumL A g = sumL A h.
Proof. induction A as [|[k c] A IH]; intros g h E; simpl; [reflexivity|]. rewrite (IH g h E), E. reflexivity. Qed.
Lemma sumL_scale : forall A x g, sumL A (fun k => x * g k) = x * sumL A g.
Proof. induction A as [|[k c] A IH]; intros x g; simpl; [ring|]. rewrite IH. ring. Qed.
Lemma sumL_plus : forall A g h, sumL A (fun k => g k + h k) = sumL A g + sumL A h.
Proof. induction A as [|[k c] A IH]; intros g h; simpl; [ring|]. rewrite IH. ring. Qed.
Lemma sumL_zero : forall A, sumL A (fun _ => 0) = 0.
Proof. induction A as [|[k c] A IH]; simpl; [reflexivity|]. rewrite IH. ring. Qed.
Lemma sumL_swap : forall A B (h : mono -> mono -> Z),
  sumL A (fun ka => sumL B (fun kb => h ka kb)) = sumL B (fun kb => sumL A (fun ka => h ka kb)).
Proof.
  induction A as [|[k c] A IH]; intros B h; simpl.
  - symmetry. apply sumL_zero.
  - rewrite IH. rewrite <- sumL_scale. rewrite <- sumL_plus. reflexivity.
Qed.

Lemma coeffL_nil : forall m, coeffL [] m = 0.
Proof. reflexivity. Qed.
Lemma coeffL_cons : forall k c A m, coeffL ((k, c) :: A) m = c * ind k m + coeffL A m.
Proof. reflexivity. Qed.
Lemma coeffL_app : forall A B m, coeffL (A ++ B) m = coeffL A m + coeffL B m.
Proof. intros. apply sumL_app. Qed.
Lemma coeffL_notin : forall A m, ~ In m (map fst A) -> coeffL A m = 0.
Proof.
  induction A as [|[k c] A IH]; intros m H; [reflexivity|].
  rewrite coeffL_cons. simpl in H. rewrite IH by tauto. rewrite ind_neq by tauto. ring.
Qed.

(* sum over a list of keys *)
Fixpoint sumK (K : list mono) (f : mono -> Z) : Z :=
  match K with [] => 0 | k :: r => f k + sumK r f end.
Lemma sumK_ext : forall K f g, (forall k, In k K -> f k = g k) -> sumK K f = sumK K g.
Proof.
  induction K as [|k K IH]; intros f g E; simpl; [reflexivity|].
  rewrite (E k) by (left; reflexivity). rewrite (IH f g); [reflexivity|]. intros; apply E; right; assumption.
Qed.
Lemma sumK_plus : forall K f g, sumK K (fun k => f k + g k) = sumK K f + sumK K g.
Proof. induction K as [|k K IH]; intros; simpl; [reflexivity|]. rewrite IH. ring. Qed.
Lemma sumK_scale : forall K x f, sumK K (fun k => x * f k) = x * sumK K f.
Proof. induction K as [|k K IH]; intros; simpl; [ring|]. rewrite IH. ring. Qed.
Lemma sumK_ind_notin : forall K k0 g, ~ In k0 K -> sumK K (fun k => ind k0 k * g k) = 0.
Proof.
  induction K as [|k K IH]; intros k0 g H; simpl; [reflexivity|].
  simpl in H. rewrite (IH k0 g) by tauto. rewrite (ind_neq k0 k) by (intros E; apply H; left; congruence). ring.
Qed.
Lemma sumK_ind : forall K k0 g, NoDup K -> In k0 K -> sumK K (fun k => ind k0 k * g k) = g k0.
Proof.
  induction K as [|k K IH]; intros k0 g ND HIn; simpl; [contradiction|].
  inversion ND as [|? ? Hn ND']; subst.
  destruct (mono_eq_dec k k0) as [->|Hne].
  - rewrite ind_refl. rewrite (sumK_ind_notin K k0 g) by assumption. ring.
  - destruct HIn as [E|HIn]; [contradiction|].
    rewrite (IH k0 g) by assumption. rewrite (ind_neq k0 k) by congruence. ring.
Qed.

(* a weighted sum over a formal sum only depends on its coefficient function *)
Lemma sumL_via_keys : forall A K g, NoDup K -> incl (map fst A) K ->
  sumL A g = sumK K (fun k => coeffL A k * g k).
Proof.
  induction A as [|[k0 c0] A IH]; intros K g ND Hincl.
  - unfold coeffL. simpl. clear. induction K as [|k K IHK]; simpl; [reflexivity|]. rewrite <- IHK. ring.
  - simpl sumL. rewrite (IH K g ND) by (intros x Hx; apply Hincl; right; assumption).
    rewrite (sumK_ext K (fun k => coeffL ((k0, c0) :: A) k * g k)
                        (fun k => c0 * (ind k0 k * g k) + coeffL A k * g k))
      by (intros; rewrite coeffL_cons; ring).
    rewrite sumK_plus, sumK_scale. rewrite sumK_ind; [reflexivity|assumption|].
    apply Hincl. left. reflexivity.
Qed.

Lemma sumL_peq : forall A B g, peq A B -> sumL A g = sumL B g.
Proof.
  intros A B g H.
  set (K := nodup mono_eq_dec (map fst A ++ map fst B)).
  assert (ND : NoDup K) by apply NoDup_nodup.
  rewrite (sumL_via_keys A K g ND), (sumL_via_keys B K g ND).
  - apply sumK_ext. intros k _. rewrite (H k). reflexivity.
  - intros x Hx. apply nodup_In. apply in_or_app. right. assumption.
  - intros x Hx. apply nodup_In. apply in_or_app. left. assumption.
Qed.

Lemma peq_refl : forall A, peq A A.
Proof. intros A m. reflexivity. Qed.
Lemma peq_sym : forall A B, peq A B -> peq B A.
Proof. intros A B H m. symmetry. apply H. Qed.
Lemma peq_trans : forall A B C, peq A B -> peq B C -> peq A C.
Proof. intros A B C H1 H2 m. rewrite H1. apply H2. Qed.

(* ---------------------------------------------------------------- dfind / derase / dupd *)
Lemma dfind_cons : forall m k c d,
  dfind m ((k, c) :: d) = if mono_eqb m k then Some c else dfind m d.
Proof. reflexivity. Qed.

Lemma dfind_none_notin : forall d m, dfind m d = None <-> ~ In m (map fst d).
Proof.
  induction d as [|[k c] d IH]; intros m; simpl.
  - tauto.
  - destruct (mono_eqb m k) eqn:E.
    + apply mono_eqb_eq in E. subst. split; [discriminate|]. intros H. exfalso. apply H. left. reflexivity.
    + apply mono_eqb_neq in E. rewrite IH. split; intros H; [intros [F|F]; [congruence|contradiction]|tauto].
Qed.
Lemma dfind_some_in : forall d m c, dfind m d = Some c -> In (m, c) d.
Proof.
  induction d as [|[k c0] d IH]; intros m c H; simpl in *; [discriminate|].
  destruct (mono_eqb m k) eqn:E.
  - apply mono_eqb_eq in E. injection H as ->. left. congruence.
  - right. apply IH. assumption.
Qed.
Lemma in_dfind : forall d m c, NoDup (map fst d) -> In (m, c) d -> dfind m d = Some c.
Proof.
  induction d as [|[k c0] d IH]; intros m c ND H; simpl in *; [contradiction|].
  inversion ND as [|? ? Hn ND']; subst.
  destruct H as [H|H].
  - injection H as -> ->. rewrite mono_eqb_refl. reflexivity.
  - destruct (mono_eqb m k) eqn:E.
    + apply mono_eqb_eq in E. subst. exfalso. apply Hn. apply (in_map fst) in H. assumption.
    + apply IH; assumption.
Qed.

Lemma coeff_cons : forall m k c d, coeff ((k, c) :: d) m = if mono_eqb m k then c else coeff d m.
Proof. intros. unfold coeff. rewrite dfind_cons. destruct (mono_eqb m k); reflexivity. Qed.

Lemma coeff_coeffL : forall d m, NoDup (map fst d) -> coeff d m = coeffL d m.
Proof.
  induction d as [|[k c] d IH]; intros m ND; [reflexivity|].
  inversion ND as [|? ? Hn ND']; subst.
  rewrite coeff_cons, coeffL_cons. unfold ind. rewrite (mono_eqb_sym k m).
  destruct (mono_eqb m k) eqn:E.
  - apply mono_eqb_eq in E. subst. rewrite coeffL_notin by assumption. ring.
  - rewrite IH by assumption. ring.
Qed.

Lemma keys_derase_incl : forall d k x, In x (map fst (derase k d)) -> In x (map fst d).
Proof.
  induction d as [|[k' c] d IH]; intros k x H; simpl in *; [assumption|].
  destruct (mono_eqb k k'); simpl in *; [right; assumption|].
  destruct H as [H|H]; [left; assumption|right; eapply IH; eassumption].
Qed.
Lemma NoDup_derase : forall d k, NoDup (map fst d) -> NoDup (map fst (derase k d)).
Proof.
  induction d as [|[k' c] d IH]; intros k ND; simpl in *; [assumption|].
  inversion ND as [|? ? Hn ND']; subst.
  destruct (mono_eqb k k'); simpl; [assumption|].
  constructor; [|apply IH; assumption]. intros H. apply Hn. eapply keys_derase_incl. eassumption.
Qed.
Lemma Forall_derase : forall (P : mono * Z -> Prop) d k, Forall P d -> Forall P (derase k d).
Proof.
  induction d as [|[k' c] d IH]; intros k H; simpl; [assumption|].
  inversion H; subst. destruct (mono_eqb k k'); [assumption|]. constructor; [assumption|apply IH; assumption].
Qed.
Lemma dfind_derase : forall d k m, NoDup (map fst d) ->
  dfind m (derase k d) = if mono_eqb m k then None else dfind m d.
Proof.
  induction d as [|[k' c] d IH]; intros k m ND; simpl.
  - destruct (mono_eqb m k); reflexivity.
  - inversion ND as [|? ? Hn ND']; subst.
    destruct (mono_eqb k k') eqn:E.
    + apply mono_eqb_eq in E. subst k'.
      destruct (mono_eqb m k) eqn:E2; [|reflexivity].
      apply mono_eqb_eq in E2. subst. apply dfind_none_notin. assumption.
    + simpl. destruct (mono_eqb m k') eqn:E3.
      * destruct (mono_eqb m k) eqn:E2; [|reflexivity].
        apply mono_eqb_eq in E2, E3. subst. rewrite mono_eqb_refl in E. discriminate.
      * apply IH. assumption.
Qed.

Lemma keys_dupd : forall d k v, map fst (dupd k v d) = map fst d.
Proof.
  induction d as [|[k' c] d IH]; intros k v; simpl; [reflexivity|].
  destruct (mono_eqb k k'); simpl; [reflexivity|]. rewrite IH. reflexivity.
Qed.
Lemma Forall_dupd : forall (P : mono * Z -> Prop) d k v, Forall P d -> P (k, v) -> Forall P (dupd k v d).
Proof.
  induction d as [|[k' c] d IH]; intros k v H Hp; simpl; [constructor|].
  inversion H; subst. destruct (mono_eqb k k') eqn:E.
  - apply mono_eqb_eq in E. subst. constructor; assumption.
  - constructor; [assumption|apply IH; assumption].
Qed.
Lemma dfind_dupd : forall d k v m,
  dfind m (dupd k v d) =
  if mono_eqb m k then match dfind k d with Some _ => Some v | None => None end else dfind m d.
Proof.
  induction d as [|[k' c] d IH]; intros k v m; simpl.
  - destruct (mono_eqb m k); reflexivity.
  - destruct (mono_eqb k k') eqn:E; simpl.
    + apply mono_eqb_eq in E. subst k'. destruct (mono_eqb m k); reflexivity.
    + destruct (mono_eqb m k') eqn:E3.
      * destruct (mono_eqb m k) eqn:E2; [|reflexivity].
        apply mono_eqb_eq in E2, E3. subst. rewrite mono_eqb_refl in E. discriminate.
      * apply IH.
Qed.

(* ---------------------------------------------------------------- dnz *)
Lemma keys_dnz_incl : forall d x, In x (map fst (dnz d)) -> In x (map fst d).
Proof.
  intros d x H. apply in_map_iff in H as [p [E H]]. apply filter_In in H as [H _].
  apply in_map_iff. exists p. split; assumption.
Qed.
Lemma NoDup_dnz : forall d, NoDup (map fst d) -> NoDup (map fst (dnz d)).
Proof.
  induction d as [|[k c] d IH]; intros ND; simpl; [constructor|].
  inversion ND as [|? ? Hn ND']; subst.
  destruct (negb (c =? 0)); simpl; [|apply IH; assumption].
  constructor; [|apply IH; assumption]. intros H. apply Hn. apply keys_dnz_incl. assumption.
Qed.
Lemma coeff_dnz : forall d m, NoDup (map fst d) -> coeff (dnz d) m = coeff d m.
Proof.
  induction d as [|[k c] d IH]; intros m ND; [reflexivity|].
  inversion ND as [|? ? Hn ND']; subst. simpl.
  destruct (c =? 0) eqn:Ec; simpl.
  - rewrite coeff_cons. rewrite IH by assumption.
    destruct (mono_eqb m k) eqn:E; [|reflexivity].
    apply mono_eqb_eq in E. subst. unfold coeff.
    assert (F : dfind k d = None) by (apply dfind_none_notin; assumption). rewrite F. lia.
  - rewrite !coeff_cons. rewrite IH by assumption. reflexivity.
Qed.
Lemma Forall_dnz : forall (P : mono * Z -> Prop) d, Forall P d -> Forall (fun p => P p /\ snd p <> 0) (dnz d).
Proof.
  intros P d H. apply Forall_forall. intros p Hp. apply filter_In in Hp as [Hp Hz].
  split; [eapply Forall_forall; eassumption|]. destruct (snd p =? 0) eqn:E; [discriminate|lia].
Qed.

(* ---------------------------------------------------------------- operator+= / -= / unary minus *)
Lemma dict_ok_keys : forall n d, dict_ok n d -> NoDup (map fst d).
Proof. intros n d [H _]. exact H. Qed.

Lemma dadd_step_coeff : forall d k c m, NoDup (map fst d) ->
  coeff (dadd_step d (k, c)) m = coeff d m + c * ind k m.
Proof.
  intros d k c m ND. unfold dadd_step. simpl fst. simpl snd. unfold ind. rewrite (mono_eqb_sym k m).
  destruct (dfind k d) as [t|] eqn:F.
  - destruct (t + c =? 0) eqn:Ez.
    + unfold coeff. rewrite dfind_derase by assumption.
      destruct (mono_eqb m k) eqn:E; [|lia].
      apply mono_eqb_eq in E. subst. rewrite F. lia.
    + unfold coeff. rewrite dfind_dupd. destruct (mono_eqb m k) eqn:E; [|lia].
      apply mono_eqb_eq in E. subst. rewrite F. lia.
  - rewrite coeff_cons. destruct (mono_eqb m k) eqn:E; [|lia].
    apply mono_eqb_eq in E. subst. unfold coeff. rewrite F. lia.
Qed.
Lemma dsub_step_coeff : forall d k c m, NoDup (map fst d) ->
  coeff (dsub_step d (k, c)) m = coeff d m - c * ind k m.
Proof.
  intros d k c m ND. unfold dsub_step. simpl fst. simpl snd. unfold ind. rewrite (mono_eqb_sym k m).
  destruct (dfind k d) as [t|] eqn:F.
  - destruct (t - c =? 0) eqn:Ez.
    + unfold coeff. rewrite dfind_derase by assumption.
      destruct (mono_eqb m k) eqn:E; [|lia].
      apply mono_eqb_eq in E. subst. rewrite F. lia.
    + unfold coeff. rewrite dfind_dupd. destruct (mono_eqb m k) eqn:E; [|lia].
      apply mono_eqb_eq in E. subst. rewrite F. lia.
  - rewrite coeff_cons. destruct (mono_eqb m k) eqn:E; [|lia].
    apply mono_eqb_eq in E. subst. unfold coeff. rewrite F. lia.
Qed.

Lemma dadd_step_ok : forall n d k c, dict_ok n d -> key_ok n k -> c <> 0 -> dict_ok n (dadd_step d (k, c)).
Proof.
  intros n d k c [ND HF] Hk Hc. unfold dadd_step. simpl fst. simpl snd.
  destruct (dfind k d) as [t|] eqn:F.
  - destruct (t + c =? 0) eqn:Ez.
    + split; [apply NoDup_derase; assumption|apply Forall_derase; assumption].
    + split; [rewrite keys_dupd; assumption|]. apply Forall_dupd; [assumption|]. simpl. split; [assumption|lia].
  - split.
    + simpl. constructor; [apply dfind_none_notin; assumption|assumption].
    + constructor; [simpl; split; assumption|assumption].
Qed.
Lemma dsub_step_ok : forall n d k c, dict_ok n d -> key_ok n k -> c <> 0 -> dict_ok n (dsub_step d (k, c)).
Proof.
  intros n d k c [ND HF] Hk Hc. unfold dsub_step. simpl fst. simpl snd.
  destruct (dfind k d) as [t|] eqn:F.
  - destruct (t - c =? 0) eqn:Ez.
    + split; [apply NoDup_derase; assumption|apply Forall_derase; assumption].
    + split; [rewrite keys_dupd; assumption|]. apply Forall_dupd; [assumption|]. simpl. split; [assumption|lia].
  - split.
    + simpl. constructor; [apply dfind_none_notin; assumption|assumption].
    + constructor; [simpl; split; [assumption|lia]|assumption].
Qed.

Lemma fold_dadd : forall n B A, dict_ok n A -> Forall (fun p => key_ok n (fst p) /\ snd p <> 0) B ->
  dict_ok n (fold_left dadd_step B A) /\
  forall m, coeff (fold_left dadd_step B A) m = coeff A m + coeffL B m.
Proof.
  induction B as [|[k c] B IH]; intros A HA HB; simpl.
  - split; [assumption|]. intros m. rewrite coeffL_nil. ring.
  - inversion HB as [|? ? [Hk Hc] HB']; subst. simpl in Hk, Hc.
    destruct (IH (dadd_step A (k, c))) as [H1 H2]; [apply dadd_step_ok; assumption|assumption|].
    split; [assumption|]. intros m. rewrite H2. rewrite dadd_step_coeff by (eapply dict_ok_keys; eassumption).
    rewrite coeffL_cons. ring.
Qed.
Lemma fold_dsub : forall n B A, dict_ok n A -> Forall (fun p => key_ok n (fst p) /\ snd p <> 0) B ->
  dict_ok n (fold_left dsub_step B A) /\
  forall m, coeff (fold_left dsub_step B A) m = coeff A m - coeffL B m.
Proof.
  induction B as [|[k c] B IH]; intros A HA HB; simpl.
  - split; [assumption|]. intros m. rewrite coeffL_nil. ring.
  - inversion HB as [|? ? [Hk Hc] HB']; subst. simpl in Hk, Hc.
    destruct (IH (dsub_step A (k, c))) as [H1 H2]; [apply dsub_step_ok; assumption|assumption|].
    split; [assumption|]. intros m. rewrite H2. rewrite dsub_step_coeff by (eapply dict_ok_keys; eassumption).
    rewrite coeffL_cons. ring.
Qed.

(* operator+= : the sum of the two coefficient functions, well-formed *)
Theorem cadd_spec : forall a b, cont_ok a -> cont_ok b -> csize a = csize b ->
  cont_ok (cadd a b) /\ csize (cadd a b) = csize a /\
  forall m, coeff (cdict (cadd a b)) m = coeff (cdict a) m + coeff (cdict b) m.
Proof.
  intros a b Ha Hb E. unfold cont_ok in *. rewrite <- E in Hb.
  destruct (fold_dadd _ (cdict b) (cdict a) Ha (proj2 Hb)) as [H1 H2].
  split; [assumption|]. split; [reflexivity|].
  intros m. simpl. rewrite H2. rewrite (coeff_coeffL (cdict b)) by (eapply dict_ok_keys; eassumption). reflexivity.
Qed.
Theorem csub_spec : forall a b, cont_ok a -> cont_ok b -> csize a = csize b ->
  cont_ok (csub a b) /\ csize (csub a b) = csize a /\
  forall m, coeff (cdict (csub a b)) m = coeff (cdict a) m - coeff (cdict b) m.
Proof.
  intros a b Ha Hb E. unfold cont_ok in *. rewrite <- E in Hb.
  destruct (fold_dsub _ (cdict b) (cdict a) Ha (proj2 Hb)) as [H1 H2].
  split; [assumption|]. split; [reflexivity|].
  intros m. simpl. rewrite H2. rewrite (coeff_coeffL (cdict b)) by (eapply dict_ok_keys; eassumption). reflexivity.
Qed.

Lemma dfind_scale : forall (x : Z) d m,
  dfind m (map (fun p => (fst p, snd p * x)) d) = option_map (fun c => c * x) (dfind m d).
Proof.
  induction d as [|[k c] d IH]; intros m; simpl; [reflexivity|].
  destruct (mono_eqb m k); [reflexivity|apply IH].
Qed.
Lemma keys_scale : forall (x : Z) (d : dict), map fst (map (fun p => (fst p, snd p * x)) d) = map fst d.
Proof. intros x d. rewrite map_map. reflexivity. Qed.

Theorem cneg_spec : forall a, cont_ok a ->
  cont_ok (cneg a) /\ csize (cneg a) = csize a /\
  forall m, coeff (cdict (cneg a)) m = - coeff (cdict a) m.
Proof.
  intros a [ND HF]. split; [|split; [reflexivity|]].
  - split.
    + simpl. rewrite keys_scale. assumption.
    + simpl. apply Forall_forall. intros p Hp. apply in_map_iff in Hp as [[k c] [E Hp]]. subst p. simpl.
      rewrite Forall_forall in HF. destruct (HF _ Hp) as [Hk Hc]. simpl in *. split; [assumption|lia].
  - intros m. simpl. unfold coeff. rewrite dfind_scale. destruct (dfind m (cdict a)); simpl; lia.
Qed.
