(* C22 obligation: neg_mpoly keeps the generators and negates every coefficient. *)
From SE Require Import C22.MPolySpec C22.MPolyDict C22.MPolyRec C22.MPolyArith C22.MPolyOps
  C22.MPolyPow C22.MPolyEval C22.MPolyEq C22.MPolyInst C22.MPolyMain.
Local Open Scope Z_scope.
Theorem C22_mneg_spec :
  forall (V : Type) (vlt : V -> V -> bool) (a : mpoly V), poly_ok vlt a ->
    poly_ok vlt (mneg a) /\ pvars (mneg a) = pvars a /\
    forall m, coeff (cdict (pcont (mneg a))) m = coeffL (t_neg (cdict (pcont a))) m.
Proof. exact @mneg_spec. Qed.
Print Assumptions C22_mneg_spec.
