(* C22 obligation: pow_mpoly terminates within its fuel for EVERY exponent (0 included: the loop
   `while (p != 1)` is guarded by `if (p == 0) return res;` since fix 79085be) and returns the n-fold
   schoolbook product (exponents added as the code adds them). *)
From SE Require Import C22.MPolySpec C22.MPolyDict C22.MPolyRec C22.MPolyArith C22.MPolyOps
  C22.MPolyPow C22.MPolyEval C22.MPolyEq C22.MPolyInst C22.MPolyMain.
Local Open Scope Z_scope.
Theorem C22_mpow_spec :
  forall (V : Type) (vlt : V -> V -> bool) (a : mpoly V) (n : N), poly_ok vlt a ->
    exists r, mpow (pow_fuel n) a n = Ok r /\ poly_ok vlt r /\ pvars r = pvars a /\
      forall m, coeff (cdict (pcont r)) m =
                coeffL (t_pow uadd (length (pvars a)) (cdict (pcont a)) (N.to_nat n)) m.
Proof. exact @mpow_spec_w. Qed.
Print Assumptions C22_mpow_spec.
