(* C22 obligation: __eq__ is true exactly when both polynomials are the same constant (whatever
   their generators) or have the same generators and the same coefficient function. *)
From SE Require Import C22.MPolySpec C22.MPolyDict C22.MPolyRec C22.MPolyArith C22.MPolyOps
  C22.MPolyPow C22.MPolyEval C22.MPolyEq C22.MPolyInst C22.MPolyMain.
Local Open Scope Z_scope.
Theorem C22_meq_iff :
  forall (V : Type) (vlt veqb : V -> V -> bool), order_laws vlt veqb ->
  forall a b : mpoly V, poly_ok vlt a -> poly_ok vlt b ->
    (meq veqb a b = true <->
     ((forall m, m <> zeros (len (pvars a)) -> coeff (cdict (pcont a)) m = 0) /\
      (forall m, m <> zeros (len (pvars b)) -> coeff (cdict (pcont b)) m = 0) /\
      coeff (cdict (pcont a)) (zeros (len (pvars a))) = coeff (cdict (pcont b)) (zeros (len (pvars b)))) \/
     (pvars a = pvars b /\ forall m, coeff (cdict (pcont a)) m = coeff (cdict (pcont b)) m)).
Proof. exact @meq_iff. Qed.
Print Assumptions C22_meq_iff.
