(* C22 -- the instance used by the correspondence: generators are Symbols (given by their names),
   ordered by RCPBasicKeyLess as modelled in Expr/Cmp.v.  The order laws needed by the generic
   theorems follow from the C02 theorem [keyless_strict_weak_order]. *)
From SE Require Import C22.MPolySpec.
From SE Require Import Expr.ExprDefs Expr.Cmp Expr.Wf Expr.NumProofs Expr.CmpProofs.
From Coq Require Import Lia.

Lemma sym_eqb_bytes : forall a b, sym_eqb a b = bytes_eqb a b.
Proof. reflexivity. Qed.

Lemma sym_eqb_eq : forall a b, sym_eqb a b = true <-> a = b.
Proof.
  intros a b. rewrite sym_eqb_bytes. unfold bytes_eqb. rewrite Z.eqb_eq. apply bytes_cmp_eq.
Qed.

Theorem sym_order_laws : order_laws sym_lt sym_eqb.
Proof.
  destruct keyless_strict_weak_order as [Irr [Tr Tot]].
  constructor.
  - intros a. apply (Irr (ESym a)). reflexivity.
  - intros a b c. apply (Tr (ESym a) (ESym b) (ESym c)); reflexivity.
  - intros a b H1 H2. apply sym_eqb_eq. apply (Tot (ESym a) (ESym b)); [reflexivity|reflexivity|].
    split; assumption.
  - apply sym_eqb_eq.
Qed.
