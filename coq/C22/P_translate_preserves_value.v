(* C22 obligation: translating a well-formed container with the translator computed by reconcile
   never leaves a vector (no ErrOOB), gives a well-formed container over the union, and denotes
   the same polynomial: every term keeps its coefficient and every generator its exponent. *)
From SE Require Import C22.MPolySpec C22.MPolyDict C22.MPolyRec C22.MPolyArith C22.MPolyOps
  C22.MPolyPow C22.MPolyEval C22.MPolyEq C22.MPolyInst C22.MPolyMain.
Local Open Scope Z_scope.
Theorem C22_translate_preserves_value :
  forall (V : Type) (vlt veqb : V -> V -> bool), order_laws vlt veqb ->
  forall (s1 s2 : list V) (a : cont), sorted vlt s1 -> sorted vlt s2 ->
    cont_ok a -> csize a = len s1 ->
    let '(v1, v2, s, sz) := reconcile vlt veqb s1 s2 in
    exists r, ctranslate a v1 sz = Ok r /\ cont_ok r /\ csize r = len s /\
      (forall m, coeff (cdict r) m = coeffL (lift veqb s s1 (cdict a)) m) /\
      (forall k u, In u s -> expo veqb s (embed veqb s s1 k) u = expo veqb s1 k u).
Proof. exact @translate_preserves_value. Qed.
Print Assumptions C22_translate_preserves_value.
