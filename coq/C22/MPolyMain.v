(* C22 -- final statements (what the obligation files P_*.v quote), a few corollaries that make
   the specification functions self-explanatory, and the refutation witnesses for the unguarded
   "true arithmetic" statements (32-bit exponent wrap). *)
From SE Require Import C22.MPolySpec C22.MPolyDict C22.MPolyRec C22.MPolyArith C22.MPolyOps
  C22.MPolyPow C22.MPolyEval C22.MPolyEq C22.MPolyInst.
From Coq Require Import Lia ZifyBool ZifyNat ZifyN Sorted.
Local Open Scope Z_scope.

Section Main.
  Context {V : Type}.
  Variable vlt : V -> V -> bool.
  Variable veqb : V -> V -> bool.
  Hypothesis laws : order_laws vlt veqb.

  (* [index_in] is the position, [expo] reads an exponent by generator, [embed] keeps every
     generator's exponent: the specification functions mean what their names say *)
  Lemma index_in_nth : forall s x, In x s -> nth_error s (N.to_nat (index_in veqb s x)) = Some x.
  Proof.
    induction s as [|y s IH]; intros x H; [destruct H|].
    cbn [index_in]. destruct (veqb y x) eqn:E.
    - apply (ol_eqb vlt veqb laws) in E. subst. reflexivity.
    - destruct H as [H|H]; [subst; rewrite (veqb_refl vlt veqb laws) in E; discriminate|].
      replace (N.to_nat (1 + index_in veqb s x)) with (S (N.to_nat (index_in veqb s x))) by lia.
      cbn [nth_error]. apply IH. assumption.
  Qed.

  Lemma expo_map : forall U (f : V -> N) u, In u U -> expo veqb U (map f U) u = f u.
  Proof.
    induction U as [|x U IH]; intros f u H; [destruct H|].
    cbn [map expo]. destruct (veqb x u) eqn:E.
    - apply (ol_eqb vlt veqb laws) in E. subst. reflexivity.
    - destruct H as [H|H]; [subst; rewrite (veqb_refl vlt veqb laws) in E; discriminate|]. apply IH. assumption.
  Qed.

  Lemma expo_embed : forall U S k u, In u U -> expo veqb U (embed veqb U S k) u = expo veqb S k u.
  Proof. intros. unfold embed. apply expo_map. assumption. Qed.

  Lemma positions_0 : forall s i, positions veqb 0 s i = map (index_in veqb s) i.
  Proof. intros. unfold positions. apply map_ext. intros. lia. Qed.

  (* reconcile: sorted union, translators = positions, size *)
  Theorem reconcile_spec_main : forall s1 s2, sorted vlt s1 -> sorted vlt s2 ->
    let '(v1, v2, s, sz) := reconcile vlt veqb s1 s2 in
    sorted vlt s /\ (forall y, In y s <-> In y s1 \/ In y s2) /\
    v1 = map (index_in veqb s) s1 /\ v2 = map (index_in veqb s) s2 /\ sz = len s /\
    (forall x, In x s -> nth_error s (N.to_nat (index_in veqb s x)) = Some x).
  Proof.
    intros s1 s2 H1 H2. pose proof (reconcile_spec vlt veqb laws s1 s2 H1 H2) as R.
    destruct (reconcile vlt veqb s1 s2) as [[[v1 v2] s] sz].
    destruct R as [Ss [Hin [_ [_ [E1 [E2 Esz]]]]]].
    split; [assumption|]. split; [assumption|]. rewrite positions_0 in E1, E2.
    split; [assumption|]. split; [assumption|]. split; [assumption|]. apply index_in_nth.
  Qed.

  (* translate with the translator computed by reconcile: same polynomial over the union;
     every key keeps the exponent of every generator *)
  Theorem translate_preserves_value : forall s1 s2 a, sorted vlt s1 -> sorted vlt s2 ->
    cont_ok a -> csize a = len s1 ->
    let '(v1, v2, s, sz) := reconcile vlt veqb s1 s2 in
    exists r, ctranslate a v1 sz = Ok r /\ cont_ok r /\ csize r = len s /\
      (forall m, coeff (cdict r) m = coeffL (lift veqb s s1 (cdict a)) m) /\
      (forall k u, In u s -> expo veqb s (embed veqb s s1 k) u = expo veqb s1 k u).
  Proof.
    intros s1 s2 a H1 H2 Oa Ea. pose proof (reconcile_spec vlt veqb laws s1 s2 H1 H2) as R.
    destruct (reconcile vlt veqb s1 s2) as [[[v1 v2] s] sz].
    destruct R as [Ss [Hin [Sub1 [_ [E1 [_ Esz]]]]]]. subst v1 sz.
    destruct (ctranslate_spec vlt veqb laws s s1 a Sub1 Ss Oa Ea) as [r [Er [Or [Sr Cr]]]].
    exists r. split; [assumption|]. split; [assumption|]. split; [assumption|]. split; [assumption|].
    intros k u Hu. apply expo_embed. assumption.
  Qed.
End Main.

(* ---------------------------------------------------------------- refutations (Symbols) *)
Definition sx : sym := [120%N].                      (* "x" *)
Definition big_x : spoly := mkPoly [sx] (mkCont [([2147483648%N], 1)] 1).   (* x**(2**31) *)
Definition x65536 : spoly := mkPoly [sx] (mkCont [([65536%N], 1)] 1).       (* x**65536 *)

Lemma single_ok : forall e, (e < W32)%N -> poly_ok sym_lt (mkPoly [sx] (mkCont [([e], 1)] 1)).
Proof.
  intros e He. unfold poly_ok. cbn [pvars pcont]. split; [|split].
  - constructor; constructor.
  - reflexivity.
  - unfold cont_ok, dict_ok. cbn [cdict csize map fst]. split.
    + constructor; [intros []|constructor].
    + constructor; [|constructor]. cbn [fst snd]. split; [|discriminate].
      split; [reflexivity|]. constructor; [assumption|constructor].
Qed.

(* the product computed by mul_mpoly is NOT the mathematical product when exponents reach 2^32 *)
Theorem mmul_true_refuted :
  exists a b r : spoly, poly_ok sym_lt a /\ poly_ok sym_lt b /\ s_mul a b = Ok r /\
    exists m, coeff (cdict (pcont r)) m <>
              coeffL (t_mul N.add (lift sym_eqb (pvars r) (pvars a) (cdict (pcont a)))
                                  (lift sym_eqb (pvars r) (pvars b) (cdict (pcont b)))) m.
Proof.
  exists big_x, big_x. eexists. split; [apply single_ok; reflexivity|]. split; [apply single_ok; reflexivity|].
  split; [vm_compute; reflexivity|]. exists [0%N]. vm_compute. discriminate.
Qed.

Theorem mpow_true_refuted :
  exists (a : spoly) (n : N) (r : spoly), poly_ok sym_lt a /\ s_pow a n = Ok r /\
    exists m, coeff (cdict (pcont r)) m <>
              coeffL (t_pow N.add (length (pvars a)) (cdict (pcont a)) (N.to_nat n)) m.
Proof.
  exists big_x, 2%N. eexists. split; [apply single_ok; reflexivity|].
  split; [vm_compute; reflexivity|]. exists [0%N]. vm_compute. discriminate.
Qed.
