(* C22 obligation: mul_mpoly (operator*= with its three shortcuts, UDictWrapper::mul) over ANY two
   generator sets succeeds, is well-formed over the union, and is the schoolbook product of the
   operands written over the union -- with exponents added as the code adds them (unsigned 32-bit).
   The statement with mathematical exponent addition is refuted (P_mmul_true_refuted.v) and
   proved under the no-wrap guard (P_mmul_spec_guarded.v). *)
From SE Require Import C22.MPolySpec C22.MPolyDict C22.MPolyRec C22.MPolyArith C22.MPolyOps
  C22.MPolyPow C22.MPolyEval C22.MPolyEq C22.MPolyInst C22.MPolyMain.
Local Open Scope Z_scope.
Theorem C22_mmul_spec :
  forall (V : Type) (vlt veqb : V -> V -> bool), order_laws vlt veqb ->
  forall a b : mpoly V, poly_ok vlt a -> poly_ok vlt b ->
    exists r, mmul vlt veqb a b = Ok r /\ poly_ok vlt r /\
      (forall v, In v (pvars r) <-> In v (pvars a) \/ In v (pvars b)) /\
      forall m, coeff (cdict (pcont r)) m =
        coeffL (t_mul uadd (lift veqb (pvars r) (pvars a) (cdict (pcont a)))
                   (lift veqb (pvars r) (pvars b) (cdict (pcont b)))) m.
Proof. exact @mmul_spec_w. Qed.
Print Assumptions C22_mmul_spec.
