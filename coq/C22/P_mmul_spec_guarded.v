(* C22 obligation: when the largest exponents of the operands add up to less than 2^32, mul_mpoly is
   the mathematical schoolbook product over the union of the generators. *)
From SE Require Import C22.MPolySpec C22.MPolyDict C22.MPolyRec C22.MPolyArith C22.MPolyOps
  C22.MPolyPow C22.MPolyEval C22.MPolyEq C22.MPolyInst C22.MPolyMain.
Local Open Scope Z_scope.
Theorem C22_mmul_spec_guarded :
  forall (V : Type) (vlt veqb : V -> V -> bool), order_laws vlt veqb ->
  forall a b : mpoly V, poly_ok vlt a -> poly_ok vlt b ->
    (tmax (cdict (pcont a)) + tmax (cdict (pcont b)) < W32)%N ->
    exists r, mmul vlt veqb a b = Ok r /\ poly_ok vlt r /\
      (forall v, In v (pvars r) <-> In v (pvars a) \/ In v (pvars b)) /\
      forall m, coeff (cdict (pcont r)) m =
        coeffL (t_mul N.add (lift veqb (pvars r) (pvars a) (cdict (pcont a)))
                   (lift veqb (pvars r) (pvars b) (cdict (pcont b)))) m.
Proof. exact @mmul_spec_guarded. Qed.
Print Assumptions C22_mmul_spec_guarded.
