(* C22 -- pow_mpoly (UDictWrapper::pow, binary exponentiation): terminates within its fuel for
   every exponent (0 included) and yields the n-fold schoolbook product. *)
From SE Require Import C22.MPolySpec C22.MPolyDict C22.MPolyRec C22.MPolyArith C22.MPolyOps.
From Coq Require Import Lia ZifyBool ZifyNat ZifyN Sorted.
Local Open Scope Z_scope.

Lemma t_pow_keys_ok : forall nv A n, keys_ok nv A -> keys_ok nv (t_pow uadd nv A n).
Proof.
  intros nv A n H. induction n as [|n IH]; cbn [t_pow].
  - constructor; [apply zeros_ok|constructor].
  - apply t_mul_keys_ok; assumption.
Qed.

Lemma t_pow_add : forall nv A i j, keys_ok nv A ->
  peq (t_mul uadd (t_pow uadd nv A i) (t_pow uadd nv A j)) (t_pow uadd nv A (i + j)).
Proof.
  intros nv A i j H. induction i as [|i IH]; cbn [t_pow Nat.add].
  - rewrite t_mul_one_l by (apply t_pow_keys_ok; assumption). apply peq_refl.
  - eapply peq_trans; [apply t_mul_assoc_w|]. apply t_mul_peq; [apply peq_refl|exact IH].
Qed.

Definition denotes (x : cont) (L : terms) : Prop := forall m, coeff (cdict x) m = coeffL L m.

Lemma denotes_peq : forall x L, cont_ok x -> denotes x L -> peq (cdict x) L.
Proof. intros x L [ND _] H m. rewrite <- coeff_coeffL by assumption. apply H. Qed.
Lemma denotes_trans : forall x L L', denotes x L -> peq L L' -> denotes x L'.
Proof. intros x L L' H P m. rewrite H. apply P. Qed.

Lemma cmul_denotes : forall x y A B, cont_ok x -> cont_ok y -> csize x = csize y ->
  denotes x A -> denotes y B ->
  exists r, cmul x y = Ok r /\ cont_ok r /\ csize r = csize x /\ denotes r (t_mul uadd A B).
Proof.
  intros x y A B Ox Oy E Dx Dy. destruct (cmul_spec x y Ox Oy E) as [r [Er [Or [Sr Cr]]]].
  exists r. split; [assumption|]. split; [assumption|]. split; [assumption|].
  intros m. rewrite Cr. apply t_mul_peq; apply denotes_peq; assumption.
Qed.

Lemma Npos_xO_mod : forall q, (N.pos q~0 mod 2 = 0)%N.
Proof. intros q. replace (N.pos q~0) with (N.pos q * 2)%N by (rewrite N.mul_comm; reflexivity). apply N.mod_mul. discriminate. Qed.
Lemma Npos_xO_div : forall q, (N.pos q~0 / 2 = N.pos q)%N.
Proof. intros q. replace (N.pos q~0) with (N.pos q * 2)%N by (rewrite N.mul_comm; reflexivity). apply N.div_mul. discriminate. Qed.
Lemma Npos_xI_mod : forall q, (N.pos q~1 mod 2 = 1)%N.
Proof.
  intros q. replace (N.pos q~1) with (1 + N.pos q * 2)%N by (rewrite N.mul_comm; reflexivity). rewrite N.mod_add by discriminate. reflexivity.
Qed.
Lemma Npos_xI_div : forall q, (N.pos q~1 / 2 = N.pos q)%N.
Proof.
  intros q. replace (N.pos q~1) with (1 + N.pos q * 2)%N by (rewrite N.mul_comm; reflexivity). rewrite N.div_add by discriminate. reflexivity.
Qed.

Lemma cpow_loop_spec : forall nv A, keys_ok nv A -> forall q fuel tmp rs T R,
  (Pos.size_nat q <= fuel)%nat ->
  cont_ok tmp -> cont_ok rs -> csize tmp = csize rs ->
  denotes tmp (t_pow uadd nv A T) -> denotes rs (t_pow uadd nv A R) ->
  exists r, cpow_loop fuel tmp rs (N.pos q) = Ok r /\ cont_ok r /\ csize r = csize rs /\
    denotes r (t_pow uadd nv A (R + T * Pos.to_nat q)).
Proof.
  intros nv A HA. induction q as [q IH|q IH|]; intros fuel tmp rs T R Hf Ot Or Es Dt Dr;
    (destruct fuel as [|f]; [simpl in Hf; lia|]); cbn [cpow_loop].
  - (* q~1 : odd *)
    change (N.pos q~1 =? 1)%N with false. cbv iota. rewrite Npos_xI_mod, Npos_xI_div.
    change (1 =? 0)%N with false. cbv iota.
    destruct (cmul_denotes rs tmp _ _ Or Ot (eq_sym Es) Dr Dt) as [r1 [E1 [O1 [S1 D1]]]].
    destruct (cmul_denotes tmp tmp _ _ Ot Ot eq_refl Dt Dt) as [t1 [E2 [O2 [S2 D2]]]].
    rewrite E1. cbn [bind]. rewrite E2. cbn [bind].
    destruct (IH f t1 r1 (T + T)%nat (R + T)%nat) as [r [Er [Orr [Sr Drr]]]].
    + simpl in Hf. lia.
    + assumption.
    + assumption.
    + congruence.
    + eapply denotes_trans; [exact D2|]. apply t_pow_add. assumption.
    + eapply denotes_trans; [exact D1|]. apply t_pow_add. assumption.
    + exists r. split; [assumption|]. split; [assumption|]. split; [congruence|].
      replace (R + T * Pos.to_nat q~1)%nat with (R + T + (T + T) * Pos.to_nat q)%nat
        by (rewrite Pos2Nat.inj_xI; nia). assumption.
  - (* q~0 : even *)
    change (N.pos q~0 =? 1)%N with false. cbv iota. rewrite Npos_xO_mod, Npos_xO_div.
    change (0 =? 0)%N with true. cbv iota.
    destruct (cmul_denotes tmp tmp _ _ Ot Ot eq_refl Dt Dt) as [t1 [E2 [O2 [S2 D2]]]].
    rewrite E2. cbn [bind].
    destruct (IH f t1 rs (T + T)%nat R) as [r [Er [Orr [Sr Drr]]]].
    + simpl in Hf. lia.
    + assumption.
    + assumption.
    + congruence.
    + eapply denotes_trans; [exact D2|]. apply t_pow_add. assumption.
    + assumption.
    + exists r. split; [assumption|]. split; [assumption|]. split; [assumption|].
      replace (R + T * Pos.to_nat q~0)%nat with (R + (T + T) * Pos.to_nat q)%nat
        by (rewrite Pos2Nat.inj_xO; nia). assumption.
  - (* 1 *)
    change (1 =? 1)%N with true. cbv iota.
    destruct (cmul_denotes rs tmp _ _ Or Ot (eq_sym Es) Dr Dt) as [r1 [E1 [O1 [S1 D1]]]].
    exists r1. split; [assumption|]. split; [assumption|]. split; [assumption|].
    replace (R + T * Pos.to_nat 1)%nat with (R + T)%nat by (rewrite Pos2Nat.inj_1; lia).
    eapply denotes_trans; [exact D1|]. apply t_pow_add. assumption.
Qed.

Lemma size_nat_size : forall q, Pos.to_nat (Pos.size q) = Pos.size_nat q.
Proof. induction q as [q IH|q IH|]; simpl; rewrite ?Pos2Nat.inj_succ, ?IH; reflexivity. Qed.

(* UDictWrapper::pow: for every exponent the loop ends within [pow_fuel n] rounds and the result
   is the n-fold product (exponents added as the code adds them, modulo 2^32) *)
Theorem cpow_spec : forall a n, cont_ok a ->
  exists r, cpow (pow_fuel n) a n = Ok r /\ cont_ok r /\ csize r = csize a /\
    denotes r (t_pow uadd (N.to_nat (csize a)) (cdict a) (N.to_nat n)).
Proof.
  intros a n Oa. unfold cpow.
  set (one := {| cdict := [(zeros (csize a), 1)]; csize := csize a |}).
  assert (O1 : cont_ok one).
  { unfold cont_ok, one. cbn [cdict csize]. split.
    - cbn [map fst]. constructor; [intros []|constructor].
    - constructor; [|constructor]. cbn [fst snd]. split; [apply zeros_ok|discriminate]. }
  assert (D1 : denotes one (t_pow uadd (N.to_nat (csize a)) (cdict a) 0)).
  { intros m. rewrite coeff_coeffL by (apply O1). reflexivity. }
  destruct n as [|q].
  - change (0 =? 0)%N with true. cbv iota. exists one. split; [reflexivity|]. split; [assumption|].
    split; [reflexivity|]. exact D1.
  - change (N.pos q =? 0)%N with false. cbv iota.
    destruct (cpow_loop_spec (N.to_nat (csize a)) (cdict a) (cont_ok_keys a Oa) q (pow_fuel (N.pos q)) a one 1%nat 0%nat)
      as [r [Er [Orr [Sr Dr]]]].
    + unfold pow_fuel. cbn [N.size]. change (N.to_nat (N.pos (Pos.size q))) with (Pos.to_nat (Pos.size q)).
      rewrite size_nat_size. lia.
    + assumption.
    + assumption.
    + reflexivity.
    + intros m. cbn [t_pow]. rewrite t_mul_one_r by (apply cont_ok_keys; assumption).
      apply coeff_coeffL. apply Oa.
    + exact D1.
    + exists r. split; [assumption|]. split; [assumption|]. split; [assumption|].
      replace (N.to_nat (N.pos q)) with (0 + 1 * Pos.to_nat q)%nat by (simpl; lia). assumption.
Qed.

(* ---------------------------------------------------------------- no wrap => true arithmetic *)
Lemma kmax_kadd : forall a b, (kmax (kadd N.add a b) <= kmax a + kmax b)%N.
Proof.
  induction a as [|x a IH]; intros b; [cbn; lia|].
  destruct b as [|y b]; [cbn [kadd]; cbn; lia|]. cbn [kadd]. rewrite !kmax_cons. specialize (IH b). lia.
Qed.
Lemma tmax_app : forall A B, tmax (A ++ B) = N.max (tmax A) (tmax B).
Proof.
  induction A as [|[k c] A IH]; intros B; [cbn [app]; cbn; lia|].
  cbn [app]. rewrite !tmax_cons, IH. lia.
Qed.
Lemma tmax_t_scale : forall ka ca B, (tmax (t_scale N.add ka ca B) <= kmax ka + tmax B)%N.
Proof.
  intros ka ca. induction B as [|[kb cb] B IH]; [cbn; lia|].
  unfold t_scale in *. cbn [map fst snd]. rewrite !tmax_cons. pose proof (kmax_kadd ka kb). lia.
Qed.
Lemma tmax_t_mul : forall A B, (tmax (t_mul N.add A B) <= tmax A + tmax B)%N.
Proof.
  induction A as [|[ka ca] A IH]; intros B; [cbn; lia|].
  cbn [t_mul]. rewrite tmax_app, tmax_cons. pose proof (tmax_t_scale ka ca B). specialize (IH B). lia.
Qed.
Lemma kmax_zeros : forall n, kmax (repeat 0%N n) = 0%N.
Proof. induction n as [|n IH]; [reflexivity|]. cbn [repeat]. rewrite kmax_cons, IH. reflexivity. Qed.
Lemma tmax_t_pow : forall nv A n, (tmax (t_pow N.add nv A n) <= N.of_nat n * tmax A)%N.
Proof.
  intros nv A. induction n as [|n IH]; cbn [t_pow].
  - rewrite tmax_cons, kmax_zeros. cbn. lia.
  - pose proof (tmax_t_mul A (t_pow N.add nv A n)). nia.
Qed.
Lemma t_pow_nowrap : forall nv A n, (N.of_nat n * tmax A < W32)%N ->
  t_pow uadd nv A n = t_pow N.add nv A n.
Proof.
  intros nv A. induction n as [|n IH]; intros H; cbn [t_pow]; [reflexivity|].
  rewrite IH by nia. apply t_mul_nowrap. pose proof (tmax_t_pow nv A n). nia.
Qed.

Section Pow.
  Context {V : Type}.
  Variable vlt : V -> V -> bool.

  Theorem mpow_spec_w : forall (a : mpoly V) n, poly_ok vlt a ->
    exists r, mpow (pow_fuel n) a n = Ok r /\ poly_ok vlt r /\ pvars r = pvars a /\
      forall m, coeff (cdict (pcont r)) m =
                coeffL (t_pow uadd (length (pvars a)) (cdict (pcont a)) (N.to_nat n)) m.
  Proof.
    intros a n [Sa [La Oa]]. destruct (cpow_spec (pcont a) n Oa) as [r [Er [Or [Sr Dr]]]].
    unfold mpow. rewrite Er. cbn [bind]. eexists. split; [reflexivity|].
    unfold poly_ok. cbn [pvars pcont]. split; [|split; [reflexivity|]].
    - split; [assumption|]. split; [congruence|assumption].
    - intros m. rewrite (Dr m). rewrite <- La. rewrite len_length. reflexivity.
  Qed.

  Theorem mpow_spec_guarded : forall (a : mpoly V) n, poly_ok vlt a ->
    (n * tmax (cdict (pcont a)) < W32)%N ->
    exists r, mpow (pow_fuel n) a n = Ok r /\ poly_ok vlt r /\ pvars r = pvars a /\
      forall m, coeff (cdict (pcont r)) m =
                coeffL (t_pow N.add (length (pvars a)) (cdict (pcont a)) (N.to_nat n)) m.
  Proof.
    intros a n Ha G. destruct (mpow_spec_w a n Ha) as [r [E [Or [Ev C]]]].
    exists r. split; [assumption|]. split; [assumption|]. split; [assumption|].
    intros m. rewrite C. rewrite t_pow_nowrap; [reflexivity|]. lia.
  Qed.
End Pow.
