(* C22 obligation: polynomials that are __eq__ have the same __hash__ (after fix 6bb32d4), whatever
   the order of the buckets of the unordered_map. *)
From SE Require Import C22.MPolySpec C22.MPolyDict C22.MPolyRec C22.MPolyArith C22.MPolyOps
  C22.MPolyPow C22.MPolyEval C22.MPolyEq C22.MPolyInst C22.MPolyMain.
Local Open Scope Z_scope.
Theorem C22_meq_hash :
  forall (V : Type) (vlt veqb : V -> V -> bool) (vstr : V -> list N), order_laws vlt veqb ->
  forall a b : mpoly V, poly_ok vlt a -> poly_ok vlt b ->
    meq veqb a b = true -> mhash vstr a = mhash vstr b.
Proof. exact @meq_hash. Qed.
Print Assumptions C22_meq_hash.
