(* C22 -- evaluation commutes with pow_mpoly (when no exponent of the power reaches 2^32). *)
From SE Require Import C22.MPolySpec C22.MPolyDict C22.MPolyRec C22.MPolyArith C22.MPolyOps
  C22.MPolyPow C22.MPolyEval.
From Coq Require Import Lia ZifyBool ZifyNat ZifyN Sorted.
Local Open Scope Z_scope.

Notation lens_ok n L := (Forall (fun p : mono * Z => length (fst p) = n) L).

Lemma kadd_length : forall f a b n, length a = n -> length b = n -> length (kadd f a b) = n.
Proof.
  intros f. induction a as [|x a IH]; intros b n La Lb; [destruct b; cbn in *; lia|].
  destruct b as [|y b]; [cbn in *; lia|]. cbn [kadd length]. destruct n as [|n]; [cbn in *; lia|].
  rewrite (IH b n) by (cbn in *; lia). reflexivity.
Qed.
Lemma t_mul_lens : forall f n A B, lens_ok n A -> lens_ok n B -> lens_ok n (t_mul f A B).
Proof.
  intros f n. induction A as [|[ka ca] A IH]; intros B HA HB; cbn [t_mul]; [constructor|].
  apply Forall_cons_iff in HA as [H1 H2]. apply Forall_app. split; [|apply IH; assumption].
  unfold t_scale. apply Forall_forall. intros p Hp. apply in_map_iff in Hp as [[kb cb] [<- Hq]].
  rewrite Forall_forall in HB. specialize (HB _ Hq). cbn [fst] in *. apply kadd_length; assumption.
Qed.
Lemma t_pow_lens : forall f n A k, lens_ok n A -> lens_ok n (t_pow f n A k).
Proof.
  intros f n A k H. induction k as [|k IH]; cbn [t_pow].
  - constructor; [cbn [fst]; apply repeat_length|constructor].
  - apply t_mul_lens; assumption.
Qed.
Lemma monoval_zeros : forall rho, monoval rho (repeat 0%N (length rho)) = 1.
Proof. induction rho as [|v rho IH]; cbn [length repeat monoval]; [reflexivity|]. rewrite IH. cbn [Z.of_N]. rewrite Z.pow_0_r. ring. Qed.

Lemma evalL_t_pow : forall rho A k, lens_ok (length rho) A ->
  evalL (t_pow N.add (length rho) A k) rho = evalL A rho ^ Z.of_nat k.
Proof.
  intros rho A k H. induction k as [|k IH].
  - cbn [t_pow]. unfold evalL. cbn [sumL]. rewrite monoval_zeros. cbn. ring.
  - cbn [t_pow]. rewrite evalL_t_mul by (try assumption; apply t_pow_lens; assumption).
    rewrite IH. rewrite Nat2Z.inj_succ, Z.pow_succ_r by lia. reflexivity.
Qed.

Section Eval2.
  Context {V : Type}.
  Variable vlt : V -> V -> bool.

  Theorem mpow_eval : forall (a : mpoly V) n vals, poly_ok vlt a -> covers vlt vals (pvars a) ->
    (n * tmax (cdict (pcont a)) < W32)%N ->
    exists r va, mpow (pow_fuel n) a n = Ok r /\ meval vlt a vals = Ok va /\
      meval vlt r vals = Ok (va ^ Z.of_N n).
  Proof.
    intros a n vals Ha Hc G.
    destruct (mpow_spec_guarded vlt a n Ha G) as [r [E [Or [Ev C]]]].
    exists r. eexists. split; [exact E|]. split; [apply meval_spec; assumption|].
    rewrite meval_spec by (try assumption; rewrite Ev; assumption). f_equal. rewrite Ev.
    rewrite (evalL_peq _ (t_pow N.add (length (pvars a)) (cdict (pcont a)) (N.to_nat n))).
    - replace (length (pvars a)) with (length (rho_of vlt vals (pvars a))) by (unfold rho_of; apply map_length).
      rewrite evalL_t_pow.
      + rewrite N_nat_Z. reflexivity.
      + unfold rho_of. rewrite map_length. apply (poly_ok_lengths vlt). assumption.
    - intros m. rewrite <- coeff_coeffL by (apply Or). apply C.
  Qed.
End Eval2.
