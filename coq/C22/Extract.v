(* Extraction of the C22 model (run from the output directory; not part of `make`). *)
From SE Require Import C22.MPolyModel C22.MPolyWfDef.
Require Import ExtrOcamlBasic.
Extraction "mpoly_model.ml"
  s_from_dict s_set_of s_reconcile s_add s_sub s_mul s_neg s_pow s_eval s_eq s_hash mono_eqb s_okb.
