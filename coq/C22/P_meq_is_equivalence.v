(* C22 obligation: MSymEnginePoly::__eq__ (after fix 32f9657: both operands must be constants for the
   constant shortcut) is reflexive, symmetric and transitive on well-formed polynomials. *)
From SE Require Import C22.MPolySpec C22.MPolyDict C22.MPolyRec C22.MPolyArith C22.MPolyOps
  C22.MPolyPow C22.MPolyEval C22.MPolyEq C22.MPolyInst C22.MPolyMain.
Local Open Scope Z_scope.
Theorem C22_meq_is_equivalence :
  forall (V : Type) (vlt veqb : V -> V -> bool), order_laws vlt veqb ->
  (forall a : mpoly V, poly_ok vlt a -> meq veqb a a = true) /\
  (forall a b : mpoly V, poly_ok vlt a -> poly_ok vlt b -> meq veqb a b = true -> meq veqb b a = true) /\
  (forall a b c : mpoly V, poly_ok vlt a -> poly_ok vlt b -> poly_ok vlt c ->
     meq veqb a b = true -> meq veqb b c = true -> meq veqb a c = true).
Proof. exact @meq_is_equivalence. Qed.
Print Assumptions C22_meq_is_equivalence.
