(* C22 obligation: evaluation commutes with pow_mpoly (exponent 0 included) when no exponent of the
   power can reach 2^32. *)
From SE Require Import C22.MPolySpec C22.MPolyPow C22.MPolyEval C22.MPolyEval2.
Local Open Scope Z_scope.
Theorem C22_mpow_eval :
  forall (V : Type) (vlt : V -> V -> bool) (a : mpoly V) (n : N) (vals : list (V * Z)),
    poly_ok vlt a -> covers vlt vals (pvars a) ->
    (n * tmax (cdict (pcont a)) < W32)%N ->
    exists r va, mpow (pow_fuel n) a n = Ok r /\ meval vlt a vals = Ok va /\
      meval vlt r vals = Ok (va ^ Z.of_N n).
Proof. exact (@mpow_eval). Qed.
Print Assumptions C22_mpow_eval.
