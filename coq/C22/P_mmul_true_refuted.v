(* C22 obligation (refutation): without the guard the product is not the mathematical one:
   x**(2**31) * x**(2**31) = 1 in the model -- replayed on the library as
   `mul x/2147483648:1 x/2147483648:1` (known finding C22/exponent-wraps-u32). *)
From SE Require Import C22.MPolySpec C22.MPolyDict C22.MPolyRec C22.MPolyArith C22.MPolyOps
  C22.MPolyPow C22.MPolyEval C22.MPolyEq C22.MPolyInst C22.MPolyMain.
Local Open Scope Z_scope.
Theorem C22_mmul_true_refuted :
  exists a b r : spoly, poly_ok sym_lt a /\ poly_ok sym_lt b /\ s_mul a b = Ok r /\
    exists m, coeff (cdict (pcont r)) m <>
              coeffL (t_mul N.add (lift sym_eqb (pvars r) (pvars a) (cdict (pcont a)))
                                  (lift sym_eqb (pvars r) (pvars b) (cdict (pcont b)))) m.
Proof. exact mmul_true_refuted. Qed.
Print Assumptions C22_mmul_true_refuted.
