(* C22 obligation (refutation): (x**(2**31))**2 = 1 in the model (exponent wrap). *)
From SE Require Import C22.MPolySpec C22.MPolyDict C22.MPolyRec C22.MPolyArith C22.MPolyOps
  C22.MPolyPow C22.MPolyEval C22.MPolyEq C22.MPolyInst C22.MPolyMain.
Local Open Scope Z_scope.
Theorem C22_mpow_true_refuted :
  exists (a : spoly) (n : N) (r : spoly), poly_ok sym_lt a /\ s_pow a n = Ok r /\
    exists m, coeff (cdict (pcont r)) m <>
              coeffL (t_pow N.add (length (pvars a)) (cdict (pcont a)) (N.to_nat n)) m.
Proof. exact mpow_true_refuted. Qed.
Print Assumptions C22_mpow_true_refuted.
