(* C22: the hypotheses of the theorems are satisfiable by non-trivial inputs, and the model computes
   the expected results on them (everything here is evaluated by vm_compute). *)
From SE Require Import C22.MPolySpec C22.MPolyDict C22.MPolyRec C22.MPolyArith C22.MPolyOps
  C22.MPolyPow C22.MPolyEval C22.MPolyEq C22.MPolyInst C22.MPolyMain.
From Coq Require Import Sorted.
Local Open Scope Z_scope.

Definition vx : sym := [120%N].   (* "x" *)
Definition vy : sym := [121%N].   (* "y" *)
Definition vz : sym := [122%N].   (* "z" *)
Definition vaa : sym := [97%N; 97%N].   (* "aa" *)

(* 3*x - 10*y**2 over {x, y};   5*y*z + 10*y**2 - 7 over {y, z}: overlapping generator sets *)
Definition pa : spoly := mkPoly [vx; vy] (mkCont [([1%N; 0%N], 3); ([0%N; 2%N], -10)] 2).
Definition pb : spoly := mkPoly [vy; vz] (mkCont [([1%N; 1%N], 5); ([2%N; 0%N], 10); ([0%N; 0%N], -7)] 2).
(* pa with its buckets in the other order *)
Definition pa' : spoly := mkPoly [vx; vy] (mkCont [([0%N; 2%N], -10); ([1%N; 0%N], 3)] 2).

Ltac ok_tac :=
  unfold poly_ok, sorted, cont_ok, dict_ok, key_ok; cbn [pvars pcont cdict csize map fst snd];
  repeat match goal with
         | |- _ /\ _ => split
         | |- StronglySorted _ _ => constructor
         | |- Forall _ _ => constructor
         | |- NoDup _ => constructor
         | |- ~ In _ _ => cbn [In]; intuition discriminate
         | |- _ <> _ => discriminate
         | |- _ = _ => reflexivity
         | |- (_ < _)%N => reflexivity
         end.

Example pa_ok : poly_ok sym_lt pa.
Proof. unfold pa. ok_tac. Qed.
Example pb_ok : poly_ok sym_lt pb.
Proof. unfold pb. ok_tac. Qed.
Example pa'_ok : poly_ok sym_lt pa'.
Proof. unfold pa'. ok_tac. Qed.

(* the set order is the hash order, not the alphabetical one: "x" < "aa" *)
Example order_is_by_hash : sym_lt vx vaa = true /\ sym_lt vaa vx = false.
Proof. vm_compute. split; reflexivity. Qed.

Example reconcile_overlap :
  s_reconcile [vx; vy] [vy; vz] = ([0%N; 1%N], [1%N; 2%N], [vx; vy; vz], 3%N).
Proof. vm_compute. reflexivity. Qed.

Example add_overlap :
  s_add pa pb = Ok (mkPoly [vx; vy; vz]
                      (mkCont [([0%N; 1%N; 1%N], 5); ([0%N; 0%N; 0%N], -7); ([1%N; 0%N; 0%N], 3)] 3)).
Proof. vm_compute. reflexivity. Qed.

Example guard_holds : (tmax (cdict (pcont pa)) + tmax (cdict (pcont pb)) < W32)%N.
Proof. reflexivity. Qed.

Example mul_overlap : exists r, s_mul pa pb = Ok r /\ pvars r = [vx; vy; vz] /\ length (cdict (pcont r)) = 6%nat.
Proof. eexists. split; [vm_compute; reflexivity|]. split; reflexivity. Qed.

Example pow_zero : s_pow pa 0 = Ok (mkPoly [vx; vy] (mkCont [([0%N; 0%N], 1)] 2)).
Proof. vm_compute. reflexivity. Qed.
Example pow_three : exists r, s_pow pa 3 = Ok r /\ length (cdict (pcont r)) = 4%nat.
Proof. eexists. split; [vm_compute; reflexivity|reflexivity]. Qed.
Example pow_guard_holds : (3 * tmax (cdict (pcont pa)) < W32)%N.
Proof. reflexivity. Qed.

Example covers_holds : covers sym_lt [(vz, 5); (vx, 2); (vy, -3)] (pvars pa).
Proof. repeat constructor; vm_compute; discriminate. Qed.
Example eval_value : s_eval pa [(vz, 5); (vx, 2); (vy, -3)] = Ok (-84).
Proof. vm_compute. reflexivity. Qed.

Example eq_bucket_order : s_eq pa pa' = true /\ s_hash pa = s_hash pa'.
Proof. vm_compute. split; reflexivity. Qed.
Example eq_constants_over_different_generators :
  s_eq (mkPoly [vx] (mkCont [([0%N], 3)] 1)) (mkPoly [vy; vz] (mkCont [([0%N; 0%N], 3)] 2)) = true /\
  s_eq (mkPoly [vx] (mkCont [([1%N], 3)] 1)) (mkPoly [vx] (mkCont [([0%N], 3)] 1)) = false.
Proof. vm_compute. split; reflexivity. Qed.
